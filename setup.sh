#!/bin/sh
# Build the Lean library (model, proofs, property theorems) and the model driver. Offline.
set -e
here="$(cd "$(dirname "$0")" && pwd)"
cd "$here/lean"
lake build Skc skcdriver
