-- Feasibility prototypes for /verif/DESIGN.md (scratch; superseded by the framework).
import Proto.Model
import Proto.Proofs
import Proto.Rank
import Proto.RankProofs
import Proto.Topsis
import Proto.Duality
import Proto.Heap
import Proto.Ranker
import Proto.Select
import Proto.SelectProofs
import Proto.Mat
import Proto.MatProofs
import Proto.DominanceSpec
import Proto.RankProofs2
import Proto.Untied
import Proto.UntiedProofs
