import Lean.Data.Json
import Proto.Rank
open Lean Skc

def parseRat (s : String) : Option Rat :=
  match s.splitOn "/" with
  | [n] => n.toInt?.map (fun i => (i : Rat))
  | [n, d] => do let a ← n.toInt?; let b ← d.toNat?; pure (mkRat a b)
  | _ => none

def handle (j : Json) : Except String Json := do
  let op ← j.getObjValAs? String "op"
  match op with
  | "rank" =>
    let xs ← j.getObjValAs? (Array String) "scores"
    let qs ← xs.toList.mapM (fun s => (parseRat s).elim (.error s!"bad rational {s}") .ok)
    pure (Json.mkObj [("ranks", toJson (denseRank qs))])
  | _ => .error s!"bad-op {op}"

partial def loop (h : IO.FS.Stream) : IO Unit := do
  let line ← h.getLine
  if line.isEmpty then return ()
  match Json.parse line >>= handle with
  | .ok r => IO.println r.compress
  | .error e => IO.println (Json.mkObj [("err", e)]).compress
  loop h
def main : IO Unit := do loop (← IO.getStdin)
