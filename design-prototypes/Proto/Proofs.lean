import Proto.Model
import Mathlib.Algebra.Order.Field.Basic
import Mathlib.Algebra.BigOperators.Fin
import Mathlib.Algebra.Order.BigOperators.Group.Finset
import Mathlib.Analysis.Real.Sqrt
import Mathlib.Analysis.SpecialFunctions.Log.Basic
import Mathlib.Tactic

open Skc

variable {α : Type*} [Field α] [LinearOrder α] [IsStrictOrderedRing α]

theorem dot_eq_sum (r w : List α) : dot r w = (List.zipWith (· * ·) r w).sum := by
  unfold dot
  rw [List.sum_eq_foldl]

/-- spec-layer weighted sum -/
def wsmS {m n : ℕ} (A : Fin m → Fin n → α) (w : Fin n → α) (i : Fin m) : α := ∑ j, A i j * w j

theorem dot_ofFn {n : ℕ} (f g : Fin n → α) : dot (List.ofFn f) (List.ofFn g) = ∑ j, f j * g j := by
  rw [dot_eq_sum]
  have : List.zipWith (· * ·) (List.ofFn f) (List.ofFn g) = List.ofFn (fun j => f j * g j) := by
    apply List.ext_getElem <;> simp
  rw [this, List.sum_ofFn]

theorem wsm_ofFn {m n : ℕ} (A : Fin m → Fin n → α) (w : Fin n → α) :
    wsm (List.ofFn fun i => List.ofFn (A i)) (List.ofFn w) = List.ofFn (wsmS A w) := by
  unfold wsm wsmS
  rw [List.map_ofFn]
  congr 1; funext i; simp [dot_ofFn]

theorem wsmS_mono {m n : ℕ} (A : Fin m → Fin n → α) (w : Fin n → α) (hw : ∀ j, 0 < w j)
    (a b : Fin m) (h : ∀ j, A b j ≤ A a j) : wsmS A w b ≤ wsmS A w a := by
  unfold wsmS
  exact Finset.sum_le_sum fun j _ => mul_le_mul_of_nonneg_right (h j) (hw j).le

theorem wsmS_perm {m n : ℕ} (A : Fin m → Fin n → α) (w : Fin n → α) (σ : Equiv.Perm (Fin n)) (i) :
    wsmS (fun i j => A i (σ j)) (w ∘ σ) i = wsmS A w i := by
  unfold wsmS
  exact Equiv.sum_comp σ (fun j => A i j * w j)

example : Real.log 2 < Real.log 3 := Real.log_lt_log (by norm_num) (by norm_num)
#print axioms wsm_ofFn
#print axioms wsmS_perm
