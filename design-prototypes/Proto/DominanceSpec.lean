import Mathlib.Order.Basic
import Mathlib.Data.Fintype.Card
import Mathlib.Data.Finset.Card
import Mathlib.Order.Fin.Basic
import Mathlib.Tactic

/-! S-layer dominance theory (C06, C07, C12, C14): definition, order laws, and the
count-based criterion used by `core/dominance.py`. -/
namespace Skc.Spec
open Finset

inductive Obj | max | min deriving DecidableEq

variable {α : Type*} [LinearOrder α] {n : ℕ}

/-- `x` is better than `y` under objective `o` -/
def better (o : Obj) (x y : α) : Prop := match o with | .max => y < x | .min => x < y
instance (o : Obj) (x y : α) : Decidable (better o x y) := by unfold better; cases o <;> infer_instance

def atLeast (o : Obj) (x y : α) : Prop := ¬ better o y x

theorem better_irrefl (o : Obj) (x : α) : ¬ better o x x := by cases o <;> simp [better]
theorem better_asymm {o : Obj} {x y : α} (h : better o x y) : ¬ better o y x := by
  cases o <;> simp only [better] at * <;> exact lt_asymm h
theorem better_trans {o : Obj} {x y z : α} (h1 : better o x y) (h2 : better o y z) : better o x z := by
  cases o <;> simp only [better] at * <;> [exact lt_trans h2 h1; exact lt_trans h1 h2]
theorem trichotomy (o : Obj) (x y : α) : better o x y ∨ x = y ∨ better o y x := by
  cases o <;> simp only [better] <;> rcases lt_trichotomy x y with h | h | h <;> simp [h]
theorem atLeast_iff {o : Obj} {x y : α} : atLeast o x y ↔ better o x y ∨ x = y := by
  unfold atLeast
  rcases trichotomy o x y with h | h | h
  · simp [h, better_asymm h]
  · subst h; simp [better_irrefl]
  · simp only [h, not_true_eq_false, false_iff, not_or]
    exact ⟨better_asymm h, fun e => better_irrefl o x (e ▸ h)⟩
theorem atLeast_better_trans {o : Obj} {x y z : α} (h1 : atLeast o x y) (h2 : better o y z) : better o x z := by
  rcases atLeast_iff.mp h1 with h | h
  · exact better_trans h h2
  · exact h ▸ h2
theorem better_atLeast_trans {o : Obj} {x y z : α} (h1 : better o x y) (h2 : atLeast o y z) : better o x z := by
  rcases atLeast_iff.mp h2 with h | h
  · exact better_trans h1 h
  · exact h ▸ h1
theorem atLeast_trans {o : Obj} {x y z : α} (h1 : atLeast o x y) (h2 : atLeast o y z) : atLeast o x z := by
  rcases atLeast_iff.mp h1 with h | h
  · exact atLeast_iff.mpr (Or.inl (better_atLeast_trans h h2))
  · exact h ▸ h2

def dominates (o : Fin n → Obj) (a b : Fin n → α) : Prop :=
  (∀ j, atLeast (o j) (a j) (b j)) ∧ ∃ j, better (o j) (a j) (b j)
def sdominates (o : Fin n → Obj) (a b : Fin n → α) : Prop := 0 < n ∧ ∀ j, better (o j) (a j) (b j)

theorem dominates_irrefl (o : Fin n → Obj) (a : Fin n → α) : ¬ dominates o a a :=
  fun ⟨_, j, hj⟩ => better_irrefl _ _ hj
theorem dominates_asymm {o : Fin n → Obj} {a b : Fin n → α} (h : dominates o a b) : ¬ dominates o b a :=
  fun ⟨h2, _⟩ => let ⟨j, hj⟩ := h.2; h2 j hj
theorem dominates_trans {o : Fin n → Obj} {a b c : Fin n → α} (h1 : dominates o a b) (h2 : dominates o b c) :
    dominates o a c :=
  ⟨fun j => atLeast_trans (h1.1 j) (h2.1 j), let ⟨j, hj⟩ := h1.2; ⟨j, better_atLeast_trans hj (h2.1 j)⟩⟩
theorem sdominates_dominates {o : Fin n → Obj} {a b : Fin n → α} (h : sdominates o a b) : dominates o a b :=
  ⟨fun j => fun hb => better_asymm (h.2 j) hb, ⟨⟨0, h.1⟩, h.2 _⟩⟩

/-- the counts kept by the accessor -/
def bt (o : Fin n → Obj) (a b : Fin n → α) : ℕ := (univ.filter fun j => better (o j) (a j) (b j)).card
def eqc (a b : Fin n → α) : ℕ := (univ.filter fun j => a j = b j).card

theorem counts_sum (o : Fin n → Obj) (a b : Fin n → α) : bt o a b + bt o b a + eqc a b = n := by
  unfold bt eqc
  have hd1 : Disjoint (univ.filter fun j => better (o j) (a j) (b j)) (univ.filter fun j => better (o j) (b j) (a j)) := by
    rw [disjoint_filter]; intro j _ h; exact better_asymm h
  have hd2 : Disjoint ((univ.filter fun j => better (o j) (a j) (b j)) ∪ (univ.filter fun j => better (o j) (b j) (a j)))
      (univ.filter fun j => a j = b j) := by
    rw [disjoint_left]; intro j hj he
    simp only [mem_union, mem_filter, mem_univ, true_and] at hj he
    rcases hj with h | h <;> exact better_irrefl (o j) (b j) (he ▸ h)
  rw [← card_union_of_disjoint hd1, ← card_union_of_disjoint hd2]
  have : (univ.filter fun j => better (o j) (a j) (b j)) ∪ (univ.filter fun j => better (o j) (b j) (a j)) ∪
      (univ.filter fun j => a j = b j) = univ := by
    ext j; simp only [mem_union, mem_filter, mem_univ, true_and, iff_true]
    rcases trichotomy (o j) (a j) (b j) with h | h | h <;> simp [h]
  rw [this]; simp

/-- the criterion coded in `dominance()`: `performance_a0 > 0 and performance_a1 == 0` -/
theorem dominates_iff_counts (o : Fin n → Obj) (a b : Fin n → α) :
    dominates o a b ↔ 0 < bt o a b ∧ bt o b a = 0 := by
  unfold dominates bt atLeast
  rw [card_pos, card_eq_zero, filter_eq_empty_iff]
  constructor
  · rintro ⟨h1, j, hj⟩; exact ⟨⟨j, by simp [hj]⟩, fun j _ => h1 j⟩
  · rintro ⟨⟨j, hj⟩, h2⟩; exact ⟨fun j => h2 (mem_univ j), j, by simpa using hj⟩

/-- … and with `strict`: additionally `eq == 0` -/
theorem sdominates_iff_counts (o : Fin n → Obj) (a b : Fin n → α) :
    sdominates o a b ↔ eqc a b = 0 ∧ 0 < bt o a b ∧ bt o b a = 0 := by
  constructor
  · intro h
    have hd := (dominates_iff_counts o a b).mp (sdominates_dominates h)
    refine ⟨?_, hd⟩
    unfold eqc; rw [card_eq_zero, filter_eq_empty_iff]
    intro j _ he; exact better_irrefl (o j) (b j) (he ▸ h.2 j)
  · rintro ⟨he, hpos, hz⟩
    have hs := counts_sum o a b
    refine ⟨by omega, fun j => ?_⟩
    unfold eqc at he; rw [card_eq_zero, filter_eq_empty_iff] at he
    unfold bt at hz; rw [card_eq_zero, filter_eq_empty_iff] at hz
    rcases trichotomy (o j) (a j) (b j) with h | h | h
    · exact h
    · exact absurd h (he (mem_univ j))
    · exact absurd h (hz (mem_univ j))
end Skc.Spec
