/-! C16 model: `utils/unames.py::unique_names` (names only). Core only. -/
namespace Skc.UNames

/-- the Python loop: walk the names from the last to the first with a table of remaining counts
for the names that occur more than once -/
def loop : List String → List (String × Nat) → List String → List String
  | [], _, acc => acc
  | n :: rest, tbl, acc =>
    match tbl.lookup n with
    | some c => if c = 0 then loop rest tbl (n :: acc)
                else loop rest ((n, c - 1) :: tbl.filter (·.1 != n)) ((n ++ "_" ++ toString c) :: acc)
    | none => loop rest tbl (n :: acc)

def uniqueNames (names : List String) : List String :=
  let tbl := (names.eraseDups.map fun n => (n, names.count n)).filter (·.2 > 1)
  loop names.reverse tbl []

/-- closed form: the `k`-th occurrence (in the original order) of a repeated name gets the suffix `_k` -/
def uniqueNamesSpec (names : List String) : List String :=
  (List.range names.length).map fun i =>
    let n := names.getD i ""
    if names.count n > 1 then n ++ "_" ++ toString ((names.take (i + 1)).count n) else n

example : uniqueNames ["sumscaler", "invert", "sumscaler", "topsis", "sumscaler"] =
    ["sumscaler_1", "invert", "sumscaler_2", "topsis", "sumscaler_3"] := by decide
example : uniqueNamesSpec ["sumscaler", "invert", "sumscaler", "topsis", "sumscaler"] =
    uniqueNames ["sumscaler", "invert", "sumscaler", "topsis", "sumscaler"] := by decide
-- the clash (confirmed on the real function): a user class whose lower-cased name is `foo_1`
example : uniqueNames ["foo", "foo", "foo_1"] = ["foo_1", "foo_2", "foo_1"] := by decide
end Skc.UNames
