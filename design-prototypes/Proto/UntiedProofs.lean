import Proto.Untied
import Mathlib.Data.List.Basic
import Mathlib.Data.List.Count
import Mathlib.Tactic
open Skc

theorem filter_lt_le (r : List Nat) (a b : Nat) (h : a < b) :
    (r.filter (· < a)).length + (r.filter (· == a)).length ≤ (r.filter (· < b)).length := by
  induction r with
  | nil => simp
  | cons x t ih =>
    simp only [List.filter_cons]
    by_cases h1 : x < a
    · have : x < b := by omega
      have : ¬ x = a := by omega
      simp [h1, *]; omega
    · by_cases h2 : x = a
      · subst h2; simp [h]; omega
      · by_cases h3 : x < b <;> simp [h1, h2, h3] <;> omega

theorem take_filter_le (r : List Nat) (i a : Nat) :
    ((r.take i).filter (· == a)).length ≤ (r.filter (· == a)).length := by
  have : (r.take i).Sublist r := List.take_sublist i r
  exact (this.filter _).length_le

/-- an alternative ranked strictly ahead stays strictly ahead -/
theorem untied_strict (r : List Nat) (i k : Nat) (hi : i < r.length) (hk : k < r.length)
    (h : r.getD i 0 < r.getD k 0) : untiedAt r i < untiedAt r k := by
  unfold untiedAt
  have h1 := filter_lt_le r _ _ h
  have h2 := take_filter_le r i (r.getD i 0)
  -- position i itself is an equal entry that is *not* among the first i entries
  have h3 : ((r.take i).filter (· == r.getD i 0)).length < (r.filter (· == r.getD i 0)).length := by
    have hmem : r[i] ∈ (r.drop i).filter (· == r.getD i 0) := by
      have hd : r.drop i = r[i] :: r.drop (i+1) := List.drop_eq_getElem_cons hi
      refine List.mem_filter.mpr ⟨by rw [hd]; exact List.mem_cons_self, ?_⟩
      simp [List.getD_eq_getElem?_getD, List.getElem?_eq_getElem hi]
    have hpos := List.length_pos_of_mem hmem
    generalize r.getD i 0 = a at *
    have e : r.filter (· == a) = (r.take i).filter (· == a) ++ (r.drop i).filter (· == a) := by
      rw [← List.filter_append, List.take_append_drop]
    rw [e, List.length_append]
    omega
  omega

/-- ties are broken by order of appearance -/
theorem untied_tie (r : List Nat) (i k : Nat) (hik : i < k) (hk : k < r.length)
    (h : r.getD i 0 = r.getD k 0) : untiedAt r i < untiedAt r k := by
  unfold untiedAt
  rw [h]
  have hi : i < r.length := by omega
  have : ((r.take i).filter (· == r.getD k 0)).length < ((r.take k).filter (· == r.getD k 0)).length := by
    have e : r.take k = r.take i ++ (r.drop i).take (k - i) := by
      rw [← List.take_add]; congr 1; omega
    rw [e, List.filter_append, List.length_append]
    have : 0 < (((r.drop i).take (k - i)).filter (· == r.getD k 0)).length := by
      apply List.length_pos_of_mem (a := r[i])
      have hd : r.drop i = r[i] :: r.drop (i+1) := List.drop_eq_getElem_cons hi
      have hki : k - i = (k - i - 1) + 1 := by omega
      have hv : r[i] = r.getD k 0 := by
        rw [← h]; simp [List.getD_eq_getElem?_getD, List.getElem?_eq_getElem hi]
      refine List.mem_filter.mpr ⟨by rw [hd, hki, List.take_succ_cons]; exact List.mem_cons_self, by simp [hv]⟩
    omega
  omega
#print axioms untied_strict
#print axioms untied_tie
