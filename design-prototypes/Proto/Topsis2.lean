import Proto.Topsis
open Finset

variable {m n : ℕ} [NeZero m]

noncomputable section
def dSq (x t : Fin n → ℝ) : ℝ := ∑ j, (x j - t j) ^ 2
def dCheb [NeZero n] (x t : Fin n → ℝ) : ℝ := univ.sup' univ_nonempty fun j => |x j - t j|
end

/-- what TOPSIS needs from a metric: non-negative and monotone in the absolute coordinates -/
structure MonoMetric (d : (Fin n → ℝ) → (Fin n → ℝ) → ℝ) : Prop where
  nonneg : ∀ x t, 0 ≤ d x t
  mono : ∀ x y t, (∀ j, |x j - t j| ≤ |y j - t j|) → d x t ≤ d y t

theorem monoMetric_city : MonoMetric (dCity (n := n)) :=
  ⟨fun _ _ => sum_nonneg fun _ _ => abs_nonneg _, dCity_mono⟩
theorem monoMetric_euc : MonoMetric (dEuc (n := n)) :=
  ⟨fun _ _ => Real.sqrt_nonneg _, dEuc_mono⟩
theorem monoMetric_sq : MonoMetric (dSq (n := n)) :=
  ⟨fun _ _ => sum_nonneg fun _ _ => sq_nonneg _, fun x y t h => by
    unfold dSq; apply sum_le_sum; intro j _
    rw [← sq_abs (x j - t j), ← sq_abs (y j - t j)]
    exact pow_le_pow_left₀ (abs_nonneg _) (h j) 2⟩
theorem monoMetric_cheb [NeZero n] : MonoMetric (dCheb (n := n)) :=
  ⟨fun x t => le_trans (abs_nonneg _) (le_sup' (fun j => |x j - t j|) (mem_univ 0)), fun x y t h => by
    unfold dCheb
    apply sup'_le; intro j _
    exact le_trans (h j) (le_sup' (fun j => |y j - t j|) (mem_univ j))⟩

/-- C06 for TOPSIS with any metric of the Minkowski family listed in the property -/
theorem topsis_dom_mono {d : (Fin n → ℝ) → (Fin n → ℝ) → ℝ} (hd : MonoMetric d)
    (A : Fin m → Fin n → ℝ) (w : Fin n → ℝ) (hw : ∀ j, 0 < w j) (o : Fin n → Obj)
    (a b : Fin m) (hdom : dominates o (A a) (A b))
    (hpa : 0 < d (V A w a) (ideal A w o) + d (V A w a) (anti A w o))
    (hpb : 0 < d (V A w b) (ideal A w o) + d (V A w b) (anti A w o)) :
    sim (d (V A w b) (ideal A w o)) (d (V A w b) (anti A w o)) ≤
    sim (d (V A w a) (ideal A w o)) (d (V A w a) (anti A w o)) := by
  have hc := coord_closer A w hw o a b hdom.1
  exact sim_mono (hd.mono _ _ _ fun j => (hc j).1) (hd.mono _ _ _ fun j => (hc j).2)
    (hd.nonneg _ _) (hd.nonneg _ _) hpa hpb

/-- ReferencePointMOORA: reference = best value per criterion, score = max_j |w_j (a_ij − r_j)|, lower is better -/
noncomputable def refpointS [NeZero n] (A : Fin m → Fin n → ℝ) (w : Fin n → ℝ) (o : Fin n → Obj) (i : Fin m) : ℝ :=
  univ.sup' univ_nonempty fun j => |V A w i j - ideal A w o j|

/-- C06 for ReferencePointMOORA -/
theorem refpoint_dom_mono [NeZero n] (A : Fin m → Fin n → ℝ) (w : Fin n → ℝ) (hw : ∀ j, 0 < w j) (o : Fin n → Obj)
    (a b : Fin m) (hdom : dominates o (A a) (A b)) : refpointS A w o a ≤ refpointS A w o b := by
  have hc := coord_closer A w hw o a b hdom.1
  exact monoMetric_cheb.mono _ _ _ fun j => (hc j).1

/-- the reported score `max_j |w_j (a_ij − r_j)|` with `r` taken on the *unweighted* matrix equals the
Chebyshev distance of the weighted row to the weighted ideal, because `w_j > 0` commutes with max/min -/
theorem weighted_ideal (A : Fin m → Fin n → ℝ) (w : Fin n → ℝ) (hw : ∀ j, 0 < w j) (o : Fin n → Obj) (j : Fin n) :
    ideal A w o j = (if o j = .max then univ.sup' univ_nonempty (fun i => A i j) else univ.inf' univ_nonempty (fun i => A i j)) * w j := by
  unfold ideal hi lo V
  split
  · apply le_antisymm
    · apply sup'_le; intro i _
      exact mul_le_mul_of_nonneg_right (le_sup' (fun i => A i j) (mem_univ i)) (hw j).le
    · obtain ⟨i, _, hi⟩ := exists_mem_eq_sup' univ_nonempty (fun i => A i j)
      rw [hi]; exact le_sup' (fun i => A i j * w j) (mem_univ i)
  · apply le_antisymm
    · obtain ⟨i, _, hi⟩ := exists_mem_eq_inf' univ_nonempty (fun i => A i j)
      rw [hi]; exact inf'_le (fun i => A i j * w j) (mem_univ i)
    · apply le_inf'; intro i _
      exact mul_le_mul_of_nonneg_right (inf'_le (fun i => A i j) (mem_univ i)) (hw j).le

#print axioms topsis_dom_mono
#print axioms refpoint_dom_mono
#print axioms weighted_ideal
