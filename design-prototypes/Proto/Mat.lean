/-! L-layer matrix combinators (import-free). Rows are lists; column access by index. -/
namespace Skc.Mat

/-- the `j`-th column of a row-major matrix (rows too short are skipped; WF matrices have none) -/
def col {α} (m : List (List α)) (j : Nat) : List α := m.filterMap (·[j]?)

/-- all `n` columns -/
def cols {α} (m : List (List α)) (n : Nat) : List (List α) := (List.range n).map (col m)

/-- fold a non-empty list with a binary operation; `none` on the empty list
(`np.max` of a zero-size array raises) -/
def reduce? {α} (f : α → α → α) : List α → Option α
  | [] => none
  | x :: xs => some (xs.foldl f x)

def maxL? {α} [Max α] (l : List α) : Option α := reduce? max l
def minL? {α} [Min α] (l : List α) : Option α := reduce? min l

def allSome {β} : List (Option β) → Option (List β)
  | [] => some []
  | none :: _ => none
  | some x :: t => (allSome t).map (x :: ·)

/-- `np.max(m, axis=0)` -/
def colMax? {α} [Max α] (m : List (List α)) (n : Nat) : Option (List α) := allSome ((cols m n).map maxL?)
def colMin? {α} [Min α] (m : List (List α)) (n : Nat) : Option (List α) := allSome ((cols m n).map minL?)

/-- `np.multiply(m, w)` with `w` broadcast along rows -/
def mulRows {α} [Mul α] (m : List (List α)) (w : List α) : List (List α) := m.map fun r => List.zipWith (· * ·) r w

def sumL {α} [Add α] [OfNat α 0] (l : List α) : α := l.foldl (· + ·) 0

end Skc.Mat
