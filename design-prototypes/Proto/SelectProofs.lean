import Proto.Select
import Mathlib.Data.List.Basic
import Mathlib.Data.List.Nodup
import Mathlib.Tactic
open Skc.Data

/-- `mapM` in `Option` over a list: success means pointwise success, same length -/
theorem mapM_some {β γ} (f : β → Option γ) : ∀ (l : List β) (r : List γ), l.mapM f = some r →
    r.length = l.length ∧ ∀ k (h : k < l.length) (h' : k < r.length), f l[k] = some r[k] := by
  intro l
  induction l with
  | nil => intro r h; simp at h; subst h; simp
  | cons a t ih =>
    intro r h
    simp only [List.mapM_cons] at h
    cases ha : f a with
    | none => simp [ha] at h
    | some b =>
      cases ht : t.mapM f with
      | none => simp [ha, ht] at h
      | some r' =>
        simp [ha, ht] at h; subst h
        obtain ⟨hl, hk⟩ := ih r' ht
        refine ⟨by simp [hl], ?_⟩
        intro k h1 h2
        cases k with
        | zero => simpa using ha
        | succ k => simpa using hk k (by simpa using h1) (by simpa using h2)

theorem critIdx_some {α} (d : DM α) (c : String) (i : Nat) (h : critIdx d c = some i) :
    i < d.crits.length ∧ d.crits[i]? = some c := by
  unfold critIdx at h
  simp only at h
  split at h
  · rename_i hlt
    cases h
    exact ⟨hlt, by rw [List.getElem?_eq_getElem hlt]; simp⟩
  · cases h

theorem critIdx_of_nodup (cs : List String) (hnd : cs.Nodup) {α} (d : DM α) (hd : d.crits = cs)
    (k : Nat) (hk : k < cs.length) : critIdx d cs[k] = some k := by
  unfold critIdx
  simp only [hd]
  rw [List.Nodup.idxOf_getElem hnd]
  simp [hk]

/-- C01 core (column list): every surviving criterion keeps its own weight. -/
theorem getitemCols_wt {α} (d : DM α) (hw : d.WF) (cs : List String) (d' : DM α)
    (h : getitemCols d cs = .ok d') : d'.crits = cs ∧ ∀ c ∈ cs, wtOf d' c = wtOf d c := by
  unfold getitemCols at h
  split at h
  · cases h
  · rename_i is his
    split at h
    · rename_i hnd
      split at h
      · rename_i o w rows ho hwt hrows
        cases h
        refine ⟨rfl, ?_⟩
        intro c hc
        obtain ⟨k, hk, rfl⟩ := List.getElem_of_mem hc
        obtain ⟨hlen, hidx⟩ := mapM_some _ _ _ his
        obtain ⟨hwlen, hwidx⟩ := mapM_some _ _ _ hwt
        have hk' : k < is.length := by omega
        have hk'' : k < w.length := by omega
        have e1 := hidx k hk hk'
        have e2 := hwidx k hk' hk''
        unfold wtOf
        rw [critIdx_of_nodup cs hnd _ rfl k hk, e1]
        simp only [Option.bind_some]
        rw [List.getElem?_eq_getElem hk'']
        exact e2.symm
      · cases h
    · cases h
#print axioms getitemCols_wt
