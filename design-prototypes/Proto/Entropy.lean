import Mathlib.Analysis.SpecialFunctions.Log.NegMulLog
import Mathlib.Analysis.Convex.Jensen
import Mathlib.Algebra.BigOperators.Fin
import Mathlib.Tactic
open Finset Real

/-- Gibbs / Jensen: the Shannon entropy of a distribution on `m` points is at most `log m`.
This is what makes the EntropyWeighter's `1 − H_j` non-negative (C13). -/
theorem entropy_le_log {m : ℕ} (hm : 0 < m) (p : Fin m → ℝ) (hp : ∀ i, 0 ≤ p i) (hs : ∑ i, p i = 1) :
    ∑ i, negMulLog (p i) ≤ Real.log m := by
  have hm' : (0 : ℝ) < m := by exact_mod_cast hm
  have hJ := concaveOn_negMulLog.le_map_sum (t := univ) (w := fun _ : Fin m => (1 : ℝ) / m) (p := p)
    (fun i _ => by positivity) (by simp [hm'.ne']) (fun i _ => hp i)
  simp only [smul_eq_mul] at hJ
  rw [← mul_sum, ← mul_sum, hs, mul_one] at hJ
  -- hJ : (1/m) * Σ negMulLog (p i) ≤ negMulLog (1/m)
  have hval : negMulLog ((1 : ℝ) / m) = (1 / m) * Real.log m := by
    unfold negMulLog
    rw [one_div, Real.log_inv]; ring
  rw [hval] at hJ
  have := mul_le_mul_of_nonneg_left hJ hm'.le
  rw [← mul_assoc, ← mul_assoc, mul_one_div_cancel hm'.ne', one_mul, one_mul] at this
  exact this

/-- normalised entropy (base `m`, as `scipy.stats.entropy(..., base=m)`) is at most 1 -/
theorem normalised_entropy_le_one {m : ℕ} (hm : 2 ≤ m) (p : Fin m → ℝ) (hp : ∀ i, 0 ≤ p i) (hs : ∑ i, p i = 1) :
    (∑ i, negMulLog (p i)) / Real.log m ≤ 1 := by
  have hlog : 0 < Real.log m := Real.log_pos (by exact_mod_cast hm)
  rw [div_le_one hlog]
  exact entropy_le_log (by omega) p hp hs
#print axioms normalised_entropy_le_one
