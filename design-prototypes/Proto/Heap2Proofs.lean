import Proto.Heap2
import Mathlib.Data.List.Basic
import Mathlib.Tactic
open Skc.Heap2

theorem get_push_lt (w : World) (a : Arr) {r : Ref} (h : r < w.heap.length) : (push w a).get r = w.get r := by
  simp [push, World.get, List.getD_eq_getElem?_getD, List.getElem?_append_left h]

theorem get_push_len (w : World) (a : Arr) : (push w a).get w.heap.length = a := by
  simp [push, World.get, List.getD_eq_getElem?_getD]

theorem internals_push (T : Table) (w : World) (hI : Inv T w) (a : Arr) : (push w a).internals = w.internals := by
  unfold World.internals
  apply List.map_congr_left
  intro r hr
  exact get_push_lt w a (hI.intIn r hr)

theorem get_modify_ne (h : List Arr) (r r' : Ref) (f : Arr → Arr) (hne : r' ≠ r) :
    (h.modify r f).getD r' [] = h.getD r' [] := by
  simp [List.getD, hne.symm]

/-- a write into a handed-out object leaves every internal array and every memoised object alone -/
theorem write_frame (T : Table) (w : World) (hI : Inv T w) (r i v) :
    let w' := step T w (.write r i v)
    w'.internals = w.internals ∧ w'.memo = w.memo ∧ w'.internal = w.internal ∧ w'.handed = w.handed ∧
    w'.heap.length = w.heap.length ∧ ∀ p ∈ w.memo, w'.get p.2 = w.get p.2 := by
  simp only [step]
  split
  · rename_i hr
    refine ⟨?_, rfl, rfl, rfl, by simp, ?_⟩
    · unfold World.internals World.get
      apply List.map_congr_left
      intro x hx
      exact get_modify_ne _ _ _ _ (fun h => hI.sepInt r hr (h ▸ hx))
    · intro p hp
      exact get_modify_ne _ _ _ _ (hI.sepMemo r hr p hp)
  · exact ⟨rfl, rfl, rfl, rfl, rfl, fun _ _ => rfl⟩

/-- hence the answer of every accessor is unchanged by a write -/
theorem answer_write (T : Table) (w : World) (hI : Inv T w) (r i v) (k : Nat) :
    answer T (step T w (.write r i v)) k = answer T w k := by
  obtain ⟨h1, h2, _, _, _, h6⟩ := write_frame T w hI r i v
  unfold answer
  rw [h2, h1]
  cases hm : memoLookup w.memo k with
  | none => rfl
  | some c =>
    simp only
    have : (k, c) ∈ w.memo ∨ True := Or.inr trivial
    -- the looked-up reference is a memo entry
    have hmem : ∃ p ∈ w.memo, p.2 = c := by
      unfold memoLookup at hm
      cases hf : w.memo.find? (·.1 == k) with
      | none => simp [hf] at hm
      | some p =>
        simp [hf] at hm
        exact ⟨p, List.mem_of_find?_eq_some hf, hm⟩
    obtain ⟨p, hp, rfl⟩ := hmem
    exact h6 p hp

/-- … and the invariant survives the write -/
theorem inv_write (T : Table) (w : World) (hI : Inv T w) (r i v) : Inv T (step T w (.write r i v)) := by
  obtain ⟨h1, h2, h3, h4, h5, h6⟩ := write_frame T w hI r i v
  constructor
  · rw [h4, h3]; exact hI.sepInt
  · rw [h4, h2]; exact hI.sepMemo
  · rw [h3, h5]; exact hI.intIn
  · rw [h2, h5]; exact hI.memoIn
  · rw [h2, h1]; intro p hp; rw [h6 p hp]; exact hI.memoOK p hp
#print axioms answer_write
#print axioms inv_write

/-- allocate a fresh object and hand it to the caller -/
def handOut (w : World) (a : Arr) : World := { push w a with handed := w.heap.length :: w.handed }

theorem memo_ref_of_lookup {m : List (Nat × Ref)} {k : Nat} {c : Ref} (h : memoLookup m k = some c) :
    ∃ p ∈ m, p.2 = c ∧ p.1 = k := by
  unfold memoLookup at h
  cases hf : m.find? (·.1 == k) with
  | none => simp [hf] at h
  | some p =>
    simp [hf] at h
    have := List.find?_some hf
    exact ⟨p, List.mem_of_find?_eq_some hf, h, by simpa using this⟩

theorem handOut_frame (T : Table) (w : World) (hI : Inv T w) (a : Arr) :
    (handOut w a).internals = w.internals ∧ (∀ k, answer T (handOut w a) k = answer T w k) ∧ Inv T (handOut w a) := by
  have hint : (handOut w a).internals = w.internals := internals_push T w hI a
  have hget : ∀ r, r < w.heap.length → (handOut w a).get r = w.get r := fun r hr => get_push_lt w a hr
  refine ⟨hint, ?_, ?_⟩
  · intro k
    unfold answer
    show (match memoLookup w.memo k with | some r => (handOut w a).get r | none => T.compute k (handOut w a).internals) = _
    rw [hint]
    cases hm : memoLookup w.memo k with
    | none => rfl
    | some c =>
      obtain ⟨p, hp, rfl, _⟩ := memo_ref_of_lookup hm
      exact hget _ (hI.memoIn p hp)
  · constructor
    · intro r hr
      rcases List.mem_cons.mp hr with rfl | hr
      · intro h; exact absurd (hI.intIn _ h) (by simp)
      · exact hI.sepInt r hr
    · intro r hr p hp
      rcases List.mem_cons.mp hr with rfl | hr
      · intro h; have := hI.memoIn p hp; rw [h] at this; exact absurd this (Nat.lt_irrefl _)
      · exact hI.sepMemo r hr p hp
    · intro r hr; have := hI.intIn r hr
      show r < (w.heap ++ [a]).length
      rw [List.length_append]; exact Nat.lt_add_right _ this
    · intro p hp; have := hI.memoIn p hp
      show p.2 < (w.heap ++ [a]).length
      rw [List.length_append]; exact Nat.lt_add_right _ this
    · intro p hp
      show (handOut w a).get p.2 = T.compute p.1 (handOut w a).internals
      rw [hint, hget _ (hI.memoIn p hp)]; exact hI.memoOK p hp

/-- calls (transform / evaluate / comparisons) only read copies: nothing the matrix reports changes -/
theorem answer_call (T : Table) (w : World) (hI : Inv T w) (f) (k : Nat) :
    answer T (step T w (.call f)) k = answer T w k ∧ Inv T (step T w (.call f)) :=
  ⟨(handOut_frame T w hI _).2.1 k, (handOut_frame T w hI _).2.2⟩

/-- reading a copying accessor -/
theorem answer_read_fresh (T : Table) (w : World) (hI : Inv T w) (k' : Nat) (hk : T.kind k' = .freshCopy) (k : Nat) :
    answer T (step T w (.read k')) k = answer T w k ∧ Inv T (step T w (.read k')) := by
  simp only [step, hk]
  exact ⟨(handOut_frame T w hI _).2.1 k, (handOut_frame T w hI _).2.2⟩
#print axioms answer_call
#print axioms answer_read_fresh
