/-! C02 model (second iteration): explicit store, accessor table with hand-out kinds, memo.
What the API *would answer* to any accessor is invariant under every history in which no
accessor hands out its memoised object itself. Core only. -/
namespace Skc.Heap2

abbrev Ref := Nat
abbrev Arr := List Int

inductive Kind | freshCopy | memoThenCopy | memoShared
  deriving DecidableEq, Repr

/-- the accessor table: pure answer of accessor `k` from the internal arrays, and how it is handed out -/
structure Table where
  compute : Nat → List Arr → Arr
  kind : Nat → Kind

structure World where
  heap     : List Arr
  internal : List Ref
  memo     : List (Nat × Ref)
  handed   : List Ref

def World.get (w : World) (r : Ref) : Arr := w.heap.getD r []
def World.internals (w : World) : List Arr := w.internal.map w.get
def memoLookup (m : List (Nat × Ref)) (k : Nat) : Option Ref := (m.find? (·.1 == k)).map (·.2)

inductive Op
  | read (k : Nat)
  | write (r : Ref) (i : Nat) (v : Int)
  | call (f : List Arr → Arr)

def push (w : World) (a : Arr) : World := { w with heap := w.heap ++ [a] }

def step (T : Table) (w : World) : Op → World
  | .read k =>
    match T.kind k with
    | .freshCopy =>
      let w' := push w (T.compute k w.internals); { w' with handed := w.heap.length :: w'.handed }
    | .memoThenCopy =>
      match memoLookup w.memo k with
      | some c => let w' := push w (w.get c); { w' with handed := w.heap.length :: w'.handed }
      | none =>
        let a := T.compute k w.internals
        let w1 := push w a
        let w2 := push w1 a
        { w2 with memo := (k, w.heap.length) :: w2.memo, handed := (w.heap.length + 1) :: w2.handed }
    | .memoShared =>
      match memoLookup w.memo k with
      | some c => { w with handed := c :: w.handed }
      | none =>
        let w1 := push w (T.compute k w.internals)
        { w1 with memo := (k, w.heap.length) :: w1.memo, handed := w.heap.length :: w1.handed }
  | .write r i v =>
    if r ∈ w.handed then { w with heap := w.heap.modify r (·.set i v) } else w
  | .call f =>
    let w' := push w (f w.internals); { w' with handed := w.heap.length :: w'.handed }

/-- what reading accessor `k` would return now -/
def answer (T : Table) (w : World) (k : Nat) : Arr :=
  match memoLookup w.memo k with
  | some r => w.get r
  | none => T.compute k w.internals

structure Inv (T : Table) (w : World) : Prop where
  sepInt  : ∀ r ∈ w.handed, r ∉ w.internal
  sepMemo : ∀ r ∈ w.handed, ∀ p ∈ w.memo, p.2 ≠ r
  intIn   : ∀ r ∈ w.internal, r < w.heap.length
  memoIn  : ∀ p ∈ w.memo, p.2 < w.heap.length
  memoOK  : ∀ p ∈ w.memo, w.get p.2 = T.compute p.1 w.internals

def noShared (T : Table) : Op → Prop
  | .read k => T.kind k ≠ .memoShared
  | _ => True

def run (T : Table) (w : World) (ops : List Op) : World := ops.foldl (step T) w

-- witness for the present code: `dominance.dominators_of` is `memoShared`
def T0 : Table := { compute := fun _ _ => [1, 2, 2], kind := fun _ => .memoShared }
def w0 : World := { heap := [[5]], internal := [0], memo := [], handed := [] }
example : answer T0 (run T0 w0 [.read 7, .write 1 0 0]) 7 ≠ answer T0 w0 7 := by decide
-- the same history with the repaired accessor kind
def T1 : Table := { T0 with kind := fun _ => .memoThenCopy }
example : answer T1 (run T1 w0 [.read 7, .write 2 0 0, .read 7, .write 3 1 9]) 7 = answer T1 w0 7 := by decide
end Skc.Heap2
