/-! C14 model: criteria filters over a labelled matrix. Core only. -/
namespace Skc.Filters

inductive Rel | gt | ge | lt | le | eq | ne deriving DecidableEq, Repr
def Rel.holds {α} [LT α] [LE α] [DecidableEq α] [DecidableRel (α := α) (· < ·)] [DecidableRel (α := α) (· ≤ ·)]
    : Rel → α → α → Bool
  | .gt, x, t => decide (t < x) | .ge, x, t => decide (t ≤ x) | .lt, x, t => decide (x < t)
  | .le, x, t => decide (x ≤ t) | .eq, x, t => decide (x = t) | .ne, x, t => decide (x ≠ t)

inductive Err | valueError deriving DecidableEq, Repr

variable {α : Type} [LT α] [LE α] [DecidableEq α] [DecidableRel (α := α) (· < ·)] [DecidableRel (α := α) (· ≤ ·)]

/-- the pairing loop of `SKCByCriteriaFilterABC._transform_data`: conditions on absent criteria
raise unless ignored; present ones are kept in the order in which they were written -/
def usable (crits : List String) (conds : List (String × α)) (ignoreMissing : Bool) :
    Except Err (List (String × α)) :=
  if !ignoreMissing && conds.any (fun c => !crits.contains c.1) then .error .valueError
  else .ok (conds.filter fun c => crits.contains c.1)

def cellOf (crits : List String) (row : List α) (c : String) : Option α :=
  let i := crits.idxOf c; if i < crits.length then row[i]? else none

/-- after the repair: each condition is evaluated on the column it names -/
def rowPasses (r : Rel) (crits : List String) (conds : List (String × α)) (row : List α) : Bool :=
  conds.all fun (c, t) => match cellOf crits row c with | some x => r.holds x t | none => false

/-- the present code: columns selected by membership **in matrix order**, thresholds **in dict order**,
compared position by position -/
def rowPasses_v0 (r : Rel) (crits : List String) (conds : List (String × α)) (row : List α) : Bool :=
  let cols := (crits.zip row).filter (fun cr => conds.any (·.1 == cr.1)) |>.map (·.2)
  (cols.zip (conds.map (·.2))).all fun (x, t) => r.holds x t

def applyFilter (pass : List α → Bool) (alts : List String) (rows : List (List α)) : List String × List (List α) :=
  let kept := (alts.zip rows).filter fun ar => pass ar.2
  (kept.map (·.1), kept.map (·.2))

def filterArith (r : Rel) (crits alts : List String) (rows : List (List α)) (conds : List (String × α))
    (ignoreMissing : Bool) : Except Err (List String × List (List α)) := do
  let cs ← usable crits conds ignoreMissing
  if cs.isEmpty then pure (alts, rows) else pure (applyFilter (rowPasses r crits cs) alts rows)

def filterArith_v0 (r : Rel) (crits alts : List String) (rows : List (List α)) (conds : List (String × α))
    (ignoreMissing : Bool) : Except Err (List String × List (List α)) := do
  let cs ← usable crits conds ignoreMissing
  if cs.isEmpty then pure (alts, rows) else pure (applyFilter (rowPasses_v0 r crits cs) alts rows)

-- the documented example (`filters.py`), conditions written in another key order:
def crits := ["ROE", "CAP", "RI"]
def alts := ["PE", "JN", "AA", "MM", "FN"]
def rows : List (List Int) := [[7,5,35],[5,4,26],[5,6,28],[1,7,30],[5,8,30]]
example : (filterArith .gt crits alts rows [("ROE", 1), ("RI", 27)] false).toOption.map (·.1) = some ["PE", "AA", "FN"] := by decide
example : (filterArith .gt crits alts rows [("RI", 27), ("ROE", 1)] false).toOption.map (·.1) = some ["PE", "AA", "FN"] := by decide
example : (filterArith_v0 .gt crits alts rows [("RI", 27), ("ROE", 1)] false).toOption.map (·.1) = some [] := by decide
example : (filterArith .gt crits alts rows [("ZZ", 0)] false).toOption = none := by decide
example : (filterArith .gt crits alts rows [("ZZ", 0), ("ROE", 5)] true).toOption.map (·.1) = some ["PE"] := by decide
end Skc.Filters
