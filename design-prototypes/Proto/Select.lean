/-! C01 prototype: parallel containers, column selection by label list (fixed and v0), alignment. Core only. -/
namespace Skc.Data

inductive Obj | max | min deriving DecidableEq, Repr

structure DM (α : Type) where
  alts  : List String
  crits : List String
  objs  : List Obj
  wts   : List α
  cells : List (List α)      -- one row per alternative
  deriving Repr

def DM.WF {α} (d : DM α) : Prop :=
  d.crits.Nodup ∧ d.alts.Nodup ∧ d.objs.length = d.crits.length ∧ d.wts.length = d.crits.length ∧
  d.cells.length = d.alts.length ∧ ∀ r ∈ d.cells, r.length = d.crits.length

/-- positional pick; `none` when an index is out of range -/
def pick {β} (l : List β) (is : List Nat) : Option (List β) := is.mapM (l[·]?)

def critIdx {α} (d : DM α) (c : String) : Option Nat :=
  let i := d.crits.idxOf c; if i < d.crits.length then some i else none

def objOf {α} (d : DM α) (c : String) : Option Obj := (critIdx d c).bind (d.objs[·]?)
def wtOf  {α} (d : DM α) (c : String) : Option α   := (critIdx d c).bind (d.wts[·]?)

inductive Err | keyError | valueError deriving DecidableEq, Repr

/-- `dm[[c₁,…,c_k]]` after the fix: objectives and weights are looked up by the label of each
resulting column, in the order of the resulting columns. -/
def getitemCols {α} (d : DM α) (cs : List String) : Except Err (DM α) :=
  match cs.mapM (critIdx d) with
  | none => .error .keyError
  | some is =>
    if cs.Nodup then
      match pick d.objs is, pick d.wts is, d.cells.mapM (pick · is) with
      | some o, some w, some rows => .ok { alts := d.alts, crits := cs, objs := o, wts := w, cells := rows }
      | _, _, _ => .error .valueError
    else .error .valueError

/-- the present code: frame columns in requested order, objectives / weights through an `isin`
mask in *original* order. -/
def getitemCols_v0 {α} (d : DM α) (cs : List String) : Except Err (DM α) :=
  match cs.mapM (critIdx d) with
  | none => .error .keyError
  | some is =>
    let mask := d.crits.map (cs.contains ·)
    let keep {β} (l : List β) : List β := (l.zip mask).filterMap fun (x, m) => if m then some x else none
    match d.cells.mapM (pick · is) with
    | some rows =>
      if (keep d.objs).length = cs.length then
        .ok { alts := d.alts, crits := cs, objs := keep d.objs, wts := keep d.wts, cells := rows }
      else .error .valueError
    | none => .error .valueError

def ex : DM Int :=
  { alts := ["A0", "A1"], crits := ["C0", "C1", "C2"], objs := [.max, .min, .max], wts := [1, 2, 7],
    cells := [[1, 2, 3], [4, 5, 6]] }

-- the defect, as a checked fact about the faithful model of the present code:
example : (getitemCols_v0 ex ["C2", "C0"]).toOption.bind (wtOf · "C2") = some 1 := by decide
example : wtOf ex "C2" = some 7 := by decide
-- and the repaired selection on the same input:
example : (getitemCols ex ["C2", "C0"]).toOption.bind (wtOf · "C2") = some 7 := by decide

end Skc.Data
