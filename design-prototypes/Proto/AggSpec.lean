import Proto.DominanceSpec
import Mathlib.Algebra.Order.Field.Basic
import Mathlib.Algebra.BigOperators.Fin
import Mathlib.Algebra.Order.BigOperators.Group.Finset
import Mathlib.Algebra.Order.BigOperators.Ring.Finset
import Mathlib.Data.Finset.Lattice.Fold
import Mathlib.Analysis.SpecialFunctions.Log.Basic
import Mathlib.Analysis.SpecialFunctions.Log.Base
import Mathlib.Analysis.SpecialFunctions.Sqrt
import Mathlib.Tactic

/-! S-layer specifications of the closed-form aggregation methods and their
dominance-monotonicity (C06), over `ℝ` (the field-only ones hold over any ordered field). -/
namespace Skc.Spec
open Finset

variable {m n : ℕ}

/-- +1 for maximise, −1 for minimise: `Objective.value` -/
def sgn : Obj → ℝ | .max => 1 | .min => -1

noncomputable section
def wsmS (A : Fin m → Fin n → ℝ) (w : Fin n → ℝ) (i : Fin m) : ℝ := ∑ j, A i j * w j
/-- RatioMOORA: `np.inner(matrix, weights * objectives)` -/
def ratioS (A : Fin m → Fin n → ℝ) (w : Fin n → ℝ) (o : Fin n → Obj) (i : Fin m) : ℝ :=
  ∑ j, A i j * (w j * sgn (o j))
/-- WPM: `Σ_j w_j log10 a_ij` -/
def wpmS (A : Fin m → Fin n → ℝ) (w : Fin n → ℝ) (i : Fin m) : ℝ := ∑ j, w j * Real.logb 10 (A i j)
/-- FMF as published (log form): `Σ_max log(w a) − Σ_min log(w a)` -/
def fmfS (A : Fin m → Fin n → ℝ) (w : Fin n → ℝ) (o : Fin n → Obj) (i : Fin m) : ℝ :=
  ∑ j, sgn (o j) * Real.log (A i j * w j)
end

theorem dom_max {o : Obj} {x y : ℝ} (ho : o = .max) (h : atLeast o x y) : y ≤ x := by
  subst ho; simpa [atLeast, better] using h
theorem dom_min {o : Obj} {x y : ℝ} (ho : o = .min) (h : atLeast o x y) : x ≤ y := by
  subst ho; simpa [atLeast, better] using h

/-- term-wise core of every additive method: an at-least-as-good value contributes at least as much -/
theorem signed_term_mono {o : Obj} {x y w : ℝ} (hw : 0 < w) (h : atLeast o x y) :
    y * (w * sgn o) ≤ x * (w * sgn o) := by
  cases o
  · have := dom_max rfl h; simp only [sgn, mul_one]; exact mul_le_mul_of_nonneg_right this hw.le
  · have := dom_min rfl h; simp only [sgn, mul_neg, mul_one]; nlinarith

theorem signed_term_strict {o : Obj} {x y w : ℝ} (hw : 0 < w) (h : better o x y) :
    y * (w * sgn o) < x * (w * sgn o) := by
  cases o <;> simp only [better] at h
  · simp only [sgn, mul_one]; exact mul_lt_mul_of_pos_right h hw
  · simp only [sgn, mul_neg, mul_one]; nlinarith

/-- C06 for RatioMOORA (and WSM = all-max case): a dominating alternative scores strictly higher -/
theorem ratio_dom_strict (A : Fin m → Fin n → ℝ) (w : Fin n → ℝ) (hw : ∀ j, 0 < w j) (o : Fin n → Obj)
    (a b : Fin m) (hd : dominates o (A a) (A b)) : ratioS A w o b < ratioS A w o a := by
  unfold ratioS
  obtain ⟨j, hj⟩ := hd.2
  exact sum_lt_sum (fun j _ => signed_term_mono (hw j) (hd.1 j)) ⟨j, mem_univ j, signed_term_strict (hw j) hj⟩

theorem wsm_eq_ratio (A : Fin m → Fin n → ℝ) (w : Fin n → ℝ) (i : Fin m) :
    wsmS A w i = ratioS A w (fun _ => .max) i := by simp [wsmS, ratioS, sgn]

theorem wsm_dom_strict (A : Fin m → Fin n → ℝ) (w : Fin n → ℝ) (hw : ∀ j, 0 < w j)
    (a b : Fin m) (hd : dominates (fun _ => Obj.max) (A a) (A b)) : wsmS A w b < wsmS A w a := by
  rw [wsm_eq_ratio, wsm_eq_ratio]; exact ratio_dom_strict A w hw _ a b hd

/-- C05: multiplying all weights by `c > 0` multiplies the score by `c` (ranking unchanged) -/
theorem ratio_weight_scale (A : Fin m → Fin n → ℝ) (w : Fin n → ℝ) (o : Fin n → Obj) (c : ℝ) (i : Fin m) :
    ratioS A (fun j => c * w j) o i = c * ratioS A w o i := by
  unfold ratioS; rw [mul_sum]; apply sum_congr rfl; intro j _; ring

/-- C05: permuting criteria together with their weights and objectives changes nothing -/
theorem ratio_col_perm (A : Fin m → Fin n → ℝ) (w : Fin n → ℝ) (o : Fin n → Obj) (τ : Equiv.Perm (Fin n)) (i : Fin m) :
    ratioS (fun i j => A i (τ j)) (w ∘ τ) (o ∘ τ) i = ratioS A w o i := by
  unfold ratioS; exact Equiv.sum_comp τ (fun j => A i j * (w j * sgn (o j)))

/-- C06 for WPM (all criteria maximised, positive data): strictly monotone because `log` is -/
theorem wpm_dom_strict (A : Fin m → Fin n → ℝ) (hA : ∀ i j, 0 < A i j) (w : Fin n → ℝ) (hw : ∀ j, 0 < w j)
    (a b : Fin m) (hd : dominates (fun _ => Obj.max) (A a) (A b)) : wpmS A w b < wpmS A w a := by
  unfold wpmS
  obtain ⟨j, hj⟩ := hd.2
  have hmono : ∀ j, Real.logb 10 (A b j) ≤ Real.logb 10 (A a j) := fun j =>
    Real.logb_le_logb_of_le (by norm_num) (hA b j) (dom_max rfl (hd.1 j))
  refine sum_lt_sum (fun j _ => mul_le_mul_of_nonneg_left (hmono j) (hw j).le) ⟨j, mem_univ j, ?_⟩
  have : A b j < A a j := by simpa [better] using hj
  exact mul_lt_mul_of_pos_left (Real.logb_lt_logb (by norm_num) (hA b j) this) (hw j)

/-- C06 for the Full Multiplicative Form (mixed objectives, positive data and weights) -/
theorem fmf_dom_strict (A : Fin m → Fin n → ℝ) (hA : ∀ i j, 0 < A i j) (w : Fin n → ℝ) (hw : ∀ j, 0 < w j)
    (o : Fin n → Obj) (a b : Fin m) (hd : dominates o (A a) (A b)) : fmfS A w o b < fmfS A w o a := by
  unfold fmfS
  obtain ⟨j, hj⟩ := hd.2
  have key : ∀ j, sgn (o j) * Real.log (A b j * w j) ≤ sgn (o j) * Real.log (A a j * w j) := by
    intro j
    have hb := mul_pos (hA b j) (hw j); have ha := mul_pos (hA a j) (hw j)
    cases ho : o j
    · have := dom_max ho (hd.1 j)
      simp only [sgn, one_mul]
      exact Real.log_le_log hb (mul_le_mul_of_nonneg_right this (hw j).le)
    · have := dom_min ho (hd.1 j)
      simp only [sgn, neg_mul, one_mul, neg_le_neg_iff]
      exact Real.log_le_log ha (mul_le_mul_of_nonneg_right this (hw j).le)
  refine sum_lt_sum (fun j _ => key j) ⟨j, mem_univ j, ?_⟩
  have hb := mul_pos (hA b j) (hw j); have ha := mul_pos (hA a j) (hw j)
  cases ho : o j <;> simp only [ho, better] at hj
  · simp only [sgn, one_mul]
    exact Real.log_lt_log hb (mul_lt_mul_of_pos_right hj (hw j))
  · simp only [sgn, neg_mul, one_mul, neg_lt_neg_iff]
    exact Real.log_lt_log ha (mul_lt_mul_of_pos_right hj (hw j))

/-- the code's score when there is no maximise criterion is the formula shifted by the constant 1
(`Aj = 1.0`): the ordering is the formula's in every case -/
theorem fmf_shift_order (s : Fin m → ℝ) (c : ℝ) (a b : Fin m) : s b + c < s a + c ↔ s b < s a := by
  constructor <;> intro h <;> linarith

#print axioms ratio_dom_strict
#print axioms wpm_dom_strict
#print axioms fmf_dom_strict
end Skc.Spec
