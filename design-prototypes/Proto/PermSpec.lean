import Proto.Topsis2
open Finset

/-! C05 at the S layer: TOPSIS under permutations of alternatives (rows) and of criteria
(columns, together with weights and objectives). -/
variable {m n : ℕ} [NeZero m]

theorem sup'_perm {ι α : Type*} [Fintype ι] [Nonempty ι] [LinearOrder α] (f : ι → α) (σ : Equiv.Perm ι) :
    univ.sup' univ_nonempty (f ∘ σ) = univ.sup' univ_nonempty f := by
  apply le_antisymm
  · apply sup'_le; intro i _; exact le_sup' f (mem_univ (σ i))
  · apply sup'_le; intro i _
    have h := le_sup' (f ∘ σ) (mem_univ (σ.symm i))
    simp only [Function.comp_apply, Equiv.apply_symm_apply] at h
    exact h
theorem inf'_perm {ι α : Type*} [Fintype ι] [Nonempty ι] [LinearOrder α] (f : ι → α) (σ : Equiv.Perm ι) :
    univ.inf' univ_nonempty (f ∘ σ) = univ.inf' univ_nonempty f := by
  apply le_antisymm
  · apply le_inf'; intro i _
    have h := inf'_le (f ∘ σ) (mem_univ (σ.symm i))
    simp only [Function.comp_apply, Equiv.apply_symm_apply] at h
    exact h
  · apply le_inf'; intro i _; exact inf'_le f (mem_univ (σ i))

/-- listing the alternatives in another order does not move the ideal point … -/
theorem ideal_row_perm (A : Fin m → Fin n → ℝ) (w : Fin n → ℝ) (o : Fin n → Obj) (σ : Equiv.Perm (Fin m)) :
    ideal (fun i => A (σ i)) w o = ideal A w o := by
  funext j
  unfold ideal hi lo
  have h1 : (fun i => V (fun i => A (σ i)) w i j) = (fun i => V A w i j) ∘ σ := rfl
  simp only [h1, sup'_perm, inf'_perm]
theorem anti_row_perm (A : Fin m → Fin n → ℝ) (w : Fin n → ℝ) (o : Fin n → Obj) (σ : Equiv.Perm (Fin m)) :
    anti (fun i => A (σ i)) w o = anti A w o := by
  funext j
  unfold anti hi lo
  have h1 : (fun i => V (fun i => A (σ i)) w i j) = (fun i => V A w i j) ∘ σ := rfl
  simp only [h1, sup'_perm, inf'_perm]

/-- … so every alternative keeps its similarity, under its own name -/
theorem topsis_row_perm (d : (Fin n → ℝ) → (Fin n → ℝ) → ℝ) (A : Fin m → Fin n → ℝ) (w : Fin n → ℝ)
    (o : Fin n → Obj) (σ : Equiv.Perm (Fin m)) (i : Fin m) :
    sim (d (V (fun i => A (σ i)) w i) (ideal (fun i => A (σ i)) w o)) (d (V (fun i => A (σ i)) w i) (anti (fun i => A (σ i)) w o)) =
    sim (d (V A w (σ i)) (ideal A w o)) (d (V A w (σ i)) (anti A w o)) := by
  rw [ideal_row_perm, anti_row_perm]; rfl

/-- criteria in another order (with their weights and objectives): city-block similarity unchanged -/
theorem topsis_city_col_perm (A : Fin m → Fin n → ℝ) (w : Fin n → ℝ) (o : Fin n → Obj)
    (τ : Equiv.Perm (Fin n)) (i : Fin m) :
    dCity (V (fun i j => A i (τ j)) (w ∘ τ) i) (ideal (fun i j => A i (τ j)) (w ∘ τ) (o ∘ τ)) =
    dCity (V A w i) (ideal A w o) := by
  unfold dCity
  have : ∀ j, |V (fun i j => A i (τ j)) (w ∘ τ) i j - ideal (fun i j => A i (τ j)) (w ∘ τ) (o ∘ τ) j| =
      (fun j => |V A w i j - ideal A w o j|) (τ j) := by
    intro j; rfl
  simp only [this]
  exact Equiv.sum_comp τ (fun j => |V A w i j - ideal A w o j|)
#print axioms topsis_row_perm
#print axioms topsis_city_col_perm
