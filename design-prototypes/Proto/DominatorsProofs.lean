import Proto.Dominators
import Proto.SelectProofs
import Mathlib.Data.Finset.Card
import Mathlib.Data.Finset.Basic
import Mathlib.Tactic
open Skc.Dom Finset

/-- the set of dominators of `a` among the `n` alternatives -/
def domSet (D : Nat → Nat → Bool) (n a : Nat) : Finset Nat := (range n).filter (D · a)

theorem mem_ds (D : Nat → Nat → Bool) (n a x : Nat) :
    x ∈ (List.range n).filter (D · a) ↔ x ∈ domSet D n a := by simp [domSet]

/-- a strict partial order: each dominator has strictly fewer dominators -/
theorem domSet_ssubset (D : Nat → Nat → Bool) (n : Nat) (hirr : ∀ x, D x x = false)
    (htr : ∀ x y z, D x y = true → D y z = true → D x z = true) {a d : Nat} (hd : d ∈ domSet D n a) :
    domSet D n d ⊂ domSet D n a := by
  simp only [domSet, mem_filter, mem_range] at hd
  refine Finset.ssubset_iff_of_subset ?_ |>.mpr ⟨d, by simp [domSet, hd], by simp [domSet, hirr]⟩
  intro x hx
  simp only [domSet, mem_filter, mem_range] at hx ⊢
  exact ⟨hx.1, htr x d a hx.2 hd.2⟩

/-- Termination as a theorem: with a budget of `#dominators + 1` frames the recursion never
overflows, and the result lists exactly the dominators (as a set — with repetitions, as in the code).
Hence `has_loops` is `False` on every finite-valued matrix. -/
theorem dominatorsOf_ok (D : Nat → Nat → Bool) (n : Nat) (hirr : ∀ x, D x x = false)
    (htr : ∀ x y z, D x y = true → D y z = true → D x z = true) :
    ∀ fuel a, (domSet D n a).card < fuel →
      ∃ l, dominatorsOf D n fuel a = some l ∧ ∀ x, x ∈ l ↔ x ∈ domSet D n a := by
  intro fuel
  induction fuel with
  | zero => intro a h; omega
  | succ f ih =>
    intro a hcard
    unfold dominatorsOf
    simp only
    split
    · rename_i hemp
      refine ⟨[], rfl, fun x => ?_⟩
      rw [← mem_ds]
      have : (List.range n).filter (D · a) = [] := List.isEmpty_iff.mp hemp
      simp [this]
    · -- every recursive call succeeds
      have hall : ∀ d ∈ (List.range n).filter (D · a),
          ∃ l, dominatorsOf D n f d = some l ∧ ∀ x, x ∈ l ↔ x ∈ domSet D n d := by
        intro d hd
        have hd' := (mem_ds D n a d).mp hd
        have := card_lt_card (domSet_ssubset D n hirr htr hd')
        exact ih d (by omega)
      cases hm : ((List.range n).filter (D · a)).mapM (dominatorsOf D n f) with
      | none =>
        exfalso
        -- mapM fails only if some call fails
        have : ∀ (l : List Nat), (∀ d ∈ l, ∃ r, dominatorsOf D n f d = some r) → l.mapM (dominatorsOf D n f) ≠ none := by
          intro l
          induction l with
          | nil => intro _; simp
          | cons x t iht =>
            intro h
            obtain ⟨r, hr⟩ := h x (by simp)
            have := iht (fun d hd => h d (by simp [hd]))
            simp only [List.mapM_cons, hr]
            cases ht : t.mapM (dominatorsOf D n f) with
            | none => exact absurd ht this
            | some _ => simp
        exact this _ (fun d hd => let ⟨l, hl, _⟩ := hall d hd; ⟨l, hl⟩) hm
      | some rest =>
        refine ⟨_, rfl, fun x => ?_⟩
        obtain ⟨hlen, hidx⟩ := mapM_some _ _ _ hm
        simp only [List.mem_append, List.mem_flatten]
        constructor
        · rintro (h | ⟨l, hl, hx⟩)
          · exact (mem_ds D n a x).mp h
          · obtain ⟨k, hk, rfl⟩ := List.getElem_of_mem hl
            have hk' : k < ((List.range n).filter (D · a)).length := by omega
            have e := hidx k hk' hk
            set d := ((List.range n).filter (D · a))[k] with hd
            have hdm : d ∈ (List.range n).filter (D · a) := List.getElem_mem hk'
            obtain ⟨l, hl, hmem⟩ := hall d hdm
            rw [hl] at e; cases e
            have hxd := (hmem x).mp hx
            exact (domSet_ssubset D n hirr htr ((mem_ds D n a d).mp hdm)).subset hxd
        · intro h; exact Or.inl ((mem_ds D n a x).mpr h)
#print axioms dominatorsOf_ok
