/-! C18 model: untied rank after the repair (stable), and the present `argsort + 1`. Core only. -/
namespace Skc
/-- stable untied rank of position `i`: entries strictly better, plus equal entries that appear earlier, plus one -/
def untiedAt (r : List Nat) (i : Nat) : Nat :=
  (r.filter (· < r.getD i 0)).length + ((r.take i).filter (· == r.getD i 0)).length + 1
def untied (r : List Nat) : List Nat := (List.range r.length).map (untiedAt r)

/-- insertion sort of positions by key (stable) — `np.argsort(kind="stable")` -/
def insertPos (r : List Nat) (i : Nat) : List Nat → List Nat
  | [] => [i]
  | j :: t => if r.getD i 0 ≤ r.getD j 0 then i :: j :: t else j :: insertPos r i t
def argsortStable (r : List Nat) : List Nat := (List.range r.length).reverse.foldl (fun acc i => insertPos r i acc) []
/-- the present code: `np.argsort(rank) + 1` (positions, not ranks) -/
def untied_v0 (r : List Nat) : List Nat := (argsortStable r).map (· + 1)

example : untied [2, 1, 1] = [3, 1, 2] := by decide
example : untied_v0 [2, 1, 1] = [2, 3, 1] := by decide      -- worst alternative ranked second
example : untied [1, 2, 1] = untied_v0 [1, 2, 1] := by decide  -- the only tied case in the test-suite
end Skc
