/-! C08 prototype: `_electre2_ranker` as a fuelled loop over the list of still-unranked indices. Core only. -/
namespace Skc.Electre

abbrev Graph := Nat → Nat → Bool     -- outrank i j

/-- the round's kernel: not strongly outranked by a remaining alternative, but weakly outranked by one -/
def roundKernel (S W : Graph) (rem : List Nat) : List Nat :=
  rem.filter fun j => !(rem.any (S · j)) && rem.any (W · j)

/-- returns (index, rank) pairs; `fuel` bounds the number of rounds -/
def rankerLoop (S W : Graph) : Nat → List Nat → Nat → List (Nat × Nat)
  | 0, rem, r => rem.map (·, r)
  | fuel + 1, rem, r =>
    if rem.isEmpty then [] else
    let k := roundKernel S W rem
    if k.isEmpty then rem.map (·, r)
    else k.map (·, r) ++ rankerLoop S W fuel (rem.filter (! k.contains ·)) (r + 1)

def ranker (S W : Graph) (n : Nat) : List (Nat × Nat) := rankerLoop S W n (List.range n) 1

theorem roundKernel_sub (S W : Graph) (rem : List Nat) : ∀ j ∈ roundKernel S W rem, j ∈ rem := by
  intro j hj; exact (List.mem_filter.mp hj).1

/-- removing a non-empty kernel strictly shrinks the remaining list -/
theorem shrink (S W : Graph) (rem : List Nat) (h : (roundKernel S W rem).isEmpty = false) :
    (rem.filter (! (roundKernel S W rem).contains ·)).length < rem.length := by
  obtain ⟨j, hj⟩ : ∃ j, j ∈ roundKernel S W rem := by
    cases hk : roundKernel S W rem with
    | nil => simp [hk] at h
    | cons a t => exact ⟨a, by simp⟩
  have hjr := roundKernel_sub S W rem j hj
  apply List.length_filter_lt_length_iff_exists.mpr
  exact ⟨j, hjr, by simp [hj]⟩

/-- with fuel ≥ length the `0`-fuel fallback is never reached with a non-empty remainder: every
index of `rem` receives exactly one rank and nothing else does -/
theorem loop_covers (S W : Graph) : ∀ fuel rem r, rem.length ≤ fuel → rem.Nodup →
    ((rankerLoop S W fuel rem r).map (·.1)).Perm rem := by
  intro fuel
  induction fuel with
  | zero => intro rem r h _; simp [rankerLoop, Function.comp_def]
  | succ f ih =>
    intro rem r h hnd
    unfold rankerLoop
    split
    · rename_i he; simp at he; simp [he]
    · simp only
      split
      · simp [Function.comp_def]
      · rename_i _ hk
        have hk' : (roundKernel S W rem).isEmpty = false := by simpa using hk
        have hlt := shrink S W rem hk'
        have ih' := ih (rem.filter (! (roundKernel S W rem).contains ·)) (r + 1) (by omega) (hnd.filter _)
        rw [List.map_append]
        have h1 : ((roundKernel S W rem).map (·, r)).map (·.1) = roundKernel S W rem := by
          simp [Function.comp_def]
        rw [h1]
        refine (List.Perm.append_left _ ih').trans ?_
        -- kernel ++ (rem \ kernel) ~ rem
        have hK : rem.filter (fun j => (roundKernel S W rem).contains j) = roundKernel S W rem := by
          conv => rhs; unfold roundKernel
          apply List.filter_congr
          intro x hx
          simp only [List.contains_eq_mem, roundKernel, List.mem_filter, hx, true_and]
          cases hb : ((!rem.any fun x_1 => S x_1 x) && rem.any fun x_1 => W x_1 x) <;> simp
        have hp := List.filter_append_perm (fun j => (roundKernel S W rem).contains j) rem
        rw [hK] at hp
        simpa using hp

#eval ranker (fun i j => (i, j) ∈ [(0,1),(1,2)]) (fun i j => (i, j) ∈ [(0,1),(1,2),(0,2)]) 4
end Skc.Electre
