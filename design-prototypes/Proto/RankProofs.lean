import Proto.Rank
import Mathlib.Data.Finset.Card
import Mathlib.Data.List.Nodup
import Mathlib.Data.Finset.Basic
import Mathlib.Order.Basic
import Mathlib.Data.List.Basic
open Skc
variable {α : Type*} [LinearOrder α]

theorem mem_distinct (s : List α) (x : α) : x ∈ distinct s ↔ x ∈ s := by
  induction s with
  | nil => simp [distinct]
  | cons a t ih =>
    unfold distinct
    split
    · rename_i h; constructor
      · intro hx; exact List.mem_cons_of_mem _ (ih.mp hx)
      · intro hx; rcases List.mem_cons.mp hx with rfl | hx
        · exact h
        · exact ih.mpr hx
    · simp [ih]

theorem nodup_distinct (s : List α) : (distinct s).Nodup := by
  induction s with
  | nil => simp [distinct]
  | cons a t ih =>
    unfold distinct
    split
    · exact ih
    · rename_i h; exact List.nodup_cons.mpr ⟨h, ih⟩

theorem rankOf_eq_card (s : List α) (x : α) :
    rankOf s x = ((distinct s).toFinset.filter (· < x)).card + 1 := by
  unfold rankOf
  congr 1
  have h1 : ((distinct s).filter (· < x)).toFinset = (distinct s).toFinset.filter (· < x) := by
    ext d; simp
  rw [← h1, List.toFinset_card_of_nodup ((nodup_distinct s).filter _)]

theorem rankOf_lt_iff (s : List α) {x y : α} (hx : x ∈ s) (hy : y ∈ s) :
    rankOf s x < rankOf s y ↔ x < y := by
  rw [rankOf_eq_card, rankOf_eq_card]
  constructor
  · intro h
    by_contra hn
    push_neg at hn
    have : (distinct s).toFinset.filter (· < y) ⊆ (distinct s).toFinset.filter (· < x) := by
      intro d hd
      simp only [Finset.mem_filter] at hd ⊢
      exact ⟨hd.1, lt_of_lt_of_le hd.2 hn⟩
    have := Finset.card_le_card this
    omega
  · intro h
    have hsub : (distinct s).toFinset.filter (· < x) ⊂ (distinct s).toFinset.filter (· < y) := by
      refine Finset.ssubset_iff_of_subset ?_ |>.mpr ⟨x, ?_, ?_⟩
      · intro d hd
        simp only [Finset.mem_filter] at hd ⊢
        exact ⟨hd.1, lt_trans hd.2 h⟩
      · simp [mem_distinct, hx, h]
      · simp
    have := Finset.card_lt_card hsub
    omega
#print axioms rankOf_lt_iff
