/-! C07 model: the recursive `dominators_of` with an explicit recursion budget. Core only. -/
namespace Skc.Dom
/-- `none` stands for Python's RecursionError (which `has_loops` turns into `True`) -/
def dominatorsOf (D : Nat → Nat → Bool) (n : Nat) : Nat → Nat → Option (List Nat)
  | 0, _ => none
  | fuel + 1, a =>
    let ds := (List.range n).filter (D · a)
    if ds.isEmpty then some [] else
      match ds.mapM (dominatorsOf D n fuel) with
      | none => none
      | some rest => some (ds ++ rest.flatten)

-- a chain A2 ≻ A1 ≻ A0 (and A2 ≻ A0): the real call returns ['A1','A2','A2']
def chain (x y : Nat) : Bool := decide (y < x)
example : dominatorsOf chain 3 3 0 = some [1, 2, 2] := by decide
example : dominatorsOf chain 3 1 0 = none := by decide          -- budget too small
end Skc.Dom
