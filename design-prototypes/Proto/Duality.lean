import Mathlib.Algebra.Order.Field.Basic
import Mathlib.Algebra.BigOperators.Fin
import Mathlib.Algebra.Order.BigOperators.Group.Finset
import Mathlib.Algebra.Order.BigOperators.Ring.Finset
import Mathlib.Tactic

open Finset
variable {α : Type*} [Field α] [LinearOrder α] [IsStrictOrderedRing α]
variable {k n : ℕ}

/-- A maximisation stage in inequality form: rows `i` with sense `le i` (true: `A i · x ≤ b i`,
false: `A i · x ≥ b i`), variables `x ≥ 0`. -/
structure LPmax (α : Type*) (k n : ℕ) where
  A : Fin k → Fin n → α
  b : Fin k → α
  le : Fin k → Bool
  c : Fin n → α

def LPmax.feasible (P : LPmax α k n) (x : Fin n → α) : Prop :=
  (∀ j, 0 ≤ x j) ∧ ∀ i, if P.le i then ∑ j, P.A i j * x j ≤ P.b i else P.b i ≤ ∑ j, P.A i j * x j

/-- dual certificate: multipliers `y i ≥ 0` on `≤` rows, `y i ≤ 0` on `≥` rows, with `yᵀA ≥ c`. -/
def LPmax.dualOK (P : LPmax α k n) (y : Fin k → α) : Prop :=
  (∀ i, if P.le i then 0 ≤ y i else y i ≤ 0) ∧ ∀ j, P.c j ≤ ∑ i, y i * P.A i j

theorem LPmax.weak_duality (P : LPmax α k n) (x : Fin n → α) (y : Fin k → α)
    (hx : P.feasible x) (hy : P.dualOK y) : ∑ j, P.c j * x j ≤ ∑ i, y i * P.b i := by
  calc ∑ j, P.c j * x j ≤ ∑ j, (∑ i, y i * P.A i j) * x j :=
        sum_le_sum fun j _ => mul_le_mul_of_nonneg_right (hy.2 j) (hx.1 j)
    _ = ∑ i, y i * ∑ j, P.A i j * x j := by
        simp only [sum_mul, mul_sum]
        rw [sum_comm]
        apply sum_congr rfl; intro i _; apply sum_congr rfl; intro j _; ring
    _ ≤ ∑ i, y i * P.b i := by
        apply sum_le_sum; intro i _
        have h1 := hy.1 i; have h2 := hx.2 i
        cases hle : P.le i <;> simp only [hle, if_true, if_false, Bool.false_eq_true] at h1 h2
        · exact mul_le_mul_of_nonpos_left h2 h1
        · exact mul_le_mul_of_nonneg_left h2 h1

/-- certificate soundness: a feasible `x` whose objective reaches the dual bound within `δ`
is `δ`-optimal among all feasible points. -/
theorem LPmax.cert_sound (P : LPmax α k n) (x : Fin n → α) (y : Fin k → α) (δ : α)
    (hy : P.dualOK y) (hgap : ∑ i, y i * P.b i ≤ ∑ j, P.c j * x j + δ)
    (x' : Fin n → α) (hx' : P.feasible x') : ∑ j, P.c j * x' j ≤ ∑ j, P.c j * x j + δ :=
  le_trans (P.weak_duality x' y hx' hy) hgap
#print axioms LPmax.cert_sound
