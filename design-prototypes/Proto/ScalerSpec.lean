import Mathlib.Algebra.Order.Field.Basic
import Mathlib.Algebra.BigOperators.Fin
import Mathlib.Algebra.BigOperators.Field
import Mathlib.Algebra.Order.BigOperators.Group.Finset
import Mathlib.Data.Finset.Lattice.Fold
import Mathlib.Order.Fin.Basic
import Mathlib.Tactic

/-! S-layer scalers on one criterion (a column `x : Fin m → α`): normal forms (C11) and
order preservation (C12). Weight-target scalers are the same functions applied to the
weight vector as a whole. -/
namespace Skc.Spec
open Finset

variable {α : Type*} [Field α] [LinearOrder α] [IsStrictOrderedRing α] {m : ℕ}

def sumScale (x : Fin m → α) (i : Fin m) : α := x i / ∑ k, x k
def minmaxScale [NeZero m] (lo hi : α) (x : Fin m → α) (i : Fin m) : α :=
  (x i - univ.inf' univ_nonempty x) / (univ.sup' univ_nonempty x - univ.inf' univ_nonempty x) * (hi - lo) + lo
def pushNeg [NeZero m] (x : Fin m → α) (i : Fin m) : α :=
  x i - (if univ.inf' univ_nonempty x < 0 then univ.inf' univ_nonempty x else 0)
def addToZero (v : α) (x : Fin m → α) (i : Fin m) : α := x i + (if ∃ k, x k = 0 then v else 0)
def negateCol (x : Fin m → α) (i : Fin m) : α := - x i
def invertCol (x : Fin m → α) (i : Fin m) : α := 1 / x i

/-- C11 SumScaler: the output sums to one -/
theorem sumScale_sum (x : Fin m → α) (h : ∑ k, x k ≠ 0) : ∑ i, sumScale x i = 1 := by
  unfold sumScale; rw [← sum_div]; exact div_self h

/-- C12 SumScaler on data with positive sum: order preserved in both directions -/
theorem sumScale_lt_iff (x : Fin m → α) (h : 0 < ∑ k, x k) (a b : Fin m) :
    sumScale x a < sumScale x b ↔ x a < x b := by
  unfold sumScale; exact div_lt_div_iff_of_pos_right h

/-- C11 MinMaxScaler: minimum ↦ lo, maximum ↦ hi (non-constant column) -/
theorem minmax_ends [NeZero m] (lo hi : α) (x : Fin m → α)
    (hr : univ.inf' univ_nonempty x < univ.sup' univ_nonempty x) (a b : Fin m)
    (ha : x a = univ.inf' univ_nonempty x) (hb : x b = univ.sup' univ_nonempty x) :
    minmaxScale lo hi x a = lo ∧ minmaxScale lo hi x b = hi := by
  unfold minmaxScale
  have hne : univ.sup' univ_nonempty x - univ.inf' univ_nonempty x ≠ 0 := by
    have := sub_pos.mpr hr; exact ne_of_gt this
  constructor
  · rw [ha]; simp
  · rw [hb, div_self hne]; ring

/-- C12 MinMaxScaler with `lo < hi` (what scikit-learn enforces): strictly increasing -/
theorem minmax_lt_iff [NeZero m] (lo hi : α) (hlh : lo < hi) (x : Fin m → α)
    (hr : univ.inf' univ_nonempty x < univ.sup' univ_nonempty x) (a b : Fin m) :
    minmaxScale lo hi x a < minmaxScale lo hi x b ↔ x a < x b := by
  unfold minmaxScale
  have h1 : 0 < univ.sup' univ_nonempty x - univ.inf' univ_nonempty x := sub_pos.mpr hr
  have h2 : 0 < hi - lo := sub_pos.mpr hlh
  rw [add_lt_add_iff_right, mul_lt_mul_iff_left₀ h2, div_lt_div_iff_of_pos_right h1, sub_lt_sub_iff_right]

/-- C11 PushNegatives: a column is shifted iff its minimum is negative, and then its minimum becomes 0 -/
theorem pushNeg_cases [NeZero m] (x : Fin m → α) :
    (univ.inf' univ_nonempty x < 0 → ∀ i, pushNeg x i = x i - univ.inf' univ_nonempty x) ∧
    (¬ univ.inf' univ_nonempty x < 0 → ∀ i, pushNeg x i = x i) := by
  unfold pushNeg
  constructor <;> intro h i <;> simp [h]

/-- C12: shifts preserve order -/
theorem pushNeg_lt_iff [NeZero m] (x : Fin m → α) (a b : Fin m) : pushNeg x a < pushNeg x b ↔ x a < x b := by
  unfold pushNeg; exact sub_lt_sub_iff_right _
theorem addToZero_lt_iff (v : α) (x : Fin m → α) (a b : Fin m) : addToZero v x a < addToZero v x b ↔ x a < x b := by
  unfold addToZero; exact add_lt_add_iff_right _

/-- C12 NegateMinimize: "smaller is better" before ⇔ "larger is better" after -/
theorem negate_better_iff (x : Fin m → α) (a b : Fin m) : negateCol x b < negateCol x a ↔ x a < x b := by
  unfold negateCol; exact neg_lt_neg_iff
/-- C12 InvertMinimize on positive data -/
theorem invert_better_iff (x : Fin m → α) (hx : ∀ i, 0 < x i) (a b : Fin m) :
    invertCol x b < invertCol x a ↔ x a < x b := by
  unfold invertCol; exact one_div_lt_one_div (hx b) (hx a)

#print axioms minmax_lt_iff
#print axioms invert_better_iff
end Skc.Spec
