import Proto.Mat
import Mathlib.Algebra.Order.Field.Basic
import Mathlib.Algebra.BigOperators.Fin
import Mathlib.Data.Finset.Lattice.Fold
import Mathlib.Order.Fin.Basic
import Mathlib.Data.List.OfFn
import Mathlib.Tactic
open Skc.Mat Finset

variable {α : Type*}

/-- list form of a `Fin`-indexed matrix -/
def toL {m n : ℕ} (A : Fin m → Fin n → α) : List (List α) := List.ofFn fun i => List.ofFn (A i)

theorem col_toL {m n : ℕ} (A : Fin m → Fin n → α) (j : Fin n) :
    col (toL A) j = List.ofFn fun i => A i j := by
  unfold col toL
  rw [List.ofFn_eq_map, List.filterMap_map, List.ofFn_eq_map]
  have : ((fun x : List α => x[(j : ℕ)]?) ∘ fun i => List.ofFn (A i)) = fun i => some (A i j) := by
    funext i; simp [List.getElem?_ofFn, j.2]
  rw [this]
  rw [List.filterMap_eq_map']

theorem cols_toL {m n : ℕ} (A : Fin m → Fin n → α) :
    cols (toL A) n = List.ofFn fun j : Fin n => List.ofFn fun i => A i j := by
  unfold cols
  apply List.ext_getElem
  · simp
  · intro k h1 h2
    simp only [List.getElem_map, List.getElem_range, List.getElem_ofFn]
    have hk : k < n := by simpa using h1
    exact col_toL A ⟨k, hk⟩

theorem foldl_max_spec [LinearOrder α] : ∀ (l : List α) (a : α),
    (∀ y ∈ a :: l, y ≤ l.foldl max a) ∧ l.foldl max a ∈ a :: l := by
  intro l
  induction l with
  | nil => intro a; simp
  | cons b t ih =>
    intro a
    obtain ⟨h1, h2⟩ := ih (max a b)
    simp only [List.foldl_cons]
    constructor
    · intro y hy
      rcases List.mem_cons.mp hy with rfl | hy
      · exact le_trans (le_max_left _ _) (h1 _ (List.mem_cons_self))
      · rcases List.mem_cons.mp hy with rfl | hy
        · exact le_trans (le_max_right _ _) (h1 _ (List.mem_cons_self))
        · exact h1 _ (List.mem_cons_of_mem _ hy)
    · rcases List.mem_cons.mp h2 with h | h
      · rw [h]
        rcases max_choice a b with h' | h' <;> rw [h'] <;> simp
      · exact List.mem_cons_of_mem _ (List.mem_cons_of_mem _ h)

/-- `np.max` over a non-empty axis is the supremum -/
theorem maxL_ofFn [LinearOrder α] {m : ℕ} (f : Fin (m+1) → α) :
    maxL? (List.ofFn f) = some (univ.sup' univ_nonempty f) := by
  unfold maxL? reduce?
  rw [List.ofFn_succ]
  simp only [Option.some.injEq]
  obtain ⟨h1, h2⟩ := foldl_max_spec (List.ofFn fun i : Fin m => f i.succ) (f 0)
  apply le_antisymm
  · have : ∃ k, f k = (List.ofFn fun i : Fin m => f i.succ).foldl max (f 0) := by
      rcases List.mem_cons.mp h2 with h | h
      · exact ⟨0, h.symm⟩
      · obtain ⟨i, hi⟩ := (List.mem_ofFn' _ _).mp h
        exact ⟨i.succ, hi⟩
    obtain ⟨k, hk⟩ := this
    rw [← hk]; exact le_sup' f (mem_univ k)
  · apply sup'_le; intro i _
    apply h1
    refine Fin.cases ?_ (fun i => ?_) i
    · simp
    · exact List.mem_cons_of_mem _ ((List.mem_ofFn' _ _).mpr ⟨i, rfl⟩)
#print axioms maxL_ofFn
#print axioms cols_toL
