import Proto.Filters
import Mathlib.Data.List.Perm.Basic
import Mathlib.Data.List.Basic
import Mathlib.Tactic
open Skc.Filters

variable {α : Type} [LinearOrder α]

/-- C14: the order in which the conditions are written is irrelevant -/
theorem rowPasses_perm (r : Rel) (crits : List String) {c₁ c₂ : List (String × α)} (h : c₁.Perm c₂)
    (row : List α) : rowPasses r crits c₁ row = rowPasses r crits c₂ row := by
  unfold rowPasses
  rw [Bool.eq_iff_iff, List.all_eq_true, List.all_eq_true]
  exact ⟨fun hx x hx' => hx x (h.mem_iff.mpr hx'), fun hx x hx' => hx x (h.mem_iff.mp hx')⟩

/-- a row survives iff every condition holds on the column it names -/
theorem rowPasses_iff (r : Rel) (crits : List String) (conds : List (String × α)) (row : List α) :
    rowPasses r crits conds row = true ↔
      ∀ c t, (c, t) ∈ conds → ∃ x, cellOf crits row c = some x ∧ r.holds x t = true := by
  unfold rowPasses
  rw [List.all_eq_true]
  constructor
  · intro h c t hc
    have := h (c, t) hc
    simp only at this
    split at this
    · rename_i x hx; exact ⟨x, hx, this⟩
    · exact absurd this (by simp)
  · intro h ⟨c, t⟩ hc
    obtain ⟨x, hx, hh⟩ := h c t hc
    simp only [hx, hh]

/-- survivors keep their relative order and their rows (well-formed: one row per alternative) -/
theorem applyFilter_sublist (pass : List α → Bool) (alts : List String) (rows : List (List α))
    (hlen : alts.length = rows.length) :
    ((applyFilter pass alts rows).1).Sublist alts ∧ ((applyFilter pass alts rows).2).Sublist rows := by
  unfold applyFilter
  simp only
  have h1 : ((alts.zip rows).filter fun ar => pass ar.2).Sublist (alts.zip rows) := List.filter_sublist
  constructor
  · have h2 := h1.map Prod.fst
    rwa [List.map_fst_zip (by omega)] at h2
  · have h2 := h1.map Prod.snd
    rwa [List.map_snd_zip (by omega)] at h2
#print axioms rowPasses_iff
#print axioms applyFilter_sublist
