import Mathlib.Algebra.Order.Field.Basic
import Mathlib.Algebra.Order.AbsoluteValue.Basic
import Mathlib.Data.List.Basic
import Mathlib.Data.List.Zip
import Mathlib.Tactic

/-! C17 prototype: tolerant comparison as NumPy does it (`|a−b| ≤ atol + rtol·|b|`, one-sided),
with the shape guard and with the caller's tolerance used for *every* member (the repaired
`ResultABC.diff`). -/
namespace Skc.Diff
variable {α : Type*} [Field α] [LinearOrder α] [IsStrictOrderedRing α]

structure Tol (α : Type*) where
  rtol : α
  atol : α
  equalNan : Bool

/-- one cell; `none` is NaN -/
def closeCell (t : Tol α) : Option α → Option α → Bool
  | some x, some y => decide (|x - y| ≤ t.atol + t.rtol * |y|)
  | none, none => t.equalNan
  | _, _ => false

/-- arrays: equal shape first (the guard), then every cell -/
def arrClose (t : Tol α) (a b : List (Option α)) : Bool :=
  decide (a.length = b.length) && (List.zip a b).all fun p => closeCell t p.1 p.2

def exact : Tol α := ⟨0, 0, false⟩

theorem closeCell_exact_iff (x y : Option α) : closeCell (exact : Tol α) x y = true ↔ ∃ v, x = some v ∧ y = some v := by
  cases x <;> cases y <;> simp [closeCell, exact, abs_nonpos_iff, sub_eq_zero, eq_comm]

/-- exact equality (`rtol = atol = 0`) is symmetric -/
theorem closeCell_exact_symm (x y : Option α) : closeCell (exact : Tol α) x y = closeCell (exact : Tol α) y x := by
  rw [Bool.eq_iff_iff, closeCell_exact_iff, closeCell_exact_iff]
  constructor <;> rintro ⟨v, h1, h2⟩ <;> exact ⟨v, h2, h1⟩

/-- … and implies tolerant equality for any non-negative tolerance -/
theorem closeCell_exact_imp (t : Tol α) (hr : 0 ≤ t.rtol) (ha : 0 ≤ t.atol) (x y : Option α)
    (h : closeCell (exact : Tol α) x y = true) : closeCell t x y = true := by
  obtain ⟨v, rfl, rfl⟩ := (closeCell_exact_iff x y).mp h
  simp only [closeCell, sub_self, abs_zero, decide_eq_true_eq]
  positivity

theorem mem_zip_swap' {β γ : Type*} {a : List β} {b : List γ} {x : β} {y : γ} (h : (y, x) ∈ List.zip b a) :
    (x, y) ∈ List.zip a b := by
  rw [← List.zip_swap b a]
  exact List.mem_map.mpr ⟨(y, x), h, rfl⟩

theorem arrClose_exact_symm (a b : List (Option α)) : arrClose (exact : Tol α) a b = arrClose (exact : Tol α) b a := by
  unfold arrClose
  rw [Bool.eq_iff_iff]
  simp only [Bool.and_eq_true, decide_eq_true_eq, List.all_eq_true]
  constructor
  · rintro ⟨hl, hc⟩
    refine ⟨hl.symm, ?_⟩
    rintro ⟨y, x⟩ hp
    have : (x, y) ∈ List.zip a b := by
      exact mem_zip_swap' hp
    rw [closeCell_exact_symm]; exact hc _ this
  · rintro ⟨hl, hc⟩
    refine ⟨hl.symm, ?_⟩
    rintro ⟨x, y⟩ hp
    have : (y, x) ∈ List.zip b a := by
      exact mem_zip_swap' hp
    rw [closeCell_exact_symm]; exact hc _ this

theorem arrClose_exact_imp (t : Tol α) (hr : 0 ≤ t.rtol) (ha : 0 ≤ t.atol) (a b : List (Option α))
    (h : arrClose (exact : Tol α) a b = true) : arrClose t a b = true := by
  unfold arrClose at *
  simp only [Bool.and_eq_true, decide_eq_true_eq, List.all_eq_true] at *
  exact ⟨h.1, fun p hp => closeCell_exact_imp t hr ha _ _ (h.2 p hp)⟩

/-- NumPy's own test is one-sided: the witness behind the asymmetric `==` of the present code -/
example : closeCell (⟨1/10, 0, false⟩ : Tol ℚ) (some 100) (some 111) = true ∧
    closeCell (⟨1/10, 0, false⟩ : Tol ℚ) (some 111) (some 100) = false := by
  constructor <;> simp [closeCell] <;> norm_num
#print axioms arrClose_exact_symm
#print axioms arrClose_exact_imp
end Skc.Diff
