import Proto.Mat
/-! C08 L-model: concordance, discordance, ELECTRE1 (import-free; runs at `Rat`). -/
namespace Skc.Electre
open Skc.Mat

inductive Obj | max | min deriving DecidableEq, Repr

variable {α : Type} [Add α] [Sub α] [Mul α] [Div α] [Neg α] [OfNat α 0] [LT α] [LE α] [Max α] [Min α]
  [DecidableRel (α := α) (· < ·)] [DecidableRel (α := α) (· ≤ ·)]

def absv (x : α) : α := if x < 0 then -x else x

/-- `_conc_row`: sum of the weights of the criteria on which `row` is at least as good as `other` -/
def concPair (objs : List Obj) (w : List α) (row other : List α) : α :=
  sumL ((List.zip objs (List.zip w (List.zip row other))).map fun (o, wj, x, y) =>
    match o with
    | .max => if y ≤ x then wj else 0     -- difference ≥ 0
    | .min => if x ≤ y then wj else 0)    -- difference ≤ 0

/-- concordance matrix; the diagonal is NaN in the code → `none` -/
def concordance (objs : List Obj) (w : List α) (m : List (List α)) : List (List (Option α)) :=
  m.zipIdx.map fun (row, i) => m.zipIdx.map fun (other, k) => if i = k then none else some (concPair objs w row other)

/-- `(np.max(matrix, axis=0) - np.min(matrix, axis=0)).max()` -/
def maxRange? (m : List (List α)) (n : Nat) : Option α := do
  let mx ← colMax? m n; let mn ← colMin? m n
  maxL? (List.zipWith (· - ·) mx mn)

/-- `_disc_row`: largest adverse difference divided by the global range -/
def discPair (objs : List Obj) (range : α) (row other : List α) : Option α :=
  maxL? ((List.zip objs (List.zip row other)).map fun (o, x, y) =>
    let d := y - x            -- mtx − row
    let worse := match o with | .max => decide (0 < d) | .min => decide (d < 0)
    (if worse then absv d else 0) / range)

def discordance (objs : List Obj) (m : List (List α)) (n : Nat) : Option (List (List (Option α))) := do
  let r ← maxRange? m n
  pure (m.zipIdx.map fun (row, i) => m.zipIdx.map fun (other, k) => if i = k then none else discPair objs r row other)

/-- `outrank = (conc >= p) & (disc <= q)` (NaN compares false); `kernel = ~outrank.any(axis=0)` -/
def electre1 (objs : List Obj) (w : List α) (m : List (List α)) (n : Nat) (p q : α) :
    Option (List Bool × List (List Bool)) := do
  let c := concordance objs w m
  let d ← discordance objs m n
  let out := (List.zip c d).map fun (cr, dr) => (List.zip cr dr).map fun
    | (some cv, some dv) => decide (p ≤ cv) && decide (dv ≤ q)
    | _ => false
  let kernel := (List.range m.length).map fun k => !(out.any fun r => r.getD k false)
  pure (kernel, out)
end Skc.Electre

open Skc.Electre in
#eval electre1 (α := Rat) [.max, .min, .max] [1/2, 3/10, 1/5] [[1,2,3],[3,2,1],[2,2,5/2]] 3 (65/100) (35/100)
open Skc.Electre in
#eval concordance (α := Rat) [.max, .min, .max] [1/2, 3/10, 1/5] [[1,2,3],[3,2,1],[2,2,5/2]]
open Skc.Electre in
#eval discordance (α := Rat) [.max, .min, .max] [[1,2,3],[3,2,1],[2,2,5/2]] 3
