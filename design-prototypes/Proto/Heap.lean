/-! C02 prototype: explicit store, accessor kinds, invariant, observation stability. Core only. -/
namespace Skc.Heap

abbrev Ref := Nat
abbrev Arr := List Int          -- payload of one array-like object (values abstracted to Int)

inductive Kind | freshCopy | memoThenCopy | memoShared
  deriving DecidableEq, Repr

/-- an accessor: a pure function of the internal arrays + how its result is handed out -/
structure Accessor where
  id   : Nat
  kind : Kind
  compute : List Arr → Arr       -- pure answer from the internals

structure World where
  heap     : List Arr            -- Ref = index
  internal : List Ref            -- the DecisionMatrix's own arrays
  memo     : List (Nat × Ref)    -- accessor id ↦ cached object
  handed   : List Ref            -- objects the caller holds

def World.get (w : World) (r : Ref) : Arr := w.heap.getD r []
def World.internals (w : World) : List Arr := w.internal.map w.get
def World.alloc (w : World) (a : Arr) : World × Ref := ({ w with heap := w.heap ++ [a] }, w.heap.length)

inductive Op
  | read (a : Accessor)
  | write (r : Ref) (i : Nat) (v : Int)     -- caller writes into an object it holds
  | call (f : List Arr → Arr)                -- any method: reads copies, returns a fresh object

def memoLookup (m : List (Nat × Ref)) (k : Nat) : Option Ref := (m.find? (·.1 == k)).map (·.2)

def step (w : World) : Op → World
  | .read a =>
    match a.kind with
    | .freshCopy =>
      let (w', r) := w.alloc (a.compute w.internals); { w' with handed := r :: w'.handed }
    | .memoThenCopy =>
      match memoLookup w.memo a.id with
      | some c => let (w', r) := w.alloc (w.get c); { w' with handed := r :: w'.handed }
      | none =>
        let (w1, c) := w.alloc (a.compute w.internals)
        let w2 := { w1 with memo := (a.id, c) :: w1.memo }
        let (w3, r) := w2.alloc (w2.get c); { w3 with handed := r :: w3.handed }
    | .memoShared =>
      match memoLookup w.memo a.id with
      | some c => { w with handed := c :: w.handed }
      | none =>
        let (w1, c) := w.alloc (a.compute w.internals)
        { w1 with memo := (a.id, c) :: w1.memo, handed := c :: w1.handed }
  | .write r i v =>
    if r ∈ w.handed then { w with heap := w.heap.modify r (·.set i v) } else w
  | .call f =>
    let (w', r) := w.alloc (f w.internals); { w' with handed := r :: w'.handed }

/-- what the public API reports: the internals and every memoised answer -/
def observe (w : World) : List Arr × List (Nat × Arr) := (w.internals, w.memo.map fun (k, r) => (k, w.get r))

def Inv (w : World) : Prop :=
  (∀ r ∈ w.handed, r ∉ w.internal ∧ ∀ p ∈ w.memo, p.2 ≠ r) ∧
  (∀ r ∈ w.internal, r < w.heap.length) ∧ (∀ p ∈ w.memo, p.2 < w.heap.length)

def noShared : Op → Prop
  | .read a => a.kind ≠ .memoShared
  | _ => True

theorem get_modify_ne (h : List Arr) (r r' : Ref) (f : Arr → Arr) (hne : r' ≠ r) :
    (h.modify r f).getD r' [] = h.getD r' [] := by
  simp [List.getD, hne.symm]

/-- a write into a handed-out object does not change what the matrix reports -/
theorem observe_write (w : World) (hI : Inv w) (r i v) : observe (step w (.write r i v)) = observe w := by
  simp only [step]
  split
  · rename_i hr
    obtain ⟨hint, hmemo⟩ := hI.1 r hr
    unfold observe World.internals World.get
    congr 1
    · apply List.map_congr_left; intro x hx
      exact get_modify_ne _ _ _ _ (fun h => hint (h ▸ hx))
    · apply List.map_congr_left; intro p hp
      simp only
      rw [get_modify_ne _ _ _ _ (hmemo p hp)]
  · rfl

/-- witness: with a memo-shared accessor a write *is* observable -/
def accShared : Accessor := { id := 0, kind := .memoShared, compute := fun _ => [1, 2, 2] }
def w0 : World := { heap := [[5]], internal := [0], memo := [], handed := [] }
example : observe (step (step w0 (.read accShared)) (.write 1 0 0)) ≠ observe (step w0 (.read accShared)) := by decide

end Skc.Heap
