/-! C09 model: the order in which `lp.solve()` reports the stage variables. Core only.
Names `"x{idx}"` are modelled as their decimal digit strings (the common prefix `x` does not
affect the order); Python compares `str` lexicographically by code point and `'0' < … < '9'`. -/
namespace Skc.Simus

def digitsAux : Nat → Nat → List Nat → List Nat
  | 0, _, acc => acc
  | fuel + 1, n, acc => if n < 10 then n :: acc else digitsAux fuel (n / 10) (n % 10 :: acc)
/-- decimal digits, most significant first -/
def digits (n : Nat) : List Nat := digitsAux (n + 1) n []

/-- lexicographic `≤` on digit strings (a proper prefix is smaller) -/
def lexLe : List Nat → List Nat → Bool
  | [], _ => true
  | _ :: _, [] => false
  | a :: as, b :: bs => if a < b then true else if b < a then false else lexLe as bs

def insertBy (le : α → α → Bool) (x : α) : List α → List α
  | [] => [x]
  | y :: t => if le x y then x :: y :: t else y :: insertBy le x t
def isort (le : α → α → Bool) : List α → List α
  | [] => []
  | x :: t => insertBy le x (isort le t)

/-- present code: PuLP's `problem.variables()` is sorted by name; the k-th reported value is the
value of the variable whose *name* is k-th in lexicographic order -/
def reportedOrder_v0 (n : Nat) : List Nat :=
  (isort (fun a b => lexLe a.1 b.1) ((List.range n).map fun i => (digits i, i))).map (·.2)

/-- repaired: variables in the order of first appearance in the model (= declaration order) -/
def reportedOrder (n : Nat) : List Nat := List.range n

example : digits 0 = [0] ∧ digits 10 = [1, 0] ∧ digits 307 = [3, 0, 7] := by decide
-- up to ten alternatives the two coincide …
example : ∀ n ∈ List.range 11, reportedOrder_v0 n = reportedOrder n := by decide
-- … with eleven they do not: position 2 holds x10 (seen on the real code with 12 alternatives)
example : reportedOrder_v0 11 = [0, 1, 10, 2, 3, 4, 5, 6, 7, 8, 9] := by decide
example : reportedOrder_v0 12 = [0, 1, 10, 11, 2, 3, 4, 5, 6, 7, 8, 9] := by decide
end Skc.Simus
