import Proto.Electre
/-! C08 L-model: `weights_outrank` as specified and as actually called by `electre2`. -/
namespace Skc.Electre
open Skc.Mat

variable {α : Type} [Add α] [Sub α] [Mul α] [Div α] [Neg α] [OfNat α 0] [OfNat α 1] [LT α] [LE α] [Max α] [Min α]
  [DecidableEq α] [DecidableRel (α := α) (· < ·)] [DecidableRel (α := α) (· ≤ ·)]

/-- body of `weights_outrank(matrix, weights, objectives)`: `isMax j` is `objectives[j] == MAX` -/
def worBody (wvec : List α) (isMax : List Bool) (m : List (List α)) : List (List Bool) :=
  m.zipIdx.map fun (a0, i) => m.zipIdx.map fun (a1, k) =>
    if i = k then false else
      let cells := List.zip wvec (List.zip isMax (List.zip a0 a1))
      let s01 := sumL (α := α) (cells.map fun (w, mx, x, y) => if (if mx then decide (y < x) else decide (x < y)) then w else (0 : α))
      let s10 := sumL (α := α) (cells.map fun (w, mx, x, y) => if (if mx then decide (x < y) else decide (y < x)) then w else (0 : α))
      decide (s10 ≤ s01)

/-- as documented: weight of the criteria where the row alternative is strictly better ≥ the converse -/
def worSpec (objs : List Obj) (w : List α) (m : List (List α)) : List (List Bool) :=
  worBody w (objs.map (· == .max)) m

/-- as called at `electre.py:311`: `weights_outrank(matrix, objectives, weights)` — the objectives
(±1) arrive as `weights`, the weights as `objectives` (so "is MAX" means `w_j == 1`) -/
def worCode (objs : List Obj) (w : List α) (m : List (List α)) : List (List Bool) :=
  worBody (objs.map fun o => match o with | .max => (1 : α) | .min => -1) (w.map (· == 1)) m
end Skc.Electre

open Skc.Electre in
#eval worCode (α := Rat) [.max, .min, .max] [1/2, 3/10, 1/5] [[1,2,3],[3,2,1],[2,2,5/2]]
open Skc.Electre in
#eval worSpec (α := Rat) [.max, .min, .max] [1/2, 3/10, 1/5] [[1,2,3],[3,2,1],[2,2,5/2]]
