/-! import-free polymorphic model prototype -/
namespace Skc

def dot {α} [Add α] [Mul α] [OfNat α 0] (r w : List α) : α :=
  (List.zipWith (· * ·) r w).foldl (· + ·) 0

def wsm {α} [Add α] [Mul α] [OfNat α 0] (m : List (List α)) (w : List α) : List α :=
  m.map (dot · w)

end Skc
