import Proto.RankProofs
import Mathlib.Data.Finset.Sort
import Mathlib.Data.Fintype.Card
import Mathlib.Order.Interval.Finset.Fin
import Mathlib.Data.List.Perm.Basic
import Mathlib.Tactic
open Skc Finset

variable {α : Type*} [LinearOrder α]

theorem toFinset_distinct (s : List α) : (distinct s).toFinset = s.toFinset := by
  ext x; simp [mem_distinct]

theorem rankOf_eq_card' (s : List α) (x : α) :
    rankOf s x = (s.toFinset.filter (· < x)).card + 1 := by
  rw [rankOf_eq_card, toFinset_distinct]

theorem length_distinct (s : List α) : (distinct s).length = s.toFinset.card := by
  rw [← toFinset_distinct, List.toFinset_card_of_nodup (nodup_distinct s)]

/-- the rank only depends on the *set* of scores: presentation order is irrelevant (C05) -/
theorem rankOf_perm {s t : List α} (h : s.Perm t) (x : α) : rankOf s x = rankOf t x := by
  rw [rankOf_eq_card', rankOf_eq_card', List.toFinset_eq_of_perm _ _ h]

theorem denseRank_perm_map {s t : List α} (h : s.Perm t) : (denseRank s).Perm (denseRank t) := by
  unfold denseRank
  have : rankOf s = rankOf t := funext (rankOf_perm h)
  rw [this]; exact h.map _

/-- ranks lie in `1..k` where `k` is the number of distinct scores -/
theorem rankOf_bounds (s : List α) {x : α} (hx : x ∈ s) :
    1 ≤ rankOf s x ∧ rankOf s x ≤ (distinct s).length := by
  rw [rankOf_eq_card', length_distinct]
  refine ⟨by omega, ?_⟩
  have : s.toFinset.filter (· < x) ⊂ s.toFinset := by
    refine Finset.ssubset_iff_of_subset (filter_subset _ _) |>.mpr ⟨x, by simpa using hx, by simp⟩
  have := card_lt_card this
  omega

/-- … and every value of `1..k` is taken: no gaps -/
theorem rank_surjective (s : List α) (r : ℕ) (h1 : 1 ≤ r) (h2 : r ≤ (distinct s).length) :
    ∃ x ∈ s, rankOf s x = r := by
  rw [length_distinct] at h2
  set D := s.toFinset with hD
  have hk : D.card = D.card := rfl
  let e := D.orderEmbOfFin hk
  have hr : r - 1 < D.card := by omega
  refine ⟨e ⟨r - 1, hr⟩, ?_, ?_⟩
  · have hm : e ⟨r - 1, hr⟩ ∈ D := D.orderEmbOfFin_mem hk ⟨r - 1, hr⟩
    exact List.mem_toFinset.mp hm
  · rw [rankOf_eq_card']
    have : D.filter (· < e ⟨r - 1, hr⟩) = (univ.filter (· < (⟨r - 1, hr⟩ : Fin D.card))).map e.toEmbedding := by
      ext d
      simp only [mem_filter, mem_map, mem_univ, true_and, RelEmbedding.coe_toEmbedding]
      constructor
      · rintro ⟨hd, hlt⟩
        have : d ∈ Set.range e := by rw [D.range_orderEmbOfFin hk]; exact hd
        obtain ⟨j, rfl⟩ := this
        exact ⟨j, e.lt_iff_lt.mp hlt, rfl⟩
      · rintro ⟨j, hj, rfl⟩
        exact ⟨D.orderEmbOfFin_mem hk j, e.lt_iff_lt.mpr hj⟩
    rw [this, card_map]
    have : (univ.filter (· < (⟨r - 1, hr⟩ : Fin D.card))) = Iio ⟨r - 1, hr⟩ := by ext; simp
    rw [this, Fin.card_Iio]
    simp; omega
#print axioms rank_surjective
#print axioms denseRank_perm_map
