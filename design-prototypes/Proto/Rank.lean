namespace Skc
def distinct {α} [DecidableEq α] : List α → List α
  | [] => []
  | x :: xs => if x ∈ distinct xs then distinct xs else x :: distinct xs

def rankOf {α} [LT α] [DecidableRel (α := α) (· < ·)] [DecidableEq α] (s : List α) (x : α) : Nat :=
  ((distinct s).filter (· < x)).length + 1

def denseRank {α} [LT α] [DecidableRel (α := α) (· < ·)] [DecidableEq α] (s : List α) : List Nat :=
  s.map (rankOf s)
end Skc
