import Mathlib.Algebra.Order.Field.Basic
import Mathlib.Algebra.BigOperators.Fin
import Mathlib.Algebra.Order.BigOperators.Group.Finset
import Mathlib.Algebra.Order.BigOperators.Ring.Finset
import Mathlib.Order.Fin.Basic
import Mathlib.Data.Finset.Lattice.Fold
import Mathlib.Analysis.SpecialFunctions.Sqrt
import Mathlib.Tactic

open Finset

inductive Obj | max | min deriving DecidableEq

section
variable {α : Type*} [LinearOrder α]
def better (o : Obj) (x y : α) : Prop := match o with | .max => y < x | .min => x < y
def atLeast (o : Obj) (x y : α) : Prop := ¬ better o y x
def dominates {n : ℕ} (o : Fin n → Obj) (a b : Fin n → α) : Prop :=
  (∀ j, atLeast (o j) (a j) (b j)) ∧ ∃ j, better (o j) (a j) (b j)
end

variable {m n : ℕ} [NeZero m]

noncomputable section
/-- weighted matrix, as `np.multiply(matrix, weights)` -/
def V (A : Fin m → Fin n → ℝ) (w : Fin n → ℝ) (i : Fin m) (j : Fin n) : ℝ := A i j * w j
def hi (A : Fin m → Fin n → ℝ) (w : Fin n → ℝ) (j : Fin n) : ℝ := univ.sup' univ_nonempty (fun i => V A w i j)
def lo (A : Fin m → Fin n → ℝ) (w : Fin n → ℝ) (j : Fin n) : ℝ := univ.inf' univ_nonempty (fun i => V A w i j)
def ideal (A : Fin m → Fin n → ℝ) (w : Fin n → ℝ) (o : Fin n → Obj) (j : Fin n) : ℝ :=
  if o j = .max then hi A w j else lo A w j
def anti (A : Fin m → Fin n → ℝ) (w : Fin n → ℝ) (o : Fin n → Obj) (j : Fin n) : ℝ :=
  if o j = .max then lo A w j else hi A w j
def dCity (x t : Fin n → ℝ) : ℝ := ∑ j, |x j - t j|
def dEuc (x t : Fin n → ℝ) : ℝ := Real.sqrt (∑ j, (x j - t j) ^ 2)
def sim (dp dm : ℝ) : ℝ := dm / (dp + dm)
end

theorem le_hi (A : Fin m → Fin n → ℝ) (w) (i j) : V A w i j ≤ hi A w j :=
  le_sup' (fun i => V A w i j) (mem_univ i)
theorem lo_le (A : Fin m → Fin n → ℝ) (w) (i j) : lo A w j ≤ V A w i j :=
  inf'_le (fun i => V A w i j) (mem_univ i)

/-- coordinatewise: the dominating alternative is closer to the ideal and farther from the anti-ideal -/
theorem coord_closer (A : Fin m → Fin n → ℝ) (w : Fin n → ℝ) (hw : ∀ j, 0 < w j) (o : Fin n → Obj)
    (a b : Fin m) (hd : ∀ j, atLeast (o j) (A a j) (A b j)) (j : Fin n) :
    |V A w a j - ideal A w o j| ≤ |V A w b j - ideal A w o j| ∧
    |V A w b j - anti A w o j| ≤ |V A w a j - anti A w o j| := by
  have h := hd j
  unfold atLeast better at h
  unfold ideal anti
  cases ho : o j <;> simp only [ho] at h ⊢ <;> simp only [not_lt] at h
  · -- max: A b j ≤ A a j
    have hv : V A w b j ≤ V A w a j := mul_le_mul_of_nonneg_right h (hw j).le
    have h1 := le_hi A w a j; have h2 := le_hi A w b j
    have h3 := lo_le A w a j; have h4 := lo_le A w b j
    simp only [if_true, reduceCtorEq, if_false]
    constructor
    · rw [abs_of_nonpos (by linarith), abs_of_nonpos (by linarith)]; linarith
    · rw [abs_of_nonneg (by linarith), abs_of_nonneg (by linarith)]; linarith
  · have hv : V A w a j ≤ V A w b j := mul_le_mul_of_nonneg_right h (hw j).le
    have h1 := le_hi A w a j; have h2 := le_hi A w b j
    have h3 := lo_le A w a j; have h4 := lo_le A w b j
    simp only [reduceCtorEq, if_false]
    constructor
    · rw [abs_of_nonneg (by linarith), abs_of_nonneg (by linarith)]; linarith
    · rw [abs_of_nonpos (by linarith), abs_of_nonpos (by linarith)]; linarith

theorem dCity_mono (x y t : Fin n → ℝ) (h : ∀ j, |x j - t j| ≤ |y j - t j|) : dCity x t ≤ dCity y t :=
  sum_le_sum fun j _ => h j

theorem dEuc_mono (x y t : Fin n → ℝ) (h : ∀ j, |x j - t j| ≤ |y j - t j|) : dEuc x t ≤ dEuc y t := by
  unfold dEuc
  apply Real.sqrt_le_sqrt
  apply sum_le_sum; intro j _
  have := h j
  rw [← sq_abs (x j - t j), ← sq_abs (y j - t j)]
  exact pow_le_pow_left₀ (abs_nonneg _) this 2

theorem sim_mono {dpa dma dpb dmb : ℝ} (h1 : dpa ≤ dpb) (h2 : dmb ≤ dma)
    (ha0 : 0 ≤ dpa) (hb0 : 0 ≤ dmb) (hpa : 0 < dpa + dma) (hpb : 0 < dpb + dmb) :
    sim dpb dmb ≤ sim dpa dma := by
  unfold sim
  rw [div_le_div_iff₀ hpb hpa]
  nlinarith [mul_le_mul h2 h1 ha0 (le_trans hb0 h2)]

theorem topsis_city_dom_mono (A : Fin m → Fin n → ℝ) (w : Fin n → ℝ) (hw : ∀ j, 0 < w j) (o : Fin n → Obj)
    (a b : Fin m) (hd : dominates o (A a) (A b))
    (hpa : 0 < dCity (V A w a) (ideal A w o) + dCity (V A w a) (anti A w o))
    (hpb : 0 < dCity (V A w b) (ideal A w o) + dCity (V A w b) (anti A w o)) :
    sim (dCity (V A w b) (ideal A w o)) (dCity (V A w b) (anti A w o)) ≤
    sim (dCity (V A w a) (ideal A w o)) (dCity (V A w a) (anti A w o)) := by
  have hc := coord_closer A w hw o a b hd.1
  apply sim_mono
  · exact dCity_mono _ _ _ fun j => (hc j).1
  · exact dCity_mono _ _ _ fun j => (hc j).2
  · exact sum_nonneg fun j _ => abs_nonneg _
  · exact sum_nonneg fun j _ => abs_nonneg _
  · exact hpa
  · exact hpb
#print axioms topsis_city_dom_mono
#print axioms dEuc_mono
