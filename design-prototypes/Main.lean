import Proto.Model
import Proto.Rank
open Skc
def parseRat (s : String) : Option Rat :=
  match s.splitOn "/" with
  | [n] => n.toInt?.map (fun i => (i : Rat))
  | [n, d] => do let a ← n.toInt?; let b ← d.toNat?; pure (mkRat a b)
  | _ => none
partial def loop (h : IO.FS.Stream) : IO Unit := do
  let line ← h.getLine
  if line.isEmpty then return ()
  let toks := (line.trimAscii.toString.splitOn " ").filterMap parseRat
  IO.println s!"{denseRank toks}"
  loop h
def main : IO Unit := do loop (← IO.getStdin)
