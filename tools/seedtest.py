#!/usr/bin/env python3
"""Run the registered checks against a seeded change.
usage: seedtest.py <dir with patch.diff, demo.py, meta.json> [property ids…]
Applies patch.diff to a scratch copy of /repo (never to /repo itself), confirms that the pinned
suite still passes and that demo.py fails with / passes without the change, then runs
`./check <pid> quick` (and, if that misses, `thorough`) with SKC_REPO pointing at the copy."""
import json, os, shutil, subprocess, sys, tempfile

d = os.path.abspath(sys.argv[1])
meta = json.load(open(os.path.join(d, "meta.json")))
pids = sys.argv[2:] or [meta["property"]]
V = os.path.dirname(os.path.dirname(os.path.abspath(__file__)))
scratch = tempfile.mkdtemp(prefix="skc-seedtest-")
try:
    subprocess.run(["git", "-C", "/repo", "worktree", "add", "--detach", "-f", scratch, "HEAD", "-q"], check=True)
    env = dict(os.environ, PYTHONPATH=scratch)
    r0 = subprocess.run(["/venv/bin/python", os.path.join(d, "demo.py")], env=env, capture_output=True, text=True, cwd="/tmp").returncode
    subprocess.run(["git", "-C", scratch, "apply", os.path.join(d, "patch.diff")], check=True)
    r1 = subprocess.run(["/venv/bin/python", os.path.join(d, "demo.py")], env=env, capture_output=True, text=True, cwd="/tmp").returncode
    if os.environ.get("SEEDTEST_FAST"):  # re-verification of a change whose suite / demo status is already recorded in meta.json
        class b:  # noqa
            stdout, stderr, returncode = "suite: not re-run (SEEDTEST_FAST)", "", 0
    else:
        b = subprocess.run(["python3", os.path.join(V, "tools/run_baseline.py"), scratch], capture_output=True, text=True)
    print(f"demo clean exit={r0} mutant exit={r1}; suite: {b.stdout.strip().splitlines()[0] if b.stdout else b.stderr[-200:]}")
    out = {"demo_clean": r0, "demo_mutant": r1, "suite_ok": b.returncode == 0, "checks": {}}
    for pid in pids:
        for tier in ("quick", "thorough"):
            p = subprocess.run([os.path.join(V, "check"), pid, tier], env=dict(os.environ, SKC_REPO=scratch), capture_output=True, text=True, cwd=V)
            lines = [l for l in p.stdout.splitlines() if l.startswith("VIOLATION")]
            why = [l for l in p.stderr.splitlines() if "violated on the implementation" in l or "broken" in l]
            print(f"  {pid} {tier}: exit {p.returncode} {lines[:1]} {why[:1]}")
            out["checks"][f"{pid}-{tier}"] = {"exit": p.returncode, "line": lines[:1], "why": why[:1]}
            if p.returncode == 1:
                break
    json.dump(out, open(os.path.join(d, "result.json"), "w"), indent=1)
finally:
    subprocess.run(["git", "-C", "/repo", "worktree", "remove", "--force", scratch])
    shutil.rmtree(scratch, ignore_errors=True)
