#!/usr/bin/env python3
"""Prepare a round of seeding: for every property a scratch worktree /tmp/seed<R>-<pid> of /repo HEAD and a prompt
/tmp/seedtools/prompt<R>-<pid>.txt for a fresh sub-agent.  The prompt holds the property text, the path of the worktree and the
one-line summaries of the changes earlier sub-agents already delivered for that property (so that the new ones differ) —
nothing about the checks.  usage: mkseedprompts.py <round number> [pids…]"""
import glob, json, os, shutil, subprocess, sys
V = os.path.dirname(os.path.dirname(os.path.abspath(__file__)))
R = sys.argv[1]
props = [json.loads(l) for l in open(os.path.join(V, "properties.jsonl"))]
want = sys.argv[2:] or [p["id"] for p in props]
T = "/tmp/seedtools"
os.makedirs(T, exist_ok=True)
shutil.copy(os.path.join(V, "tools/run_baseline.py"), T)
if os.path.exists("/root/.vp/BASELINE.json"):
    pass
base = open(os.path.join(V, "tools/SEED_PROMPT.txt")).read()
head, task = base.split("Task: produce TWO", 1)
for p in props:
    pid = p["id"]
    if pid not in want:
        continue
    wt = f"/tmp/seed{R}-{pid}"
    if not os.path.isdir(wt):
        subprocess.run(["git", "-C", "/repo", "worktree", "add", "--detach", "-f", wt, "HEAD", "-q"], check=True)
    text = f"{pid} — {p['title']}\n\nSTATEMENT: {p['statement']}\n\nQUANTIFIER: {p.get('quantifier', '')}\n"
    open(f"{T}/{pid}.txt", "w").write(text)
    prev = []
    for m in sorted(glob.glob(os.path.join(V, "seeded", f"{pid}-*", "meta.json"))):
        j = json.load(open(m))
        prev.append(f"- {j['summary'][:260]} (needs: {j['needs'][:200]})")
    extra = ""
    if prev:
        extra = ("\nOther researchers ALREADY produced the following changes for this property; yours must be NEW: different sites and "
                 "different mechanisms from these (and from each other):\n" + "\n".join(prev) + "\n\nGo for what is still unexplored. Ideas: a clause "
                 "of the property statement that none of the changes above attacks; a public entry point, class or parameter named in the property "
                 "that none of them touches; helper functions shared by several classes; behaviour that depends on the ORDER of two documented "
                 "calls; inputs at the edge of the documented domain (one alternative, one criterion, all values equal in one criterion, very long "
                 "inputs, unusual but legal labels, values given as Python ints / numpy scalars / pandas objects, extreme magnitudes); changes that "
                 "only show for a particular COMBINATION of two parameters; changes in a module the property reaches only indirectly.\n\n")
    s = (head + extra + "Task: produce TWO" + task).replace("{WT}", wt).replace("{PID}", pid).replace("{TEXT}", text)
    open(f"{T}/prompt{R}-{pid}.txt", "w").write(s)
    print(pid, wt, len(prev), "earlier changes")
