#!/usr/bin/env python3
"""Run the repository's pinned suite in <dir> (default /repo) and compare with BASELINE.json:
every test of stable_pass must still pass.  usage: run_baseline.py [dir]"""
import json, os, subprocess, sys, tempfile
import xml.etree.ElementTree as ET

d = sys.argv[1] if len(sys.argv) > 1 else "/repo"
base = json.load(open("/root/.vp/BASELINE.json"))
with tempfile.TemporaryDirectory() as t:
    x = os.path.join(t, "j.xml")
    env = dict(os.environ, PYTHONPATH=d)
    env.pop("SKCRITERIA_VERIF", None)
    subprocess.run(["/venv/bin/python", "-m", "pytest", "-q", "-p", "no:cacheprovider", "--timeout=900", "-x" if False else "-q",
                    "--continue-on-collection-errors", f"--junitxml={x}"], cwd=d, env=env,
                   stdout=subprocess.DEVNULL, stderr=subprocess.DEVNULL)
    root = ET.parse(x).getroot()
passed = set()
for tc in root.iter("testcase"):
    if not any(ch.tag in ("failure", "error", "skipped") for ch in tc):
        passed.add(f"{tc.get('classname')}::{tc.get('name')}")
missing = [t for t in base["stable_pass"] if t not in passed]
print(f"passed={len(passed)} pinned={len(base['stable_pass'])} pinned-not-passing={len(missing)}")
for m in missing[:20]:
    print("  NOT PASSING:", m)
sys.exit(1 if missing else 0)
