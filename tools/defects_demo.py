"""Replays the confirmed defects F1-F7 on the real code (prints what each call answers)."""
import warnings, sys
warnings.simplefilter("ignore")
import numpy as np, skcriteria as skc
from skcriteria.agg import RankResult
dm = skc.mkdm([[1,2,3],[4,5,6]], [max,min,max], weights=[1,2,7], criteria=["C0","C1","C2"])
s = dm[["C2","C0"]]
print("F1 weights of dm[['C2','C0']] ->", dict(zip(s.criteria, s.weights)), "objectives", dict(zip(s.criteria, [o.name for o in s.objectives])))
l = dm.loc[:, ["C2","C0"]]
print("F1 loc ->", dict(zip(l.criteria, l.weights)))
dm2 = skc.mkdm([[1,1],[2,2],[3,3]], [max,max])
d = dm2.dominance.dominators_of("A0"); d2 = dm2.dominance.dominators_of("A0")
print("F2 dominators_of returns cached object:", d is d2)
from skcriteria.preprocessing.filters import FilterGT
dm3 = skc.mkdm([[7,5,35],[5,4,26],[5,6,28],[1,7,30],[5,8,30]], [max,max,min], alternatives=["PE","JN","AA","MM","FN"], criteria=["ROE","CAP","RI"])
print("F3 FilterGT ROE>1,RI>27:", list(FilterGT({"ROE":1,"RI":27}).transform(dm3).alternatives), " written RI,ROE:", list(FilterGT({"RI":27,"ROE":1}).transform(dm3).alternatives))
r3 = RankResult("m", ["a","b","c"], [1,2,3], {}); r2 = RankResult("m", ["a","b"], [1,2], {})
try: print("F4 r3 == r2:", r3 == r2)
except Exception as e: print("F4 r3 == r2 raises", type(e).__name__)
print("F5 untied of [2,1,1]:", RankResult("m", ["a","b","c"], [2,1,1], {}).untied_rank_.tolist())
ra = RankResult("m", ["a"], [1], {"s": np.array([1.0])}); rb = RankResult("m", ["a"], [1], {"s": np.array([1.000000001])})
print("F7 == with extras differing by 1e-9:", ra == rb, " aequals(rtol=1,atol=1) with extras differing 1e-3:",
      ra.aequals(RankResult("m", ["a"], [1], {"s": np.array([1.001])}), rtol=1, atol=1))
from skcriteria.agg.simus import SIMUS
import os
rng = np.random.default_rng(3); M = rng.uniform(1, 10, size=(12, 3))
dm4 = skc.mkdm(M, [max, max, min])
dn = os.open(os.devnull, os.O_WRONLY); so = os.dup(1); os.dup2(dn, 1)
res = SIMUS().evaluate(dm4)
os.dup2(so, 1)
st = res.e_.stages[0]
byname = dict(zip(st.lp_variables, st.lp_values))
print("F6 stage0 variables order:", list(st.lp_variables)[:5], " value credited to alt 2 is x2's:", st.lp_values[2] == byname["x2"], " any misplaced nonzero:",
      any(st.lp_values[i] != byname[f"x{i}"] for i in range(12)))
