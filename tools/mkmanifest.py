#!/usr/bin/env python3
"""Regenerate MANIFEST.json from the table below (one entry per claimed property)."""
import json
from pathlib import Path

V = Path(__file__).resolve().parent.parent
NOTE = ("Trusted: Lean 4.33 kernel + axioms propext/Classical.choice/Quot.sound (audited each run); the hand-written Lean model "
        "(tied to /repo only by the differential correspondence run of this check); harness generators/tolerances; numpy/pandas/scipy/"
        "sklearn/PuLP semantics are modelled, not verified. ")
CLAIMED = {
    "C03": dict(
        text="Proof: dense-rank theory (order iff, equality iff, range 1..k without gaps, reverse direction, RankResult validation iff, "
             "kernel iff) proved in Lean for lists of any length over any linear order; tie to the code by recomputing every method's "
             "ranks in the Lean model from the implementation's own reported score (exact rationals) and comparing exactly, plus an "
             "independent pairwise oracle on the implementation used for replay search.",
        note=NOTE + "scipy.stats.rankdata('dense') is external (modelled).",
        technique="Lean 4 theorems on a list model of rank_values/_validate_result/kernel + differential correspondence against the real methods",
    ),
}
PENDING = "check not built yet (planned in DESIGN.md section 6); not claimed until its model, theorems and correspondence exist"

def main():
    props = [json.loads(l) for l in (V / "properties.jsonl").read_text().splitlines() if l.strip()]
    m = json.loads((V / "MANIFEST.json").read_text())
    m["checks"], m["not_applicable"] = [], []
    for p in props:
        pid = p["id"]
        if pid in CLAIMED:
            c = CLAIMED[pid]
            m["checks"].append({
                "property_id": pid,
                "quick_cmd": f"./check {pid} quick",
                "thorough_cmd": f"./check {pid} thorough",
                "evidence_file": f"evidence/{pid}.json",
                "replay_cmd_template": f"./check {pid} --replay {{path}}",
                "engine": "lean-model+harness",
                "level_claimed": {"category": "proof", "text": c["text"], "design_ref": f"DESIGN.md section 6.{pid}"},
                "level_note": c["note"],
                "technique": c["technique"],
            })
        else:
            m["not_applicable"].append({"property_id": pid, "reason": PENDING})
    for e in m["engines"]:
        e["serves_properties"] = sorted(CLAIMED)
    (V / "MANIFEST.json").write_text(json.dumps(m, indent=1) + "\n")

if __name__ == "__main__":
    main()
