#!/usr/bin/env python3
"""Regenerate MANIFEST.json from the table below (one entry per claimed property)."""
import json
from pathlib import Path

V = Path(__file__).resolve().parent.parent
NOTE = ("Trusted: Lean 4.33 kernel + axioms propext/Classical.choice/Quot.sound (audited each run); the hand-written Lean model "
        "(tied to /repo only by the differential correspondence run of this check); harness generators/tolerances; numpy/pandas/scipy/"
        "sklearn/PuLP semantics are modelled, not verified. ")
CLAIMED = {
    "C03": dict(
        text="Proof: dense-rank theory (order iff, equality iff, range 1..k without gaps, reverse direction, RankResult validation iff, "
             "kernel iff) proved in Lean for lists of any length over any linear order; tie to the code by recomputing every method's "
             "ranks in the Lean model from the implementation's own reported score (exact rationals) and comparing exactly, plus an "
             "independent pairwise oracle on the implementation used for replay search.",
        note=NOTE + "scipy.stats.rankdata('dense') is external (modelled).",
        technique="Lean 4 theorems on a list model of rank_values/_validate_result/kernel + differential correspondence against the real methods",
    ),
    "C04": dict(
        text="Proof: each aggregation kernel of the Lean model (written operation by operation after simple.py/similarity.py/moora.py) is "
             "proved equal to the published formula in Finset/Real form (WSM, RatioMOORA, ReferencePoint, TOPSIS ideal/anti-ideal/"
             "similarity for five metrics, WPM incl. its product form and order, FMF incl. the Aj=1.0 deviation as a theorem, MultiMOORA "
             "pair rule and score count), and the refusal guards are characterised as iff; tie to the code: model run at exact Rat / Lean "
             "Float vs the implementation's reported extras, plus an independent Fraction/60-digit Decimal evaluation as property oracle.",
        note=NOTE + "Up-to-rounding means 1e-9*scale; IEEE rounding itself is outside the model. Known finding K2 (FMF constant) is printed, not alarmed.",
        technique="Lean 4 theorems kernel = published formula (Finset sums, sup', Real.sqrt/log) + kernels regenerated from the source by an AST translator and proved equal to the model kernels + three-leg differential check (code / Lean model / exact Decimal)",
    ),
    "C06": dict(
        text="Proof: dominance monotonicity proved in Lean for the kernels of the model, any shape, positive weights, any objective mix: "
             "strict for WSM, RatioMOORA, WPM, FMF (code and formula); <= for ReferencePointMOORA and TOPSIS with all five Minkowski-family "
             "metrics, where the positivity of d+ + d- is derived from the dominating pair itself; corollaries rank a <= rank b through the "
             "dense-rank theory, and identical rows share score and rank. Tie to the code: matrices forced to contain dominating pairs and "
             "duplicates, pairwise oracle on the implementation with the rounding margin, dominance tables model = dm.dominance = oracle.",
        note=NOTE + "Margin 2e-9*scale; BLAS summation order on identical rows cannot be exhibited by the model.",
        technique="Lean 4 monotonicity theorems over ordered fields / R on the kernel model + differential pairwise oracle on generated dominating pairs",
    ),
    "C07": dict(
        text="Proof: the accessor model (pair kernel, reverted-flag cache, bt, eq, dominance(strict), compare, dominated, recursive "
             "dominators_of with explicit recursion budget, has_loops, lru_cache as a state machine) is proved equal to the definition of "
             "(strict) dominance for any shape: counts partition the criteria, bt+bt'+eq = n, dominance iff definition, irreflexive/"
             "asymmetric/transitive, dominated iff exists dominator, dominators_of terminates within m+1 frames and returns exactly the "
             "(transitive-closure) dominators, has_loops = False, memo transparent for every call order. Tie: every accessor output vs "
             "the Lean model and a definition-based oracle, random call orders, exhaustive small alphabet in the thorough tier.",
        note=NOTE + "pandas frame construction and methodtools.lru_cache are external (modelled).",
        technique="Lean 4 theorems model-of-accessor = definition (Finset counting, strict partial order, fuelled recursion) + differential check incl. exhaustive small matrices",
    ),
    "C18": dict(
        text="Proof: the repaired untied rank (double stable argsort) is proved equal to the closed form, a permutation of 1..n, strict-"
             "preference preserving, ties by order of appearance, identity without ties (any length); the pre-fix argsort+1 is refuted by a "
             "decided witness; comparator frame lookup by label for any listing order, tables square with the self-comparison on the "
             "diagonal. Tie: all dense rankings up to length 7 (thorough, exhaustive) and random ones, comparators over reordered listings.",
        note=NOTE + "corr/cov/r2/distance statistics are pandas/sklearn/scipy (external): only shape and diagonal are claimed.",
        technique="Lean 4 theorems on a list model of untied_rank_/to_dataframe + differential check, exhaustive over short dense rankings",
    ),
    "C01": dict(
        text="Proof: every selection operation of the Lean model of data.py (dm[...] with label / label list / slice / mask, loc and iloc with "
             "row and (rows, cols) selectors incl. single row and single column, copy, to_dict/mkdm round trip) is proved to yield a SubView "
             "(each surviving criterion keeps its own objective, weight, dtype and column looked up by label, each alternative its own row) in "
             "the requested order; SubView is reflexive and transitive, so every finite chain is covered by induction; objective aliases: "
             "table regenerated from the source on every run and decided against an independent classifier. Pre-fix behaviours kept as _v0 "
             "with decided witnesses. Tie: random selector chains (length 1-6) vs the model, by-label oracle, exhaustive chains <= 2 on 3x3.",
        note=NOTE + "pandas selection / dtype semantics are external (modelled, validated by the chains); int64 above 2^40 not generated.",
        technique="Lean 4 refinement-style theorem (SubView invariant by induction over selection chains) + regenerated alias table decided + differential check",
    ),
    "C08": dict(
        text="Proof: concordance = total weight of the criteria where a is at least as good; discordance = largest adverse difference over the "
             "largest range; ELECTRE1 outrank iff thresholds, kernel iff no incoming edge; weights_outrank as specified (iff weight sums) and "
             "as called (characterised; proved different: known finding K1); strong / weak graphs iff documented thresholds; distillation: "
             "round spec, termination, every alternative ranked exactly once, ranks contiguous, inverse ranking = reflection, final rank = "
             "dense rank of the mean. Tie: dyadic inputs hitting thresholds exactly + arbitrary doubles off-boundary; discrete layers "
             "recomputed by the model from the implementation's own numbers; independent Python distillation as oracle.",
        note=NOTE + "K1 (matrix_wor) is printed as KNOWN-FINDING only when the implementation agrees with the model of the call as coded.",
        technique="Lean 4 theorems on the ELECTRE model (Finset sums, sup', list recursion with fuel) + differential check with exact boundary cases",
    ),
    "C14": dict(
        text="Proof: for the Lean model of filters.py (pairing loop, arithmetic / set / function masks, FilterNonDominated) an alternative "
             "survives iff every condition holds on the criterion it names; invariance under permutation of the written conditions and of the "
             "matrix columns; survivors are a sublist with unaltered rows; missing-criterion policy as iff; non-dominated iff no (strict) "
             "dominator; the pre-fix dict-order pairing refuted by a decided witness. Tie: all filter classes, random key orders, absent "
             "criteria, both flags; exhaustive small matrices in the thorough tier.",
        note=NOTE + "user functions of Filter are assumed element-wise (np.apply_along_axis passes whole columns).",
        technique="Lean 4 theorems on a list model of the filters (iff, permutation invariance, sublist) + differential check incl. exhaustive enumeration",
    ),
    "C17": dict(
        text="Proof: the Lean model of diff / equals / aequals / == / != for decision matrices, results and rank comparators (NumPy allclose "
             "one-sided tolerance, shape guards, object-dtype fallback, dict_allclose for extras, MISSING members) is total, an object equals "
             "its copy, exact equality is symmetric and implies tolerant equality, != is the negation of ==, and a change of exactly one "
             "member beyond tolerance is reported as exactly that member (each member of each kind). Pre-fix behaviours refuted by decided "
             "witnesses (raise on 3 vs 2, broadcasting, ignored tolerance, asymmetry, object dtype). Tie: generated pairs over all kinds, "
             "tolerances and shapes vs the model; property oracle on the implementation.",
        note=NOTE + "np.allclose / np.array_equal semantics are external (modelled).",
        technique="Lean 4 theorems on a model of the comparison stack over ordered fields + differential check on generated object pairs",
    ),
    "C09": dict(
        text="Proof: the stage program built by the model is the LP the property describes (every z, objective mix, partial b); reported "
             "values are credited by variable name in declaration order for ANY number of alternatives (names injective), the pre-fix "
             "name-sorted order is decided identical up to ten and wrong at eleven; stage rows normalise to sum one, method 1 / method 2 / "
             "tita / dominance formulas, tita balance, rank order; and the executable optimality-certificate checker is PROVED sound "
             "(weak duality, max and min stages, with tolerances). Optimality of each generated stage is then established per instance by "
             "the proved checker on (CBC solution, HiGHS dual) in exact rationals. Tie: PuLP problem objects vs stageLP exactly, by-name "
             "read-back, post-processing recomputed from the implementation's lp_values.",
        note=NOTE + "CBC (solver) is outside any model: optimality is certified per instance, not for all inputs (partial); HiGHS duals are untrusted hints.",
        technique="Lean 4 theorems (LP weak duality / certificate soundness, reporting order, SIMUS formulas) + per-instance certificates checked by the proved checker + differential check",
    ),
    "C05": dict(
        text="Proof: for every kernel of the model (wsm, ratio, refpoint, topsis over the five metrics, wpm, fmf, multimoora) row-permutation "
             "equivariance (scores follow the alternative), invariance under permuting criteria together with objectives and weights, the "
             "exact effect of scaling all weights by c > 0, and that dense ranks follow the alternative and are unchanged by strictly "
             "increasing maps of the scores; ELECTRE: concordance, discordance, ELECTRE1 relation and kernel, weight-comparison relation "
             "follow the alternatives and ignore criterion order, and the ELECTRE2 distillation, inverse and final rankings are equivariant "
             "under any relabelling (induction over the rounds); every scaler / inverter / weighter of the model commutes with permuting "
             "the problem, hence every finite pipeline does (induction over the step list) and the score of each named alternative is "
             "presentation-independent. Tie: both presentations (rebuilt with mkdm, or derived through dm[...] / loc / iloc) run on the real "
             "code and compared by label under the margin rule; the Lean model compared with itself exactly.",
        note=NOTE + "Pairs closer than 2e-9*scale (relative to each presentation's own scale) and ill-conditioned pipelines (noise amplified > 1e4) are skipped and counted.",
        technique="Lean 4 permutation / scaling theorems on the kernel, ELECTRE and transformer models (Equiv.sum_comp, sup' under permutations, induction over rounds and pipelines) + metamorphic differential check by label",
    ),
    "C10": dict(
        text="Proof: on a record model of to_dict -> _transform_data -> from_mcda_data, each transformer family changes only its declared parts "
             "(Frame theorems for target-switch scalers, weighters, inverters incl. objectives all max, imputers, filters as row sublists "
             "with unaltered rows, mktransformer by returned keys, pipelines by induction as the union of the steps' parts); the table of "
             "keys each concrete class actually rewrites is regenerated from the source on every run and decided against the declared sets. "
             "Tie: every built-in transformer x target x parameters, user transformers, pipelines: part-by-part bit comparison.",
        note=NOTE + "A weights-target scaler re-infers dtypes (dtypes=None) on mixed int/float matrices: same values, recorded as observation.",
        technique="Lean 4 frame theorems on a record model + regenerated written-keys table decided + differential bitwise part comparison",
    ),
    "C13": dict(
        text="Proof: the weighter kernels (equal, std, entropy, CRITIC with Pearson/Spearman, with/without ideal-distance scaling) are proved "
             "equal to their published formulas, to sum to one, to be non-negative (entropy via Gibbs/Jensen, CRITIC via Cauchy-Schwarz: r <= 1), "
             "invariant under permutations of alternatives, equivariant under permutations of criteria, independent of the incoming weights "
             "and of ddof (the factor cancels); the weighter frame. Tie: three-leg check (code / Lean Float model / 50-digit Decimal oracle) "
             "and permuted presentations compared by label.",
        note=NOTE + "Perfectly correlated criteria make the CRITIC formula 0/0 (the code returns NaN): outside the formula's domain, excluded by a generator guard and stated as assumption.",
        technique="Lean 4 theorems over R on the weighter kernels (Jensen, Cauchy-Schwarz, permutation invariance) + equal/std kernels regenerated from the source by an AST translator and proved equal to the model kernels + three-leg differential check",
    ),
    "C15": dict(
        text="Proof: for the model of SimpleImputer every observed cell keeps its value, no cell is missing afterwards, shape unchanged, and each "
             "gap holds the configured statistic (mean, median on the sorted arrangement, smallest most-frequent value, constant) of the "
             "observed values of the same criterion; KNN / iterative imputers enter through the contract Keeps (observed preserved, complete, "
             "same shape) which transfers to the wrapper; labels, objectives, weights untouched; the constructor-parameter -> sklearn keyword "
             "table is regenerated from the source by recording the sklearn constructors and decided. Tie: random and exhaustive missing "
             "patterns vs the model; the contract checked on the real sklearn output of every case.",
        note=NOTE + "KNN / iterative fill values are scikit-learn's (external): only the contract is used (partial).",
        technique="Lean 4 theorems on an Option-cell model of imputation + regenerated keyword-forwarding table decided + differential check",
    ),
    "C16": dict(
        text="Proof: pipeline transform / evaluate are the fold of the steps; every split point composes (also through nesting, with the API's "
             "slice refusals as iff); unique_names (repaired loop) yields pairwise distinct names for EVERY name list and each name resolves "
             "to its own step, the pre-fix loop is refuted by a decided witness; copy / get_parameters round trip from idempotent constructor "
             "coercions for all 43 classes, copy(**override) changes only the overridden parameters; the class parameter table is regenerated "
             "from the source on every run and decided (declared within __init__, required within declared, declared readable). Tie: random "
             "pipelines vs manual composition at all split points, every class and parameterisation rebuilt and compared on outputs.",
        note=NOTE + "Step behaviour is abstract in the pipeline theorems (any partial function).",
        technique="Lean 4 theorems (foldlM append, list induction, string-length termination) + regenerated class table decided + differential check",
    ),
    "C19": dict(
        text="Proof: on the model of RankInvariantChecker (gap table, mutate with the stream of uniform draws as input, repeat x non-best loop, "
             "missing alternatives) the number and order of evaluations, one-row mutants of non-best alternatives, once per repetition, noise "
             "direction, bound by the gap, strictness, recorded noise = applied change, labels, determinism in the draws, refusal exactly when "
             "no gap is positive (the pre-fix loop provably diverges there), and soundness of the executable trace checker. Tie: recording "
             "decision-maker wrapper, cloned Generator reproducing the draws, the proved trace checker run on every recorded experiment.",
        note=NOTE + "The order among tied alternatives (unstable pandas sort) is an input of the model; numpy Generator is external.",
        technique="Lean 4 theorems on a stream-driven model + proved trace checker run on recorded real traces + differential check",
    ),
    "C02": dict(
        text="Proof: refinement of an explicit heap model (store, internal arrays, memo, handed-out references, constructor copies) to the "
             "immutable-value spec: under the separation + memo-consistency invariant every step (write into a handed-out object, method call, "
             "read through a copying or memo-then-copy accessor, construction) leaves what every accessor would answer unchanged, hence every "
             "finite history does (induction). The premise 'no accessor hands out its cache / the constructor keeps no argument' is a decided "
             "theorem over a table regenerated on every run by classifying 60 accessors and the constructor arguments on live objects. "
             "Tie: random and exhaustive read/write/call histories on real objects with bit-for-bit snapshots after every step.",
        note=NOTE + "Object identity inside pandas is validated by the histories, not proved; result extras, axis names and RangeIndex-labelled matrices are outside the claim (DESIGN 16.3).",
        technique="Lean 4 invariant + refinement by induction over operation histories on a heap model + dynamically regenerated accessor table decided + history differential",
    ),
    "C11": dict(
        text="Proof: each scaler kernel of the model (Sum, Vector, MaxAbs, MinMax incl. clip and refusal, Standard, CenitDistance, PushNegatives, "
             "AddValueToZero; matrix target per criterion, weights target on the whole vector, the target switch) has its documented normal form "
             "(sum 1, unit norm, max |.| 1, min->lo & max->hi, mean 0 / population std 1, ideal->1 & anti->0, shifted iff negative minimum, value "
             "added iff a zero) with the cell formula, and output column j depends only on input column j. Tie: three-leg check for every "
             "scaler x target x parameter setting.",
        note=NOTE + "scikit-learn scalers are external: their documented formulas are the model; degenerate columns follow sklearn's handling as modelled.",
        technique="Lean 4 theorems over ordered fields / R on the scaler kernels + kernels regenerated from the source by an AST translator and proved equal to the model kernels + three-leg differential check (code / Lean model / exact Decimal)",
    ),
    "C12": dict(
        text="Proof: every listed transformer is an order isomorphism per criterion in its stated sign domain (< iff <, = iff =); the inverters map "
             "'better under the old objective' to 'better under maximise' and leave maximise columns alone; hence dominance and strict dominance "
             "between every pair are invariant, and by induction through any finite pipeline of such steps. Tie: per-criterion oriented sign and "
             "dm.dominance tables before vs after, dyadic exact + near-tie doubles (merges by rounding counted, never a reversal), exhaustive "
             "small alphabet in the thorough tier; model transformers followed by the model dominance.",
        note=NOTE + "Rounding may merge two distinct values (strict becomes equal): reported separately, outside the exact model.",
        technique="Lean 4 order-isomorphism and dominance-invariance theorems (induction over pipelines) + differential check incl. exhaustive small matrices",
    ),
    "C20": dict(
        text="Proof: if no call changes the object (step o d).1 = o, then for every history, probe position and earlier failure the probe's output "
             "equals the output of a fresh object, and two objects with equal parameters behave identically; the premise is the decided theorem "
             "that the table of state writes outside constructors - regenerated on every run by an AST scan of all 55 method classes (attribute "
             "stores, setattr, container mutators, estimator fits, RNG draws through aliases, globals, memoising decorators) - is empty; a "
             "caching counter-model shows the premise is necessary. Tie: every method class, histories of varying shape incl. failing calls, "
             "each run in its own process, outputs compared bit-for-bit, vars(obj) deep-compared.",
        note=NOTE + "Completeness of the AST scanner is trusted (rules listed in the generated file's header); a harmless write breaks the theorem and is reported no-failing-input-found.",
        technique="Lean 4 history theorem + regenerated (AST) self-write table decided empty + per-process history differential",
    ),
}
PENDING = "check not built yet (planned in DESIGN.md section 6); not claimed until its model, theorems and correspondence exist"

def main():
    props = [json.loads(l) for l in (V / "properties.jsonl").read_text().splitlines() if l.strip()]
    m = json.loads((V / "MANIFEST.json").read_text())
    m["checks"], m["not_applicable"] = [], []
    for p in props:
        pid = p["id"]
        if pid in CLAIMED:
            c = CLAIMED[pid]
            m["checks"].append({
                "property_id": pid,
                "quick_cmd": f"./check {pid} quick",
                "thorough_cmd": f"./check {pid} thorough",
                "evidence_file": f"evidence/{pid}.json",
                "replay_cmd_template": f"./check {pid} --replay {{path}}",
                "engine": "lean-model+harness",
                "level_claimed": {"category": "proof", "text": c["text"], "design_ref": f"DESIGN.md section 6.{pid}"},
                "level_note": c["note"],
                "technique": c["technique"],
            })
        else:
            m["not_applicable"].append({"property_id": pid, "reason": PENDING})
    m["notes"] = ("Lean 4 proofs about a hand-written executable model of scikit-criteria + differential correspondence against /repo in-process "
                  "+ tables regenerated from the source on every run. DESIGN.md section 16 describes the framework as built; known_findings.json "
                  "lists the genuine defects found (F1-F14 repaired by `fix:` commits in /repo, K1/K2 kept as known findings); seeded/ holds 80 "
                  "independently written source changes with the check output for each. No source hooks: the guard only names the environment "
                  "variable the checks export.")
    for e in m["engines"]:
        e["serves_properties"] = sorted(CLAIMED)
    (V / "MANIFEST.json").write_text(json.dumps(m, indent=1) + "\n")

if __name__ == "__main__":
    main()
