#!/usr/bin/env python3
"""Rewrite the table of seeded changes in DESIGN.md (between the SEEDED-TABLE markers) from seeded/*/meta.json."""
import glob, json, re
from pathlib import Path

V = Path(__file__).resolve().parent.parent
rows = []
for m in sorted(glob.glob(str(V / "seeded" / "*" / "meta.json"))):
    j = json.load(open(m))
    sid = Path(m).parent.name
    caught = ", ".join(j.get("caught_by", [])) or "MISSED"
    why = ""
    for k, v in (j.get("check_output") or {}).items():
        if v.get("exit") == 1:
            w = (v.get("why") or [""])[0]
            why = re.sub(r"^(property violated on the implementation: |proof obligation or correspondence broken:)", "", w)[:110]
            if "no-failing-input-found" in " ".join(v.get("line") or []):
                why = "(no failing input: broken obligation/correspondence) " + why
            break
    rows.append(f"| {sid} | {j['summary'][:150].replace('|', '/')} | {j['needs'][:140].replace('|', '/')} | {caught} | {why.replace('|', '/')} | {j.get('history', '')[:160].replace('|', '/')} |")
table = ("| seed | change | needs | caught by | first report | note |\n|---|---|---|---|---|---|\n" + "\n".join(rows))
p = V / "DESIGN.md"
s = p.read_text()
a, b = "<!-- SEEDED-TABLE-BEGIN -->", "<!-- SEEDED-TABLE-END -->"
if a in s:
    s = s[: s.index(a) + len(a)] + "\n" + table + "\n" + s[s.index(b):]
else:
    s += f"""

### 16.4 Seeded changes: which check catches which

Each change below was written by a fresh sub-agent that was given only the text of one property and
its own scratch worktree of the repository (nothing from /verif), had to keep the 434 pinned tests
passing, and delivered a demonstration (`demo.py`: exit 0 on the unchanged code, exit 1 with the
change). Every change was re-confirmed here (`tools/seedtest.py`: pinned suite, demo with/without)
and then run through the registered checks on a scratch worktree (`SKC_REPO`), never on `/repo`.
Files: `seeded/<id>/patch.diff`, `demo.py`, `meta.json` (incl. the check output). A miss led to a
generator / oracle strengthening for the whole class of inputs (column *note*), never to a special
case for the change. Regenerate this table with `python3 tools/seedtable.py`.

{a}
{table}
{b}
"""
p.write_text(s)
print(len(rows), "rows")
