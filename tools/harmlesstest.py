#!/usr/bin/env python3
"""Run every registered quick check against a behaviour-preserving patch (seeded/harmless-*): none may raise an alarm.
usage: harmlesstest.py <seeded/harmless-k> [property ids…]"""
import json, os, shutil, subprocess, sys, tempfile
d = os.path.abspath(sys.argv[1])
V = os.path.dirname(os.path.dirname(os.path.abspath(__file__)))
pids = sys.argv[2:] or ["C%02d" % i for i in range(1, 21)]
scratch = tempfile.mkdtemp(prefix="skc-harmless-")
out = {}
try:
    subprocess.run(["git", "-C", "/repo", "worktree", "add", "--detach", "-f", scratch, "HEAD", "-q"], check=True)
    subprocess.run(["git", "-C", scratch, "apply", os.path.join(d, "patch.diff")], check=True)
    b = subprocess.run(["python3", os.path.join(V, "tools/run_baseline.py"), scratch], capture_output=True, text=True)
    print("suite:", b.stdout.strip().splitlines()[0] if b.stdout else b.stderr[-200:])
    for pid in pids:
        p = subprocess.run([os.path.join(V, "check"), pid, "quick"], env=dict(os.environ, SKC_REPO=scratch), capture_output=True, text=True, cwd=V)
        tie = [l for l in p.stderr.splitlines() if "tie lost" in l]
        print(pid, "exit", p.returncode, [l for l in p.stdout.splitlines() if l.startswith("VIOLATION")][:1], (tie[0][:160] if tie else ""))
        out[pid] = {"exit": p.returncode, "tie_lost": bool(tie)}
finally:
    subprocess.run(["git", "-C", "/repo", "worktree", "remove", "--force", scratch])
    shutil.rmtree(scratch, ignore_errors=True)
print("ALARMS:", [k for k, v in out.items() if v["exit"] != 0])
