#!/usr/bin/env python3
"""Store a confirmed seeded change under seeded/<id>/ and fold a seedtest result.json into its meta.json.
usage: storeseed.py <src dir with patch.diff demo.py meta.json> <id> [--origin TEXT] [--history TEXT]
       storeseed.py --fold <seeded/<id>>      (meta.json += result.json, result.json removed)"""
import json, os, shutil, sys
V = os.path.dirname(os.path.dirname(os.path.abspath(__file__)))


def fold(d):
    mp, rp = os.path.join(d, "meta.json"), os.path.join(d, "result.json")
    if not os.path.exists(rp):
        return
    m, r = json.load(open(mp)), json.load(open(rp))
    m["confirmed"] = {"suite_pinned_tests_pass": r["suite_ok"], "demo_exit_clean": r["demo_clean"], "demo_exit_with_change": r["demo_mutant"]}
    m["what_was_run"] = "tools/seedtest.py (scratch worktree of /repo, SKC_REPO): " + ", ".join(r["checks"])
    m["caught_by"] = [k for k, v in r["checks"].items() if v["exit"] == 1]
    m["check_output"] = r["checks"]
    json.dump(m, open(mp, "w"), indent=1, ensure_ascii=False)
    os.remove(rp)


if sys.argv[1] == "--fold":
    for d in sys.argv[2:]:
        fold(d)
    sys.exit(0)
src, sid = sys.argv[1], sys.argv[2]
opt = dict(zip(sys.argv[3::2], sys.argv[4::2]))
dst = os.path.join(V, "seeded", sid)
os.makedirs(dst, exist_ok=True)
for f in ("patch.diff", "demo.py"):
    shutil.copy(os.path.join(src, f), os.path.join(dst, f))
m = json.load(open(os.path.join(src, "meta.json")))
m["breaks_property"] = m["property"]
if "--origin" in opt:
    m["origin"] = opt["--origin"]
if "--history" in opt:
    m["history"] = opt["--history"]
json.dump(m, open(os.path.join(dst, "meta.json"), "w"), indent=1, ensure_ascii=False)
