import Skc.Model.Rank
import Skc.Proofs.Rank
import Skc.Proofs.RankValid
import Skc.Props.C03
import Skc.Props.C18
import Skc.Props.C14
import Skc.Props.C04
