import Skc.Model.Rank
import Skc.Proofs.Rank
import Skc.Proofs.RankValid
import Skc.Props.C03
