import Skc.Drv.Json
import Skc.Drv.Ops
/-! Line-protocol driver: one JSON request per line on stdin, one JSON reply per line on stdout. -/
open Lean Skc.Drv

partial def loop (h : IO.FS.Stream) (out : IO.FS.Stream) : IO Unit := do
  let line ← h.getLine
  if line.isEmpty then return ()
  let reply := match Json.parse line >>= Skc.Drv.handle with
    | .ok r => r
    | .error e => Json.mkObj [("driver_error", Json.str e)]
  out.putStrLn reply.compress
  loop h out

def main : IO Unit := do
  let out ← IO.getStdout
  loop (← IO.getStdin) out
  out.flush
