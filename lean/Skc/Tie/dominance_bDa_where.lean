import Skc.Generated.K.dominance_bDa_where
import Skc.Model.Dominance
import Skc.Tie.Basic
set_option linter.unusedSectionVars false
set_option linter.unusedSimpArgs false
/-! Tie: `dominance(array_a, array_b, reverse)` of `skcriteria/utils/rank.py` (field `bDa_where` of the returned record), regenerated
from the source for array-valued `reverse` (the branch `isinstance(reverse, bool)` and the two shape guards are vacuous under the
declared types), is the model's `Dom.pair`. -/
namespace Skc.Tie
open Skc Skc.Np
variable {α : Type} [Field α] [LinearOrder α] [IsStrictOrderedRing α] [MathFns α]
variable {n : Nat} [NeZero n]

theorem tie_dominance_bDa_where (a b : Vec n α) (rev : Fin n → Bool) :
    (Gen.dominance_bDa_where ⟨a⟩ ⟨b⟩ ⟨rev⟩).v = (Dom.pair rev a b).bDaW := by
  simp only [Gen.dominance_bDa_where, Np.asarray, Np.equal, Np.less, Np.where, Np.logical_not, Np.logical_or, Np.sum_all, SumAll.sumAll, Bc.zw, Mp.mp, Truthy.t, id, Dom.pair, Dom.Pair.eq, Dom.Pair.aDb, Dom.Pair.bDa]
  first | done | rfl | congr!
end Skc.Tie
