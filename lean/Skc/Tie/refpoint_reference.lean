import Skc.Generated.K.refpoint_reference
import Skc.Model.Evaluate
import Skc.Model.Scalers
import Skc.Model.Weighters
import Skc.Tie.Basic
set_option linter.unusedSectionVars false
set_option linter.unusedSimpArgs false
/-! Tie: the `refpoint_reference` kernel regenerated from the source (ReferencePointMOORA reference point) is the model kernel the property theorems are about. -/
namespace Skc.Tie
open Skc Skc.Np
variable {α : Type} [Field α] [LinearOrder α] [IsStrictOrderedRing α] [MathFns α]
variable {m n : Nat} [NeZero m] [NeZero n]

theorem tie_refpoint_reference (A : Mat m n α) (o : Vec n Obj) (w : Vec n α) :
    (Gen.refpoint_reference ⟨A⟩ ⟨fun j => (o j).sgn⟩ ⟨w⟩).v = Agg.referencePoint A o := by
  funext j
  simp only [Gen.refpoint_reference, Np.where, Np.equal, Np.max, Np.min, Np.asarray, Np.squeeze, Bc.zw, Red.red, Truthy.t, Agg.referencePoint,
    Agg.colMax, Agg.colMin, id, sgn_eq_one, decide_eq_true_eq]
  first
    | done
    | rfl
    | (by_cases h : o j = .max <;> simp [h, Obj.sgn])
end Skc.Tie
