import Skc.Generated.K.topsis_similarity
import Skc.Model.Evaluate
import Skc.Model.Scalers
import Skc.Model.Weighters
import Skc.Tie.Basic
set_option linter.unusedSectionVars false
set_option linter.unusedSimpArgs false
/-! Tie: the `topsis_similarity` kernel regenerated from the source (TOPSIS similarity, for any distance function handed to cdist) is the model kernel the property theorems are about. -/
namespace Skc.Tie
open Skc Skc.Np
variable {α : Type} [Field α] [LinearOrder α] [IsStrictOrderedRing α] [MathFns α]
variable {m n : Nat} [NeZero m] [NeZero n]

theorem tie_topsis_similarity (A : Mat m n α) (o : Vec n Obj) (w : Vec n α) (d : Vec n α → Vec n α → α) :
    (Gen.topsis_similarity ⟨A⟩ ⟨fun j => (o j).sgn⟩ ⟨w⟩ d).v = Agg.similarityWith d A o w := by
  funext i
  simp only [Gen.topsis_similarity, Np.where, Np.equal, Np.max, Np.min, Np.multiply, Np.divide, Np.add, Np.cdist1, Np.asarray, Np.squeeze, Bc.zw, Red.red,
    Truthy.t, EMul.emul, Agg.similarityWith, id, sgn_eq_one, decide_eq_true_eq]
  first
    | rfl
    | (rw [add_comm]; rfl)

/-- the code ranks this very score, in the direction the model's `evaluate` uses -/
theorem tie_topsis_similarity_rank : Gen.topsis_similarity_rank_reverse = Eval.Method.rev (.topsis .euclidean) ∧ Gen.topsis_similarity_rank_of_result = true := by decide
end Skc.Tie
