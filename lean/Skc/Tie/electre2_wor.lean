import Skc.Generated.K.electre2_wor
import Skc.Tie.weights_outrank
set_option linter.unusedSectionVars false
set_option linter.unusedSimpArgs false
/-! Tie: the `matrix_wor` that `electre2` of `skcriteria/agg/electre.py` computes, regenerated from the source with the call
`weights_outrank(matrix, objectives, weights)` written out: the objectives arrive in the parameter `weights` and the weights in the
parameter `objectives` — the model's `worCode` (KNOWN FINDING K1, here a theorem about today's source). -/
namespace Skc.Tie
open Skc Skc.Np
variable {α : Type} [Field α] [LinearOrder α] [IsStrictOrderedRing α] [MathFns α]
variable {m n : Nat} [NeZero m] [NeZero n]

/-- the call site hands `objectives` to the parameter `weights` and `weights` to the parameter `objectives` -/
theorem electre2_wor_call_site (A : A2 m n α) (O W : A1 n α) (p0 p1 p2 q0 q1 : A0 α) :
    Gen.electre2_wor A O W p0 p1 p2 q0 q1 = Gen.weights_outrank A O W := rfl

theorem tie_electre2_wor (A : Mat m n α) (o : Vec n Obj) (w : Vec n α) (p0 p1 p2 q0 q1 : α) (a b : Fin m) :
    (Gen.electre2_wor ⟨A⟩ ⟨fun j => (o j).sgn⟩ ⟨w⟩ ⟨p0⟩ ⟨p1⟩ ⟨p2⟩ ⟨q0⟩ ⟨q1⟩).v a b = Electre.worCode A o w a b := by
  rw [electre2_wor_call_site, tie_weights_outrank_body]; rfl
end Skc.Tie
