import Skc.Tie.wsm
import Skc.Tie.wpm
import Skc.Tie.ratio
import Skc.Tie.refpoint
import Skc.Tie.refpoint_reference
import Skc.Tie.topsis_ideal
import Skc.Tie.topsis_anti_ideal
import Skc.Tie.topsis_similarity
import Skc.Tie.cenit
import Skc.Tie.scale_by_sum_M
import Skc.Tie.scale_by_sum_V
import Skc.Tie.push_negatives_M
import Skc.Tie.equal_weights
import Skc.Tie.std_weights
import Skc.Tie.concordance
import Skc.Tie.discordance
import Skc.Tie.rank_values
import Skc.Tie.electre1_outrank
import Skc.Tie.electre1_kernel
import Skc.Tie.fmf
import Skc.Tie.negate_minimize
import Skc.Tie.invert_minimize
import Skc.Tie.dominance_eq_where
import Skc.Tie.dominance_aDb_where
import Skc.Tie.dominance_bDa_where
import Skc.Tie.dominance_eq
import Skc.Tie.dominance_aDb
import Skc.Tie.dominance_bDa
import Skc.Tie.push_negatives_M
import Skc.Tie.wsm_refuses
import Skc.Tie.wpm_refuses
import Skc.Tie.fmf_refuses
import Skc.Tie.multimoora_refuses
import Skc.Tie.weights_outrank
import Skc.Tie.electre2_wor
import Skc.Tie.electre2_strong
import Skc.Tie.electre2_weak
import Skc.Props.C03
import Skc.Props.C04
import Skc.Props.C05
import Skc.Props.C06
import Skc.Props.C07
import Skc.Props.C12
import Skc.Props.C08
import Skc.Props.C11
import Skc.Props.C13
set_option linter.unusedSectionVars false
/-! # The property theorems, read on the kernels regenerated from the source

Each statement below is a property theorem of `Skc/Props/` transported along a tie theorem of `Skc/Tie/`: it speaks about
`Gen.<kernel>`, the Lean reading of what the function of `/repo` says **today** (`Skc/Generated/K/`), not about the
hand-written model.  Objectives are passed the way the code receives them (`+1` / `−1`).  This file is rebuilt and audited
in the thorough tier; when a tie is lost it no longer builds, which is reported with the tie (DESIGN 16.5). -/
namespace Skc.Source
open Skc Skc.Np Skc.Tie Finset

variable {m n : ℕ} [NeZero m] [NeZero n]

/-- the `±1` array the code receives for the objectives `o` -/
def objs {α : Type} [Neg α] [OfNat α 1] (o : Vec n Obj) : A1 n α := ⟨fun j => (o j).sgn⟩

section field
variable {α : Type} [Field α] [LinearOrder α] [IsStrictOrderedRing α] [MathFns α]

/-- C04, `agg/simple.py::wsm`: `score_i = Σ_j w_j a_ij` -/
theorem wsm_formula (A : Mat m n α) (w : Vec n α) (i : Fin m) : (Gen.wsm ⟨A⟩ ⟨w⟩).v i = ∑ j, w j * A i j := by
  rw [tie_wsm]; exact C04.wsm_formula A w i

/-- C06, `wsm`: a dominating alternative scores strictly higher -/
theorem wsm_dominance (A : Mat m n α) (w : Vec n α) (hw : ∀ j, 0 < w j) (a b : Fin m)
    (hd : dominates (fun _ => Obj.max) (A a) (A b)) : (Gen.wsm ⟨A⟩ ⟨w⟩).v b < (Gen.wsm ⟨A⟩ ⟨w⟩).v a := by
  rw [tie_wsm]; exact C06.wsm_dom_strict A w hw a b hd

/-- C04, `agg/moora.py::ratio` -/
theorem ratio_formula (A : Mat m n α) (o : Vec n Obj) (w : Vec n α) (i : Fin m) :
    (Gen.ratio ⟨A⟩ (objs o) ⟨w⟩).v i = ∑ j with o j = .max, w j * A i j - ∑ j with o j = .min, w j * A i j := by
  unfold objs; rw [tie_ratio]; exact C04.ratio_formula A o w i

/-- C06, `ratio` -/
theorem ratio_dominance (A : Mat m n α) (o : Vec n Obj) (w : Vec n α) (hw : ∀ j, 0 < w j) (a b : Fin m)
    (hd : dominates o (A a) (A b)) : (Gen.ratio ⟨A⟩ (objs o) ⟨w⟩).v b < (Gen.ratio ⟨A⟩ (objs o) ⟨w⟩).v a := by
  unfold objs; rw [tie_ratio]; exact C06.ratio_dom_strict A o w hw a b hd

/-- C04, `agg/moora.py::refpoint`: the reference point … -/
theorem reference_point_formula (A : Mat m n α) (o : Vec n Obj) (w : Vec n α) (j : Fin n) :
    (Gen.refpoint_reference ⟨A⟩ (objs o) ⟨w⟩).v j =
      if o j = .max then univ.sup' univ_nonempty (fun i => A i j) else univ.inf' univ_nonempty (fun i => A i j) := by
  unfold objs; rw [tie_refpoint_reference]; exact C04.reference_point_formula A o j

/-- … and the score -/
theorem refpoint_formula (A : Mat m n α) (o : Vec n Obj) (w : Vec n α) (i : Fin m) :
    (Gen.refpoint ⟨A⟩ (objs o) ⟨w⟩).v i = univ.sup' univ_nonempty fun j => |w j * (A i j - Agg.referencePoint A o j)| := by
  unfold objs; rw [tie_refpoint]; exact C04.refpoint_formula A o w i

/-- C04, `agg/similarity.py::topsis`: ideal and anti-ideal -/
theorem topsis_ideal_formula (A : Mat m n α) (o : Vec n Obj) (w : Vec n α) (d : Vec n α → Vec n α → α) (j : Fin n) :
    (Gen.topsis_ideal ⟨A⟩ (objs o) ⟨w⟩ d).v j =
      if o j = .max then univ.sup' univ_nonempty (fun i => A i j * w j) else univ.inf' univ_nonempty (fun i => A i j * w j) := by
  unfold objs; rw [tie_topsis_ideal]; exact C04.topsis_ideal_formula A o w j
theorem topsis_anti_ideal_formula (A : Mat m n α) (o : Vec n Obj) (w : Vec n α) (d : Vec n α → Vec n α → α) (j : Fin n) :
    (Gen.topsis_anti_ideal ⟨A⟩ (objs o) ⟨w⟩ d).v j =
      if o j = .max then univ.inf' univ_nonempty (fun i => A i j * w j) else univ.sup' univ_nonempty (fun i => A i j * w j) := by
  unfold objs; rw [tie_topsis_anti_ideal]; exact C04.topsis_anti_ideal_formula A o w j

/-- the similarity the source computes with the metric `distQ μ` handed to `cdist` is the model's `topsisQ μ` -/
theorem topsis_similarity_eq (μ : Agg.Metric) (A : Mat m n α) (o : Vec n Obj) (w : Vec n α) :
    (Gen.topsis_similarity ⟨A⟩ (objs o) ⟨w⟩ (Agg.distQ μ)).v = Agg.topsisQ μ A o w := by
  unfold objs; rw [tie_topsis_similarity]; rfl

/-- C11, `scale_by_sum(matrix, axis=0)` (SumScaler): the cell formula, and every criterion sums to one -/
theorem sum_scaler_cell (A : Mat m n α) (i : Fin m) (j : Fin n) : (Gen.scale_by_sum_M ⟨A⟩).v i j = A i j / ∑ k, A k j := by
  rw [tie_scale_by_sum_M]; exact C11.sum_cell A i j
theorem sum_scaler_norm (A : Mat m n α) (j : Fin n) (h : ∑ k, A k j ≠ 0) : ∑ i, (Gen.scale_by_sum_M ⟨A⟩).v i j = 1 := by
  rw [tie_scale_by_sum_M]; exact C11.sum_norm A j h
theorem sum_scaler_norm_weights (w : Vec n α) (h : ∑ k, w k ≠ 0) : ∑ j, (Gen.scale_by_sum_V ⟨w⟩).v j = 1 := by
  rw [tie_scale_by_sum_V]; exact C11.sum_norm_weights w h

/-- C11, `push_negatives(matrix, axis=0)`: nothing negative is left -/
theorem push_negatives_nonneg (A : Mat m n α) (i : Fin m) (j : Fin n) : 0 ≤ (Gen.push_negatives_M ⟨A⟩).v i j := by
  rw [tie_push_negatives_M]; exact C11.pushneg_nonneg A i j

/-- C11, `matrix_scale_by_cenit_distance` -/
theorem cenit_cell (A : Mat m n α) (o : Vec n Obj) (i : Fin m) (j : Fin n) :
    (Gen.cenit ⟨A⟩ (objs o)).v i j = Scalers.cenitScale A o i j := by
  unfold objs; rw [tie_cenit]

/-- C13, `equal_weights`: the weights add up to `base_value` -/
theorem equal_weights_sum (A : Mat m n α) (base : α) : ∑ j, (Gen.equal_weights ⟨A⟩ ⟨base⟩).v j = base := by
  rw [tie_equal_weights]; exact C13.equal_sum A base (NeZero.ne n)

/-- C08, `agg/electre.py::concordance`: total weight of the criteria on which `a` is at least as good as `b`; NaN on the diagonal -/
theorem concordance_eq (A : Mat m n α) (o : Vec n Obj) (w : Vec n α) (a b : Fin m) (h : a ≠ b) :
    (Gen.concordance ⟨A⟩ (objs o) ⟨w⟩).v a b = some (∑ j with atLeast (o j) (A a j) (A b j), w j) := by
  unfold objs; rw [tie_concordance]; exact C08.concordance_eq A o w a b h
theorem concordance_diag (A : Mat m n α) (o : Vec n Obj) (w : Vec n α) (a : Fin m) :
    (Gen.concordance ⟨A⟩ (objs o) ⟨w⟩).v a a = none := by
  unfold objs; rw [tie_concordance]; exact C08.concordance_diag A o w a

/-- C08, `agg/electre.py::electre1`: `a` outranks `b` iff the pair is off the diagonal, its concordance reaches `p` and its
discordance stays within `q` -/
theorem electre1_outrank_iff (A : Mat m n α) (o : Vec n Obj) (w : Vec n α) (p q : α) (a b : Fin m) :
    (Gen.electre1_outrank ⟨A⟩ (objs o) ⟨w⟩ ⟨p⟩ ⟨q⟩).v a b = true ↔
      a ≠ b ∧ ∃ c d, Electre.concordance A o w a b = some c ∧ Electre.discordance A o a b = some d ∧ p ≤ c ∧ d ≤ q := by
  unfold objs; rw [tie_electre1_outrank]; exact C08.electre1_outrank_iff A o w p q a b
/-- … and the kernel is exactly the set of alternatives that nothing outranks -/
theorem electre1_kernel_iff (A : Mat m n α) (o : Vec n Obj) (w : Vec n α) (p q : α) (b : Fin m) :
    (Gen.electre1_kernel ⟨A⟩ (objs o) ⟨w⟩ ⟨p⟩ ⟨q⟩).v b = true ↔
      ∀ a, (Gen.electre1_outrank ⟨A⟩ (objs o) ⟨w⟩ ⟨p⟩ ⟨q⟩).v a b = false := by
  unfold objs; simp only [tie_electre1_kernel, tie_electre1_outrank]; exact C08.electre1_kernel_iff A o w p q b

/-- C03, `utils/rank.py::rank_values(score, reverse=True)`: a strictly higher score gets a strictly smaller rank number -/
theorem rank_values_reverse (v : Vec n α) (i j : Nat) (hi : i < (List.ofFn v).length) (hj : j < (List.ofFn v).length) :
    (List.ofFn (Gen.rank_values ⟨v⟩ true).v)[i]'(by simpa using hi) < (List.ofFn (Gen.rank_values ⟨v⟩ true).v)[j]'(by simpa using hj) ↔
      (List.ofFn v)[j] < (List.ofFn v)[i] := by
  have h := C03.rankValues_reverse_lt_iff (List.ofFn v) i j hi hj
  simpa only [tie_rank_values] using h
/-! ### C05: the source-level kernels do not depend on how the problem is written down -/

/-- re-listing the criteria (with their objectives and weights) leaves the WSM scores unchanged -/
theorem wsm_criteria_relisted (A : Mat m n α) (w : Vec n α) (τ : Equiv.Perm (Fin n)) :
    (Gen.wsm ⟨fun i j => A i (τ j)⟩ ⟨fun j => w (τ j)⟩).v = (Gen.wsm ⟨A⟩ ⟨w⟩).v := by
  rw [tie_wsm, tie_wsm]; exact C05.wsm_col_perm A w τ
/-- re-listing the alternatives moves the RatioMOORA scores with them -/
theorem ratio_alternatives_relisted (A : Mat m n α) (o : Vec n Obj) (w : Vec n α) (σ : Equiv.Perm (Fin m)) (i : Fin m) :
    (Gen.ratio ⟨fun i => A (σ i)⟩ (objs o) ⟨w⟩).v i = (Gen.ratio ⟨A⟩ (objs o) ⟨w⟩).v (σ i) := by
  unfold objs; rw [tie_ratio, tie_ratio]; exact C05.ratio_row_perm A o w σ i
theorem ratio_criteria_relisted (A : Mat m n α) (o : Vec n Obj) (w : Vec n α) (τ : Equiv.Perm (Fin n)) :
    (Gen.ratio ⟨fun i j => A i (τ j)⟩ (objs (fun j => o (τ j))) ⟨fun j => w (τ j)⟩).v = (Gen.ratio ⟨A⟩ (objs o) ⟨w⟩).v := by
  unfold objs; rw [tie_ratio, tie_ratio]; exact C05.ratio_col_perm A o w τ
/-- a common factor on the weights multiplies the WSM / RatioMOORA scores by it (so the ranking is unchanged for a positive factor) -/
theorem wsm_weights_scaled (A : Mat m n α) (w : Vec n α) (c : α) (i : Fin m) :
    (Gen.wsm ⟨A⟩ ⟨fun j => c * w j⟩).v i = c * (Gen.wsm ⟨A⟩ ⟨w⟩).v i := by
  rw [tie_wsm, tie_wsm]; exact C05.wsm_weight_scale A w c i
theorem ratio_weights_scaled (A : Mat m n α) (o : Vec n Obj) (w : Vec n α) (c : α) (i : Fin m) :
    (Gen.ratio ⟨A⟩ (objs o) ⟨fun j => c * w j⟩).v i = c * (Gen.ratio ⟨A⟩ (objs o) ⟨w⟩).v i := by
  unfold objs; rw [tie_ratio, tie_ratio]; exact C05.ratio_weight_scale A o w c i
/-- re-listing the criteria leaves the ELECTRE concordance index of every pair unchanged -/
theorem concordance_criteria_relisted (A : Mat m n α) (o : Vec n Obj) (w : Vec n α) (τ : Equiv.Perm (Fin n)) (a b : Fin m) :
    (Gen.concordance ⟨fun i j => A i (τ j)⟩ (objs (o ∘ τ)) ⟨w ∘ τ⟩).v a b = (Gen.concordance ⟨A⟩ (objs o) ⟨w⟩).v a b := by
  unfold objs; rw [tie_concordance, tie_concordance]; exact C05.concordance_col_perm A o w τ a b

/-! ### C12: the regenerated transformers never reverse a preference -/

/-- the mask `_transform_data` hands to `_invert`: `objectives == MIN` -/
def minMask (o : Vec n Obj) : A1 n Bool := ⟨fun j => decide (o j = .min)⟩

/-- `NegateMinimize._invert`, any data: `a` better than `b` on criterion `j` before ⇔ better afterwards under "maximise" -/
theorem negate_minimize_better_iff (A : Mat m n α) (o : Vec n Obj) (j : Fin n) (a b : Fin m) :
    better (o j) (A a j) (A b j) ↔
      better .max ((Gen.negate_minimize ⟨A⟩ (minMask o)).v a j) ((Gen.negate_minimize ⟨A⟩ (minMask o)).v b j) := by
  unfold minMask; rw [tie_negate_minimize]; exact C12.negate_better_iff A o j a b
/-- `InvertMinimize._invert`, positive data on the minimise criteria -/
theorem invert_minimize_better_iff (A : Mat m n α) (o : Vec n Obj) (j : Fin n) (hpos : o j = .min → ∀ i, 0 < A i j) (a b : Fin m) :
    better (o j) (A a j) (A b j) ↔
      better .max ((Gen.invert_minimize ⟨A⟩ (minMask o)).v a j) ((Gen.invert_minimize ⟨A⟩ (minMask o)).v b j) := by
  unfold minMask; rw [tie_invert_minimize]; exact C12.invert_better_iff A o j hpos a b
/-- `push_negatives(matrix, axis=0)` keeps the order (and the ties) within every criterion -/
theorem push_negatives_order_iso (A : Mat m n α) (j : Fin n) (a b : Fin m) :
    (A a j < A b j ↔ (Gen.push_negatives_M ⟨A⟩).v a j < (Gen.push_negatives_M ⟨A⟩).v b j) ∧
    (A a j = A b j ↔ (Gen.push_negatives_M ⟨A⟩).v a j = (Gen.push_negatives_M ⟨A⟩).v b j) := by
  rw [tie_push_negatives_M]; exact C12.pushneg_order_iso A j a b

/-! ### C07: `utils/rank.py::dominance`, the comparison kernel behind `dm.dominance` -/

/-- the three masks are the definition, criterion by criterion (`reverse` = `dm.minwhere`) -/
theorem dominance_where_iff (o : Vec n Obj) (a b : Vec n α) (j : Fin n) :
    ((Gen.dominance_aDb_where ⟨a⟩ ⟨b⟩ ⟨Dom.revOf o⟩).v j = true ↔ better (o j) (a j) (b j)) ∧
    ((Gen.dominance_bDa_where ⟨a⟩ ⟨b⟩ ⟨Dom.revOf o⟩).v j = true ↔ better (o j) (b j) (a j)) ∧
    ((Gen.dominance_eq_where ⟨a⟩ ⟨b⟩ ⟨Dom.revOf o⟩).v j = true ↔ a j = b j) := by
  rw [tie_dominance_aDb_where, tie_dominance_bDa_where, tie_dominance_eq_where]; exact C07.pair_where_iff o a b j
/-- the three counts partition the criteria -/
theorem dominance_counts (o : Vec n Obj) (a b : Vec n α) :
    (Gen.dominance_eq ⟨a⟩ ⟨b⟩ ⟨Dom.revOf o⟩).v + (Gen.dominance_aDb ⟨a⟩ ⟨b⟩ ⟨Dom.revOf o⟩).v +
      (Gen.dominance_bDa ⟨a⟩ ⟨b⟩ ⟨Dom.revOf o⟩).v = n := by
  rw [tie_dominance_eq, tie_dominance_aDb, tie_dominance_bDa]; exact C07.pair_counts o a b

/-! ### C04, the refusal clause: when do the decision makers raise `ValueError`, as read from their `_evaluate_data` -/

theorem wsm_refuses_iff (A : Mat m n α) (o : Vec n Obj) :
    Gen.wsm_refuses ⟨A⟩ (objs o) = true ↔ (∃ j, o j = .min) ∨ ∃ i j, A i j < 0 := by
  unfold objs; rw [tie_wsm_refuses]; exact C04.wsm_refuses_iff A o
theorem wpm_refuses_iff (A : Mat m n α) (o : Vec n Obj) :
    Gen.wpm_refuses ⟨A⟩ (objs o) = true ↔ (∃ j, o j = .min) ∨ ∃ i j, A i j ≤ 0 := by
  unfold objs; rw [tie_wpm_refuses]; exact C04.wpm_refuses_iff A o
theorem fmf_refuses_iff (A : Mat m n α) : Gen.fmf_refuses ⟨A⟩ = true ↔ ∃ i j, A i j ≤ 0 := by
  rw [tie_fmf_refuses]; exact C04.fmf_refuses_iff A
theorem multimoora_refuses_iff (A : Mat m n α) : Gen.multimoora_refuses ⟨A⟩ = true ↔ ∃ i j, A i j ≤ 0 := by
  rw [tie_multimoora_refuses]; exact C04.fmf_refuses_iff A

/-! ### ELECTRE2: the weight comparison as specified and as called (known finding K1), the two relations -/

/-- `weights_outrank` called as documented is the specified relation … -/
theorem weights_outrank_spec (A : Mat m n α) (o : Vec n Obj) (w : Vec n α) (a b : Fin m) :
    (Gen.weights_outrank ⟨A⟩ ⟨w⟩ (objs o)).v a b = Electre.worSpec A o w a b := by
  unfold objs; exact tie_weights_outrank A o w a b
/-- … but `electre2` calls it with the two arrays exchanged -/
theorem electre2_wor_as_called (A : Mat m n α) (o : Vec n Obj) (w : Vec n α) (p0 p1 p2 q0 q1 : α) (a b : Fin m) :
    (Gen.electre2_wor ⟨A⟩ (objs o) ⟨w⟩ ⟨p0⟩ ⟨p1⟩ ⟨p2⟩ ⟨q0⟩ ⟨q1⟩).v a b = Electre.worCode A o w a b := by
  unfold objs; exact tie_electre2_wor A o w p0 p1 p2 q0 q1 a b
/-- C08: the strong relation of today's `electre2` -/
theorem electre2_strong_iff (A : Mat m n α) (o : Vec n Obj) (w : Vec n α) (t : Electre.Thresholds α) (a b : Fin m) (c d : α)
    (hc : Electre.concordance A o w a b = some c) (hd : Electre.discordance A o a b = some d) :
    (Gen.electre2_strong ⟨A⟩ (objs o) ⟨w⟩ ⟨t.p0⟩ ⟨t.p1⟩ ⟨t.p2⟩ ⟨t.q0⟩ ⟨t.q1⟩).v a b = true ↔
      Electre.worCode A o w a b = true ∧ ((t.p0 ≤ c ∧ d ≤ t.q0) ∨ (t.p1 ≤ c ∧ d ≤ t.q1)) := by
  unfold objs; rw [tie_electre2_strong, hc, hd]; exact C08.strong_iff c d _ t
/-- C08: the weak relation -/
theorem electre2_weak_iff (A : Mat m n α) (o : Vec n Obj) (w : Vec n α) (t : Electre.Thresholds α) (a b : Fin m) (c d : α)
    (hc : Electre.concordance A o w a b = some c) (hd : Electre.discordance A o a b = some d) :
    (Gen.electre2_weak ⟨A⟩ (objs o) ⟨w⟩ ⟨t.p0⟩ ⟨t.p1⟩ ⟨t.p2⟩ ⟨t.q0⟩ ⟨t.q1⟩).v a b = true ↔
      Electre.worCode A o w a b = true ∧ t.p2 ≤ c ∧ d ≤ t.q0 := by
  unfold objs; rw [tie_electre2_weak, hc, hd]; exact C08.weak_iff c d _ t
end field

/-! (`C08.worCode_ne_worSpec` exhibits a problem on which the two relations differ: with the two theorems above that is the known
finding K1 stated about today's source.) -/

/-! ### over `ℝ` (kernels with `sqrt` / `log`) -/

/-- C04, `agg/simple.py::wpm`: ten to the score is the published product `Π_j a_ij ^ w_j` -/
theorem wpm_prod (A : Mat m n ℝ) (hA : ∀ i j, 0 < A i j) (w : Vec n ℝ) (i : Fin m) :
    (10 : ℝ) ^ (Gen.wpm ⟨A⟩ ⟨w⟩).v i = ∏ j, A i j ^ w j := by
  rw [tie_wpm]; exact C04.wpm_prod A hA w i

/-- C06, `agg/moora.py::fmf` as coded (both branches of the two `if … in objectives`): a dominating alternative scores strictly higher -/
theorem fmf_dominance (A : Mat m n ℝ) (hA : ∀ i j, 0 < A i j) (o : Vec n Obj) (w : Vec n ℝ) (hw : ∀ j, 0 < w j)
    (a b : Fin m) (hd : dominates o (A a) (A b)) :
    (Gen.fmf ⟨A⟩ (objs o) ⟨w⟩).v b < (Gen.fmf ⟨A⟩ (objs o) ⟨w⟩).v a := by
  unfold objs; rw [tie_fmf]; exact C06.fmfCode_dom_strict A hA o w hw (Nat.pos_of_ne_zero (NeZero.ne n)) a b hd

/-- C04, `fmf`: with at least one maximise criterion the coded score is the published one … -/
theorem fmf_eq_formula (A : Mat m n ℝ) (o : Vec n Obj) (w : Vec n ℝ) (h : ∃ j, o j = .max) (i : Fin m) :
    (Gen.fmf ⟨A⟩ (objs o) ⟨w⟩).v i = Agg.fmfSpec A o w i := by
  unfold objs; rw [tie_fmf]; exact C04.fmf_eq_formula A o w h i
/-- … and the published one **plus 1** when there is none: the known finding K2, as a statement about today's source -/
theorem fmf_no_max (A : Mat m n ℝ) (o : Vec n Obj) (w : Vec n ℝ) (h : ∀ j, o j = .min) (i : Fin m) :
    (Gen.fmf ⟨A⟩ (objs o) ⟨w⟩).v i = 1 + Agg.fmfSpec A o w i := by
  unfold objs; rw [tie_fmf]; exact C04.fmf_no_max A o w h (Nat.pos_of_ne_zero (NeZero.ne n)) i

/-- C13, `std_weights`: the weights sum to one as soon as one criterion is not constant -/
theorem std_weights_sum_one (hm : 2 ≤ m) (A : Mat m n ℝ) (h : ∃ j, ∃ i i', A i j ≠ A i' j) :
    ∑ j, (Gen.std_weights ⟨A⟩).v j = 1 := by
  rw [tie_std_weights]; exact C13.std_sum_one hm A h

end Skc.Source
