import Skc.Generated.K.topsis_ideal
import Skc.Model.Evaluate
import Skc.Model.Scalers
import Skc.Model.Weighters
import Skc.Tie.Basic
set_option linter.unusedSectionVars false
set_option linter.unusedSimpArgs false
/-! Tie: the `topsis_ideal` kernel regenerated from the source (TOPSIS ideal) is the model kernel the property theorems are about. -/
namespace Skc.Tie
open Skc Skc.Np
variable {α : Type} [Field α] [LinearOrder α] [IsStrictOrderedRing α] [MathFns α]
variable {m n : Nat} [NeZero m] [NeZero n]

theorem tie_topsis_ideal (A : Mat m n α) (o : Vec n Obj) (w : Vec n α) (d : Vec n α → Vec n α → α) :
    (Gen.topsis_ideal ⟨A⟩ ⟨fun j => (o j).sgn⟩ ⟨w⟩ d).v = Agg.ideal A o w := by
  funext j
  simp only [Gen.topsis_ideal, Np.where, Np.equal, Np.max, Np.min, Np.multiply, Np.asarray, Np.squeeze, Bc.zw, Red.red, Truthy.t, EMul.emul,
    Agg.ideal, Agg.weighted, Agg.colMax, Agg.colMin, id, sgn_eq_one, decide_eq_true_eq]
end Skc.Tie
