import Skc.Generated.K.add_value_to_zero_M
import Skc.Model.Evaluate
import Skc.Model.Scalers
import Skc.Model.Weighters
import Skc.Tie.Basic
set_option linter.unusedSectionVars false
set_option linter.unusedSimpArgs false
/-! Tie: the `add_value_to_zero_M` kernel regenerated from the source (AddValueToZero (matrix)) is the model kernel the property theorems are about. -/
namespace Skc.Tie
open Skc Skc.Np
variable {α : Type} [Field α] [LinearOrder α] [IsStrictOrderedRing α] [MathFns α]
variable {m n : Nat} [NeZero m] [NeZero n]

theorem tie_add_value_to_zero_M (value : α) (A : Mat m n α) :
    (Gen.add_value_to_zero_M ⟨A⟩ ⟨value⟩).v = Scalers.addValueToZeroM value A := by
  funext i j
  simp only [Gen.add_value_to_zero_M, Np.any, Np.equal, Np.multiply, Np.add, Np.asarray, Bc.zw, Red.red, Truthy.t, EMul.emul,
    Scalers.addValueToZeroM, Scalers.boolMul, isZero_eq, id]
  congr
end Skc.Tie
