import Skc.Model.Scalers
import Skc.Proofs.Num
set_option linter.unusedSectionVars false
/-! Lemmas shared by the tie theorems: how the NumPy encodings of objectives (`±1`) and of "is zero" read in an ordered field. -/
namespace Skc.Tie
open Skc
variable {α : Type} [Field α] [LinearOrder α] [IsStrictOrderedRing α]

theorem one_ne_neg_one : (1 : α) ≠ -1 := by
  intro h
  have : (0 : α) < 1 := one_pos
  have h2 : (1 : α) + 1 = 0 := by nth_rewrite 2 [h]; ring
  linarith

@[simp] theorem sgn_eq_one (x : Obj) : (decide ((x.sgn : α) = 1)) = decide (x = .max) := by
  cases x
  · simp [Obj.sgn]
  · have : (-1 : α) ≠ 1 := fun h => one_ne_neg_one h.symm
    simp [Obj.sgn, this]

theorem isZero_eq (x : α) : Scalers.isZero x = decide (x = 0) := by
  unfold Scalers.isZero
  rcases lt_trichotomy x 0 with h | h | h
  · simp [h, h.ne]
  · simp [h]
  · simp [h, h.ne', not_lt.mpr h.le]

end Skc.Tie
