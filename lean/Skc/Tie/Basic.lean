import Skc.Model.Scalers
import Skc.Model.Electre
import Skc.Proofs.Num
set_option linter.unusedSectionVars false
/-! Lemmas shared by the tie theorems: how the NumPy encodings of objectives (`±1`) and of "is zero" read in an ordered field. -/
namespace Skc.Tie
open Skc
variable {α : Type} [Field α] [LinearOrder α] [IsStrictOrderedRing α]

theorem one_ne_neg_one : (1 : α) ≠ -1 := by
  intro h
  have : (0 : α) < 1 := one_pos
  have h2 : (1 : α) + 1 = 0 := by nth_rewrite 2 [h]; ring
  linarith

@[simp] theorem sgn_eq_one (x : Obj) : (decide ((x.sgn : α) = 1)) = decide (x = .max) := by
  cases x
  · simp [Obj.sgn]
  · have : (-1 : α) ≠ 1 := fun h => one_ne_neg_one h.symm
    simp [Obj.sgn, this]

theorem isZero_eq (x : α) : Scalers.isZero x = decide (x = 0) := by
  unfold Scalers.isZero
  rcases lt_trichotomy x 0 with h | h | h
  · simp [h, h.ne]
  · simp [h]
  · simp [h, h.ne', not_lt.mpr h.le]

/-- `_conc_row`'s mask, with objectives encoded as `±1` -/
theorem conc_mask_eq (x : Obj) (p q : α) :
    (decide ((x.sgn : α) = 1) && decide (0 ≤ p - q) || decide ((x.sgn : α) = -1) && decide (p - q ≤ 0)) = Electre.concMask x p q := by
  have h1 : (1 : α) ≠ -1 := one_ne_neg_one
  have h2 : (-1 : α) ≠ 1 := fun h => h1 h.symm
  cases x <;> simp [Obj.sgn, Electre.concMask, h1, h2, sub_nonneg]

/-- `_disc_row`'s mask -/
theorem disc_mask_eq (x : Obj) (p q : α) :
    (decide ((x.sgn : α) = 1) && decide (0 < q - p) || decide ((x.sgn : α) = -1) && decide (q - p < 0)) = Electre.discMask x p q := by
  have h1 : (1 : α) ≠ -1 := one_ne_neg_one
  have h2 : (-1 : α) ≠ 1 := fun h => h1 h.symm
  cases x <;> simp [Obj.sgn, Electre.discMask, h1, h2, sub_pos, sub_neg]

theorem sgn_eq_neg_one (x : Obj) : (decide ((x.sgn : α) = -1)) = decide (x = .min) := by
  have h1 : (1 : α) ≠ -1 := one_ne_neg_one
  cases x <;> simp [Obj.sgn, h1]

end Skc.Tie
