import Skc.Generated.K.wpm_refuses
import Skc.Model.Agg
import Skc.Tie.Basic
set_option linter.unusedSectionVars false
set_option linter.unusedSimpArgs false
/-! Tie: the refusals of `WeightedProductModel._evaluate_data` (the leading `if …: raise ValueError` statements, read from the source; the method
raises nowhere else and hands its arrays to `wpm` in the recorded order) are the model's `wpmRefuses`. -/
namespace Skc.Tie
open Skc Skc.Np
variable {α : Type} [Field α] [LinearOrder α] [IsStrictOrderedRing α] [MathFns α]
variable {m n : Nat} [NeZero m] [NeZero n]

theorem tie_wpm_refuses (A : Mat m n α) (o : Vec n Obj) :
    Gen.wpm_refuses ⟨A⟩ ⟨fun j => (o j).sgn⟩ = Agg.wpmRefuses A o := by
  simp only [Gen.wpm_refuses, Np.contains, Np.any_all, AnyAll.anyAll, Np.less_equal, HLe.le, Bc.zw, Truthy.t, id, Agg.wpmRefuses,
    Agg.hasMin, Agg.anyNonPos, sgn_eq_neg_one]
end Skc.Tie
