import Skc.Generated.K.entropy_weights
import Skc.Model.Weighters
import Skc.Tie.Basic
import Skc.Proofs.Weighters
set_option linter.unusedSectionVars false
set_option linter.unusedSimpArgs false
/-! Tie: the `entropy_weights` kernel regenerated from the source (EntropyWeighter; `scipy.stats.entropy` read as in
`Np.entropy`) is the model kernel the property theorems are about. -/
namespace Skc.Tie
open Skc Skc.Np
variable {α : Type} [Field α] [LinearOrder α] [IsStrictOrderedRing α] [MathFns α]
variable {m n : Nat} [NeZero m] [NeZero n]

theorem tie_entropy_weights (A : Mat m n α) : (Gen.entropy_weights ⟨A⟩).v = Weighters.entropyWeights A := by
  funext j
  simp only [Gen.entropy_weights, Np.entropy, Np.shape0, Np.sum, Np.sum_all, SumAll.sumAll, Np.divide, Np.subtract, Bc.zw, Red.red, Weighters.entropyWeights,
    Weighters.normSum, Weighters.scipyEntropy, Weighters.entr, Weighters.tab_get]
end Skc.Tie
