import Skc.Generated.K.ratio
import Skc.Model.Evaluate
import Skc.Model.Scalers
import Skc.Model.Weighters
set_option linter.unusedSectionVars false
set_option linter.unusedSimpArgs false
/-! Tie: the `ratio` kernel regenerated from the source (RatioMOORA score) is the model kernel the property theorems are about. -/
namespace Skc.Tie
open Skc Skc.Np
variable {α : Type} [Add α] [Sub α] [Mul α] [Div α] [Neg α] [OfNat α 0] [OfNat α 1] [NatCast α] [LT α] [LE α] [Max α] [Min α]
  [DecidableEq α] [DecidableRel (α := α) (· < ·)] [DecidableRel (α := α) (· ≤ ·)] [MathFns α]
variable {m n : Nat} [NeZero m] [NeZero n]

theorem tie_ratio (A : Mat m n α) (o : Vec n Obj) (w : Vec n α) :
    (Gen.ratio ⟨A⟩ ⟨fun j => (o j).sgn⟩ ⟨w⟩).v = Agg.ratio A o w := rfl

/-- the code ranks this very score, in the direction the model's `evaluate` uses -/
theorem tie_ratio_rank : Gen.ratio_rank_reverse = Eval.Method.rev .ratio ∧ Gen.ratio_rank_of_result = true := by decide
end Skc.Tie
