import Skc.Generated.K.add_value_to_zero_V
import Skc.Model.Evaluate
import Skc.Model.Scalers
import Skc.Model.Weighters
import Skc.Tie.Basic
set_option linter.unusedSectionVars false
set_option linter.unusedSimpArgs false
/-! Tie: the `add_value_to_zero_V` kernel regenerated from the source (AddValueToZero (weights)) is the model kernel the property theorems are about. -/
namespace Skc.Tie
open Skc Skc.Np
variable {α : Type} [Field α] [LinearOrder α] [IsStrictOrderedRing α] [MathFns α]
variable {m n : Nat} [NeZero m] [NeZero n]

theorem tie_add_value_to_zero_V (value : α) (w : Vec n α) :
    (Gen.add_value_to_zero_V ⟨w⟩ ⟨value⟩).v = Scalers.addValueToZeroV value w := by
  funext j
  simp only [Gen.add_value_to_zero_V, Np.any, Np.equal, Np.multiply, Np.add, Np.asarray, Bc.zw, Red.red, Truthy.t, EMul.emul,
    Scalers.addValueToZeroV, Scalers.boolMul, isZero_eq, id]
  congr
end Skc.Tie
