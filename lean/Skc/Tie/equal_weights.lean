import Skc.Generated.K.equal_weights
import Skc.Model.Evaluate
import Skc.Model.Scalers
import Skc.Model.Weighters
set_option linter.unusedSectionVars false
set_option linter.unusedSimpArgs false
/-! Tie: the `equal_weights` kernel regenerated from the source (EqualWeighter) is the model kernel the property theorems are about. -/
namespace Skc.Tie
open Skc Skc.Np
variable {α : Type} [Add α] [Sub α] [Mul α] [Div α] [Neg α] [OfNat α 0] [OfNat α 1] [NatCast α] [LT α] [LE α] [Max α] [Min α]
  [DecidableEq α] [DecidableRel (α := α) (· < ·)] [DecidableRel (α := α) (· ≤ ·)] [MathFns α]
variable {m n : Nat} [NeZero m] [NeZero n]

theorem tie_equal_weights (A : Mat m n α) (b : α) : (Gen.equal_weights ⟨A⟩ ⟨b⟩).v = Weighters.equalWeights A b := rfl
end Skc.Tie
