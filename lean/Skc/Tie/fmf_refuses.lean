import Skc.Generated.K.fmf_refuses
import Skc.Model.Agg
import Skc.Tie.Basic
set_option linter.unusedSectionVars false
set_option linter.unusedSimpArgs false
/-! Tie: the refusals of `FullMultiplicativeForm._evaluate_data` (the leading `if …: raise ValueError` statements, read from the source; the method
raises nowhere else and hands its arrays to `fmf` in the recorded order) are the model's `fmfRefuses`. -/
namespace Skc.Tie
open Skc Skc.Np
variable {α : Type} [Field α] [LinearOrder α] [IsStrictOrderedRing α] [MathFns α]
variable {m n : Nat} [NeZero m] [NeZero n]

theorem tie_fmf_refuses (A : Mat m n α) : Gen.fmf_refuses ⟨A⟩ = Agg.fmfRefuses A := by
  simp only [Gen.fmf_refuses, Np.any_all, AnyAll.anyAll, Np.less_equal, HLe.le, Bc.zw, Truthy.t, id, Agg.fmfRefuses, Agg.anyNonPos]
end Skc.Tie
