import Skc.Generated.K.electre1_outrank
import Skc.Model.Electre
import Skc.Tie.concordance
import Skc.Tie.discordance
set_option linter.unusedSectionVars false
set_option linter.unusedSimpArgs false
/-! Tie: `electre1` of `skcriteria/agg/electre.py` (the outranking relation) regenerated from the source — with `concordance` / `discordance`
written out at the call sites — is the model's ELECTRE1. -/
namespace Skc.Tie
open Skc Skc.Np
variable {α : Type} [Field α] [LinearOrder α] [IsStrictOrderedRing α] [MathFns α]
variable {m n : Nat} [NeZero m] [NeZero n]

/-- the call sites written out by the translator are the two regenerated index matrices -/
theorem electre1_outrank_unfold (A : A2 m n α) (O W : A1 n α) (p q : A0 α) :
    Gen.electre1_outrank A O W p q =
      Np.logical_and (Np.less_equal p (Gen.concordance A O W)) (Np.less_equal (Gen.discordance A O) q) := rfl

theorem tie_electre1_outrank (A : Mat m n α) (o : Vec n Obj) (w : Vec n α) (p q : α) (a b : Fin m) :
    (Gen.electre1_outrank ⟨A⟩ ⟨fun j => (o j).sgn⟩ ⟨w⟩ ⟨p⟩ ⟨q⟩).v a b = Electre.electre1Outrank A o w p q a b := by
  rw [electre1_outrank_unfold]
  simp only [Np.logical_and, Np.less_equal, Bc.zw, HLe.le, Electre.electre1Outrank, Electre.outrankCell]
  rw [tie_concordance, tie_discordance]
  cases Electre.concordance A o w a b <;> cases Electre.discordance A o a b <;> simp
end Skc.Tie
