import Skc.Generated.K.refpoint
import Skc.Model.Evaluate
import Skc.Model.Scalers
import Skc.Model.Weighters
import Skc.Tie.Basic
set_option linter.unusedSectionVars false
set_option linter.unusedSimpArgs false
/-! Tie: the `refpoint` kernel regenerated from the source (ReferencePointMOORA score) is the model kernel the property theorems are about. -/
namespace Skc.Tie
open Skc Skc.Np
variable {α : Type} [Field α] [LinearOrder α] [IsStrictOrderedRing α] [MathFns α]
variable {m n : Nat} [NeZero m] [NeZero n]

theorem tie_refpoint (A : Mat m n α) (o : Vec n Obj) (w : Vec n α) :
    (Gen.refpoint ⟨A⟩ ⟨fun j => (o j).sgn⟩ ⟨w⟩).v = Agg.refpoint A o w := by
  funext i
  simp only [Gen.refpoint, Np.where, Np.equal, Np.max, Np.min, Np.abs, Np.multiply, Np.subtract, Np.squeeze, Np.asarray, Bc.zw,
    Red.red, Mp.mp, Truthy.t, EMul.emul, Agg.refpoint, Agg.referencePoint, Agg.colMax, Agg.colMin, id, sgn_eq_one, decide_eq_true_eq]
  first
    | done
    | rfl
    | (congr 1; funext j; by_cases h : o j = .max <;> simp [h, Obj.sgn])

/-- the code ranks this very score, in the direction the model's `evaluate` uses -/
theorem tie_refpoint_rank : Gen.refpoint_rank_reverse = Eval.Method.rev .refpoint ∧ Gen.refpoint_rank_of_result = true := by decide
end Skc.Tie
