import Skc.Generated.K.cenit
import Skc.Model.Evaluate
import Skc.Model.Scalers
import Skc.Model.Weighters
import Skc.Tie.Basic
set_option linter.unusedSectionVars false
set_option linter.unusedSimpArgs false
/-! Tie: the `cenit` kernel regenerated from the source (CenitDistanceMatrixScaler / CRITIC scaling) is the model kernel the property theorems are about. -/
namespace Skc.Tie
open Skc Skc.Np
variable {α : Type} [Field α] [LinearOrder α] [IsStrictOrderedRing α] [MathFns α]
variable {m n : Nat} [NeZero m] [NeZero n]

theorem tie_cenit (A : Mat m n α) (o : Vec n Obj) :
    (Gen.cenit ⟨A⟩ ⟨fun j => (o j).sgn⟩).v = Scalers.cenitScale A o := by
  funext i j
  simp only [Gen.cenit, Np.where, Np.equal, Np.max, Np.min, Np.subtract, Np.divide, Np.asarray, Bc.zw, Red.red, Truthy.t,
    Scalers.cenitScale, id, sgn_eq_one, decide_eq_true_eq]
end Skc.Tie
