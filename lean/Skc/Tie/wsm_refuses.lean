import Skc.Generated.K.wsm_refuses
import Skc.Model.Agg
import Skc.Tie.Basic
set_option linter.unusedSectionVars false
set_option linter.unusedSimpArgs false
/-! Tie: the refusals of `WeightedSumModel._evaluate_data` (the leading `if …: raise ValueError` statements, read from the source; the method
raises nowhere else and hands its arrays to `wsm` in the recorded order) are the model's `wsmRefuses`. -/
namespace Skc.Tie
open Skc Skc.Np
variable {α : Type} [Field α] [LinearOrder α] [IsStrictOrderedRing α] [MathFns α]
variable {m n : Nat} [NeZero m] [NeZero n]

theorem tie_wsm_refuses (A : Mat m n α) (o : Vec n Obj) :
    Gen.wsm_refuses ⟨A⟩ ⟨fun j => (o j).sgn⟩ = Agg.wsmRefuses A o := by
  simp only [Gen.wsm_refuses, Np.contains, Np.any_all, AnyAll.anyAll, Np.less, Bc.zw, Truthy.t, id, Agg.wsmRefuses, Agg.hasMin,
    Agg.anyNeg, sgn_eq_neg_one]
end Skc.Tie
