import Skc.Generated.K.fmf
import Skc.Model.Evaluate
import Skc.Tie.Basic
set_option linter.unusedSectionVars false
set_option linter.unusedSimpArgs false
/-! Tie: `fmf` of `skcriteria/agg/moora.py` (FullMultiplicativeForm score) regenerated from the source — including the two
`if … in objectives` branches and their constants `Aj = 1.0`, `Bj = 0.0` — is the model's `fmfCode`, i.e. the kernel *as coded*
(the known finding K2 is the difference between `fmfCode` and the published `fmfSpec` when there is no maximise criterion). -/
namespace Skc.Tie
open Skc Skc.Np
variable {α : Type} [Field α] [LinearOrder α] [IsStrictOrderedRing α] [MathFns α]
variable {m n : Nat} [NeZero m] [NeZero n]

theorem tie_fmf (A : Mat m n α) (o : Vec n Obj) (w : Vec n α) :
    (Gen.fmf ⟨A⟩ ⟨fun j => (o j).sgn⟩ ⟨w⟩).v = Agg.fmfCode A o w := by
  funext i
  simp only [Gen.fmf, Np.ite, IteB.ite, Np.contains, Np.take_cols, Np.sum_kept, Np.equal, Np.log, Np.multiply, Np.subtract, Bc.zw,
    Mp.mp, EMul.emul, Agg.fmfCode, sgn_eq_one, sgn_eq_neg_one, decide_eq_true_eq]
  split <;> split <;> rfl

/-- the code ranks this very score, in the direction the model's `evaluate` uses -/
theorem tie_fmf_rank : Gen.fmf_rank_reverse = Eval.Method.rev .fmf ∧ Gen.fmf_rank_of_result = true := by decide
end Skc.Tie
