import Skc.Generated.K.scale_by_sum_M
import Skc.Model.Evaluate
import Skc.Model.Scalers
import Skc.Model.Weighters
set_option linter.unusedSectionVars false
set_option linter.unusedSimpArgs false
/-! Tie: the `scale_by_sum_M` kernel regenerated from the source (SumScaler (matrix)) is the model kernel the property theorems are about. -/
namespace Skc.Tie
open Skc Skc.Np
variable {α : Type} [Add α] [Sub α] [Mul α] [Div α] [Neg α] [OfNat α 0] [OfNat α 1] [NatCast α] [LT α] [LE α] [Max α] [Min α]
  [DecidableEq α] [DecidableRel (α := α) (· < ·)] [DecidableRel (α := α) (· ≤ ·)] [MathFns α]
variable {m n : Nat} [NeZero m] [NeZero n]

theorem tie_scale_by_sum_M (A : Mat m n α) : (Gen.scale_by_sum_M ⟨A⟩).v = Scalers.scaleBySumM A := rfl
end Skc.Tie
