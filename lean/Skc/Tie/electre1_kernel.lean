import Skc.Generated.K.electre1_kernel
import Skc.Model.Electre
import Skc.Tie.concordance
import Skc.Tie.discordance
import Skc.Tie.electre1_outrank
import Skc.Generated.K.electre1_outrank
set_option linter.unusedSectionVars false
set_option linter.unusedSimpArgs false
/-! Tie: `electre1` of `skcriteria/agg/electre.py` (the kernel mask) regenerated from the source — with `concordance` / `discordance`
written out at the call sites — is the model's ELECTRE1. -/
namespace Skc.Tie
open Skc Skc.Np
variable {α : Type} [Field α] [LinearOrder α] [IsStrictOrderedRing α] [MathFns α]
variable {m n : Nat} [NeZero m] [NeZero n]

theorem electre1_kernel_unfold (A : A2 m n α) (O W : A1 n α) (p q : A0 α) :
    Gen.electre1_kernel A O W p q = Np.logical_not (Np.any .a0 (Gen.electre1_outrank A O W p q)) := rfl

theorem tie_electre1_kernel (A : Mat m n α) (o : Vec n Obj) (w : Vec n α) (p q : α) (b : Fin m) :
    (Gen.electre1_kernel ⟨A⟩ ⟨fun j => (o j).sgn⟩ ⟨w⟩ ⟨p⟩ ⟨q⟩).v b = Electre.electre1Kernel A o w p q b := by
  rw [electre1_kernel_unfold]
  simp only [Np.logical_not, Np.any, Red.red, Mp.mp, Truthy.t, id, Electre.electre1Kernel, tie_electre1_outrank]
end Skc.Tie
