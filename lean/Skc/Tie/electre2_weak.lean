import Skc.Generated.K.electre2_weak
import Skc.Generated.K.electre2_wor
import Skc.Tie.electre2_wor
import Skc.Tie.concordance
import Skc.Tie.discordance
set_option linter.unusedSectionVars false
set_option linter.unusedSimpArgs false
/-! Tie: the weak outranking relation of `electre2` (`skcriteria/agg/electre.py`), regenerated from the source, is the model's
`weakCell` of the concordance, the discordance and the weight comparison *as called* (`worCode`). -/
namespace Skc.Tie
open Skc Skc.Np
variable {α : Type} [Field α] [LinearOrder α] [IsStrictOrderedRing α] [MathFns α]
variable {m n : Nat} [NeZero m] [NeZero n]

theorem electre2_weak_unfold (A : A2 m n α) (O W : A1 n α) (p0 p1 p2 q0 q1 : A0 α) :
    Gen.electre2_weak A O W p0 p1 p2 q0 q1 =
      Np.logical_and (Np.logical_and (Np.less_equal p2 (Gen.concordance A O W)) (Np.less_equal (Gen.discordance A O) q0))
        (Gen.electre2_wor A O W p0 p1 p2 q0 q1) := rfl

theorem tie_electre2_weak (A : Mat m n α) (o : Vec n Obj) (w : Vec n α) (t : Electre.Thresholds α) (a b : Fin m) :
    (Gen.electre2_weak ⟨A⟩ ⟨fun j => (o j).sgn⟩ ⟨w⟩ ⟨t.p0⟩ ⟨t.p1⟩ ⟨t.p2⟩ ⟨t.q0⟩ ⟨t.q1⟩).v a b =
      Electre.weakCell (Electre.concordance A o w a b) (Electre.discordance A o a b) (Electre.worCode A o w a b) t := by
  rw [electre2_weak_unfold]
  simp only [Np.logical_and, Np.less_equal, Bc.zw, HLe.le, Electre.weakCell, Electre.outrankCell]
  rw [tie_concordance, tie_discordance, tie_electre2_wor]
  cases Electre.concordance A o w a b <;> cases Electre.discordance A o a b <;> simp
end Skc.Tie
