import Skc.Generated.K.discordance
import Skc.Model.Electre
import Skc.Tie.Basic
set_option linter.unusedSectionVars false
set_option linter.unusedSimpArgs false
/-! Tie: the `discordance` kernel regenerated from `skcriteria/agg/electre.py` (the row loop and the helper `_disc_row`
written out) is the model's discordance index; `none` is the NaN of the diagonal. -/
namespace Skc.Tie
open Skc Skc.Np
variable {α : Type} [Field α] [LinearOrder α] [IsStrictOrderedRing α] [MathFns α]
variable {m n : Nat} [NeZero m] [NeZero n]

theorem tie_discordance (A : Mat m n α) (o : Vec n Obj) (a b : Fin m) :
    (Gen.discordance ⟨A⟩ ⟨fun j => (o j).sgn⟩).v a b = Electre.discordance A o a b := by
  simp only [Gen.discordance, Np.map_rows, Np.fill_diagonal_nan, Np.tile, Np.shape0, Np.subtract, Np.logical_or, Np.logical_and,
    Np.equal, Np.less, Np.multiply, Np.divide, Np.abs, Np.max, Np.min, Np.asarray, Np.squeeze, Bc.zw, Red.red, Mp.mp, EMul.emul, Electre.discordance,
    Electre.maxRange]
  split
  · rfl
  · congr 2; funext j
    rw [← disc_mask_eq (o j) (A a j) (A b j)]
    congr!
end Skc.Tie
