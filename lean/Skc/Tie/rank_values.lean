import Skc.Generated.K.rank_values
import Skc.Model.Rank
import Skc.Tie.Basic
set_option linter.unusedSectionVars false
set_option linter.unusedSimpArgs false
/-! Tie: `rank_values` regenerated from `skcriteria/utils/rank.py` is the model's `rankValues` (dense ranking, the
`reverse` flag implemented by negating the scores first). -/
namespace Skc.Tie
open Skc Skc.Np
variable {α : Type} [Field α] [LinearOrder α] [IsStrictOrderedRing α] [MathFns α]
variable {n : Nat} [NeZero n]

theorem tie_rank_values (v : Vec n α) (reverse : Bool) :
    List.ofFn (Gen.rank_values ⟨v⟩ reverse).v = rankValues reverse (List.ofFn v) := by
  cases reverse <;>
    simp [Gen.rank_values, Np.rankdata_dense, Np.multiply, Bc.zw, EMul.emul, rankValues, denseRank, List.map_ofFn, Function.comp_def]
end Skc.Tie
