import Skc.Generated.K.scale_by_sum_V
import Skc.Model.Evaluate
import Skc.Model.Scalers
import Skc.Model.Weighters
set_option linter.unusedSectionVars false
set_option linter.unusedSimpArgs false
/-! Tie: the `scale_by_sum_V` kernel regenerated from the source (SumScaler (weights)) is the model kernel the property theorems are about. -/
namespace Skc.Tie
open Skc Skc.Np
variable {α : Type} [Add α] [Sub α] [Mul α] [Div α] [Neg α] [OfNat α 0] [OfNat α 1] [NatCast α] [LT α] [LE α] [Max α] [Min α]
  [DecidableEq α] [DecidableRel (α := α) (· < ·)] [DecidableRel (α := α) (· ≤ ·)] [MathFns α]
variable {m n : Nat} [NeZero m] [NeZero n]

theorem tie_scale_by_sum_V (w : Vec n α) : (Gen.scale_by_sum_V ⟨w⟩).v = Scalers.scaleBySumV w := rfl
end Skc.Tie
