import Skc.Generated.K.wsm
import Skc.Model.Evaluate
import Skc.Model.Scalers
import Skc.Model.Weighters
set_option linter.unusedSectionVars false
set_option linter.unusedSimpArgs false
/-! Tie: the `wsm` kernel regenerated from the source (WeightedSumModel score) is the model kernel the property theorems are about. -/
namespace Skc.Tie
open Skc Skc.Np
variable {α : Type} [Add α] [Sub α] [Mul α] [Div α] [Neg α] [OfNat α 0] [OfNat α 1] [NatCast α] [LT α] [LE α] [Max α] [Min α]
  [DecidableEq α] [DecidableRel (α := α) (· < ·)] [DecidableRel (α := α) (· ≤ ·)] [MathFns α]
variable {m n : Nat} [NeZero m] [NeZero n]

theorem tie_wsm (A : Mat m n α) (w : Vec n α) : (Gen.wsm ⟨A⟩ ⟨w⟩).v = Agg.wsm A w := rfl

/-- the code ranks this very score, in the direction the model's `evaluate` uses -/
theorem tie_wsm_rank : Gen.wsm_rank_reverse = Eval.Method.rev .wsm ∧ Gen.wsm_rank_of_result = true := by decide
end Skc.Tie
