import Skc.Generated.K.weights_outrank
import Skc.Model.Electre
import Skc.Tie.Basic
set_option linter.unusedSectionVars false
set_option linter.unusedSimpArgs false
/-! Tie: `weights_outrank(matrix, weights, objectives)` of `skcriteria/agg/electre.py`, regenerated from the source (the loop over
`combinations(range(len(matrix)), 2)` with its two stores), is the model's `worBody`: called with its parameters in the
documented order it is `worSpec`. -/
namespace Skc.Tie
open Skc Skc.Np
variable {α : Type} [Field α] [LinearOrder α] [IsStrictOrderedRing α] [MathFns α]
variable {m n : Nat} [NeZero m] [NeZero n]

/-- the regenerated function for ARBITRARY numeric arrays in the two vector parameters: the body of the model -/
theorem tie_weights_outrank_body (A : Mat m n α) (wv : Vec n α) (ov : Vec n α) (a b : Fin m) :
    (Gen.weights_outrank ⟨A⟩ ⟨wv⟩ ⟨ov⟩).v a b = Electre.worBody wv (fun j => decide (ov j = 1)) A a b := by
  simp only [Gen.weights_outrank, Np.pair_fill, Np.where, Np.equal, Np.less, Np.less_equal, Np.sum, Np.sum_all, SumAll.sumAll, Np.multiply, Bc.zw, Red.red,
    HLe.le, Truthy.t, EMul.emul, id, Electre.worBody]
  rcases lt_trichotomy a b with h | h | h
  · have hne : a ≠ b := ne_of_lt h
    simp only [h, if_true, hne, if_false]
    congr 1
  · subst h; simp
  · have hne : a ≠ b := (ne_of_lt h).symm
    have hnl : ¬ a < b := not_lt.mpr (le_of_lt h)
    simp only [hnl, if_false, h, if_true, hne]
    congr 1

/-- with the parameters in the documented order: the specified relation -/
theorem tie_weights_outrank (A : Mat m n α) (o : Vec n Obj) (w : Vec n α) (a b : Fin m) :
    (Gen.weights_outrank ⟨A⟩ ⟨w⟩ ⟨fun j => (o j).sgn⟩).v a b = Electre.worSpec A o w a b := by
  rw [tie_weights_outrank_body]; unfold Electre.worSpec
  simp only [sgn_eq_one]
end Skc.Tie
