import Skc.Generated.K.concordance
import Skc.Model.Electre
import Skc.Tie.Basic
set_option linter.unusedSectionVars false
set_option linter.unusedSimpArgs false
/-! Tie: the `concordance` kernel regenerated from `skcriteria/agg/electre.py` (the row loop and the helper `_conc_row`
written out) is the model's concordance index; `none` is the NaN of the diagonal. -/
namespace Skc.Tie
open Skc Skc.Np
variable {α : Type} [Field α] [LinearOrder α] [IsStrictOrderedRing α] [MathFns α]
variable {m n : Nat} [NeZero m] [NeZero n]

theorem tie_concordance (A : Mat m n α) (o : Vec n Obj) (w : Vec n α) (a b : Fin m) :
    (Gen.concordance ⟨A⟩ ⟨fun j => (o j).sgn⟩ ⟨w⟩).v a b = Electre.concordance A o w a b := by
  simp only [Gen.concordance, Np.map_rows, Np.fill_diagonal_nan, Np.tile, Np.shape0, Np.subtract, Np.logical_or, Np.logical_and,
    Np.equal, Np.less_equal, HLe.le, Np.multiply, Np.astype_int, Np.sum, Np.asarray, Np.squeeze, Bc.zw, Red.red, EMul.emul, Electre.concordance]
  split
  · rfl
  · congr 2; funext j
    rw [← conc_mask_eq (o j) (A a j) (A b j)]
    congr!
end Skc.Tie
