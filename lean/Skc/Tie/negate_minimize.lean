import Skc.Generated.K.negate_minimize
import Skc.Model.Scalers
import Skc.Tie.Basic
set_option linter.unusedSectionVars false
set_option linter.unusedSimpArgs false
/-! Tie: `_invert` of the Negate inverter (`skcriteria/preprocessing/invert_objectives.py`), regenerated from the source — the masked
column store `inv_mtx[:, minimize_mask] = …` included — is the model's `negateMinimize`; the mask is the one `_transform_data` hands over,
`objectives == MIN`. -/
namespace Skc.Tie
open Skc Skc.Np
variable {α : Type} [Field α] [LinearOrder α] [IsStrictOrderedRing α] [MathFns α]
variable {m n : Nat} [NeZero m] [NeZero n]

theorem tie_negate_minimize (A : Mat m n α) (o : Vec n Obj) :
    (Gen.negate_minimize ⟨A⟩ ⟨fun j => decide (o j = .min)⟩).v = Scalers.negateMinimize A o := by
  funext i j
  simp only [Gen.negate_minimize, Np.asarray, Np.set_cols, Np.take_cols, Np.negative, Np.divide, Bc.zw, Mp.mp, Scalers.negateMinimize, decide_eq_true_eq]
end Skc.Tie
