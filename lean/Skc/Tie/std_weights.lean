import Skc.Generated.K.std_weights
import Skc.Model.Evaluate
import Skc.Model.Scalers
import Skc.Model.Weighters
import Skc.Tie.Basic
import Skc.Proofs.Weighters
set_option linter.unusedSectionVars false
set_option linter.unusedSimpArgs false
/-! Tie: the `std_weights` kernel regenerated from the source (StdWeighter) is the model kernel the property theorems are about. -/
namespace Skc.Tie
open Skc Skc.Np
variable {α : Type} [Field α] [LinearOrder α] [IsStrictOrderedRing α] [MathFns α]
variable {m n : Nat} [NeZero m] [NeZero n]

theorem tie_std_weights (A : Mat m n α) : (Gen.std_weights ⟨A⟩).v = Weighters.stdWeights A := by
  funext j
  simp only [Gen.std_weights, Np.std, Np.sum, Np.sum_all, SumAll.sumAll, Np.divide, Bc.zw, Red.red, Weighters.stdWeights, Weighters.normSum, Weighters.colStd,
    Weighters.colMean, Weighters.tab_get]
end Skc.Tie
