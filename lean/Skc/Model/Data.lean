/-! # L-model: `skcriteria/core/data.py` (`DecisionMatrix`) and `core/objectives.py` (`Objective.from_alias`)

Import-free (core Lean only).  A decision matrix is the three parallel containers of the code:
the data frame (`alts` = index, `crits` = columns, `dts` = column dtypes, `cells` = rows),
`objs` (`_objectives`) and `wts` (`_weights`).

What is modelled, operation by operation, as the code is NOW (after the commits
`fix: column selection re-attaches objectives and weights by criterion label` and the repair of the
`(rows, single column)` form of `loc` / `iloc`, which is read off the KEY: a column Series becomes a
one-criterion frame with `to_frame()`, a row Series keeps `to_frame().T` + dtype restore):

* `DecisionMatrix.__getitem__` (`getitem`), `_Loc.__getitem__` for `loc` / `iloc` (`loc`, `iloc`):
  first pandas selects a frame (`Frame.take` on row / column *positions* resolved from the selector),
  a `Series` result is turned back into a frame (`to_frame()` / `to_frame().T` + `astype`), then the
  objectives and weights are re-attached **by the labels of the resulting columns**
  (`self.objectives.loc[df.columns]`, `attach`), then `DecisionMatrix.__init__` checks the lengths.
* the pre-fix re-attachment (an `isin` mask in *original* column order) is kept as `attach_v0`,
  `getitem_v0`, `loc_v0`, `iloc_v0` (the original code: both defects);
* the pre-fix handling of a column Series (`to_frame().T` for every Series) is kept as
  `colSeriesFrame_v0`, `loc_colseries_v0`, `iloc_colseries_v0` (the code between the two repairs).
* `copy`, `to_dict` (`toDict`), `from_mcda_data` / `mkdm` (`mkdm`).

pandas' selection semantics is the external part (validated by the correspondence check):
`df[label]` → column Series; `df[[…]]` columns in requested order; `df[i:j:k]` / `df['a':'b']` /
`df[mask]` rows; `loc` label slices inclusive, with the insertion-point fallback for a missing label on
a monotonic index; `iloc` negative positions; the order in which `loc` / `iloc` report errors of a
`(rows, cols)` pair; an empty list is a list of labels, never a mask.
Selections are only meaningful on matrices with unique labels (`DM.WF`). -/
namespace Skc.Data

inductive Obj | max | min
  deriving DecidableEq, Repr

inductive DType | int | float
  deriving DecidableEq, Repr

/-- the exception classes the code raises on a refused selection -/
inductive Err | keyError | indexError | valueError | attributeError
  deriving DecidableEq, Repr

def Err.name : Err → String
  | .keyError => "KeyError"
  | .indexError => "IndexError"
  | .valueError => "ValueError"
  | .attributeError => "AttributeError"

/-- value conversion of `astype(int64)` applied to a float: truncation toward zero -/
class Truncate (α : Type) where
  trunc : α → α

instance : Truncate Int := ⟨id⟩
instance : Truncate Rat := ⟨fun q => if 0 ≤ q then (q.floor : Rat) else (q.ceil : Rat)⟩

def castTo {α} [Truncate α] : DType → α → α
  | .int, x => Truncate.trunc x
  | .float, x => x

structure DM (α : Type) where
  alts  : List String
  crits : List String
  objs  : List Obj
  wts   : List α
  dts   : List DType
  cells : List (List α)      -- one row per alternative
  deriving DecidableEq, Repr

/-- well-formed: unique labels, one objective / weight / dtype per criterion, one row per
alternative, one cell per criterion in every row -/
def DM.WF {α} (d : DM α) : Prop :=
  d.crits.Nodup ∧ d.alts.Nodup ∧ d.objs.length = d.crits.length ∧ d.wts.length = d.crits.length ∧
  d.dts.length = d.crits.length ∧ d.cells.length = d.alts.length ∧ ∀ r ∈ d.cells, r.length = d.crits.length

instance {α} (d : DM α) : Decidable d.WF := by unfold DM.WF; infer_instance

/-! ## look-up by label (what `series.loc[label]` / `df.loc[a, c]` answer on unique labels) -/

def lookup {β} (keys : List String) (vals : List β) (k : String) : Option β :=
  if k ∈ keys then vals[keys.idxOf k]? else none

def objOf {α} (d : DM α) (c : String) : Option Obj := lookup d.crits d.objs c
def wtOf {α} (d : DM α) (c : String) : Option α := lookup d.crits d.wts c
def dtOf {α} (d : DM α) (c : String) : Option DType := lookup d.crits d.dts c
def rowOf {α} (d : DM α) (a : String) : Option (List α) := lookup d.alts d.cells a
def cellOf {α} (d : DM α) (a c : String) : Option α := (rowOf d a).bind fun r => lookup d.crits r c

/-! ## positional selection (`take`) -/

/-- the elements of `l` at the positions `ps`, in the order of `ps` -/
def gather {β} (l : List β) (ps : List Nat) : List β := ps.filterMap (l[·]?)

/-- `_data_df`: index, columns, column dtypes, rows -/
structure Frame (α : Type) where
  index   : List String
  columns : List String
  dtypes  : List DType
  rows    : List (List α)
  deriving DecidableEq, Repr

def DM.frame {α} (d : DM α) : Frame α := ⟨d.alts, d.crits, d.dts, d.cells⟩

/-- rows `rs` and columns `cs` (positions) of a frame, in the requested order; a column carries its dtype -/
def Frame.take {α} (f : Frame α) (rs cs : List Nat) : Frame α :=
  ⟨gather f.index rs, gather f.columns cs, gather f.dtypes cs, (gather f.rows rs).map (gather · cs)⟩

/-! ## `DecisionMatrix.__init__` and the re-attachment of objectives and weights -/

/-- `DecisionMatrix(df, objectives, weights)`: refuses when the three lengths differ -/
def DM.init {α} (f : Frame α) (o : List Obj) (w : List α) : Except Err (DM α) :=
  if f.columns.length = w.length ∧ w.length = o.length then
    .ok { alts := f.index, crits := f.columns, objs := o, wts := w, dts := f.dtypes, cells := f.rows }
  else .error .valueError

/-- the code now: `self.objectives.loc[df.columns]`, `self.weights.loc[df.columns]` — by label, in
the order of the resulting columns; an unknown label is a `KeyError` -/
def attach {α} (d : DM α) (f : Frame α) : Except Err (DM α) :=
  match f.columns.mapM (objOf d), f.columns.mapM (wtOf d) with
  | some o, some w => DM.init f o w
  | _, _ => .error .keyError

/-- entries of `l` where the mask is true, in the order of `l` -/
def keepMask {β} : List β → List Bool → List β
  | x :: xs, b :: bs => if b then x :: keepMask xs bs else keepMask xs bs
  | _, _ => []

/-- the code before the fix: `objectives[objectives.index.isin(df.columns)]` — a membership mask,
hence in *original* criterion order whatever order the selection asked for -/
def attach_v0 {α} (d : DM α) (f : Frame α) : Except Err (DM α) :=
  let m := d.crits.map (f.columns.contains ·)
  DM.init f (keepMask d.objs m) (keepMask d.wts m)

/-! ## Series results: `to_frame()` (+ `.T`) and the dtype restore -/

/-- a row Series has one dtype: float as soon as one selected column is float -/
def upcast (ts : List DType) : List DType :=
  if ts.any (· == .float) then ts.map (fun _ => .float) else ts

/-- `dtypes[dtypes.index.isin(df.columns)]` then `df.astype(dtypes)`: every column whose label is a
criterion of the source gets that criterion's dtype back, the others keep theirs -/
def restore {α} (d : DM α) (cols : List String) (cur : List DType) : List DType :=
  List.zipWith (fun c t => (dtOf d c).getD t) cols cur

/-- `dm[c]`: a column Series, `to_frame()`, `astype` -/
def colFrame {α} (d : DM α) (rs cs : List Nat) : Frame α :=
  let f := d.frame.take rs cs
  { f with dtypes := restore d f.columns f.dtypes }

/-- `loc[a]`, `loc[a, cols]`: a row Series (upcast), `to_frame().T`, `astype` (values of integer
columns come back unchanged: integers below 2^53 survive the trip through float64) -/
def rowSeriesFrame {α} (d : DM α) (rs cs : List Nat) : Frame α :=
  let f := d.frame.take rs cs
  { f with dtypes := restore d f.columns (upcast f.dtypes) }

/-- `loc[rows, c]` / `iloc[rows, j]` now: the key says the Series is a *column*; `to_frame()` gives a
frame with that one criterion, the selected alternatives as rows, dtype kept -/
def colSeriesFrame {α} (d : DM α) (rs cs : List Nat) : Frame α := d.frame.take rs cs

/-- before the repair: a *column* Series went through the same `to_frame().T` as a row Series: the
frame has ONE row labelled with the criterion and one column per selected alternative; `astype` then
casts every column whose label happens to be a criterion label to that criterion's dtype -/
def colSeriesFrame_v0 {α} [Truncate α] (d : DM α) (rs cs : List Nat) : Frame α :=
  let f := d.frame.take rs cs
  let vals := f.rows.filterMap (·.head?)
  let cur := f.index.map fun _ => f.dtypes.headD .float
  { index := f.columns, columns := f.index, dtypes := restore d f.index cur,
    rows := [List.zipWith (fun a v => match dtOf d a with | some t => castTo t v | none => v) f.index vals] }

/-- the common tail of `loc` / `iloc` once the selectors are resolved to positions
(`transposeCol = true`: the handling of a column Series before its repair) -/
def finish {α} [Truncate α] (att : DM α → Frame α → Except Err (DM α)) (transposeCol : Bool) (d : DM α)
    (rowOne colOne : Bool) (rs cs : List Nat) : Except Err (DM α) :=
  if rowOne && colOne then .error .attributeError       -- a scalar has no `.columns`
  else if rowOne then att d (rowSeriesFrame d rs cs)
  else if colOne then att d (if transposeCol then colSeriesFrame_v0 d rs cs else colSeriesFrame d rs cs)
  else att d (d.frame.take rs cs)

/-! ## selectors → positions (pandas) -/

/-- positions `i < n` with `lo ≤ i < hi`, ascending -/
def interval (n lo hi : Nat) : List Nat := (List.range n).filter fun i => lo ≤ i && i < hi

/-- Python `range(*slice(a, b, k).indices(n))` for `k ≠ 0` -/
def pySlice (n : Nat) (a b : Option Int) (k : Int) : List Nat :=
  let N : Int := n
  if 0 < k then
    let clamp (v : Int) : Int := if v < 0 then max (v + N) 0 else min v N
    let lo := match a with | none => 0 | some v => clamp v
    let hi := match b with | none => N | some v => clamp v
    (List.range n).filter fun (i : Nat) => lo ≤ (i : Int) && (i : Int) < hi && ((i : Int) - lo) % k == 0
  else
    let clamp (v : Int) : Int := if v < 0 then max (v + N) (-1) else min v (N - 1)
    let s := match a with | none => N - 1 | some v => clamp v
    let e := match b with | none => -1 | some v => clamp v
    ((List.range n).filter fun (i : Nat) => e < (i : Int) && (i : Int) ≤ s && (s - (i : Int)) % (-k) == 0).reverse

/-- positions where the mask is true -/
def maskPos : List Bool → Nat → List Nat
  | [], _ => []
  | b :: bs, i => if b then i :: maskPos bs (i + 1) else maskPos bs (i + 1)

def sortedInc : List String → Bool
  | [] => true
  | [_] => true
  | a :: b :: t => decide (a < b) && sortedInc (b :: t)

def sortedDec : List String → Bool
  | [] => true
  | [_] => true
  | a :: b :: t => decide (b < a) && sortedDec (b :: t)

/-- `Index.get_slice_bound`: the position of a present label (`+1` on the right side: label slices
are inclusive); a missing label is located by its insertion point when the index is monotonic,
otherwise `KeyError` -/
def sliceBound (labels : List String) (l : String) (right : Bool) : Except Err Nat :=
  if l ∈ labels then .ok (labels.idxOf l + (if right then 1 else 0))
  else if sortedInc labels then .ok (labels.filter (· < l)).length
  else if sortedDec labels then .ok (labels.filter (l < ·)).length
  else .error .keyError

def sliceBound? (labels : List String) (dflt : Nat) (right : Bool) : Option String → Except Err Nat
  | none => .ok dflt
  | some l => sliceBound labels l right

def labelSlice (labels : List String) (a b : Option String) : Except Err (List Nat) :=
  match sliceBound? labels 0 false a with
  | .error e => .error e
  | .ok lo =>
    match sliceBound? labels labels.length true b with
    | .error e => .error e
    | .ok hi => .ok (interval labels.length lo hi)

/-- label based selector of one axis (`loc`) -/
inductive LSel
  | one (l : String)
  | many (ls : List String)
  | slice (a b : Option String)
  | mask (bs : List Bool)
  | all
  deriving DecidableEq, Repr

/-- position based selector of one axis (`iloc`) -/
inductive ISel
  | one (i : Int)
  | many (is : List Int)
  | slice (a b : Option Int) (step : Option Int)
  | mask (bs : List Bool)
  | all
  deriving DecidableEq, Repr

def LSel.isOne : LSel → Bool
  | .one _ => true
  | _ => false

def ISel.isOne : ISel → Bool
  | .one _ => true
  | _ => false

def LSel.resolve (labels : List String) : LSel → Except Err (List Nat)
  | .one l => if l ∈ labels then .ok [labels.idxOf l] else .error .keyError
  | .many ls => if ls.all (· ∈ labels) then .ok (ls.map (labels.idxOf ·)) else .error .keyError
  | .slice a b => labelSlice labels a b
  | .mask [] => .ok []                      -- `[]` is an empty list of labels
  | .mask bs => if bs.length = labels.length then .ok (maskPos bs 0) else .error .indexError
  | .all => .ok (List.range labels.length)

/-- a possibly negative position -/
def normIdx (n : Nat) (i : Int) : Option Nat :=
  if 0 ≤ i then (if i < (n : Int) then some i.toNat else none)
  else (if -(n : Int) ≤ i then some (i + n).toNat else none)

def ISel.resolve (n : Nat) : ISel → Except Err (List Nat)
  | .one i => match normIdx n i with | some p => .ok [p] | none => .error .indexError
  | .many is => match is.mapM (normIdx n) with | some ps => .ok ps | none => .error .indexError
  | .slice a b step =>
    let k := step.getD 1
    if k = 0 then .error .valueError else .ok (pySlice n a b k)
  | .mask [] => .ok []
  | .mask bs => if bs.length = n then .ok (maskPos bs 0) else .error .indexError
  | .all => .ok (List.range n)

/-- what `dm[...]` accepts -/
inductive GSel
  | col (c : String)                          -- `dm['C1']`
  | cols (cs : List String)                   -- `dm[['C2', 'C0']]`
  | rows (a b : Option Int) (step : Option Int)   -- `dm[1:3]`, `dm[::-1]`
  | rowsL (a b : Option String)               -- `dm['A1':'A3']` (inclusive)
  | mask (bs : List Bool)                     -- `dm[[True, False, True]]`
  deriving DecidableEq, Repr

/-! ## the three selection operations -/

def getitemWith {α} (att : DM α → Frame α → Except Err (DM α)) (d : DM α) : GSel → Except Err (DM α)
  | .col c =>
    match (LSel.one c).resolve d.crits with
    | .error e => .error e
    | .ok cs => att d (colFrame d (List.range d.alts.length) cs)
  | .cols cs =>
    match (LSel.many cs).resolve d.crits with
    | .error e => .error e
    | .ok ps => att d (d.frame.take (List.range d.alts.length) ps)
  | .rows a b step =>
    match (ISel.slice a b step).resolve d.alts.length with
    | .error e => .error e
    | .ok rs => att d (d.frame.take rs (List.range d.crits.length))
  | .rowsL a b =>
    match (LSel.slice a b).resolve d.alts with
    | .error e => .error e
    | .ok rs => att d (d.frame.take rs (List.range d.crits.length))
  | .mask [] => att d (d.frame.take (List.range d.alts.length) [])     -- `dm[[]]`: an empty column list
  | .mask bs =>
    if bs.length = d.alts.length then att d (d.frame.take (maskPos bs 0) (List.range d.crits.length))
    else .error .valueError                  -- "Item wrong length"

/-- `loc[rows]` / `loc[rows, cols]`: pandas reports a column error before a row error -/
def locWith {α} [Truncate α] (att : DM α → Frame α → Except Err (DM α)) (tc : Bool) (d : DM α) (r : LSel) (c : Option LSel) :
    Except Err (DM α) :=
  match (c.getD .all).resolve d.crits with
  | .error e => .error e
  | .ok cs =>
    match r.resolve d.alts with
    | .error e => .error e
    | .ok rs => finish att tc d r.isOne ((c.getD .all).isOne) rs cs

/-- `iloc[rows]` / `iloc[rows, cols]`: both axes are validated (`IndexError`) before anything is
sliced (`ValueError` for a zero step) -/
def ilocWith {α} [Truncate α] (att : DM α → Frame α → Except Err (DM α)) (tc : Bool) (d : DM α) (r : ISel) (c : Option ISel) :
    Except Err (DM α) :=
  match (c.getD .all).resolve d.crits.length, r.resolve d.alts.length with
  | .error .indexError, _ => .error .indexError
  | _, .error .indexError => .error .indexError
  | .error e, _ => .error e
  | _, .error e => .error e
  | .ok cs, .ok rs => finish att tc d r.isOne ((c.getD .all).isOne) rs cs

def getitem {α} (d : DM α) (s : GSel) : Except Err (DM α) := getitemWith attach d s
def loc {α} [Truncate α] (d : DM α) (r : LSel) (c : Option LSel) : Except Err (DM α) := locWith attach false d r c
def iloc {α} [Truncate α] (d : DM α) (r : ISel) (c : Option ISel) : Except Err (DM α) := ilocWith attach false d r c

def getitem_v0 {α} (d : DM α) (s : GSel) : Except Err (DM α) := getitemWith attach_v0 d s
def loc_v0 {α} [Truncate α] (d : DM α) (r : LSel) (c : Option LSel) : Except Err (DM α) := locWith attach_v0 true d r c
def iloc_v0 {α} [Truncate α] (d : DM α) (r : ISel) (c : Option ISel) : Except Err (DM α) := ilocWith attach_v0 true d r c

/-- the code between the two repairs: labels re-attached correctly, column Series still transposed -/
def loc_colseries_v0 {α} [Truncate α] (d : DM α) (r : LSel) (c : Option LSel) : Except Err (DM α) :=
  locWith attach true d r c
def iloc_colseries_v0 {α} [Truncate α] (d : DM α) (r : ISel) (c : Option ISel) : Except Err (DM α) :=
  ilocWith attach true d r c

/-! ## `to_dict`, `from_mcda_data` / `mkdm`, `copy` -/

def Obj.toInt : Obj → Int
  | .max => 1
  | .min => -1

def Obj.ofInt? : Int → Option Obj
  | 1 => some .max
  | -1 => some .min
  | _ => none

/-- `dm.to_dict()`; `ncols` is the second component of `np.shape(matrix)` (a 0-row array still
knows its number of columns) -/
structure Dict (α : Type) where
  matrix : List (List α)
  ncols : Nat
  objectives : List Int
  weights : List α
  dtypes : List DType
  alternatives : List String
  criteria : List String
  deriving DecidableEq, Repr

def toDict {α} (d : DM α) : Dict α :=
  { matrix := d.cells, ncols := d.crits.length, objectives := d.objs.map Obj.toInt, weights := d.wts,
    dtypes := d.dts, alternatives := d.alts, criteria := d.crits }

/-- `from_mcda_data(matrix, objectives, weights=, alternatives=, criteria=, dtypes=)`: every part is
placed positionally; the lengths are checked against `np.shape(matrix)`; `astype` sets the dtypes;
(an objective that is no alias is refused here, the code refuses it on first use) -/
def mkdm {α} (x : Dict α) : Except Err (DM α) :=
  if ¬ (x.matrix.all (·.length == x.ncols)) then .error .valueError
  else if x.alternatives.length ≠ x.matrix.length then .error .valueError
  else if x.criteria.length ≠ x.ncols then .error .valueError
  else if x.dtypes.length ≠ x.ncols then .error .valueError
  else match x.objectives.mapM Obj.ofInt? with
    | none => .error .valueError
    | some o => DM.init ⟨x.alternatives, x.criteria, x.dtypes, x.matrix⟩ o x.weights

/-- `dm.copy()` = `from_mcda_data(**dm.to_dict())` -/
def copy {α} (d : DM α) : Except Err (DM α) := mkdm (toDict d)

/-! ## chains -/

inductive Step
  | getitem (s : GSel)
  | loc (r : LSel) (c : Option LSel)
  | iloc (r : ISel) (c : Option ISel)
  | copy
  | roundtrip                               -- `mkdm(**dm.to_dict())`
  deriving DecidableEq, Repr

def Step.run {α} [Truncate α] (d : DM α) : Step → Except Err (DM α)
  | .getitem s => Data.getitem d s
  | .loc r c => Data.loc d r c
  | .iloc r c => Data.iloc d r c
  | .copy => Data.copy d
  | .roundtrip => mkdm (toDict d)

/-- the original code (both defects) -/
def Step.run_v0 {α} [Truncate α] (d : DM α) : Step → Except Err (DM α)
  | .getitem s => Data.getitem_v0 d s
  | .loc r c => Data.loc_v0 d r c
  | .iloc r c => Data.iloc_v0 d r c
  | .copy => Data.copy d
  | .roundtrip => mkdm (toDict d)

/-- the code between the two repairs -/
def Step.run_v1 {α} [Truncate α] (d : DM α) : Step → Except Err (DM α)
  | .loc r c => Data.loc_colseries_v0 d r c
  | .iloc r c => Data.iloc_colseries_v0 d r c
  | s => s.run d

/-- apply the steps from left to right; the first refusal ends the chain -/
def runChain {α} [Truncate α] (d : DM α) : List Step → Except Err (DM α)
  | [] => .ok d
  | s :: ss => match s.run d with
    | .error e => .error e
    | .ok d' => runChain d' ss

/-- the outcome of every link (for the driver); `version` 0 = original code, 1 = between the two
repairs, anything else = the code as it is now -/
def runTrace {α} [Truncate α] (version : Nat) (d : DM α) : List Step → List (Except Err (DM α))
  | [] => []
  | s :: ss => match (match version with | 0 => s.run_v0 d | 1 => s.run_v1 d | _ => s.run d) with
    | .error e => [.error e]
    | .ok d' => .ok d' :: runTrace version d' ss

/-! ## vocabulary of the property statements (specification side; nothing below is run by the code's model)

`SubView d' d`: `d'` is well formed, lists only alternatives / criteria of `d`, and every criterion
of `d'` has — looked up BY LABEL in `d` — its own objective, weight, dtype and, for every
alternative of `d'`, its own cell. -/

def SubView {α} (d' d : DM α) : Prop :=
  d'.WF ∧ (∀ a ∈ d'.alts, a ∈ d.alts) ∧ (∀ c ∈ d'.crits, c ∈ d.crits) ∧
  ∀ c ∈ d'.crits, objOf d' c = objOf d c ∧ wtOf d' c = wtOf d c ∧ dtOf d' c = dtOf d c ∧
    ∀ a ∈ d'.alts, cellOf d' a c = cellOf d a c

instance {α} [DecidableEq α] (d' d : DM α) : Decidable (SubView d' d) := by unfold SubView; infer_instance

/-- the labels a label selector asks for, in the order it asks for them -/
def LSel.requested (labels : List String) : LSel → List String
  | .one l => [l]
  | .many ls => ls
  | .slice a b => match labelSlice labels a b with
    | .ok ps => gather labels ps
    | .error _ => []
  | .mask bs => keepMask labels bs
  | .all => labels

/-- the labels a positional selector asks for, in the order it asks for them -/
def ISel.requested (labels : List String) : ISel → List String
  | .one i => (normIdx labels.length i).toList.filterMap (labels[·]?)
  | .many is => is.filterMap fun i => (normIdx labels.length i).bind (labels[·]?)
  | .slice a b step => gather labels (pySlice labels.length a b (step.getD 1))
  | .mask bs => keepMask labels bs
  | .all => labels

/-- no label / position is asked for twice (the selection names a *subset*) -/
def LSel.Distinct : LSel → Prop
  | .many ls => ls.Nodup
  | _ => True

def ISel.Distinct (n : Nat) : ISel → Prop
  | .many is => (is.map (normIdx n)).Nodup
  | _ => True

instance : (s : LSel) → Decidable s.Distinct
  | .many ls => by unfold LSel.Distinct; infer_instance
  | .one _ | .slice _ _ | .mask _ | .all => isTrue trivial

instance (n : Nat) : (s : ISel) → Decidable (s.Distinct n)
  | .many is => by unfold ISel.Distinct; infer_instance
  | .one _ | .slice _ _ _ | .mask _ | .all => isTrue trivial

def GSel.requestedCrits (crits : List String) : GSel → List String
  | .col c => [c]
  | .cols cs => cs
  | .mask [] => []
  | _ => crits

def GSel.requestedAlts (alts : List String) : GSel → List String
  | .rows a b step => (ISel.slice a b step).requested alts
  | .rowsL a b => (LSel.slice a b).requested alts
  | .mask [] => alts
  | .mask bs => keepMask alts bs
  | _ => alts

def GSel.Distinct : GSel → Prop
  | .cols cs => cs.Nodup
  | _ => True

instance : (s : GSel) → Decidable s.Distinct
  | .cols cs => by unfold GSel.Distinct; infer_instance
  | .col _ | .rows _ _ _ | .rowsL _ _ | .mask _ => isTrue trivial

def Step.requestedAlts {α} (d : DM α) : Step → List String
  | .getitem s => s.requestedAlts d.alts
  | .loc r _ => r.requested d.alts
  | .iloc r _ => r.requested d.alts
  | _ => d.alts

def Step.requestedCrits {α} (d : DM α) : Step → List String
  | .getitem s => s.requestedCrits d.crits
  | .loc _ c => (c.getD .all).requested d.crits
  | .iloc _ c => (c.getD .all).requested d.crits
  | _ => d.crits

/-- a selection inside the property's quantifier: every label / position at most once (a subset,
in any order) -/
def Step.Admissible {α} (d : DM α) : Step → Prop
  | .getitem s => s.Distinct
  | .loc r c => r.Distinct ∧ (c.getD .all).Distinct
  | .iloc r c => r.Distinct d.alts.length ∧ (c.getD .all).Distinct d.crits.length
  | _ => True

instance {α} (d : DM α) : (s : Step) → Decidable (s.Admissible d)
  | .getitem _ | .loc _ _ | .iloc _ _ => by unfold Step.Admissible; infer_instance
  | .copy | .roundtrip => isTrue trivial

/-- every link of the chain is admissible for the matrix it is applied to -/
def ChainOK {α} [Truncate α] : DM α → List Step → Prop
  | _, [] => True
  | d, s :: ss => s.Admissible d ∧ (match s.run d with
    | .ok d' => ChainOK d' ss
    | .error _ => True)

instance instDecidableChainOK {α} [Truncate α] : (ops : List Step) → (d : DM α) → Decidable (ChainOK d ops)
  | [], _ => isTrue trivial
  | s :: ss, d =>
    match h : s.run d with
    | .ok d' =>
      have := instDecidableChainOK ss d'
      decidable_of_iff (s.Admissible d ∧ ChainOK d' ss) (by simp [ChainOK, h])
    | .error _ => decidable_of_iff (s.Admissible d) (by simp [ChainOK, h])

/-! ## objective aliases (`Objective.from_alias`) -/

/-- an alias as a literal: an integer, a string, or a callable named `module.__name__` -/
inductive AliasKey
  | int (i : Int)
  | str (s : String)
  | fn (name : String)
  deriving DecidableEq, Repr

structure Alias where
  key : AliasKey
  sense : Obj
  deriving DecidableEq, Repr

/-- `from_alias` after the lower-casing step: `_MAX_ALIASES` is consulted first, then `_MIN_ALIASES`;
anything else is a `ValueError` (`none`) -/
def fromAliasIn (maxAliases minAliases : List AliasKey) (k : AliasKey) : Option Obj :=
  if k ∈ maxAliases then some .max else if k ∈ minAliases then some .min else none

end Skc.Data
