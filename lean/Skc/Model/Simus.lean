import Skc.Model.Num
import Skc.Model.Rank
/-! # L-model: SIMUS (`skcriteria/agg/simus.py`, `skcriteria/utils/lp.py::_LPBase.solve`,
`preprocessing/scalers.py::scale_by_sum`)

Import-free (core Lean only).  A decision matrix with `m` alternatives and `k+1` criteria is
`A : Mat m (k+1) α`; `transposed_matrix[c][i] = A i c`.  The LP solver itself (CBC through PuLP) is
external: the model describes the program handed to it (`stageLP`), the order in which `solve()`
reports the variable values (`reportedOrder`, pre-fix `reportedOrder_v0`), what is computed from the
reported values (`stageRows`, `method1`, `method2`, `dominance`, `titaP`, `titaD`, `simusRank`) and an
executable checker of optimality certificates (`certCheck`) that `Skc.C09.cert_sound` proves sound. -/
namespace Skc.Simus
open Skc

/-- sense of a constraint: `left <= right` / `left >= right` -/
inductive Rel | le | ge
  deriving DecidableEq, Repr, Inhabited

/-- what `lp.Maximize(z=…)/lp.Minimize(z=…).subject_to(…)` holds: `k` constraint rows over `m`
variables, every variable declared `lp.Float(f"x{idx}", low=0)` (lower bound `0`, no upper bound) -/
structure LP (k m : Nat) (α : Type) where
  /-- `lp.Maximize` / `lp.Minimize` -/
  sense : Obj
  /-- objective coefficients -/
  c : Vec m α
  /-- constraint coefficients, one row per constraint -/
  A : Mat k m α
  /-- constraint senses -/
  rel : Vec k Rel
  /-- right-hand sides -/
  b : Vec k α

/-! ## stage construction (`simus`, `_make_and_run_stage`) -/

/-- the criterion of the `r`-th constraint of stage `z`:
`for idx in range(n): if idx == z_index: continue` -/
def otherCrit {k : Nat} (z : Fin (k + 1)) (r : Fin k) : Fin (k + 1) :=
  if r.val < z.val then r.castSucc else r.succ

/-- `(left >= right) if senses[idx] == MIN else (left <= right)` -/
def relOf : Obj → Rel
  | .min => .ge
  | .max => .le

section build
variable {α : Type} [Max α] [Min α] {m n k : Nat}

/-- `auto_b = np.where(objectives == MIN, mins, maxs)` with `mins/maxs = np.min/np.max(transposed, axis=1)` -/
def autoB [NeZero m] (A : Mat m n α) (o : Vec n Obj) : Vec n α := fun c =>
  match o c with
  | .min => minFin fun i => A i c
  | .max => maxFin fun i => A i c

/-- `b = np.where(b != None, b, auto_b)` (`b=None` as a whole is the all-`None` vector) -/
def fillB (b : Vec n (Option α)) (auto : Vec n α) : Vec n α := fun c => (b c).getD (auto c)

/-- the program of stage `z` -/
def stageLP [NeZero m] (A : Mat m (k + 1) α) (o : Vec (k + 1) Obj) (b : Vec (k + 1) (Option α))
    (z : Fin (k + 1)) : LP k m α where
  sense := o z
  c := fun i => A i z
  A := fun r i => A i (otherCrit z r)
  rel := fun r => relOf (o (otherCrit z r))
  b := fun r => fillB b (autoB A o) (otherCrit z r)
end build

/-! ## the order in which `solve()` reports the variables -/

def digitsAux : Nat → Nat → List Nat → List Nat
  | 0, _, acc => acc
  | fuel + 1, n, acc => if n < 10 then n :: acc else digitsAux fuel (n / 10) (n % 10 :: acc)
/-- decimal digits, most significant first: the name `"x{idx}"` without its common prefix `x`
(which does not affect the order; `'0' < … < '9'` in code-point order) -/
def digits (n : Nat) : List Nat := digitsAux (n + 1) n []

/-- lexicographic `≤` on digit strings (a proper prefix is smaller): Python's `str` comparison -/
def lexLe : List Nat → List Nat → Bool
  | [], _ => true
  | _ :: _, [] => false
  | a :: as, b :: bs => if a < b then true else if b < a then false else lexLe as bs

def insertBy {β : Type} (le : β → β → Bool) (x : β) : List β → List β
  | [] => [x]
  | y :: t => if le x y then x :: y :: t else y :: insertBy le x t
/-- structural insertion sort (so that `decide` reduces it) -/
def isort {β : Type} (le : β → β → Bool) : List β → List β
  | [] => []
  | x :: t => insertBy le x (isort le t)

/-- PRE-FIX `solve()`: `for v in problem.variables()` — PuLP sorts the variables by name, so the
`p`-th reported value is the value of the variable whose *name* is `p`-th in lexicographic order.
`(reportedOrder_v0 n)[p]` is the index of the alternative whose value lands at position `p`. -/
def reportedOrder_v0 (n : Nat) : List Nat :=
  (isort (fun a b => lexLe a.1 b.1) ((List.range n).map fun i => (digits i, i))).map (·.2)

/-- `solve()` as it is now: variables in the order of their first appearance in the objective and
the constraints, i.e. declaration order `x0, x1, …` -/
def reportedOrder (n : Nat) : List Nat := List.range n

/-- `lp_values` given the solver's assignment (`sol i` = value of `x{i}`) -/
def lpValues {α : Type} (order : List Nat) (sol : Nat → α) : List α := order.map sol

/-! ### the by-name read-back of the repaired `solve()`, operation by operation -/

/-- `f"x{idx}"` -/
def varName (i : Nat) : String := "x" ++ Nat.repr i

/-- `for name in names: in_order.setdefault(name, v)` — an insertion-ordered dict keeps the position
of the first occurrence of every key -/
def inOrder : List String → List String → List String
  | acc, [] => acc
  | acc, s :: t => inOrder (if s ∈ acc then acc else acc ++ [s]) t

/-- the names `solve()` walks through: the objective, every constraint (each built as
`sum(c * x for c, x in zip(coefficients, xs))`, all coefficients non-zero), then
`problem.variables()` (name order) -/
def visitedNames (m nCons : Nat) : List String :=
  let names := (List.range m).map varName
  names ++ (List.replicate nCons names).flatten ++ (reportedOrder_v0 m).map varName

/-- `lp_variables` of the repaired `solve()` -/
def reportedNames (m nCons : Nat) : List String := inOrder [] (visitedNames m nCons)

/-- `lp_values` of the repaired `solve()`: `[v.varValue for v in in_order.values()]`, `byName` being
the solver's assignment read through the variable *names* -/
def lpValuesByName {α : Type} (byName : String → α) (m nCons : Nat) : List α :=
  (reportedNames m nCons).map byName

/-! ## post-processing (`_solve_stages`, `_first_method`, `_second_method`, `simus`) -/
section post
variable {α : Type} [Add α] [Sub α] [Mul α] [Div α] [OfNat α 0] [LT α] [NatCast α]
  [DecidableEq α] [DecidableRel (α := α) (· < ·)] {n m : Nat}

/-- `scale_by_sum(arr_result, axis=1)` followed by `stages_result[np.isnan(stages_result)] = 0`:
each row divided by its sum; where the sum is `0` the quotient `0/0 = NaN` becomes `0`
(a row of non-negative values with sum `0` is all zeros) -/
def stageRows (V : Mat n m α) : Mat n m α := fun z i =>
  if sumFin (V z) = 0 then 0 else V z i / sumFin (V z)

/-- the code yields `±inf` (not `0`) at a non-zero entry of a row whose sum is `0`; outside the
property's domain (`x ≥ 0`), flagged by the driver -/
def nonFinite (V : Mat n m α) : Bool :=
  anyFin fun z => decide (sumFin (V z) = 0) && anyFin fun i => !decide (V z i = 0)

/-- `_first_method`: `sp = sum(axis=0)`, `q = sum(stages_results > 0, axis=0)`,
`fp = q / len(stages_results)`, `vp = sp * fp` -/
def method1 (S : Mat n m α) : Vec m α := fun j =>
  (sumFin fun z => S z j) * (((countFin fun z => decide (0 < S z j) : Nat) : α) / ((n : Nat) : α))

/-- `_calculate_dominance_by_criteria`: `crit_A - crit_B` with negative entries set to `0`;
entry `(a, b)` is `crit[a] - crit[b]` -/
def domByCrit (crit : Vec m α) : Mat m m α := fun a b =>
  if crit a - crit b < 0 then 0 else crit a - crit b

/-- `dominance = np.sum(dominance_by_criteria, axis=0)` -/
def dominance (S : Mat n m α) : Mat m m α := fun a b => sumFin fun z => domByCrit (S z) a b

/-- `tita_j_p = np.sum(dominance, axis=1)` (row sums) -/
def titaP (S : Mat n m α) : Vec m α := fun a => sumFin fun b => dominance S a b

/-- `tita_j_d = np.sum(dominance, axis=0)` (column sums) -/
def titaD (S : Mat n m α) : Vec m α := fun b => sumFin fun a => dominance S a b

/-- `score = tita_j_p - tita_j_d` -/
def method2 (S : Mat n m α) : Vec m α := fun j => titaP S j - titaD S j

/-- `score = [method_1_score, method_2_score][rank_by - 1]` -/
def simusScore (by2 : Bool) (S : Mat n m α) : Vec m α := if by2 then method2 S else method1 S

/-- `rank.rank_values(score, reverse=True)` -/
def simusRank [Neg α] (by2 : Bool) (S : Mat n m α) : List Nat :=
  rankValues true (List.ofFn (simusScore by2 S))
end post

/-! ## optimality certificates -/
section cert
variable {α : Type} [Add α] [Mul α] [OfNat α 0] [LE α] [DecidableRel (α := α) (· ≤ ·)] {k m : Nat}

/-- `Σ_i u_i v_i` -/
def dot (u v : Vec m α) : α := sumFin fun i => u i * v i

/-- constraint `r` holds at `x` within `ε` -/
def rowOK (P : LP k m α) (x : Vec m α) (ε : α) (r : Fin k) : Bool :=
  match P.rel r with
  | .le => decide (dot (P.A r) x ≤ P.b r + ε)
  | .ge => decide (P.b r ≤ dot (P.A r) x + ε)

/-- primal feasibility within `ε`: `x_i ≥ -ε` and every constraint within `ε` -/
def primalOK (P : LP k m α) (x : Vec m α) (ε : α) : Bool :=
  (allFin fun i => decide (0 ≤ x i + ε)) && allFin (rowOK P x ε)

/-- the multiplier of row `r` has the sign that makes it a valid bound: for a maximise stage `≥ 0`
on `≤` rows and `≤ 0` on `≥` rows; the opposite for a minimise stage -/
def signOK (P : LP k m α) (y : Vec k α) (r : Fin k) : Bool :=
  match P.sense, P.rel r with
  | .max, .le => decide (0 ≤ y r)
  | .max, .ge => decide (y r ≤ 0)
  | .min, .le => decide (y r ≤ 0)
  | .min, .ge => decide (0 ≤ y r)

/-- `Σ_r y_r A_rj` -/
def yA (P : LP k m α) (y : Vec k α) (j : Fin m) : α := sumFin fun r => y r * P.A r j

/-- dual feasibility of column `j` within `ε`: `c_j ≤ Σ_r y_r A_rj + ε` (maximise) /
`Σ_r y_r A_rj ≤ c_j + ε` (minimise) -/
def colOK (P : LP k m α) (y : Vec k α) (ε : α) (j : Fin m) : Bool :=
  match P.sense with
  | .max => decide (P.c j ≤ yA P y j + ε)
  | .min => decide (yA P y j ≤ P.c j + ε)

/-- sign-correct multipliers, dual feasible within `ε` -/
def dualOK (P : LP k m α) (y : Vec k α) (ε : α) : Bool :=
  allFin (signOK P y) && allFin (colOK P y ε)

/-- `|c·x − b·y| ≤ δ` -/
def gapOK (P : LP k m α) (x : Vec m α) (y : Vec k α) (δ : α) : Bool :=
  decide (dot P.c x ≤ dot y P.b + δ) && decide (dot y P.b ≤ dot P.c x + δ)

/-- the certificate checker the driver runs: `x` is feasible within `εp`, `y` is a sign-correct dual
vector feasible within `εd`, and the two objective values agree within `δ` -/
def certCheck (P : LP k m α) (x : Vec m α) (y : Vec k α) (εp εd δ : α) : Bool :=
  primalOK P x εp && dualOK P y εd && gapOK P x y δ
end cert

end Skc.Simus
