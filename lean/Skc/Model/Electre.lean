import Skc.Model.Num
import Skc.Model.Rank
/-! # L-model: `agg/electre.py` — concordance, discordance, ELECTRE1, `weights_outrank` (as
specified and as called), the strong / weak graphs, `_electre2_ranker`, ELECTRE2.  Import-free. -/
namespace Skc.Electre
open Skc

section
variable {α : Type} [Add α] [Sub α] [Mul α] [Div α] [Neg α] [OfNat α 0] [OfNat α 1] [LT α] [LE α] [Max α] [Min α]
  [DecidableEq α] [DecidableRel (α := α) (· < ·)] [DecidableRel (α := α) (· ≤ ·)]
variable {m n : Nat}

/-- `_conc_row`: `(MAX & row − other ≥ 0) | (MIN & row − other ≤ 0)` -/
def concMask (o : Obj) (x y : α) : Bool :=
  match o with
  | .max => decide (y ≤ x)
  | .min => decide (x ≤ y)

/-- concordance of the ordered pair `(a, b)`; the diagonal is NaN in the code (`none`) -/
def concordance (A : Mat m n α) (o : Vec n Obj) (w : Vec n α) (a b : Fin m) : Option α :=
  if a = b then none else some (sumFin fun j => if concMask (o j) (A a j) (A b j) then w j else 0)

/-- `(np.max(matrix, axis=0) - np.min(matrix, axis=0)).max()` -/
def maxRange [NeZero m] [NeZero n] (A : Mat m n α) : α :=
  maxFin fun j => (maxFin fun i => A i j) - (minFin fun i => A i j)

/-- `_disc_row`: `worsts = (MAX & other − row > 0) | (MIN & other − row < 0)` -/
def discMask (o : Obj) (x y : α) : Bool :=
  match o with
  | .max => decide (x < y)
  | .min => decide (y < x)

/-- discordance of `(a, b)`: largest adverse difference over the global range -/
def discordance [NeZero m] [NeZero n] (A : Mat m n α) (o : Vec n Obj) (a b : Fin m) : Option α :=
  if a = b then none else
    some (maxFin fun j => absv (if discMask (o j) (A a j) (A b j) then A b j - A a j else 0) / maxRange A)

/-- `(conc >= p) & (disc <= q)`, NaN compares false -/
def outrankCell (c d : Option α) (p q : α) : Bool :=
  match c, d with
  | some cv, some dv => decide (p ≤ cv) && decide (dv ≤ q)
  | _, _ => false

def electre1Outrank [NeZero m] [NeZero n] (A : Mat m n α) (o : Vec n Obj) (w : Vec n α) (p q : α) (a b : Fin m) : Bool :=
  outrankCell (concordance A o w a b) (discordance A o a b) p q

/-- `kernel = ~outrank.any(axis=0)` -/
def electre1Kernel [NeZero m] [NeZero n] (A : Mat m n α) (o : Vec n Obj) (w : Vec n α) (p q : α) (b : Fin m) : Bool :=
  !(anyFin fun a => electre1Outrank A o w p q a b)

/-! ### `weights_outrank` -/

/-- body of `weights_outrank(matrix, weights, objectives)` with the two array parameters as they
arrive: `wv` plays the role of `weights`, `isMax j` that of `objectives[j] == MAX` -/
def worBody (wv : Vec n α) (isMax : Fin n → Bool) (A : Mat m n α) (a b : Fin m) : Bool :=
  if a = b then false else
    let ab : Fin n → Bool := fun j => if isMax j then decide (A b j < A a j) else decide (A a j < A b j)
    let ba : Fin n → Bool := fun j => if isMax j then decide (A a j < A b j) else decide (A b j < A a j)
    let sab := sumFin fun j => if ab j then wv j else 0
    let sba := sumFin fun j => if ba j then wv j else 0
    decide (sba ≤ sab)

/-- as documented: total weight of the criteria where `a` is strictly better ≥ that where `b` is -/
def worSpec (A : Mat m n α) (o : Vec n Obj) (w : Vec n α) (a b : Fin m) : Bool :=
  worBody w (fun j => decide (o j = .max)) A a b

/-- as called at `electre.py` `electre2`: `weights_outrank(matrix, objectives, weights)` — the
objectives (±1) arrive as `weights`, the weights as `objectives` (so "is MAX" means `w_j == 1`) -/
def worCode (A : Mat m n α) (o : Vec n Obj) (w : Vec n α) (a b : Fin m) : Bool :=
  worBody (fun j => (o j).sgn) (fun j => decide (w j = 1)) A a b

/-! ### ELECTRE2 graphs -/
structure Thresholds (α : Type) where
  p0 : α
  p1 : α
  p2 : α
  q0 : α
  q1 : α

def strongCell (c d : Option α) (wor : Bool) (t : Thresholds α) : Bool :=
  (outrankCell c d t.p0 t.q0 && wor) || (outrankCell c d t.p1 t.q1 && wor)
def weakCell (c d : Option α) (wor : Bool) (t : Thresholds α) : Bool :=
  outrankCell c d t.p2 t.q0 && wor

end

/-! ### `_electre2_ranker` on index graphs -/
abbrev Graph := Nat → Nat → Bool     -- outrank i j

/-- the round's kernel `kernel_s & ~kernel_w` among the remaining alternatives: not strongly
outranked by a remaining one, and weakly outranked by a remaining one -/
def roundKernel (S W : Graph) (rem : List Nat) : List Nat :=
  rem.filter fun j => !(rem.any (S · j)) && rem.any (W · j)

/-- (index, rank) pairs; `fuel` bounds the number of rounds -/
def rankerLoop (S W : Graph) : Nat → List Nat → Nat → List (Nat × Nat)
  | 0, rem, r => rem.map (·, r)
  | fuel + 1, rem, r =>
    if rem.isEmpty then [] else
    let k := roundKernel S W rem
    if k.isEmpty then rem.map (·, r)
    else k.map (·, r) ++ rankerLoop S W fuel (rem.filter (! k.contains ·)) (r + 1)

/-- ranking vector (position `i` = rank of alternative `i`) -/
def rankerDirect (S W : Graph) (m : Nat) : List Nat :=
  let pairs := rankerLoop S W m (List.range m) 1
  (List.range m).map fun i => ((pairs.find? (·.1 == i)).map (·.2)).getD 0

/-- `invert_ranking=True`: `(max + 1) − ranking` -/
def invertRanking (r : List Nat) : List Nat :=
  let mx := r.foldl max 0
  r.map fun x => mx + 1 - x

def rankerInverted (S W : Graph) (m : Nat) : List Nat :=
  invertRanking (rankerDirect (fun i j => S j i) (fun i j => W j i) m)

/-- `score = (direct + inverted) / 2` kept as the integer sum (ordering is the same), and the
final dense ranking of it -/
def electre2Rank (direct inverted : List Nat) : List Nat :=
  denseRank (List.zipWith (· + ·) direct inverted)

end Skc.Electre
