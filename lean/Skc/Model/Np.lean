import Skc.Model.Num
import Skc.Model.Rank
/-! # NumPy vocabulary for the kernels that are *regenerated from the source* on every run

`harness/translate.py` reads the numeric kernels of `/repo` (`wsm`, `wpm`, `ratio`, `refpoint`, `topsis`,
`scale_by_sum`, `push_negatives`, …) with Python's `ast` module and writes each of them, statement by
statement, as a Lean definition over the combinators below (`Skc/Generated/K/*.lean`).  The files in
`Skc/Tie/` then prove that every regenerated kernel *is* the hand-written kernel of `Skc/Model/*` the
property theorems talk about.  This file is the (trusted) reading of NumPy the translation relies on:

* arrays carry their rank in the type — `A0` (a scalar, also the result of a full reduction or of a
  `keepdims` reduction of a 1-D array), `A1 n` (shape `(n,)`, also `(1, n)`), `A2 m n` — and `Bc` is
  NumPy broadcasting between them (a 1-D operand is a *row* against a 2-D one);
* reductions take the axis (`Ax.a0`, `Ax.a1`, `Ax.all` for `axis=None`);
* a boolean array times a number is `0` / the number; truthiness of a number is `≠ 0`.

Import-free, like the rest of the model. -/
namespace Skc.Np
open Skc

structure A0 (β : Type) where
  v : β
structure A1 (n : Nat) (β : Type) where
  v : Fin n → β
structure A2 (m n : Nat) (β : Type) where
  v : Fin m → Fin n → β

/-- NumPy broadcasting of two operands to their common shape `S`, combining elements with `f` -/
class Bc (X Y : Type) (bx by_ : outParam Type) (S : outParam (Type → Type)) where
  zw : {c : Type} → (bx → by_ → c) → X → Y → S c

section inst
variable {a b : Type} {m n : Nat}
instance : Bc (A0 a) (A0 b) a b A0 := ⟨fun f x y => ⟨f x.v y.v⟩⟩
instance : Bc (A0 a) (A1 n b) a b (A1 n) := ⟨fun f x y => ⟨fun j => f x.v (y.v j)⟩⟩
instance : Bc (A1 n a) (A0 b) a b (A1 n) := ⟨fun f x y => ⟨fun j => f (x.v j) y.v⟩⟩
instance : Bc (A1 n a) (A1 n b) a b (A1 n) := ⟨fun f x y => ⟨fun j => f (x.v j) (y.v j)⟩⟩
instance : Bc (A0 a) (A2 m n b) a b (A2 m n) := ⟨fun f x y => ⟨fun i j => f x.v (y.v i j)⟩⟩
instance : Bc (A2 m n a) (A0 b) a b (A2 m n) := ⟨fun f x y => ⟨fun i j => f (x.v i j) y.v⟩⟩
instance : Bc (A1 n a) (A2 m n b) a b (A2 m n) := ⟨fun f x y => ⟨fun i j => f (x.v j) (y.v i j)⟩⟩
instance : Bc (A2 m n a) (A1 n b) a b (A2 m n) := ⟨fun f x y => ⟨fun i j => f (x.v i j) (y.v j)⟩⟩
instance : Bc (A2 m n a) (A2 m n b) a b (A2 m n) := ⟨fun f x y => ⟨fun i j => f (x.v i j) (y.v i j)⟩⟩
end inst

/-- element-wise function application -/
class Mp (X : Type) (bx : outParam Type) (S : outParam (Type → Type)) where
  mp : {c : Type} → (bx → c) → X → S c
instance {a : Type} : Mp (A0 a) a A0 := ⟨fun f x => ⟨f x.v⟩⟩
instance {a : Type} {n : Nat} : Mp (A1 n a) a (A1 n) := ⟨fun f x => ⟨fun j => f (x.v j)⟩⟩
instance {a : Type} {m n : Nat} : Mp (A2 m n a) a (A2 m n) := ⟨fun f x => ⟨fun i j => f (x.v i j)⟩⟩

/-- product of two array elements: numbers, or a NumPy boolean with a number -/
class EMul (a b : Type) (c : outParam Type) where
  emul : a → b → c
instance {α : Type} [Mul α] : EMul α α α := ⟨(· * ·)⟩
instance {α : Type} [OfNat α 0] : EMul Bool α α := ⟨fun p x => if p then x else 0⟩
instance {α : Type} [OfNat α 0] : EMul α Bool α := ⟨fun x p => if p then x else 0⟩

/-- truth value of an array element (`np.where(mask, …)`, `np.any`) -/
class Truthy (a : Type) where
  t : a → Bool
instance : Truthy Bool := ⟨id⟩
instance (priority := low) {α : Type} [OfNat α 0] [DecidableEq α] : Truthy α := ⟨fun x => !decide (x = 0)⟩

section ops
variable {X Y : Type} {a b c : Type} {S : Type → Type}

def multiply [Bc X Y a b S] [EMul a b c] (x : X) (y : Y) : S c := Bc.zw EMul.emul x y
def add [Bc X Y a a S] [Add a] (x : X) (y : Y) : S a := Bc.zw (· + ·) x y
def subtract [Bc X Y a a S] [Sub a] (x : X) (y : Y) : S a := Bc.zw (· - ·) x y
def divide [Bc X Y a a S] [Div a] (x : X) (y : Y) : S a := Bc.zw (· / ·) x y
def less [Bc X Y a a S] [LT a] [DecidableRel (α := a) (· < ·)] (x : X) (y : Y) : S Bool :=
  Bc.zw (fun p q => decide (p < q)) x y
def equal [Bc X Y a a S] [DecidableEq a] (x : X) (y : Y) : S Bool := Bc.zw (fun p q => decide (p = q)) x y

def abs [Mp X a S] [Neg a] [LT a] [OfNat a 0] [DecidableRel (α := a) (· < ·)] (x : X) : S a := Mp.mp absv x
def negative [Mp X a S] [Neg a] (x : X) : S a := Mp.mp (fun v => -v) x
def log [Mp X a S] [MathFns a] (x : X) : S a := Mp.mp MathFns.log x
def log10 [Mp X a S] [MathFns a] (x : X) : S a := Mp.mp MathFns.log10 x
def sqrt [Mp X a S] [MathFns a] (x : X) : S a := Mp.mp MathFns.sqrt x

/-- `np.asarray(x)`, `np.asarray(x, dtype=float)`, `np.squeeze(x)` of an array that has no unit axis -/
def asarray (x : X) : X := x
def squeeze (x : X) : X := x
end ops

/-- `x <= y` for array elements; an element that is NaN (`none`, e.g. the diagonal of ELECTRE's index matrices) compares false -/
class HLe (a b : Type) where
  le : a → b → Bool
instance {α : Type} [LE α] [DecidableRel (α := α) (· ≤ ·)] : HLe α α := ⟨fun x y => decide (x ≤ y)⟩
instance {α : Type} [LE α] [DecidableRel (α := α) (· ≤ ·)] : HLe (Option α) α :=
  ⟨fun x y => match x with | some v => decide (v ≤ y) | none => false⟩
instance {α : Type} [LE α] [DecidableRel (α := α) (· ≤ ·)] : HLe α (Option α) :=
  ⟨fun x y => match y with | some v => decide (x ≤ v) | none => false⟩

section logic
variable {X Y : Type} {a : Type} {S : Type → Type}
def logical_and [Bc X Y Bool Bool S] (x : X) (y : Y) : S Bool := Bc.zw (· && ·) x y
def logical_or [Bc X Y Bool Bool S] (x : X) (y : Y) : S Bool := Bc.zw (· || ·) x y
def less_equal {b : Type} [Bc X Y a b S] [HLe a b] (x : X) (y : Y) : S Bool := Bc.zw HLe.le x y
def logical_not [Mp X Bool S] (x : X) : S Bool := Mp.mp (fun p => !p) x
/-- `mask.astype(int)`: `True → 1`, `False → 0`; kept as the boolean array, whose product with a number is the same -/
def astype_int (x : X) : X := x
end logic

/-- `np.where(cond, x, y)` -/
def «where» {C X Y bc a : Type} {S1 S2 : Type → Type} [Bc C X bc a S1] [Truthy bc] [Bc (S1 (Bool × a)) Y (Bool × a) a S2]
    (cond : C) (x : X) (y : Y) : S2 a :=
  Bc.zw (fun (p : Bool × a) (q : a) => if p.1 then p.2 else q) (Bc.zw (fun cc xx => (Truthy.t cc, xx)) cond x) y

/-! ### reductions -/
inductive Ax | a0 | a1 | all

/-- reduce along an axis; the reducer sees a non-empty vector -/
class Red (ax : Ax) (X : Type) (b : outParam Type) (S : outParam (Type → Type)) where
  red : {c : Type} → ((k : Nat) → [NeZero k] → (Fin k → b) → c) → X → S c
instance {b : Type} {m n : Nat} [NeZero m] : Red .a0 (A2 m n b) b (A1 n) := ⟨fun f x => ⟨fun j => f m fun i => x.v i j⟩⟩
instance {b : Type} {m n : Nat} [NeZero n] : Red .a1 (A2 m n b) b (A1 m) := ⟨fun f x => ⟨fun i => f n (x.v i)⟩⟩
instance {b : Type} {n : Nat} [NeZero n] : Red .a0 (A1 n b) b A0 := ⟨fun f x => ⟨f n x.v⟩⟩
instance {b : Type} {n : Nat} [NeZero n] : Red .all (A1 n b) b A0 := ⟨fun f x => ⟨f n x.v⟩⟩

section red
variable {X : Type} {b : Type} {S : Type → Type}
def sum (ax : Ax) [Red ax X b S] [Add b] [OfNat b 0] (x : X) : S b := Red.red ax (fun _ _ f => sumFin f) x
def max (ax : Ax) [Red ax X b S] [Max b] (x : X) : S b := Red.red ax (fun _ _ f => maxFin f) x
def min (ax : Ax) [Red ax X b S] [Min b] (x : X) : S b := Red.red ax (fun _ _ f => minFin f) x
def any (ax : Ax) [Red ax X b S] [Truthy b] (x : X) : S Bool := Red.red ax (fun _ _ f => anyFin fun i => Truthy.t (f i)) x
/-- `np.std(x, axis, ddof)`; divisor `max(k − ddof, 0)` -/
def std (ax : Ax) (ddof : Nat) [Red ax X b S] [Add b] [Sub b] [Mul b] [Div b] [OfNat b 0] [NatCast b] [MathFns b] (x : X) : S b :=
  Red.red ax (fun k _ f =>
    let mean := sumFin f / (k : b)
    MathFns.sqrt ((sumFin fun i => (f i - mean) * (f i - mean)) / ((k - ddof : Nat) : b))) x
/-- `scipy.linalg.norm(x, None, axis)`: the 2-norm along the axis -/
def norm (ax : Ax) [Red ax X b S] [Add b] [Mul b] [OfNat b 0] [MathFns b] (x : X) : S b :=
  Red.red ax (fun _ _ f => MathFns.sqrt (sumFin fun i => f i * f i)) x
end red

/-- `np.inner` / `@` of a matrix (or vector) with a vector -/
class Inner (X Y : Type) (Z : outParam Type) where
  inner : X → Y → Z
instance {b : Type} {m n : Nat} [Add b] [Mul b] [OfNat b 0] : Inner (A2 m n b) (A1 n b) (A1 m b) :=
  ⟨fun x y => ⟨fun i => sumFin fun j => x.v i j * y.v j⟩⟩
instance {b : Type} {n : Nat} [Add b] [Mul b] [OfNat b 0] : Inner (A1 n b) (A1 n b) (A0 b) :=
  ⟨fun x y => ⟨sumFin fun j => x.v j * y.v j⟩⟩
def inner {X Y Z : Type} [Inner X Y Z] (x : X) (y : Y) : Z := Inner.inner x y

/-- a length of an array (`np.shape(x)[k]`, `len(x)`): a number that remembers, in its type, which length it is -/
structure Dim (k : Nat) (β : Type) where
  v : β
instance {a b : Type} {k : Nat} : Bc (A0 a) (Dim k b) a b A0 := ⟨fun f x y => ⟨f x.v y.v⟩⟩
instance {a b : Type} {k : Nat} : Bc (Dim k a) (A0 b) a b A0 := ⟨fun f x y => ⟨f x.v y.v⟩⟩
def shape0 {b : Type} {m n : Nat} [NatCast b] (_x : A2 m n b) : Dim m b := ⟨(m : b)⟩
def shape1 {b : Type} {m n : Nat} [NatCast b] (_x : A2 m n b) : Dim n b := ⟨(n : b)⟩
/-- `scipy.stats.entropy(pk, base=base, axis)`: `pk` is normalised to sum 1 along the axis, `entr(p) = −p log p`
for `p > 0` and `0` at `0`, the sum is divided by `log base` -/
def entropy {X : Type} {b : Type} {S : Type → Type} (ax : Ax) {k : Nat} [Red ax X b S] [Add b] [Mul b] [Div b] [Neg b] [OfNat b 0] [LT b] [DecidableRel (α := b) (· < ·)]
    [MathFns b] (x : X) (base : Dim k b) : S b :=
  Red.red ax (fun _ _ f =>
    let tot := sumFin f
    (sumFin fun i => let p := f i / tot; if 0 < p then -(p * MathFns.log p) else 0) / MathFns.log base.v) x
/-- `scipy.stats.rankdata(x, "dense").astype(np.int64)`: one plus the number of distinct smaller values -/
def rankdata_dense {b : Type} {n : Nat} [LT b] [DecidableRel (α := b) (· < ·)] [DecidableEq b] (x : A1 n b) : A1 n Nat :=
  ⟨fun i => rankOf (List.ofFn x.v) (x.v i)⟩
/-- `x[:, mask]`: the columns of `x` selected by a boolean mask (their number is not known statically, so the selection is kept
symbolic) and `np.sum(x[:, mask], axis=1)` -/
structure Cols (m n : Nat) (b : Type) where
  v : Fin m → Fin n → b
  keep : Fin n → Bool
def take_cols {b : Type} {m n : Nat} (x : A2 m n b) (mask : A1 n Bool) : Cols m n b := ⟨x.v, mask.v⟩
def sum_kept {b : Type} {m n : Nat} [Add b] [OfNat b 0] (x : Cols m n b) : A1 m b :=
  ⟨fun i => sumFin fun j => if x.keep j then x.v i j else 0⟩
/-- `np.sum(x)` without an axis: the total of a numeric vector, the number of `True`s of a boolean one -/
class SumAll (X : Type) (Y : outParam Type) where
  sumAll : X → Y
instance {n : Nat} : SumAll (A1 n Bool) (A0 Nat) := ⟨fun x => ⟨countFin x.v⟩⟩
instance (priority := low) {b : Type} {n : Nat} [Add b] [OfNat b 0] : SumAll (A1 n b) (A0 b) := ⟨fun x => ⟨sumFin x.v⟩⟩
def sum_all {X Y : Type} [SumAll X Y] (x : X) : Y := SumAll.sumAll x

/-- `np.any(x)` over the whole array, as the truth value an `if` tests -/
class AnyAll (X : Type) where
  anyAll : X → Bool
instance {b : Type} [Truthy b] : AnyAll (A0 b) := ⟨fun x => Truthy.t x.v⟩
instance {b : Type} {n : Nat} [Truthy b] : AnyAll (A1 n b) := ⟨fun x => anyFin fun j => Truthy.t (x.v j)⟩
instance {b : Type} {m n : Nat} [Truthy b] : AnyAll (A2 m n b) := ⟨fun x => anyFin fun i => anyFin fun j => Truthy.t (x.v i j)⟩
def any_all {X : Type} [AnyAll X] (x : X) : Bool := AnyAll.anyAll x
instance {a : Type} {m n : Nat} : Mp (Cols m n a) a (Cols m n) := ⟨fun f x => ⟨fun i j => f (x.v i j), x.keep⟩⟩
instance {a b : Type} {m n : Nat} : Bc (A0 a) (Cols m n b) a b (Cols m n) := ⟨fun f x y => ⟨fun i j => f x.v (y.v i j), y.keep⟩⟩
instance {a b : Type} {m n : Nat} : Bc (Cols m n a) (A0 b) a b (Cols m n) := ⟨fun f x y => ⟨fun i j => f (x.v i j) y.v, x.keep⟩⟩
/-- `x[:, mask] = c`: the selected columns are overwritten -/
def set_cols {b : Type} {m n : Nat} (x : A2 m n b) (mask : A1 n Bool) (c : Cols m n b) : A2 m n b :=
  ⟨fun i j => if mask.v j then c.v i j else x.v i j⟩
/-- `c in arr` -/
def contains {b : Type} {n : Nat} [DecidableEq b] (arr : A1 n b) (c : A0 b) : Bool := anyFin fun j => decide (arr.v j = c.v)
/-- `if cond: x = e1 else: x = e2` where one branch may be a scalar that later broadcasts against the other -/
class IteB (X Y : Type) (Z : outParam Type) where
  ite : Bool → X → Y → Z
instance (priority := low) {X : Type} : IteB X X X := ⟨fun c x y => if c then x else y⟩
instance {b : Type} {n : Nat} : IteB (A1 n b) (A0 b) (A1 n b) := ⟨fun c x y => if c then x else ⟨fun _ => y.v⟩⟩
instance {b : Type} {n : Nat} : IteB (A0 b) (A1 n b) (A1 n b) := ⟨fun c x y => if c then ⟨fun _ => x.v⟩ else y⟩
def ite {X Y Z : Type} [IteB X Y Z] (c : Bool) (x : X) (y : Y) : Z := IteB.ite c x y

/-- `out = np.full((k, k), False); for i, j in combinations(range(len(X)), 2): a, b = X[[i, j]]; out[i, j] = f a b; out[j, i] = g a b` -/
def pair_fill {b c : Type} {m n : Nat} (x : A2 m n b) (_len _d0 _d1 : Dim m c) (f g : A1 n b → A1 n b → A0 Bool) : A2 m m Bool :=
  ⟨fun i j => if i < j then (f ⟨x.v i⟩ ⟨x.v j⟩).v else if j < i then (g ⟨x.v j⟩ ⟨x.v i⟩).v else false⟩

/-- `np.tile(x, (k, 1))`: `k` copies of the row `x` -/
def tile {b c : Type} {k n : Nat} (x : A1 n b) (_k : Dim k c) : A2 k n b := ⟨fun _ j => x.v j⟩
/-- `out = np.empty((m, k)); for idx, row in enumerate(X): out[idx] = f(row)` -/
def map_rows {b c : Type} {m n k : Nat} (x : A2 m n b) (f : A1 n b → A1 k c) : A2 m k c := ⟨fun i => (f ⟨x.v i⟩).v⟩
/-- `np.fill_diagonal(x, np.nan)`; `none` is NaN -/
def fill_diagonal_nan {b : Type} {m : Nat} (x : A2 m m b) : A2 m m (Option b) := ⟨fun i j => if i = j then none else some (x.v i j)⟩
/-- `np.full(k, v)`: `k` must be the length the result is used at -/
def full {b : Type} {k : Nat} (_len : Dim k b) (v : A0 b) : A1 k b := ⟨fun _ => v.v⟩
/-- `scipy.spatial.distance.cdist(X, t[True], metric=d).flatten()`: one distance per row -/
def cdist1 {b : Type} {m n : Nat} (d : Vec n b → Vec n b → b) (x : A2 m n b) (t : A1 n b) : A1 m b := ⟨fun i => d (x.v i) t.v⟩

end Skc.Np
