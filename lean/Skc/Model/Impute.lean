/-! # L-model of `skcriteria.preprocessing.impute` (C15)

`SKCImputerABC._transform_data` replaces the matrix by `self._impute(matrix)` and nothing else;
the three concrete classes build a scikit-learn estimator from their constructor parameters and
return its `fit_transform(matrix)`.

* A cell is `Option α`: `none` is the `missing_values` placeholder (`NaN` by default). A matrix is
  row-major, `List (List (Option α))` (one inner list per alternative). **No shape assumption** is
  built in; theorems that need a rectangular matrix say so (`Rect`).
* `sklearn.impute.SimpleImputer` (scikit-learn 1.3.2, dense path `_dense_fit` / `transform`) is
  modelled completely, column by column: `statistics` = the vector `statistics_`, then every
  missing cell of column `j` receives `statistics_[j]`.
  - `mean`: `np.ma.mean` = sum of the observed values / their number;
  - `median`: `np.ma.median` = middle of the sorted observed values, mean of the two middle ones
    when their number is even;
  - `most_frequent`: `scipy.stats.mode` = the SMALLEST of the values with maximal count
    (`np.unique` sorts, `argmax` takes the first maximum);
  - `constant`: `fill_value`, `0` when `fill_value is None`.
  A column without any observed value has statistic `NaN` (model: `none`) for mean / median /
  most_frequent unless `keep_empty_features` (then `0`); for `constant` it is `fill_value` in
  either case. scikit-learn DROPS the columns whose statistic is `NaN`; the matrix then has fewer
  columns than the criteria / objectives / weights that `_transform_data` passes on unchanged, and
  `DecisionMatrix.from_mcda_data` refuses it: `ValueError`. The model answers `.error .valueError`
  in exactly that case (observed on the real code; the property exempts such matrices).
* `KNNImputer` and `IterativeImputer` are external estimators: a parameter `ext : OMat α → OMat α`
  (one function per parameterisation) of which only the CONTRACT `Keeps ext` is used.

Import-free (core Lean only). The driver runs `simpleImpute` at `α := Rat`. -/
namespace Skc.Impute

inductive Err | valueError
  deriving DecidableEq, Repr

/-- row-major matrix whose cells may be missing -/
abbrev OMat (α : Type) := List (List (Option α))

/-- `strategy` (+ `fill_value`, which only `constant` reads; `none` = the default `None`) -/
inductive Strategy (α : Type)
  | mean
  | median
  | mostFrequent
  | constant (fillValue : Option α)
  deriving Repr

/-! ## shape, cells, columns -/
section shape
variable {α : Type}

/-- the cell at row `i`, column `j`: outer `none` = outside the matrix, `some none` = missing -/
def cellAt (M : OMat α) (i j : Nat) : Option (Option α) := (M[i]?).bind (·[j]?)

/-- every row has `n` cells -/
def Rect (M : OMat α) (n : Nat) : Prop := ∀ r ∈ M, r.length = n

/-- `X.shape[1]` -/
def width : OMat α → Nat
  | [] => 0
  | r :: _ => r.length

/-- column `j`, top to bottom (`X[:, j]`) -/
def colOf (M : OMat α) (j : Nat) : List (Option α) := M.filterMap (·[j]?)

/-- the observed values of a column, in order (`row[~mask]`) -/
def observed (c : List (Option α)) : List α := c.filterMap id

/-- criterion `j` has at least one observed value -/
def HasObserved (M : OMat α) (j : Nat) : Prop := ∃ x, some x ∈ colOf M j

/-- no cell is missing -/
def Complete (M : OMat α) : Prop := ∀ r ∈ M, ∀ c ∈ r, c ≠ none

/-- same number of rows, and row by row the same number of cells -/
def SameShape (M R : OMat α) : Prop := R.map List.length = M.map List.length

/-- every observed cell of `M` holds exactly its value in `R`, at the same place -/
def ObservedKept (M R : OMat α) : Prop :=
  ∀ i j x, cellAt M i j = some (some x) → cellAt R i j = some (some x)

/-- CONTRACT of an external imputer (`KNNImputer`, `IterativeImputer` of scikit-learn for one
parameterisation): on a rectangular matrix in which every column has an observed value it keeps
the observed cells, leaves no cell missing and keeps the shape -/
def Keeps (ext : OMat α → OMat α) : Prop :=
  ∀ (M : OMat α) (n : Nat), Rect M n → (∀ j, j < n → HasObserved M j) →
    ObservedKept M (ext M) ∧ Complete (ext M) ∧ SameShape M (ext M)

/-! executable forms of the three parts of the contract (the driver evaluates them on the real
scikit-learn output; `Skc/Proofs/Impute.lean` proves them equivalent to the `Prop`s) -/

def completeB (M : OMat α) : Bool := M.all fun r => r.all Option.isSome

def sameShapeB (M R : OMat α) : Bool := R.map List.length == M.map List.length

def observedKeptB [DecidableEq α] (M R : OMat α) : Bool :=
  M.zipIdx.all fun ri => ri.1.zipIdx.all fun cj =>
    match cj.1 with
    | some x => decide (cellAt R ri.2 cj.2 = some (some x))
    | none => true

end shape

/-! ## the statistics of `SimpleImputer` -/
section stats
variable {α : Type} [Add α] [Div α] [OfNat α 0] [NatCast α] [LE α]
  [DecidableRel (α := α) (· ≤ ·)] [DecidableEq α]

/-- `np.sum` of a vector -/
def sumL (l : List α) : α := l.foldl (· + ·) 0

/-- insertion into a sorted list (the recursion of Mathlib's `orderedInsert`) -/
def insertLE (x : α) : List α → List α
  | [] => [x]
  | y :: t => if x ≤ y then x :: y :: t else y :: insertLE x t

/-- `np.sort` (structural insertion sort) -/
def sortLE : List α → List α
  | [] => []
  | x :: t => insertLE x (sortLE t)

/-- `np.ma.mean` of the observed values: their sum divided by their number -/
def meanOf (obs : List α) : α := sumL obs / (obs.length : α)

/-- `np.ma.median` of the observed values; `none` when there is none -/
def medianOf (obs : List α) : Option α :=
  let s := sortLE obs
  let n := s.length
  if n % 2 = 1 then s[n / 2]?
  else
    match s[n / 2 - 1]?, s[n / 2]? with
    | some a, some b => some ((a + b) / ((2 : Nat) : α))
    | _, _ => none

/-- one step of the scan over the sorted values: keep the current best unless the next value is
STRICTLY more frequent (so that among equally frequent values the smallest stays) -/
def modeStep (obs : List α) (best : Option α) (x : α) : Option α :=
  match best with
  | none => some x
  | some b => if obs.count b < obs.count x then some x else some b

/-- `scipy.stats.mode`: `np.unique(a, return_counts=True)` (sorted) then the first `argmax` of the
counts = the smallest value of maximal count; `none` when there is no observed value -/
def modeOf (obs : List α) : Option α := (sortLE obs).foldl (modeStep obs) none

/-- `statistics_[j]` before the empty-column rule; `none` = `NaN` -/
def statOf (s : Strategy α) (obs : List α) : Option α :=
  match s with
  | .constant f => some (f.getD 0)
  | .mean => if obs.isEmpty then none else some (meanOf obs)
  | .median => medianOf obs
  | .mostFrequent => modeOf obs

/-- `statistics_[j]`: with `keep_empty_features` a column without observed value gets `0` -/
def stat (s : Strategy α) (keepEmpty : Bool) (obs : List α) : Option α :=
  match statOf s obs with
  | some v => some v
  | none => if keepEmpty then some 0 else none

/-- `SimpleImputer.fit(X).statistics_` -/
def statistics (s : Strategy α) (keepEmpty : Bool) (M : OMat α) : List (Option α) :=
  (List.range (width M)).map fun j => stat s keepEmpty (observed (colOf M j))

/-- `X[mask] = statistic of the column`: an observed cell is left alone -/
def fillCell (st : Option α) : Option α → Option α
  | some x => some x
  | none => st

def fillRow (stats : List (Option α)) (row : List (Option α)) : List (Option α) :=
  row.mapIdx fun j c => fillCell (stats[j]?).join c

/-- `skcriteria…SimpleImputer._impute` followed by the shape check of
`DecisionMatrix.from_mcda_data`: `ValueError` iff scikit-learn drops a column (statistic `NaN`) -/
def simpleImpute (s : Strategy α) (keepEmpty : Bool) (M : OMat α) : Except Err (OMat α) :=
  let stats := statistics s keepEmpty M
  if stats.all Option.isSome then .ok (M.map (fillRow stats)) else .error .valueError

end stats

/-! ## the transformer: only the matrix is replaced -/

/-- the parts of a decision matrix an imputer sees (`dm.to_dict()`; `dtypes` is recomputed) -/
structure DM (α ο ω : Type) where
  alternatives : List String
  criteria : List String
  objectives : List ο
  weights : List ω
  matrix : OMat α

section transformer
variable {α ο ω : Type}

/-- `SKCImputerABC._transform_data`: `kwargs.update(matrix=self._impute(matrix), dtypes=None)` -/
def transformData (impute : OMat α → Except Err (OMat α)) (d : DM α ο ω) : Except Err (DM α ο ω) :=
  (impute d.matrix).map fun R => { d with matrix := R }

/-- an external imputer followed by the shape check of `DecisionMatrix.from_mcda_data` -/
def extImpute (ext : OMat α → OMat α) (M : OMat α) : Except Err (OMat α) :=
  if sameShapeB M (ext M) then .ok (ext M) else .error .valueError

/-- `KNNImputer(...).transform(dm)` / `IterativeImputer(...).transform(dm)` -/
def extTransform (ext : OMat α → OMat α) (d : DM α ο ω) : Except Err (DM α ο ω) :=
  transformData (extImpute ext) d

/-- `SimpleImputer(strategy=…, fill_value=…, keep_empty_criteria=…).transform(dm)` -/
def simpleTransform [Add α] [Div α] [OfNat α 0] [NatCast α] [LE α]
    [DecidableRel (α := α) (· ≤ ·)] [DecidableEq α]
    (s : Strategy α) (keepEmpty : Bool) (d : DM α ο ω) : Except Err (DM α ο ω) :=
  transformData (simpleImpute s keepEmpty) d

end transformer

/-! ## constructor parameter → keyword of the scikit-learn estimator

`Skc/Generated/ImputerKw.lean` (regenerated on every run by `harness/extract.py::imputer_kw` from
the tree under test, by RECORDING the call of the scikit-learn constructor) holds one `KwRow` per
imputer class and constructor parameter: `forwarded` = `"<sklearn class>.<keyword>"` that received
the parameter's value (`""` when none did). `expectedKw` below is written by hand from the
documentation of the three classes. -/

structure KwRow where
  cls : String
  param : String
  forwarded : String
  deriving Repr

/-- (skcriteria class, constructor parameter, scikit-learn estimator.keyword that must receive it) -/
def expectedKw : List (String × String × String) :=
  [ ("SimpleImputer", "missing_values", "SimpleImputer.missing_values")
  , ("SimpleImputer", "strategy", "SimpleImputer.strategy")
  , ("SimpleImputer", "fill_value", "SimpleImputer.fill_value")
  , ("SimpleImputer", "keep_empty_criteria", "SimpleImputer.keep_empty_features")
  , ("IterativeImputer", "estimator", "IterativeImputer.estimator")
  , ("IterativeImputer", "missing_values", "IterativeImputer.missing_values")
  , ("IterativeImputer", "sample_posterior", "IterativeImputer.sample_posterior")
  , ("IterativeImputer", "max_iter", "IterativeImputer.max_iter")
  , ("IterativeImputer", "tol", "IterativeImputer.tol")
  , ("IterativeImputer", "n_nearest_criteria", "IterativeImputer.n_nearest_features")
  , ("IterativeImputer", "initial_strategy", "IterativeImputer.initial_strategy")
  , ("IterativeImputer", "imputation_order", "IterativeImputer.imputation_order")
  , ("IterativeImputer", "min_value", "IterativeImputer.min_value")
  , ("IterativeImputer", "max_value", "IterativeImputer.max_value")
  , ("IterativeImputer", "verbose", "IterativeImputer.verbose")
  , ("IterativeImputer", "random_state", "IterativeImputer.random_state")
  , ("IterativeImputer", "keep_empty_criteria", "IterativeImputer.keep_empty_features")
  , ("IterativeImputer", "fill_value", "IterativeImputer.fill_value")
  , ("KNNImputer", "missing_values", "KNNImputer.missing_values")
  , ("KNNImputer", "n_neighbors", "KNNImputer.n_neighbors")
  , ("KNNImputer", "weights", "KNNImputer.weights")
  , ("KNNImputer", "metric", "KNNImputer.metric")
  , ("KNNImputer", "keep_empty_criteria", "KNNImputer.keep_empty_features") ]

/-- the hand-written expectation for a row of the generated table -/
def KwRow.declared (r : KwRow) : String :=
  match expectedKw.find? (fun e => e.1 == r.cls && e.2.1 == r.param) with
  | some e => e.2.2
  | none => "<constructor parameter without a declared keyword>"

end Skc.Impute
