/-! # L-model: equality and `diff` of decision matrices, results and rank comparators

Mirrors, operation by operation,
* `skcriteria/utils/object_diff.py` — `diff` (identity short-cut, different-types short-cut,
  member-wise comparison, `MISSING`), `aequals`, `equals`, `__eq__`, `__ne__`;
* `skcriteria/utils/dict_cmp.py` — `dict_allclose`;
* `skcriteria/core/data.py` — `DecisionMatrix.diff` (`same_shape` guard, per-member comparators);
* `skcriteria/agg/_agg_base.py` — `ResultABC.diff`;
* `skcriteria/cmp/ranks_cmp.py` — `RanksComparator.diff`;
* NumPy: `np.allclose` is `|a − b| ≤ atol + rtol·|b|` cell by cell (one-sided in `b`), NaN cells are
  close only to NaN cells and only with `equal_nan`; `np.array_equal` is shape + cell equality
  (NaN ≠ NaN); without a shape guard `np.allclose` broadcasts (a length-1 operand is repeated) and
  raises `ValueError` on other length mismatches; on object dtype it raises `TypeError`.

Import-free (core Lean only) and polymorphic in the scalar through core classes, so the driver runs
it at `Rat`. A cell is an `Option α`: `none` is NaN. Integer and boolean arrays are embedded into
`α` (`True = 1`), which is what NumPy's promotion does before comparing.

The code as it is now (`fix:` shape guard before `np.allclose`; `fix:` extras get the caller's
tolerances; `fix:` object dtype is compared exactly instead of raising) is `diff` / `dmDiff` /
`resDiff` / `rcmpDiff`; the earlier behaviours are kept as `…_v0` (original) and `…_v1`
(shape guard and tolerances repaired, object dtype still raising). -/
namespace Skc.Diff
universe u

/-- the exceptions the compared code can raise -/
inductive Err where
  | valueError
  | typeError
  deriving DecidableEq, Repr

/-- `rtol`, `atol`, `equal_nan` -/
structure Tol (α : Type u) where
  rtol : α
  atol : α
  equalNan : Bool

/-- an `ndarray`: shape, row-major cells, and whether its dtype is `object` -/
structure NArr (α : Type u) where
  shape : List Nat
  cells : List (Option α)
  obj : Bool := false

section cells
variable {α : Type u} [Add α] [Sub α] [Mul α] [Neg α] [LE α] [DecidableLE α] [OfNat α 0] [DecidableEq α]

def absv (x : α) : α := if (0 : α) ≤ x then x else -x

/-- `equals` calls `aequals(rtol=0, atol=0, equal_nan=False, check_dtypes=True)` -/
def exact : Tol α := ⟨0, 0, false⟩

/-- one cell of `np.isclose(a, b, rtol, atol, equal_nan)` -/
def closeCell (t : Tol α) : Option α → Option α → Bool
  | some x, some y => decide (absv (x - y) ≤ t.atol + t.rtol * absv y)
  | none, none => t.equalNan
  | _, _ => false

/-- one cell of `a == b` (NaN is not equal to NaN) -/
def eqCell : Option α → Option α → Bool
  | some x, some y => decide (x = y)
  | _, _ => false

/-- all cells close, for two arrays of the same shape (`false` if the cell counts differ, which
same-shape arrays never do) -/
def cellsClose (t : Tol α) : List (Option α) → List (Option α) → Bool
  | [], [] => true
  | x :: xs, y :: ys => closeCell t x y && cellsClose t xs ys
  | _, _ => false

def cellsEq : List (Option α) → List (Option α) → Bool
  | [], [] => true
  | x :: xs, y :: ys => eqCell x y && cellsEq xs ys
  | _, _ => false

/-- `np.array_equal(a, b)` on arrays: same shape and all cells equal -/
def arrEqual (a b : NArr α) : Bool := decide (a.shape = b.shape) && cellsEq a.cells b.cells

/-- `np.allclose` on two arrays of the same shape; on object dtype (`TypeError` inside
`np.allclose`) the repaired code falls back to `np.array_equal` -/
def dataClose (t : Tol α) (a b : NArr α) : Bool :=
  if a.obj || b.obj then cellsEq a.cells b.cells else cellsClose t a.cells b.cells

/-- shape guard, then `np.allclose` -/
def arrClose (t : Tol α) (a b : NArr α) : Bool :=
  if a.shape = b.shape then dataClose t a b else false

/-! ### the earlier behaviour of `np.allclose` call sites -/

/-- `np.allclose` on two 1-D arrays *without* a shape guard: equal lengths compare cell by cell, a
length-1 operand is broadcast, anything else is `ValueError: operands could not be broadcast` -/
def bcastClose (t : Tol α) (a b : List (Option α)) : Except Err Bool :=
  if a.length = b.length then .ok (cellsClose t a b)
  else match a, b with
    | [x], _ => .ok (b.all fun y => closeCell t x y)
    | _, [y] => .ok (a.all fun x => closeCell t x y)
    | _, _ => .error .valueError

/-- the `np.allclose` call site before the repairs. `guard = false`: no shape comparison first
(1-D operands broadcast or raise; other ranks are outside this model and answer `ValueError` when
the shapes differ). Object dtype: `TypeError` from `isfinite`. -/
def arrCloseOld (guard : Bool) (t : Tol α) (a b : NArr α) : Except Err Bool :=
  if a.shape = b.shape then
    (if a.obj || b.obj then .error .typeError else .ok (cellsClose t a.cells b.cells))
  else if guard then .ok false
  else match a.shape, b.shape with
    | [_], [_] => if a.obj || b.obj then .error .typeError else bcastClose t a.cells b.cells
    | _, _ => .error .valueError

end cells

/-! ## extras: `dict_allclose` -/

/-- a value stored in `extra_`: float arrays, exact (int / bool / object) arrays, Python ints,
strings, Python floats, and dictionaries. A dictionary is `dnil` or `dcons key value rest`. -/
inductive EVal (α : Type u) where
  | farr (a : NArr α)
  | xarr (a : NArr α)
  | int (i : Int)
  | str (s : String)
  | flt (x : Option α)
  | dnil
  | dcons (k : String) (v : EVal α) (rest : EVal α)

namespace EVal
variable {α : Type u}

def isDict : EVal α → Bool
  | dnil => true
  | dcons _ _ _ => true
  | _ => false

def keys : EVal α → List String
  | dcons k _ rest => k :: keys rest
  | _ => []

/-- `d[k]` -/
def find? (k : String) : EVal α → Option (EVal α)
  | dcons k' v rest => if k' = k then some v else find? k rest
  | _ => none

end EVal

/-- `len(set(left) | set(right)) == len(left) == len(right)`: for dictionaries (no repeated keys)
this says the two key sets are equal -/
def keysEq {α : Type u} (a b : EVal α) : Bool :=
  a.keys.all (fun k => decide (k ∈ b.keys)) && b.keys.all (fun k => decide (k ∈ a.keys))

namespace EVal
variable {α : Type u}

/-- what every Python dictionary satisfies: no key twice, at any depth (and the tail of a
dictionary is a dictionary) -/
def valid : EVal α → Bool
  | dcons k v rest => !(decide (k ∈ rest.keys)) && rest.isDict && v.valid && rest.valid
  | _ => true

/-- no NaN anywhere -/
def finite : EVal α → Bool
  | farr a => a.cells.all Option.isSome
  | xarr a => a.cells.all Option.isSome
  | flt x => x.isSome
  | dcons _ v rest => v.finite && rest.finite
  | _ => true

end EVal

section extras
variable {α : Type u} [Add α] [Sub α] [Mul α] [Neg α] [LE α] [DecidableLE α] [OfNat α 0] [DecidableEq α]

/-- comparison of two non-dictionary values: `type(left) is type(right)` (else `False`), a float
`ndarray` on the left uses the guarded `np.allclose`, everything else `np.array_equal` -/
def leafClose (t : Tol α) : EVal α → EVal α → Bool
  | .farr a, .farr b => arrClose t a b
  | .farr a, .xarr b => arrClose t a b
  | .xarr a, .farr b => arrEqual a b
  | .xarr a, .xarr b => arrEqual a b
  | .int i, .int j => decide (i = j)
  | .str s, .str u => decide (s = u)
  | .flt x, .flt y => eqCell x y
  | _, _ => false

/-- The loop of `dict_allclose` and the comparison of one pair of values.

On leaves: `leafClose`. On a dictionary node `a`: `b` is a dictionary and every entry of `a` has a
partner under the same key in `b` that compares equal (`valClose`, below, adds the key-set test,
which `dict_allclose` does once per dictionary). -/
def entriesClose (t : Tol α) : EVal α → EVal α → Bool
  | .dnil, b => b.isDict
  | .dcons k v rest, b =>
      b.isDict &&
      (match b.find? k with
        | some w => keysEq v w && entriesClose t v w
        | none => false) &&
      entriesClose t rest b
  | a, b => leafClose t a b

/-- comparison of two stored values; on dictionaries this is `dict_allclose(a, b, rtol, atol, equal_nan)` -/
def valClose (t : Tol α) (a b : EVal α) : Bool := keysEq a b && entriesClose t a b

/-- `dict_allclose` before the repairs: float arrays through the unguarded `np.allclose`
(`guard = false`), `TypeError` when the other array has object dtype; the loop stops at the first
`False` (entries are visited in the order of the left dictionary) -/
def leafCloseOld (guard : Bool) (t : Tol α) : EVal α → EVal α → Except Err Bool
  | .farr a, .farr b => arrCloseOld guard t a b
  | .farr a, .xarr b => arrCloseOld guard t a b
  | a, b => .ok (leafClose t a b)

def entriesCloseOld (guard : Bool) (t : Tol α) : EVal α → EVal α → Except Err Bool
  | .dnil, b => .ok b.isDict
  | .dcons k v rest, b =>
      if !b.isDict then .ok false
      else match b.find? k with
        | none => .ok false
        | some w =>
          if !keysEq v w then .ok false
          else match entriesCloseOld guard t v w with
            | .error e => .error e
            | .ok false => .ok false
            | .ok true => entriesCloseOld guard t rest b
  | a, b => leafCloseOld guard t a b

def valCloseOld (guard : Bool) (t : Tol α) (a b : EVal α) : Except Err Bool :=
  if keysEq a b then entriesCloseOld guard t a b else .ok false

end extras

/-! ## the generic `diff` of `object_diff.py` -/

/-- `type(obj)` -/
inductive PyType where
  | dm
  | rank
  | kernel
  | rcmp
  | other (name : String)
  deriving DecidableEq

/-- `_Difference`: `different_types` and the names in `members_diff` (in the order of the loop) -/
structure Difference where
  differentTypes : Bool
  members : List String
  deriving DecidableEq, Repr

/-- `has_differences` -/
def Difference.hasDifferences (d : Difference) : Bool := d.differentTypes || !d.members.isEmpty

/-- one entry of `**members`: the name, whether `getattr(·, name, MISSING)` is `MISSING` on either
side, and the comparison `member_cmp(lvalue, rvalue)` (run only when the loop reaches it) -/
structure Member where
  name : String
  lmissing : Bool := false
  rmissing : Bool := false
  cmp : Unit → Except Err Bool

/-- the `for member, member_cmp in members.items()` loop: a member missing on exactly one side is a
difference, otherwise it is one iff the comparison answers `False`; an exception ends the loop -/
def membersLoop : List Member → Except Err (List String)
  | [] => .ok []
  | m :: ms =>
    match (if m.lmissing != m.rmissing then Except.ok false else m.cmp ()) with
    | .error e => .error e
    | .ok same =>
      match membersLoop ms with
      | .error e => .error e
      | .ok rest => .ok (if same then rest else m.name :: rest)

/-- `diff(left, right, **members)`: `left is right` or different types end it before any member -/
def diffGeneric (identical : Bool) (lt rt : PyType) (members : List Member) : Except Err Difference :=
  if identical || lt != rt then .ok ⟨lt != rt, []⟩
  else match membersLoop members with
    | .error e => .error e
    | .ok ms => .ok ⟨false, ms⟩

/-! ## the three kinds of objects -/

/-- a `DecisionMatrix`: `oid` is the object's identity (`is`) -/
structure DM (α : Type u) where
  oid : Nat
  shape : List Nat
  alternatives : List String
  criteria : List String
  objectives : List Int
  weights : List (Option α)
  matrix : NArr α
  dtypes : List String

inductive ResKind where
  | rank
  | kernel
  deriving DecidableEq

/-- a `RankResult` / `KernelResult` -/
structure Res (α : Type u) where
  oid : Nat
  kind : ResKind
  method : String
  alternatives : List String
  values : NArr α
  extra : EVal α

/-- a `RanksComparator`: its list of `(name, RankResult)` -/
structure Rcmp (α : Type u) where
  oid : Nat
  ranks : List (String × Res α)

/-- anything that can stand on either side of `==` -/
inductive Obj (α : Type u) where
  | dm (d : DM α)
  | res (r : Res α)
  | rcmp (c : Rcmp α)
  | other (oid : Nat) (type : String)

namespace Obj
variable {α : Type u}

def oid : Obj α → Nat
  | dm d => d.oid
  | res r => r.oid
  | rcmp c => c.oid
  | other i _ => i

def pyType : Obj α → PyType
  | dm _ => .dm
  | res r => match r.kind with
    | .rank => .rank
    | .kernel => .kernel
  | rcmp _ => .rcmp
  | other _ n => .other n

end Obj

def Res.pyType {α : Type u} (r : Res α) : PyType := (Obj.res r).pyType

/-! ### well-formed, finite-valued objects; copies -/

/-- `extra_` is a dictionary without repeated keys -/
def Res.valid {α : Type u} (r : Res α) : Bool := r.extra.isDict && r.extra.valid

/-- no NaN in the values or the extras -/
def Res.finite {α : Type u} (r : Res α) : Bool := r.values.cells.all Option.isSome && r.extra.finite

def Obj.valid {α : Type u} : Obj α → Bool
  | .res r => r.valid
  | .rcmp c => c.ranks.all fun p => p.2.valid
  | _ => true

/-- finite-valued: no NaN in weights, matrix, values, extras -/
def Obj.finite {α : Type u} : Obj α → Bool
  | .dm d => d.weights.all Option.isSome && d.matrix.cells.all Option.isSome
  | .res r => r.finite
  | .rcmp c => c.ranks.all fun p => p.2.finite
  | .other _ _ => true

def Res.strip {α : Type u} (r : Res α) : Res α := { r with oid := 0 }

/-- the object without its identity: `x.strip = y.strip` says that `y` is a copy of `x` / was
constructed from the same data (deep or shallow: the identities of the parts do not matter) -/
def Obj.strip {α : Type u} : Obj α → Obj α
  | .dm d => .dm { d with oid := 0 }
  | .res r => .res r.strip
  | .rcmp c => .rcmp ⟨0, c.ranks.map fun p => (p.1, p.2.strip)⟩
  | .other _ n => .other 0 n

section objects
variable {α : Type u} [Add α] [Sub α] [Mul α] [Neg α] [LE α] [DecidableLE α] [OfNat α 0] [DecidableEq α]

/-! ### `DecisionMatrix.diff` -/

/-- the `members` dictionary of `DecisionMatrix.diff`, in its order: `shape` with
`np.array_equal`; `criteria`, `alternatives`, `objectives` (and `dtypes` with `check_dtypes`) with
`same_shape and np.array_equal`; `weights`, `matrix` with `same_shape and np.allclose` (object
dtype: exact) -/
def dmMembers (t : Tol α) (checkDtypes : Bool) (sameShape : Bool) (d e : DM α) : List Member :=
  [ { name := "shape", cmp := fun _ => .ok (decide (d.shape = e.shape)) },
    { name := "criteria", cmp := fun _ => .ok (sameShape && decide (d.criteria = e.criteria)) },
    { name := "alternatives", cmp := fun _ => .ok (sameShape && decide (d.alternatives = e.alternatives)) },
    { name := "objectives", cmp := fun _ => .ok (sameShape && decide (d.objectives = e.objectives)) },
    { name := "weights", cmp := fun _ => .ok (sameShape && cellsClose t d.weights e.weights) },
    { name := "matrix", cmp := fun _ => .ok (sameShape && dataClose t d.matrix e.matrix) } ] ++
  (if checkDtypes then
    [ { name := "dtypes", cmp := fun _ => .ok (sameShape && decide (d.dtypes = e.dtypes)) } ]
   else [])

/-- `DecisionMatrix.diff(self, other, rtol, atol, equal_nan, check_dtypes)` -/
def dmDiff (t : Tol α) (checkDtypes : Bool) (d : DM α) (y : Obj α) : Except Err Difference :=
  match y with
  | .dm e =>
    -- same_shape = np.shape(self) == np.shape(other) if isinstance(other, DecisionMatrix) else False
    let sameShape := decide (d.shape = e.shape)
    diffGeneric (d.oid == e.oid) .dm .dm (dmMembers t checkDtypes sameShape d e)
  | _ => diffGeneric (d.oid == y.oid) .dm y.pyType []

/-- before the object-dtype repair: `same_shape and np.allclose(matrix…)` raises `TypeError` -/
def dmMembers_v0 (t : Tol α) (checkDtypes : Bool) (sameShape : Bool) (d e : DM α) : List Member :=
  (dmMembers t checkDtypes sameShape d e).map fun m =>
    if m.name = "matrix" then
      { m with cmp := fun _ =>
          if !sameShape then .ok false
          else if d.matrix.obj || e.matrix.obj then .error .typeError
          else .ok (cellsClose t d.matrix.cells e.matrix.cells) }
    else m

def dmDiff_v0 (t : Tol α) (checkDtypes : Bool) (d : DM α) (y : Obj α) : Except Err Difference :=
  match y with
  | .dm e =>
    let sameShape := decide (d.shape = e.shape)
    diffGeneric (d.oid == e.oid) .dm .dm (dmMembers_v0 t checkDtypes sameShape d e)
  | _ => diffGeneric (d.oid == y.oid) .dm y.pyType []

/-! ### `ResultABC.diff` -/

/-- `method`, `alternatives` with `np.array_equal`; `values` with the guarded `np.allclose`;
`extra_` with `dict_allclose` at the caller's tolerances -/
def resMembers (t : Tol α) (r s : Res α) : List Member :=
  [ { name := "method", cmp := fun _ => .ok (decide (r.method = s.method)) },
    { name := "alternatives", cmp := fun _ => .ok (decide (r.alternatives = s.alternatives)) },
    { name := "values", cmp := fun _ => .ok (arrClose t r.values s.values) },
    { name := "extra_", cmp := fun _ => .ok (valClose t r.extra s.extra) } ]

/-- `ResultABC.diff(self, other, rtol, atol, equal_nan, check_dtypes)` -/
def resDiff (t : Tol α) (r : Res α) (y : Obj α) : Except Err Difference :=
  match y with
  | .res s => diffGeneric (r.oid == s.oid) r.pyType s.pyType (resMembers t r s)
  | _ => diffGeneric (r.oid == y.oid) r.pyType y.pyType []

/-- the members before the repairs. `guard = false, forward = false` is the original code: `values`
through `np.allclose` without a shape guard, `extra_` through `dict_allclose` called with its own
default tolerances `dflt` whatever the caller passed. `guard = forward = true`: shapes compared
first and tolerances forwarded, object dtype still raising. -/
def resMembersOld (guard forward : Bool) (dflt t : Tol α) (r s : Res α) : List Member :=
  [ { name := "method", cmp := fun _ => .ok (decide (r.method = s.method)) },
    { name := "alternatives", cmp := fun _ => .ok (decide (r.alternatives = s.alternatives)) },
    { name := "values", cmp := fun _ => arrCloseOld guard t r.values s.values },
    { name := "extra_", cmp := fun _ => valCloseOld guard (if forward then t else dflt) r.extra s.extra } ]

def resDiffOld (guard forward : Bool) (dflt t : Tol α) (r : Res α) (y : Obj α) : Except Err Difference :=
  match y with
  | .res s => diffGeneric (r.oid == s.oid) r.pyType s.pyType (resMembersOld guard forward dflt t r s)
  | _ => diffGeneric (r.oid == y.oid) r.pyType y.pyType []

/-- the original `ResultABC.diff` -/
def resDiff_v0 (dflt t : Tol α) (r : Res α) (y : Obj α) : Except Err Difference :=
  resDiffOld false false dflt t r y

/-- `ResultABC.diff` with the shape guard and forwarded tolerances, before the object-dtype repair -/
def resDiff_v1 (t : Tol α) (r : Res α) (y : Obj α) : Except Err Difference :=
  resDiffOld true true t t r y

/-! ### `RanksComparator.diff` -/

/-- `rank_allclose(ranks_a, ranks_b)`: lengths, then pairwise names and `ra.diff(rb, …)`; returns at
the first mismatch; `resD` is the result `diff` in use -/
def ranksCloseWith (resD : Res α → Obj α → Except Err Difference) :
    List (String × Res α) → List (String × Res α) → Except Err Bool
  | [], [] => .ok true
  | (n, r) :: as, (m, s) :: bs =>
    if as.length ≠ bs.length then .ok false
    else if n ≠ m then .ok false
    else match resD r (.res s) with
      | .error e => .error e
      | .ok d => if d.hasDifferences then .ok false else ranksCloseWith resD as bs
  | _, _ => .ok false

def rcmpDiffWith (resD : Res α → Obj α → Except Err Difference) (c : Rcmp α) (y : Obj α) :
    Except Err Difference :=
  match y with
  | .rcmp e => diffGeneric (c.oid == e.oid) .rcmp .rcmp
      [ { name := "ranks", cmp := fun _ => ranksCloseWith resD c.ranks e.ranks } ]
  | _ => diffGeneric (c.oid == y.oid) .rcmp y.pyType []

/-- `RanksComparator.diff(self, other, rtol, atol, equal_nan, check_dtypes)` -/
def rcmpDiff (t : Tol α) (c : Rcmp α) (y : Obj α) : Except Err Difference :=
  rcmpDiffWith (resDiff t) c y

/-! ### `x.diff(y, …)`, `aequals`, `equals`, `==`, `!=` -/

/-- `x.diff(y, rtol, atol, equal_nan, check_dtypes)`; `x` is one of the three kinds (an `other`
receiver has no `diff`: the model answers "different types" when the types differ) -/
def diff (t : Tol α) (checkDtypes : Bool) (x y : Obj α) : Except Err Difference :=
  match x with
  | .dm d => dmDiff t checkDtypes d y
  | .res r => resDiff t r y
  | .rcmp c => rcmpDiff t c y
  | .other i n => diffGeneric (i == y.oid) (.other n) y.pyType []

/-- the code before the repairs named by `ver`: `0` original, `1` shape guard and forwarded
tolerances but `TypeError` on object dtype -/
def diffOld (ver : Nat) (dflt t : Tol α) (checkDtypes : Bool) (x y : Obj α) : Except Err Difference :=
  let resD : Tol α → Res α → Obj α → Except Err Difference :=
    fun t => if ver = 0 then resDiff_v0 dflt t else resDiff_v1 t
  match x with
  | .dm d => dmDiff_v0 t checkDtypes d y
  | .res r => resD t r y
  | .rcmp c => rcmpDiffWith (resD t) c y
  | .other i n => diffGeneric (i == y.oid) (.other n) y.pyType []

/-- `aequals`: `not the_diff.has_differences` -/
def aequalsOf (d : Except Err Difference) : Except Err Bool :=
  match d with
  | .error e => .error e
  | .ok d => .ok (!d.hasDifferences)

def aequals (t : Tol α) (checkDtypes : Bool) (x y : Obj α) : Except Err Bool :=
  aequalsOf (diff t checkDtypes x y)

/-- `equals`: `aequals(other, rtol=0, atol=0, equal_nan=False, check_dtypes=True)` -/
def equals (x y : Obj α) : Except Err Bool := aequals exact true x y

/-- `__eq__` -/
def eq (x y : Obj α) : Except Err Bool := equals x y

/-- `__ne__`: `not self == other` -/
def ne (x y : Obj α) : Except Err Bool :=
  match eq x y with
  | .error e => .error e
  | .ok b => .ok (!b)

def aequalsOld (ver : Nat) (dflt t : Tol α) (checkDtypes : Bool) (x y : Obj α) : Except Err Bool :=
  aequalsOf (diffOld ver dflt t checkDtypes x y)

/-- `==` of the original code (`ver = 0`) / of the code before the object-dtype repair (`ver = 1`) -/
def eqOld (ver : Nat) (dflt : Tol α) (x y : Obj α) : Except Err Bool :=
  aequalsOld ver dflt exact true x y

end objects

/-- the exception an outcome carries, if any -/
def errOf {β : Type} : Except Err β → Option Err
  | .error e => some e
  | .ok _ => none

/-- the value an outcome carries, if any -/
def okOf {β : Type} : Except Err β → Option β
  | .error _ => none
  | .ok b => some b

end Skc.Diff
