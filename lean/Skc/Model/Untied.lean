/-! # L-model for C18: `RankResult.has_ties_ / untied_rank_ / to_series(untied=)` (`agg/_agg_base.py`)
and `RanksComparator._validate_ranks / to_dataframe / corr / cov / r2_score / distance`
(`cmp/ranks_cmp.py`).

Import-free (core Lean only).  A ranking is the list of its rank numbers in the order the
alternatives are listed; positions are `0 … n-1`.

* `argsortStable r` — `np.argsort(r, kind="stable")`: insertion sort of the *positions* by their key,
  an earlier position staying in front of a later one with the same key.
* `untied r` — the code as it is now: `if has_ties_: argsort(argsort(rank_)) + 1 else rank_`.
* `untiedAt r i` — the closed form `#{k | r k < r i} + #{k < i | r k = r i} + 1`.
* `untied_v0` — the code before the repair: `np.argsort(rank_) + 1` (positions, not ranks).
* `toFrame` — `to_dataframe`: one label-keyed column per ranking; pandas aligns by index label.
* `table` — the shape of `corr / cov / r2_score / distance`; the statistics are external. -/
namespace Skc.Untied

/-! ## `np.argsort(·, kind="stable")` -/

/-- insert position `i` in front of the first position whose key is not smaller
(`i` is a position *earlier* than all of the list, so equal keys keep their order) -/
def insertPos (r : List Nat) (i : Nat) : List Nat → List Nat
  | [] => [i]
  | j :: t => if r.getD i 0 ≤ r.getD j 0 then i :: j :: t else j :: insertPos r i t

/-- stable sort of a list of positions by their key in `r` -/
def argsortPos (r : List Nat) : List Nat → List Nat
  | [] => []
  | i :: t => insertPos r i (argsortPos r t)

/-- `np.argsort(r, kind="stable")`: the positions `0..n-1` ordered by key, ties by position -/
def argsortStable (r : List Nat) : List Nat := argsortPos r (List.range r.length)

/-! ## `has_ties_` -/

/-- `np.unique(values)` (only its length is used) -/
def uniq : List Nat → List Nat
  | [] => []
  | x :: t => if t.contains x then uniq t else x :: uniq t

/-- `len(np.unique(values)) != len(values)` -/
def hasTies (r : List Nat) : Bool := (uniq r).length != r.length

/-! ## `untied_rank_` -/

/-- the tied branch: `np.argsort(np.argsort(rank_, kind="stable"), kind="stable") + 1` -/
def untiedSorted (r : List Nat) : List Nat := (argsortStable (argsortStable r)).map (· + 1)

/-- `RankResult.untied_rank_` as it is now -/
def untied (r : List Nat) : List Nat := if hasTies r then untiedSorted r else r

/-- closed form: alternatives ranked strictly ahead, plus equally ranked ones listed earlier, plus one -/
def untiedAt (r : List Nat) (i : Nat) : Nat :=
  ((List.range r.length).filter (fun k => decide (r.getD k 0 < r.getD i 0))).length
    + ((List.range i).filter (fun k => r.getD k 0 == r.getD i 0)).length + 1

def untiedClosed (r : List Nat) : List Nat := (List.range r.length).map (untiedAt r)

/-- before the repair: `np.argsort(rank_) + 1` — the *positions* in rank order, not the ranks.
numpy's default `kind` is not stable (with the SIMD quicksort of numpy 1.26 the order among equal
ranks differs from the listing order already for 4 alternatives: `[2,2,1,1] ↦ [4,3,2,1]`), so the old
code's answer on ties was platform dependent; `untied_v0` takes the most favourable reading, a
stable sort — and is wrong even so (`[2,1,1] ↦ [2,3,1]`, which is also what numpy answers). -/
def untied_v0 (r : List Nat) : List Nat :=
  if hasTies r then (argsortStable r).map (· + 1) else r

/-! ## `RanksComparator` -/

/-- one `(name, RankResult)` entry: the alternatives in the ranking's own listing order and,
position by position, their ranks -/
structure Ranking where
  name : String
  alts : List String
  values : List Nat
  deriving Repr

/-- the ranking as a label-keyed series: `(alternative, rank)` in listing order -/
def Ranking.cells (R : Ranking) : List (String × Nat) := R.alts.zip R.values

/-- `rank.to_series(untied=True)`: same index, untied values -/
def Ranking.untie (R : Ranking) : Ranking := { R with values := untied R.values }

/-- rank of alternative `a` in ranking `R` (label lookup, `series[a]`) -/
def Ranking.rankOf (R : Ranking) (a : String) : Option Nat := R.cells.lookup a

def sameSet (xs ys : List String) : Bool := xs.all ys.contains && ys.all xs.contains

def hasDupName : List String → Bool
  | [] => false
  | x :: t => t.contains x || hasDupName t

/-- `RanksComparator._validate_ranks`: more than one ranking, distinct names, every ranking over the
alternatives of the first one -/
def validateRanks (rs : List Ranking) : Except String Unit :=
  match rs with
  | [] => .error "ValueError"
  | [_] => .error "ValueError"
  | r0 :: t =>
    if hasDupName (rs.map (·.name)) then .error "ValueError"
    else if t.all (fun r => sameSet r0.alts r.alts) then .ok ()
    else .error "ValueError"

/-- insertion sort of labels (`Index.sort_values()`: code-point order) -/
def insertLabel (a : String) : List String → List String
  | [] => [a]
  | b :: t => if b < a then b :: insertLabel a t else a :: b :: t

def sortLabels : List String → List String
  | [] => []
  | a :: t => insertLabel a (sortLabels t)

/-- `Index.unique()` keeping first occurrences -/
def uniqLabels (seen : List String) : List String → List String
  | [] => []
  | a :: t => if seen.contains a then uniqLabels seen t else a :: uniqLabels (a :: seen) t

/-- row labels of the frame, `pandas.core.indexes.api.union_indexes`: if every ranking lists the
alternatives in the same order that order is kept; otherwise the union of the labels, sorted -/
def frameRows : List Ranking → List String
  | [] => []
  | r0 :: t =>
    if t.all (fun r => r.alts == r0.alts) then r0.alts
    else
      let index := uniqLabels [] r0.alts
      let other := (t.map (·.alts)).flatten
      sortLabels (index ++ uniqLabels index other)

/-- a data frame of ranks: row labels, column labels, and `cells[i][j]` for row `i`, column `j`
(`none` = NaN: the column's ranking does not know the row's alternative) -/
structure Frame where
  rows : List String
  cols : List String
  cells : List (List (Option Nat))
  deriving Repr

/-- `pd.DataFrame.from_dict({name: rank.to_series() …})`: each column is that ranking looked up
by the row's label -/
def toFrame (rs : List Ranking) : Frame :=
  let rows := frameRows rs
  { rows := rows, cols := rs.map (·.name), cells := rows.map fun a => rs.map fun R => R.rankOf a }

/-- `to_dataframe(untied=…)` -/
def toDataFrame (rs : List Ranking) (untied : Bool) : Frame :=
  toFrame (if untied then rs.map Ranking.untie else rs)

/-- position of the first element equal to `a` -/
def indexOf (a : String) : List String → Option Nat
  | [] => none
  | b :: t => if a == b then some 0 else (indexOf a t).map (· + 1)

/-- `frame[name][alt]`: label-based cell access -/
def Frame.at (f : Frame) (name alt : String) : Option Nat :=
  match indexOf alt f.rows, indexOf name f.cols with
  | some i, some j => ((f.cells.getD i []).getD j none)
  | _, _ => none

/-- `corr / cov / r2_score / distance`: a statistic `f` (pandas / sklearn / scipy — external) applied
to every pair of columns, rows and columns both in the order of the ranking names -/
def table {γ β} (f : γ → γ → β) (cols : List γ) : List (List β) :=
  cols.map fun a => cols.map fun b => f a b

/-! ## `decide`d facts -/

example : argsortStable [2, 1, 1] = [1, 2, 0] := by decide
example : untied [2, 1, 1] = [3, 1, 2] := by decide
example : untiedClosed [2, 1, 1] = [3, 1, 2] := by decide
example : untied [1, 3, 2] = [1, 3, 2] ∧ hasTies [1, 3, 2] = false := by decide
/-- the old defect: the worst alternative (rank 2, listed first) comes out second, ahead of the
alternative listed second which shares the best rank -/
example : untied_v0 [2, 1, 1] = [2, 3, 1] := by decide
/-- the only tied ranking in the test-suite: `argsort` happens to be its own inverse there -/
example : untied_v0 [1, 2, 1] = untied [1, 2, 1] := by decide

end Skc.Untied
