import Skc.Model.Num
/-! # L-model: weighting methods
`preprocessing/weighters.py` (`equal_weights`, `std_weights`, `entropy_weights`, `critic_weights` and
the `SKCWeighterABC` classes around them) and `matrix_scale_by_cenit_distance` of
`preprocessing/scalers.py` — operation by operation, same reductions along the same axis, same
argument order.  Import-free; polymorphic in the scalar (`Rat` / `Float` in the driver, an ordered
field / `ℝ` in the proofs).

Library calls are modelled by what they compute on finite data:
* `np.std(a, axis=0, ddof=d)` (`numpy/_core/_methods.py::_var`): mean `= Σ/m`, deviations, their
  squares, `Σ / max(m − d, 0)`, `sqrt`;
* `scipy.stats.entropy(pk, base=b, axis=0)`: `pk / Σ pk`, `special.entr`, `Σ`, `/ log b`;
* `DataFrame.corr("pearson")` (`libalgos.nancorr`): `Σ(x−x̄)(y−ȳ) / sqrt(Σ(x−x̄)² · Σ(y−ȳ)²)`
  (the one-pass update and the final clip to `[−1, 1]` are not modelled: over an exact field they
  change nothing);
* `DataFrame.corr("spearman")` (`libalgos.nancorr_spearman`): the same on the columns' average ranks
  (`rank_1d`, ties → average of the positions).
Not modelled: NaN / inf (a constant criterion gives `0/0`; outside the property). -/
namespace Skc.Weighters
open Skc

section kernels
variable {α : Type} [Add α] [Sub α] [Mul α] [Div α] [Neg α] [OfNat α 0] [OfNat α 1] [NatCast α] [LT α] [LE α]
  [Max α] [Min α] [DecidableRel (α := α) (· < ·)] [DecidableRel (α := α) (· ≤ ·)]
variable {m n : Nat}

/-! ### materialised arrays
A NumPy expression bound to a name is computed once.  Compiled Lean re-evaluates a `Fin n → α`
closure at every look-up, so a named intermediate array is stored in a `Tab` (an `Array` of the
right size) and read through `Tab.get`; semantically `(tab f).get = f`. -/

structure Tab (n : Nat) (β : Type) where
  arr : Array β
  size_eq : arr.size = n

def Tab.get {β : Type} {n : Nat} (t : Tab n β) : Fin n → β := fun i => t.arr[i.val]'(by rw [t.size_eq]; exact i.isLt)
def tab {β : Type} {n : Nat} (f : Fin n → β) : Tab n β := ⟨Array.ofFn f, by simp⟩
def Tab.get2 {β : Type} {m n : Nat} (t : Tab m (Tab n β)) : Fin m → Fin n → β := fun i j => (t.get i).get j
def tab2 {β : Type} {m n : Nat} (f : Fin m → Fin n → β) : Tab m (Tab n β) := tab fun i => tab (f i)

/-! ### `equal_weights(matrix, base_value=1)` -/

/-- `ncriteria = np.shape(matrix)[1]; np.full(ncriteria, base_value / ncriteria)` — of the matrix
only the number of columns is used -/
def equalWeights (_matrix : Mat m n α) (baseValue : α) : Vec n α :=
  let weights := baseValue / (n : α)
  fun _ => weights

/-! ### `np.mean`, `np.std` along axis 0 -/

/-- `np.mean(matrix, axis=0)` -/
def colMean (A : Mat m n α) : Vec n α := fun j => (sumFin fun i => A i j) / (m : α)

/-- `np.std(matrix, axis=0, ddof=ddof)`; the divisor is `max(m − ddof, 0)` (truncated subtraction) -/
def colStd [MathFns α] (ddof : Nat) (A : Mat m n α) : Vec n α :=
  let mean := tab (colMean A)
  fun j => MathFns.sqrt ((sumFin fun i => (A i j - mean.get j) * (A i j - mean.get j)) / ((m - ddof : Nat) : α))

/-- normalise a vector by its sum: `v / np.sum(v)` -/
def normSum (v : Vec n α) : Vec n α :=
  let total := sumFin v
  fun j => v j / total

/-- `std_weights(matrix)`: `std = np.std(matrix, axis=0, ddof=1); std / np.sum(std)` -/
def stdWeights [MathFns α] (A : Mat m n α) : Vec n α :=
  let std := tab (colStd 1 A)
  normSum std.get

/-- the same with another `ddof` (used by `std_weights_ddof_irrelevant`; not what the code calls) -/
def stdWeightsDdof [MathFns α] (ddof : Nat) (A : Mat m n α) : Vec n α :=
  let std := tab (colStd ddof A)
  normSum std.get

/-! ### `entropy_weights(matrix)` -/

/-- `scipy.special.entr`: `−x log x` for `x > 0`, `0` at `0` (`−inf` for negative `x` is outside the
model: the property is about positive data) -/
def entr [MathFns α] (x : α) : α := if 0 < x then -(x * MathFns.log x) else 0

/-- `scipy.stats.entropy(matrix, base=base, axis=0)` -/
def scipyEntropy [MathFns α] (A : Mat m n α) (base : Nat) : Vec n α :=
  let tot := tab fun j => sumFin fun i => A i j
  let pk : Mat m n α := fun i j => A i j / tot.get j
  fun j => (sumFin fun i => entr (pk i j)) / MathFns.log (base : α)

/-- `base = len(matrix); entropy = scipy.stats.entropy(matrix, base=base, axis=0);
entropy_divergence = 1 - entropy; entropy_divergence / np.sum(entropy_divergence)` -/
def entropyWeights [MathFns α] (A : Mat m n α) : Vec n α :=
  let base := m
  let entropy := scipyEntropy A base
  let entropyDivergence := tab fun j => 1 - entropy j
  normSum entropyDivergence.get

/-! ### `matrix_scale_by_cenit_distance(matrix, objectives)` -/

/-- `maxs/mins = np.max/min(matrix, axis=0); where_max = objectives == MAX;
cenit = where(where_max, maxs, mins); nadir = where(where_max, mins, maxs);
(matrix - nadir) / (cenit - nadir)` -/
def cenitScale [NeZero m] (A : Mat m n α) (o : Vec n Obj) : Mat m n α :=
  let maxs : Vec n α := fun j => maxFin fun i => A i j
  let mins : Vec n α := fun j => minFin fun i => A i j
  let cenit : Vec n α := fun j => if o j = .max then maxs j else mins j
  let nadir : Vec n α := fun j => if o j = .max then mins j else maxs j
  fun i j => (A i j - nadir j) / (cenit j - nadir j)

/-! ### correlation matrices of the criteria (`pd.DataFrame(matrix).corr(method)`) -/

/-- Pearson: `r_jk = Σ_i (a_ij − ā_j)(a_ik − ā_k) / sqrt(Σ_i (a_ij − ā_j)² · Σ_i (a_ik − ā_k)²)` -/
def pearson [MathFns α] (A : Mat m n α) : Mat n n α :=
  let mean := tab (colMean A)
  let dev := tab2 fun i j => A i j - mean.get j
  let ssq := tab fun j => sumFin fun i => dev.get2 i j * dev.get2 i j
  fun j k => (sumFin fun i => dev.get2 i j * dev.get2 i k) / MathFns.sqrt (ssq.get j * ssq.get k)

/-- pandas `rank()` (method `"average"`, ascending) of one column: the number of strictly smaller
entries plus the mean position `(t + 1) / 2` inside the group of the `t` entries equal to it -/
def avgRank (x : Vec m α) : Vec m α := fun i =>
  let less := countFin fun k => decide (x k < x i)
  let equal := countFin fun k => decide (¬ x k < x i ∧ ¬ x i < x k)
  (less : α) + ((equal : α) + 1) / (1 + 1)

/-- every criterion replaced by its average ranks -/
def rankColumns (A : Mat m n α) : Mat m n α := fun i j => avgRank (fun i' => A i' j) i

/-- Spearman: Pearson of the average ranks -/
def spearman [MathFns α] (A : Mat m n α) : Mat n n α := pearson (tab2 (rankColumns A)).get2

/-- the `correlation` parameter of CRITIC (`"kendall"` and callables are outside the property) -/
inductive Corr | pearson | spearman
  deriving DecidableEq, Repr

def corrMatrix [MathFns α] (c : Corr) (A : Mat m n α) : Mat n n α :=
  match c with
  | .pearson => pearson A
  | .spearman => spearman A

/-! ### `critic_weights(matrix, objectives, correlation="pearson", scale=True)` -/

/-- `matrix = cenit_scale(matrix, objectives) if scale else matrix; dindex = np.std(matrix, axis=0);
corr_m1 = 1 - corr(matrix); uweights = dindex * np.sum(corr_m1, axis=0); uweights / np.sum(uweights)` -/
def criticWeights [MathFns α] [NeZero m] (A : Mat m n α) (o : Vec n Obj) (correlation : Corr) (scale : Bool) : Vec n α :=
  let matrix := tab2 (if scale then cenitScale A o else A)
  let dindex := colStd 0 matrix.get2
  let corr := tab2 (corrMatrix correlation matrix.get2)
  let corrM1 : Mat n n α := fun k j => 1 - corr.get2 k j
  let uweights := tab fun j => dindex j * sumFin fun k => corrM1 k j
  normSum uweights.get

/-! ### the weighter classes: `_weight_matrix(self, matrix, objectives, weights)` and `_transform_data` -/

/-- a configured weighter: class and constructor parameters -/
inductive Weighter (α : Type)
  | equal (baseValue : α)                      -- `EqualWeighter(base_value)`
  | std                                        -- `StdWeighter()`
  | entropy                                    -- `EntropyWeighter()`
  | critic (correlation : Corr) (scale : Bool) -- `CRITIC(correlation, scale)`

/-- `_weight_matrix`: Equal / Std / Entropy take `matrix` and swallow the rest in `**kwargs`;
CRITIC takes `matrix, objectives`; none of them reads the incoming `weights` -/
def Weighter.weightMatrix [MathFns α] [NeZero m] (W : Weighter α) (matrix : Mat m n α) (objectives : Vec n Obj)
    (_weights : Vec n α) : Vec n α :=
  match W with
  | .equal baseValue => equalWeights matrix baseValue
  | .std => stdWeights matrix
  | .entropy => entropyWeights matrix
  | .critic correlation scale => criticWeights matrix objectives correlation scale

/-- the parts of a decision matrix a weighter sees and returns -/
structure Data (m n : Nat) (α : Type) where
  matrix : Mat m n α
  objectives : Vec n Obj
  weights : Vec n α

/-- `SKCWeighterABC._transform_data`: `kwargs.update(matrix=matrix, objectives=objectives, weights=new_weights)` -/
def Weighter.transformData [MathFns α] [NeZero m] (W : Weighter α) (d : Data m n α) : Data m n α :=
  let newWeights := W.weightMatrix d.matrix d.objectives d.weights
  { matrix := d.matrix, objectives := d.objectives, weights := newWeights }

end kernels
end Skc.Weighters
