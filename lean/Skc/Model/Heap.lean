/-! # Model of C02 — decision matrices and results are values

Core Lean only. An explicit store (`heap : List Arr`, a reference is a position), one decision
matrix / result whose *internal* arrays are some references (`internal`), the objects memoised by
`lru_cache`d accessors (`memo`), and the references the caller holds (`handed`): the arrays it gave
to the constructor and everything an accessor or a method call has returned to it.

Mirrors, operation by operation:
* `DecisionMatrix.__init__` (`data_df.copy(deep=True)`, `np.array(..., copy=True)`): `construct`
  allocates a copy of every argument; the caller keeps the originals (`handed`), the matrix keeps the
  copies (`internal`).
* every public accessor is a row of a `Table`: its pure answer `compute k internals` and how the answer
  is handed out — `freshCopy` (`to_numpy(copy=True)`, `copy(deep=True)`, a frame built on the spot),
  `memoThenCopy` (`lru_cache` keeps one object, the caller gets a copy of it: `dominators_of` after the
  repair, everything computed from `_dominance_cache`), `memoShared` (`lru_cache` hands out the cached
  object itself: `dominators_of` before the repair, `methodtools.lru_cache` semantics of DESIGN §14).
* `transform` / `evaluate` / comparisons / the rank-reversal test: `call f` — the method reads the
  internal arrays (through `to_dict()`, i.e. copies) and hands a new object to the caller.
* the caller's writes: `write r i v` goes through iff the caller holds `r`; a write through a reference
  it was never given is impossible in Python and is a no-op here.

`answer T w k` is what reading accessor `k` would return now. The property is that no history changes
any `answer` (`Skc/Props/C02.lean`). -/
namespace Skc.Heap

abbrev Ref := Nat
abbrev Arr := List Int

/-- how an accessor hands out its answer -/
inductive Kind | freshCopy | memoThenCopy | memoShared
  deriving DecidableEq, Repr, Inhabited

/-- the accessor table: pure answer of accessor `k` from the internal arrays, and how it is handed out -/
structure Table where
  compute : Nat → List Arr → Arr
  kind : Nat → Kind

structure World where
  heap     : List Arr
  internal : List Ref
  memo     : List (Nat × Ref)
  handed   : List Ref

def World.get (w : World) (r : Ref) : Arr := w.heap.getD r []
def World.internals (w : World) : List Arr := w.internal.map w.get
def memoLookup (m : List (Nat × Ref)) (k : Nat) : Option Ref := (m.find? (·.1 == k)).map (·.2)

inductive Op
  | read (k : Nat)
  | write (r : Ref) (i : Nat) (v : Int)
  | call (f : List Arr → Arr)

def push (w : World) (a : Arr) : World := { w with heap := w.heap ++ [a] }

/-- allocate a new object and give it to the caller -/
def handOut (w : World) (a : Arr) : World := { push w a with handed := w.heap.length :: w.handed }

/-- store the answer of accessor `k` in its cache (a new object nobody else holds) -/
def memoize (T : Table) (w : World) (k : Nat) : World :=
  { push w (T.compute k w.internals) with memo := (k, w.heap.length) :: w.memo }

def step (T : Table) (w : World) : Op → World
  | .read k =>
    match T.kind k with
    | .freshCopy => handOut w (T.compute k w.internals)
    | .memoThenCopy =>
      match memoLookup w.memo k with
      | some c => handOut w (w.get c)
      | none => handOut (memoize T w k) (T.compute k w.internals)
    | .memoShared =>
      match memoLookup w.memo k with
      | some c => { w with handed := c :: w.handed }
      | none => let w' := memoize T w k; { w' with handed := w.heap.length :: w'.handed }
  | .write r i v =>
    if r ∈ w.handed then { w with heap := w.heap.modify r (·.set i v) } else w
  | .call f => handOut w (f w.internals)

def run (T : Table) (w : World) (ops : List Op) : World := ops.foldl (step T) w

/-- what reading accessor `k` would return now -/
def answer (T : Table) (w : World) (k : Nat) : Arr :=
  match memoLookup w.memo k with
  | some r => w.get r
  | none => T.compute k w.internals

/-- `DecisionMatrix(data_df, objectives, weights)`: every argument is copied; the caller keeps its own
arrays (references `0 … n-1`), the matrix owns the copies (references `n … 2n-1`) -/
def construct (args : List Arr) : World :=
  { heap := args ++ args
    internal := (List.range args.length).map (· + args.length)
    memo := []
    handed := List.range args.length }

/-- a constructor that keeps the caller's arrays `keep` instead of copying them (the mutant
`np.array(weights, copy=False)`; `mkdm` before the repair kept the label arrays): those references of the
caller are roots of the matrix -/
def constructKeeping (keep : List Nat) (args : List Arr) : World :=
  let w := construct args
  { w with internal := w.internal.map fun r => if (r - args.length) ∈ keep then r - args.length else r }

/-- separation + allocation + memo consistency -/
structure Inv (T : Table) (w : World) : Prop where
  sepInt  : ∀ r ∈ w.handed, r ∉ w.internal
  sepMemo : ∀ r ∈ w.handed, ∀ p ∈ w.memo, p.2 ≠ r
  intIn   : ∀ r ∈ w.internal, r < w.heap.length
  memoIn  : ∀ p ∈ w.memo, p.2 < w.heap.length
  handIn  : ∀ r ∈ w.handed, r < w.heap.length
  memoOK  : ∀ p ∈ w.memo, w.get p.2 = T.compute p.1 w.internals

/-- the only steps that can break the property: reading an accessor that hands out its cache -/
def noShared (T : Table) : Op → Prop
  | .read k => T.kind k ≠ .memoShared
  | _ => True

/-! ## The generated accessor table (`Skc/Generated/Accessors.lean`, rewritten by `harness/extract.py`) -/

/-- one public accessor of `DecisionMatrix` / `dominance` / `stats` / `RankResult` / `KernelResult`, with the
hand-out kind observed on the live objects and whether the returned object refuses `obj[i] = v` -/
structure Accessor where
  name : String
  kind : Kind
  guarded : Bool
  deriving Repr

def kindOf (accs : List Accessor) (k : Nat) : Kind :=
  match accs[k]? with
  | some a => a.kind
  | none => .freshCopy

def guardedOf (accs : List Accessor) (k : Nat) : Bool :=
  match accs[k]? with
  | some a => a.guarded
  | none => false

def tableOf (accs : List Accessor) (compute : Nat → List Arr → Arr) : Table :=
  { compute := compute, kind := kindOf accs }

/-! ## Histories as the harness writes them

A step refers to "what step `src` returned", not to a reference. `Act.write src i raw` is the caller
writing position `i` of that object (a value different from the present one: `old + 1`); `raw = false` is
plain `obj[i] = v`, which a guarded object (`_ACArray`) refuses; `raw = true` is every route around the
guard (`np.ndarray.__setitem__`, `.flat`, `.view`, …). `Act.mutarg a i` is the caller writing into the
`a`-th array it gave to the constructor. -/

inductive Act
  | read (k : Nat)
  | write (src : Nat) (i : Nat) (raw : Bool)
  | call
  | mutarg (a : Nat) (i : Nat)

/-- what a method call returns in the executable model: it has read every internal array -/
def callResult (ints : List Arr) : Arr := ints.flatten

structure StepOut where
  applied : Bool            -- a write: was it carried out (`false`: refused / no such object)
  ref : Option Ref          -- the object handed to the caller by this step
  answers : List Arr        -- the answer of every accessor after the step

structure Trace where
  world : World
  got : List (Option (Ref × Option Nat))   -- per past step: the object it returned and the accessor it came from
  outs : List StepOut

def answers (T : Table) (n : Nat) (w : World) : List Arr := (List.range n).map (answer T w)

def bump (w : World) (r : Ref) (i : Nat) : Op := .write r i ((w.get r).getD i 0 + 1)

/-- one step of a harness history: translate to the `Op` it stands for, or refuse -/
def act (T : Table) (guarded : Nat → Bool) (n : Nat) (t : Trace) : Act → Trace
  | .read k =>
    let w' := step T t.world (.read k)
    { world := w', got := t.got ++ [w'.handed.head?.map (·, some k)],
      outs := t.outs ++ [{ applied := true, ref := w'.handed.head?, answers := answers T n w' }] }
  | .call =>
    let w' := step T t.world (.call callResult)
    { world := w', got := t.got ++ [w'.handed.head?.map (·, none)],
      outs := t.outs ++ [{ applied := true, ref := w'.handed.head?, answers := answers T n w' }] }
  | .write src i raw =>
    match t.got.getD src none with
    | none => { t with got := t.got ++ [none], outs := t.outs ++ [{ applied := false, ref := none, answers := answers T n t.world }] }
    | some (r, from?) =>
      let refused : Bool := match from? with
        | some k => guarded k && !raw
        | none => false
      if refused || decide (i ≥ (t.world.get r).length) then
        { t with got := t.got ++ [none], outs := t.outs ++ [{ applied := false, ref := none, answers := answers T n t.world }] }
      else
        let w' := step T t.world (bump t.world r i)
        { world := w', got := t.got ++ [none], outs := t.outs ++ [{ applied := true, ref := none, answers := answers T n w' }] }
  | .mutarg a i =>
    if a ∈ t.world.handed ∧ i < (t.world.get a).length then
      let w' := step T t.world (bump t.world a i)
      { world := w', got := t.got ++ [none], outs := t.outs ++ [{ applied := true, ref := none, answers := answers T n w' }] }
    else
      { t with got := t.got ++ [none], outs := t.outs ++ [{ applied := false, ref := none, answers := answers T n t.world }] }

def runActs (T : Table) (guarded : Nat → Bool) (n : Nat) (w : World) (acts : List Act) : Trace :=
  acts.foldl (act T guarded n) { world := w, got := [], outs := [] }

end Skc.Heap
