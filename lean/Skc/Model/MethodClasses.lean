import Skc.Model.Pipeline
import Skc.Generated.Classes
/-! # C16 model — the constructors of the concrete method classes

One `ClassSpec` per concrete class of `skcriteria.agg`, `skcriteria.preprocessing`,
`skcriteria.pipeline`, `skcriteria.cmp`: the arguments of `__init__` in signature order with their
defaults and what the constructor does to each before storing it (read off each `__init__`), the
arguments it accepts but never exposes, the cross-argument validation.  The finite string domains
(`TOPSIS.metric`, `CRITIC.correlation`, …) come from the generated table.  No imports beyond the model
and the generated table (core Lean only).

Non-finite floats (`nan`, `inf`, `-inf` — defaults of the imputers, stored as given) are the objects
`nanV`, `infV`, `ninfV`. -/
namespace Skc.Pipeline

def choicesOf (cls param : String) : List String :=
  match Skc.Generated.choices.find? (fun t => t.1 == cls && t.2.1 == param) with
  | some t => t.2.2
  | none => []

def vNone : Val := .atom .none
def vBool (b : Bool) : Val := .atom (.bool b)
def vInt (i : Int) : Val := .atom (.int i)
def vFloat (q : Rat) : Val := .atom (.float q)
def vStr (s : String) : Val := .atom (.str s)
/-- the doubles nearest to 0.65, 0.35, 0.001 (Python float literals of the defaults), exactly -/
def d065 : Rat := 5854679515581645 / 9007199254740992
def d035 : Rat := 3152519739159347 / 9007199254740992
def d0001 : Rat := 1152921504606847 / 1152921504606846976

def nanV : Val := .atom (.obj 1)
def infV : Val := .atom (.obj 2)
def ninfV : Val := .atom (.obj 3)

def fTarget : Field := ⟨"target", none, .oneOf ["matrix", "weights", "both"]⟩
def fIgnoreMissing : Field := ⟨"ignore_missing_criteria", some (vBool false), .bool⟩

def noParams (name : String) : ClassSpec := { name := name, declared := [], fields := [] }
def targetOnly (name : String) : ClassSpec := { name := name, declared := ["target"], fields := [fTarget] }
def byCriteriaFilter (name : String) (co : Coercion) : ClassSpec :=
  { name := name, declared := ["criteria_filters", "ignore_missing_criteria"],
    fields := [⟨"criteria_filters", none, co⟩, fIgnoreMissing] }
def critic (name : String) : ClassSpec :=
  { name := name, declared := ["correlation", "scale"],
    fields := [⟨"correlation", some (vStr "pearson"), .oneOfOrCallable (choicesOf name "correlation")⟩,
               ⟨"scale", some (vBool true), .bool⟩] }

/-- every concrete method class, sorted by name -/
def classSpecs : List ClassSpec := [
  { name := "AddValueToZero", declared := ["target", "value"],
    fields := [fTarget, ⟨"value", some (vFloat 1), .float⟩] },
  critic "CRITIC",
  noParams "CenitDistance",
  noParams "CenitDistanceMatrixScaler",
  critic "Critic",
  { name := "ELECTRE1", declared := ["p", "q"],
    fields := [⟨"p", some (vFloat d065), .float⟩, ⟨"q", some (vFloat d035), .float⟩],
    check := .unit ["p", "q"] },
  { name := "ELECTRE2", declared := ["p0", "p1", "p2", "q0", "q1"],
    fields := [⟨"p0", some (vFloat d065), .float⟩, ⟨"p1", some (vFloat (1 / 2)), .float⟩,
               ⟨"p2", some (vFloat d035), .float⟩, ⟨"q0", some (vFloat d065), .float⟩,
               ⟨"q1", some (vFloat d035), .float⟩],
    check := .chains [["p0", "p1", "p2"], ["q0", "q1"]] },
  noParams "EntropyWeighter",
  { name := "EqualWeighter", declared := ["base_value"], fields := [⟨"base_value", some (vFloat 1), .float⟩] },
  byCriteriaFilter "Filter" .fnFilters,
  byCriteriaFilter "FilterEQ" .arithFilters,
  byCriteriaFilter "FilterGE" .arithFilters,
  byCriteriaFilter "FilterGT" .arithFilters,
  byCriteriaFilter "FilterIn" .setFilters,
  byCriteriaFilter "FilterLE" .arithFilters,
  byCriteriaFilter "FilterLT" .arithFilters,
  byCriteriaFilter "FilterNE" .arithFilters,
  { name := "FilterNonDominated", declared := ["strict"], fields := [⟨"strict", some (vBool false), .bool⟩] },
  byCriteriaFilter "FilterNotIn" .setFilters,
  noParams "FullMultiplicativeForm",
  noParams "InvertMinimize",
  { name := "IterativeImputer",
    declared := ["estimator", "fill_value", "imputation_order", "initial_strategy", "keep_empty_criteria", "max_iter",
                 "max_value", "min_value", "missing_values", "n_nearest_criteria", "random_state", "sample_posterior",
                 "tol", "verbose"],
    fields := [⟨"estimator", some vNone, .keep⟩, ⟨"missing_values", some nanV, .keep⟩,
               ⟨"sample_posterior", some (vBool false), .keep⟩, ⟨"max_iter", some (vInt 10), .keep⟩,
               ⟨"tol", some (vFloat d0001), .keep⟩, ⟨"n_nearest_criteria", some vNone, .keep⟩,
               ⟨"initial_strategy", some (vStr "mean"), .keep⟩, ⟨"imputation_order", some (vStr "ascending"), .keep⟩,
               ⟨"min_value", some ninfV, .keep⟩, ⟨"max_value", some infV, .keep⟩, ⟨"verbose", some (vInt 0), .keep⟩,
               ⟨"random_state", some vNone, .keep⟩, ⟨"keep_empty_criteria", some (vBool false), .keep⟩,
               ⟨"fill_value", some vNone, .keep⟩],
    ignored := ["skip_complete"] },
  { name := "KNNImputer", declared := ["keep_empty_criteria", "metric", "missing_values", "n_neighbors", "weights"],
    fields := [⟨"missing_values", some nanV, .keep⟩, ⟨"n_neighbors", some (vInt 5), .keep⟩,
               ⟨"weights", some (vStr "uniform"), .keep⟩, ⟨"metric", some (vStr "nan_euclidean"), .keep⟩,
               ⟨"keep_empty_criteria", some (vBool false), .keep⟩] },
  targetOnly "MaxAbsScaler",
  targetOnly "MaxScaler",
  { name := "MinMaxScaler", declared := ["clip", "criteria_range", "target"],
    fields := [fTarget, ⟨"clip", some (vBool false), .bool⟩,
               ⟨"criteria_range", some (.tuple [.int 0, .int 1]), .floatPair⟩] },
  noParams "MinimizeToMaximize",
  noParams "MultiMOORA",
  noParams "NegateMinimize",
  targetOnly "PushNegatives",
  { name := "RankInvariantChecker",
    declared := ["allow_missing_alternatives", "dmaker", "last_diff_strategy", "random_state", "repeat"],
    fields := [⟨"dmaker", none, .hasEvaluate⟩, ⟨"repeat", some (vInt 1), .int⟩,
               ⟨"allow_missing_alternatives", some (vBool false), .bool⟩,
               ⟨"last_diff_strategy", some (vStr "median"), .strategy (choicesOf "RankInvariantChecker" "last_diff_strategy")⟩,
               ⟨"random_state", some vNone, .rng⟩] },
  noParams "RatioMOORA",
  noParams "ReferencePointMOORA",
  { name := "SIMUS", declared := ["rank_by", "solver"],
    fields := [⟨"rank_by", some (vInt 1), .rankBy⟩, ⟨"solver", some (vStr "pulp"), .solver (choicesOf "SIMUS" "solver")⟩] },
  { name := "SKCPipeline", declared := ["steps"], fields := [⟨"steps", none, .stepList⟩], check := .pipeline },
  { name := "SimpleImputer", declared := ["fill_value", "keep_empty_criteria", "missing_values", "strategy"],
    fields := [⟨"missing_values", some nanV, .keep⟩, ⟨"strategy", some (vStr "mean"), .keep⟩,
               ⟨"fill_value", some vNone, .keep⟩, ⟨"keep_empty_criteria", some (vBool false), .keep⟩] },
  { name := "StandarScaler", declared := ["target", "with_mean", "with_std"],
    fields := [fTarget, ⟨"with_mean", some (vBool true), .bool⟩, ⟨"with_std", some (vBool true), .bool⟩] },
  noParams "StdWeighter",
  targetOnly "SumScaler",
  { name := "TOPSIS", declared := ["metric"],
    fields := [⟨"metric", some (vStr "euclidean"), .oneOfOrCallable (choicesOf "TOPSIS" "metric")⟩] },
  targetOnly "VectorScaler",
  noParams "WeightedProductModel",
  noParams "WeightedSumModel"
]

def findSpec (name : String) : Option ClassSpec := classSpecs.find? (·.name == name)

/-- the hand-written specification of a class agrees with the table read from the code: same declared
parameters (as a sorted list), and the constructor arguments are the fields followed by the ignored ones,
in signature order up to the position of the ignored ones (compared as sorted-insensitive sets) -/
def sameSet (a b : List String) : Bool := a.all b.contains && b.all a.contains

def specMatches (s : ClassSpec) (c : Skc.Generated.ClassInfo) : Bool :=
  s.name == c.name && s.declared == c.declared && sameSet (s.fields.map (·.name) ++ s.ignored) c.initParams &&
    ((s.fields.filter (·.default.isNone)).map (·.name) == c.required)

/-- every class of the generated table has a matching specification and vice versa -/
def specsMatchTable : Bool :=
  Skc.Generated.classes.all (fun c => classSpecs.any fun s => specMatches s c) &&
    classSpecs.all (fun s => Skc.Generated.classes.any fun c => specMatches s c)

end Skc.Pipeline
