import Skc.Model.Num
import Skc.Model.Rank
/-! # L-model: closed-form aggregation kernels
`agg/simple.py` (wsm, wpm), `agg/similarity.py` (topsis), `agg/moora.py` (ratio, refpoint, fmf,
multimoora) — operation by operation, with the domain guards of the `_evaluate_data` methods.
Import-free. -/
namespace Skc.Agg
open Skc

inductive Err | valueError
  deriving DecidableEq, Repr

section field
variable {α : Type} [Add α] [Sub α] [Mul α] [Div α] [Neg α] [OfNat α 0] [OfNat α 1] [LT α] [LE α] [Max α] [Min α]
  [DecidableEq α] [DecidableRel (α := α) (· < ·)] [DecidableRel (α := α) (· ≤ ·)]
variable {m n : Nat}

/-- `np.inner(matrix, weights)` -/
def wsm (A : Mat m n α) (w : Vec n α) : Vec m α := fun i => sumFin fun j => A i j * w j

/-- `ratio`: `np.inner(matrix, weights * objectives)` -/
def ratio (A : Mat m n α) (o : Vec n Obj) (w : Vec n α) : Vec m α :=
  fun i => sumFin fun j => A i j * (w j * (o j).sgn)

/-- `np.max(matrix, axis=0)` / `np.min(matrix, axis=0)` -/
def colMax [NeZero m] (A : Mat m n α) : Vec n α := fun j => maxFin fun i => A i j
def colMin [NeZero m] (A : Mat m n α) : Vec n α := fun j => minFin fun i => A i j

/-- `refpoint`: `mask = where(objectives == MAX, objectives, 0)` is truthy exactly on maximise
criteria; `reference_point = where(mask, rpmax, rpmin)` -/
def referencePoint [NeZero m] (A : Mat m n α) (o : Vec n Obj) : Vec n α :=
  fun j => if o j = .max then colMax A j else colMin A j

/-- `np.max(np.abs(weights * (matrix - reference_point)), axis=1)` -/
def refpoint [NeZero m] [NeZero n] (A : Mat m n α) (o : Vec n Obj) (w : Vec n α) : Vec m α :=
  fun i => maxFin fun j => absv (w j * (A i j - referencePoint A o j))

/-! ### TOPSIS -/
inductive Metric | euclidean | sqeuclidean | cityblock | chebyshev | minkowski
  deriving DecidableEq, Repr

/-- `np.multiply(matrix, weights)` -/
def weighted (A : Mat m n α) (w : Vec n α) : Mat m n α := fun i j => A i j * w j

def ideal [NeZero m] (A : Mat m n α) (o : Vec n Obj) (w : Vec n α) : Vec n α :=
  fun j => if o j = .max then colMax (weighted A w) j else colMin (weighted A w) j
def antiIdeal [NeZero m] (A : Mat m n α) (o : Vec n Obj) (w : Vec n α) : Vec n α :=
  fun j => if o j = .max then colMin (weighted A w) j else colMax (weighted A w) j

/-- `scipy.spatial.distance.cdist(x, t, metric)` for the Minkowski family (`minkowski`: `p = 2`) -/
def dist [MathFns α] [NeZero n] (μ : Metric) (x t : Vec n α) : α :=
  match μ with
  | .sqeuclidean => sumFin fun j => (x j - t j) * (x j - t j)
  | .cityblock => sumFin fun j => absv (x j - t j)
  | .chebyshev => maxFin fun j => absv (x j - t j)
  | .euclidean | .minkowski => MathFns.sqrt (sumFin fun j => (x j - t j) * (x j - t j))

/-- the field-only metrics (no square root): what the driver runs at `Rat` -/
def distQ [NeZero n] (μ : Metric) (x t : Vec n α) : α :=
  match μ with
  | .cityblock => sumFin fun j => absv (x j - t j)
  | .chebyshev => maxFin fun j => absv (x j - t j)
  | _ => sumFin fun j => (x j - t j) * (x j - t j)

/-- relative closeness `d_worst / (d_better + d_worst)` for a given distance function -/
def similarityWith [NeZero m] (d : Vec n α → Vec n α → α) (A : Mat m n α) (o : Vec n Obj) (w : Vec n α) : Vec m α :=
  fun i =>
    let dB := d (weighted A w i) (ideal A o w)
    let dW := d (weighted A w i) (antiIdeal A o w)
    dW / (dB + dW)

def topsis [MathFns α] [NeZero m] [NeZero n] (μ : Metric) (A : Mat m n α) (o : Vec n Obj) (w : Vec n α) : Vec m α :=
  similarityWith (dist μ) A o w

/-- exact-arithmetic TOPSIS for the metrics without a square root -/
def topsisQ [NeZero m] [NeZero n] (μ : Metric) (A : Mat m n α) (o : Vec n Obj) (w : Vec n α) : Vec m α :=
  similarityWith (distQ μ) A o w

/-- `np.log10(matrix) * weights` summed along axis 1 -/
def wpm [MathFns α] (A : Mat m n α) (w : Vec n α) : Vec m α :=
  fun i => sumFin fun j => MathFns.log10 (A i j) * w j

/-- `fmf` exactly as coded: `Aj = 1.0` when there is no maximise criterion, `Bj = 0.0` when there
is no minimise criterion -/
def fmfCode [MathFns α] (A : Mat m n α) (o : Vec n Obj) (w : Vec n α) : Vec m α :=
  fun i =>
    let wm : Vec n α := fun j => MathFns.log (A i j * w j)
    let aj : α := if anyFin (fun j => decide (o j = .max)) then sumFin (fun j => if o j = .max then wm j else 0) else 1
    let bj : α := if anyFin (fun j => decide (o j = .min)) then sumFin (fun j => if o j = .min then wm j else 0) else 0
    aj - bj

/-- the published formula in log form: `Σ_max log(w a) − Σ_min log(w a)` -/
def fmfSpec [MathFns α] (A : Mat m n α) (o : Vec n Obj) (w : Vec n α) : Vec m α :=
  fun i => sumFin fun j => (o j).sgn * MathFns.log (A i j * w j)

/-! ### MultiMOORA: pairwise dominance count over the three component rankings -/

/-- credit of the pair `(a, b)`, `a < b` in index order, exactly as the loop does it:
`dominance(alt_a, alt_b, reverse=True)`; if no component ties, the alternative with more
"better" (smaller) ranks gets one point — `idx_a if aDb > bDa else idx_b` -/
def pairWinner (ra rb : List Nat) : Option Bool :=   -- some true: a wins, some false: b wins
  let eq := ((ra.zip rb).filter fun p => p.1 == p.2).length
  let aDb := ((ra.zip rb).filter fun p => p.1 < p.2).length
  let bDa := ((ra.zip rb).filter fun p => !(p.1 < p.2) && !(p.1 == p.2)).length
  if eq = 0 then some (decide (aDb > bDa)) else none

/-- `score[i]` = number of pairs won by `i` -/
def multimooraScore (rows : List (List Nat)) : List Nat :=
  (List.range rows.length).map fun i =>
    ((List.range rows.length).filter fun k =>
      if i < k then pairWinner (rows.getD i []) (rows.getD k []) == some true
      else if k < i then pairWinner (rows.getD k []) (rows.getD i []) == some false
      else false).length

/-- rows of the rank matrix: `np.vstack([ratio_rank, refpoint_rank, fmf_rank]).T` -/
def rankMatrix (r1 r2 r3 : List Nat) : List (List Nat) :=
  (List.range r1.length).map fun i => [r1.getD i 0, r2.getD i 0, r3.getD i 0]

end field

/-! ### domain guards of the `_evaluate_data` methods -/
section guards
variable {α : Type} [OfNat α 0] [LT α] [LE α] [DecidableRel (α := α) (· < ·)] [DecidableRel (α := α) (· ≤ ·)]
variable {m n : Nat}

def hasMin (o : Vec n Obj) : Bool := anyFin fun j => decide (o j = .min)
def anyNeg (A : Mat m n α) : Bool := anyFin fun i => anyFin fun j => decide (A i j < 0)
def anyNonPos (A : Mat m n α) : Bool := anyFin fun i => anyFin fun j => decide (A i j ≤ 0)

/-- WeightedSumModel: minimise objective or a negative value ⇒ ValueError -/
def wsmRefuses (A : Mat m n α) (o : Vec n Obj) : Bool := hasMin o || anyNeg A
/-- WeightedProductModel: minimise objective or a non-positive value ⇒ ValueError -/
def wpmRefuses (A : Mat m n α) (o : Vec n Obj) : Bool := hasMin o || anyNonPos A
/-- FullMultiplicativeForm, MultiMOORA: a non-positive value ⇒ ValueError -/
def fmfRefuses (A : Mat m n α) : Bool := anyNonPos A
end guards

end Skc.Agg
