/-! # C16 model — `skcriteria/pipeline.py`, `skcriteria/utils/unames.py`, `skcriteria/core/methods.py`

Core Lean only (no imports).  Three parts, each mirroring the Python operation by operation:

* **pipelines** — a step is a duck-typed object that may have a callable `transform`
  (`δ → Except Err δ`) and/or a callable `evaluate` (`δ → Except Err ρ`) over an abstract
  decision-matrix type `δ` and result type `ρ`; `SKCPipeline.__init__/_validate_steps`,
  `transform` (loop over `steps[:-1]`), `evaluate`, `__getitem__` (slice / int / str), `__len__`,
  `named_steps` (a `dict`: the last binding of a name wins).  A nested pipeline is a step whose two
  methods are the pipeline's own `transform` and `evaluate` (`Pipe.asStep`).
* **unique names** — `unique_names`: the loop over the reversed names with the table of remaining
  counts and the set of used names, generic in the suffixing function; `uniqueNames` is the instance at
  `n ++ "_" ++ toString c` (what `f"{name}_{count}"` builds); `uniqueNames_v0` is the loop before the fix.
* **parameters** — `get_parameters`, `copy(**kwargs)` and construction, over association lists of
  parameter names to values; a constructor is a list of fields (default, coercion) plus a
  cross-field check.  The coercions are the ones the real constructors apply (`float()`, `bool()`,
  `int()`, `a, b = map(float, x)`, membership tests, the filter coercions). -/
namespace Skc.Pipeline

/-- the exception classes the modelled code raises; `raised k` is whatever a step itself raises -/
inductive Err
  | typeError | indexError | valueError | keyError | attributeError
  | raised (code : Nat)
  deriving DecidableEq, Repr

/-! ## Python sequence indexing -/
section seq
variable {α : Type}

/-- one bound of `slice.indices(n)` for step 1: negative bounds count from the end, everything is
clamped into `[0, n]` -/
def clampIdx (n : Nat) (i : Int) : Nat :=
  if i < 0 then (i + (n : Int)).toNat else if i.toNat ≤ n then i.toNat else n

/-- `l[start:stop]` (`none` = bound omitted) -/
def pySlice (start stop : Option Int) (l : List α) : List α :=
  let a := match start with
    | none => 0
    | some i => clampIdx l.length i
  let b := match stop with
    | none => l.length
    | some i => clampIdx l.length i
  (l.take b).drop a

/-- `l[i]` for an `int`: negative indices count from the end, out of range is `IndexError` -/
def pyIndex (l : List α) (i : Int) : Except Err α :=
  let j : Int := if i < 0 then i + (l.length : Int) else i
  if j < 0 then .error .indexError
  else match l[j.toNat]? with
    | some x => .ok x
    | none => .error .indexError

/-- `dict(pairs)[k]`: the last pair with key `k` wins; `none` = `KeyError` -/
def dictGet {β : Type} : List (String × β) → String → Option β
  | [], _ => none
  | (k', v) :: rest, k =>
    match dictGet rest k with
    | some w => some w
    | none => if k' = k then some v else none

end seq

/-! ## Pipelines -/
section pipe
variable {δ ρ : Type}

/-- a pipeline step as the pipeline sees it: `hasattr(step, "transform") and callable(step.transform)`,
`hasattr(step, "evaluate") and callable(step.evaluate)` -/
structure Step (δ ρ : Type) where
  transform? : Option (δ → Except Err δ)
  evaluate? : Option (δ → Except Err ρ)

/-- a transformer: `transform` only -/
def Step.ofTransformer (f : δ → Except Err δ) : Step δ ρ := ⟨some f, none⟩
/-- a decision maker: `evaluate` only -/
def Step.ofDecisionMaker (g : δ → Except Err ρ) : Step δ ρ := ⟨none, some g⟩

/-- `step.transform(dm)` -/
def Step.runT (s : Step δ ρ) (dm : δ) : Except Err δ :=
  match s.transform? with
  | some f => f dm
  | none => .error .attributeError

/-- `step.evaluate(dm)` -/
def Step.runE (s : Step δ ρ) (dm : δ) : Except Err ρ :=
  match s.evaluate? with
  | some g => g dm
  | none => .error .attributeError

/-- `[(name, step), …]` -/
abbrev Steps (δ ρ : Type) := List (String × Step δ ρ)

/-- `_validate_steps`: every step of `steps[:-1]` has a callable `transform` (else `TypeError`), then
`steps[-1]` (`IndexError` on an empty list) has a callable `evaluate` (else `TypeError`).  Names are
strings by type here. -/
def validateSteps (steps : Steps δ ρ) : Except Err Unit :=
  if (pySlice none (some (-1)) steps).all (fun s => s.2.transform?.isSome) then
    match pyIndex steps (-1) with
    | .error e => .error e
    | .ok (_, dmaker) => if dmaker.evaluate?.isSome then .ok () else .error .typeError
  else .error .typeError

/-- an `SKCPipeline` instance: its `_steps` -/
structure Pipe (δ ρ : Type) where
  steps : Steps δ ρ

/-- `SKCPipeline(steps)` -/
def Pipe.new (steps : Steps δ ρ) : Except Err (Pipe δ ρ) :=
  match validateSteps steps with
  | .ok _ => .ok ⟨steps⟩
  | .error e => .error e

/-- the `for _, step in …: dm = step.transform(dm)` loop (an exception leaves the loop) -/
def loopT : Steps δ ρ → δ → Except Err δ
  | [], dm => .ok dm
  | (_, s) :: rest, dm =>
    match s.runT dm with
    | .ok dm' => loopT rest dm'
    | .error e => .error e

/-- `SKCPipeline.transform`: the loop over `self.steps[:-1]` -/
def Pipe.transform (p : Pipe δ ρ) (dm : δ) : Except Err δ :=
  loopT (pySlice none (some (-1)) p.steps) dm

/-- `SKCPipeline.evaluate`: `dm = self.transform(dm); _, dmaker = self.steps[-1]; dmaker.evaluate(dm)` -/
def Pipe.evaluate (p : Pipe δ ρ) (dm : δ) : Except Err ρ :=
  match p.transform dm with
  | .error e => .error e
  | .ok d =>
    match pyIndex p.steps (-1) with
    | .error e => .error e
    | .ok (_, dmaker) => dmaker.runE d

/-- a pipeline used as a step of another pipeline: it has both methods -/
def Pipe.asStep (p : Pipe δ ρ) : Step δ ρ := ⟨some p.transform, some p.evaluate⟩

/-- `len(pipe)` -/
def Pipe.len (p : Pipe δ ρ) : Nat := p.steps.length

/-- `pipe[start:stop:step]`: a step other than 1 / omitted is `ValueError`; otherwise the class is
called again on the sub-list (and validates it again) -/
def Pipe.getSlice (p : Pipe δ ρ) (start stop step : Option Int) : Except Err (Pipe δ ρ) :=
  if step = none ∨ step = some 1 then Pipe.new (pySlice start stop p.steps) else .error .valueError

/-- `pipe[i]` for an `int`: `self.steps[i][-1]` -/
def Pipe.getInt (p : Pipe δ ρ) (i : Int) : Except Err (Step δ ρ) :=
  match pyIndex p.steps i with
  | .ok (_, s) => .ok s
  | .error e => .error e

/-- `pipe[name]` = `self.named_steps[name]` -/
def Pipe.getStr (p : Pipe δ ρ) (name : String) : Except Err (Step δ ρ) :=
  match dictGet p.steps name with
  | some s => .ok s
  | none => .error .keyError

end pipe

/-! ## `unique_names`

The code as it is now (after `fix: unique_names keeps suffixing until the generated name is free`) is
`unamesLoop` / `uniqueNamesG` / `uniqueNames`; the loop before the fix is kept as `unamesLoop_v0` /
`uniqueNamesG_v0` / `uniqueNames_v0` (it gives `["foo","foo","foo_1"] ↦ ["foo_1","foo_2","foo_1"]`). -/
section unames
variable {ν : Type} [DecidableEq ν]

/-- `{k: v for k, v in Counter(names).items() if v > 1}` as an association list read with
`List.lookup` (first match; a repeated key repeats the same count, so the reading is that of the dict) -/
def nameCount (names : List ν) : List (ν × Nat) :=
  (names.map fun n => (n, names.count n)).filter fun kv => decide (1 < kv.2)

/-- `used = {k for k, v in counter.items() if v == 1}` (a set: only membership is read) -/
def usedInit (names : List ν) : List ν := names.filter fun n => names.count n == 1

/-- `while name in used: name = f"{name}_{count}"`.  `fuel` bounds the loop for the termination checker:
`used.length + 1` rounds always suffice (every round makes a longer, hence different, name). -/
def freshen (sfx : ν → Nat → ν) (used : List ν) (c : Nat) : Nat → ν → ν
  | 0, x => x
  | fuel + 1, x => if x ∈ used then freshen sfx used c fuel (sfx x c) else x

/-- the loop of `unique_names` over the **reversed** names.  `count = name_count.get(name, 0)`; when it
is non-zero the table entry becomes `count - 1` (a new first binding shadows the old one), the name
becomes `sfx name count`, is suffixed again while it is already used, and is added to `used`.  `acc`
collects `named_elements` (appended, then reversed at the end: consing does both). -/
def unamesLoop (sfx : ν → Nat → ν) : List ν → List (ν × Nat) → List ν → List ν → List ν
  | [], _, _, acc => acc
  | n :: rest, tbl, used, acc =>
    match tbl.lookup n with
    | some (c + 1) =>
      let x := freshen sfx used (c + 1) (used.length + 1) (sfx n (c + 1))
      unamesLoop sfx rest ((n, c) :: tbl) (x :: used) (x :: acc)
    | _ => unamesLoop sfx rest tbl used (n :: acc)

/-- `unique_names` (names only), generic in the suffixing function -/
def uniqueNamesG (sfx : ν → Nat → ν) (names : List ν) : List ν :=
  unamesLoop sfx names.reverse (nameCount names) (usedInit names) []

/-- the loop before the fix: no `used`, the generated name is taken as it is -/
def unamesLoop_v0 (sfx : ν → Nat → ν) : List ν → List (ν × Nat) → List ν → List ν
  | [], _, acc => acc
  | n :: rest, tbl, acc =>
    match tbl.lookup n with
    | some (c + 1) => unamesLoop_v0 sfx rest ((n, c) :: tbl) (sfx n (c + 1) :: acc)
    | _ => unamesLoop_v0 sfx rest tbl (n :: acc)

def uniqueNamesG_v0 (sfx : ν → Nat → ν) (names : List ν) : List ν :=
  unamesLoop_v0 sfx names.reverse (nameCount names) []

/-- closed form (of the loop before the fix, and of the present one whenever nothing clashes): a name
occurring once is kept; the `k`-th occurrence (in the original order, from 1) of a repeated name `n`
becomes `sfx n k` -/
def uniqueNamesSpecG (sfx : ν → Nat → ν) (names : List ν) : List ν :=
  names.mapIdx fun i n => if 1 < names.count n then sfx n ((names.take (i + 1)).count n) else n

/-- no clash: no name that occurs exactly once is one of the names `sfx n 1 … sfx n (count n)` generated
for a repeated name `n` (then the `while` loop never runs) -/
def noSuffixClash (sfx : ν → Nat → ν) (names : List ν) : Bool :=
  names.all fun n =>
    decide (names.count n ≤ 1) ||
      (List.range (names.count n)).all fun k => names.count (sfx n (k + 1)) != 1

end unames

/-- `f"{name}_{count}"` -/
def sfxStr (n : String) (c : Nat) : String := n ++ "_" ++ toString c

/-- `unique_names` on strings -/
def uniqueNames (names : List String) : List String := uniqueNamesG sfxStr names

/-- `unique_names` before the fix -/
def uniqueNames_v0 (names : List String) : List String := uniqueNamesG_v0 sfxStr names

def uniqueNamesSpec (names : List String) : List String := uniqueNamesSpecG sfxStr names

/-- `unique_names(names=…, elements=…)`: different lengths are `ValueError`; the generated names are
paired with the elements in order -/
def uniqueNamed {β : Type} (names : List String) (elements : List β) : Except Err (List (String × β)) :=
  if names.length ≠ elements.length then .error .valueError
  else .ok ((uniqueNames names).zip elements)

/-- `mkpipe(*steps)`: each step comes with `type(step).__name__.lower()` -/
def mkpipe {δ ρ : Type} (steps : List (String × Step δ ρ)) : Except Err (Pipe δ ρ) :=
  match uniqueNamed (steps.map (·.1)) (steps.map (·.2)) with
  | .ok named => Pipe.new named
  | .error e => .error e

/-! ## Parameters: `get_parameters`, `copy`, constructors -/

/-- scalar Python values that occur as constructor arguments -/
inductive Atom
  | none
  | bool (b : Bool)
  | int (i : Int)
  | float (q : Rat)
  | str (s : String)
  | fn (id : Nat)        -- a callable (function, lambda, numpy ufunc)
  | dmaker (id : Nat)    -- an object with a callable `evaluate`
  | obj (id : Nat)       -- any other object (estimator, solver instance, random generator)
  deriving DecidableEq, Repr

/-- constructor arguments / attribute values -/
inductive Val
  | atom (a : Atom)
  | tuple (l : List Atom)                       -- tuple / list of scalars
  | dict (l : List (String × Atom))             -- dict with string keys and scalar values; also `[(name, step), …]`
  | dictSeq (l : List (String × List Atom))     -- dict with string keys and collections as values
  deriving DecidableEq, Repr

/-- keyword arguments / attribute dictionaries, in order -/
abbrev Params := List (String × Val)

/-- `d[k]` for a dict with distinct keys -/
def pget (d : Params) (k : String) : Option Val := d.lookup k

/-- `d.update(kw)` restricted to what matters: a key of `d` keeps its position and takes the new value, new
keys are appended in the order of `kw` (first occurrence; `kw` has distinct keys) -/
def overrideEntry (kw : Params) (kv : String × Val) : String × Val :=
  match kw.lookup kv.1 with
  | some v => (kv.1, v)
  | none => kv

def pupdate (d kw : Params) : Params :=
  d.map (overrideEntry kw) ++ kw.filter (fun kv => !(d.any fun x => x.1 == kv.1))

/-- `float(x)` on a scalar -/
def atomFloat : Atom → Except Err Atom
  | .float q => .ok (.float q)
  | .int i => .ok (.float (i : Rat))
  | .bool b => .ok (.float (if b then 1 else 0))
  | .str _ => .error .valueError
  | _ => .error .typeError

/-- `bool(x)` on a scalar (objects and callables are truthy) -/
def atomTruthy : Atom → Bool
  | .none => false
  | .bool b => b
  | .int i => i != 0
  | .float q => q != 0
  | .str s => s != ""
  | _ => true

/-- `bool(x)` -/
def valTruthy : Val → Bool
  | .atom a => atomTruthy a
  | .tuple l => !l.isEmpty
  | .dict l => !l.isEmpty
  | .dictSeq l => !l.isEmpty

/-- `int(x)` on a scalar: floats truncate toward zero -/
def atomInt : Atom → Except Err Atom
  | .int i => .ok (.int i)
  | .bool b => .ok (.int (if b then 1 else 0))
  | .float q => .ok (.int (Int.tdiv q.num q.den))
  | .str _ => .error .valueError
  | _ => .error .typeError

/-- `isinstance(x, (int, float, complex, np.number))` (`bool` is an `int`) -/
def atomIsNumber : Atom → Bool
  | .int _ | .float _ | .bool _ => true
  | _ => false

def atomIsCallable : Atom → Bool
  | .fn _ => true
  | _ => false

/-- what a constructor does with one argument before storing it -/
inductive Coercion
  | keep                                  -- stored as given
  | float                                 -- `float(x)`
  | bool                                  -- `bool(x)`
  | int                                   -- `int(x)`
  | floatPair                             -- `a, b = map(float, x)`, read back as `(a, b)`
  | oneOf (choices : List String)         -- `x in (…)` else ValueError
  | oneOfOrCallable (choices : List String)   -- `callable(x) or x in (…)` else ValueError
  | strategy (choices : List String)      -- `table.get(x) if isinstance(x, str) else x`, must be callable else TypeError
  | solver (available : List String)      -- an `LpSolver` instance or `None` or a name whose upper case is available, else ValueError
  | rankBy                                -- `x in (1, 2)` else ValueError (`1.0`, `True` compare equal to 1)
  | hasEvaluate                           -- `hasattr(x, "evaluate") and callable(x.evaluate)` else TypeError
  | rng                                   -- `np.random.default_rng(x)`: a generator passes through
  | arithFilters                          -- non-empty dict str -> number (else ValueError)
  | setFilters                            -- non-empty dict str -> non-empty collection (stored as arrays)
  | fnFilters                             -- non-empty dict str -> callable
  | stepList                              -- `list(steps)`
  deriving DecidableEq, Repr

/-- the function a coercion stands for.  `strategy` resolves a known name to its function (`fn` ids
`1000 + position` stand for the functions of the table); `rng` turns a seed into a generator object
(`obj` ids `2000 + seed`; `None` is OS entropy — a fresh object, id 1999). -/
def Coercion.apply : Coercion → Val → Except Err Val
  | .keep, v => .ok v
  | .float, .atom a => (atomFloat a).map .atom
  | .float, _ => .error .typeError
  | .bool, v => .ok (.atom (.bool (valTruthy v)))
  | .int, .atom a => (atomInt a).map .atom
  | .int, _ => .error .typeError
  | .floatPair, .tuple [a, b] =>
    match atomFloat a, atomFloat b with
    | .ok a', .ok b' => .ok (.tuple [a', b'])
    | .error e, _ => .error e
    | _, .error e => .error e
  | .floatPair, .tuple _ => .error .valueError
  | .floatPair, _ => .error .typeError
  | .oneOf cs, .atom (.str s) => if s ∈ cs then .ok (.atom (.str s)) else .error .valueError
  | .oneOf _, _ => .error .valueError
  | .oneOfOrCallable cs, .atom (.str s) => if s ∈ cs then .ok (.atom (.str s)) else .error .valueError
  | .oneOfOrCallable _, .atom (.fn f) => .ok (.atom (.fn f))
  | .oneOfOrCallable _, _ => .error .valueError
  | .strategy cs, .atom (.str s) =>
    if s ∈ cs then .ok (.atom (.fn (1000 + cs.idxOf s))) else .error .typeError
  | .strategy _, .atom (.fn f) => .ok (.atom (.fn f))
  | .strategy _, _ => .error .typeError
  | .solver av, .atom (.str s) => if s.toUpper ∈ av then .ok (.atom (.str s)) else .error .valueError
  | .solver _, .atom .none => .ok (.atom .none)
  | .solver _, .atom (.obj o) => .ok (.atom (.obj o))
  | .solver _, _ => .error .attributeError
  | .rankBy, .atom (.int i) => if i = 1 ∨ i = 2 then .ok (.atom (.int i)) else .error .valueError
  | .rankBy, .atom (.float q) => if q = 1 ∨ q = 2 then .ok (.atom (.float q)) else .error .valueError
  | .rankBy, .atom (.bool true) => .ok (.atom (.bool true))
  | .rankBy, _ => .error .valueError
  | .hasEvaluate, .atom (.dmaker d) => .ok (.atom (.dmaker d))
  | .hasEvaluate, _ => .error .typeError
  | .rng, .atom .none => .ok (.atom (.obj 1999))
  | .rng, .atom (.int i) => if 0 ≤ i then .ok (.atom (.obj (2000 + i.toNat))) else .error .valueError
  | .rng, .atom (.obj o) => .ok (.atom (.obj o))
  | .rng, _ => .error .typeError
  | .arithFilters, .dict l =>
    if l.isEmpty then .error .valueError
    else if l.all (fun kv => atomIsNumber kv.2) then .ok (.dict l) else .error .valueError
  | .arithFilters, .dictSeq l => if l.isEmpty then .error .valueError else .error .valueError
  | .arithFilters, _ => .error .typeError
  | .setFilters, .dictSeq l =>
    if l.isEmpty then .error .valueError
    else if l.all (fun kv => !kv.2.isEmpty) then .ok (.dictSeq l) else .error .valueError
  | .setFilters, .dict l => if l.isEmpty then .error .valueError else .error .valueError
  | .setFilters, _ => .error .typeError
  | .fnFilters, .dict l =>
    if l.isEmpty then .error .valueError
    else if l.all (fun kv => atomIsCallable kv.2) then .ok (.dict l) else .error .valueError
  | .fnFilters, .dictSeq l => if l.isEmpty then .error .valueError else .error .valueError
  | .fnFilters, _ => .error .typeError
  | .stepList, .dict l => .ok (.dict l)
  | .stepList, _ => .error .typeError

/-- one constructor argument that ends up readable under its own name -/
structure Field where
  name : String
  default : Option Val        -- `none`: no default (required)
  coerce : Coercion
  deriving DecidableEq, Repr

/-- validation over several coerced arguments -/
inductive Check
  | nothing
  | unit (names : List String)        -- each `1 >= x >= 0`
  | chains (names : List (List String))   -- for each list: `1 >= x0 >= x1 >= … >= 0`
  | pipeline                          -- `_validate_steps` (here: the list is not empty; step capabilities are not visible in a `Val`)
  deriving DecidableEq, Repr

def floatOf? (d : Params) (k : String) : Option Rat :=
  match pget d k with
  | some (.atom (.float q)) => some q
  | _ => none

def chainOk : Rat → List Rat → Bool
  | hi, [] => decide (0 ≤ hi)
  | hi, x :: rest => decide (x ≤ hi) && chainOk x rest

def Check.run : Check → Params → Except Err Unit
  | .nothing, _ => .ok ()
  | .unit names, d =>
    if names.all (fun k => match floatOf? d k with
      | some q => decide (0 ≤ q) && decide (q ≤ 1)
      | none => false) then .ok () else .error .valueError
  | .chains groups, d =>
    if groups.all (fun names =>
        chainOk 1 (names.filterMap (floatOf? d)) && (names.all fun k => (floatOf? d k).isSome)) then .ok ()
    else .error .valueError
  | .pipeline, d =>
    match pget d "steps" with
    | some (.dict []) => .error .indexError
    | some (.dict _) => .ok ()
    | _ => .error .typeError

/-- a method class: `_skcriteria_parameters`, the constructor's readable arguments, the accepted-but-unread
arguments, the cross-field check -/
structure ClassSpec where
  name : String
  declared : List String
  fields : List Field
  ignored : List String := []
  check : Check := .nothing
  deriving DecidableEq, Repr

/-- an instance: its class and what its parameter attributes / properties return -/
structure Obj where
  cls : ClassSpec
  attrs : Params
  deriving DecidableEq, Repr

def mapMExcept {α β : Type} (f : α → Except Err β) : List α → Except Err (List β)
  | [] => .ok []
  | a :: as =>
    match f a with
    | .error e => .error e
    | .ok b =>
      match mapMExcept f as with
      | .error e => .error e
      | .ok bs => .ok (b :: bs)

/-- the value bound to a constructor argument: the keyword given, else the default (`none`: missing) -/
def Field.arg (f : Field) (kw : Params) : Option Val :=
  match pget kw f.name with
  | some v => some v
  | none => f.default

/-- what the constructor stores for one argument -/
def Field.store (f : Field) (kw : Params) : Except Err (String × Val) :=
  match f.arg kw with
  | some v =>
    match f.coerce.apply v with
    | .ok w => .ok (f.name, w)
    | .error e => .error e
  | none => .error .typeError

/-- every keyword is an argument of the constructor -/
def ClassSpec.knows (c : ClassSpec) (kw : Params) : Bool :=
  kw.all fun kv => (c.fields.any fun f => f.name == kv.1) || c.ignored.contains kv.1

/-- what `__init__(**kw)` stores, or its refusal: an unexpected keyword or a missing required argument is
`TypeError` (argument binding comes first); every argument — given or default — goes through the field's
coercion; then the cross-field check -/
def ClassSpec.norm (c : ClassSpec) (kw : Params) : Except Err Params :=
  if !c.knows kw then .error .typeError
  else if c.fields.any (fun f => (f.arg kw).isNone) then .error .typeError
  else
    match mapMExcept (fun (f : Field) => f.store kw) c.fields with
    | .error e => .error e
    | .ok vals =>
      match c.check.run vals with
      | .error e => .error e
      | .ok _ => .ok vals

/-- `cls(**kw)` -/
def construct (c : ClassSpec) (kw : Params) : Except Err Obj :=
  match c.norm kw with
  | .ok a => .ok ⟨c, a⟩
  | .error e => .error e

/-- `get_parameters()`: `{p: deepcopy(getattr(self, p)) for p in self._skcriteria_parameters}`; a declared
parameter that is no attribute is `AttributeError` -/
def readAttr (attrs : Params) (p : String) : Except Err (String × Val) :=
  match pget attrs p with
  | some v => .ok (p, v)
  | none => .error .attributeError

def getParameters (o : Obj) : Except Err Params :=
  mapMExcept (readAttr o.attrs) o.cls.declared

/-- `copy(**kwargs)`: `asdict = self.get_parameters(); asdict.update(kwargs); type(self)(**asdict)` -/
def copy (o : Obj) (overrides : Params) : Except Err Obj :=
  match getParameters o with
  | .error e => .error e
  | .ok d => construct o.cls (pupdate d overrides)

/-- classes made by `mkagg(**hparams)` / `mktransformer(**hparams)`: `_skcriteria_parameters = tuple(hparams)`,
keyword-only signature with the given defaults, `self.__dict__.update(bound.kwargs)` (no coercion) -/
def ClassSpec.ofHParams (name : String) (hparams : Params) : ClassSpec :=
  { name := name, declared := hparams.map (·.1),
    fields := hparams.map fun kv => ⟨kv.1, some kv.2, .keep⟩ }

end Skc.Pipeline
