import Skc.Model.Num
/-! # L-model: `utils/rank.py::dominance` and `core/dominance.py` (the `dm.dominance` accessor)

Alternatives are rows `Fin n → α` of a matrix `Mat m n α`; `rev j` is `dm.minwhere[j]`.
Import-free. -/
namespace Skc.Dom
open Skc

/-- the named tuple returned by `rank.dominance(array_a, array_b, reverse)` -/
structure Pair (n : Nat) where
  eqW : Fin n → Bool
  aDbW : Fin n → Bool
  bDaW : Fin n → Bool

section
variable {α : Type} [LT α] [DecidableEq α] [DecidableRel (α := α) (· < ·)] {m n : Nat}

/-- `rank.dominance`: `eq_where = a == b`, `aDb_where = where(reverse, a < b, a > b)`,
`bDa_where = ~(aDb_where | eq_where)` -/
def pair (rev : Fin n → Bool) (a b : Fin n → α) : Pair n :=
  let eqW : Fin n → Bool := fun j => decide (a j = b j)
  let aDbW : Fin n → Bool := fun j => if rev j then decide (a j < b j) else decide (b j < a j)
  { eqW := eqW, aDbW := aDbW, bDaW := fun j => !(aDbW j || eqW j) }

def Pair.eq (p : Pair n) : Nat := countFin p.eqW
def Pair.aDb (p : Pair n) : Nat := countFin p.aDbW
def Pair.bDa (p : Pair n) : Nat := countFin p.bDaW

/-- `minwhere` -/
def revOf (o : Vec n Obj) : Fin n → Bool := fun j => decide (o j = .min)

/-- `_cache_read(a0, a1)`: the cache holds the pair keyed in `itertools.combinations` order
(`i < k`); a request in the other order gets that entry with `key_reverted = True` -/
def cacheRead (A : Mat m n α) (o : Vec n Obj) (i k : Fin m) : Pair n × Bool :=
  if i.val < k.val then (pair (revOf o) (A i) (A k), false) else (pair (revOf o) (A k) (A i), true)

/-- `bt()` cell -/
def bt (A : Mat m n α) (o : Vec n Obj) (i k : Fin m) : Nat :=
  if i = k then 0 else
    let (e, r) := cacheRead A o i k
    if !r then e.aDb else e.bDa

/-- `eq()` cell -/
def eqT (A : Mat m n α) (o : Vec n Obj) (i k : Fin m) : Nat :=
  if i = k then n else (cacheRead A o i k).1.eq

/-- `dominance(strict)` cell: does `i` (row label) dominate `k` (column label) -/
def dominance (strict : Bool) (A : Mat m n α) (o : Vec n Obj) (i k : Fin m) : Bool :=
  if i = k then false else
    let (e, r) := cacheRead A o i k
    let p0 := if !r then e.aDb else e.bDa
    let p1 := if !r then e.bDa else e.aDb
    if strict && e.eq != 0 then false else decide (p0 > 0) && p1 == 0

/-- `compare(a0, a1)`: the three boolean rows and the `Performance` column -/
structure Compare (n : Nat) where
  row0 : Fin n → Bool
  row1 : Fin n → Bool
  eqRow : Fin n → Bool
  perf0 : Nat
  perf1 : Nat
  perfEq : Nat

def compare (A : Mat m n α) (o : Vec n Obj) (i k : Fin m) : Compare n :=
  let (e, r) := cacheRead A o i k
  { row0 := if !r then e.aDbW else e.bDaW, row1 := if !r then e.bDaW else e.aDbW, eqRow := e.eqW,
    perf0 := if !r then e.aDb else e.bDa, perf1 := if !r then e.bDa else e.aDb, perfEq := e.eq }

/-- `dominated(strict)`: `dominance(strict).any()` — column-wise -/
def dominated (strict : Bool) (A : Mat m n α) (o : Vec n Obj) (k : Fin m) : Bool :=
  anyFin fun i => dominance strict A o i k
end

/-- the recursive `_dominators_of` over an arbitrary relation `D i k` ("`i` dominates `k`"), with an
explicit recursion budget: `none` stands for Python's `RecursionError`.  The result keeps the
repetitions the concatenation produces. -/
def dominatorsOf (D : Nat → Nat → Bool) (m : Nat) : Nat → Nat → Option (List Nat)
  | 0, _ => none
  | fuel + 1, a =>
    let ds := (List.range m).filter (D · a)
    if ds.isEmpty then some [] else
      match ds.mapM (dominatorsOf D m fuel) with
      | none => none
      | some rest => some (ds ++ rest.flatten)

/-- `has_loops`: `True` exactly when some `dominators_of` call overflows the recursion budget
(every alternative is visited, directly or as a dominator of a visited one) -/
def hasLoops (D : Nat → Nat → Bool) (m fuel : Nat) : Bool :=
  (List.range m).any fun a => (dominatorsOf D m fuel a).isNone

/-! ### the memoised accessor as a state machine (lru_cache) -/

/-- a cache from call keys to answers: a hit returns the stored answer, a miss computes and stores -/
def memoCall {κ β : Type} [DecidableEq κ] (f : κ → β) (cache : List (κ × β)) (k : κ) : List (κ × β) × β :=
  match cache.lookup k with
  | some v => (cache, v)
  | none => ((k, f k) :: cache, f k)

def memoRun {κ β : Type} [DecidableEq κ] (f : κ → β) : List (κ × β) → List κ → List β
  | _, [] => []
  | cache, k :: ks => let (c', v) := memoCall f cache k; v :: memoRun f c' ks

end Skc.Dom
