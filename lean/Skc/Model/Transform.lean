/-! # L-model: transformers as record updates on the six parts of a decision matrix (C10)

Import-free (core Lean only). Mirrors, operation by operation,

* `SKCTransformerABC.transform` (`preprocessing/_preprocessing_base.py`):
  `data = dm.to_dict(); transformed = self._transform_data(**data);
  DecisionMatrix.from_mcda_data(**transformed)`,
* `DecisionMatrix.to_dict` / `DecisionMatrix.from_mcda_data` / `DecisionMatrix.__init__`
  (`core/data.py`): the shape refusals, `dtypes=None` ⇒ pandas infers the dtypes of the matrix it
  is handed, `dtypes` given ⇒ `data_df.astype(dtypes)` (every column is **cast**),
* every built-in `_transform_data` as the `kwargs.update(...)` it performs, parameterised by
  uninterpreted numeric functions (this model is structural: which keys are rewritten, with what
  provenance — no arithmetic): the target switch of `SKCMatrixAndWeightTransformerABC` (all
  scalers, `PushNegatives`, `AddValueToZero`), `CenitDistanceMatrixScaler`, `SKCWeighterABC`,
  `SKCObjectivesInverterABC`, `SKCByCriteriaFilterABC`, `FilterNonDominated`, `SKCImputerABC`,
* `mktransformer` (`extend.py`): `tdata = f(hparams=self, **kwargs); tdata.pop("hparams", None);
  kwargs.update(tdata)`,
* `SKCPipeline.transform` (`pipeline.py`): `for _, step in steps[:-1]: dm = step.transform(dm)`.

A decision matrix appears as the six parts `to_dict()` reports (`Parts`). The keyword dictionary
that travels through `_transform_data` is `Dict`: the same six keys, `dtypes` possibly `None`, plus
the names of keys that are **not** parameters of `from_mcda_data` (`extra`; there is no `**kwargs`
passthrough in `from_mcda_data`: such a key is a `TypeError`).

`α` = the scalar type of matrix cells and weights, `δ` = the type of dtypes. -/
namespace Skc.Transform

inductive Err | valueError | typeError
  deriving DecidableEq, Repr

/-- the six keys of `DecisionMatrix.to_dict()` -/
inductive Part | matrix | objectives | weights | dtypes | alternatives | criteria
  deriving DecidableEq, Repr

/-- `Objective.MAX.value = 1`, `Objective.MIN.value = -1` (what `iobjectives` reports) -/
inductive Obj | max | min
  deriving DecidableEq, Repr

/-- `dm.to_dict()`: one row per alternative -/
structure Parts (α δ : Type) where
  matrix : List (List α)
  objectives : List Obj
  weights : List α
  dtypes : List δ
  alternatives : List String
  criteria : List String
  deriving DecidableEq, Repr

/-- the keyword arguments `_transform_data` receives and returns -/
structure Dict (α δ : Type) where
  matrix : List (List α)
  objectives : List Obj
  weights : List α
  /-- `none` = the key holds `None` -/
  dtypes : Option (List δ)
  alternatives : List String
  criteria : List String
  /-- names of keys that `from_mcda_data` does not accept -/
  extra : List String := []
  deriving DecidableEq, Repr

/-- what pandas does with numbers, uninterpreted: `infer n m` = the dtypes of
`pd.DataFrame(m)` for a matrix with `n` columns handed in as one array; `cast dt x` = the value
`to_dict()` reports for a cell `x` after `astype(dt)` of its column -/
structure Env (α δ : Type) where
  infer : Nat → List (List α) → List δ
  cast : δ → α → α

section
variable {α δ : Type}

/-- `to_dict()` as keyword arguments: all six keys, `dtypes` always present -/
def toDict (d : Parts α δ) : Dict α δ :=
  { matrix := d.matrix, objectives := d.objectives, weights := d.weights, dtypes := some d.dtypes,
    alternatives := d.alternatives, criteria := d.criteria, extra := [] }

/-- `data_df.astype({c: dt for c, dt in zip(criteria, dtypes)})`, column by column -/
def astype (env : Env α δ) (ds : List δ) (m : List (List α)) : List (List α) :=
  m.map fun row => List.zipWith env.cast ds row

/-- `DecisionMatrix.from_mcda_data(**k)` followed by `DecisionMatrix.__init__`:
```
TypeError                                   # a keyword that is not a parameter
a_number, c_number = np.shape(matrix)
if len(alternatives) != a_number: raise ValueError
if len(criteria) != c_number: raise ValueError
data_df = pd.DataFrame(matrix, index=alternatives, columns=criteria)      # dtypes inferred
if dtypes is not None and len(dtypes) != c_number: raise ValueError
elif dtypes is not None: data_df = data_df.astype(dict(zip(criteria, dtypes)))
if not (len(columns) == len(weights) == len(objectives)): raise ValueError
```
(`c_number` of a matrix without rows is not visible in a list of rows: the column check reads
"every row has `len(criteria)` cells".) -/
def fromMcda (env : Env α δ) (k : Dict α δ) : Except Err (Parts α δ) :=
  if !k.extra.isEmpty then .error .typeError
  else if k.alternatives.length != k.matrix.length then .error .valueError
  else if !(k.matrix.all fun r => r.length == k.criteria.length) then .error .valueError
  else if k.weights.length != k.criteria.length || k.objectives.length != k.criteria.length then
    .error .valueError
  else
    match k.dtypes with
    | none =>
      .ok { matrix := k.matrix, objectives := k.objectives, weights := k.weights,
            dtypes := env.infer k.criteria.length k.matrix,
            alternatives := k.alternatives, criteria := k.criteria }
    | some ds =>
      if ds.length != k.criteria.length then .error .valueError
      else
        .ok { matrix := astype env ds k.matrix, objectives := k.objectives, weights := k.weights,
              dtypes := ds, alternatives := k.alternatives, criteria := k.criteria }

/-- a `_transform_data`: keyword arguments in, keyword arguments out, or the exception it raises -/
abbrev TData (α δ : Type) := Dict α δ → Except Err (Dict α δ)

/-- `SKCTransformerABC.transform` -/
def transform (env : Env α δ) (T : TData α δ) (d : Parts α δ) : Except Err (Parts α δ) :=
  match T (toDict d) with
  | .error e => .error e
  | .ok k => fromMcda env k

/-! ## `SKCMatrixAndWeightTransformerABC`: the target switch -/

inductive Target | matrix | weights | both
  deriving DecidableEq, Repr

/-- `__init__`: `if target not in ("matrix", "weights", "both"): raise ValueError` -/
def Target.ofString (s : String) : Except Err Target :=
  if s = "matrix" then .ok .matrix
  else if s = "weights" then .ok .weights
  else if s = "both" then .ok .both
  else .error .valueError

/-- ```
transformed_mtx = matrix; transformed_weights = weights
if self._target in (MATRIX, BOTH): transformed_mtx = self._transform_matrix(matrix)
if self._target in (WEIGHTS, BOTH): transformed_weights = self._transform_weights(weights)
kwargs.update(matrix=transformed_mtx, weights=transformed_weights, dtypes=None)
```
`dtypes=None` is written for **every** target. -/
def mwData (tm : List (List α) → List (List α)) (tw : List α → List α) (t : Target)
    (k : Dict α δ) : Dict α δ :=
  let m' := match t with
    | .matrix | .both => tm k.matrix
    | .weights => k.matrix
  let w' := match t with
    | .weights | .both => tw k.weights
    | .matrix => k.weights
  { k with matrix := m', weights := w', dtypes := none }

def mwTransformer (tm : List (List α) → List (List α)) (tw : List α → List α) (t : Target) :
    TData α δ := fun k => .ok (mwData tm tw t k)

/-! ## `CenitDistanceMatrixScaler` -/

/-- `kwargs.update(matrix=f(matrix, objectives), objectives=objectives,
dtypes=np.full(np.shape(objectives), float))` -/
def cenitTransformer (f : List (List α) → List Obj → List (List α)) (floatDt : δ) : TData α δ :=
  fun k => .ok { k with matrix := f k.matrix k.objectives, objectives := k.objectives,
                        dtypes := some (k.objectives.map fun _ => floatDt) }

/-! ## `SKCWeighterABC` -/

/-- `kwargs.update(matrix=matrix, objectives=objectives,
weights=self._weight_matrix(matrix=matrix, objectives=objectives, weights=weights))` -/
def weighterTransformer (f : List (List α) → List Obj → List α → List α) : TData α δ :=
  fun k => .ok { k with matrix := k.matrix, objectives := k.objectives,
                        weights := f k.matrix k.objectives k.weights }

/-! ## `SKCObjectivesInverterABC` -/

/-- ```
minimize_mask = np.equal(objectives, MIN)
inv_mtx = self._invert(matrix, minimize_mask)
inv_objectives = np.full(len(objectives), MAX, dtype=int)
inv_dtypes = np.where(minimize_mask, inv_mtx.dtype, dtypes)
kwargs.update(matrix=inv_mtx, objectives=inv_objectives, dtypes=inv_dtypes)
```
`newDt` = `inv_mtx.dtype` (the inverters build `np.array(matrix, dtype=float)`). `dtypes` is
always present when the call comes from `transform`; for `dtypes=None` numpy builds an array of
`None`s that `astype` reads as its default dtype, which is `newDt`. -/
def inverterTransformer (invert : List (List α) → List Bool → List (List α)) (newDt : δ) :
    TData α δ := fun k =>
  let mask := k.objectives.map fun o => o == Obj.min
  let ds := k.dtypes.getD (k.objectives.map fun _ => newDt)
  .ok { k with matrix := invert k.matrix mask,
               objectives := k.objectives.map fun _ => Obj.max,
               dtypes := some (List.zipWith (fun (b : Bool) dt => if b then newDt else dt) mask ds) }

/-! ## filters -/

/-- boolean-mask indexing `xs[mask]` (numpy requires equal lengths; the shorter one decides here) -/
def select {β : Type} : List Bool → List β → List β
  | true :: m, x :: xs => x :: select m xs
  | false :: m, _ :: xs => select m xs
  | _, _ => []

/-- `SKCByCriteriaFilterABC._transform_data`. `mask k` stands for the pairing loop and
`_make_mask`: it raises (`ValueError`: a missing criterion that is not ignored), finds no usable
condition (`none`: matrix and alternatives are passed on as they are), or yields the mask:
```
filtered_matrix = matrix[mask]; filtered_alternatives = alternatives[mask]
kwargs.update(matrix=filtered_matrix, criteria=criteria, alternatives=filtered_alternatives, dtypes=None)
``` -/
def filterTransformer (mask : Dict α δ → Except Err (Option (List Bool))) : TData α δ := fun k =>
  match mask k with
  | .error e => .error e
  | .ok none => .ok { k with criteria := k.criteria, dtypes := none }
  | .ok (some b) =>
    .ok { k with matrix := select b k.matrix, criteria := k.criteria,
                 alternatives := select b k.alternatives, dtypes := none }

/-- `FilterNonDominated.transform` / `_transform_data`: the mask comes from
`dm.dominance.dominated(strict)`;
`kwargs.update(matrix=matrix[~dominated_mask], alternatives=alternatives[~dominated_mask])` —
`dtypes` is **not** reset here. -/
def nonDominatedTransformer (dominated : Dict α δ → List Bool) : TData α δ := fun k =>
  let keep := (dominated k).map fun b => !b
  .ok { k with matrix := select keep k.matrix, alternatives := select keep k.alternatives }

/-! ## `SKCImputerABC` -/

/-- `kwargs.update(matrix=self._impute(matrix), dtypes=None)` -/
def imputerTransformer (h : List (List α) → List (List α)) : TData α δ :=
  fun k => .ok { k with matrix := h k.matrix, dtypes := none }

/-! ## `mktransformer` -/

/-- the dictionary a user function returns: every key optional; `dtypes := some none` is
"`dtypes: None`" (infer again) -/
structure Returned (α δ : Type) where
  matrix : Option (List (List α)) := none
  objectives : Option (List Obj) := none
  weights : Option (List α) := none
  dtypes : Option (Option (List δ)) := none
  alternatives : Option (List String) := none
  criteria : Option (List String) := none
  /-- the function handed `hparams` back -/
  hparams : Bool := false
  /-- any other key it invented -/
  extra : List String := []

/-- the keys of the six parts present in the returned dictionary (after `pop("hparams")`) -/
def Returned.keys (r : Returned α δ) : List Part :=
  (if r.matrix.isSome then [Part.matrix] else []) ++
  (if r.objectives.isSome then [Part.objectives] else []) ++
  (if r.weights.isSome then [Part.weights] else []) ++
  (if r.dtypes.isSome then [Part.dtypes] else []) ++
  (if r.alternatives.isSome then [Part.alternatives] else []) ++
  (if r.criteria.isSome then [Part.criteria] else [])

/-- `_AutoTransformer._transform_data`:
`tdata = f(hparams=self, **kwargs); tdata.pop("hparams", None); kwargs.update(tdata); return kwargs` -/
def mkTransformer (f : Dict α δ → Returned α δ) : TData α δ := fun k =>
  let r := f k
  .ok { matrix := r.matrix.getD k.matrix
        objectives := r.objectives.getD k.objectives
        weights := r.weights.getD k.weights
        dtypes := r.dtypes.getD k.dtypes
        alternatives := r.alternatives.getD k.alternatives
        criteria := r.criteria.getD k.criteria
        extra := k.extra ++ r.extra }

/-! ## `SKCPipeline.transform` -/

/-- the transformer steps (`steps[:-1]`) applied in order; the first exception ends the run -/
def pipeline (env : Env α δ) : List (TData α δ) → Parts α δ → Except Err (Parts α δ)
  | [], d => .ok d
  | T :: rest, d =>
    match transform env T d with
    | .error e => .error e
    | .ok d' => pipeline env rest d'

end

/-! ## what each family declares (hand-written from the text of property C10)

"Every transformer returns a new matrix with the same criteria in the same order and, except for
filters, the same alternatives in the same order. Objectives change only under the objective
inverters; weights are unchanged unless the transformer targets weights (weight-target scalers,
weighters) and the matrix values are likewise unchanged unless it targets the matrix; filters only
drop whole alternatives."

`dtypes` are not named by the text: they are *derived* from the stored matrix (`dm.dtypes` reads
the frame), so they go with the matrix — and with every `SKCMatrixAndWeightTransformerABC`,
because its `_transform_data` asks for re-inference (`dtypes=None`) whatever the target is
(`to_dict()` hands the matrix over as ONE array, so integer criteria next to float criteria come
back as float64 even under `target="weights"`; the values are the same numbers). -/

inductive Family
  | targetSwitch   -- SKCMatrixAndWeightTransformerABC: scalers, PushNegatives, AddValueToZero
  | cenit          -- CenitDistanceMatrixScaler
  | weighter       -- SKCWeighterABC
  | inverter       -- SKCObjectivesInverterABC
  | filter         -- SKCByCriteriaFilterABC
  | nonDominated   -- FilterNonDominated
  | imputer        -- SKCImputerABC
  | other          -- a transformer class no family above covers: declares nothing
  deriving DecidableEq, Repr

def declaredFor : Family → Option Target → List Part
  | .targetSwitch, some .matrix => [.matrix, .dtypes]
  | .targetSwitch, some .weights => [.weights, .dtypes]
  | .targetSwitch, some .both => [.matrix, .weights, .dtypes]
  | .targetSwitch, none => []
  | .cenit, _ => [.matrix, .dtypes]
  | .weighter, _ => [.weights]
  | .inverter, _ => [.matrix, .objectives, .dtypes]
  | .filter, _ => [.matrix, .alternatives, .dtypes]
  | .nonDominated, _ => [.matrix, .alternatives]
  | .imputer, _ => [.matrix, .dtypes]
  | .other, _ => []

/-- a pipeline declares the union of what its steps declare -/
def declaredPipeline (steps : List (List Part)) : List Part :=
  [Part.matrix, .objectives, .weights, .dtypes, .alternatives, .criteria].filter fun p =>
    steps.any fun s => s.contains p

/-- the parts on which two tokenised records differ (`before`/`after`: one token per part, in the
order matrix, objectives, weights, dtypes, alternatives, criteria) -/
def changedParts {τ : Type} [DecidableEq τ] (before after : List τ) : List Part :=
  (([Part.matrix, .objectives, .weights, .dtypes, .alternatives, .criteria].zip
      (before.zip after)).filter fun q => q.2.1 != q.2.2).map (·.1)

/-! ## a small concrete world for `decide`d examples

cells and weights are integers counting tenths; `int` stores whole numbers only (the cast rounds
down to one), `float` stores everything -/
namespace Ex

inductive Dt | int | float
  deriving DecidableEq, Repr

def castCell : Dt → Int → Int
  | .int, x => x / 10 * 10
  | .float, x => x

/-- a column is inferred `int` when every cell is a whole number -/
def inferCols (n : Nat) (m : List (List Int)) : List Dt :=
  (List.range n).map fun j =>
    if m.all (fun row => (row.getD j 0) % 10 == 0) then Dt.int else Dt.float

def env : Env Int Dt := { infer := inferCols, cast := castCell }

/-- the same casts, but inference as numpy/pandas do it for ONE array holding a float: every column
is float (`to_dict()["matrix"]` of a matrix with an integer and a float criterion is float64) -/
def envUp : Env Int Dt := { infer := fun n _ => List.replicate n Dt.float, cast := castCell }

/-- 3 alternatives × 2 criteria, an integer criterion next to a float one, labels not sorted -/
def dm : Parts Int Dt :=
  { matrix := [[10, 25], [40, 55], [70, 15]], objectives := [.max, .min], weights := [5, 3],
    dtypes := [.int, .float], alternatives := ["b", "a", "c"], criteria := ["z", "y"] }

def double (m : List (List Int)) : List (List Int) := m.map fun r => r.map (· * 2)
def halve (w : List Int) : List Int := w.map (· / 2)
/-- negate the columns the mask names -/
def negate (m : List (List Int)) (mask : List Bool) : List (List Int) :=
  m.map fun r => List.zipWith (fun (b : Bool) x => if b then -x else x) mask r

end Ex

end Skc.Transform
