/-! # L-model: `skcriteria/cmp/ranks_rev/rank_inv_check.py` (`RankInvariantChecker`) and
`utils/unames.py::unique_names`

Import-free (core Lean only); the scalar type `α` is any type with the core arithmetic / order
classes, so the driver runs the model at exact `Rat`.

What is modelled, operation by operation, as the code is NOW (after the commit
`fix: rank-reversal checker refuses an alternative that cannot be worsened`):

* `_maximum_abs_noises` (`maxAbsNoises`): the alternatives but the best in the order of the original
  ranking, the absolute differences of consecutive rows, the last row replaced by
  `last_diff_strategy` applied to every column of the other rows.
  **Order oracle.** `rank.to_series().sort_values()` is pandas' unstable sort: the order among
  alternatives tied in the original ranking is unspecified.  The order of the non-best
  alternatives is therefore an *input* of the model (`order`), required only to be a sort of the
  original ranking (`isOrderOf`); nothing below depends on how ties are broken.
* `_mutate_dm` (`mutate`): refuses (`ValueError`) when no gap of the row is `> 0` (and NumPy's
  `uniform(0, b)` refuses a negative `b`, which only a custom strategy can produce); otherwise one draw
  `u ∈ [0,1)` per criterion from the stream (`Generator.uniform(0, b) = b * Generator.random()`),
  `noise_j = gap_j * u_j`, redrawn while every `noise_j` is zero (with fuel), negated on maximise
  criteria, added to exactly one row.  The pre-fix loop without the refusal is `mutate_v0`.
* `_generate_mutations` (`jobs`, `loopWith`, `run`): the double loop `repeat × non-best alternatives`.
  The Python generator is lazy — mutant `k+1` is drawn after the decision maker has ranked mutant
  `k` — so the loop takes the per-experiment continuation `k` and stops at the first error.
* `_add_mutation_info_to_rank` (`addMutationInfo`): alternatives the decision maker dropped are
  appended (sorted, `setxor1d`) with `max rank + 1`, or `ValueError` when not allowed; provenance
  `rrt1 = {iteration, mutated, noise, missing_alternatives}`; method name `…+RRT1+<alt>_<it>`.
* `evaluate`: the original first, then the mutants; names `Original`, `M.<alt>` through
  `unique_names` (`uniqueNames`).
* `checkTrace`: an executable checker of a *recorded* run (what a recording decision maker saw and
  what the returned rankings say) against every clause of the property.

External (validated by the correspondence check): pandas `loc` / `diff(-1)` / `abs` / `apply`,
`numpy.median` / `mean`, `numpy.random.Generator` (the stream of draws is an input), `setxor1d`. -/
namespace Skc.RankInv

inductive Obj | max | min
  deriving DecidableEq, Repr

/-- `outOfFuel` is not an exception of the code: it is the model's answer when the redraw loop
did not accept a draw within the given fuel (the pre-fix code never returns there) -/
inductive Err | valueError | outOfFuel | badOrder
  deriving DecidableEq, Repr

def Err.name : Err → String
  | .valueError => "ValueError"
  | .outOfFuel => "OutOfFuel"
  | .badOrder => "BadOrder"

/-- the parts of a `DecisionMatrix` the checker reads (float matrices: `dtypes=None` re-infers float) -/
structure DM (α : Type) where
  alts  : List String
  crits : List String
  objs  : List Obj
  wts   : List α
  cells : List (List α)      -- one row per alternative
  deriving DecidableEq, Repr

section scalar
variable {α : Type} [Add α] [Sub α] [Mul α] [Neg α] [LT α] [LE α] [OfNat α 0] [DecidableEq α]
  [DecidableLT α] [DecidableLE α]

/-- `abs` -/
def absV (x : α) : α := if x < 0 then -x else x

/-- `dm.matrix.loc[a]` (first row labelled `a`; `[]` when there is none) -/
def rowOf (d : DM α) (a : String) : List α := (d.cells[d.alts.idxOf a]?).getD []

/-! ## `_maximum_abs_noises` -/

/-- `|r − r'|` criterion by criterion -/
def absDiff (r r' : List α) : List α := List.zipWith (fun x y => absV (x - y)) r r'

/-- `not_best_df.diff(-1).abs()` without its last (NaN) row -/
def consecGaps : List (List α) → List (List α)
  | r :: r' :: rest => absDiff r r' :: consecGaps (r' :: rest)
  | _ => []

/-- column `j` of a table -/
def column (m : List (List α)) (j : Nat) : List α := m.map fun r => r.getD j 0

/-- `maximum_abs_noises.iloc[:-1].apply(last_diff_strategy)`: the strategy column by column -/
def lastGap (strat : List α → α) (ncrit : Nat) (gaps : List (List α)) : List α :=
  (List.range ncrit).map fun j => strat (column gaps j)

/-- one gap row per alternative of `order` (the non-best alternatives in ranking order) -/
def maxAbsNoises (strat : List α → α) (d : DM α) (order : List String) : List (List α) :=
  match order with
  | [] => []
  | _ => let g := consecGaps (order.map (rowOf d)); g ++ [lastGap strat d.crits.length g]

/-! ### the built-in strategies (`np.median`, `np.mean`) and the callables the harness uses -/

def insertLE (x : α) : List α → List α
  | [] => [x]
  | y :: t => if x ≤ y then x :: y :: t else y :: insertLE x t

def sortLE : List α → List α
  | [] => []
  | x :: t => insertLE x (sortLE t)

def sumL (l : List α) : α := l.foldl (· + ·) 0

/-- `np.median` (the empty case, `nan` in NumPy, is `0` here: no gap is `> 0` either way) -/
def median [Div α] [NatCast α] (l : List α) : α :=
  let s := sortLE l
  let n := s.length
  if n = 0 then 0
  else if n % 2 = 1 then s.getD (n / 2) 0
  else (s.getD (n / 2 - 1) 0 + s.getD (n / 2) 0) / ((2 : Nat) : α)

/-- `np.mean` -/
def mean [Div α] [NatCast α] (l : List α) : α :=
  if l.length = 0 then 0 else sumL l / ((l.length : Nat) : α)

def maxL (l : List α) : α :=
  match l with
  | [] => 0
  | x :: t => t.foldl (fun a b => if a < b then b else a) x

def minL (l : List α) : α :=
  match l with
  | [] => 0
  | x :: t => t.foldl (fun a b => if b < a then b else a) x

/-! ## `_mutate_dm` -/

/-- one round of `alternative_max_abs_noise.apply(lambda b: random.uniform(0, b))`: criterion `j`
takes the draw at position `pos + j` of the stream -/
def drawNoise : List α → (Nat → α) → Nat → List α
  | [], _, _ => []
  | g :: gs, draws, pos => g * draws pos :: drawNoise gs draws (pos + 1)

/-- `np.all(noise == 0)` -/
def allZero (l : List α) : Bool := l.all fun x => decide (x = 0)

/-- `while np.all(noise == 0): noise = …` — `none` = no draw accepted within `fuel` rounds.
Returns the accepted absolute noise and the new position in the stream. -/
def drawUntilNonzero : Nat → List α → (Nat → α) → Nat → Option (List α × Nat)
  | 0, _, _, _ => none
  | fuel + 1, gaps, draws, pos =>
    let noise := drawNoise gaps draws pos
    if allZero noise then drawUntilNonzero fuel gaps draws (pos + gaps.length)
    else some (noise, pos + gaps.length)

/-- `noise[dm.maxwhere] *= -1` -/
def signNoise : List Obj → List α → List α
  | .max :: os, x :: xs => -x :: signNoise os xs
  | .min :: os, x :: xs => x :: signNoise os xs
  | _, xs => xs

/-- `row + noise` -/
def addRow (row noise : List α) : List α := List.zipWith (· + ·) row noise

/-- `df.loc[mutate] += noise`: every other row is left as it is -/
def mutRows : List String → List (List α) → String → List α → List (List α)
  | b :: bs, r :: rs, a, nz => (if b = a then addRow r nz else r) :: mutRows bs rs a nz
  | _, rs, _, _ => rs

/-- `dm.copy(matrix=df.to_numpy(), dtypes=None)` -/
def withRow (d : DM α) (a : String) (noise : List α) : DM α :=
  { d with cells := mutRows d.alts d.cells a noise }

/-- a negative bound (only a custom `last_diff_strategy` can produce one): `Generator.uniform(0, b)`
raises `ValueError` ("high - low < 0") -/
def hasNeg (gaps : List α) : Bool := gaps.any fun g => decide (g < 0)

/-- the pre-fix `_mutate_dm`: no refusal of its own, the loop alone -/
def mutate_v0 (fuel : Nat) (d : DM α) (a : String) (gaps : List α) (draws : Nat → α) (pos : Nat) :
    Except Err (DM α × List α × Nat) :=
  if hasNeg gaps then .error .valueError
  else
    match drawUntilNonzero fuel gaps draws pos with
    | none => .error .outOfFuel
    | some (nz, pos') =>
      let noise := signNoise d.objs nz
      .ok (withRow d a noise, noise, pos')

/-- `np.any(alternative_max_abs_noise > 0)` -/
def hasRoom (gaps : List α) : Bool := gaps.any fun g => decide (0 < g)

/-- `_mutate_dm` as it is now: `ValueError` when no criterion leaves room for a strict worsening -/
def mutate (fuel : Nat) (d : DM α) (a : String) (gaps : List α) (draws : Nat → α) (pos : Nat) :
    Except Err (DM α × List α × Nat) :=
  if hasRoom gaps then mutate_v0 fuel d a gaps draws pos else .error .valueError

/-! ## `_generate_mutations` -/

/-- one experiment: what `_generate_mutations` yields -/
structure Exp (α : Type) where
  iteration : Nat
  mutated : String
  noise : List α
  dm : DM α
  deriving DecidableEq, Repr

/-- the iteration space of the double loop, in execution order:
`for iteration in range(repeat): for (mutated, _), gaps in maximum_abs_noises.iterrows()` -/
def jobs (rows : List (String × List α)) (rep : Nat) : List (Nat × String × List α) :=
  (List.range rep).flatMap fun it => rows.map fun r => (it, r.1, r.2)

/-- the loop body run over the iteration space; `k` is what the caller does with each experiment
before the next one is drawn (the generator is lazy); the first error ends the run -/
def loopWith {β : Type} (mutf : DM α → String → List α → (Nat → α) → Nat → Except Err (DM α × List α × Nat))
    (k : Exp α → Except Err β) (d : DM α) (draws : Nat → α) :
    List (Nat × String × List α) → Nat → Except Err (List β × Nat)
  | [], pos => .ok ([], pos)
  | (it, a, g) :: rest, pos =>
    match mutf d a g draws pos with
    | .error e => .error e
    | .ok (md, noise, pos') =>
      match k ⟨it, a, noise, md⟩ with
      | .error e => .error e
      | .ok b =>
        match loopWith mutf k d draws rest pos' with
        | .error e => .error e
        | .ok (bs, p) => .ok (b :: bs, p)

/-- all experiments, and how many draws were consumed -/
def run (strat : List α → α) (fuel : Nat) (d : DM α) (order : List String) (draws : Nat → α) (rep : Nat) :
    Except Err (List (Exp α) × Nat) :=
  loopWith (mutate fuel) (fun e => .ok e) d draws (jobs (order.zip (maxAbsNoises strat d order)) rep) 0

/-- the pre-fix experiments -/
def run_v0 (strat : List α → α) (fuel : Nat) (d : DM α) (order : List String) (draws : Nat → α) (rep : Nat) :
    Except Err (List (Exp α) × Nat) :=
  loopWith (mutate_v0 fuel) (fun e => .ok e) d draws (jobs (order.zip (maxAbsNoises strat d order)) rep) 0

end scalar

/-! ## the order oracle -/

/-- rank of alternative `a` in a ranking given by its two parallel arrays -/
def rankIn (alts : List String) (values : List Nat) (a : String) : Nat := values.getD (alts.idxOf a) 0

def sortedBy (f : String → Nat) : List String → Bool
  | a :: b :: rest => decide (f a ≤ f b) && sortedBy f (b :: rest)
  | _ => true

/-- the alternative that is never mutated: the only one not in `order` -/
def bestOf (alts order : List String) : Option String :=
  match alts.filter (fun a => !order.contains a) with
  | [b] => some b
  | _ => none

/-- `order` lists the non-best alternatives in *a* sort of the ranking: together with the best one
in front it is a permutation of the alternatives along which the rank never decreases -/
def isOrderOf (alts : List String) (values : List Nat) (order : List String) : Bool :=
  match bestOf alts order with
  | some b => (b :: order).isPerm alts && sortedBy (rankIn alts values) (b :: order)
  | none => false

/-! ## `_add_mutation_info_to_rank` -/

/-- what a decision maker returns -/
structure RankRes where
  method : String
  alts : List String
  values : List Nat
  deriving DecidableEq, Repr

/-- `extra_.rrt1` -/
structure Info (α : Type) where
  iteration : Option Nat
  mutated : Option String
  noise : Option (List α)
  missing : List String
  deriving DecidableEq, Repr

structure PRank (α : Type) where
  method : String
  alts : List String
  values : List Nat
  info : Info α
  deriving DecidableEq, Repr

def insertStr (x : String) : List String → List String
  | [] => [x]
  | y :: t => if x ≤ y then x :: y :: t else y :: insertStr x t

def sortStr : List String → List String
  | [] => []
  | x :: t => insertStr x (sortStr t)

/-- `numpy.setxor1d(a, b)`: sorted, each once -/
def setxor (a b : List String) : List String :=
  sortStr ((a.filter fun x => !b.contains x) ++ (b.filter fun x => !a.contains x)).eraseDups

def addMutationInfo {α : Type} (allow : Bool) (full : List String) (r : RankRes)
    (tag : Option (Nat × String × List α)) : Except Err (PRank α) :=
  let missing := setxor r.alts full
  if !missing.isEmpty && !allow then .error .valueError
  else
    let fill := r.values.foldl Nat.max 0 + 1
    let alts := if missing.isEmpty then r.alts else r.alts ++ missing
    let values := if missing.isEmpty then r.values else r.values ++ missing.map fun _ => fill
    match tag with
    | none => .ok ⟨r.method, alts, values, ⟨none, none, none, missing⟩⟩
    | some (it, a, noise) =>
      .ok ⟨r.method ++ "+RRT1+" ++ a ++ "_" ++ toString it, alts, values, ⟨some it, some a, some noise, missing⟩⟩

/-! ## `unique_names`

As the code is now (after `fix: unique_names keeps suffixing until the generated name is free`); the
loop before that fix took the generated name as it was (`uniqueNames_v0`).  Here the candidates are
`Original` and `M.<alternative>`, every `M.` name as often as `repeat`: the suffixing loop never has to
run twice (validated by the correspondence check), so both versions agree on them. -/

/-- `f"{name}_{count}"` -/
def sfx (n : String) (c : Nat) : String := n ++ "_" ++ toString c

/-- `{k: v for k, v in Counter(names).items() if v > 1}` read with `List.lookup` -/
def nameCount (names : List String) : List (String × Nat) :=
  (names.map fun n => (n, names.count n)).filter fun kv => decide (1 < kv.2)

/-- `used = {k for k, v in counter.items() if v == 1}` -/
def usedInit (names : List String) : List String := names.filter fun n => names.count n == 1

/-- `while name in used: name = f"{name}_{count}"` (`used.length + 1` rounds always suffice: every
round makes a longer name) -/
def freshen (used : List String) (c : Nat) : Nat → String → String
  | 0, x => x
  | fuel + 1, x => if used.contains x then freshen used c fuel (sfx x c) else x

/-- the loop of `unique_names` over the reversed names -/
def unamesLoop : List String → List (String × Nat) → List String → List String → List String
  | [], _, _, acc => acc
  | n :: rest, tbl, used, acc =>
    match tbl.lookup n with
    | some (c + 1) =>
      let x := freshen used (c + 1) (used.length + 1) (sfx n (c + 1))
      unamesLoop rest ((n, c) :: tbl) (x :: used) (x :: acc)
    | _ => unamesLoop rest tbl used (n :: acc)

def uniqueNames (names : List String) : List String :=
  unamesLoop names.reverse (nameCount names) (usedInit names) []

/-- before the fix: the generated name is taken as it is -/
def unamesLoop_v0 : List String → List (String × Nat) → List String → List String
  | [], _, acc => acc
  | n :: rest, tbl, acc =>
    match tbl.lookup n with
    | some (c + 1) => unamesLoop_v0 rest ((n, c) :: tbl) (sfx n (c + 1) :: acc)
    | _ => unamesLoop_v0 rest tbl (n :: acc)

def uniqueNames_v0 (names : List String) : List String :=
  unamesLoop_v0 names.reverse (nameCount names) []

/-! ## `evaluate` -/

section scalar
variable {α : Type} [Add α] [Sub α] [Mul α] [Neg α] [LT α] [LE α] [OfNat α 0] [DecidableEq α]
  [DecidableLT α] [DecidableLE α]

/-- what the caller gets (`ranks`, named) and what the decision maker was asked to rank (`seen`) -/
structure Outcome (α : Type) where
  seen : List (DM α)
  ranks : List (String × PRank α)

/-- `RankInvariantChecker(dmaker, repeat, allow_missing_alternatives, last_diff_strategy, random_state).evaluate(dm)`;
`order` is the order oracle's answer for the (patched) original ranking: the model (not the code)
answers `badOrder` when it is not a sort of that ranking over the alternatives of `dm` -/
def evaluate (dmaker : DM α → RankRes) (strat : List α → α) (fuel : Nat) (allow : Bool) (d : DM α)
    (order : List String) (draws : Nat → α) (rep : Nat) : Except Err (Outcome α) :=
  match addMutationInfo (α := α) allow d.alts (dmaker d) none with
  | .error e => .error e
  | .ok porank =>
    if !(porank.alts.isPerm d.alts && isOrderOf porank.alts porank.values order) then .error .badOrder
    else
      match loopWith (mutate fuel)
          (fun e => match addMutationInfo allow d.alts (dmaker e.dm) (some (e.iteration, e.mutated, e.noise)) with
            | .error err => .error err
            | .ok p => .ok (e, p))
          d draws (jobs (order.zip (maxAbsNoises strat d order)) rep) 0 with
      | .error e => .error e
      | .ok (eps, _) =>
        let names := uniqueNames ("Original" :: eps.map fun ep => "M." ++ ep.1.mutated)
        .ok ⟨d :: eps.map fun ep => ep.1.dm, names.zip (porank :: eps.map fun ep => ep.2)⟩

/-! ## trace checker -/

/-- `|x − y| ≤ tol` -/
def within (tol x y : α) : Bool := decide (absV (x - y) ≤ tol)

def dirOK : List Obj → List α → Bool
  | .max :: os, x :: xs => decide (x ≤ 0) && dirOK os xs
  | .min :: os, x :: xs => decide (0 ≤ x) && dirOK os xs
  | [], [] => true
  | _, _ => false

/-- `|noise_j| ≤ gap_j + tol` for every criterion, same length -/
def boundOK (tol : α) : List α → List α → Bool
  | g :: gs, x :: xs => decide (absV x ≤ g + tol) && boundOK tol gs xs
  | [], [] => true
  | _, _ => false

def strictOK (noise : List α) : Bool := noise.any fun x => decide (x ≠ 0)

/-- `row' = row + noise` within `tol`, same length -/
def addOK (tol : α) : List α → List α → List α → Bool
  | x :: xs, n :: ns, y :: ys => within tol y (x + n) && addOK tol xs ns ys
  | [], [], [] => true
  | _, _, _ => false

/-- rows of alternatives other than `a` are unchanged; the rows of `a` are `row + noise` within `tol` -/
def rowsOK (tol : α) (a : String) (noise : List α) : List String → List (List α) → List (List α) → Bool
  | b :: bs, r :: rs, r' :: rs' =>
    (if b = a then addOK tol r noise r' else decide (r' = r)) && rowsOK tol a noise bs rs rs'
  | [], [], [] => true
  | _, _, _ => false

/-- the clauses one recorded experiment fails, given the job (iteration, alternative, gap row) it
must be the outcome of -/
def checkExp (tol : α) (d : DM α) (job : Nat × String × List α) (e : Exp α) : List String :=
  (if e.iteration = job.1 ∧ e.mutated = job.2.1 then [] else ["sequence"]) ++
  (if e.dm.alts = d.alts ∧ e.dm.crits = d.crits ∧ e.dm.objs = d.objs ∧ e.dm.wts = d.wts then [] else ["labels"]) ++
  (if rowsOK tol job.2.1 e.noise d.alts d.cells e.dm.cells then [] else ["one_row_recorded"]) ++
  (if dirOK d.objs e.noise then [] else ["direction"]) ++
  (if boundOK tol job.2.2 e.noise then [] else ["bound"]) ++
  (if strictOK e.noise then [] else ["strict"])

def checkAll (tol : α) (d : DM α) : List (Nat × String × List α) → List (Exp α) → List String
  | j :: js, e :: es => checkExp tol d j e ++ checkAll tol d js es
  | [], [] => []
  | _, _ => ["count"]

/-- every clause of the property a recorded run fails (`[]` = accepted).  `ralts`, `rvalues`: the
original ranking as the checker patched it; `order`: the non-best alternatives in the order they
were mutated; `trace`: mutated alternative, iteration, stored noise and the matrix the decision
maker was shown, experiment by experiment. -/
def failedClauses (tol : α) (strat : List α → α) (d : DM α) (ralts : List String) (rvalues : List Nat)
    (order : List String) (rep : Nat) (trace : List (Exp α)) : List String :=
  (if ralts.isPerm d.alts && isOrderOf ralts rvalues order then [] else ["order"]) ++
  checkAll tol d (jobs (order.zip (maxAbsNoises strat d order)) rep) trace

def checkTrace (tol : α) (strat : List α → α) (d : DM α) (ralts : List String) (rvalues : List Nat)
    (order : List String) (rep : Nat) (trace : List (Exp α)) : Bool :=
  (failedClauses tol strat d ralts rvalues order rep trace).isEmpty

end scalar
end Skc.RankInv
