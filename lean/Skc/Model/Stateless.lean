/-! # C20 model — method objects, calls, call histories

A *method object* (transformer, decision maker, pipeline, rank-reversal checker, a class made by
`mkagg` / `mktransformer`) is modelled as

* `params` — what the constructor stored (`__init__` is the only place allowed to store), and
* `slots`  — anything a later call might store on the instance, on its class or in a module-level
  container (a fitted estimator, a memo, the last result, a counter, an advanced random generator).

One call (`transform(dm)` / `evaluate(dm)`) is `step : Obj → DM → Obj × Out`: it returns the object as
the call leaves it and what the caller gets.  `Out` is abstract and *includes failures*
(`Except err res`: a raised exception is an output like any other, and the object lives on).
`runHistory` feeds a finite sequence of decision matrices to ONE object.

The pure reading of a call is `out₀ step o d = (step o d).2`.

Core Lean only (no imports). -/
namespace Skc.Stateless

/-- a method object: constructor parameters + whatever a call might store -/
structure Obj (P S : Type) where
  params : P
  slots : S
deriving DecidableEq, Repr

/-- one call on a decision matrix: the object afterwards and the output (results and failures alike) -/
abbrev Step (P S D O : Type) := Obj P S → D → Obj P S × O

variable {P S D O : Type}

/-- the constructor: parameters as given, nothing stored yet -/
def new (empty : S) (p : P) : Obj P S := ⟨p, empty⟩

/-- the pure reading of one call -/
def out₀ (step : Step P S D O) (o : Obj P S) (d : D) : O := (step o d).2

/-- feed a sequence of matrices to ONE object: the object at the end and the output of every call, in order -/
def runHistory (step : Step P S D O) (o : Obj P S) : List D → Obj P S × List O
  | [] => (o, [])
  | d :: ds =>
    let r := step o d
    let rest := runHistory step r.1 ds
    (rest.1, r.2 :: rest.2)

def objAfter (step : Step P S D O) (o : Obj P S) (hist : List D) : Obj P S := (runHistory step o hist).1
def outputs (step : Step P S D O) (o : Obj P S) (hist : List D) : List O := (runHistory step o hist).2

/-- the history with the probe matrix inserted so that it is call number `k` (0-based) -/
def insertAt (k : Nat) (probe : D) (hist : List D) : List D := hist.take k ++ probe :: hist.drop k

/-- what the probe returned when it was call number `k` of the history -/
def probeOut (step : Step P S D O) (o : Obj P S) (hist : List D) (probe : D) (k : Nat) : Option O :=
  (outputs step o (insertAt k probe hist))[k]?

/-! ## a call body as the list of stores it performs

`callWith writes body`: the call computes `body params slots dm` and then performs the listed stores,
in order.  This is the shape the extracted table `Generated.selfWrites` describes: one entry per store
statement that can execute outside the constructor.  With no store at all the object is left as it was. -/

/-- a store: the new slots from the old ones, the parameters and the matrix of the call -/
abbrev SlotWrite (P S D : Type) := P → S → D → S

def applyWrites (ws : List (SlotWrite P S D)) (p : P) (s : S) (d : D) : S :=
  ws.foldl (fun acc w => w p acc d) s

def callWith (ws : List (SlotWrite P S D)) (body : P → S → D → O) : Step P S D O :=
  fun o d => (⟨o.params, applyWrites ws o.params o.slots d⟩, body o.params o.slots d)

/-- one row of the extracted table: a statement outside `__init__` / `__new__` / `__init_subclass__` /
`__set_name__` that stores into instance, class or module state of a method class -/
structure SelfWrite where
  file : String
  cls : String
  func : String
  what : String
deriving DecidableEq, Repr

/-! ## a small concrete family (used by the driver op `hist` and by the non-vacuity examples)

A decision matrix is coded as one column of integers; the method is a "shift to zero" scaler: fit
`min` on the matrix, return `x - min`.  The empty matrix is refused. -/

inductive Err | valueError | typeError
deriving DecidableEq, Repr

abbrev ToyOut := Except Err (List Int)

def minOf : List Int → Option Int
  | [] => none
  | x :: xs => some (xs.foldl (fun a b => if b < a then b else a) x)

def shift (m : Int) (d : List Int) : List Int := d.map (· - m)

instance : DecidableEq ToyOut := fun a b =>
  match a, b with
  | .ok x, .ok y => if h : x = y then isTrue (by rw [h]) else isFalse (fun e => h (by cases e; rfl))
  | .error x, .error y => if h : x = y then isTrue (by rw [h]) else isFalse (fun e => h (by cases e; rfl))
  | .ok _, .error _ => isFalse (fun e => by cases e)
  | .error _, .ok _ => isFalse (fun e => by cases e)

/-- the code as it is: a new scaler is fitted on every call; nothing is stored.
Parameters: `Unit`.  Slots: the fitted minimum, if any call ever stored one. -/
def statelessStep : Step Unit (Option Int) (List Int) ToyOut := fun o d =>
  match minOf d with
  | none => (o, .error .valueError)
  | some m => (o, .ok (shift m d))

/-- the natural "optimisation": keep the scaler fitted by the first successful call on the instance
and reuse it (a failing call stores nothing) -/
def cachingStep : Step Unit (Option Int) (List Int) ToyOut := fun o d =>
  match minOf d with
  | none => (o, .error .valueError)
  | some m =>
    match o.slots with
    | some m₀ => (o, .ok (shift m₀ d))
    | none => (⟨o.params, some m⟩, .ok (shift m d))

/-- a harmless store: the call counts itself (slot = number of successful calls) and never reads the count -/
def countingStep : Step Unit (Option Int) (List Int) ToyOut := fun o d =>
  match minOf d with
  | none => (o, .error .valueError)
  | some m => (⟨o.params, some (o.slots.getD 0 + 1)⟩, .ok (shift m d))

def toy₀ : Obj Unit (Option Int) := new none ()

end Skc.Stateless
