import Skc.Model.Num
/-! # L-model: scalers, shifters and objective inverters

`preprocessing/scalers.py` (`scale_by_sum`, `scale_by_vector`, the scikit-learn backed
`MaxAbsScaler` / `MinMaxScaler` / `StandarScaler` run through `_run_sklearn_scaler`,
`matrix_scale_by_cenit_distance`), `preprocessing/push_negatives.py`, `preprocessing/increment.py`,
`preprocessing/invert_objectives.py` and the target switch of
`_preprocessing_base.py::SKCMatrixAndWeightTransformerABC._transform_data` — operation by
operation, the same reduction along the same axis, the same argument.

Naming: `…M` is the call the class makes for the **matrix** (`axis=0`: one reduction per
criterion, i.e. per column `j`, over the alternatives `k`); `…V` is the call it makes for the
**weights** (`axis=None` on a 1-D array: one reduction over the whole vector).  The scikit-learn
scalers only know 2-D input: `_run_sklearn_scaler` reshapes the weights to one column, runs the
same per-column estimator and flattens (`runSklearnV`).

scikit-learn semantics modelled (sklearn 1.3.2, `preprocessing/_data.py`):
* `_handle_zeros_in_scale`: a scale that is **exactly** zero is replaced by 1 (the library also
  does so below `10·eps`; the generators stay clear of that band);
* `MaxAbsScaler`: `X / handle_zeros(max |X|)`;
* `MinMaxScaler`: `scale_ = (hi − lo) / handle_zeros(max − min)`, `min_ = lo − min · scale_`,
  `X·scale_ + min_`, then `np.clip(·, lo, hi)` iff `clip`; `lo ≥ hi` is refused (`ValueError`);
* `StandardScaler`: `mean_ = Σ/m`, `var_ = Σ(x − mean_)²/m` (population), constant column
  (`var_` exactly 0) ⇒ `scale_ = 1`, else `sqrt(var_)`; `X − mean_` iff `with_mean`, `/ scale_` iff
  `with_std`.
Not modelled: NaN / inf, IEEE rounding, NumPy's pairwise summation order, the correction term of
scikit-learn's two-pass variance (it is `0` over an exact field).  Import-free. -/
namespace Skc.Scalers
open Skc

/-- `target ∈ {"matrix", "weights", "both"}` -/
inductive Target | matrix | weights | both
  deriving DecidableEq, Repr, Inhabited

inductive Err | valueError
  deriving DecidableEq, Repr

/-- the parts of `dm.to_dict()` a scaler / inverter reads or writes -/
structure Data (m n : Nat) (α : Type) where
  matrix : Mat m n α
  objectives : Vec n Obj
  weights : Vec n α

section kernels
variable {α : Type} [Add α] [Sub α] [Mul α] [Div α] [Neg α] [OfNat α 0] [OfNat α 1] [NatCast α] [LT α] [LE α]
  [Max α] [Min α] [DecidableRel (α := α) (· < ·)] [DecidableRel (α := α) (· ≤ ·)]
variable {m n : Nat}

/-- `x == 0` -/
def isZero (x : α) : Bool := decide (¬ x < 0 ∧ ¬ 0 < x)

/-- a NumPy boolean multiplied by a number: `True * x = x`, `False * x = 0` -/
def boolMul (b : Bool) (x : α) : α := if b then x else 0

/-- `sklearn.preprocessing._data._handle_zeros_in_scale` -/
def handleZeros (scale : α) : α := if isZero scale then 1 else scale

/-- `np.clip(x, lo, hi) = np.minimum(np.maximum(x, lo), hi)` -/
def clipv (lo hi x : α) : α := min (max x lo) hi

/-! ### `_run_sklearn_scaler` for 1-D input -/

/-- `weights.reshape(len(weights), 1)` -/
def asColumn (w : Vec n α) : Mat n 1 α := fun i _ => w i
/-- `result.flatten()` of an `(n, 1)` array -/
def flatten1 (B : Mat n 1 α) : Vec n α := fun i => B i 0
/-- `_run_sklearn_scaler(weights, scaler)`: reshape to one column, `fit_transform`, flatten -/
def runSklearnV (scaler : Mat n 1 α → Mat n 1 α) (w : Vec n α) : Vec n α := flatten1 (scaler (asColumn w))

/-! ### `scale_by_sum(arr, axis)` -/

/-- `scale_by_sum(matrix, axis=0)`: `sumval = np.sum(arr, axis=0, keepdims=True); arr / sumval` -/
def scaleBySumM (A : Mat m n α) : Mat m n α := fun i j =>
  let sumval := sumFin fun k => A k j
  A i j / sumval

/-- `scale_by_sum(weights, axis=None)` -/
def scaleBySumV (w : Vec n α) : Vec n α := fun j =>
  let sumval := sumFin w
  w j / sumval

/-! ### `scale_by_vector(arr, axis)` -/

/-- `scale_by_vector(matrix, axis=0)`: `frob = linalg.norm(arr, None, axis=0); arr / frob` -/
def scaleByVectorM [MathFns α] (A : Mat m n α) : Mat m n α := fun i j =>
  let frob := MathFns.sqrt (sumFin fun k => A k j * A k j)
  A i j / frob

/-- `scale_by_vector(weights, axis=None)` -/
def scaleByVectorV [MathFns α] (w : Vec n α) : Vec n α := fun j =>
  let frob := MathFns.sqrt (sumFin fun k => w k * w k)
  w j / frob

/-! ### scikit-learn estimators (always column-wise on a 2-D array) -/

/-- `MaxAbsScaler().fit_transform(X)` -/
def maxAbsScale [NeZero m] (A : Mat m n α) : Mat m n α := fun i j =>
  let maxAbs := maxFin fun k => absv (A k j)
  let scale := handleZeros maxAbs
  A i j / scale

/-- `MinMaxScaler(feature_range=(lo, hi), clip=clip).fit_transform(X)` (for `lo < hi`) -/
def minMaxScale [NeZero m] (lo hi : α) (clip : Bool) (A : Mat m n α) : Mat m n α := fun i j =>
  let dataMin := minFin fun k => A k j
  let dataMax := maxFin fun k => A k j
  let dataRange := dataMax - dataMin
  let scale := (hi - lo) / handleZeros dataRange
  let min_ := lo - dataMin * scale
  let x := A i j * scale + min_
  if clip then clipv lo hi x else x

/-- scikit-learn's parameter check: `feature_range[0] >= feature_range[1]` ⇒ `ValueError` -/
def minMaxRefuses (lo hi : α) : Bool := decide (hi ≤ lo)

/-- `StandardScaler(with_mean, with_std).fit_transform(X)` -/
def standardScale [MathFns α] (withMean withStd : Bool) (A : Mat m n α) : Mat m n α := fun i j =>
  let mean := (sumFin fun k => A k j) / (m : α)
  let var := (sumFin fun k => (A k j - mean) * (A k j - mean)) / (m : α)
  let scale := if isZero var then 1 else MathFns.sqrt var
  let x := if withMean then A i j - mean else A i j
  if withStd then x / scale else x

/-! ### `matrix_scale_by_cenit_distance(matrix, objectives)` -/

/-- `maxs = np.max(matrix, axis=0); mins = np.min(matrix, axis=0); where_max = objectives == MAX;
cenit = where(where_max, maxs, mins); nadir = where(where_max, mins, maxs);
(matrix - nadir) / (cenit - nadir)` -/
def cenitScale [NeZero m] (A : Mat m n α) (o : Vec n Obj) : Mat m n α := fun i j =>
  let maxs := maxFin fun k => A k j
  let mins := minFin fun k => A k j
  let cenit := if o j = .max then maxs else mins
  let nadir := if o j = .max then mins else maxs
  (A i j - nadir) / (cenit - nadir)

/-! ### `push_negatives(arr, axis)` -/

/-- `push_negatives(matrix, axis=0)`: `mins = np.min(arr, axis=0, keepdims=True);
delta = (mins < 0) * mins; arr - delta` -/
def pushNegativesM [NeZero m] (A : Mat m n α) : Mat m n α := fun i j =>
  let mins := minFin fun k => A k j
  let delta := boolMul (decide (mins < 0)) mins
  A i j - delta

/-- `push_negatives(weights, axis=None)` -/
def pushNegativesV [NeZero n] (w : Vec n α) : Vec n α := fun j =>
  let mins := minFin w
  let delta := boolMul (decide (mins < 0)) mins
  w j - delta

/-! ### `add_value_to_zero(arr, value, axis)` -/

/-- `add_value_to_zero(matrix, value, axis=0)`: `zeros = np.any(arr == 0, axis=0, keepdims=True);
increment = zeros * value; arr + increment` -/
def addValueToZeroM (value : α) (A : Mat m n α) : Mat m n α := fun i j =>
  let zeros := anyFin fun k => isZero (A k j)
  let increment := boolMul zeros value
  A i j + increment

/-- `add_value_to_zero(weights, value, axis=None)` -/
def addValueToZeroV (value : α) (w : Vec n α) : Vec n α := fun j =>
  let zeros := anyFin fun k => isZero (w k)
  let increment := boolMul zeros value
  w j + increment

/-! ### objective inverters (`SKCObjectivesInverterABC._transform_data`) -/

/-- `NegateMinimize._invert`: `inv_mtx[:, minimize_mask] = -inv_mtx[:, minimize_mask]` -/
def negateMinimize (A : Mat m n α) (o : Vec n Obj) : Mat m n α := fun i j =>
  if o j = .min then - A i j else A i j

/-- `InvertMinimize._invert`: `inv_mtx[:, minimize_mask] = 1.0 / inv_mtx[:, minimize_mask]` -/
def invertMinimize (A : Mat m n α) (o : Vec n Obj) : Mat m n α := fun i j =>
  if o j = .min then 1 / A i j else A i j

/-- `np.full(len(objectives), Objective.MAX.value)` -/
def allMax : Vec n Obj := fun _ => .max

/-! ### the classes: which function, which axis, which part of the decision matrix -/

/-- `SKCMatrixAndWeightTransformerABC._transform_data`: the matrix goes through
`_transform_matrix` iff `target ∈ {matrix, both}`, the weights through `_transform_weights` iff
`target ∈ {weights, both}`; everything else is passed on -/
def transformData (target : Target) (transformMatrix : Mat m n α → Mat m n α)
    (transformWeights : Vec n α → Vec n α) (d : Data m n α) : Data m n α :=
  let transformedMtx := if target = .matrix ∨ target = .both then transformMatrix d.matrix else d.matrix
  let transformedWeights := if target = .weights ∨ target = .both then transformWeights d.weights else d.weights
  { d with matrix := transformedMtx, weights := transformedWeights }

def sumScaler (t : Target) (d : Data m n α) : Data m n α := transformData t scaleBySumM scaleBySumV d
def vectorScaler [MathFns α] (t : Target) (d : Data m n α) : Data m n α :=
  transformData t scaleByVectorM scaleByVectorV d
def maxAbsScaler [NeZero m] [NeZero n] (t : Target) (d : Data m n α) : Data m n α :=
  transformData t maxAbsScale (runSklearnV maxAbsScale) d
/-- `MinMaxScaler(target, clip=clip, criteria_range=(lo, hi))` -/
def minMaxScaler [NeZero m] [NeZero n] (lo hi : α) (clip : Bool) (t : Target) (d : Data m n α) :
    Except Err (Data m n α) :=
  if minMaxRefuses lo hi then .error .valueError
  else .ok (transformData t (minMaxScale lo hi clip) (runSklearnV (minMaxScale lo hi clip)) d)
/-- `StandarScaler(target, with_mean=…, with_std=…)` -/
def standarScaler [MathFns α] (withMean withStd : Bool) (t : Target) (d : Data m n α) : Data m n α :=
  transformData t (standardScale withMean withStd) (runSklearnV (standardScale withMean withStd)) d
def pushNegatives [NeZero m] [NeZero n] (t : Target) (d : Data m n α) : Data m n α :=
  transformData t pushNegativesM pushNegativesV d
def addValueToZero (value : α) (t : Target) (d : Data m n α) : Data m n α :=
  transformData t (addValueToZeroM value) (addValueToZeroV value) d

/-- `CenitDistanceMatrixScaler._transform_data`: matrix only, objectives passed on unchanged -/
def cenitDistanceMatrixScaler [NeZero m] (d : Data m n α) : Data m n α :=
  { d with matrix := cenitScale d.matrix d.objectives }

/-- `NegateMinimize` / `InvertMinimize`: matrix inverted on the minimise columns, objectives all `MAX` -/
def negateMinimizer (d : Data m n α) : Data m n α :=
  { d with matrix := negateMinimize d.matrix d.objectives, objectives := allMax }
def invertMinimizer (d : Data m n α) : Data m n α :=
  { d with matrix := invertMinimize d.matrix d.objectives, objectives := allMax }

end kernels
end Skc.Scalers
