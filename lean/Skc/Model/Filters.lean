/-! # L-model: `skcriteria/preprocessing/filters.py` (C14)

Import-free (core Lean only). Mirrors, operation by operation,

* `SKCByCriteriaFilterABC.__init__` / `_coerce_filters` (empty condition dict: `ValueError`),
* the pairing loop and the missing-criterion policy of `SKCByCriteriaFilterABC._transform_data`,
* the three `_make_mask` variants (arithmetic — as repaired by `fix: arithmetic filters compare each
  threshold with the criterion it names`, and the pre-fix pairing as `arithMask_v0` — set based,
  function based),
* `FilterNonDominated.transform` through `dm.dominance.dominated(strict=…)`
  (`core/dominance.py`, `utils/rank.py::dominance`).

A decision matrix appears as its parts: criteria labels `crits`, alternative labels `alts`, one
`row : List α` per alternative. The conditions are an **ordered** list of `(criterion, condition)`
— a Python dict keeps insertion order and the code iterates it in that order.
Result: the surviving `(alternatives, rows)` in original order, or the error the code raises.

`np.all(np.column_stack(mask_list), axis=1)` is written row by row (`List.all` over the
conditions); boolean-mask indexing `x[mask]` is `select mask x`. -/
namespace Skc.Filters

inductive Err | valueError
  deriving DecidableEq, Repr

/-- the six comparators: `np.greater, greater_equal, less, less_equal, equal, not_equal` -/
inductive Rel | gt | ge | lt | le | eq | ne
  deriving DecidableEq, Repr

section
variable {α : Type} [LT α] [LE α] [DecidableEq α]
  [DecidableRel (α := α) (· < ·)] [DecidableRel (α := α) (· ≤ ·)]

/-- `_filter(x, t)`: the cell is the left operand, the threshold the right one -/
def Rel.holds : Rel → α → α → Bool
  | .gt, x, t => decide (t < x)
  | .ge, x, t => decide (t ≤ x)
  | .lt, x, t => decide (x < t)
  | .le, x, t => decide (x ≤ t)
  | .eq, x, t => decide (x = t)
  | .ne, x, t => decide (x ≠ t)
end

/-- boolean-mask indexing `xs[mask]` (numpy requires equal lengths; the shorter one decides here) -/
def select {β : Type} : List Bool → List β → List β
  | true :: m, x :: xs => x :: select m xs
  | false :: m, _ :: xs => select m xs
  | _, _ => []

/-- the value of `row` under the criterion labelled `c` (first column carrying that label;
criteria labels of a decision matrix are unique) -/
def cellOf {α : Type} (crits : List String) (row : List α) (c : String) : Option α :=
  let i := crits.idxOf c
  if i < crits.length then row[i]? else none

/-- `__init__`: `if not len(criteria_filters): raise ValueError("Must provide at least one filter")` -/
def construct {β : Type} (conds : List (String × β)) : Except Err Unit :=
  if conds.isEmpty then .error .valueError else .ok ()

/-- `SKCSetFilterABC._coerce_filters`: every value collection must be non-empty -/
def constructSet {α : Type} (conds : List (String × List α)) : Except Err Unit :=
  if conds.isEmpty || conds.any (fun c => c.2.isEmpty) then .error .valueError else .ok ()

/-- the pairing loop of `_transform_data`, in the order in which the conditions were written:
```
for crit, flt in zip(self._criteria, self._filters):
    if crit not in criteria and not self._ignore_missing_criteria: raise ValueError
    elif crit in criteria: criteria_to_use.append(crit); criteria_filters.append(flt)
``` -/
def pairing {β : Type} (crits : List String) (ignoreMissing : Bool) :
    List (String × β) → Except Err (List (String × β))
  | [] => .ok []
  | (c, f) :: rest =>
    if !crits.contains c && !ignoreMissing then .error .valueError
    else match pairing crits ignoreMissing rest with
      | .error e => .error e
      | .ok cs => if crits.contains c then .ok ((c, f) :: cs) else .ok cs

/-- `_transform_data` after the loop: no usable condition ⇒ matrix and alternatives unchanged,
otherwise `matrix[mask]`, `alternatives[mask]` -/
def transformData {α β : Type}
    (makeMask : List String → List (String × β) → List (List α) → List Bool)
    (crits alts : List String) (rows : List (List α)) (conds : List (String × β))
    (ignoreMissing : Bool) : Except Err (List String × List (List α)) :=
  match pairing crits ignoreMissing conds with
  | .error e => .error e
  | .ok cs =>
    if cs.isEmpty then .ok (alts, rows)
    else
      let mask := makeMask crits cs rows
      .ok (select mask alts, select mask rows)

section
variable {α : Type} [LT α] [LE α] [DecidableEq α]
  [DecidableRel (α := α) (· < ·)] [DecidableRel (α := α) (· ≤ ·)]

/-- arithmetic `_make_mask`, as the code is now:
```
idxs = [criteria.index(crit) for crit in criteria_to_use]
mask = np.all(self._filter(matrix[:, idxs], criteria_filters), axis=1)
``` -/
def arithMask (r : Rel) (crits : List String) (cs : List (String × α)) (rows : List (List α)) :
    List Bool :=
  let idxs := cs.map fun c => crits.idxOf c.1
  let ts := cs.map fun c => c.2
  rows.map fun row =>
    ((idxs.map fun i => row[i]?).zip ts).all fun xt =>
      match xt.1 with
      | some x => r.holds x xt.2
      | none => false

/-- arithmetic `_make_mask` before the repair:
```
idxs = np.in1d(criteria, criteria_to_use)          # boolean, in MATRIX order
mask = np.all(self._filter(matrix[:, idxs], criteria_filters), axis=1)   # thresholds in DICT order
``` -/
def arithMask_v0 (r : Rel) (crits : List String) (cs : List (String × α)) (rows : List (List α)) :
    List Bool :=
  let inUse := crits.map fun c => cs.any fun q => q.1 == c
  let ts := cs.map fun c => c.2
  rows.map fun row => ((select inUse row).zip ts).all fun xt => r.holds xt.1 xt.2

/-- set `_make_mask`: `np.isin(column, values)` (`invert=True` for `FilterNotIn`) per named
criterion, AND-ed -/
def setMask (invert : Bool) (crits : List String) (cs : List (String × List α))
    (rows : List (List α)) : List Bool :=
  rows.map fun row =>
    cs.all fun c =>
      match cellOf crits row c.1 with
      | some x => (c.2.contains x) != invert
      | none => false

/-- `FilterGT … FilterNE` -/
def filterArith (r : Rel) (crits alts : List String) (rows : List (List α))
    (conds : List (String × α)) (ignoreMissing : Bool) : Except Err (List String × List (List α)) :=
  transformData (arithMask r) crits alts rows conds ignoreMissing

/-- the arithmetic filters before the repair -/
def filterArith_v0 (r : Rel) (crits alts : List String) (rows : List (List α))
    (conds : List (String × α)) (ignoreMissing : Bool) : Except Err (List String × List (List α)) :=
  transformData (arithMask_v0 r) crits alts rows conds ignoreMissing

/-- `FilterIn` (`invert = false`) and `FilterNotIn` (`invert = true`) -/
def filterSet (invert : Bool) (crits alts : List String) (rows : List (List α))
    (conds : List (String × List α)) (ignoreMissing : Bool) :
    Except Err (List String × List (List α)) :=
  transformData (setMask invert) crits alts rows conds ignoreMissing
end

/-- function-based `_make_mask`: the user's (vectorised, element-wise) predicate applied to the
column of the criterion it is keyed by, AND-ed -/
def fnMask {α : Type} (crits : List String) (cs : List (String × (α → Bool)))
    (rows : List (List α)) : List Bool :=
  rows.map fun row =>
    cs.all fun c =>
      match cellOf crits row c.1 with
      | some x => c.2 x
      | none => false

/-- `Filter` -/
def filterFn {α : Type} (crits alts : List String) (rows : List (List α))
    (conds : List (String × (α → Bool))) (ignoreMissing : Bool) :
    Except Err (List String × List (List α)) :=
  transformData fnMask crits alts rows conds ignoreMissing

/-! ## `FilterNonDominated` -/

inductive Obj | max | min
  deriving DecidableEq, Repr

section
variable {α : Type} [LT α] [DecidableEq α] [DecidableRel (α := α) (· < ·)]

/-- `np.where(reverse, a < b, a > b)` at one criterion (`reverse = dm.minwhere`) -/
def aDbAt (o : Obj) (x y : α) : Bool :=
  match o with
  | .min => decide (x < y)
  | .max => decide (y < x)

/-- the counts of `rank.dominance(a, b, reverse)` -/
structure DomEntry where
  eq : Nat
  aDb : Nat
  bDa : Nat
  deriving Repr, DecidableEq

/-- `utils/rank.py::dominance`: `eq_where = a == b`, `aDb_where = where(reverse, a<b, a>b)`,
`bDa_where = ~(aDb_where | eq_where)`; the entry keeps the three sums -/
def domEntry (objs : List Obj) (a b : List α) : DomEntry :=
  let z := objs.zip (a.zip b)
  { eq := z.countP fun t => decide (t.2.1 = t.2.2)
    aDb := z.countP fun t => aDbAt t.1 t.2.1 t.2.2
    bDa := z.countP fun t => !(aDbAt t.1 t.2.1 t.2.2 || decide (t.2.1 = t.2.2)) }

/-- one cell of `dominance(strict)`: does the alternative at position `i` dominate the one at
position `j`? The cache holds `dominance(rows[i], rows[j])` for `i < j` only
(`it.combinations`); the other half is read through the reverted key. -/
def dominanceCell (strict : Bool) (objs : List Obj) (rows : List (List α)) (i j : Nat) : Bool :=
  if i = j then false
  else
    let reverted := !decide (i < j)
    let e := if reverted then domEntry objs (rows.getD j []) (rows.getD i [])
             else domEntry objs (rows.getD i []) (rows.getD j [])
    let p0 := if reverted then e.bDa else e.aDb
    let p1 := if reverted then e.aDb else e.bDa
    if strict && e.eq != 0 then false else decide (0 < p0) && p1 == 0

/-- `dominated(strict) = dominance(strict).any()`: column `j` has a `True` in some row -/
def dominatedMask (strict : Bool) (objs : List Obj) (rows : List (List α)) : List Bool :=
  (List.range rows.length).map fun j =>
    (List.range rows.length).any fun i => dominanceCell strict objs rows i j

/-- `FilterNonDominated(strict).transform`: `matrix[~dominated_mask]`, `alternatives[~dominated_mask]` -/
def filterNonDominated (strict : Bool) (objs : List Obj) (alts : List String)
    (rows : List (List α)) : List String × List (List α) :=
  let keep := (dominatedMask strict objs rows).map fun b => !b
  (select keep alts, select keep rows)
end

/-! ## the documented example (`filters.py` docstrings) -/
namespace Ex
def crits : List String := ["ROE", "CAP", "RI"]
def alts : List String := ["PE", "JN", "AA", "MM", "FN"]
def rows : List (List Int) := [[7, 5, 35], [5, 4, 26], [5, 6, 28], [1, 7, 30], [5, 8, 30]]
def objs : List Obj := [.max, .max, .min]
end Ex

end Skc.Filters
