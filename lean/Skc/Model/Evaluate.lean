import Skc.Model.Agg
import Skc.Model.Electre
/-! # L-model: `SKCDecisionMakerABC.evaluate` end to end for the closed-form ranking methods
`data = dm.to_dict()` → the domain guards of `_evaluate_data` → the kernel → `rank_values` →
`_make_result(alternatives=data["alternatives"], values=rank, extra={score …})` → `RankResult`
validation (a NaN similarity makes `RankResult` refuse).  Import-free. -/
namespace Skc.Eval
open Skc Skc.Agg

inductive Method
  | wsm | wpm | ratio | refpoint | fmf
  | topsis (μ : Metric)
  deriving DecidableEq, Repr

/-- the result object together with the score the result reports in `e_` -/
structure Out (m : Nat) (α : Type) where
  alts : List String
  rank : List Nat
  score : Vec m α

/-- higher score is better for every method but ReferencePointMOORA -/
def Method.rev : Method → Bool
  | .refpoint => false
  | _ => true

section
variable {α : Type} [Add α] [Sub α] [Mul α] [Div α] [Neg α] [OfNat α 0] [OfNat α 1] [LT α] [LE α] [Max α] [Min α]
  [DecidableEq α] [DecidableRel (α := α) (· < ·)] [DecidableRel (α := α) (· ≤ ·)]
variable {m n : Nat}

def isZero (x : α) : Bool := !decide (x < 0) && !decide (0 < x)

/-- the score vector a method reports (`score` / `similarity`) -/
def scoreOf [MathFns α] [NeZero m] [NeZero n] (meth : Method) (A : Mat m n α) (o : Vec n Obj) (w : Vec n α) : Vec m α :=
  match meth with
  | .wsm => wsm A w
  | .wpm => wpm A w
  | .ratio => ratio A o w
  | .refpoint => refpoint A o w
  | .fmf => fmfCode A o w
  | .topsis μ => topsis μ A o w

/-- does `evaluate` raise `ValueError`: the guards of `_evaluate_data`, and for TOPSIS a `0/0`
similarity (all alternatives coincide after weighting) which `RankResult` refuses as "not a ranking" -/
def refuses [MathFns α] [NeZero m] [NeZero n] (meth : Method) (A : Mat m n α) (o : Vec n Obj) (w : Vec n α) : Bool :=
  match meth with
  | .wsm => wsmRefuses A o
  | .wpm => wpmRefuses A o
  | .fmf => fmfRefuses A
  | .topsis μ => anyFin fun i =>
      isZero (dist μ (weighted A w i) (ideal A o w) + dist μ (weighted A w i) (antiIdeal A o w))
  | _ => false

def evaluate [MathFns α] [NeZero m] [NeZero n] (meth : Method) (alts : List String)
    (A : Mat m n α) (o : Vec n Obj) (w : Vec n α) : Except Err (Out m α) :=
  if refuses meth A o w then .error .valueError
  else
    let s := scoreOf meth A o w
    .ok { alts := alts, rank := rankValues meth.rev (Vec.toList s), score := s }

/-! ### the field-only methods (no `sqrt` / `log`): what the driver runs end to end at `Rat` -/
inductive MethodQ
  | wsm | ratio | refpoint
  | topsis (μ : Metric)   -- squared Euclidean, city-block, Chebyshev
  deriving DecidableEq, Repr

def MethodQ.rev : MethodQ → Bool
  | .refpoint => false
  | _ => true

def scoreOfQ [NeZero m] [NeZero n] (meth : MethodQ) (A : Mat m n α) (o : Vec n Obj) (w : Vec n α) : Vec m α :=
  match meth with
  | .wsm => wsm A w
  | .ratio => ratio A o w
  | .refpoint => refpoint A o w
  | .topsis μ => topsisQ μ A o w

def refusesQ [NeZero m] [NeZero n] (meth : MethodQ) (A : Mat m n α) (o : Vec n Obj) (w : Vec n α) : Bool :=
  match meth with
  | .wsm => wsmRefuses A o
  | .topsis μ => anyFin fun i =>
      isZero (distQ μ (weighted A w i) (ideal A o w) + distQ μ (weighted A w i) (antiIdeal A o w))
  | _ => false

def evaluateQ [NeZero m] [NeZero n] (meth : MethodQ) (alts : List String)
    (A : Mat m n α) (o : Vec n Obj) (w : Vec n α) : Except Err (Out m α) :=
  if refusesQ meth A o w then .error .valueError
  else
    let s := scoreOfQ meth A o w
    .ok { alts := alts, rank := rankValues meth.rev (Vec.toList s), score := s }
end


/-! ### ELECTRE1 end to end: a `KernelResult` (one boolean per alternative) with the relation it reports -/
structure KernelOut (m : Nat) where
  alts : List String
  kernel : Vec m Bool
  outrank : Mat m m Bool

section
open Skc.Electre
variable {α : Type} [Add α] [Sub α] [Mul α] [Div α] [Neg α] [OfNat α 0] [OfNat α 1] [LT α] [LE α] [Max α] [Min α]
  [DecidableEq α] [DecidableRel (α := α) (· < ·)] [DecidableRel (α := α) (· ≤ ·)]
variable {m n : Nat}

def evaluateElectre1 [NeZero m] [NeZero n] (alts : List String) (A : Mat m n α) (o : Vec n Obj) (w : Vec n α) (p q : α) :
    KernelOut m :=
  { alts := alts, kernel := electre1Kernel A o w p q, outrank := electre1Outrank A o w p q }
end

end Skc.Eval
