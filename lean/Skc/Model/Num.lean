/-! # L-model, numeric layer: NumPy reductions over shaped arrays

A NumPy array of shape `(m, n)` is modelled as a function `Fin m → Fin n → α`, a vector of shape
`(n,)` as `Fin n → α`; reductions (`np.sum`, `np.max`, `np.min` along an axis, `np.inner`) are
folds over `List.ofFn`.  Import-free (core Lean only): the driver runs these definitions at
`α := Rat` (exact) and `α := Float`; the proofs instantiate them at any linear ordered field / `ℝ`.
Summation order (NumPy uses pairwise summation) is not modelled: over `Rat`/`ℝ` it is irrelevant. -/
namespace Skc

/-- optimisation sense of a criterion: `Objective.MAX` (value `1`) / `Objective.MIN` (value `-1`) -/
inductive Obj | max | min
  deriving DecidableEq, Repr, Inhabited

abbrev Vec (n : Nat) (α : Type) := Fin n → α
abbrev Mat (m n : Nat) (α : Type) := Fin m → Fin n → α

/-- functions a few kernels need beyond field arithmetic (`np.sqrt`, `np.log`, `np.log10`) -/
class MathFns (α : Type) where
  sqrt : α → α
  log : α → α
  log10 : α → α

instance : MathFns Float := ⟨Float.sqrt, Float.log, Float.log10⟩

section
variable {α : Type}

/-- `np.sum` of a vector -/
def sumFin [Add α] [OfNat α 0] {n : Nat} (f : Fin n → α) : α := (List.ofFn f).foldl (· + ·) 0

/-- `np.max` of a non-empty vector -/
def maxFin [Max α] {n : Nat} [NeZero n] (f : Fin n → α) : α := (List.ofFn f).foldl max (f 0)

/-- `np.min` of a non-empty vector -/
def minFin [Min α] {n : Nat} [NeZero n] (f : Fin n → α) : α := (List.ofFn f).foldl min (f 0)

/-- how many indices satisfy `p` (`np.sum(mask)`) -/
def countFin {n : Nat} (p : Fin n → Bool) : Nat := ((List.ofFn p).filter id).length

/-- `np.any(mask)` / `np.all(mask)` -/
def anyFin {n : Nat} (p : Fin n → Bool) : Bool := (List.ofFn p).any id
def allFin {n : Nat} (p : Fin n → Bool) : Bool := (List.ofFn p).all id

/-- `np.abs` -/
def absv [Neg α] [LT α] [OfNat α 0] [DecidableRel (α := α) (· < ·)] (x : α) : α := if x < 0 then -x else x

/-- `Objective.value`: `+1` / `-1` -/
def Obj.sgn [Neg α] [OfNat α 1] : Obj → α
  | .max => 1
  | .min => -1

/-- evaluate once and look up afterwards (semantically the identity; keeps the driver fast) -/
def tabulate {n : Nat} (f : Fin n → α) : Fin n → α :=
  let a := Array.ofFn f
  fun i => a[i.val]'(by simp [a])

def tabulate2 {m n : Nat} (f : Fin m → Fin n → α) : Fin m → Fin n → α :=
  let a := Array.ofFn fun i => Array.ofFn (f i)
  fun i j => (a[i.val]'(by simp [a]))[j.val]'(by simp [a])

end

/-- list form of a vector / matrix (what the driver prints) -/
def Vec.toList {α n} (v : Vec n α) : List α := List.ofFn v
def Mat.toLists {α m n} (A : Mat m n α) : List (List α) := List.ofFn fun i => List.ofFn (A i)

end Skc
