/-! # L-model: `skcriteria/utils/rank.py::rank_values`, result validation (`agg/_agg_base.py`)

Import-free (core Lean only) so that the driver links as a native executable.
`scipy.stats.rankdata(x, "dense")` is the external part: modelled as "1 + number of distinct
strictly smaller values" and validated by the correspondence check. -/
namespace Skc

/-- distinct values of a list (order irrelevant for everything below) -/
def distinct {α} [DecidableEq α] : List α → List α
  | [] => []
  | x :: xs => if x ∈ distinct xs then distinct xs else x :: distinct xs

/-- dense rank of `x` among the scores `s`: one plus the number of distinct smaller scores -/
def rankOf {α} [LT α] [DecidableRel (α := α) (· < ·)] [DecidableEq α] (s : List α) (x : α) : Nat :=
  ((distinct s).filter (· < x)).length + 1

/-- `scipy.stats.rankdata(s, "dense")` -/
def denseRank {α} [LT α] [DecidableRel (α := α) (· < ·)] [DecidableEq α] (s : List α) : List Nat :=
  s.map (rankOf s)

/-- `rank_values(arr, reverse)`: `reverse=True` multiplies by −1 first (exact in binary64) -/
def rankValues {α} [LT α] [Neg α] [DecidableRel (α := α) (· < ·)] [DecidableEq α]
    (reverse : Bool) (s : List α) : List Nat :=
  denseRank (if reverse then s.map (- ·) else s)

/-! ## `RankResult._validate_result` / `KernelResult._validate_result` -/

/-- insertion into a sorted list (`np.sort`; the same recursion as Mathlib's `orderedInsert`) -/
def insertSorted (x : Int) : List Int → List Int
  | [] => [x]
  | y :: t => if x ≤ y then x :: y :: t else y :: insertSorted x t

def isort : List Int → List Int
  | [] => []
  | x :: t => insertSorted x (isort t)

/-- `np.sort(np.unique(values))` must be `1..len` -/
def validRank (v : List Int) : Bool :=
  isort (distinct v) == (List.range (distinct v).length).map (fun (i : Nat) => (i : Int) + 1)

/-- a result object: alternatives paired positionally with the method's value vector
(`SKCDecisionMakerABC.evaluate`: `alternatives = data["alternatives"]`) -/
structure Result (β : Type) where
  alts : List String
  values : List β
  deriving Repr

def mkResult {β} (alts : List String) (values : List β) : Result β := ⟨alts, values⟩

/-- kernel of an outranking relation: `~outrank.any(axis=0)` — alternative `k` is in the kernel
iff no row has `True` in column `k` -/
def kernelOf (outrank : List (List Bool)) (n : Nat) : List Bool :=
  (List.range n).map fun k => !(outrank.any fun r => r.getD k false)

end Skc
