import Skc.Drv.Json
import Skc.Model.Rank
/-! Driver operations for C03 (also used by other checks): `rank`, `validrank`, `kernel`. -/
open Lean
namespace Skc.Drv

def opRank (j : Json) : Except String Json := do
  let s ← listOf asRat (← field j "scores")
  let rev ← asBool (fieldD j "reverse" (.bool false))
  pure (obj [("ranks", jList jNat (rankValues rev s))])

def opValidRank (j : Json) : Except String Json := do
  let v ← listOf asInt (← field j "values")
  pure (obj [("ok", jBool (validRank v))])

def opKernel (j : Json) : Except String Json := do
  let o ← matOf asBool (← field j "outrank")
  let n ← asNat (← field j "n")
  pure (obj [("kernel", jList jBool (kernelOf o n))])

def handleC03 (op : String) (j : Json) : Option (Except String Json) :=
  match op with
  | "rank" => some (opRank j)
  | "validrank" => some (opValidRank j)
  | "kernel" => some (opKernel j)
  | _ => none

end Skc.Drv
