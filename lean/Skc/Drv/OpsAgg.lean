import Skc.Drv.Json
import Skc.Model.Agg
/-! Driver operations for the aggregation kernels (C04–C06): `agg`, `multimoora-post`. -/
open Lean
namespace Skc.Drv.AggOps
open Skc Skc.Agg Skc.Drv

def asObj (j : Json) : Except String Obj := do
  match ← asStr j with
  | "max" => pure .max
  | "min" => pure .min
  | s => .error s!"bad objective {s}"

def asMetric (s : String) : Except String Metric :=
  match s with
  | "euclidean" => pure .euclidean
  | "sqeuclidean" => pure .sqeuclidean
  | "cityblock" => pure .cityblock
  | "chebyshev" => pure .chebyshev
  | "minkowski" => pure .minkowski
  | _ => .error s!"bad metric {s}"

/-- a shaped matrix out of a list of rows (all of the same length) -/
def withMat {α β : Type} [Inhabited α] (rows : List (List α)) (ncols : Nat)
    (k : (m n : Nat) → Mat m n α → Except String β) : Except String β :=
  if rows.all (·.length == ncols) then
    let arr := (rows.map List.toArray).toArray
    k rows.length ncols (fun i j => (arr.getD i.val #[]).getD j.val default)
  else .error "ragged matrix"

def vecOf {α : Type} [Inhabited α] (l : List α) (n : Nat) : Vec n α :=
  let a := l.toArray
  fun j => a.getD j.val default

/-- evaluate a vector / matrix once into arrays (the driver's memoisation; `tabulate` in a `def`
returning a lambda would be re-evaluated at every application) -/
def memoV {α : Type} {n : Nat} (f : Fin n → α) : Array α := Array.ofFn f
def memoM {α : Type} {m n : Nat} (f : Fin m → Fin n → α) : Array (Array α) := Array.ofFn fun i => Array.ofFn (f i)
def atV {α : Type} [Inhabited α] {n : Nat} (a : Array α) : Fin n → α := fun i => a.getD i.val default
def atM {α : Type} [Inhabited α] {m n : Nat} (a : Array (Array α)) : Fin m → Fin n → α :=
  fun i j => (a.getD i.val #[]).getD j.val default

section generic
variable {α : Type} [Inhabited α] [Add α] [Sub α] [Mul α] [Div α] [Neg α] [OfNat α 0] [OfNat α 1] [LT α] [LE α]
  [Max α] [Min α] [DecidableRel (α := α) (· < ·)] [DecidableRel (α := α) (· ≤ ·)]

/-- field-only kernels (run at `Rat` and `Float`) -/
def aggField (jn : α → Json) (method : String) (metric : String) (rows : List (List α)) (os : List Obj) (ws : List α) :
    Except String Json :=
  withMat rows os.length fun m n A => do
    if hm : m = 0 then .error "no alternatives" else
    if hn : n = 0 then .error "no criteria" else
    haveI : NeZero m := ⟨hm⟩
    haveI : NeZero n := ⟨hn⟩
    let o : Vec n Obj := vecOf os n
    let w : Vec n α := vecOf ws n
    match method with
    | "wsm" => pure (obj [("score", jList jn (Vec.toList (wsm A w))), ("refuses", jBool (wsmRefuses A o))])
    | "ratio" => pure (obj [("score", jList jn (Vec.toList (ratio A o w)))])
    | "refpoint" =>
      let refA := memoV (referencePoint A o)
      let ref : Vec n α := atV refA
      let sc : Vec m α := fun i => maxFin fun j => absv (w j * (A i j - ref j))
      pure (obj [("score", jList jn (Vec.toList sc)), ("reference_point", jList jn refA.toList)])
    | "topsis" => do
      let μ ← asMetric metric
      let idlA := memoV (ideal A o w)
      let antiA := memoV (antiIdeal A o w)
      let idl : Vec n α := atV idlA
      let anti : Vec n α := atV antiA
      let sim : Vec m α := fun i =>
        let dB := distQ μ (weighted A w i) idl
        let dW := distQ μ (weighted A w i) anti
        dW / (dB + dW)
      let degenerate := anyFin fun i => decide (¬ (distQ μ (weighted A w i) idl + distQ μ (weighted A w i) anti < 0) ∧
                                              ¬ (0 < distQ μ (weighted A w i) idl + distQ μ (weighted A w i) anti))
      pure (obj [("score", jList jn (Vec.toList sim)), ("ideal", jList jn (Vec.toList idl)),
                 ("anti_ideal", jList jn (Vec.toList anti)), ("degenerate", jBool degenerate)])
    | "guards" => pure (obj [("wsm", jBool (wsmRefuses A o)), ("wpm", jBool (wpmRefuses A o)), ("fmf", jBool (fmfRefuses A))])
    | s => .error s!"bad field method {s}"

/-- kernels with `sqrt` / `log` (run at `Float`) -/
def aggMath [MathFns α] (jn : α → Json) (method : String) (metric : String) (rows : List (List α)) (os : List Obj) (ws : List α) :
    Except String Json :=
  withMat rows os.length fun m n A => do
    if hm : m = 0 then .error "no alternatives" else
    if hn : n = 0 then .error "no criteria" else
    haveI : NeZero m := ⟨hm⟩
    haveI : NeZero n := ⟨hn⟩
    let o : Vec n Obj := vecOf os n
    let w : Vec n α := vecOf ws n
    match method with
    | "wpm" => pure (obj [("score", jList jn (Vec.toList (wpm A w)))])
    | "fmf" => pure (obj [("score", jList jn (Vec.toList (fmfCode A o w))), ("spec", jList jn (Vec.toList (fmfSpec A o w)))])
    | "topsis" => do
      let μ ← asMetric metric
      let idlA := memoV (ideal A o w)
      let antiA := memoV (antiIdeal A o w)
      let idl : Vec n α := atV idlA
      let anti : Vec n α := atV antiA
      let sim : Vec m α := fun i =>
        let dB := dist μ (weighted A w i) idl
        let dW := dist μ (weighted A w i) anti
        dW / (dB + dW)
      pure (obj [("score", jList jn (Vec.toList sim)), ("ideal", jList jn (Vec.toList idl)),
                 ("anti_ideal", jList jn (Vec.toList anti))])
    | s => .error s!"bad math method {s}"
end generic

def opAgg (j : Json) : Except String Json := do
  let method ← asStr (← field j "method")
  let metric ← asStr (fieldD j "metric" (.str "euclidean"))
  let os ← listOf asObj (← field j "O")
  let dom ← asStr (fieldD j "domain" (.str "rat"))
  match dom with
  | "rat" =>
    let rows ← matOf asRat (← field j "M")
    let ws ← listOf asRat (← field j "w")
    aggField jRat method metric rows os ws
  | "float" =>
    let rows ← matOf asFloat (← field j "M")
    let ws ← listOf asFloat (← field j "w")
    if method == "wpm" || method == "fmf" || (method == "topsis" && (metric == "euclidean" || metric == "minkowski")) then
      aggMath jFloat method metric rows os ws
    else aggField jFloat method metric rows os ws
  | s => .error s!"bad domain {s}"

/-- MultiMOORA after the three component scores (sent as exact rationals of the reported floats) -/
def opMultimooraPost (j : Json) : Except String Json := do
  let s1 ← listOf asRat (← field j "ratio_score")
  let s2 ← listOf asRat (← field j "refpoint_score")
  let s3 ← listOf asRat (← field j "fmf_score")
  let rm := rankMatrix (rankValues true s1) (rankValues false s2) (rankValues true s3)
  let sc := multimooraScore rm
  let rk := rankValues true (sc.map fun (k : Nat) => (k : Int))
  pure (obj [("rank_matrix", jMat jNat rm), ("score", jList jNat sc), ("rank", jList jNat rk)])

end Skc.Drv.AggOps

namespace Skc.Drv
def handleAgg (op : String) (j : Json) : Option (Except String Json) :=
  match op with
  | "agg" => some (AggOps.opAgg j)
  | "multimoora-post" => some (AggOps.opMultimooraPost j)
  | _ => none
end Skc.Drv
