import Skc.Drv.Json
import Skc.Model.Data
import Skc.Generated.Aliases
/-! Driver operations for C01: `sel` (a chain of selections on a decision matrix, outcome of every
link), `alias` (`Objective.from_alias`). Cells and weights travel as exact rationals. -/
open Lean
namespace Skc.Drv
open Skc.Data

def asObj (j : Json) : Except String Obj := do
  match (← asStr j) with
  | "max" => pure .max
  | "min" => pure .min
  | s => .error s!"bad objective {s}"

def asDType (j : Json) : Except String DType := do
  match (← asStr j) with
  | "int" => pure .int
  | "float" => pure .float
  | s => .error s!"bad dtype {s}"

def jObj : Obj → Json
  | .max => "max"
  | .min => "min"

def jDType : DType → Json
  | .int => "int"
  | .float => "float"

def asDM (j : Json) : Except String (DM Rat) := do
  pure { alts := ← listOf asStr (← field j "alts"), crits := ← listOf asStr (← field j "crits"),
         objs := ← listOf asObj (← field j "objs"), wts := ← listOf asRat (← field j "wts"),
         dts := ← listOf asDType (← field j "dts"), cells := ← matOf asRat (← field j "cells") }

def jDM (d : DM Rat) : Json :=
  obj [("alts", jList jStr d.alts), ("crits", jList jStr d.crits), ("objs", jList jObj d.objs),
       ("wts", jList jRat d.wts), ("dts", jList jDType d.dts), ("cells", jMat jRat d.cells)]

/-- the single key of a one-entry object -/
def tagged (j : Json) : Except String (String × Json) :=
  match j with
  | .obj kvs => match kvs.toList with
    | [(k, v)] => .ok (k, v)
    | _ => .error "expected an object with exactly one key"
  | _ => .error "expected object"

def pair (j : Json) : Except String (Json × Json) := do
  match (← asList j) with
  | [a, b] => pure (a, b)
  | _ => .error "expected [a, b]"

def triple (j : Json) : Except String (Json × Json × Json) := do
  match (← asList j) with
  | [a, b, c] => pure (a, b, c)
  | _ => .error "expected [a, b, step]"

def asLSel (j : Json) : Except String LSel := do
  let (k, v) ← tagged j
  match k with
  | "one" => pure (.one (← asStr v))
  | "many" => pure (.many (← listOf asStr v))
  | "slice" => let (a, b) ← pair v; pure (.slice (← optOf asStr a) (← optOf asStr b))
  | "mask" => pure (.mask (← listOf asBool v))
  | "all" => pure .all
  | _ => .error s!"bad label selector {k}"

def asISel (j : Json) : Except String ISel := do
  let (k, v) ← tagged j
  match k with
  | "one" => pure (.one (← asInt v))
  | "many" => pure (.many (← listOf asInt v))
  | "slice" => let (a, b, c) ← triple v; pure (.slice (← optOf asInt a) (← optOf asInt b) (← optOf asInt c))
  | "mask" => pure (.mask (← listOf asBool v))
  | "all" => pure .all
  | _ => .error s!"bad positional selector {k}"

def asGSel (j : Json) : Except String GSel := do
  let (k, v) ← tagged j
  match k with
  | "col" => pure (.col (← asStr v))
  | "cols" => pure (.cols (← listOf asStr v))
  | "rows" => let (a, b, c) ← triple v; pure (.rows (← optOf asInt a) (← optOf asInt b) (← optOf asInt c))
  | "rowsL" => let (a, b) ← pair v; pure (.rowsL (← optOf asStr a) (← optOf asStr b))
  | "mask" => pure (.mask (← listOf asBool v))
  | _ => .error s!"bad getitem selector {k}"

def asStep (j : Json) : Except String Step := do
  match (← asStr (← field j "kind")) with
  | "getitem" => pure (.getitem (← asGSel (← field j "sel")))
  | "loc" => pure (.loc (← asLSel (← field j "rows")) (← optOf asLSel (fieldD j "cols" .null)))
  | "iloc" => pure (.iloc (← asISel (← field j "rows")) (← optOf asISel (fieldD j "cols" .null)))
  | "copy" => pure .copy
  | "roundtrip" => pure .roundtrip
  | k => .error s!"bad step kind {k}"

def jOutcome : Except Err (DM Rat) → Json
  | .ok d => obj [("dm", jDM d)]
  | .error e => obj [("err", jStr e.name)]

/-- `{"op":"sel","dm":…,"chain":[…],"version":"fixed"|"v1"|"v0"}` → `{"steps":[{"dm":…}|{"err":…},…]}` -/
def opSel (j : Json) : Except String Json := do
  let d ← asDM (← field j "dm")
  let chain ← listOf asStep (← field j "chain")
  let version := match (← asStr (fieldD j "version" "fixed")) with
    | "v0" => 0
    | "v1" => 1
    | _ => 2
  pure (obj [("steps", jList jOutcome (runTrace version d chain))])

def asAliasKey (j : Json) : Except String AliasKey := do
  let (k, v) ← tagged j
  match k with
  | "int" => pure (.int (← asInt v))
  | "str" => pure (.str (← asStr v))
  | "fn" => pure (.fn (← asStr v))
  | _ => .error s!"bad alias key {k}"

/-- `{"op":"alias","key":{"int":1}|{"str":"MAX"}|{"fn":"numpy.max"}}` → `{"sense":"max"|"min"|null}`;
a string is lower-cased first, as `from_alias` does -/
def opAlias (j : Json) : Except String Json := do
  let k ← asAliasKey (← field j "key")
  let k := match k with
    | .str s => .str s.toLower
    | k => k
  pure (obj [("sense", jOpt jObj (Skc.Generated.fromAlias k))])

def handleC01 (op : String) (j : Json) : Option (Except String Json) :=
  match op with
  | "sel" => some (opSel j)
  | "alias" => some (opAlias j)
  | _ => none

end Skc.Drv
