import Skc.Drv.Json
import Skc.Model.RankInv
/-! Driver operations for C19 (`RankInvariantChecker`), exact rationals.

* `{"op":"rrt1","dm":{"alts","crits","objs","wts","cells"},"order":[…non-best alternatives in the
  order they are mutated…],"draws":[…u ∈ [0,1), one per criterion per round…],"repeat":n,
  "strategy":"median"|"mean"|"max"|"min"|"halfmean"|"meanminus1"|"negmean","fuel":n?,"version":"fixed"|"v0"?,
  "results":[{"method","alts","values"},…]?,"allow":bool?}`
  → `{"experiments":[{"mutated","iteration","noise","row"}],"consumed":n}` or `{"err":"ValueError"|"OutOfFuel"|"OutOfDraws"}`.
  With `results` (what the decision maker answered, call by call, the original first) the reply also
  carries `"patched":[{"method","alts","values","missing","mutated","iteration"}]` and `"names"`, or the
  error the checker raises first.
* `{"op":"rrt1-check","dm":…,"orank":{"alts","values"},"order":[…],"repeat":n,"strategy":…,"tol":q,
  "experiments":[{"mutated","iteration","noise","dm":{…}}]}` → `{"ok":bool,"failed":[clause…]}`. -/
open Lean
namespace Skc.Drv
namespace C19Ops
open Skc.RankInv

def objOf (j : Json) : Except String Obj :=
  match j with
  | .str "max" => pure .max
  | .str "min" => pure .min
  | _ => do
    let i ← asInt j
    if i == 1 then pure .max else if i == -1 then pure .min else .error "objective must be 1/-1/max/min"

def dmOf (j : Json) : Except String (DM Rat) := do
  let alts ← listOf asStr (← field j "alts")
  let crits ← listOf asStr (← field j "crits")
  let objs ← listOf objOf (← field j "objs")
  let wts ← listOf asRat (← field j "wts")
  let cells ← matOf asRat (← field j "cells")
  if cells.length != alts.length then throw "cells/alts length mismatch"
  if objs.length != crits.length || wts.length != crits.length then throw "objs/wts/crits length mismatch"
  if cells.any (fun r => r.length != crits.length) then throw "ragged cells"
  pure ⟨alts, crits, objs, wts, cells⟩

def halfMean (l : List Rat) : Rat := mean l / 2

def stratOf (j : Json) : Except String (List Rat → Rat) := do
  match (← asStr j) with
  | "median" => pure median
  | "mean" => pure mean
  | "max" => pure maxL
  | "min" => pure minL
  | "halfmean" => pure halfMean
  | "meanminus1" => pure fun l => mean l - 1
  | "negmean" => pure fun l => - mean l
  | s => throw s!"bad strategy {s}"

def resultOf (j : Json) : Except String RankRes := do
  let m ← asStr (fieldD j "method" (.str ""))
  let alts ← listOf asStr (← field j "alts")
  let values ← listOf asNat (← field j "values")
  if alts.length != values.length then throw "alts/values length mismatch"
  pure ⟨m, alts, values⟩

def errJson (e : Err) : Json := obj [("err", jStr e.name)]

def expJson (e : Exp Rat) : Json :=
  obj [("mutated", jStr e.mutated), ("iteration", jNat e.iteration), ("noise", jList jRat e.noise),
       ("row", jList jRat (rowOf e.dm e.mutated))]

def prankJson (p : PRank Rat) : Json :=
  obj [("method", jStr p.method), ("alts", jList jStr p.alts), ("values", jList jNat p.values),
       ("missing", jList jStr p.info.missing), ("mutated", jOpt jStr p.info.mutated),
       ("iteration", jOpt jNat p.info.iteration), ("noise", jOpt (jList jRat) p.info.noise)]

def opRrt1 (j : Json) : Except String Json := do
  let d ← dmOf (← field j "dm")
  let order ← listOf asStr (← field j "order")
  let drawsL ← listOf asRat (← field j "draws")
  let rep ← asNat (← field j "repeat")
  let strat ← stratOf (fieldD j "strategy" (.str "median"))
  let fuel ← asNat (fieldD j "fuel" (toJson (64 : Nat)))
  let version ← asStr (fieldD j "version" (.str "fixed"))
  let arr := drawsL.toArray
  let draws : Nat → Rat := fun i => arr.getD i 0
  let mutf ← match version with
    | "fixed" => pure (mutate (α := Rat) fuel)
    | "v0" => pure (mutate_v0 (α := Rat) fuel)
    | v => throw s!"bad version {v}"
  let js := jobs (order.zip (maxAbsNoises strat d order)) rep
  match fieldD j "results" .null with
  | .null =>
    match loopWith mutf (fun e => .ok e) d draws js 0 with
    | .error e => pure (errJson e)
    | .ok (es, pos) =>
      if pos > arr.size then pure (obj [("err", jStr "OutOfDraws")])
      else pure (obj [("experiments", jList expJson es), ("consumed", jNat pos)])
  | rj =>
    let results ← listOf resultOf rj
    let allow ← asBool (fieldD j "allow" (.bool false))
    match results with
    | [] => throw "results must start with the original ranking"
    | r0 :: _ =>
      match addMutationInfo (α := Rat) allow d.alts r0 none with
      | .error e => pure (errJson e)
      | .ok porank =>
        if !(porank.alts.isPerm d.alts && isOrderOf porank.alts porank.values order) then pure (errJson .badOrder)
        else
          let k : Exp Rat → Except Err (Exp Rat × PRank Rat) := fun e =>
            match results[1 + e.iteration * order.length + order.idxOf e.mutated]? with
            | none => .error .badOrder
            | some r =>
              match addMutationInfo allow d.alts r (some (e.iteration, e.mutated, e.noise)) with
              | .error err => .error err
              | .ok p => .ok (e, p)
          match loopWith mutf k d draws js 0 with
          | .error e => pure (errJson e)
          | .ok (eps, pos) =>
            if pos > arr.size then pure (obj [("err", jStr "OutOfDraws")])
            else
              let names := uniqueNames ("Original" :: eps.map fun ep => "M." ++ ep.1.mutated)
              pure (obj [("experiments", jList expJson (eps.map (·.1))), ("consumed", jNat pos),
                         ("patched", jList prankJson (porank :: eps.map (·.2))), ("names", jList jStr names)])

def traceExpOf (j : Json) : Except String (Exp Rat) := do
  let a ← asStr (← field j "mutated")
  let it ← asNat (← field j "iteration")
  let noise ← listOf asRat (← field j "noise")
  let d ← dmOf (← field j "dm")
  pure ⟨it, a, noise, d⟩

def opCheck (j : Json) : Except String Json := do
  let d ← dmOf (← field j "dm")
  let orank ← field j "orank"
  let ralts ← listOf asStr (← field orank "alts")
  let rvalues ← listOf asNat (← field orank "values")
  let order ← listOf asStr (← field j "order")
  let rep ← asNat (← field j "repeat")
  let strat ← stratOf (fieldD j "strategy" (.str "median"))
  let tol ← asRat (fieldD j "tol" (.str "0/1"))
  let trace ← listOf traceExpOf (← field j "experiments")
  let failed := (failedClauses tol strat d ralts rvalues order rep trace).eraseDups
  pure (obj [("ok", jBool failed.isEmpty), ("failed", jList jStr failed)])

end C19Ops

def handleC19 (op : String) (j : Json) : Option (Except String Json) :=
  match op with
  | "rrt1" => some (C19Ops.opRrt1 j)
  | "rrt1-check" => some (C19Ops.opCheck j)
  | _ => none

end Skc.Drv
