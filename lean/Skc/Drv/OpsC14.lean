import Skc.Drv.Json
import Skc.Model.Filters
/-! Driver operations for C14: `filter`, `filter_multi`.

Request: `{"op":"filter","cls":"GT|GE|LT|LE|EQ|NE|In|NotIn|Fn|NonDominated","conds":[[crit, cond],…]`
(ORDERED, as the Python dict was written; `cond` = rational for arithmetic classes, list of
rationals for `In`/`NotIn`, a predicate descriptor for `Fn`), `"ignore_missing":bool`,
`"strict":bool`, `"criteria"`, `"alternatives"`, `"matrix"` (rows of rationals), `"objectives"`
(`1` = max, `-1` = min), `"version":"fixed"|"v0"}`.
Reply: `{"alts":[…],"rows":[[…]]}` or `{"err":"ValueError"}`. -/
open Lean
namespace Skc.Drv
open Skc.Filters

def relOfClsC14 (cls : String) : Option Rel :=
  match cls with
  | "GT" => some .gt | "GE" => some .ge | "LT" => some .lt
  | "LE" => some .le | "EQ" => some .eq | "NE" => some .ne
  | _ => none

/-- the named element-wise predicates the harness uses for the function-based `Filter` -/
def predOfC14 (j : Json) : Except String (Rat → Bool) := do
  let l ← asList j
  match l with
  | [] => .error "empty predicate"
  | nm :: args =>
    let name ← asStr nm
    let as ← args.mapM asRat
    match name, as with
    | "gt", [t] => pure fun x => Rel.holds .gt x t
    | "ge", [t] => pure fun x => Rel.holds .ge x t
    | "lt", [t] => pure fun x => Rel.holds .lt x t
    | "le", [t] => pure fun x => Rel.holds .le x t
    | "eq", [t] => pure fun x => Rel.holds .eq x t
    | "ne", [t] => pure fun x => Rel.holds .ne x t
    | "between", [lo, hi] => pure fun x => decide (lo ≤ x) && decide (x ≤ hi)
    | "outside", [lo, hi] => pure fun x => decide (x < lo) || decide (hi < x)
    | "even8", [] => pure fun x => let y := x * 8; y.den == 1 && y.num % 2 == 0
    | "true", [] => pure fun _ => true
    | "false", [] => pure fun _ => false
    | _, _ => .error s!"bad predicate {name}"

def condOfC14 {β} (f : Json → Except String β) (j : Json) : Except String (String × β) := do
  match (← asList j) with
  | [c, v] => pure (← asStr c, ← f v)
  | _ => .error "condition must be [criterion, value]"

def objOfC14 (j : Json) : Except String Obj := do
  let i ← asInt j
  if i == 1 then pure .max else if i == -1 then pure .min else .error "objective must be 1 or -1"

def replyOfC14 (r : Except Err (List String × List (List Rat))) : Json :=
  match r with
  | .error .valueError => obj [("err", jStr "ValueError")]
  | .ok (as, rs) => obj [("alts", jList jStr as), ("rows", jMat jRat rs)]

/-- one filter run `r` (class, conditions, flags) on the matrix given by its parts -/
def runFilterC14 (crits alts : List String) (rows : List (List Rat)) (objs : List Obj) (r : Json) :
    Except String Json := do
  let cls ← asStr (← field r "cls")
  let ig ← asBool (fieldD r "ignore_missing" (.bool false))
  let version ← asStr (fieldD r "version" (.str "fixed"))
  if cls == "NonDominated" then
    let strict ← asBool (fieldD r "strict" (.bool false))
    return replyOfC14 (.ok (filterNonDominated strict objs alts rows))
  let cj ← field r "conds"
  match relOfClsC14 cls with
  | some rel =>
    let conds ← listOf (condOfC14 asRat) cj
    match construct conds with
    | .error _ => return replyOfC14 (.error .valueError)
    | .ok _ =>
      if version == "v0" then return replyOfC14 (filterArith_v0 rel crits alts rows conds ig)
      else return replyOfC14 (filterArith rel crits alts rows conds ig)
  | none =>
    if cls == "In" || cls == "NotIn" then
      let conds ← listOf (condOfC14 (listOf asRat)) cj
      match constructSet conds with
      | .error _ => return replyOfC14 (.error .valueError)
      | .ok _ => return replyOfC14 (filterSet (cls == "NotIn") crits alts rows conds ig)
    else if cls == "Fn" then
      let conds ← listOf (condOfC14 predOfC14) cj
      match construct conds with
      | .error _ => return replyOfC14 (.error .valueError)
      | .ok _ => return replyOfC14 (filterFn crits alts rows conds ig)
    else .error s!"bad filter class {cls}"

def dmPartsC14 (j : Json) : Except String (List String × List String × List (List Rat) × List Obj) := do
  let crits ← listOf asStr (← field j "criteria")
  let alts ← listOf asStr (← field j "alternatives")
  let rows ← matOf asRat (← field j "matrix")
  let objs ← listOf objOfC14 (fieldD j "objectives" (.arr #[]))
  pure (crits, alts, rows, objs)

def opFilterC14 (j : Json) : Except String Json := do
  let (crits, alts, rows, objs) ← dmPartsC14 j
  runFilterC14 crits alts rows objs j

/-- several runs on the same matrix: `{"op":"filter_multi", <dm parts>, "runs":[{cls, conds, …}, …]}`
→ `{"results":[…]}` -/
def opFilterMultiC14 (j : Json) : Except String Json := do
  let (crits, alts, rows, objs) ← dmPartsC14 j
  let rs ← (← asList (← field j "runs")).mapM (runFilterC14 crits alts rows objs)
  pure (obj [("results", .arr rs.toArray)])

def handleC14 (op : String) (j : Json) : Option (Except String Json) :=
  match op with
  | "filter" => some (opFilterC14 j)
  | "filter_multi" => some (opFilterMultiC14 j)
  | _ => none

end Skc.Drv
