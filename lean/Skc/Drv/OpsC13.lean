import Skc.Drv.Json
import Skc.Drv.OpsAgg
import Skc.Model.Weighters
/-! Driver operation for the weighting methods (C13): `weigh`. -/
open Lean
namespace Skc.Drv.C13Ops
open Skc Skc.Weighters Skc.Drv Skc.Drv.AggOps

/-- `int → float` conversion of NumPy (`m`, `n`, `m − ddof` are small naturals: exact) -/
instance instNatCastFloat : NatCast Float := ⟨Float.ofNat⟩

def asCorr (s : String) : Except String Corr :=
  match s with
  | "pearson" => pure .pearson
  | "spearman" => pure .spearman
  | _ => .error s!"bad correlation {s}"

section generic
variable {α : Type} [Inhabited α] [Add α] [Sub α] [Mul α] [Div α] [Neg α] [OfNat α 0] [OfNat α 1] [NatCast α] [LT α] [LE α]
  [Max α] [Min α] [DecidableRel (α := α) (· < ·)] [DecidableRel (α := α) (· ≤ ·)]

/-- the field-only kernel (what the `Rat` run serves): `equal_weights(matrix, base_value)` -/
def weighEqual (jn : α → Json) (b : α) (rows : List (List α)) (os : List Obj) : Except String Json :=
  withMat rows os.length fun m n A => do
    if m = 0 then .error "no alternatives" else
    if n = 0 then .error "no criteria" else
    pure (obj [("weights", jList jn (Vec.toList (equalWeights A b)))])

variable [MathFns α]

/-- build the configured weighter and run `_transform_data` on (matrix, objectives, weights) -/
def weigh (jn : α → Json) (W : Weighter α) (rows : List (List α)) (os : List Obj) (ws : List α) : Except String Json :=
  withMat rows os.length fun m n A => do
    if hm : m = 0 then .error "no alternatives" else
    if n = 0 then .error "no criteria" else
    haveI : NeZero m := ⟨hm⟩
    let d : Data m n α := { matrix := (tab2 A).get2, objectives := vecOf os n, weights := vecOf ws n }
    let r := W.transformData d
    pure (obj [("weights", jList jn (Vec.toList r.weights))])
end generic

def opWeigh (j : Json) : Except String Json := do
  let method ← asStr (← field j "method")
  let os ← listOf asObj (← field j "O")
  let dom ← asStr (fieldD j "domain" (.str "float"))
  let corr ← asCorr (← asStr (fieldD j "correlation" (.str "pearson")))
  let scale ← asBool (fieldD j "scale" (.bool true))
  match dom with
  | "rat" =>
    let rows ← matOf asRat (← field j "M")
    match method with
    | "equal" => do
      let b ← asRat (← field j "base_value")
      weighEqual jRat b rows os
    | s => .error s!"method {s} needs sqrt/log: float domain only"
  | "float" =>
    let rows ← matOf asFloat (← field j "M")
    let ws ← listOf asFloat (fieldD j "w" (.arr #[]))
    let W : Weighter Float ← match method with
      | "equal" => do pure (.equal (← asFloat (← field j "base_value")))
      | "std" => pure .std
      | "entropy" => pure .entropy
      | "critic" => pure (.critic corr scale)
      | s => .error s!"bad method {s}"
    weigh jFloat W rows os ws
  | s => .error s!"bad domain {s}"

end Skc.Drv.C13Ops

namespace Skc.Drv
def handleC13 (op : String) (j : Json) : Option (Except String Json) :=
  match op with
  | "weigh" => some (C13Ops.opWeigh j)
  | _ => none
end Skc.Drv
