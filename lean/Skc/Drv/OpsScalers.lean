import Skc.Drv.Json
import Skc.Drv.OpsAgg
import Skc.Drv.OpsDom
import Skc.Model.Scalers
/-! Driver operation for the scalers / shifters / objective inverters (C11, C12): `tr`.

Request: `name`, `target?`, `params?` (one transformer) or `steps: [{name, target?, params?}]`
(a sequence), with `M`, `O`, `w`, `domain: "rat" | "float"`, optionally `dom: [calls]` (the calls of
the `dom` operation, run on the transformed matrix and objectives).
Reply: `{"M", "w", "O"[, "dom"]}` or `{"err": "ValueError"}`. -/
open Lean
namespace Skc.Drv.ScalerOps
open Skc Skc.Scalers Skc.Drv Skc.Drv.AggOps

/-- `int → float` conversion of NumPy (the number of alternatives is a small natural: exact) -/
local instance instNatCastFloatScalers : NatCast Float := ⟨Float.ofNat⟩

/-- `sqrt` is never taken in the `Rat` run (the operation refuses those transformers there) -/
local instance instMathFnsRatScalers : MathFns Rat := ⟨id, id, id⟩

/-- the exact rational value of a finite double -/
def floatToRat (x : Float) : Rat :=
  let b : Nat := x.toBits.toNat
  let sign : Nat := b / 2 ^ 63
  let e : Nat := (b / 2 ^ 52) % 2048
  let f : Nat := b % 2 ^ 52
  let mant : Nat := 2 ^ 52 + f
  let mag : Rat :=
    if e = 0 then mkRat (f : Int) (2 ^ 1074)
    else if e ≥ 1075 then ((mant * 2 ^ (e - 1075) : Nat) : Rat)
    else mkRat (mant : Int) (2 ^ (1075 - e))
  if sign = 1 then -mag else mag

def asTarget (j : Json) : Except String Target := do
  match ← asStr j with
  | "matrix" => pure .matrix
  | "weights" => pure .weights
  | "both" => pure .both
  | s => .error s!"bad target {s}"

def jObj (o : Obj) : Json := match o with | .max => jStr "max" | .min => jStr "min"

/-- the evaluated state between two steps: matrix rows, weights, objectives -/
structure St (α : Type) where
  rows : Array (Array α)
  w : Array α
  os : List Obj

inductive Out (α : Type) | ok (s : St α) | refused | bad (msg : String)

section generic
variable {α : Type} [Inhabited α] [Add α] [Sub α] [Mul α] [Div α] [Neg α] [OfNat α 0] [OfNat α 1] [NatCast α] [LT α]
  [LE α] [Max α] [Min α] [DecidableRel (α := α) (· < ·)] [DecidableRel (α := α) (· ≤ ·)] [MathFns α]

/-- materialise a transformed record (every cell evaluated once) -/
def freeze {m n : Nat} (d : Data m n α) : St α :=
  { rows := memoM d.matrix, w := memoV d.weights, os := List.ofFn d.objectives }

/-- one transformer on an evaluated state.  The closures handed to the model read the arrays passed
in as arguments, and the result is evaluated into arrays again before it is returned. -/
@[noinline] def step (name : String) (t : Target) (lo hi value : α) (clip withMean withStd : Bool) (s : St α) : Out α :=
  let m := s.rows.size
  let n := s.os.length
  if hm : m = 0 then .bad "no alternatives" else
  if hn : n = 0 then .bad "no criteria" else
  if !(s.rows.all (·.size == n)) || s.w.size != n then .bad "ragged input" else
  haveI : NeZero m := ⟨hm⟩
  haveI : NeZero n := ⟨hn⟩
  let d : Data m n α := { matrix := atM s.rows, objectives := vecOf s.os n, weights := atV s.w }
  match name with
  | "SumScaler" => .ok (freeze (sumScaler t d))
  | "VectorScaler" => .ok (freeze (vectorScaler t d))
  | "MaxAbsScaler" => .ok (freeze (maxAbsScaler t d))
  | "MinMaxScaler" =>
    match minMaxScaler lo hi clip t d with
    | .ok r => .ok (freeze r)
    | .error _ => .refused
  | "StandarScaler" => .ok (freeze (standarScaler withMean withStd t d))
  | "PushNegatives" => .ok (freeze (pushNegatives t d))
  | "AddValueToZero" => .ok (freeze (addValueToZero value t d))
  | "CenitDistanceMatrixScaler" => .ok (freeze (cenitDistanceMatrixScaler d))
  | "NegateMinimize" => .ok (freeze (negateMinimizer d))
  | "InvertMinimize" => .ok (freeze (invertMinimizer d))
  | s => .bad s!"bad transformer {s}"

def runSteps (pn : Json → Except String α) (needsSqrtOk : Bool) : List Json → St α → Except String (Option (St α))
  | [], s => pure (some s)
  | c :: rest, s => do
    let name ← asStr (← field c "name")
    let t ← asTarget (fieldD c "target" (.str "matrix"))
    let ps := fieldD c "params" (obj [])
    let num (k : String) (d : α) : Except String α :=
      match ps.getObjVal? k with
      | .ok v => pn v
      | .error _ => pure d
    let lo ← num "lo" 0
    let hi ← num "hi" 1
    let value ← num "value" 1
    let clip ← asBool (fieldD ps "clip" (.bool false))
    let withMean ← asBool (fieldD ps "with_mean" (.bool true))
    let withStd ← asBool (fieldD ps "with_std" (.bool true))
    if !needsSqrtOk && (name == "VectorScaler" || name == "StandarScaler") then
      .error s!"{name} needs sqrt: float domain only"
    else
      match step name t lo hi value clip withMean withStd s with
      | .ok s' => runSteps pn needsSqrtOk rest s'
      | .refused => pure none
      | .bad msg => .error msg

end generic

def domReplies (rows : List (List Rat)) (os : List Obj) (calls : List Json) : Except String Json :=
  withMat rows os.length fun _ n A => do
    let o : Vec n Obj := vecOf os n
    let rs ← calls.mapM (DomOps.oneCall A o)
    pure (jList id rs)

def finish {α : Type} (jn : α → Json) (toRat : α → Rat) (j : Json) (r : Option (St α)) : Except String Json := do
  match r with
  | none => pure (obj [("err", jStr "ValueError")])
  | some s =>
    let base := [("M", jMat jn (s.rows.toList.map Array.toList)), ("w", jList jn s.w.toList), ("O", jList jObj s.os)]
    match j.getObjVal? "dom" with
    | .ok calls => do
      let d ← domReplies (s.rows.toList.map fun r => r.toList.map toRat) s.os (← asList calls)
      pure (obj (base ++ [("dom", d)]))
    | .error _ => pure (obj base)

def opTr (j : Json) : Except String Json := do
  let os ← listOf asObj (← field j "O")
  let dom ← asStr (fieldD j "domain" (.str "rat"))
  let steps ← match j.getObjVal? "steps" with
    | .ok s => asList s
    | .error _ => pure [j]
  match dom with
  | "rat" =>
    let rows ← matOf asRat (← field j "M")
    let ws ← listOf asRat (← field j "w")
    let r ← runSteps asRat false steps { rows := (rows.map List.toArray).toArray, w := ws.toArray, os := os }
    finish jRat id j r
  | "float" =>
    let rows ← matOf asFloat (← field j "M")
    let ws ← listOf asFloat (← field j "w")
    let r ← runSteps asFloat true steps { rows := (rows.map List.toArray).toArray, w := ws.toArray, os := os }
    finish jFloat floatToRat j r
  | s => .error s!"bad domain {s}"

end Skc.Drv.ScalerOps

namespace Skc.Drv
def handleScalers (op : String) (j : Json) : Option (Except String Json) :=
  match op with
  | "tr" => some (ScalerOps.opTr j)
  | _ => none
end Skc.Drv
