import Skc.Drv.Json
import Skc.Model.Untied
/-! Driver operations for C18: `untied` (untied_rank_ / has_ties_), `frame` (RanksComparator.to_dataframe). -/
open Lean
namespace Skc.Drv
open Skc.Untied

/-- `{"op":"untied","ranks":[2,1,1],"version":"fixed"|"v0"}` → `{"untied":[3,1,2],"has_ties":true}` -/
def opUntiedC18 (j : Json) : Except String Json := do
  let r ← listOf asNat (← field j "ranks")
  let version ← asStr (fieldD j "version" (.str "fixed"))
  let u ← match version with
    | "fixed" => pure (untied r)
    | "v0" => pure (untied_v0 r)
    | v => throw s!"bad version {v}"
  pure (obj [("untied", jList jNat u), ("has_ties", jBool (hasTies r)),
             ("closed", jList jNat (untiedClosed r))])

def asRankingC18 (j : Json) : Except String Ranking := do
  let name ← asStr (← field j "name")
  let alts ← listOf asStr (← field j "alts")
  let values ← listOf asNat (← field j "values")
  if alts.length != values.length then throw "alts/values length mismatch"
  pure ⟨name, alts, values⟩

/-- `{"op":"frame","ranks":[{"name":…,"alts":[…],"values":[…]},…],"untied":bool}` →
`{"rows":[…],"cols":[…],"cells":[[…]]}` (`null` = NaN) or `{"err":"ValueError"}` when the
comparator refuses the rankings -/
def opFrameC18 (j : Json) : Except String Json := do
  let rs ← listOf asRankingC18 (← field j "ranks")
  let u ← asBool (fieldD j "untied" (.bool false))
  match validateRanks rs with
  | .error e => pure (obj [("err", jStr e)])
  | .ok _ =>
    let f := toDataFrame rs u
    pure (obj [("rows", jList jStr f.rows), ("cols", jList jStr f.cols),
               ("cells", jMat (jOpt jNat) f.cells)])

def handleC18 (op : String) (j : Json) : Option (Except String Json) :=
  match op with
  | "untied" => some (opUntiedC18 j)
  | "frame" => some (opFrameC18 j)
  | _ => none

end Skc.Drv
