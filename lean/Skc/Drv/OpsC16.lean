import Skc.Drv.Json
import Skc.Model.Pipeline
import Skc.Model.MethodClasses
/-! Driver operations for C16.

* `unames`: `{"names":[..]}` → `{"names":[..], "spec":[..], "noclash":bool, "v0":[..]}`
  (the loop as it is now, the closed form, the `NoSuffixClash` predicate, the loop before the fix).
* `pipe-trace`: `{"steps":[STEP..], "program":[OP..]}` → `{"err":E}` | `{"trace":[..]}` | `{"len":n}` |
  `{"step":{"t":R,"e":R}}` | `{"pipe":[names..]}`.
  `STEP = {"name":s, "id":s, "kind":"t"|"d"|"p"|"x"|"td", "fail":null|n, "steps":[STEP..]}`: a transformer, a
  decision maker, a nested pipeline, an object with neither method, an object with both; `transform`
  appends `"t:<id>"` to the trace, `evaluate` appends `"e:<id>"`; with `"fail":n` the method raises
  `raised n` instead.  The decision matrix is the trace (`δ = ρ = List String`).
  `OP = {"slice":[a|null, b|null, st|null]} | {"int":i} | {"str":s} | "evaluate" | "transform" | "len" | "names"`;
  the program runs left to right on the constructed pipeline; `evaluate`/`transform` start from the trace
  `["in"]`; an `int`/`str` item is reported by probing both of its methods on `["probe"]` (`R` is
  `{"trace":..}`, `{"err":..}` or `null` when the object lacks the method).
* `mkpipe-trace`: `{"steps":[STEP..]}` with `name` = lower-cased class name → the names and the evaluation.
* `ctor`: `{"cls":s | "hparams":[[k,VAL]..], "kw":[[k,VAL]..], "copy":null|[[k,VAL]..]}` →
  `{"params":[[k,VAL]..], "attrs":[[k,VAL]..]}` | `{"err":E}`: construct, optionally `copy(**overrides)`,
  then `get_parameters()` of the final object.
  `VAL = null | bool | {"i":n} | {"f":"num/den"} | {"s":str} | {"fn":n} | {"dm":n} | {"o":n} |
  {"t":[ATOM..]} | {"d":[[k,ATOM]..]} | {"ds":[[k,[ATOM..]]..]}`. -/
open Lean
namespace Skc.Drv.C16Ops
open Skc.Pipeline Skc.Drv

def errName : Err → String
  | .typeError => "TypeError"
  | .indexError => "IndexError"
  | .valueError => "ValueError"
  | .keyError => "KeyError"
  | .attributeError => "AttributeError"
  | .raised k => s!"Raised{k}"

def jErr (e : Err) : Json := obj [("err", jStr (errName e))]

/-! ### unique names -/

def opUNames (j : Json) : Except String Json := do
  let names ← listOf asStr (← field j "names")
  pure (obj [("names", jList jStr (uniqueNames names)), ("spec", jList jStr (uniqueNamesSpec names)),
             ("noclash", jBool (noSuffixClash sfxStr names)), ("v0", jList jStr (uniqueNames_v0 names))])

/-! ### pipelines over traces -/

abbrev Tr := List String
abbrev TStep := Step Tr Tr

def mkFn (tag id : String) (fail : Option Nat) : Tr → Except Err Tr := fun d =>
  match fail with
  | some k => .error (.raised k)
  | none => .ok (d ++ [tag ++ ":" ++ id])

/-- builds the named step; the inner `Except Err` is the refusal of a nested `SKCPipeline(...)` -/
partial def buildStep (j : Json) : Except String (Except Err (String × TStep)) := do
  let name ← asStr (← field j "name")
  let id ← asStr (fieldD j "id" (.str name))
  let kind ← asStr (← field j "kind")
  let fail ← optOf asNat (fieldD j "fail" .null)
  match kind with
  | "t" => pure (.ok (name, ⟨some (mkFn "t" id fail), none⟩))
  | "d" => pure (.ok (name, ⟨none, some (mkFn "e" id fail)⟩))
  | "td" => pure (.ok (name, ⟨some (mkFn "t" id fail), some (mkFn "e" id fail)⟩))
  | "x" => pure (.ok (name, ⟨none, none⟩))
  | "p" =>
    let subs ← (← asList (← field j "steps")).mapM buildStep
    let rec collect : List (Except Err (String × TStep)) → Except Err (List (String × TStep))
      | [] => .ok []
      | .error e :: _ => .error e
      | .ok s :: rest => match collect rest with
        | .ok l => .ok (s :: l)
        | .error e => .error e
    match collect subs with
    | .error e => pure (.error e)
    | .ok l => match Pipe.new l with
      | .error e => pure (.error e)
      | .ok p => pure (.ok (name, p.asStep))
  | _ => .error s!"bad step kind {kind}"

def buildSteps (j : Json) : Except String (Except Err (List (String × TStep))) := do
  let subs ← (← asList j).mapM buildStep
  let rec collect : List (Except Err (String × TStep)) → Except Err (List (String × TStep))
    | [] => .ok []
    | .error e :: _ => .error e
    | .ok s :: rest => match collect rest with
      | .ok l => .ok (s :: l)
      | .error e => .error e
  pure (collect subs)

def jRun (r : Except Err Tr) : Json :=
  match r with
  | .ok t => obj [("trace", jList jStr t)]
  | .error e => jErr e

def probe (s : TStep) : Json :=
  obj [("t", match s.transform? with
         | some f => jRun (f ["probe"])
         | none => .null),
       ("e", match s.evaluate? with
         | some g => jRun (g ["probe"])
         | none => .null)]

def runProgram (p : Pipe Tr Tr) : List Json → Except String Json
  | [] => pure (obj [("pipe", jList jStr (p.steps.map (·.1)))])
  | op :: rest =>
    match op with
    | .str "evaluate" => pure (jRun (p.evaluate ["in"]))
    | .str "transform" => pure (jRun (p.transform ["in"]))
    | .str "len" => pure (obj [("len", jNat p.len)])
    | .str "names" => pure (obj [("pipe", jList jStr (p.steps.map (·.1)))])
    | _ => do
      match op.getObjVal? "slice" with
      | .ok sl =>
        match ← asList sl with
        | [a, b, st] =>
          match p.getSlice (← optOf asInt a) (← optOf asInt b) (← optOf asInt st) with
          | .ok q => runProgram q rest
          | .error e => pure (jErr e)
        | _ => .error "slice expects [start, stop, step]"
      | .error _ =>
        match op.getObjVal? "int" with
        | .ok i =>
          match p.getInt (← asInt i) with
          | .ok s => pure (obj [("step", probe s)])
          | .error e => pure (jErr e)
        | .error _ =>
          match op.getObjVal? "str" with
          | .ok n =>
            match p.getStr (← asStr n) with
            | .ok s => pure (obj [("step", probe s)])
            | .error e => pure (jErr e)
          | .error _ => .error "bad program op"

def opPipeTrace (j : Json) : Except String Json := do
  match ← buildSteps (← field j "steps") with
  | .error e => pure (jErr e)
  | .ok steps =>
    match Pipe.new steps with
    | .error e => pure (jErr e)
    | .ok p => runProgram p (← asList (← field j "program"))

def opMkpipeTrace (j : Json) : Except String Json := do
  match ← buildSteps (← field j "steps") with
  | .error e => pure (jErr e)
  | .ok steps =>
    match mkpipe steps with
    | .error e => pure (jErr e)
    | .ok p =>
      pure (obj [("pipe", jList jStr (p.steps.map (·.1))), ("evaluate", jRun (p.evaluate ["in"])),
                 ("lookup", jList (fun (n : String) => match p.getStr n with
                    | .ok s => probe s
                    | .error e => jErr e) (p.steps.map (·.1)))])

/-! ### constructors -/

def asAtom (j : Json) : Except String Atom :=
  match j with
  | .null => pure .none
  | .bool b => pure (.bool b)
  | _ =>
    match j.getObjVal? "i" with
    | .ok v => do pure (.int (← asInt v))
    | .error _ =>
    match j.getObjVal? "f" with
    | .ok v => do pure (.float (← asRat v))
    | .error _ =>
    match j.getObjVal? "s" with
    | .ok v => do pure (.str (← asStr v))
    | .error _ =>
    match j.getObjVal? "fn" with
    | .ok v => do pure (.fn (← asNat v))
    | .error _ =>
    match j.getObjVal? "dm" with
    | .ok v => do pure (.dmaker (← asNat v))
    | .error _ =>
    match j.getObjVal? "o" with
    | .ok v => do pure (.obj (← asNat v))
    | .error _ => .error s!"bad atom {j.compress}"

def asPair {β} (f : Json → Except String β) (j : Json) : Except String (String × β) := do
  match ← asList j with
  | [k, v] => pure ((← asStr k), (← f v))
  | _ => .error "expected [key, value]"

def asVal (j : Json) : Except String Val :=
  match j.getObjVal? "t" with
  | .ok v => do pure (.tuple (← listOf asAtom v))
  | .error _ =>
  match j.getObjVal? "d" with
  | .ok v => do pure (.dict (← listOf (asPair asAtom) v))
  | .error _ =>
  match j.getObjVal? "ds" with
  | .ok v => do pure (.dictSeq (← listOf (asPair (listOf asAtom)) v))
  | .error _ => do pure (.atom (← asAtom j))

def jAtom : Atom → Json
  | .none => .null
  | .bool b => .bool b
  | .int i => obj [("i", jInt i)]
  | .float q => obj [("f", jRat q)]
  | .str s => obj [("s", jStr s)]
  | .fn n => obj [("fn", jNat n)]
  | .dmaker n => obj [("dm", jNat n)]
  | .obj n => obj [("o", jNat n)]

def jPair {β} (f : β → Json) (kv : String × β) : Json := .arr #[jStr kv.1, f kv.2]

def jVal : Val → Json
  | .atom a => jAtom a
  | .tuple l => obj [("t", jList jAtom l)]
  | .dict l => obj [("d", jList (jPair jAtom) l)]
  | .dictSeq l => obj [("ds", jList (jPair (jList jAtom)) l)]

def jParams (d : Params) : Json := jList (jPair jVal) d

def opCtor (j : Json) : Except String Json := do
  let spec ← match j.getObjVal? "cls" with
    | .ok c => do
      let name ← asStr c
      match findSpec name with
      | some s => pure s
      | none => .error s!"no constructor specification for class {name}"
    | .error _ => do
      let hp ← listOf (asPair asVal) (← field j "hparams")
      pure (ClassSpec.ofHParams "UserMethod" hp)
  let kw ← listOf (asPair asVal) (← field j "kw")
  let ov ← optOf (listOf (asPair asVal)) (fieldD j "copy" .null)
  match construct spec kw with
  | .error e => pure (jErr e)
  | .ok o =>
    let final : Except Err Obj := match ov with
      | none => .ok o
      | some ov => copy o ov
    match final with
    | .error e => pure (jErr e)
    | .ok o' =>
      match getParameters o' with
      | .error e => pure (jErr e)
      | .ok d => pure (obj [("params", jParams d), ("attrs", jParams o'.attrs)])

end Skc.Drv.C16Ops

namespace Skc.Drv
def handleC16 (op : String) (j : Json) : Option (Except String Json) :=
  match op with
  | "unames" => some (C16Ops.opUNames j)
  | "pipe-trace" => some (C16Ops.opPipeTrace j)
  | "mkpipe-trace" => some (C16Ops.opMkpipeTrace j)
  | "ctor" => some (C16Ops.opCtor j)
  | _ => none
end Skc.Drv
