import Skc.Drv.Json
import Skc.Model.Transform
/-! Driver operations for C10.

* `{"op":"c10_declared","family":F,"target":T|null}` → `{"parts":[…]}` — `declaredFor`.
* `{"op":"c10_frame","steps":[S,…],"before":[t,…],"after":[t,…]}` with
  `S = {"family":F,"target":T|null}` for a built-in class (F one of `targetSwitch, cenit, weighter,
  inverter, filter, nonDominated, imputer, other`) or `{"family":"user","returned":[part,…]}` for a
  transformer made with `mktransformer` (it declares the keys it returns), and `before`/`after` the
  six parts as opaque tokens in the order matrix, objectives, weights, dtypes, alternatives,
  criteria → `{"declared":[…],"changed":[…],"outside":[…]}`: what the step(s) declare
  (`declaredPipeline` of the steps' sets), the parts whose tokens differ, and the changed parts that
  are not declared. -/
open Lean
namespace Skc.Drv.C10Ops
open Skc.Drv Skc.Transform

def partName : Part → String
  | .matrix => "matrix" | .objectives => "objectives" | .weights => "weights"
  | .dtypes => "dtypes" | .alternatives => "alternatives" | .criteria => "criteria"

def partOf (s : String) : Except String Part :=
  match s with
  | "matrix" => .ok .matrix | "objectives" => .ok .objectives | "weights" => .ok .weights
  | "dtypes" => .ok .dtypes | "alternatives" => .ok .alternatives | "criteria" => .ok .criteria
  | _ => .error s!"bad part {s}"

def familyOf (s : String) : Except String Family :=
  match s with
  | "targetSwitch" => .ok .targetSwitch | "cenit" => .ok .cenit | "weighter" => .ok .weighter
  | "inverter" => .ok .inverter | "filter" => .ok .filter | "nonDominated" => .ok .nonDominated
  | "imputer" => .ok .imputer | "other" => .ok .other
  | _ => .error s!"bad family {s}"

def targetOf (j : Json) : Except String (Option Target) :=
  match j with
  | .null => .ok none
  | .str s =>
    match Target.ofString s with
    | .ok t => .ok (some t)
    | .error _ => .error s!"bad target {s}"
  | _ => .error "target must be a string or null"

/-- the declared set of one step -/
def stepDeclared (j : Json) : Except String (List Part) := do
  let fam ← asStr (← field j "family")
  if fam == "user" then
    (← listOf asStr (← field j "returned")).mapM partOf
  else
    pure (declaredFor (← familyOf fam) (← targetOf (fieldD j "target" .null)))

def opDeclared (j : Json) : Except String Json := do
  pure (obj [("parts", jList (fun p => jStr (partName p)) (← stepDeclared j))])

def opFrame (j : Json) : Except String Json := do
  let steps ← (← asList (← field j "steps")).mapM stepDeclared
  let before ← listOf asStr (← field j "before")
  let after ← listOf asStr (← field j "after")
  if before.length != 6 || after.length != 6 then throw "before/after must hold six tokens"
  let declared := declaredPipeline steps
  let changed := changedParts before after
  let outside := changed.filter fun p => !declared.contains p
  let names := jList fun p => jStr (partName p)
  pure (obj [("declared", names declared), ("changed", names changed), ("outside", names outside)])

end Skc.Drv.C10Ops

namespace Skc.Drv

def handleC10 (op : String) (j : Json) : Option (Except String Json) :=
  match op with
  | "c10_declared" => some (C10Ops.opDeclared j)
  | "c10_frame" => some (C10Ops.opFrame j)
  | _ => none

end Skc.Drv
