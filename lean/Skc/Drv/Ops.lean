import Skc.Drv.Json
import Skc.Drv.OpsC03
import Skc.Drv.OpsAgg
import Skc.Drv.OpsEval
import Skc.Drv.OpsDom
import Skc.Drv.OpsElectre
import Skc.Drv.OpsC01
import Skc.Drv.OpsC18
import Skc.Drv.OpsC14
import Skc.Drv.OpsC17
import Skc.Drv.OpsC13
import Skc.Drv.OpsC09
import Skc.Drv.OpsC19
import Skc.Drv.OpsC02
import Skc.Drv.OpsC16
import Skc.Drv.OpsScalers
import Skc.Drv.OpsC15
import Skc.Drv.OpsC10
import Skc.Drv.OpsC20
/-! Dispatch of driver operations to the executable model: one handler per property file. -/
open Lean
namespace Skc.Drv

def handlers : List (String → Json → Option (Except String Json)) :=
  [ handleC03
  , handleAgg
  , handleEval
  , handleDom
  , handleElectre
  , handleC01
  , handleC18
  , handleC14
  , handleC17
  , handleC13
  , handleC09
  , handleC19
  , handleC02
  , handleC16
  , handleScalers
  , handleC15
  , handleC10
  , handleC20
  ]

def handle (j : Json) : Except String Json := do
  let op ← asStr (← field j "op")
  match handlers.findSome? (fun h => h op j) with
  | some r => r
  | none => .error s!"bad-op {op}"

end Skc.Drv
