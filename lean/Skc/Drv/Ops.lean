import Skc.Drv.Json
import Skc.Model.Rank
/-! Dispatch of driver operations to the executable model. -/
open Lean
namespace Skc.Drv

def opRank (j : Json) : Except String Json := do
  let s ← listOf asRat (← field j "scores")
  let rev ← asBool (fieldD j "reverse" (.bool false))
  pure (obj [("ranks", jList jNat (rankValues rev s))])

def opValidRank (j : Json) : Except String Json := do
  let v ← listOf asInt (← field j "values")
  pure (obj [("ok", jBool (validRank v))])

def opKernel (j : Json) : Except String Json := do
  let o ← matOf asBool (← field j "outrank")
  let n ← asNat (← field j "n")
  pure (obj [("kernel", jList jBool (kernelOf o n))])

def handle (j : Json) : Except String Json := do
  let op ← asStr (← field j "op")
  match op with
  | "rank" => opRank j
  | "validrank" => opValidRank j
  | "kernel" => opKernel j
  | _ => .error s!"bad-op {op}"

end Skc.Drv
