import Skc.Drv.Json
import Skc.Model.Impute
/-! Driver operations for C15: `impute`, `impute_keeps`.

`{"op":"impute","strategy":"mean|median|most_frequent|constant","fill_value":rat|null,
  "keep_empty":bool,"cells":[[rat|null,…],…]}` (row-major; `null` = missing)
→ `{"cells":[[rat|null,…],…]}` (the model's `simpleImpute` at `Rat`) or `{"err":"ValueError"}`.

`{"op":"impute_keeps","cells":[[rat|null]],"out":[[rat|null]]}` → the three executable parts of the
contract `Keeps` evaluated on a real output: `{"observed":bool,"complete":bool,"shape":bool}`. -/
open Lean
namespace Skc.Drv
namespace C15Ops
open Skc.Impute

def cellsOf (j : Json) : Except String (OMat Rat) := matOf (optOf asRat) j

def strategyOf (name : String) (fill : Option Rat) : Except String (Strategy Rat) :=
  match name with
  | "mean" => pure .mean
  | "median" => pure .median
  | "most_frequent" => pure .mostFrequent
  | "constant" => pure (.constant fill)
  | _ => .error s!"bad strategy {name}"

def opImpute (j : Json) : Except String Json := do
  let cells ← cellsOf (← field j "cells")
  let fill ← optOf asRat (fieldD j "fill_value" .null)
  let s ← strategyOf (← asStr (← field j "strategy")) fill
  let keep ← asBool (fieldD j "keep_empty" (.bool false))
  match simpleImpute s keep cells with
  | .error .valueError => pure (obj [("err", jStr "ValueError")])
  | .ok R => pure (obj [("cells", jMat (jOpt jRat) R)])

def opKeeps (j : Json) : Except String Json := do
  let M ← cellsOf (← field j "cells")
  let R ← cellsOf (← field j "out")
  pure (obj [("observed", jBool (observedKeptB M R)), ("complete", jBool (completeB R)),
    ("shape", jBool (sameShapeB M R))])

end C15Ops

def handleC15 (op : String) (j : Json) : Option (Except String Json) :=
  match op with
  | "impute" => some (C15Ops.opImpute j)
  | "impute_keeps" => some (C15Ops.opKeeps j)
  | _ => none

end Skc.Drv
