import Lean.Data.Json
/-! JSON helpers of the line-protocol driver (not part of the model; no Mathlib). -/
open Lean
namespace Skc.Drv

def parseRat (s : String) : Except String Rat :=
  match s.splitOn "/" with
  | [n] => match n.toInt? with
    | some i => .ok (i : Rat)
    | none => .error s!"bad rational {s}"
  | [n, d] => match n.toInt?, d.toNat? with
    | some a, some b => if b = 0 then .error s!"zero denominator {s}" else .ok (mkRat a b)
    | _, _ => .error s!"bad rational {s}"
  | _ => .error s!"bad rational {s}"

def ratStr (q : Rat) : String := s!"{q.num}/{q.den}"

/-- `"b:<uint64>"`: the IEEE-754 bit pattern of a double -/
def parseFloatBits (s : String) : Except String Float :=
  match s.splitOn ":" with
  | ["b", n] => match n.toNat? with
    | some k => .ok (Float.ofBits k.toUInt64)
    | none => .error s!"bad float {s}"
  | _ => .error s!"bad float {s}"

def floatStr (x : Float) : String := s!"b:{x.toBits.toNat}"

def field (j : Json) (k : String) : Except String Json := j.getObjVal? k
def fieldD (j : Json) (k : String) (d : Json) : Json := (j.getObjVal? k).toOption.getD d

def asList (j : Json) : Except String (List Json) :=
  match j with
  | .arr a => .ok a.toList
  | _ => .error "expected array"

def asStr (j : Json) : Except String String :=
  match j with
  | .str s => .ok s
  | _ => .error "expected string"

def asBool (j : Json) : Except String Bool :=
  match j with
  | .bool b => .ok b
  | _ => .error "expected bool"

def asNat (j : Json) : Except String Nat := do
  match j.getNat? with
  | .ok n => .ok n
  | .error e => .error e

def asInt (j : Json) : Except String Int := do
  match j.getInt? with
  | .ok n => .ok n
  | .error e => .error e

def asRat (j : Json) : Except String Rat := do parseRat (← asStr j)
def asFloat (j : Json) : Except String Float := do parseFloatBits (← asStr j)

def listOf {β} (f : Json → Except String β) (j : Json) : Except String (List β) := do
  (← asList j).mapM f

def matOf {β} (f : Json → Except String β) (j : Json) : Except String (List (List β)) :=
  listOf (listOf f) j

def optOf {β} (f : Json → Except String β) (j : Json) : Except String (Option β) :=
  match j with
  | .null => .ok none
  | _ => (f j).map some

def jRat (q : Rat) : Json := .str (ratStr q)
def jFloat (x : Float) : Json := if x.isNaN then .null else .str (floatStr x)
def jList {β} (f : β → Json) (l : List β) : Json := .arr (l.map f).toArray
def jMat {β} (f : β → Json) (m : List (List β)) : Json := jList (jList f) m
def jOpt {β} (f : β → Json) : Option β → Json
  | none => .null
  | some x => f x
def jNat (n : Nat) : Json := toJson n
def jInt (n : Int) : Json := toJson n
def jBool (b : Bool) : Json := .bool b
def jStr (s : String) : Json := .str s
def obj (kvs : List (String × Json)) : Json := Json.mkObj kvs

end Skc.Drv
