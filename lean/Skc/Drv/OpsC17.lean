import Skc.Drv.Json
import Skc.Model.Diff
/-! Driver operations for C17: `diff` and `cmpall` on decision matrices, results, rank comparators.

Objects (`left`, `right`):
* `{"kind":"dm","oid":n,"shape":[m,n],"alternatives":[..],"criteria":[..],"objectives":[±1..],
   "weights":[cell..],"matrix":NARR,"dtypes":[..]}`
* `{"kind":"result","type":"rank"|"kernel","oid":n,"method":s,"alternatives":[..],"values":NARR,"extra":DICT}`
* `{"kind":"rcmp","oid":n,"ranks":[[name, RESULT],..]}`
* `{"kind":"other","oid":n,"type":"int"}`
`NARR = {"shape":[..],"cells":[cell..],"obj":bool}`; a cell is `"num/den"` or `null` (NaN).
`DICT = [[key, EVAL],..]`; `EVAL = {"t":"farr"|"xarr","a":NARR} | {"t":"int","v":int} |
{"t":"str","v":s} | {"t":"flt","v":cell} | {"t":"dict","v":DICT}`. -/
open Lean
namespace Skc.Drv.C17
open Skc.Diff Skc.Drv

def asCell (j : Json) : Except String (Option Rat) := optOf asRat j

def asNArr (j : Json) : Except String (NArr Rat) := do
  let shape ← listOf asNat (← field j "shape")
  let cells ← listOf asCell (← field j "cells")
  let obj ← asBool (fieldD j "obj" (.bool false))
  pure ⟨shape, cells, obj⟩

mutual
partial def asEVal (j : Json) : Except String (EVal Rat) := do
  let t ← asStr (← field j "t")
  match t with
  | "farr" => pure (.farr (← asNArr (← field j "a")))
  | "xarr" => pure (.xarr (← asNArr (← field j "a")))
  | "int" => pure (.int (← asInt (← field j "v")))
  | "str" => pure (.str (← asStr (← field j "v")))
  | "flt" => pure (.flt (← asCell (← field j "v")))
  | "dict" => asEDict (← field j "v")
  | _ => .error s!"bad extra value tag {t}"
partial def asEDict (j : Json) : Except String (EVal Rat) := do
  let kvs ← asList j
  let entries ← kvs.mapM fun kv => do
    match ← asList kv with
    | [k, v] => pure ((← asStr k), (← asEVal v))
    | _ => .error "expected [key, value]"
  pure (entries.foldr (fun kv acc => .dcons kv.1 kv.2 acc) .dnil)
end

def asRes (j : Json) : Except String (Res Rat) := do
  let ty ← asStr (← field j "type")
  let kind ← match ty with
    | "rank" => pure ResKind.rank
    | "kernel" => pure ResKind.kernel
    | _ => .error s!"bad result type {ty}"
  pure { oid := ← asNat (← field j "oid"), kind := kind, method := ← asStr (← field j "method"),
         alternatives := ← listOf asStr (← field j "alternatives"),
         values := ← asNArr (← field j "values"), extra := ← asEDict (← field j "extra") }

def asObj (j : Json) : Except String (Obj Rat) := do
  let kind ← asStr (← field j "kind")
  match kind with
  | "dm" =>
    pure (.dm { oid := ← asNat (← field j "oid"), shape := ← listOf asNat (← field j "shape"),
                alternatives := ← listOf asStr (← field j "alternatives"),
                criteria := ← listOf asStr (← field j "criteria"),
                objectives := ← listOf asInt (← field j "objectives"),
                weights := ← listOf asCell (← field j "weights"),
                matrix := ← asNArr (← field j "matrix"),
                dtypes := ← listOf asStr (← field j "dtypes") })
  | "result" => pure (.res (← asRes j))
  | "rcmp" =>
    let ranks ← (← asList (← field j "ranks")).mapM fun p => do
      match ← asList p with
      | [n, r] => pure ((← asStr n), (← asRes r))
      | _ => .error "expected [name, result]"
    pure (.rcmp ⟨← asNat (← field j "oid"), ranks⟩)
  | "other" => pure (.other (← asNat (← field j "oid")) (← asStr (← field j "type")))
  | _ => .error s!"bad object kind {kind}"

def errName : Err → String
  | .valueError => "ValueError"
  | .typeError => "TypeError"

/-- `dict_allclose`'s own defaults: the doubles `1e-05`, `1e-08` (exact), `equal_nan=False` -/
def dfltTol : Tol Rat := ⟨mkRat 5902958103587057 590295810358705651712, mkRat 3022314549036573 302231454903657293676544, false⟩

structure C17Req where
  left : Obj Rat
  right : Obj Rat
  tol : Tol Rat
  checkDtypes : Bool
  version : String

def asC17Req (j : Json) : Except String C17Req := do
  let version ← asStr (fieldD j "version" (.str "fixed"))
  if version != "fixed" && version != "v0" && version != "v1" then
    throw s!"bad version {version}"
  pure { left := ← asObj (← field j "left"), right := ← asObj (← field j "right"),
         tol := ⟨← asRat (← field j "rtol"), ← asRat (← field j "atol"), ← asBool (← field j "equal_nan")⟩,
         checkDtypes := ← asBool (fieldD j "check_dtypes" (.bool false)), version := version }

def C17Req.diff (r : C17Req) : Except Err Difference :=
  match r.version with
  | "v0" => diffOld 0 dfltTol r.tol r.checkDtypes r.left r.right
  | "v1" => diffOld 1 dfltTol r.tol r.checkDtypes r.left r.right
  | _ => Skc.Diff.diff r.tol r.checkDtypes r.left r.right

def jOutcome {β} (f : β → Json) : Except Err β → Json
  | .ok b => f b
  | .error e => obj [("err", jStr (errName e))]

def opDiff (j : Json) : Except String Json := do
  let r ← asC17Req j
  pure (jOutcome (fun d => obj [("different_types", jBool d.differentTypes),
    ("members", jList jStr (d.members.toArray.qsort (· < ·)).toList)]) r.diff)

/-- `x == y`, `x != y`, `x.equals(y)`, `x.aequals(y, …)` of the model -/
def opCmpAll (j : Json) : Except String Json := do
  let r ← asC17Req j
  let (eqv, nev, aeq) :=
    match r.version with
    | "v0" => (eqOld 0 dfltTol r.left r.right,
               (match eqOld 0 dfltTol r.left r.right with | .ok b => .ok (!b) | .error e => .error e),
               aequalsOld 0 dfltTol r.tol r.checkDtypes r.left r.right)
    | "v1" => (eqOld 1 dfltTol r.left r.right,
               (match eqOld 1 dfltTol r.left r.right with | .ok b => .ok (!b) | .error e => .error e),
               aequalsOld 1 dfltTol r.tol r.checkDtypes r.left r.right)
    | _ => (Skc.Diff.eq r.left r.right, Skc.Diff.ne r.left r.right,
            aequals r.tol r.checkDtypes r.left r.right)
  let equalsv := match r.version with
    | "fixed" => equals r.left r.right
    | _ => eqv
  pure (obj [("eq", jOutcome jBool eqv), ("ne", jOutcome jBool nev), ("equals", jOutcome jBool equalsv),
    ("aequals", jOutcome jBool aeq)])

end Skc.Drv.C17

namespace Skc.Drv

def handleC17 (op : String) (j : Json) : Option (Except String Json) :=
  match op with
  | "diff" => some (C17.opDiff j)
  | "cmpall" => some (C17.opCmpAll j)
  | _ => none

end Skc.Drv
