import Skc.Drv.Json
import Skc.Model.Simus
/-! Driver operations for C09 (SIMUS): `simus-lp`, `simus-order`, `simus-post`, `cert` — all in exact
rationals. -/
open Lean
namespace Skc.Drv.C09Ops
open Skc Skc.Simus Skc.Drv

def asObj (j : Json) : Except String Obj := do
  match ← asStr j with
  | "max" => pure .max
  | "min" => pure .min
  | s => .error s!"bad objective {s}"

def jObj : Obj → Json
  | .max => jStr "max"
  | .min => jStr "min"

def asRel (j : Json) : Except String Rel := do
  match ← asStr j with
  | "le" => pure .le
  | "ge" => pure .ge
  | s => .error s!"bad constraint sense {s}"

def jRel : Rel → Json
  | .le => jStr "le"
  | .ge => jStr "ge"

/-- a shaped matrix out of a list of rows of length `ncols` -/
def matOfRows {β : Type} (rows : List (List Rat)) (ncols : Nat)
    (kont : (m : Nat) → Mat m ncols Rat → Except String β) : Except String β :=
  if rows.all (·.length == ncols) then
    let arr := (rows.map List.toArray).toArray
    kont rows.length (fun i j => (arr.getD i.val #[]).getD j.val 0)
  else .error "ragged matrix"

/-- materialise a matrix / read it back (a partial application of `tabulate2` would be re-evaluated at
every look-up once the compiler eta-expands it, so the arrays are built here, once) -/
def matArr {n m : Nat} (f : Mat n m Rat) : Array (Array Rat) := Array.ofFn fun i => Array.ofFn (f i)
def ofMatArr (a : Array (Array Rat)) (n m : Nat) : Mat n m Rat := fun i j => (a.getD i.val #[]).getD j.val 0

def vecOfList {β : Type} [Inhabited β] (l : List β) (n : Nat) : Vec n β :=
  let a := l.toArray
  fun j => a.getD j.val default

/-- the JSON form of a stage program -/
def jLP {k m : Nat} (P : LP k m Rat) (crits : Fin k → Nat) : Json :=
  obj [("sense", jObj P.sense),
       ("objective", jList jRat (Vec.toList P.c)),
       ("constraints", jList id ((List.finRange k).map fun r =>
          obj [("crit", jNat (crits r)), ("coef", jList jRat (Vec.toList (P.A r))), ("rel", jRel (P.rel r)),
               ("rhs", jRat (P.b r))])),
       -- `lp.Float(f"x{idx}", low=0)`: every variable has lower bound 0 and no upper bound
       ("lower", jRat 0), ("upper", .null)]

/-- `simus-lp`: `M` (alternatives × criteria), `O`, `b` (`null`, or a list with `null` entries) -/
def opLp (j : Json) : Except String Json := do
  let rows ← matOf asRat (← field j "M")
  let os ← listOf asObj (← field j "O")
  let bj := fieldD j "b" .null
  let bs : List (Option Rat) ← match bj with
    | .null => pure (os.map fun _ => none)
    | _ => listOf (optOf asRat) bj
  if bs.length != os.length then .error "ValueError" else
  match os.length with
  | 0 => .error "no criteria"
  | k + 1 =>
    matOfRows rows (k + 1) fun m A => do
      if hm : m = 0 then .error "no alternatives" else
      haveI : NeZero m := ⟨hm⟩
      let o : Vec (k + 1) Obj := vecOfList os (k + 1)
      let b : Vec (k + 1) (Option Rat) := vecOfList bs (k + 1)
      let stages := (List.finRange (k + 1)).map fun z =>
        jLP (stageLP A o b z) (fun r => (otherCrit z r).val)
      pure (obj [("stages", jList id stages)])

/-- `simus-order`: the alternative whose value is reported at each position -/
def opOrder (j : Json) : Except String Json := do
  let n ← asNat (← field j "n")
  let v ← asStr (fieldD j "version" (.str "fixed"))
  let nCons ← asNat (fieldD j "n_constraints" (toJson (1 : Nat)))
  match v with
  | "v0" => pure (obj [("order", jList jNat (reportedOrder_v0 n))])
  | "fixed" => pure (obj [("order", jList jNat (reportedOrder n)), ("names", jList jStr (reportedNames n nCons))])
  | s => .error s!"bad version {s}"

/-- `simus-post`: everything `simus()` derives from the stages' `lp_values` -/
def opPost (j : Json) : Except String Json := do
  let rows ← matOf asRat (← field j "lp_values")
  let rankBy ← asNat (← field j "rank_by")
  if rankBy != 1 && rankBy != 2 then .error "ValueError" else
  match rows with
  | [] => .error "no stages"
  | r0 :: _ =>
    matOfRows rows r0.length fun n V => do
      let m := r0.length
      let Sa := matArr (stageRows V)
      let S : Mat n m Rat := ofMatArr Sa n m
      let Da := matArr (dominance S)
      let dom : Mat m m Rat := ofMatArr Da m m
      pure (obj [("stages_results", jMat jRat (Mat.toLists S)),
                 ("non_finite", jBool (nonFinite V)),
                 ("method_1_score", jList jRat (Vec.toList (method1 S))),
                 ("method_2_score", jList jRat (Vec.toList (method2 S))),
                 ("tita_j_p", jList jRat (Vec.toList (titaP S))),
                 ("tita_j_d", jList jRat (Vec.toList (titaD S))),
                 ("dominance", jMat jRat (Mat.toLists dom)),
                 ("rank", jList jNat (simusRank (rankBy == 2) S))])

/-- a stage program from its JSON form (as produced by `simus-lp`) -/
def withLP {β : Type} (j : Json) (kont : (k m : Nat) → LP k m Rat → Except String β) : Except String β := do
  let sense ← asObj (← field j "sense")
  let c ← listOf asRat (← field j "objective")
  let cons ← asList (← field j "constraints")
  let coefs ← cons.mapM fun cj => do listOf asRat (← field cj "coef")
  let rels ← cons.mapM fun cj => do asRel (← field cj "rel")
  let rhs ← cons.mapM fun cj => do asRat (← field cj "rhs")
  let m := c.length
  matOfRows coefs m fun k A =>
    kont k m ⟨sense, vecOfList c m, A, vecOfList rels k, vecOfList rhs k⟩

/-- `cert`: run the proved checker on `(stage, x, y)` -/
def opCert (j : Json) : Except String Json := do
  let x ← listOf asRat (← field j "x")
  let y ← listOf asRat (← field j "y")
  let eps ← asRat (← field j "eps")
  let delta ← asRat (← field j "delta")
  withLP (← field j "stage") fun k m P => do
    if x.length != m then .error "x has the wrong length" else
    if y.length != k then .error "y has the wrong length" else
    let xv : Vec m Rat := vecOfList x m
    let yv : Vec k Rat := vecOfList y k
    pure (obj [("feasible", jBool (primalOK P xv eps)),
               ("dual_ok", jBool (dualOK P yv eps)),
               ("dual_exact", jBool (dualOK P yv 0)),
               ("gap_ok", jBool (gapOK P xv yv delta)),
               ("accept", jBool (certCheck P xv yv eps eps delta)),
               ("value", jRat (dot P.c xv)), ("bound", jRat (dot yv P.b))])

end Skc.Drv.C09Ops

namespace Skc.Drv
def handleC09 (op : String) (j : Json) : Option (Except String Json) :=
  match op with
  | "simus-lp" => some (C09Ops.opLp j)
  | "simus-order" => some (C09Ops.opOrder j)
  | "simus-post" => some (C09Ops.opPost j)
  | "cert" => some (C09Ops.opCert j)
  | _ => none
end Skc.Drv
