import Skc.Drv.Json
import Skc.Drv.OpsAgg
import Skc.Model.Electre
/-! Driver operations for ELECTRE (C03, C05, C08): `electre1`, `electre2`, `electre-graphs`, `electre2-post`. -/
open Lean
namespace Skc.Drv.ElectreOps
open Skc Skc.Electre Skc.Drv Skc.Drv.AggOps

def sq {m : Nat} (f : Fin m → Fin m → Json) : Json :=
  jList id (List.ofFn fun i => jList id (List.ofFn fun k => f i k))

def getRat (j : Json) (k : String) : Except String Rat := do asRat (← field j k)

def thresholds (j : Json) : Except String (Thresholds Rat) := do
  pure { p0 := ← getRat j "p0", p1 := ← getRat j "p1", p2 := ← getRat j "p2", q0 := ← getRat j "q0", q1 := ← getRat j "q1" }

def graphOf (rows : List (List Bool)) : Graph :=
  let a := (rows.map List.toArray).toArray
  fun i k => (a.getD i #[]).getD k false

def postRank (S W : Graph) (m : Nat) : List (String × Json) :=
  let d := rankerDirect S W m
  let iv := rankerInverted S W m
  [("ranking_direct", jList jNat d), ("ranking_inverted", jList jNat iv),
   ("score2", jList jNat (List.zipWith (· + ·) d iv)), ("rank", jList jNat (electre2Rank d iv))]

/-! The stages below receive the already evaluated tables as ARGUMENTS (and are `noinline`): the
compiler is then not free to move the evaluation of a table into the closures that read it. -/

@[noinline] def stageE1 {m : Nat} (concA discA : Array (Array (Option Rat))) (p q : Rat) (base : List (String × Json)) : Json :=
  let conc : Fin m → Fin m → Option Rat := atM concA
  let disc : Fin m → Fin m → Option Rat := atM discA
  let outL : List (List Bool) := List.ofFn fun (a : Fin m) => List.ofFn fun (b : Fin m) => outrankCell (conc a b) (disc a b) p q
  obj (base ++ [("outrank", jMat jBool outL), ("kernel", jList jBool (kernelOf outL m))])

@[noinline] def stageE2b {m : Nat} (osL owL : List (List Bool)) (base : List (String × Json)) : Json :=
  obj (base ++ [("outrank_s", jMat jBool osL), ("outrank_w", jMat jBool owL)] ++ postRank (graphOf osL) (graphOf owL) m)

@[noinline] def stageE2 {m : Nat} (concA discA : Array (Array (Option Rat))) (worCA worSA : Array (Array Bool))
    (t : Thresholds Rat) (base : List (String × Json)) : Json :=
  let conc : Fin m → Fin m → Option Rat := atM concA
  let disc : Fin m → Fin m → Option Rat := atM discA
  let worC : Fin m → Fin m → Bool := atM worCA
  let osL : List (List Bool) := List.ofFn fun (a : Fin m) => List.ofFn fun (b : Fin m) => strongCell (conc a b) (disc a b) (worC a b) t
  let owL : List (List Bool) := List.ofFn fun (a : Fin m) => List.ofFn fun (b : Fin m) => weakCell (conc a b) (disc a b) (worC a b) t
  stageE2b (m := m) osL owL (base ++ [("wor_code", jMat jBool (worCA.toList.map Array.toList)), ("wor_spec", jMat jBool (worSA.toList.map Array.toList))])

@[noinline] def stageDisc {m n : Nat} [NeZero n] (A : Mat m n Rat) (o : Vec n Obj) (mr : Rat) : Array (Array (Option Rat)) :=
  memoM fun (a b : Fin m) =>
    if a = b then (none : Option Rat) else
      some (maxFin fun j => absv (if discMask (o j) (A a j) (A b j) then A b j - A a j else 0) / mr)

def optTable (t : Array (Array (Option Rat))) : Json := jMat (jOpt jRat) (t.toList.map Array.toList)

def opElectre (two : Bool) (j : Json) : Except String Json := do
  let rows ← matOf asRat (← field j "M")
  let os ← listOf asObj (← field j "O")
  let ws ← listOf asRat (← field j "w")
  withMat rows os.length fun m n A => do
    if hm : m = 0 then .error "no alternatives" else
    if hn : n = 0 then .error "no criteria" else
    haveI : NeZero m := ⟨hm⟩
    haveI : NeZero n := ⟨hn⟩
    let o : Vec n Obj := vecOf os n
    let w : Vec n Rat := vecOf ws n
    let concA := memoM fun a b => concordance A o w a b
    let mr := maxRange A
    if mr = 0 then .error "constant data (max_range = 0)" else
    let discA := stageDisc A o mr
    let base := [("concordance", optTable concA), ("discordance", optTable discA)]
    if !two then do
      let p ← getRat j "p"
      let q ← getRat j "q"
      pure (stageE1 (m := m) concA discA p q base)
    else do
      let t ← thresholds j
      let worCA := memoM fun (a b : Fin m) => worCode A o w a b
      let worSA := memoM fun (a b : Fin m) => worSpec A o w a b
      pure (stageE2 (m := m) concA discA worCA worSA t base)

/-- the discrete layers recomputed from the implementation's own concordance / discordance / wor -/
def opGraphs (j : Json) : Except String Json := do
  let conc ← matOf (optOf asRat) (← field j "concordance")
  let disc ← matOf (optOf asRat) (← field j "discordance")
  let m := conc.length
  let c := fun (a b : Nat) => ((conc.getD a []).getD b none)
  let d := fun (a b : Nat) => ((disc.getD a []).getD b none)
  let idx := List.range m
  match (j.getObjVal? "p").toOption with
  | some _ => do
    let p ← getRat j "p"
    let q ← getRat j "q"
    let out := idx.map fun a => idx.map fun b => outrankCell (c a b) (d a b) p q
    pure (obj [("outrank", jMat jBool out), ("kernel", jList jBool (kernelOf out m))])
  | none => do
    let t ← thresholds j
    let wor ← matOf asBool (← field j "wor")
    let wv := fun (a b : Nat) => ((wor.getD a []).getD b false)
    pure (obj [("outrank_s", jMat jBool (idx.map fun a => idx.map fun b => strongCell (c a b) (d a b) (wv a b) t)),
               ("outrank_w", jMat jBool (idx.map fun a => idx.map fun b => weakCell (c a b) (d a b) (wv a b) t))])

def opPost (j : Json) : Except String Json := do
  let s ← matOf asBool (← field j "outrank_s")
  let w ← matOf asBool (← field j "outrank_w")
  pure (obj (postRank (graphOf s) (graphOf w) s.length))

end Skc.Drv.ElectreOps

namespace Skc.Drv
def handleElectre (op : String) (j : Json) : Option (Except String Json) :=
  match op with
  | "electre1" => some (ElectreOps.opElectre false j)
  | "electre2" => some (ElectreOps.opElectre true j)
  | "electre-graphs" => some (ElectreOps.opGraphs j)
  | "electre2-post" => some (ElectreOps.opPost j)
  | _ => none
end Skc.Drv
