import Skc.Drv.Json
import Skc.Model.Heap
/-! Driver operation for C02: `heap`.

request  `{"op":"heap", "kinds":["freshCopy"|"memoThenCopy"|"memoShared", …]   -- one per accessor instance
           "guarded":[bool, …], "args":[[int,…],…]                            -- arrays given to the constructor
           "keep": [j, …]                                                     -- constructor arguments the matrix keeps (not copied)
           "ops":[{"read":k} | {"write":src,"i":pos,"raw":bool} | {"call":true} | {"mutarg":a,"i":pos}]}`
reply    `{"initial":[answers…], "steps":[{"applied":bool, "ref":r|null, "answers":[[int…]…], "changed":[k…]}]}`
where `answers` lists the answer of every accessor after the step and `changed` the accessors whose answer
differs from the initial one. -/
open Lean
namespace Skc.Drv
open Skc.Heap

def parseKind (s : String) : Except String Kind :=
  match s with
  | "freshCopy" => .ok .freshCopy
  | "memoThenCopy" => .ok .memoThenCopy
  | "memoShared" => .ok .memoShared
  | _ => .error s!"bad kind {s}"

def parseAct (j : Json) : Except String Act := do
  match j.getObjVal? "read" with
  | .ok k => return .read (← asNat k)
  | .error _ => pure ()
  match j.getObjVal? "write" with
  | .ok s => return .write (← asNat s) (← asNat (fieldD j "i" (toJson (0 : Nat)))) (← asBool (fieldD j "raw" (.bool true)))
  | .error _ => pure ()
  match j.getObjVal? "mutarg" with
  | .ok a => return .mutarg (← asNat a) (← asNat (fieldD j "i" (toJson (0 : Nat))))
  | .error _ => pure ()
  match j.getObjVal? "call" with
  | .ok _ => return .call
  | .error _ => .error "bad heap op"

/-- the accessor answers of the executable model: accessor `k` reports the `k mod n`-th internal array
shifted by `k` (any function of the internal arrays would do: the theorems quantify over `compute`) -/
def heapCompute (k : Nat) (ints : List Arr) : Arr :=
  (ints.getD (k % ints.length) []).map (· + (k : Int))

def opHeap (j : Json) : Except String Json := do
  let kinds ← listOf (fun x => do parseKind (← asStr x)) (← field j "kinds")
  let guarded ← listOf asBool (fieldD j "guarded" (.arr #[]))
  let args ← listOf (listOf asInt) (← field j "args")
  let acts ← listOf parseAct (← field j "ops")
  let keep ← listOf asNat (fieldD j "keep" (.arr #[]))
  let n := kinds.length
  let T : Table := { compute := heapCompute, kind := fun k => kinds.getD k .freshCopy }
  let w₀ := if keep.isEmpty then construct args else constructKeeping keep args
  let init := answers T n w₀
  let tr := runActs T (fun k => guarded.getD k false) n w₀ acts
  let stepJson (o : StepOut) : Json :=
    let changed := (List.range n).filter fun k => o.answers.getD k [] != init.getD k []
    obj [("applied", jBool o.applied), ("ref", jOpt jNat o.ref),
         ("answers", jMat jInt o.answers), ("changed", jList jNat changed)]
  pure (obj [("initial", jMat jInt init), ("steps", jList stepJson tr.outs)])

def handleC02 (op : String) (j : Json) : Option (Except String Json) :=
  match op with
  | "heap" => some (opHeap j)
  | _ => none

end Skc.Drv
