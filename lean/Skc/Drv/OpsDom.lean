import Skc.Drv.Json
import Skc.Drv.OpsAgg
import Skc.Model.Dominance
/-! Driver operations for the dominance accessor (C06, C07, C12, C14): `dom`. -/
open Lean
namespace Skc.Drv.DomOps
open Skc Skc.Dom Skc.Drv Skc.Drv.AggOps

def fullTable {m : Nat} (f : Fin m → Fin m → Json) : Json :=
  jList id (List.ofFn fun i => jList id (List.ofFn fun k => f i k))

def oneCall {m n : Nat} (A : Mat m n Rat) (o : Vec n Obj) (c : Json) : Except String Json := do
  let name ← asStr (← field c "m")
  let strict ← asBool (fieldD c "strict" (.bool false))
  let idx (key : String) : Except String (Fin m) := do
    let a ← asNat (← field c key)
    if h : a < m then pure ⟨a, h⟩ else .error "alternative index out of range"
  let rel : Nat → Nat → Bool := fun x y =>
    if h : x < m ∧ y < m then dominance strict A o ⟨x, h.1⟩ ⟨y, h.2⟩ else false
  match name with
  | "bt" => pure (fullTable fun i k => jNat (bt A o i k))
  | "eq" => pure (fullTable fun i k => jNat (eqT A o i k))
  | "dominance" => pure (fullTable fun i k => jBool (dominance strict A o i k))
  | "dominated" => pure (jList jBool (List.ofFn fun k => dominated strict A o k))
  | "compare" => do
    let a ← idx "a"; let b ← idx "b"
    let r := compare A o a b
    pure (obj [("row0", jList jBool (List.ofFn r.row0)), ("row1", jList jBool (List.ofFn r.row1)),
               ("eq", jList jBool (List.ofFn r.eqRow)), ("perf", jList jNat [r.perf0, r.perf1, r.perfEq])])
  | "dominators_of" => do
    let a ← idx "a"
    match dominatorsOf rel m (m + 1) a.val with
    | some l => pure (jList jNat l)
    | none => pure (obj [("err", jStr "RecursionError")])
  | "has_loops" => pure (jBool (hasLoops rel m (m + 1)))
  | s => .error s!"bad dominance call {s}"

def opDom (j : Json) : Except String Json := do
  let rows ← matOf asRat (← field j "M")
  let os ← listOf asObj (← field j "O")
  let calls ← asList (← field j "calls")
  withMat rows os.length fun m n A => do
    let o : Vec n Obj := vecOf os n
    let rs ← calls.mapM (oneCall A o)
    pure (obj [("replies", jList id rs)])

end Skc.Drv.DomOps

namespace Skc.Drv
def handleDom (op : String) (j : Json) : Option (Except String Json) :=
  match op with
  | "dom" => some (DomOps.opDom j)
  | _ => none
end Skc.Drv
