import Skc.Drv.Json
import Skc.Model.Stateless
/-! Driver operation for C20: `hist` runs the abstract method-object model on a history of integer-coded
matrices with a chosen `step` (`stateless` = the code as it is, `caching` = keeps the first fitted scaler,
`counting` = harmless call counter) and replies with the output of every call and the slot at the end.
Request: `{"op":"hist","step":"stateless"|"caching"|"counting","history":[[int,…],…]}`.
Reply: `{"outputs":[{"ok":[int,…]} | {"err":"ValueError"},…], "slot": int | null}`. -/
open Lean
namespace Skc.Drv.C20Ops
open Skc.Stateless Skc.Drv

def errName : Err → String
  | .valueError => "ValueError"
  | .typeError => "TypeError"

def jOut : ToyOut → Json
  | .ok xs => obj [("ok", jList jInt xs)]
  | .error e => obj [("err", jStr (errName e))]

def stepOf : String → Except String (Step Unit (Option Int) (List Int) ToyOut)
  | "stateless" => .ok statelessStep
  | "caching" => .ok cachingStep
  | "counting" => .ok countingStep
  | s => .error s!"bad step {s}"

def opHist (j : Json) : Except String Json := do
  let step ← stepOf (← asStr (← field j "step"))
  let hist ← matOf asInt (← field j "history")
  let r := runHistory step toy₀ hist
  pure (obj [("outputs", jList jOut r.2), ("slot", jOpt jInt r.1.slots)])

end Skc.Drv.C20Ops

namespace Skc.Drv
def handleC20 (op : String) (j : Json) : Option (Except String Json) :=
  match op with
  | "hist" => some (C20Ops.opHist j)
  | _ => none
end Skc.Drv
