import Skc.Drv.Json
import Skc.Drv.OpsAgg
import Skc.Model.Evaluate
/-! Driver operation `evaluate`: the field-only ranking methods end to end at `Rat`. -/
open Lean
namespace Skc.Drv.EvalOps
open Skc Skc.Agg Skc.Eval Skc.Drv Skc.Drv.AggOps

def asMethodQ (name metric : String) : Except String MethodQ :=
  match name with
  | "wsm" => pure .wsm
  | "ratio" => pure .ratio
  | "refpoint" => pure .refpoint
  | "topsis" => do pure (.topsis (← asMetric metric))
  | s => .error s!"bad method {s}"

@[noinline] def render {m : Nat} (r : Except Err (Out m Rat)) : Json :=
  match r with
  | .error _ => obj [("err", jStr "ValueError")]
  | .ok o => obj [("alts", jList jStr o.alts), ("rank", jList jNat o.rank), ("score", jList jRat (Vec.toList o.score))]

def opEvaluate (j : Json) : Except String Json := do
  let meth ← asMethodQ (← asStr (← field j "method")) (← asStr (fieldD j "metric" (.str "cityblock")))
  let rows ← matOf asRat (← field j "M")
  let os ← listOf asObj (← field j "O")
  let ws ← listOf asRat (← field j "w")
  let alts ← listOf asStr (← field j "alts")
  withMat rows os.length fun m n A => do
    if hm : m = 0 then .error "no alternatives" else
    if hn : n = 0 then .error "no criteria" else
    haveI : NeZero m := ⟨hm⟩
    haveI : NeZero n := ⟨hn⟩
    pure (render (evaluateQ meth alts A (vecOf os n) (vecOf ws n)))

end Skc.Drv.EvalOps

namespace Skc.Drv
def handleEval (op : String) (j : Json) : Option (Except String Json) :=
  match op with
  | "evaluate" => some (EvalOps.opEvaluate j)
  | _ => none
end Skc.Drv
