import Skc.Proofs.RankInvTrace
set_option linter.unusedSectionVars false
set_option linter.unusedVariables false

/-! # C19 — the rank-reversal test worsens exactly one sub-optimal alternative, in bounds

Property theorems only (helpers: `Skc/Proofs/RankInv.lean`, `Skc/Proofs/RankInvTrace.lean`).
Model: `Skc/Model/RankInv.lean` (`RankInvariantChecker`, operation by operation, as the code is after
`fix: rank-reversal checker refuses an alternative that cannot be worsened`; the pre-fix loop is
`mutate_v0` / `run_v0`).

Reading guide.  `d` is the original matrix, `order` the non-best alternatives in the order of the
original ranking (an input: the code's sort is unstable, see *Order oracle* in the model), `draws`
the stream of uniform draws, `rep` = `repeat`, `strat` = `last_diff_strategy`.
`run strat fuel d order draws rep = .ok (es, p)`: the checker produced the experiments `es` and
consumed `p` draws.  Hypothesis used where needed: `hu` — every draw is in `[0, 1)`.  Nothing is
assumed of the strategy: a callable that yields a negative bound is refused (`ValueError`, by NumPy's
`uniform(0, b)`), so an accepted mutation always has non-negative gaps.
Any number of alternatives and criteria, any `rep`, any `fuel`. -/
namespace Skc.C19
open Skc Skc.RankInv

variable {α : Type} [Field α] [LinearOrder α] [IsStrictOrderedRing α]

/-! ## the property -/

/-- **Number and order of evaluations.**  A successful run asks the decision maker to rank exactly
`1 + (n − 1)·repeat` matrices (`n` = number of alternatives), the first of them the untouched
matrix, and returns as many named rankings. -/
theorem evals_count {dmaker : DM α → RankRes} {strat : List α → α} {fuel : Nat} {allow : Bool} {d : DM α}
    {order : List String} {draws : Nat → α} {rep : Nat} {out : Outcome α}
    (h : evaluate dmaker strat fuel allow d order draws rep = .ok out) :
    out.seen.length = 1 + (d.alts.length - 1) * rep ∧ out.seen.head? = some d ∧ out.ranks.length = out.seen.length := by
  obtain ⟨porank, es, ps, p, -, hperm, hord, hrun, hps, hseen, hranks⟩ := evaluate_ok h
  obtain ⟨b, -, hv⟩ := isOrderOf_sound hord
  have hn : order.length + 1 = d.alts.length := by rw [hv.length, hperm.length_eq]
  have hes : es.length = order.length * rep := by
    rw [← (run_spec hrun).length_eq, jobs_length, List.length_zip, maxAbsNoises_length, Nat.min_self]
  have hpl : ps.length = es.length := hps.length_eq.symm
  refine ⟨?_, by rw [hseen]; rfl, ?_⟩
  · rw [hseen, List.length_cons, List.length_map, hes, ← hn]; simp; ring
  · rw [hranks, hseen, List.length_zip, uniqueNames_length]
    simp [hpl]

/-- **Exactly one row.**  Every mutant has the labels, objectives and weights of the original and
the same shape, and every row that does not belong to the mutated alternative is unchanged. -/
theorem mutant_one_row {strat : List α → α} {fuel : Nat} {d : DM α} {order : List String} {draws : Nat → α} {rep : Nat}
    {es : List (Exp α)} {p : Nat} (h : run strat fuel d order draws rep = .ok (es, p)) :
    ∀ e ∈ es, e.dm.alts = d.alts ∧ e.dm.crits = d.crits ∧ e.dm.objs = d.objs ∧ e.dm.wts = d.wts ∧
      e.dm.cells.length = d.cells.length ∧ ∀ (i : Nat), d.alts[i]? ≠ some e.mutated → e.dm.cells[i]? = d.cells[i]? := by
  intro e he
  obtain ⟨k, g, -, -, -, hc, -⟩ := exp_job h he
  exact core_sameBut hc

/-- **Never the best.**  When `order` is a sort of the original ranking `(ralts, rvalues)` with the
best alternative left out, there is one alternative `b` of the matrix that is ranked at least as
well as every other one and is never mutated; every mutated alternative is another alternative of
the matrix. -/
theorem mutant_not_best {strat : List α → α} {fuel : Nat} {d : DM α} {order : List String} {draws : Nat → α} {rep : Nat}
    {es : List (Exp α)} {p : Nat} (h : run strat fuel d order draws rep = .ok (es, p))
    {ralts : List String} {rvalues : List Nat} (hperm : ralts.Perm d.alts) (hord : isOrderOf ralts rvalues order = true) :
    ∃ b, bestOf ralts order = some b ∧ b ∈ d.alts ∧ (∀ a ∈ order, rankIn ralts rvalues b ≤ rankIn ralts rvalues a) ∧
      ∀ e ∈ es, e.mutated ∈ order ∧ e.mutated ≠ b ∧ e.mutated ∈ d.alts := by
  obtain ⟨b, hb, hv⟩ := isOrderOf_sound hord
  refine ⟨b, hb, hperm.subset (hv.perm.subset List.mem_cons_self), (List.pairwise_cons.mp hv.sorted).1, ?_⟩
  intro e he
  obtain ⟨k, g, hk, -, -, -, -⟩ := exp_job h he
  have hmem : e.mutated ∈ order := List.mem_of_getElem? hk
  exact ⟨hmem, fun hEq => hv.notin (hEq ▸ hmem), hperm.subset (hv.perm.subset (List.mem_cons_of_mem _ hmem))⟩

/-- **Each once per repetition.**  The experiments are, in this order: for every repetition
`0 … repeat−1`, every alternative of `order` once (and `order` has no repetition when it is a sort
of the ranking, see `order_nodup`). -/
theorem each_once_per_rep {strat : List α → α} {fuel : Nat} {d : DM α} {order : List String} {draws : Nat → α} {rep : Nat}
    {es : List (Exp α)} {p : Nat} (h : run strat fuel d order draws rep = .ok (es, p)) :
    es.map (fun e => (e.iteration, e.mutated)) = (List.range rep).flatMap fun it => order.map fun a => (it, a) := by
  have h1 := forall₂_map_eq (f := fun j => (j.1, j.2.1)) (g := fun e : Exp α => (e.iteration, e.mutated)) (run_spec h)
    (fun j e hp => by obtain ⟨_, _, _, hit, hwho⟩ := hp; rw [hit, hwho])
  rw [← h1, jobs_labels]
  congr 1
  funext it
  exact zip_labels order _ (maxAbsNoises_length strat d order) it

/-- a sort of a ranking over distinct alternatives lists every non-best alternative once -/
theorem order_nodup {ralts : List String} {rvalues : List Nat} {order : List String} (hnd : ralts.Nodup)
    (hord : isOrderOf ralts rvalues order = true) : order.Nodup ∧ order.length + 1 = ralts.length := by
  obtain ⟨b, -, hv⟩ := isOrderOf_sound hord
  exact ⟨(List.nodup_cons.mp (hv.perm.nodup_iff.mpr hnd)).2, hv.length⟩

/-- **Worsening direction.**  The noise of a maximised criterion is `≤ 0`, that of a minimised
criterion `≥ 0`. -/
theorem noise_direction {strat : List α → α}
    {fuel : Nat} {d : DM α} {order : List String} {draws : Nat → α} (hu : ∀ i, 0 ≤ draws i ∧ draws i < 1) {rep : Nat}
    {es : List (Exp α)} {p : Nat} (h : run strat fuel d order draws rep = .ok (es, p)) :
    ∀ e ∈ es, ∀ (j : Nat) (o : Obj) (x : α), d.objs[j]? = some o → e.noise[j]? = some x →
      (o = Obj.max → x ≤ 0) ∧ (o = Obj.min → 0 ≤ x) := by
  intro e he
  obtain ⟨k, g, -, hk, -, hc, -⟩ := exp_job h he
  exact core_direction hc hu

/-- **In bounds.**  The experiment that mutates the `k`-th alternative of `order` has one noise per
criterion and `|noise j| ≤ gap j`, the `k`-th row of the gap table: the absolute gap to the
next-ranked alternative, for the last one the configured aggregate of the other gaps. -/
theorem noise_bound {strat : List α → α}
    {fuel : Nat} {d : DM α} {order : List String} {draws : Nat → α} (hu : ∀ i, 0 ≤ draws i ∧ draws i < 1) {rep : Nat}
    {es : List (Exp α)} {p : Nat} (h : run strat fuel d order draws rep = .ok (es, p)) :
    ∀ e ∈ es, ∃ (k : Nat) (g : List α), order[k]? = some e.mutated ∧ (maxAbsNoises strat d order)[k]? = some g ∧
      e.noise.length = g.length ∧ ∀ (j : Nat) (b x : α), g[j]? = some b → e.noise[j]? = some x → |x| ≤ b := by
  intro e he
  obtain ⟨k, g, hk1, hk, -, hc, -⟩ := exp_job h he
  obtain ⟨hl, hb⟩ := core_bounded hc hu
  exact ⟨k, g, hk1, hk, hl, fun j b x hb1 hx => by simpa using hb j b x hb1 hx⟩

/-- the gap table itself: row `k < n−2` is `|row (order k) − row (order (k+1))|`, criterion by criterion -/
theorem gap_formula (strat : List α → α) (d : DM α) (order : List String) (k : Nat) (hk : k + 1 < order.length) :
    (maxAbsNoises strat d order)[k]? = some (absDiff (rowOf d order[k]) (rowOf d order[k + 1])) := by
  have key : ∀ (rows : List (List α)) (k : Nat) (hk : k + 1 < rows.length),
      (consecGaps rows)[k]? = some (absDiff rows[k] rows[k + 1]) := by
    intro rows
    induction rows with
    | nil => intro k hk; simp at hk
    | cons r rs ih =>
      intro k hk
      cases rs with
      | nil => simp at hk
      | cons r' rest =>
        cases k with
        | zero => simp [consecGaps]
        | succ k =>
          simp only [consecGaps, List.getElem?_cons_succ, List.getElem_cons_succ]
          exact ih k (by simpa using hk)
  cases order with
  | nil => simp at hk
  | cons a as =>
    simp only [maxAbsNoises]
    have hlen : k < (consecGaps (List.map (rowOf d) (a :: as))).length := by
      rw [consecGaps_length]; simp at hk ⊢; omega
    rw [List.getElem?_append_left hlen, key _ k (by simpa using hk)]
    simp only [List.getElem_map]

/-- … and the last row is the strategy applied to every column of the other rows -/
theorem gap_last (strat : List α → α) (d : DM α) (order : List String) (hne : order ≠ []) :
    (maxAbsNoises strat d order)[order.length - 1]? =
      some ((List.range d.crits.length).map fun j => strat (column (consecGaps (order.map (rowOf d))) j)) := by
  cases order with
  | nil => exact absurd rfl hne
  | cons a as =>
    simp only [maxAbsNoises, lastGap]
    have : (a :: as).length - 1 = (consecGaps (List.map (rowOf d) (a :: as))).length := by
      rw [consecGaps_length]; simp
    rw [this, List.getElem?_append_right (le_refl _)]
    simp

/-- **Strictly worse.**  Every accepted draw changes at least one criterion. -/
theorem noise_strict {strat : List α → α} {fuel : Nat} {d : DM α} {order : List String} {draws : Nat → α} {rep : Nat}
    {es : List (Exp α)} {p : Nat} (h : run strat fuel d order draws rep = .ok (es, p)) :
    ∀ e ∈ es, ∃ x ∈ e.noise, x ≠ 0 := by
  intro e he
  obtain ⟨k, g, -, -, -, hc, -⟩ := exp_job h he
  exact core_strict hc

/-- **Faithfully recorded.**  The stored noise is the change applied: the mutated row of the mutant
is the original row plus the stored vector. -/
theorem noise_recorded {strat : List α → α} {fuel : Nat} {d : DM α} {order : List String} {draws : Nat → α} {rep : Nat}
    {es : List (Exp α)} {p : Nat} (h : run strat fuel d order draws rep = .ok (es, p)) :
    ∀ e ∈ es, ∀ (i : Nat) (r : List α), d.alts[i]? = some e.mutated → d.cells[i]? = some r →
      e.dm.cells[i]? = some (addRow r e.noise) := by
  intro e he
  obtain ⟨k, g, -, -, -, hc, -⟩ := exp_job h he
  exact core_recorded hc

/-- **Labels.**  The rankings are named `Original`, `M.<alternative>` made unique by `unique_names`,
and ranking `t+1` stores the iteration, the alternative and the noise of experiment `t`; the
experiments the decision maker saw are those of `run`. -/
theorem labels {dmaker : DM α → RankRes} {strat : List α → α} {fuel : Nat} {allow : Bool} {d : DM α}
    {order : List String} {draws : Nat → α} {rep : Nat} {out : Outcome α}
    (h : evaluate dmaker strat fuel allow d order draws rep = .ok out) :
    ∃ (es : List (Exp α)) (p : Nat), run strat fuel d order draws rep = .ok (es, p) ∧
      out.seen = d :: es.map (·.dm) ∧
      out.ranks.map (·.1) = uniqueNames ("Original" :: es.map fun e => "M." ++ e.mutated) ∧
      (out.ranks.map (·.2.info)).head? = (some ⟨none, none, none, setxor (dmaker d).alts d.alts⟩ : Option (Info α)) ∧
      (out.ranks.map fun r => (r.2.info.iteration, r.2.info.mutated, r.2.info.noise)).tail =
        es.map fun e => (some e.iteration, some e.mutated, some e.noise) := by
  obtain ⟨porank, es, ps, p, hpo, -, -, hrun, hps, hseen, hranks⟩ := evaluate_ok h
  have hpl : ps.length = es.length := hps.length_eq.symm
  have hlen : (uniqueNames ("Original" :: es.map fun e => "M." ++ e.mutated)).length = (porank :: ps).length := by
    rw [uniqueNames_length]; simp [hpl]
  have hinfo : ∀ (r : RankRes) (tag : Option (Nat × String × List α)) (q : PRank α),
      addMutationInfo allow d.alts r tag = .ok q →
      q.info = ⟨tag.map (·.1), tag.map (·.2.1), tag.map (·.2.2), setxor r.alts d.alts⟩ := by
    intro r tag q hq
    unfold addMutationInfo at hq
    cases tag with
    | none =>
      simp only at hq
      split at hq
      · simp at hq
      · simp only [Except.ok.injEq] at hq; subst hq; rfl
    | some t =>
      obtain ⟨it, a, nz⟩ := t
      simp only at hq
      split at hq
      · simp at hq
      · simp only [Except.ok.injEq] at hq; subst hq; rfl
  refine ⟨es, p, hrun, hseen, ?_, ?_, ?_⟩
  · rw [hranks, List.map_fst_zip]; omega
  · rw [hranks, map_zip_snd _ _ (fun q : PRank α => q.info) (by omega)]
    simp [hinfo _ _ _ hpo]
  · rw [hranks, map_zip_snd _ _ (fun q : PRank α => (q.info.iteration, q.info.mutated, q.info.noise)) (by omega),
      List.map_cons, List.tail_cons]
    exact (forall₂_map_eq (f := fun e : Exp α => (some e.iteration, some e.mutated, some e.noise))
      (g := fun q : PRank α => (q.info.iteration, q.info.mutated, q.info.noise)) hps
      (fun e q hq => by rw [hinfo _ _ _ hq]; rfl)).symm

/-- **Missing alternatives.**  Alternatives the decision maker dropped are refused (`ValueError`)
unless allowed; when allowed they are appended, sorted, all with the worst rank + 1. -/
theorem missing_alternatives (allow : Bool) (full : List String) (r : RankRes) (tag : Option (Nat × String × List α)) :
    (setxor r.alts full ≠ [] ∧ allow = false → addMutationInfo allow full r tag = .error .valueError) ∧
    (∀ q, addMutationInfo allow full r tag = .ok q →
      q.info.missing = setxor r.alts full ∧
      (setxor r.alts full = [] → q.alts = r.alts ∧ q.values = r.values) ∧
      (setxor r.alts full ≠ [] → allow = true ∧ q.alts = r.alts ++ setxor r.alts full ∧
        q.values = r.values ++ (setxor r.alts full).map fun _ => r.values.foldl Nat.max 0 + 1)) := by
  constructor
  · rintro ⟨hne, rfl⟩
    unfold addMutationInfo
    cases hm : setxor r.alts full with
    | nil => exact absurd hm hne
    | cons x xs => simp
  · intro q hq
    unfold addMutationInfo at hq
    cases hm : setxor r.alts full with
    | nil =>
      simp only [hm, List.isEmpty_nil, Bool.not_true, Bool.false_and, Bool.false_eq_true, ↓reduceIte] at hq
      cases tag with
      | none => simp only [Except.ok.injEq] at hq; subst hq; simp
      | some t => obtain ⟨it, a, nz⟩ := t; simp only [Except.ok.injEq] at hq; subst hq; simp
    | cons x xs =>
      cases allow with
      | false => simp [hm] at hq
      | true =>
        simp only [hm, List.isEmpty_cons, Bool.not_false, Bool.not_true, Bool.and_false, Bool.false_eq_true, ↓reduceIte] at hq
        cases tag with
        | none => simp only [Except.ok.injEq] at hq; subst hq; simp
        | some t => obtain ⟨it, a, nz⟩ := t; simp only [Except.ok.injEq] at hq; subst hq; simp

/-- **Equal seeds, equal experiments.**  The experiments are a function of the stream, and only of
the draws actually consumed: two streams that agree on the first `p` draws give the same
experiments. -/
theorem deterministic {strat : List α → α} {fuel : Nat} {d : DM α} {order : List String} {draws draws' : Nat → α} {rep : Nat}
    {es : List (Exp α)} {p : Nat} (h : run strat fuel d order draws rep = .ok (es, p))
    (hsame : ∀ i < p, draws i = draws' i) : run strat fuel d order draws' rep = .ok (es, p) :=
  loop_congr h hsame

/-! ## refusal and (pre-fix) divergence -/

/-- the code as it is: an alternative with no room (no gap `> 0`) is refused with `ValueError`,
whatever the stream … -/
theorem mutate_refuses (fuel : Nat) (d : DM α) (a : String) (g : List α) (draws : Nat → α) (pos : Nat)
    (hg : ∀ x ∈ g, ¬ 0 < x) : mutate fuel d a g draws pos = .error .valueError := by
  unfold mutate
  rw [if_neg]
  rw [hasRoom_iff]
  rintro ⟨x, hx, h0⟩
  exact hg x hx h0

/-- … the only other refusal is a negative bound, which NumPy's `uniform(0, b)` rejects (only a
custom strategy can produce one): `ValueError` exactly when no gap is `> 0` or some gap is `< 0` … -/
theorem mutate_valueError_iff (fuel : Nat) (d : DM α) (a : String) (g : List α) (draws : Nat → α) (pos : Nat) :
    mutate fuel d a g draws pos = .error .valueError ↔ (∀ x ∈ g, ¬ 0 < x) ∨ ∃ x ∈ g, x < 0 := by
  constructor
  · intro h
    by_cases hroom : ∃ x ∈ g, 0 < x
    · right
      unfold mutate at h
      rw [if_pos ((hasRoom_iff g).mpr hroom)] at h
      unfold mutate_v0 at h
      split at h
      · rename_i hneg
        simpa [hasNeg] using hneg
      · split at h <;> simp at h
    · left
      intro x hx h0
      exact hroom ⟨x, hx, h0⟩
  · rintro (h | ⟨x, hx, h0⟩)
    · exact mutate_refuses fuel d a g draws pos h
    · unfold mutate
      split
      · unfold mutate_v0
        rw [if_pos]
        simp only [hasNeg, List.any_eq_true, decide_eq_true_eq]
        exact ⟨x, hx, h0⟩
      · rfl

/-- … and an alternative with room (and no negative bound) is mutated at the first round whenever
the draws are positive (the loop ends: a round is rejected only if the draw of every criterion with
room is `0`). -/
theorem mutate_accepts (fuel : Nat) (d : DM α) (a : String) (g : List α) (draws : Nat → α) (pos : Nat)
    (hg : ∃ x ∈ g, 0 < x) (hg0 : ∀ x ∈ g, 0 ≤ x) (hu : ∀ i, 0 < draws i) :
    ∃ r, mutate (fuel + 1) d a g draws pos = .ok r := by
  have hnz : allZero (drawNoise g draws pos) = false := by
    obtain ⟨x, hx, h0⟩ := hg
    obtain ⟨j, hj, rfl⟩ := List.getElem_of_mem hx
    have hne : ¬ allZero (drawNoise g draws pos) = true := by
      rw [allZero_iff]
      intro hall
      have hm : g[j] * draws (pos + j) ∈ drawNoise g draws pos := by
        apply List.mem_of_getElem? (i := j)
        rw [drawNoise_getElem?, List.getElem?_eq_getElem hj]; rfl
      exact (ne_of_gt (mul_pos h0 (hu _))) (hall _ hm)
    simpa using hne
  unfold mutate mutate_v0
  rw [if_pos ((hasRoom_iff g).mpr hg), if_neg (by rw [Bool.not_eq_true]; exact (hasNeg_false_iff g).mpr hg0)]
  simp only [drawUntilNonzero, hnz]
  exact ⟨_, rfl⟩

/-- the two built-in strategies (and `max`, `min`) map non-negative gaps to a non-negative bound -/
theorem builtin_strategies_nonneg :
    (∀ l : List α, (∀ x ∈ l, 0 ≤ x) → 0 ≤ median l) ∧ (∀ l : List α, (∀ x ∈ l, 0 ≤ x) → 0 ≤ mean l) ∧
    (∀ l : List α, (∀ x ∈ l, 0 ≤ x) → 0 ≤ maxL l) ∧ (∀ l : List α, (∀ x ∈ l, 0 ≤ x) → 0 ≤ minL l) :=
  ⟨median_nonneg, mean_nonneg, maxL_nonneg, minL_nonneg⟩

/-- two identical neighbours: the first has no room on any criterion -/
theorem identical_rows_no_room (r : List α) : hasRoom (absDiff r r) = false := by
  rw [Bool.eq_false_iff, ne_eq, hasRoom_iff]
  rintro ⟨x, hx, h0⟩
  exact absurd (absDiff_self r x hx) (ne_of_gt h0)

/-- **Termination was the finding (K3, repaired as F8).**  The pre-fix `_mutate_dm` on a row whose
gaps are all `0` (an alternative identical to the next-ranked one): no draw is ever accepted —
for every fuel, every stream and every position the model is out of fuel. -/
theorem mutate_diverges_zero_gaps (d : DM α) (a : String) (g : List α) (draws : Nat → α) (pos : Nat)
    (hg : ∀ x ∈ g, x = 0) : ∀ fuel, mutate_v0 fuel d a g draws pos = .error .outOfFuel := by
  intro fuel
  unfold mutate_v0
  rw [if_neg (by rw [Bool.not_eq_true]; exact (hasNeg_false_iff g).mpr (fun x hx => le_of_eq (hg x hx).symm)),
    drawUntilNonzero_zero fuel g draws pos hg]

/-- … so the pre-fix checker never returns on a matrix in which some non-best alternative has an
all-zero gap row (`repeat ≥ 1`; the strategy maps non-negative gaps to a non-negative bound, as
`median`, `mean`, `max`, `min` do — otherwise NumPy may raise first) -/
theorem run_v0_diverges_zero_gaps (strat : List α → α) (hstrat : ∀ l, (∀ x ∈ l, 0 ≤ x) → 0 ≤ strat l)
    (d : DM α) (order : List String) (draws : Nat → α) (rep : Nat)
    (hrep : 0 < rep) (k : Nat) (a : String) (g : List α) (hk : order[k]? = some a)
    (hgk : (maxAbsNoises strat d order)[k]? = some g) (hg : ∀ x ∈ g, x = 0) :
    ∀ fuel, run_v0 strat fuel d order draws rep = .error .outOfFuel := by
  intro fuel
  -- with non-negative gap rows the only error of the pre-fix loop is `outOfFuel`
  have only : ∀ (js : List (Nat × String × List α)) (pos : Nat) (e : Err),
      (∀ j ∈ js, ∀ x ∈ j.2.2, 0 ≤ x) →
      loopWith (mutate_v0 fuel) (fun e => .ok e) d draws js pos = .error e → e = .outOfFuel := by
    intro js
    induction js with
    | nil => intro pos e _ h; simp [loopWith] at h
    | cons j js ih =>
      intro pos e hnn h
      obtain ⟨it, b, gb⟩ := j
      simp only [loopWith] at h
      split at h
      · rename_i e' hm
        simp only [Except.error.injEq] at h
        subst h
        unfold mutate_v0 at hm
        rw [if_neg (by rw [Bool.not_eq_true]; exact (hasNeg_false_iff gb).mpr (hnn _ List.mem_cons_self))] at hm
        split at hm
        · simp only [Except.error.injEq] at hm; exact hm.symm
        · simp at hm
      · split at h
        · rename_i e' hl
          simp only [Except.error.injEq] at h
          subst h
          exact ih _ _ (fun j hj => hnn j (List.mem_cons_of_mem _ hj)) hl
        · simp at h
  have hnn : ∀ j ∈ jobs (order.zip (maxAbsNoises strat d order)) rep, ∀ x ∈ j.2.2, 0 ≤ x := by
    intro j hj
    exact maxAbsNoises_nonneg strat hstrat d order j.2.2 (List.of_mem_zip (mem_jobs hj).2).2
  cases hres : run_v0 strat fuel d order draws rep with
  | error e => rw [only _ _ _ hnn hres]
  | ok r =>
    exfalso
    obtain ⟨es, p⟩ := r
    have hf : List.Forall₂ (Produced (mutate_v0 fuel) d draws) (jobs (order.zip (maxAbsNoises strat d order)) rep) es :=
      loopWith_ok hres
    have hmem : (0, a, g) ∈ jobs (order.zip (maxAbsNoises strat d order)) rep := by
      unfold jobs
      simp only [List.mem_flatMap, List.mem_range, List.mem_map]
      refine ⟨0, hrep, (a, g), ?_, rfl⟩
      exact List.mem_iff_getElem?.mpr ⟨k, List.getElem?_zip_eq_some.mpr ⟨hk, hgk⟩⟩
    obtain ⟨e, -, pos, pos', hm, -, -⟩ := forall₂_mem_left hf hmem
    rw [mutate_diverges_zero_gaps d a g draws pos hg fuel] at hm
    simp at hm

/-! ## the trace checker -/

/-- **`checkTrace` is sound.**  If the executable checker accepts a recorded run — the original
ranking `(ralts, rvalues)`, the order in which the alternatives were mutated, and for every
experiment the label, the stored noise and the matrix the decision maker was shown — then every
clause of the property holds of the recording, noise bound and "stored noise = applied change"
within `tol`: the ranking is over the alternatives of the matrix and `order` is a sort of it
without the best; there are `(n−1)·repeat` experiments, every alternative of `order` once per
repetition in that order; every mutant is the original but for the row of its alternative; that row
is the original row plus the stored noise; the noise points in the worsening direction, is bounded
by the alternative's gap row, and is not zero. -/
theorem checkTrace_sound {tol : α} {strat : List α → α} {d : DM α} {ralts : List String} {rvalues : List Nat}
    {order : List String} {rep : Nat} {trace : List (Exp α)}
    (h : checkTrace tol strat d ralts rvalues order rep trace = true) :
    ralts.Perm d.alts ∧ (∃ b, bestOf ralts order = some b ∧ ValidOrder ralts rvalues order b) ∧
    trace.length = (d.alts.length - 1) * rep ∧
    trace.map (fun e => (e.iteration, e.mutated)) = ((List.range rep).flatMap fun it => order.map fun a => (it, a)) ∧
    ∀ e ∈ trace, SameBut d e.mutated e.dm ∧ RecordedTol tol d e ∧ Direction d.objs e.noise ∧ Strict e.noise ∧
      ∃ (k : Nat) (g : List α), order[k]? = some e.mutated ∧ (maxAbsNoises strat d order)[k]? = some g ∧
        Bounded tol g e.noise := by
  unfold checkTrace failedClauses at h
  simp only [List.isEmpty_iff, List.append_eq_nil_iff, ite_nil_iff, Bool.and_eq_true, List.isPerm_iff] at h
  obtain ⟨⟨hperm, hord⟩, hall⟩ := h
  have hf := checkAll_sound hall
  obtain ⟨b, hb, hv⟩ := isOrderOf_sound hord
  have hn : order.length + 1 = d.alts.length := by rw [hv.length, hperm.length_eq]
  refine ⟨hperm, ⟨b, hb, hv⟩, ?_, ?_, ?_⟩
  · rw [← hf.length_eq, jobs_length, List.length_zip, maxAbsNoises_length, Nat.min_self, ← hn]; simp
  · have h1 := forall₂_map_eq (f := fun j => (j.1, j.2.1)) (g := fun e : Exp α => (e.iteration, e.mutated)) hf
      (fun j e hp => by rw [hp.it, hp.who])
    rw [← h1, jobs_labels]
    congr 1
    funext it
    exact zip_labels order _ (maxAbsNoises_length strat d order) it
  · intro e he
    obtain ⟨job, hjob, hg⟩ := forall₂_mem_right hf he
    obtain ⟨-, hmem⟩ := mem_jobs hjob
    obtain ⟨k, hk1, hk2⟩ := mem_zip_index hmem
    refine ⟨hg.same, hg.recorded, hg.direction, hg.strict, k, job.2.2, ?_, hk2, hg.bounded⟩
    rw [hg.who]; exact hk1

/-- with `tol = 0` the two tolerant clauses are the exact ones of `noise_recorded` and `noise_bound` -/
theorem exact_of_tol_zero {d : DM α} {e : Exp α} {g : List α} (hr : RecordedTol 0 d e) (hb : Bounded 0 g e.noise) :
    (∀ (i : Nat) (r : List α), d.alts[i]? = some e.mutated → d.cells[i]? = some r → e.dm.cells[i]? = some (addRow r e.noise)) ∧
    (e.noise.length = g.length ∧ ∀ (j : Nat) (b x : α), g[j]? = some b → e.noise[j]? = some x → |x| ≤ b) := by
  constructor
  · intro i r hi hc
    obtain ⟨r', hr', hl1, hl2, hpt⟩ := hr i r hi hc
    rw [hr']
    congr 1
    apply List.ext_getElem?
    intro j
    unfold addRow
    rw [List.getElem?_zipWith]
    by_cases hj : j < r.length
    · have h1 : j < r'.length := by omega
      have h2 : j < e.noise.length := by omega
      rw [List.getElem?_eq_getElem hj, List.getElem?_eq_getElem h1, List.getElem?_eq_getElem h2]
      have := hpt j r[j] e.noise[j] r'[j] (List.getElem?_eq_getElem hj) (List.getElem?_eq_getElem h2)
        (List.getElem?_eq_getElem h1)
      have h0 : r'[j] - (r[j] + e.noise[j]) = 0 := abs_eq_zero.mp (le_antisymm this (abs_nonneg _))
      simp [sub_eq_zero.mp h0]
    · rw [List.getElem?_eq_none (by omega), List.getElem?_eq_none (l := r) (by omega)]
  · exact ⟨hb.1, fun j b x h1 h2 => by simpa using hb.2 j b x h1 h2⟩

/-! ## non-vacuity: a concrete run (4 alternatives × 2 criteria, mixed objectives, a redraw) -/

/-- ranking: a ≻ b ≻ c ≻ d; criterion `x` maximised, `y` minimised -/
def d₀ : DM Rat := ⟨["a", "b", "c", "d"], ["x", "y"], [.max, .min], [1, 1], [[5, 1], [3, 2], [2, 4], [1, 4]]⟩
/-- draws in `[0, 1)`; the round `0, 0` for `c` is rejected (its only gap with room is on `x`) -/
def u₀ : Nat → Rat := fun i => [(1 : Rat) / 2, 1 / 4, 0, 0, 3 / 4, 1 / 8, 1 / 2, 1 / 2].getD i (1 / 2)

example : maxAbsNoises median d₀ ["b", "c", "d"] = [[1, 2], [1, 0], [1, 1]] := by decide +kernel
example : isOrderOf ["a", "b", "c", "d"] [1, 2, 3, 4] ["b", "c", "d"] = true := by decide +kernel
example : (run median 8 d₀ ["b", "c", "d"] u₀ 1).toOption.map (fun r => (r.1.map fun e => (e.mutated, e.noise, rowOf e.dm e.mutated), r.2)) =
    some ([("b", [-1 / 2, 1 / 2], [5 / 2, 5 / 2]), ("c", [-3 / 4, 0], [5 / 4, 4]), ("d", [-1 / 2, 1 / 2], [1 / 2, 9 / 2])], 8) := by
  decide +kernel
/-- the checker accepts the model's own run (so its hypotheses are satisfiable) and rejects a trace
whose noise was stored before the sign flip -/
example : (match run median 8 d₀ ["b", "c", "d"] u₀ 2 with
    | .ok (es, _) => checkTrace 0 median d₀ ["a", "b", "c", "d"] [1, 2, 3, 4] ["b", "c", "d"] 2 es
    | .error _ => false) = true := by decide +kernel
example : (match run median 8 d₀ ["b", "c", "d"] u₀ 1 with
    | .ok (es, _) => failedClauses 0 median d₀ ["a", "b", "c", "d"] [1, 2, 3, 4] ["b", "c", "d"] 1
        (es.map fun e => { e with noise := e.noise.map fun x => -x })
    | .error _ => []) = ["one_row_recorded", "direction", "one_row_recorded", "direction", "one_row_recorded", "direction"] := by
  decide +kernel
/-- the strategy hypotheses hold of the median on this instance; ties: `c` and `d` may come in either order -/
example : isOrderOf ["a", "b", "c", "d"] [1, 2, 3, 3] ["b", "d", "c"] = true ∧
    isOrderOf ["a", "b", "c", "d"] [1, 2, 3, 3] ["b", "c", "d"] = true ∧
    isOrderOf ["a", "b", "c", "d"] [1, 2, 3, 3] ["c", "b", "d"] = false := by decide +kernel
/-- F8 / K3: `b` and `c` identical.  The code as it is refuses; the pre-fix code is out of fuel for any fuel -/
def d₁ : DM Rat := ⟨["a", "b", "c", "d"], ["x", "y"], [.max, .min], [1, 1], [[5, 1], [2, 4], [2, 4], [1, 4]]⟩
example : (match run median 8 d₁ ["b", "c", "d"] u₀ 1 with | .error e => decide (e = Err.valueError) | .ok _ => false) = true := by
  decide +kernel
example : (match run_v0 median 50 d₁ ["b", "c", "d"] u₀ 1 with | .error e => decide (e = Err.outOfFuel) | .ok _ => false) = true := by
  decide +kernel
example : ∀ fuel, run_v0 median fuel d₁ ["b", "c", "d"] u₀ 1 = .error .outOfFuel :=
  run_v0_diverges_zero_gaps median median_nonneg d₁ ["b", "c", "d"] u₀ 1 (by decide) 0 "b" [0, 0] (by decide +kernel)
    (by decide +kernel) (by decide +kernel)
/-- a callable with a negative value (`mean − 1` on the `y` column of `d₀`: gaps 2, 0) is refused -/
example : maxAbsNoises (fun l => mean l - 1) d₀ ["b", "c", "d"] = [[1, 2], [1, 0], [0, 0]] ∧
    maxAbsNoises (fun l => mean l - 2) d₀ ["b", "c", "d"] = [[1, 2], [1, 0], [-1, -1]] := by decide +kernel
example : (match run (fun l => mean l - 2) 8 d₀ ["b", "c", "d"] u₀ 1 with
    | .error e => decide (e = Err.valueError) | .ok _ => false) = true := by decide +kernel
/-- missing alternatives: appended sorted with the worst rank + 1, or refused -/
example : (addMutationInfo (α := Rat) true ["a", "b", "c", "d"] ⟨"T", ["b", "d"], [2, 1]⟩ none).toOption.map
    (fun q => (q.alts, q.values, q.info.missing)) = some (["b", "d", "a", "c"], [2, 1, 3, 3], ["a", "c"]) := by decide +kernel
example : (addMutationInfo (α := Rat) false ["a", "b", "c", "d"] ⟨"T", ["b", "d"], [2, 1]⟩ none).toOption = none := by
  decide +kernel

end Skc.C19
