import Skc.Proofs.Heap
import Skc.Generated.Accessors

/-! # C02 — decision matrices and results are values: no aliasing, inputs never mutated

Property theorems only (helpers: `Skc/Proofs/Heap.lean`). Model: `Skc/Model/Heap.lean` — an explicit store,
the internal arrays of one matrix / result, the objects memoised by `lru_cache`d accessors, the references
the caller holds (its own constructor arguments and everything it was handed), and the accessor table with
the hand-out kind of every public accessor. `answer T w k` is what reading accessor `k` returns in world `w`.

The table of the code as it stands is `Skc.Generated.accessors` (rewritten from the live objects of the tree
under test on every run); `accessors_noShared` is the premise that ties the refinement theorem to that code:
an accessor that hands out its cache or a view of the internal arrays makes this file fail to build. -/
namespace Skc.C02
open Skc.Heap

/-- The constructor copies what it is given: after `DecisionMatrix(data_df, objectives, weights)` the
caller's own arrays are not roots of the matrix, nothing is memoised, every reference is allocated. -/
theorem inv_init (T : Table) (args : List Arr) : Inv T (construct args) := by
  constructor
  · intro r hr hint
    simp only [construct, List.mem_range, List.mem_map] at hr hint
    obtain ⟨a, _, rfl⟩ := hint
    omega
  · intro r _ p hp; simp [construct] at hp
  · intro r hr
    simp only [construct, List.mem_range, List.mem_map, List.length_append] at hr ⊢
    obtain ⟨a, ha, rfl⟩ := hr
    exact Nat.add_lt_add_right ha _
  · intro p hp; simp [construct] at hp
  · intro r hr
    simp only [construct, List.mem_range, List.length_append] at hr ⊢
    exact Nat.lt_add_right _ hr
  · intro p hp; simp [construct] at hp

example : Inv ⟨fun k ints => (ints.getD 0 []).map (· + k), fun _ => .memoThenCopy⟩ (construct [[5, 6], [1], [2, 2, 2]]) :=
  inv_init _ _

/-- ONE STEP. Whatever the caller does next — read any accessor that does not hand out its cache, write
anything anywhere into any object it holds, run any method on the matrix — every accessor still answers
what it answered before, and the separation invariant survives. -/
theorem answer_step (T : Table) (w : World) (op : Op) (hI : Inv T w) (hS : noShared T op) :
    (∀ k, answer T (step T w op) k = answer T w k) ∧ Inv T (step T w op) := by
  cases op with
  | write r i v => exact ⟨answer_write T w hI r i v, inv_write T w hI r i v⟩
  | call f => exact answer_call T w hI f
  | read k' =>
    cases hk : T.kind k' with
    | freshCopy => exact answer_read_fresh T w hI k' hk
    | memoThenCopy => exact answer_read_memo T w hI k' hk
    | memoShared => exact absurd hk hS

/-- the invariant holds along every history -/
theorem inv_run (T : Table) (ops : List Op) (w₀ : World) (hI : Inv T w₀) (hS : ∀ op ∈ ops, noShared T op) :
    Inv T (run T w₀ ops) := by
  induction ops generalizing w₀ with
  | nil => exact hI
  | cons op ops ih =>
    have h := answer_step T w₀ op hI (hS op (List.mem_cons_self ..))
    exact ih (step T w₀ op) h.2 (fun o ho => hS o (List.mem_cons_of_mem _ ho))

/-- REFINEMENT TO THE IMMUTABLE-VALUE SPECIFICATION, any history length: after any interleaving of reads,
writes into returned objects or into the constructor's arguments, and method calls, every accessor reports
exactly what it reported at the start. -/
theorem answer_run (T : Table) (ops : List Op) (w₀ : World) (hI : Inv T w₀) (hS : ∀ op ∈ ops, noShared T op) (k : Nat) :
    answer T (run T w₀ ops) k = answer T w₀ k := by
  induction ops generalizing w₀ with
  | nil => rfl
  | cons op ops ih =>
    have h := answer_step T w₀ op hI (hS op (List.mem_cons_self ..))
    have := ih (step T w₀ op) h.2 (fun o ho => hS o (List.mem_cons_of_mem _ ho))
    exact this.trans (h.1 k)

/-- … in particular from a freshly constructed matrix -/
theorem value_semantics (T : Table) (hT : ∀ k, T.kind k ≠ .memoShared) (args : List Arr) (ops : List Op) (k : Nat) :
    answer T (run T (construct args) ops) k = answer T (construct args) k := by
  apply answer_run T ops _ (inv_init T args)
  intro op _
  cases op <;> simp [noShared, hT]

/-! ## The code as it stands -/

/-- No public accessor of the tree under test hands out a memoised object or a view of the internal arrays
(table regenerated from the live objects by `harness/extract.py` before this file is built). -/
theorem accessors_noShared : ∀ a ∈ Skc.Generated.accessors, a.kind ≠ .memoShared := by decide

/-- the table is not empty and does contain memoising accessors: the premise is not vacuous -/
example : Skc.Generated.accessors.length ≥ 40 ∧ (Skc.Generated.accessors.any fun a => a.kind == .memoThenCopy) = true ∧
    (Skc.Generated.accessors.any fun a => a.guarded) = true := by decide

/-- No constructor (`DecisionMatrix(frame, objectives, weights)` with the caller's frame, base array and Index objects;
`mkdm` with the caller's matrix, objectives, weights and label arrays) keeps an object of the caller: `construct`, which
copies every argument, is the model of the constructors of the tree under test (same generated file). -/
theorem constructor_copies : Skc.Generated.ctorShared = [] := by decide

/-- Value semantics of `DecisionMatrix` / results for the generated table, whatever the accessors compute:
no history over the public accessors changes what any of them reports. -/
theorem value_semantics_generated (compute : Nat → List Arr → Arr) (args : List Arr) (ops : List Op) (k : Nat) :
    let T := tableOf Skc.Generated.accessors compute
    answer T (run T (construct args) ops) k = answer T (construct args) k :=
  value_semantics _ (kindOf_ne_shared _ accessors_noShared) args ops k

/-! ## The defect this property found (`dominance.dominators_of` before the repair) and two mutants -/

/-- a concrete table: accessor `k` answers the first internal array shifted by `k` -/
def demoCompute (k : Nat) (ints : List Arr) : Arr := (ints.getD 0 []).map (· + (k : Int))
def T_v0 : Table := { compute := demoCompute, kind := fun _ => .memoShared }
def T_fixed : Table := { compute := demoCompute, kind := fun _ => .memoThenCopy }
def w0 : World := construct [[5, 6]]

/-- `lru_cache` handing out the cached ndarray: read `dominators_of`, write into the result, read again —
the second answer differs from the first. The history is `corpus/C02/01-f2-dominators-of-shared.json`. -/
theorem memoShared_breaks :
    answer T_v0 (run T_v0 w0 [.read 7, .write 2 0 0]) 7 ≠ answer T_v0 w0 7 := by decide

/-- the same history (and a longer one: re-read, write into the second object too) with the repaired kind -/
theorem memoThenCopy_passes :
    answer T_fixed (run T_fixed w0 [.read 7, .write 3 0 0]) 7 = answer T_fixed w0 7 ∧
    answer T_fixed (run T_fixed w0 [.read 7, .write 3 0 0, .read 7, .write 4 1 9, .write 2 0 1]) 7 = answer T_fixed w0 7 := by
  decide

/-- the writes of the second history really land in objects the caller holds (the example is not a no-op) -/
example : (run T_fixed w0 [.read 7, .write 3 0 0]).get 3 = [0, 13] ∧ (run T_fixed w0 [.read 7]).get 3 = [12, 13] ∧
    (run T_fixed w0 [.read 7]).handed = [3, 0] := by decide

/-- a constructor that keeps the caller's array (mutant `np.array(weights, copy=False)`): the caller writes
into its own array and the matrix reports something else; with the copying constructor it does not. -/
theorem constructKeeping_breaks :
    answer T_fixed (run T_fixed (constructKeeping [0] [[5, 6]]) [.write 0 0 0]) 7 ≠ answer T_fixed (constructKeeping [0] [[5, 6]]) 7 ∧
    answer T_fixed (run T_fixed (construct [[5, 6]]) [.write 0 0 0]) 7 = answer T_fixed (construct [[5, 6]]) 7 := by
  decide

/-- the invariant is what fails for that mutant: a handed reference is a root -/
example : ¬ Inv T_fixed (constructKeeping [0] [[5, 6]]) := fun h => h.sepInt 0 (by decide) (by decide)

end Skc.C02
