import Skc.Proofs.RankValid
import Skc.Proofs.RankFin
import Skc.Proofs.Agg
import Skc.Model.Evaluate
set_option linter.unusedSectionVars false

/-! # C03 — rankings are well formed and ordered exactly by the score they report

Property theorems only (helpers live in `Skc/Proofs`). Model: `Skc/Model/Rank.lean`
(`rank_values`, `RankResult._validate_result`, kernel extraction, `evaluate` pairing). -/
namespace Skc.C03
open Skc

variable {α : Type*} [LinearOrder α]

/-- one rank per score -/
theorem denseRank_length (s : List α) : (denseRank s).length = s.length := by
  simp [denseRank]

/-- a strictly smaller score gets a strictly smaller rank, and conversely (any length, ties allowed) -/
theorem rank_lt_iff (s : List α) (i j : Nat) (hi : i < s.length) (hj : j < s.length) :
    (denseRank s)[i]'(by simpa [denseRank]) < (denseRank s)[j]'(by simpa [denseRank]) ↔ s[i] < s[j] := by
  simp only [denseRank, List.getElem_map]
  exact rankOf_lt_iff' s (List.getElem_mem hi)

/-- equal scores share a rank, different scores never do -/
theorem rank_eq_iff (s : List α) (i j : Nat) (hi : i < s.length) (hj : j < s.length) :
    (denseRank s)[i]'(by simpa [denseRank]) = (denseRank s)[j]'(by simpa [denseRank]) ↔ s[i] = s[j] := by
  simp only [denseRank, List.getElem_map]
  exact rankOf_eq_iff' s (List.getElem_mem hi) (List.getElem_mem hj)

/-- the ranks are exactly the integers `1..k`, `k` = number of distinct scores: no gaps -/
theorem rank_range (s : List α) (r : Nat) :
    r ∈ denseRank s ↔ 1 ≤ r ∧ r ≤ (distinct s).length := by
  constructor
  · intro h
    obtain ⟨x, hx, rfl⟩ := List.mem_map.mp h
    exact rankOf_bounds s hx
  · rintro ⟨h1, h2⟩
    obtain ⟨x, hx, rfl⟩ := rank_surjective s r h1 h2
    exact List.mem_map.mpr ⟨x, hx, rfl⟩

section reverse
variable {β : Type*} [Field β] [LinearOrder β] [IsStrictOrderedRing β]

/-- higher-is-better scores (`reverse=True`: WSM, WPM, TOPSIS, RatioMOORA, FMF, MultiMOORA, SIMUS):
a strictly better (larger) score gets a strictly smaller rank -/
theorem rankValues_reverse_lt_iff (s : List β) (i j : Nat) (hi : i < s.length) (hj : j < s.length) :
    (rankValues true s)[i]'(by simpa [rankValues, denseRank]) <
      (rankValues true s)[j]'(by simpa [rankValues, denseRank]) ↔ s[j] < s[i] := by
  have h := rank_lt_iff (s.map (- ·)) i j (by simpa) (by simpa)
  simp only [List.getElem_map, neg_lt_neg_iff] at h
  simpa [rankValues] using h

/-- lower-is-better scores (`reverse=False`: ReferencePointMOORA, ELECTRE2) -/
theorem rankValues_forward_lt_iff (s : List β) (i j : Nat) (hi : i < s.length) (hj : j < s.length) :
    (rankValues false s)[i]'(by simpa [rankValues, denseRank]) <
      (rankValues false s)[j]'(by simpa [rankValues, denseRank]) ↔ s[i] < s[j] := by
  simpa [rankValues] using rank_lt_iff s i j hi hj

theorem rankValues_eq_iff (rev : Bool) (s : List β) (i j : Nat) (hi : i < s.length) (hj : j < s.length) :
    (rankValues rev s)[i]'(by cases rev <;> simpa [rankValues, denseRank]) =
      (rankValues rev s)[j]'(by cases rev <;> simpa [rankValues, denseRank]) ↔ s[i] = s[j] := by
  cases rev
  · simpa [rankValues] using rank_eq_iff s i j hi hj
  · have h := rank_eq_iff (s.map (- ·)) i j (by simpa) (by simpa)
    simp only [List.getElem_map, neg_inj] at h
    simpa [rankValues] using h
end reverse

/-- every dense ranking passes `RankResult` validation … -/
theorem validRank_denseRank (s : List α) : validRank ((denseRank s).map (fun (r : Nat) => (r : Int))) = true := by
  rw [validRank_iff']
  intro r
  have hlen : (distinct ((denseRank s).map (fun (r : Nat) => (r : Int)))).length = (distinct s).length := by
    rw [length_distinct, length_distinct]
    have : ((denseRank s).map (fun (r : Nat) => (r : Int))).toFinset =
        (denseRank s).toFinset.map ⟨fun (r : Nat) => (r : Int), Int.ofNat_injective⟩ := by
      ext x; simp
    rw [this, Finset.card_map]
    -- number of distinct ranks = number of distinct scores
    have : (denseRank s).toFinset = (Finset.Icc 1 (distinct s).length) := by
      ext q; simp only [List.mem_toFinset, Finset.mem_Icc]; exact rank_range s q
    rw [this, length_distinct]; simp
  rw [hlen]
  constructor
  · intro h
    obtain ⟨q, hq, rfl⟩ := List.mem_map.mp h
    have := (rank_range s q).mp hq
    omega
  · rintro ⟨h1, h2⟩
    refine List.mem_map.mpr ⟨r.toNat, (rank_range s r.toNat).mpr ⟨by omega, by omega⟩, by omega⟩

/-- … and validation accepts *exactly* the vectors whose value set is `{1..k}`: whatever a method
(also one made with `mkagg`) returns, a constructed `RankResult` has gap-free ranks from 1 -/
theorem validRank_iff (v : List Int) :
    validRank v = true ↔ ∀ r : Int, r ∈ v ↔ (1 ≤ r ∧ r ≤ ((distinct v).length : Int)) :=
  validRank_iff' v

/-- the kernel has one boolean per alternative -/
theorem kernel_length (out : List (List Bool)) (n : Nat) : (kernelOf out n).length = n := by
  simp [kernelOf]

/-- alternative `k` is in the kernel iff no alternative outranks it in the reported relation -/
theorem kernel_iff (out : List (List Bool)) (n k : Nat) (hk : k < n) :
    (kernelOf out n)[k]'(by simp [kernelOf, hk]) = true ↔ ∀ r ∈ out, r.getD k false = false :=
  kernelOf_getElem out n k hk

/-- `evaluate` names exactly the input's alternatives, in input order -/
theorem evaluate_alts {β} (alts : List String) (values : List β) : (mkResult alts values).alts = alts := rfl

/-! ### the methods end to end (`Skc/Model/Evaluate.lean`: guards → kernel → `rank_values` → result) -/
section methods
open Skc.Eval Skc.Agg
variable {m n : ℕ} [NeZero m] [NeZero n]

/-- whenever a closed-form method (WSM, WPM, RatioMOORA, ReferencePointMOORA, FMF, TOPSIS with any of
the five metrics) returns a result, it names exactly the input's alternatives in input order, has
one rank per alternative, and its ranks are the dense ranking of the score it reports -/
theorem evaluate_ok (meth : Method) (alts : List String) (A : Mat m n ℝ) (o : Vec n Obj) (w : Vec n ℝ) (r : Out m ℝ)
    (h : evaluate meth alts A o w = .ok r) :
    r.alts = alts ∧ r.score = scoreOf meth A o w ∧ r.rank = rankValues meth.rev (Vec.toList r.score) ∧ r.rank.length = m := by
  unfold evaluate at h
  split at h
  · cases h
  · cases h
    refine ⟨rfl, rfl, rfl, ?_⟩
    cases meth <;> simp [rankValues, denseRank, Vec.toList, Method.rev]

/-- the ranks are ordered exactly by the reported score: strictly better score ⇔ strictly smaller
rank (higher is better, except ReferencePointMOORA), equal scores ⇔ equal rank -/
theorem evaluate_rank_order (meth : Method) (alts : List String) (A : Mat m n ℝ) (o : Vec n Obj) (w : Vec n ℝ) (r : Out m ℝ)
    (h : evaluate meth alts A o w = .ok r) (a b : Fin m) :
    (rankFin meth.rev r.score a < rankFin meth.rev r.score b ↔
      (if meth.rev then r.score b < r.score a else r.score a < r.score b)) ∧
    (rankFin meth.rev r.score a = rankFin meth.rev r.score b ↔ r.score a = r.score b) := by
  constructor
  · cases hr : meth.rev
    · simpa using rankFin_false_lt_iff r.score a b
    · simpa using rankFin_true_lt_iff r.score a b
  · constructor
    · intro heq
      by_contra hne
      rcases lt_or_gt_of_ne hne with hlt | hlt
      · cases hr : meth.rev
        · rw [hr] at heq; have := (rankFin_false_lt_iff r.score a b).mpr hlt; omega
        · rw [hr] at heq; have := (rankFin_true_lt_iff r.score b a).mpr hlt; omega
      · cases hr : meth.rev
        · rw [hr] at heq; have := (rankFin_false_lt_iff r.score b a).mpr hlt; omega
        · rw [hr] at heq; have := (rankFin_true_lt_iff r.score a b).mpr hlt; omega
    · exact rankFin_eq_of_eq meth.rev r.score a b

/-- `rankFin` is entry `i` of the rank vector the result carries -/
theorem evaluate_rank_entry (meth : Method) (alts : List String) (A : Mat m n ℝ) (o : Vec n Obj) (w : Vec n ℝ) (r : Out m ℝ)
    (h : evaluate meth alts A o w = .ok r) (i : Fin m) :
    r.rank.getD i.val 0 = rankFin meth.rev r.score i := by
  obtain ⟨_, _, hrank, hlen⟩ := evaluate_ok meth alts A o w r h
  unfold rankFin
  have hi : i.val < r.rank.length := by rw [hlen]; exact i.isLt
  rw [List.getD_eq_getElem?_getD, List.getElem?_eq_getElem hi]
  simp only [Option.getD_some, hrank, Vec.toList]

/-- the ranks of a returned result pass `RankResult` validation: the integers `1..k` without gaps -/
theorem evaluate_wellformed (meth : Method) (alts : List String) (A : Mat m n ℝ) (o : Vec n Obj) (w : Vec n ℝ) (r : Out m ℝ)
    (h : evaluate meth alts A o w = .ok r) : validRank (r.rank.map fun (k : ℕ) => (k : ℤ)) = true := by
  obtain ⟨_, _, hrank, _⟩ := evaluate_ok meth alts A o w r h
  rw [hrank]
  unfold rankValues
  split <;> exact validRank_denseRank _

/-- a method either raises `ValueError` or returns a result: nothing else -/
theorem evaluate_total (meth : Method) (alts : List String) (A : Mat m n ℝ) (o : Vec n Obj) (w : Vec n ℝ) :
    (evaluate meth alts A o w = .error .valueError ∧ refuses meth A o w = true) ∨
    ∃ r, evaluate meth alts A o w = .ok r ∧ refuses meth A o w = false := by
  unfold evaluate
  by_cases hr : refuses meth A o w = true
  · left; simp [hr]
  · right; exact ⟨_, by simp only [hr, Bool.false_eq_true, if_false]; rfl, by simpa using hr⟩

/-- ELECTRE1 end to end: the result names the input's alternatives, carries one boolean per
alternative, and alternative `k` is in the kernel exactly when no alternative outranks it in the
relation the result itself reports -/
theorem electre1_result {α : Type} [Field α] [LinearOrder α] [IsStrictOrderedRing α]
    (alts : List String) (A : Mat m n α) (o : Vec n Obj) (w : Vec n α) (p q : α) (k : Fin m) :
    (evaluateElectre1 alts A o w p q).alts = alts ∧
    ((evaluateElectre1 alts A o w p q).kernel k = true ↔ ∀ a, (evaluateElectre1 alts A o w p q).outrank a k = false) := by
  refine ⟨rfl, ?_⟩
  simp only [evaluateElectre1, Skc.Electre.electre1Kernel]
  rw [Bool.not_eq_true', ← Bool.not_eq_true, anyFin_iff]
  simp
end methods

/-! non-vacuity: concrete instances -/
example : denseRank [3, 1, 3, 2] = [3, 1, 3, 2] := by decide
example : rankValues true ([5, 7, 5] : List Int) = [2, 1, 2] := by decide
example : validRank [2, 1, 1] = true ∧ validRank [1, 3, 3] = false ∧ validRank [0, 1] = false := by decide
example : kernelOf [[false, true, false], [false, false, false], [false, true, false]] 3 = [true, false, true] := by decide

end Skc.C03
