import Skc.Proofs.RankValid
set_option linter.unusedSectionVars false

/-! # C03 — rankings are well formed and ordered exactly by the score they report

Property theorems only (helpers live in `Skc/Proofs`). Model: `Skc/Model/Rank.lean`
(`rank_values`, `RankResult._validate_result`, kernel extraction, `evaluate` pairing). -/
namespace Skc.C03
open Skc

variable {α : Type*} [LinearOrder α]

/-- one rank per score -/
theorem denseRank_length (s : List α) : (denseRank s).length = s.length := by
  simp [denseRank]

/-- a strictly smaller score gets a strictly smaller rank, and conversely (any length, ties allowed) -/
theorem rank_lt_iff (s : List α) (i j : Nat) (hi : i < s.length) (hj : j < s.length) :
    (denseRank s)[i]'(by simpa [denseRank]) < (denseRank s)[j]'(by simpa [denseRank]) ↔ s[i] < s[j] := by
  simp only [denseRank, List.getElem_map]
  exact rankOf_lt_iff' s (List.getElem_mem hi)

/-- equal scores share a rank, different scores never do -/
theorem rank_eq_iff (s : List α) (i j : Nat) (hi : i < s.length) (hj : j < s.length) :
    (denseRank s)[i]'(by simpa [denseRank]) = (denseRank s)[j]'(by simpa [denseRank]) ↔ s[i] = s[j] := by
  simp only [denseRank, List.getElem_map]
  exact rankOf_eq_iff' s (List.getElem_mem hi) (List.getElem_mem hj)

/-- the ranks are exactly the integers `1..k`, `k` = number of distinct scores: no gaps -/
theorem rank_range (s : List α) (r : Nat) :
    r ∈ denseRank s ↔ 1 ≤ r ∧ r ≤ (distinct s).length := by
  constructor
  · intro h
    obtain ⟨x, hx, rfl⟩ := List.mem_map.mp h
    exact rankOf_bounds s hx
  · rintro ⟨h1, h2⟩
    obtain ⟨x, hx, rfl⟩ := rank_surjective s r h1 h2
    exact List.mem_map.mpr ⟨x, hx, rfl⟩

section reverse
variable {β : Type*} [Field β] [LinearOrder β] [IsStrictOrderedRing β]

/-- higher-is-better scores (`reverse=True`: WSM, WPM, TOPSIS, RatioMOORA, FMF, MultiMOORA, SIMUS):
a strictly better (larger) score gets a strictly smaller rank -/
theorem rankValues_reverse_lt_iff (s : List β) (i j : Nat) (hi : i < s.length) (hj : j < s.length) :
    (rankValues true s)[i]'(by simpa [rankValues, denseRank]) <
      (rankValues true s)[j]'(by simpa [rankValues, denseRank]) ↔ s[j] < s[i] := by
  have h := rank_lt_iff (s.map (- ·)) i j (by simpa) (by simpa)
  simp only [List.getElem_map, neg_lt_neg_iff] at h
  simpa [rankValues] using h

/-- lower-is-better scores (`reverse=False`: ReferencePointMOORA, ELECTRE2) -/
theorem rankValues_forward_lt_iff (s : List β) (i j : Nat) (hi : i < s.length) (hj : j < s.length) :
    (rankValues false s)[i]'(by simpa [rankValues, denseRank]) <
      (rankValues false s)[j]'(by simpa [rankValues, denseRank]) ↔ s[i] < s[j] := by
  simpa [rankValues] using rank_lt_iff s i j hi hj

theorem rankValues_eq_iff (rev : Bool) (s : List β) (i j : Nat) (hi : i < s.length) (hj : j < s.length) :
    (rankValues rev s)[i]'(by cases rev <;> simpa [rankValues, denseRank]) =
      (rankValues rev s)[j]'(by cases rev <;> simpa [rankValues, denseRank]) ↔ s[i] = s[j] := by
  cases rev
  · simpa [rankValues] using rank_eq_iff s i j hi hj
  · have h := rank_eq_iff (s.map (- ·)) i j (by simpa) (by simpa)
    simp only [List.getElem_map, neg_inj] at h
    simpa [rankValues] using h
end reverse

/-- every dense ranking passes `RankResult` validation … -/
theorem validRank_denseRank (s : List α) : validRank ((denseRank s).map (fun (r : Nat) => (r : Int))) = true := by
  rw [validRank_iff']
  intro r
  have hlen : (distinct ((denseRank s).map (fun (r : Nat) => (r : Int)))).length = (distinct s).length := by
    rw [length_distinct, length_distinct]
    have : ((denseRank s).map (fun (r : Nat) => (r : Int))).toFinset =
        (denseRank s).toFinset.map ⟨fun (r : Nat) => (r : Int), Int.ofNat_injective⟩ := by
      ext x; simp
    rw [this, Finset.card_map]
    -- number of distinct ranks = number of distinct scores
    have : (denseRank s).toFinset = (Finset.Icc 1 (distinct s).length) := by
      ext q; simp only [List.mem_toFinset, Finset.mem_Icc]; exact rank_range s q
    rw [this, length_distinct]; simp
  rw [hlen]
  constructor
  · intro h
    obtain ⟨q, hq, rfl⟩ := List.mem_map.mp h
    have := (rank_range s q).mp hq
    omega
  · rintro ⟨h1, h2⟩
    refine List.mem_map.mpr ⟨r.toNat, (rank_range s r.toNat).mpr ⟨by omega, by omega⟩, by omega⟩

/-- … and validation accepts *exactly* the vectors whose value set is `{1..k}`: whatever a method
(also one made with `mkagg`) returns, a constructed `RankResult` has gap-free ranks from 1 -/
theorem validRank_iff (v : List Int) :
    validRank v = true ↔ ∀ r : Int, r ∈ v ↔ (1 ≤ r ∧ r ≤ ((distinct v).length : Int)) :=
  validRank_iff' v

/-- the kernel has one boolean per alternative -/
theorem kernel_length (out : List (List Bool)) (n : Nat) : (kernelOf out n).length = n := by
  simp [kernelOf]

/-- alternative `k` is in the kernel iff no alternative outranks it in the reported relation -/
theorem kernel_iff (out : List (List Bool)) (n k : Nat) (hk : k < n) :
    (kernelOf out n)[k]'(by simp [kernelOf, hk]) = true ↔ ∀ r ∈ out, r.getD k false = false :=
  kernelOf_getElem out n k hk

/-- `evaluate` names exactly the input's alternatives, in input order -/
theorem evaluate_alts {β} (alts : List String) (values : List β) : (mkResult alts values).alts = alts := rfl

/-! non-vacuity: concrete instances -/
example : denseRank [3, 1, 3, 2] = [3, 1, 3, 2] := by decide
example : rankValues true ([5, 7, 5] : List Int) = [2, 1, 2] := by decide
example : validRank [2, 1, 1] = true ∧ validRank [1, 3, 3] = false ∧ validRank [0, 1] = false := by decide
example : kernelOf [[false, true, false], [false, false, false], [false, true, false]] 3 = [true, false, true] := by decide

end Skc.C03
