import Skc.Proofs.Stateless
import Skc.Generated.SelfWrites

/-! # C20 — methods are stateless and deterministic across calls

Property theorems only.  Model: `Skc/Model/Stateless.lean` (a method object = constructor parameters +
slots; one call = `step : Obj → DM → Obj × Out`, `Out` includes failures; `runHistory` feeds a sequence of
matrices to one object).  Table: `Skc/Generated/SelfWrites.lean`, regenerated on every run from the source
text of the tree under test by `harness/extract.py::self_writes`.

How the pieces fit: `stateless_history` says that an object whose calls never change it answers a probe
matrix identically wherever the probe sits in a history (whatever the other matrices are, also when
earlier calls failed).  `no_self_writes` says the extracted table of stores outside constructors is empty
for the tree under test, and `no_writes_premise` turns that into the premise of `stateless_history` for
a call that performs exactly the listed stores (`code_stateless_history` composes the two).
What is trusted: the scanner's completeness (its rules are printed in the header of the generated file;
`harness/props/c20.py` compares `vars(obj)`, class attributes and module-level containers before and after
every real call, and real histories bit for bit). -/
namespace Skc.C20
open Skc.Stateless

variable {P S D O : Type}

/-- an object whose calls never change it: after any history it is the object it was … -/
theorem run_object_unchanged (step : Step P S D O) (h : ∀ o d, (step o d).1 = o)
    (o₀ : Obj P S) (hist : List D) : objAfter step o₀ hist = o₀ := by
  induction hist with
  | nil => rfl
  | cons d ds ih => simp only [objAfter, runHistory, h] at ih ⊢; exact ih

/-- … and the output of every call of the history is the pure reading of that call on the object as
built: nothing of what was processed before (or of how it ended) shows -/
theorem outputs_eq_map (step : Step P S D O) (h : ∀ o d, (step o d).1 = o)
    (o₀ : Obj P S) (hist : List D) : outputs step o₀ hist = hist.map (out₀ step o₀) := by
  induction hist with
  | nil => rfl
  | cons d ds ih => simp only [outputs, runHistory, h, List.map_cons, out₀] at ih ⊢; rw [ih]

/-- **Statelessness across histories.**  If no call changes the object, then for every history `hist`
(any matrices, any shapes, including ones on which the call fails), every probe matrix and every
position `k ≤ hist.length`, the output the probe gets as call number `k` is `(step o₀ probe).2`: the
same at every position and in every history, equal to what a freshly built object returns. -/
theorem stateless_history (step : Step P S D O) (h : ∀ o d, (step o d).1 = o)
    (o₀ : Obj P S) (hist : List D) (probe : D) (k : Nat) (hk : k ≤ hist.length) :
    probeOut step o₀ hist probe k = some (out₀ step o₀ probe) :=
  probeOut_of_map step o₀ (out₀ step o₀) (outputs_eq_map step h o₀) hist probe k hk

/-- the same with failures spelled out: outputs are `Except err res`; whatever earlier calls returned —
here: at least one of them *raised* — the probe's output (a result or an error) is the pure one -/
theorem stateless_history_after_error {E R : Type} (step : Step P S D (Except E R))
    (h : ∀ o d, (step o d).1 = o) (o₀ : Obj P S) (hist : List D) (probe : D) (k : Nat) (hk : k ≤ hist.length)
    (_raised : ∃ i e, i < k ∧ (outputs step o₀ (insertAt k probe hist))[i]? = some (Except.error e)) :
    probeOut step o₀ hist probe k = some (out₀ step o₀ probe) :=
  stateless_history step h o₀ hist probe k hk

/-- **Same parameters, same behaviour.**  Two objects with equal parameters and equal (empty) slots —
two objects built by the same constructor call — give the same outputs, call by call, on every history,
and end equal.  (No premise on `step`: a call is a function of the object and the matrix.) -/
theorem same_params_same_behaviour (step : Step P S D O) (o₁ o₂ : Obj P S)
    (hp : o₁.params = o₂.params) (hs : o₁.slots = o₂.slots) (hist : List D) :
    outputs step o₁ hist = outputs step o₂ hist ∧ objAfter step o₁ hist = objAfter step o₂ hist := by
  have : o₁ = o₂ := by cases o₁; cases o₂; simp_all
  subst this; exact ⟨rfl, rfl⟩

/-- … and for objects whose calls do not change them even the two histories may differ: the probe gets
the same output from either object, wherever it sits in either history -/
theorem same_params_any_histories (step : Step P S D O) (h : ∀ o d, (step o d).1 = o)
    (o₁ o₂ : Obj P S) (hp : o₁.params = o₂.params) (hs : o₁.slots = o₂.slots)
    (hist₁ hist₂ : List D) (probe : D) (k₁ k₂ : Nat) (h₁ : k₁ ≤ hist₁.length) (h₂ : k₂ ≤ hist₂.length) :
    probeOut step o₁ hist₁ probe k₁ = probeOut step o₂ hist₂ probe k₂ := by
  have : o₁ = o₂ := by cases o₁; cases o₂; simp_all
  subst this
  rw [stateless_history step h o₁ hist₁ probe k₁ h₁, stateless_history step h o₁ hist₂ probe k₂ h₂]

/-- **The table is empty.**  On the tree under test no statement outside `__init__` / `__new__` /
`__init_subclass__` / `__set_name__` stores into instance, class, captured or module state of a method
object (attribute / item assignment, `setattr`, `__dict__` updates, container mutation, estimator fit,
random-generator draw on a slot or an alias of one, `global` / `nonlocal`, memoising decorators).
Under the scanner's completeness (rules in the header of `Skc/Generated/SelfWrites.lean`) this *is* the
premise `∀ o d, (step o d).1 = o` of `stateless_history` for the code as it stands — see
`no_writes_premise`.  A store introduced later makes this theorem fail to build, whether or not any
output changes. -/
theorem no_self_writes : Skc.Generated.selfWrites = [] := by decide

/-- a call that performs exactly one store per row of the extracted table leaves the object as it was -/
theorem no_writes_premise (ws : List (SlotWrite P S D)) (hws : ws.length = Skc.Generated.selfWrites.length)
    (body : P → S → D → O) : ∀ o d, (callWith ws body o d).1 = o := by
  have : ws = [] := by
    rw [no_self_writes] at hws
    exact List.eq_nil_of_length_eq_zero hws
  subst this
  intro o d; rfl

/-- the two together: the code as it stands (its stores are the rows of the table, its result any
function `body` of parameters, slots and matrix) answers a probe identically at every position of every
history -/
theorem code_stateless_history (ws : List (SlotWrite P S D)) (hws : ws.length = Skc.Generated.selfWrites.length)
    (body : P → S → D → O) (o₀ : Obj P S) (hist : List D) (probe : D) (k : Nat) (hk : k ≤ hist.length) :
    probeOut (callWith ws body) o₀ hist probe k = some (body o₀.params o₀.slots probe) :=
  stateless_history (callWith ws body) (no_writes_premise ws hws body) o₀ hist probe k hk

/-- why a *harmless* store (a call counter, a log) breaks `no_self_writes` but produces no failing
input: if calls keep the parameters and the output never reads the slots, histories still agree -/
theorem harmless_writes_history (step : Step P S D O)
    (hp : ∀ o d, (step o d).1.params = o.params)
    (hblind : ∀ p s s' d, (step ⟨p, s⟩ d).2 = (step ⟨p, s'⟩ d).2)
    (o₀ : Obj P S) (hist : List D) (probe : D) (k : Nat) (hk : k ≤ hist.length) :
    probeOut step o₀ hist probe k = some (out₀ step o₀ probe) := by
  have key : ∀ (l : List D) (o : Obj P S), o.params = o₀.params → outputs step o l = l.map (out₀ step o₀) := by
    intro l
    induction l with
    | nil => intro o _; rfl
    | cons d ds ih =>
      intro o ho
      have h1 : (step o d).2 = (step o₀ d).2 := by
        cases o with | mk p s => cases o₀ with | mk p₀ s₀ => simp only at ho; subst ho; exact hblind p s s₀ d
      have h2 := ih (step o d).1 (by rw [hp, ho])
      simp only [outputs, runHistory, List.map_cons, out₀] at h2 ⊢
      rw [h1, h2]
  exact probeOut_of_map step o₀ (out₀ step o₀) (fun l => key l o₀ rfl) hist probe k hk

/-! ## non-vacuity

The stateless toy scaler satisfies the premise; a history with a failing call in front of the probe; the
generated scan is not empty-handed (it did find the method classes, including the `mkagg` /
`mktransformer` templates). -/
example : ∀ o d, (statelessStep o d).1 = o := by
  intro o d; unfold statelessStep; split <;> rfl

example : outputs statelessStep toy₀ [[], [5, 7], [1, 2], [9]] =
    [.error .valueError, .ok [0, 2], .ok [0, 1], .ok [0]] := by decide

example : probeOut statelessStep toy₀ [[], [5, 7]] [1, 2] 0 = some (.ok [0, 1]) ∧
    probeOut statelessStep toy₀ [[], [5, 7]] [1, 2] 1 = some (.ok [0, 1]) ∧
    probeOut statelessStep toy₀ [[], [5, 7]] [1, 2] 2 = some (.ok [0, 1]) := by decide

example : ∃ i e, i < 2 ∧ (outputs statelessStep toy₀ (insertAt 2 [1, 2] [[], [5, 7]]))[i]? = some (Except.error e) :=
  ⟨0, .valueError, by decide, by decide⟩

example : 50 ≤ Skc.Generated.methodClasses.length ∧ 200 ≤ Skc.Generated.scannedFrames := by decide

example : (Skc.Generated.methodClasses.map (·.1)).contains "_AutoAGG" = true ∧
    (Skc.Generated.methodClasses.map (·.1)).contains "_AutoTransformer" = true := by decide

/-! ## the premise is necessary: a method that caches its first fitted scaler

`cachingStep` keeps the scaler fitted by the first successful call in a slot and reuses it.  It changes
the object, and the conclusion of `stateless_history` FAILS for it: the probe `[1, 2]` returns `[0, 1]` as
the first call and `[-4, -3]` after the matrix `[5, 7]` has been processed. -/
theorem caching_changes_object : ¬ ∀ o d, (cachingStep o d).1 = o := by
  intro h
  exact absurd (h toy₀ [5, 7]) (by decide)

theorem caching_breaks_history :
    probeOut cachingStep toy₀ [[5, 7]] [1, 2] 0 = some (.ok [0, 1]) ∧
    probeOut cachingStep toy₀ [[5, 7]] [1, 2] 1 = some (.ok [-4, -3]) ∧
    out₀ cachingStep toy₀ [1, 2] = .ok [0, 1] := by decide

theorem premise_necessary :
    ¬ ∀ (hist : List (List Int)) (probe : List Int) (k : Nat), k ≤ hist.length →
      probeOut cachingStep toy₀ hist probe k = some (out₀ cachingStep toy₀ probe) := by
  intro h
  exact absurd (h [[5, 7]] [1, 2] 1 (by decide)) (by decide)

/-- a failing call stores nothing: after `[]` (refused) the cache is still empty, after `[5, 7]` it is not -/
example : (objAfter cachingStep toy₀ [[]]).slots = none ∧ (objAfter cachingStep toy₀ [[], [5, 7]]).slots = some 5 := by
  decide

/-! the harmless store: `countingStep` changes the object on every successful call (so a table listing
its store would break `no_self_writes`), yet `harmless_writes_history` applies and no history can tell -/
example : ¬ ∀ o d, (countingStep o d).1 = o := by
  intro h
  exact absurd (h toy₀ [5, 7]) (by decide)

example (hist : List (List Int)) (probe : List Int) (k : Nat) (hk : k ≤ hist.length) :
    probeOut countingStep toy₀ hist probe k = some (out₀ countingStep toy₀ probe) := by
  refine harmless_writes_history countingStep ?_ ?_ toy₀ hist probe k hk
  · intro o d; unfold countingStep; split <;> rfl
  · intro p s s' d; unfold countingStep; split <;> rfl

end Skc.C20
