import Skc.Proofs.Untied

/-! # C18 — untied ranks refine the ranking; comparators align by alternative name

Property theorems only (helpers live in `Skc/Proofs/Untied.lean`).  Model: `Skc/Model/Untied.lean`
(`RankResult.has_ties_`, `untied_rank_`, `to_series(untied=)`; `RanksComparator.to_dataframe`,
and the shape of `corr / cov / r2_score / distance`).

A ranking is the list `r` of rank numbers in listing order (`r[i]` = rank of the alternative listed
`i`-th, lower is better).  `ValidRanking r` is what `RankResult` accepts (C03): the set of values
is `{1..k}` for some `k`.  All statements are for rankings of any length. -/
namespace Skc.C18
open Skc.Untied List

/-- one untied rank per alternative -/
theorem untied_length (r : List Nat) : (untied r).length = r.length :=
  Skc.Untied.untied_length r

/-- `has_ties_` is true exactly when two alternatives share a rank -/
theorem hasTies_iff (r : List Nat) :
    hasTies r = true ↔ ∃ (i k : Nat) (_ : i < k) (hk : k < r.length), r[i] = r[k] := by
  rw [hasTies_eq_true_iff, List.Nodup, pairwise_iff_getElem]
  constructor
  · intro h
    by_contra hc
    apply h
    intro i k hi hk hik heq
    exact hc ⟨i, k, hik, hk, heq⟩
  · rintro ⟨i, k, hik, hk, heq⟩ h
    exact h i k (by omega) hk hik heq

/-- the code (`argsort(argsort(rank, stable), stable) + 1`, both argsorts modelled as stable insertion
sorts of positions) computes, at every position, the closed form
`#{k | r k < r i} + #{k < i | r k = r i} + 1` — for every list, with or without ties -/
theorem argsort_argsort_eq_closed_form (r : List Nat) : untiedSorted r = untiedClosed r :=
  untiedSorted_eq_closed r

/-- `untied_rank_` (including its `if has_ties_ … else rank_` shortcut) is the closed form on every
ranking `RankResult` accepts -/
theorem untied_code_eq_closed_form (r : List Nat) (hv : ValidRanking r) : untied r = untiedClosed r := by
  unfold untied
  split
  · exact untiedSorted_eq_closed r
  · rename_i h
    have hn : r.Nodup := (hasTies_eq_false_iff r).mp (by simpa using h)
    exact (untiedClosed_eq_self_of_perm (perm_range'_of_valid_nodup hv hn)).symm

/-- entry by entry: the untied rank of the alternative listed `i`-th -/
theorem untied_getElem (r : List Nat) (hv : ValidRanking r) (i : Nat) (hi : i < r.length) :
    (untied r)[i]'(by rw [untied_length]; exact hi) = untiedAt r i := by
  have h := untied_code_eq_closed_form r hv
  simp [h, untiedClosed]

/-- the untied ranking is a permutation of `1..n` -/
theorem untied_perm (r : List Nat) (hv : ValidRanking r) : untied r ~ range' 1 r.length := by
  unfold untied
  split
  · exact untiedSorted_perm r
  · rename_i h
    exact perm_range'_of_valid_nodup hv ((hasTies_eq_false_iff r).mp (by simpa using h))

/-- every strict preference is kept: an alternative ranked strictly ahead of another stays ahead -/
theorem untied_strict (r : List Nat) (i k : Nat) (hi : i < r.length) (hk : k < r.length)
    (h : r[i] < r[k]) :
    (untied r)[i]'(by rw [untied_length]; exact hi) < (untied r)[k]'(by rw [untied_length]; exact hk) := by
  by_cases ht : hasTies r = true
  · simp only [untied, ht, if_true]
    exact untiedSorted_lt hi hk (before_of_getElem hi hk (Or.inl h))
  · simp only [untied, ht]
    simpa using h

/-- ties are broken by order of appearance: of two alternatives sharing a rank, the one listed
first gets the smaller untied rank -/
theorem untied_ties_by_position (r : List Nat) (i k : Nat) (hik : i < k) (hk : k < r.length)
    (h : r[i] = r[k]) :
    (untied r)[i]'(by rw [untied_length]; omega) < (untied r)[k]'(by rw [untied_length]; exact hk) := by
  have ht : hasTies r = true := (hasTies_iff r).mpr ⟨i, k, hik, hk, h⟩
  simp only [untied, ht, if_true]
  exact untiedSorted_lt (by omega) hk (before_of_getElem (by omega) hk (Or.inr ⟨h, hik⟩))

/-- without ties the untied ranking is the original (the code returns `rank_` itself) … -/
theorem untied_eq_of_noties (r : List Nat) (h : hasTies r = false) : untied r = r := by
  simp [untied, h]

/-- … and the shortcut is not a special case: on a ranking without ties (a permutation of `1..n`)
the double argsort would have returned the original as well -/
theorem untied_eq_of_noties_sorted_branch (r : List Nat) (hv : ValidRanking r) (h : hasTies r = false) :
    untiedSorted r = r := by
  rw [untiedSorted_eq_closed]
  exact untiedClosed_eq_self_of_perm (perm_range'_of_valid_nodup hv ((hasTies_eq_false_iff r).mp h))

/-- the code before the repair (`argsort(rank_) + 1`): for `[2, 1, 1]` it answered `[2, 3, 1]` — the
worst alternative (listed first) second, ahead of the second-listed one that shares the best rank;
a strict preference of the original is reversed -/
theorem untied_v0_wrong :
    untied_v0 [2, 1, 1] = [2, 3, 1] ∧
      ¬ (∀ i < 3, ∀ k < 3, [2, 1, 1].getD i 0 < [2, 1, 1].getD k 0 →
          (untied_v0 [2, 1, 1]).getD i 0 < (untied_v0 [2, 1, 1]).getD k 0) := by
  decide

/-- `to_dataframe()[name][alt]` is the rank that the ranking called `name` gives to `alt`, whatever
the order in which each ranking lists the alternatives: for any comparator with distinct names,
any of its rankings `R` (alternatives listed in any order, none twice) and any position `i`,
the cell (row `R.alts[i]`, column `R.name`) is `R.values[i]` -/
theorem toFrame_lookup (rs : List Ranking) (hn : (rs.map (·.name)).Nodup) (R : Ranking) (hR : R ∈ rs)
    (hnd : R.alts.Nodup) (hl : R.alts.length = R.values.length) (i : Nat) (hi : i < R.alts.length) :
    (toFrame rs).at R.name R.alts[i] = some (R.values[i]'(by omega)) := by
  rw [toFrame_at hn hR (mem_frameRows hR (getElem_mem hi))]
  exact rankOf_getElem hnd hl i hi

/-- the same with `untied=True`: the cell is the untied rank of the alternative computed in that
ranking's own listing order -/
theorem toFrame_lookup_untied (rs : List Ranking) (hn : (rs.map (·.name)).Nodup) (R : Ranking) (hR : R ∈ rs)
    (hnd : R.alts.Nodup) (hl : R.alts.length = R.values.length) (i : Nat) (hi : i < R.alts.length) :
    (toDataFrame rs true).at R.name R.alts[i]
      = some ((untied R.values)[i]'(by rw [untied_length]; omega)) := by
  have hn' : ((rs.map Ranking.untie).map (·.name)).Nodup := by
    have : (rs.map Ranking.untie).map (·.name) = rs.map (·.name) := by
      rw [map_map]; apply map_congr_left; intro a _; rfl
    rw [this]; exact hn
  have hR' : R.untie ∈ rs.map Ranking.untie := mem_map.mpr ⟨R, hR, rfl⟩
  have := toFrame_lookup (rs.map Ranking.untie) hn' R.untie hR' hnd
    (by simp only [Ranking.untie, untied_length]; exact hl) i hi
  simpa [toDataFrame, Ranking.untie] using this

/-- listing order does not matter: two rankings that pair the same alternatives with the same ranks
answer every label lookup alike -/
theorem rankOf_listing_order (R S : Ranking) (hnd : R.alts.Nodup) (hl : R.alts.length = R.values.length)
    (hp : R.cells ~ S.cells) (a : String) :
    R.rankOf a = S.rankOf a := by
  have hmapR : R.cells.map Prod.fst = R.alts := by
    unfold Ranking.cells; rw [map_fst_zip (by omega)]
  exact lookup_perm (hmapR ▸ hnd) hp a

/-- the rows of the frame are the alternatives of the rankings, each once -/
theorem toFrame_rows (r0 : Ranking) (t : List Ranking) (h0 : r0.alts.Nodup) :
    (toFrame (r0 :: t)).rows.Nodup ∧ ∀ a, a ∈ (toFrame (r0 :: t)).rows ↔ ∃ R ∈ r0 :: t, a ∈ R.alts :=
  ⟨frameRows_nodup h0, fun a => by
    show a ∈ frameRows (r0 :: t) ↔ _
    exact mem_frameRows_iff⟩

/-- the frame has one column per ranking, named after it, in the comparator's order, and is rectangular -/
theorem toFrame_shape (rs : List Ranking) :
    (toFrame rs).cols = rs.map (·.name) ∧ (toFrame rs).cells.length = (toFrame rs).rows.length ∧
      ∀ row ∈ (toFrame rs).cells, row.length = rs.length := by
  refine ⟨rfl, by simp [toFrame], ?_⟩
  intro row hrow
  simp only [toFrame, mem_map] at hrow
  obtain ⟨a, _, rfl⟩ := hrow
  simp

/-- `corr / cov / r2_score / distance` are square over the ranking names … -/
theorem table_square {γ β} (f : γ → γ → β) (cols : List γ) :
    (table f cols).length = cols.length ∧ ∀ row ∈ table f cols, row.length = cols.length := by
  refine ⟨by simp [table], ?_⟩
  intro row hrow
  simp only [table, mem_map] at hrow
  obtain ⟨a, _, rfl⟩ := hrow
  simp

/-- … entry `(i, j)` is the statistic of rankings `i` and `j`, so the diagonal holds each ranking's
self-comparison value -/
theorem table_entry {γ β} (f : γ → γ → β) (cols : List γ) (i j : Nat) (hi : i < cols.length) (hj : j < cols.length) :
    ((table f cols)[i]'(by simpa [table] using hi))[j]'(by simpa [table] using hj) = f cols[i] cols[j] := by
  simp [table]

theorem table_diag {γ β} (f : γ → γ → β) (cols : List γ) (i : Nat) (hi : i < cols.length) :
    ((table f cols)[i]'(by simpa [table] using hi))[i]'(by simpa [table] using hi) = f cols[i] cols[i] :=
  table_entry f cols i i hi hi

/-! ## non-vacuity: concrete instances of the hypotheses -/

example : ValidRanking [2, 1, 3, 1, 2] := ⟨3, fun x => by simp; omega⟩
example : hasTies [2, 1, 3, 1, 2] = true ∧ untied [2, 1, 3, 1, 2] = [3, 1, 5, 2, 4] := by decide
example : hasTies [3, 1, 2] = false ∧ untied [3, 1, 2] = [3, 1, 2] ∧ untiedSorted [3, 1, 2] = [3, 1, 2] := by decide
example : untiedClosed [2, 1, 1] = [3, 1, 2] ∧ untied [2, 1, 1] = [3, 1, 2] := by decide
/-- a comparator whose two rankings list the three alternatives in different orders -/
example :
    let x : Ranking := ⟨"x", ["b", "a", "c"], [1, 2, 2]⟩
    let y : Ranking := ⟨"y", ["c", "a", "b"], [1, 2, 3]⟩
    (([x, y].map (·.name)).Nodup ∧ y ∈ [x, y] ∧ y.alts.Nodup ∧ y.alts.length = y.values.length) := by
  simp
example : table (fun a b : Nat => a + b) [1, 2, 3] = [[2, 3, 4], [3, 4, 5], [4, 5, 6]] := by decide

end Skc.C18
