import Skc.Proofs.Pipeline
import Skc.Proofs.UNames
import Skc.Proofs.Params
import Skc.Model.MethodClasses
import Skc.Generated.Classes
set_option linter.unusedSectionVars false
set_option linter.unusedVariables false

/-! # C16 — pipelines are the composition of their steps; methods rebuild from parameters

Property theorems only (helpers live in `Skc/Proofs/{Pipeline,UNames,Params}.lean`).  Models:
`Skc/Model/Pipeline.lean` (`SKCPipeline`, `unique_names`, `get_parameters`/`copy`/constructors) and
`Skc/Model/MethodClasses.lean` (one constructor specification per concrete method class);
`Skc/Generated/Classes.lean` is regenerated from the tree under test on every run.

A step is a duck-typed object with an optional `transform : δ → Except Err δ` and an optional
`evaluate : δ → Except Err ρ` over abstract decision matrices `δ` and results `ρ`; exceptions of the steps
propagate (`Except`).  `runAll steps dm` applies `transform` of every step of a list in order. -/
namespace Skc.C16
open Skc.Pipeline

variable {δ ρ : Type}

/-! ## pipelines -/

/-- `pipe.transform(dm)` is the left fold of the steps' `transform` over all steps but the last, stopping at
the first exception -/
theorem pipeline_transform (p : Pipe δ ρ) (dm : δ) :
    p.transform dm = p.steps.dropLast.foldlM (fun d s => s.2.runT d) dm :=
  transform_eq p dm

/-- `pipe.evaluate(dm)` is `transform` followed by the last step's `evaluate` -/
theorem pipeline_evaluate (p : Pipe δ ρ) (dm : δ) :
    p.evaluate dm = p.transform dm >>= fun d =>
      match p.steps.getLast? with
      | some s => s.2.runE d
      | none => .error .indexError := by
  rw [evaluate_eq, transform_eq]; rfl

/-- … in particular for transformers `pre` followed by a decision maker `s`: every transformer in order, then
the decision maker -/
theorem pipeline_evaluate_snoc (pre : Steps δ ρ) (n : String) (s : Step δ ρ) (dm : δ) :
    (Pipe.mk (pre ++ [(n, s)])).evaluate dm = pre.foldlM (fun d t => t.2.runT d) dm >>= s.runE := by
  rw [evaluate_eq]
  have h1 : lastE (pre ++ [(n, s)]) = s.runE := by
    rw [lastE_append _ _ (by simp)]
    funext d
    simp [lastE]
  simp only [List.dropLast_concat, h1]
  rfl

/-- any step list, any split point: evaluating the suffix `steps[k:]` on the output of the first `k` steps is
evaluating the whole pipeline (exceptions included) -/
theorem pipeline_split (steps : Steps δ ρ) (k : Nat) (hk : k < steps.length) (dm : δ) :
    ((steps.take k).foldlM (fun d s => s.2.runT d) dm >>= (Pipe.mk (steps.drop k)).evaluate) =
      (Pipe.mk steps).evaluate dm :=
  evaluate_split steps k hk dm

/-- the slice `pipe[k:]` of a constructed pipeline is accepted for every `k < len(pipe)` and is the pipeline of
the last `len - k` steps: with `pipeline_split`, `pipe[k:].evaluate(<output of the first k steps>) = pipe.evaluate(dm)` -/
theorem pipeline_suffix_slice (steps : Steps δ ρ) (p : Pipe δ ρ) (hp : Pipe.new steps = .ok p)
    (k : Nat) (hk : k < steps.length) :
    p.getSlice (some (k : Int)) none none = .ok ⟨steps.drop k⟩ := by
  obtain ⟨hv, rfl⟩ := (new_ok_iff steps p).mp hp
  simp only [Pipe.getSlice, true_or, if_true, pySlice_from]
  rw [new_ok_iff]
  exact ⟨validateSteps_drop steps hv k hk, rfl⟩

/-- what the slicing API supports for the prefix: `pipe[:k+1]` treats step `k` as its decision maker, so
`pipe[:k+1].transform` runs exactly the first `k` steps, and `pipe[k:].evaluate(pipe[:k+1].transform(dm))`
is `pipe.evaluate(dm)` -/
theorem pipeline_split_api (steps : Steps δ ρ) (k : Nat) (hk : k < steps.length) (dm : δ) :
    ((Pipe.mk (steps.take (k + 1))).transform dm >>= (Pipe.mk (steps.drop k)).evaluate) =
      (Pipe.mk steps).evaluate dm := by
  rw [transform_eq]
  have : (steps.take (k + 1)).dropLast = steps.take k := by
    rw [List.dropLast_eq_take, List.length_take, List.take_take]
    congr 1; omega
  simp only [this]
  exact evaluate_split steps k hk dm

/-- `pipe[:k]` (`0 < k ≤ len`) is accepted exactly when step `k-1` has `evaluate` (a nested pipeline, or
`k = len`); otherwise `TypeError` -/
theorem pipeline_prefix_slice (steps : Steps δ ρ) (p : Pipe δ ρ) (hp : Pipe.new steps = .ok p)
    (k : Nat) (hk0 : 0 < k) (hk : k ≤ steps.length) (s : String × Step δ ρ) (hs : steps[k - 1]? = some s) :
    p.getSlice none (some (k : Int)) none =
      if s.2.evaluate?.isSome then .ok ⟨steps.take k⟩ else .error .typeError := by
  obtain ⟨hv, rfl⟩ := (new_ok_iff steps p).mp hp
  simp only [Pipe.getSlice, true_or, if_true, pySlice_to]
  unfold Pipe.new
  rw [validateSteps_take steps hv k hk s hs hk0]
  split_ifs <;> rfl

/-- the refusals of slicing: a slice step other than 1 is `ValueError`; an empty slice is `IndexError` -/
theorem pipeline_slice_refusals (p : Pipe δ ρ) (a b : Option Int) (st : Int) (hst : st ≠ 1) :
    p.getSlice a b (some st) = .error .valueError ∧
    (∀ k : Nat, p.steps.length ≤ k → p.getSlice (some (k : Int)) none none = .error .indexError) := by
  constructor
  · simp [Pipe.getSlice, hst]
  · intro k hk
    simp only [Pipe.getSlice, true_or, if_true, pySlice_from, List.drop_eq_nil_of_le hk, Pipe.new, validateSteps_nil]

/-- `SKCPipeline(steps)` accepts exactly the non-empty lists whose last step has `evaluate` and whose other
steps have `transform` -/
theorem pipeline_accepts_iff (steps : Steps δ ρ) :
    (∃ p, Pipe.new steps = .ok p) ↔
      (∀ s ∈ steps.dropLast, s.2.transform?.isSome) ∧ ∃ s, steps.getLast? = some s ∧ s.2.evaluate?.isSome := by
  rw [← validateSteps_ok_iff]
  constructor
  · rintro ⟨p, hp⟩; exact ((new_ok_iff steps p).mp hp).1
  · intro h; exact ⟨⟨steps⟩, (new_ok_iff steps _).mpr ⟨h, rfl⟩⟩

/-! ### nested pipelines (one level): a pipeline `q` used as a step -/

/-- as a non-final step a nested pipeline contributes its transformers (its own decision maker is not run):
the outer pipeline transforms like the flattened step list -/
theorem pipeline_nested_transform (pre post : Steps δ ρ) (n : String) (q : Pipe δ ρ) (dm : δ) :
    runAll (pre ++ [(n, q.asStep)] ++ post) dm = runAll (pre ++ q.steps.dropLast ++ post) dm := by
  simp only [runAll_append]
  have : runAll [(n, q.asStep)] = runAll q.steps.dropLast := by
    funext d
    rw [runAll_singleton]
    simp [Step.runT, Pipe.asStep, transform_eq]
  rw [this]

/-- as the final step a nested (non-empty) pipeline makes the outer pipeline evaluate like the flattened list -/
theorem pipeline_nested_last (pre : Steps δ ρ) (n : String) (q : Pipe δ ρ) (hq : q.steps ≠ []) (dm : δ) :
    (Pipe.mk (pre ++ [(n, q.asStep)])).evaluate dm = (Pipe.mk (pre ++ q.steps)).evaluate dm := by
  rw [evaluate_eq, evaluate_eq]
  simp only [List.dropLast_concat, lastE_append _ _ hq, List.dropLast_append_of_ne_nil hq, runAll_append]
  have : lastE (pre ++ [(n, q.asStep)]) = fun d => runAll q.steps.dropLast d >>= lastE q.steps := by
    funext d
    simp [lastE, Step.runE, Pipe.asStep, evaluate_eq]
  rw [this]
  cases runAll pre dm <;> rfl

/-- the split law through one level of nesting: cutting inside the nested pipeline, after its `j`-th
transformer -/
theorem pipeline_split_nested (pre post : Steps δ ρ) (hpost : post ≠ []) (n : String) (q : Pipe δ ρ)
    (j : Nat) (hj : j < q.steps.length) (dm : δ) :
    (runAll (pre ++ q.steps.take j) dm >>= (Pipe.mk (q.steps.dropLast.drop j ++ post)).evaluate) =
      (Pipe.mk (pre ++ [(n, q.asStep)] ++ post)).evaluate dm := by
  have hfun : (Pipe.mk (q.steps.dropLast.drop j ++ post)).evaluate =
      fun d => runAll (q.steps.dropLast.drop j ++ post.dropLast) d >>= lastE post := by
    funext d
    rw [evaluate_eq]
    simp only [List.dropLast_append_of_ne_nil hpost, lastE_append _ _ hpost]
  rw [hfun, evaluate_eq]
  simp only [List.dropLast_append_of_ne_nil hpost, lastE_append _ _ hpost, pipeline_nested_transform]
  have htake : q.steps.take j = q.steps.dropLast.take j := by
    rw [List.dropLast_eq_take, List.take_take]
    congr 1; omega
  have : pre ++ q.steps.dropLast ++ post.dropLast =
      (pre ++ q.steps.take j) ++ (q.steps.dropLast.drop j ++ post.dropLast) := by
    rw [htake]
    simp only [List.append_assoc]
    rw [← List.append_assoc (q.steps.dropLast.take j), List.take_append_drop]
  rw [this, runAll_append (pre ++ q.steps.take j)]
  cases runAll (pre ++ q.steps.take j) dm <;> rfl

/-! ## `unique_names` / `mkpipe`

`uniqueNames` is the code as it is now (after `fix: unique_names keeps suffixing until the generated name is
free`); `uniqueNames_v0` is the loop before the fix, kept with the witness that it breaks the property. -/

/-- one name per element -/
theorem uniqueNames_length (names : List String) : (uniqueNames names).length = names.length :=
  uniqueNamesG_length sfxStr names

/-- the generated names are pairwise different, for EVERY list of names (no hypothesis: a generated name that
is already taken is suffixed again until it is free) -/
theorem uniqueNames_nodup (names : List String) : (uniqueNames names).Nodup :=
  uniqueNamesG_nodup sfxStr String.length sfxStr_length names

/-- no clash (decidable): no name occurring exactly once equals a generated name `n_1 … n_count(n)` of a
repeated name `n` -/
abbrev NoSuffixClash (names : List String) : Prop := Skc.Pipeline.NoSuffixClash sfxStr names

/-- without a clash the loop computes the closed form: a name occurring once is kept, the `k`-th occurrence of a
repeated name `n` becomes `n_k` (so the fix changed no name that was not colliding) -/
theorem uniqueNames_eq_closed_form (names : List String) (h : NoSuffixClash names) :
    uniqueNames names = uniqueNamesSpec names := by
  unfold uniqueNames uniqueNamesSpec
  rw [uniqueNamesG_eq_v0 sfxStr sfxStr_inj names h]
  exact uniqueNamesG_v0_eq_spec sfxStr names

/-- before the fix: the loop always computed the closed form … -/
theorem uniqueNames_v0_eq_closed_form (names : List String) : uniqueNames_v0 names = uniqueNamesSpec names :=
  uniqueNamesG_v0_eq_spec sfxStr names

/-- … whose names are pairwise different only under `NoSuffixClash` … -/
theorem uniqueNames_v0_nodup (names : List String) (h : NoSuffixClash names) : (uniqueNames_v0 names).Nodup :=
  uniqueNamesG_v0_nodup sfxStr sfxStr_inj names h

/-- … and the hypothesis was necessary (K4, now F14): a user class whose lower-cased name is `foo_1` next to two
`foo` steps got a duplicated step name; the present loop does not -/
theorem uniqueNames_clash_witness :
    uniqueNames_v0 ["foo", "foo", "foo_1"] = ["foo_1", "foo_2", "foo_1"] ∧
      ¬ NoSuffixClash ["foo", "foo", "foo_1"] ∧ ¬ (uniqueNames_v0 ["foo", "foo", "foo_1"]).Nodup ∧
      uniqueNames ["foo", "foo", "foo_1"] = ["foo_1_1", "foo_2", "foo_1"] := by
  decide

/-- … in general: whenever a once-occurring name equals the name generated for an occurrence of a repeated
name, the old loop produced two equal names -/
theorem uniqueNames_v0_clash_necessary (names : List String) (i j : Nat) (hi : i < names.length) (hj : j < names.length)
    (hi1 : 1 < names.count names[i]) (hj1 : names.count names[j] = 1)
    (hc : sfxStr names[i] (occ names i hi) = names[j]) : ¬ (uniqueNames_v0 names).Nodup :=
  uniqueNamesG_v0_not_nodup sfxStr names i j hi hj hi1 hj1 hc

/-- names without the character `_` never clash … -/
theorem noSuffixClash_of_no_underscore (names : List String) (h : ∀ n ∈ names, '_' ∉ n.toList) :
    NoSuffixClash names := by
  intro n hn h1 k hk1 hk2
  have : sfxStr n k ∉ names := fun hm => h _ hm (underscore_mem_sfxStr n k)
  rw [List.count_eq_zero_of_not_mem this]
  omega

/-- … in particular the names `mkpipe` gives to the built-in classes (lower-cased class names of the table
generated from the code): they get exactly the closed-form names `n_1, n_2, …` -/
theorem builtin_names_noSuffixClash (names : List String)
    (h : ∀ n ∈ names, n ∈ Skc.Generated.classes.map (·.lname)) : NoSuffixClash names := by
  apply noSuffixClash_of_no_underscore
  have htab : ∀ c ∈ Skc.Generated.classes, '_' ∉ c.lname.toList := by decide
  intro n hn
  obtain ⟨c, hc, rfl⟩ := List.mem_map.mp (h n hn)
  exact htab c hc

/-- each generated name resolves, in `named_steps` (a `dict`), to the step it was generated for -/
theorem uniqueNames_lookup {β : Type} (names : List String) (elements : List β) (hl : names.length = elements.length)
    (i : Nat) (hi : i < names.length) :
    dictGet ((uniqueNames names).zip elements) ((uniqueNames names)[i]'(by rw [uniqueNames_length]; exact hi)) =
      some (elements[i]'(hl ▸ hi)) :=
  dictGet_zip (uniqueNames names) elements (uniqueNames_nodup names) (by rw [uniqueNames_length]; exact hl) i
    (by rw [uniqueNames_length]; exact hi)

/-- `mkpipe(*steps)`: the pipeline's steps are the given steps, in order, named by `unique_names` of the
lower-cased class names -/
theorem mkpipe_steps (steps : List (String × Step δ ρ)) (p : Pipe δ ρ) (h : mkpipe steps = .ok p) :
    p.steps.map (·.1) = uniqueNames (steps.map (·.1)) ∧ p.steps.map (·.2) = steps.map (·.2) := by
  unfold mkpipe uniqueNamed at h
  simp only [List.length_map, ne_eq, not_true_eq_false, if_false] at h
  obtain ⟨-, rfl⟩ := (new_ok_iff _ p).mp h
  have hlen : (uniqueNames (steps.map (·.1))).length = (steps.map (·.2)).length := by
    rw [uniqueNames_length]; simp
  exact ⟨List.map_fst_zip (le_of_eq hlen), List.map_snd_zip (le_of_eq hlen.symm)⟩

/-! ## parameters: `get_parameters`, `copy`, reconstruction -/

/-- every coercion a constructor applies (`float`, `bool`, `int`, `a, b = map(float, …)`, membership tests,
name-to-function lookup, `default_rng`, the three filter coercions, `list(steps)`) is idempotent -/
theorem coercions_idempotent (c : Coercion) (v w : Val) (h : c.apply v = .ok w) : c.apply w = .ok w :=
  Coercion.apply_idem c v w h

/-- for a class whose declared parameters are exactly its readable constructor arguments: `copy()` and
`type(m)(**m.get_parameters())` rebuild the same object (same class, same stored parameters) -/
theorem copy_roundtrip (c : ClassSpec) (hwf : c.WF) (kw : Params) (o : Obj) (h : construct c kw = .ok o) :
    copy o [] = .ok o ∧ ∃ d, getParameters o = .ok d ∧ construct c d = .ok o := by
  unfold construct at h
  cases hn : c.norm kw with
  | error e => simp [hn] at h
  | ok a =>
    simp only [hn, Except.ok.injEq] at h
    subst h
    obtain ⟨d, hd1, hd2⟩ := rebuild_built c hwf kw a hn
    refine ⟨?_, d, hd1, hd2⟩
    have hid : overrideEntry [] = id := by
      funext kv; simp [overrideEntry]
    have hnil : pupdate d [] = d := by
      simp [pupdate, hid]
    simp only [copy, hd1, hnil, hd2]

/-- `copy(**overrides)` (when accepted) keeps the class, leaves every parameter that is not overridden as it
was, and stores for an overridden parameter what the constructor makes of the override -/
theorem copy_override (c : ClassSpec) (hwf : c.WF) (kw ov : Params) (o o' : Obj) (h : construct c kw = .ok o)
    (hc : copy o ov = .ok o') :
    o'.cls = c ∧ ∀ f ∈ c.fields,
      (pget ov f.name = none → pget o'.attrs f.name = pget o.attrs f.name) ∧
      (∀ v, pget ov f.name = some v → ∃ w, f.coerce.apply v = .ok w ∧ pget o'.attrs f.name = some w) := by
  unfold construct at h
  cases hn : c.norm kw with
  | error e => simp [hn] at h
  | ok a =>
    simp only [hn, Except.ok.injEq] at h
    subst h
    exact copy_built c hwf kw a ov hn o' hc

/-- the table generated from the code: every declared parameter is a constructor argument, every required
constructor argument is declared, every declared parameter can be read back from an instance -/
theorem param_table :
    ∀ c ∈ Skc.Generated.classes, c.declared ⊆ c.initParams ∧ c.required ⊆ c.declared ∧ c.declared ⊆ c.readable := by
  decide

/-- … and every constructor argument is declared, except the one argument that is accepted and never used
(`IterativeImputer(skip_complete=…)`) -/
theorem param_table_init :
    ∀ c ∈ Skc.Generated.classes, ∀ p ∈ c.initParams,
      p ∈ c.declared ∨ (c.name, p) ∈ [("IterativeImputer", "skip_complete")] := by
  decide

/-- the hand-written constructor specifications agree with the generated table (same classes, same declared
parameters, same constructor arguments, same required ones) -/
theorem specs_match_table : specsMatchTable = true := by decide

/-- every class specification is well formed: the declared parameters are exactly the readable constructor
arguments -/
theorem all_specs_wf : ∀ s ∈ classSpecs, s.WF := by decide

/-- hence every concrete class rebuilds from its parameters -/
theorem copy_roundtrip_every_class (s : ClassSpec) (hs : s ∈ classSpecs) (kw : Params) (o : Obj)
    (h : construct s kw = .ok o) : copy o [] = .ok o ∧ ∃ d, getParameters o = .ok d ∧ construct s d = .ok o :=
  copy_roundtrip s (all_specs_wf s hs) kw o h

/-- classes made by `mkagg(**hparams)` / `mktransformer(**hparams)` (hyper-parameter names are distinct keywords)
are well formed, so they rebuild too -/
theorem hparams_class_wf (name : String) (hparams : Params) (hn : (hparams.map (·.1)).Nodup) :
    (ClassSpec.ofHParams name hparams).WF := by
  refine ⟨?_, ?_, ?_⟩
  · simpa [ClassSpec.ofHParams, List.map_map, Function.comp_def] using hn
  · intro p hp
    simpa [ClassSpec.ofHParams, List.map_map, Function.comp_def] using hp
  · intro f hf
    simp only [ClassSpec.ofHParams, List.mem_map] at hf ⊢
    obtain ⟨kv, hkv, rfl⟩ := hf
    exact ⟨kv, hkv, rfl⟩

/-! ## non-vacuity and witnesses -/

section examples
/-- steps over `δ = ρ = List String`: each records its name; `boom` raises -/
def tr (n : String) : String × Step (List String) (List String) := (n, .ofTransformer fun d => .ok (d ++ [n]))
def boom (n : String) : String × Step (List String) (List String) := (n, .ofTransformer fun _ => .error (.raised 7))
def dmk (n : String) : String × Step (List String) (List String) := (n, .ofDecisionMaker fun d => .ok (d ++ [n]))

example : (Pipe.mk [tr "a", tr "b", dmk "z"]).evaluate [] = .ok ["a", "b", "z"] := by decide
example : (Pipe.mk [tr "a", tr "b", dmk "z"]).transform [] = .ok ["a", "b"] := by decide
example : (Pipe.mk [tr "a", boom "b", dmk "z"]).evaluate [] = .error (.raised 7) := by decide
-- a nested pipeline as a transformer (its decision maker "y" does not run) and as the final step
example : (Pipe.mk [tr "a", ("n", (Pipe.mk [tr "b", dmk "y"]).asStep), dmk "z"]).evaluate [] = .ok ["a", "b", "z"] := by
  decide
example : (Pipe.mk [tr "a", ("n", (Pipe.mk [tr "b", dmk "y"]).asStep)]).evaluate [] = .ok ["a", "b", "y"] := by decide
-- slices: suffixes are accepted, a prefix ending in a transformer is a TypeError, an empty one an IndexError
example : ((Pipe.mk [tr "a", tr "b", dmk "z"]).getSlice (some 1) none none).toOption.map (·.evaluate ["a"]) =
    some (.ok ["a", "b", "z"]) := by decide
example : ((Pipe.mk [tr "a", tr "b", dmk "z"]).getSlice none (some 2) none).toOption.isNone := by decide
example : ((Pipe.mk [tr "a", tr "b", dmk "z"]).getSlice (some (-1)) none none).toOption.map (·.len) = some 1 := by decide

example : uniqueNames ["sumscaler", "invertminimize", "sumscaler", "topsis", "sumscaler"] =
    ["sumscaler_1", "invertminimize", "sumscaler_2", "topsis", "sumscaler_3"] := by decide
example : NoSuffixClash ["sumscaler", "invertminimize", "sumscaler", "topsis", "sumscaler"] := by decide
-- a repeated name next to a repeated suffixed name does not clash (`a_1` is itself renamed): the fix changes nothing
example : NoSuffixClash ["a", "a", "a_1", "a_1"] ∧ uniqueNames ["a", "a", "a_1", "a_1"] = ["a_1", "a_2", "a_1_1", "a_1_2"] ∧
    uniqueNames_v0 ["a", "a", "a_1", "a_1"] = uniqueNames ["a", "a", "a_1", "a_1"] := by
  decide
-- a name is suffixed again as often as needed
example : uniqueNames ["a", "a", "a_1", "a_1_1", "c"] = ["a_1_1_1", "a_2", "a_1", "a_1_1", "c"] := by decide

/-- ELECTRE1 with `q` dropped from `_skcriteria_parameters`: not well formed, and `copy()` forgets `q` -/
def electre1Dropped : ClassSpec :=
  { name := "ELECTRE1", declared := ["p"],
    fields := [⟨"p", some (vFloat 1), .float⟩, ⟨"q", some (vFloat 0), .float⟩], check := .unit ["p", "q"] }

example : ¬ electre1Dropped.WF := by decide
example : ((construct electre1Dropped [("q", vInt 1)]).toOption.map (·.attrs)) =
      some [("p", vFloat 1), ("q", vFloat 1)] ∧
    ((construct electre1Dropped [("q", vInt 1)]).toOption.bind fun o => ((copy o []).toOption.map (·.attrs))) =
      some [("p", vFloat 1), ("q", vFloat 0)] := by decide +kernel

-- coercion and refusal on a real specification: `MinMaxScaler("both", criteria_range=(0, 2))`
example : ((findSpec "MinMaxScaler").bind fun c =>
      (construct c [("target", vStr "both"), ("criteria_range", .tuple [.int 0, .int 2])]).toOption.map (·.attrs)) =
    some [("target", vStr "both"), ("clip", vBool false), ("criteria_range", .tuple [.float 0, .float 2])] := by
  decide +kernel
example : ((findSpec "MinMaxScaler").map fun c => (construct c [("target", vStr "rows")]).toOption.isNone) = some true := by
  decide +kernel
end examples

end Skc.C16
