import Skc.Proofs.Filters
set_option linter.unusedSectionVars false
set_option linter.unusedVariables false

/-! # C14 — filters keep exactly the alternatives that satisfy every condition

Property theorems only (helpers live in `Skc/Proofs/Filters.lean`). Model: `Skc/Model/Filters.lean`
(`SKCByCriteriaFilterABC._transform_data`, the three `_make_mask`, `FilterNonDominated`).

Conventions. A decision matrix is given by its parts `crits`, `alts`, `rows` (one row per
alternative); **no shape assumption** is made unless a hypothesis says so. `conds` is the ordered
list of written conditions `(criterion, condition)`. A filter returns `.ok (alts', rows')` — the
surviving alternatives and their rows — or `.error .valueError`. "The alternative `a` with row
`row` survives" is `(a, row) ∈ alts'.zip rows'`; `cellOf crits row c` is the value found in `row`
under the label `c`. `filterArith r = transformData (arithMask r)` etc. by definition. -/
namespace Skc.C14
open Skc.Filters

variable {α : Type} [LinearOrder α]

/-! ## survival ⇔ every condition holds on the criterion it names -/

/-- `FilterGT/GE/LT/LE/EQ/NE`: an alternative survives iff it is an alternative of the matrix and,
for every written condition `(c, t)` whose criterion `c` is present, the value of its row under
the label `c` satisfies `rel · t`. (Missing-criterion policy: if the filter answers at all, every
condition on an absent criterion has been skipped — see `missing_error_iff` for when it does not
answer.) Any shape, any linear order, any order of conditions and of columns. -/
theorem arith_survive_iff (r : Rel) (crits alts : List String) (rows : List (List α))
    (conds : List (String × α)) (ignore : Bool) (res : List String × List (List α))
    (h : filterArith r crits alts rows conds ignore = .ok res) (a : String) (row : List α) :
    (a, row) ∈ res.1.zip res.2 ↔
      (a, row) ∈ alts.zip rows ∧
        ∀ c t, (c, t) ∈ conds → c ∈ crits → ∃ x, cellOf crits row c = some x ∧ r.sat x t := by
  rw [gen_survive_iff (arithMask r) _ (arithMask_rowWise r) crits alts rows conds ignore res h]
  simp only [Rel.holds_iff, Prod.forall]

/-- `FilterIn` (`invert = false`) / `FilterNotIn` (`invert = true`): survival iff for every
condition `(c, values)` on a present criterion the value under `c` is (not) among `values` -/
theorem set_survive_iff (invert : Bool) (crits alts : List String) (rows : List (List α))
    (conds : List (String × List α)) (ignore : Bool) (res : List String × List (List α))
    (h : filterSet invert crits alts rows conds ignore = .ok res) (a : String) (row : List α) :
    (a, row) ∈ res.1.zip res.2 ↔
      (a, row) ∈ alts.zip rows ∧
        ∀ c s, (c, s) ∈ conds → c ∈ crits →
          ∃ x, cellOf crits row c = some x ∧ (if invert = true then x ∉ s else x ∈ s) := by
  rw [gen_survive_iff (setMask invert) _ (setMask_rowWise invert) crits alts rows conds ignore res h]
  cases invert <;> simp [Prod.forall]

/-- function-based `Filter`: survival iff every predicate keyed by a present criterion accepts the
value under that criterion -/
theorem fn_survive_iff {α : Type} (crits alts : List String) (rows : List (List α))
    (conds : List (String × (α → Bool))) (ignore : Bool) (res : List String × List (List α))
    (h : filterFn crits alts rows conds ignore = .ok res) (a : String) (row : List α) :
    (a, row) ∈ res.1.zip res.2 ↔
      (a, row) ∈ alts.zip rows ∧
        ∀ c p, (c, p) ∈ conds → c ∈ crits → ∃ x, cellOf crits row c = some x ∧ p x = true := by
  rw [gen_survive_iff fnMask _ fnMask_rowWise crits alts rows conds ignore res h]
  simp only [Prod.forall]

/-! ## the order in which the conditions are written is irrelevant -/

/-- any permutation of the written conditions gives the same answer (survivors, rows, or error) -/
theorem conds_perm_invariant (r : Rel) (crits alts : List String) (rows : List (List α))
    {conds conds' : List (String × α)} (hp : conds.Perm conds') (ignore : Bool) :
    filterArith r crits alts rows conds ignore = filterArith r crits alts rows conds' ignore :=
  gen_conds_perm (arithMask r) _ (arithMask_rowWise r) crits alts rows hp ignore

theorem set_conds_perm_invariant (invert : Bool) (crits alts : List String) (rows : List (List α))
    {conds conds' : List (String × List α)} (hp : conds.Perm conds') (ignore : Bool) :
    filterSet invert crits alts rows conds ignore = filterSet invert crits alts rows conds' ignore :=
  gen_conds_perm (setMask invert) _ (setMask_rowWise invert) crits alts rows hp ignore

theorem fn_conds_perm_invariant {α : Type} (crits alts : List String) (rows : List (List α))
    {conds conds' : List (String × (α → Bool))} (hp : conds.Perm conds') (ignore : Bool) :
    filterFn crits alts rows conds ignore = filterFn crits alts rows conds' ignore :=
  gen_conds_perm fnMask _ fnMask_rowWise crits alts rows hp ignore

/-! ## the order of the criteria in the matrix is irrelevant -/

/-- label-lookup form: the answer depends on the matrix only through what each label finds in each
row. Two presentations with the same label set in which corresponding rows answer every lookup
alike keep the same alternatives (and fail alike). -/
theorem crits_lookup_invariant (r : Rel) (crits crits' alts : List String)
    (rows rows' : List (List α)) (conds : List (String × α)) (ignore : Bool)
    (hmem : ∀ c, c ∈ crits ↔ c ∈ crits')
    (hrows : List.Forall₂ (fun row row' => ∀ c, cellOf crits row c = cellOf crits' row' c) rows rows') :
    (filterArith r crits alts rows conds ignore).map (·.1) =
      (filterArith r crits' alts rows' conds ignore).map (·.1) :=
  gen_lookup_invariant (arithMask r) _ (arithMask_rowWise r) crits crits' alts rows rows' conds ignore
    hmem hrows

/-- column-permutation form: reorder the criteria labels (`crits.Perm crits'`, labels unique) and
every row with them (`(crits.zip row).Perm (crits'.zip row')`: the same label–value pairs); the
same alternatives survive -/
theorem crits_perm_invariant (r : Rel) (crits crits' alts : List String)
    (rows rows' : List (List α)) (conds : List (String × α)) (ignore : Bool)
    (hnd : crits.Nodup) (hpc : crits.Perm crits')
    (hcols : List.Forall₂ (fun row row' => crits.length = row.length ∧ crits'.length = row'.length ∧
      (crits.zip row).Perm (crits'.zip row')) rows rows') :
    (filterArith r crits alts rows conds ignore).map (·.1) =
      (filterArith r crits' alts rows' conds ignore).map (·.1) :=
  crits_lookup_invariant r crits crits' alts rows rows' conds ignore (fun _ => hpc.mem_iff)
    (forall₂_lookup crits crits' rows rows' hnd hcols)

theorem set_crits_perm_invariant (invert : Bool) (crits crits' alts : List String)
    (rows rows' : List (List α)) (conds : List (String × List α)) (ignore : Bool)
    (hnd : crits.Nodup) (hpc : crits.Perm crits')
    (hcols : List.Forall₂ (fun row row' => crits.length = row.length ∧ crits'.length = row'.length ∧
      (crits.zip row).Perm (crits'.zip row')) rows rows') :
    (filterSet invert crits alts rows conds ignore).map (·.1) =
      (filterSet invert crits' alts rows' conds ignore).map (·.1) :=
  gen_lookup_invariant (setMask invert) _ (setMask_rowWise invert) crits crits' alts rows rows' conds
    ignore (fun _ => hpc.mem_iff) (forall₂_lookup crits crits' rows rows' hnd hcols)

theorem fn_crits_perm_invariant {α : Type} (crits crits' alts : List String)
    (rows rows' : List (List α)) (conds : List (String × (α → Bool))) (ignore : Bool)
    (hnd : crits.Nodup) (hpc : crits.Perm crits')
    (hcols : List.Forall₂ (fun row row' => crits.length = row.length ∧ crits'.length = row'.length ∧
      (crits.zip row).Perm (crits'.zip row')) rows rows') :
    (filterFn crits alts rows conds ignore).map (·.1) =
      (filterFn crits' alts rows' conds ignore).map (·.1) :=
  gen_lookup_invariant fnMask _ fnMask_rowWise crits crits' alts rows rows' conds
    ignore (fun _ => hpc.mem_iff) (forall₂_lookup crits crits' rows rows' hnd hcols)

/-! ## survivors keep their order and their rows -/

/-- whatever the mask builder (`filterArith r`, `filterSet invert`, `filterFn`, and the pre-fix
`filterArith_v0 r` are all `transformData mk`): the surviving (alternative, row) pairs are a
sublist of the original pairs — relative order kept, every surviving row is the row its
alternative had; so are both parts separately, and they stay aligned -/
theorem survivors_sublist {α β : Type}
    (mk : List String → List (String × β) → List (List α) → List Bool)
    (crits alts : List String) (rows : List (List α)) (conds : List (String × β)) (ignore : Bool)
    (res : List String × List (List α))
    (h : transformData mk crits alts rows conds ignore = .ok res) :
    (res.1.zip res.2).Sublist (alts.zip rows) ∧ res.1.Sublist alts ∧ res.2.Sublist rows ∧
      (alts.length = rows.length → res.1.length = res.2.length) :=
  gen_sublist mk crits alts rows conds ignore res h

/-! ## missing criteria -/

/-- `__init__` refuses exactly the empty condition dict -/
theorem construct_error_iff {β : Type} (conds : List (String × β)) :
    construct conds = .error .valueError ↔ conds = [] := by
  cases conds <;> simp [construct]

/-- a filter answers or raises `ValueError`, nothing else -/
theorem answer_or_error {α β : Type}
    (mk : List String → List (String × β) → List (List α) → List Bool)
    (crits alts : List String) (rows : List (List α)) (conds : List (String × β)) (ignore : Bool) :
    (∃ res, transformData mk crits alts rows conds ignore = .ok res) ∨
      transformData mk crits alts rows conds ignore = .error .valueError :=
  gen_ok_or_error mk crits alts rows conds ignore

/-- `ValueError` iff missing criteria are not ignored and some written condition names a criterion
the matrix does not have (every `_transform_data`-based filter) -/
theorem missing_error_iff {α β : Type}
    (mk : List String → List (String × β) → List (List α) → List Bool)
    (crits alts : List String) (rows : List (List α)) (conds : List (String × β)) (ignore : Bool) :
    transformData mk crits alts rows conds ignore = .error .valueError ↔
      ignore = false ∧ ∃ c ∈ conds, c.1 ∉ crits :=
  gen_error_iff mk crits alts rows conds ignore

/-- the same, spelled out for the arithmetic filters -/
theorem arith_missing_error_iff (r : Rel) (crits alts : List String) (rows : List (List α))
    (conds : List (String × α)) (ignore : Bool) :
    filterArith r crits alts rows conds ignore = .error .valueError ↔
      ignore = false ∧ ∃ c t, (c, t) ∈ conds ∧ c ∉ crits := by
  unfold filterArith
  rw [gen_error_iff]
  simp only [Prod.exists]

/-- with `ignore_missing_criteria=True` the filter answers what the non-ignoring filter answers on
the conditions whose criterion is present: exactly the conditions on absent criteria are skipped
(and if none is left, nothing is filtered) -/
theorem ignore_skips_only_that {α β : Type}
    (mk : List String → List (String × β) → List (List α) → List Bool)
    (crits alts : List String) (rows : List (List α)) (conds : List (String × β)) :
    transformData mk crits alts rows conds true =
      transformData mk crits alts rows (conds.filter fun c => crits.contains c.1) false :=
  gen_ignore mk crits alts rows conds

/-- … in particular writing one more condition on an absent criterion, anywhere, changes nothing -/
theorem ignore_absent_condition {α β : Type}
    (mk : List String → List (String × β) → List (List α) → List Bool)
    (crits alts : List String) (rows : List (List α)) (pre post : List (String × β))
    (c : String × β) (hc : c.1 ∉ crits) :
    transformData mk crits alts rows (pre ++ c :: post) true =
      transformData mk crits alts rows (pre ++ post) true :=
  gen_ignore_absent mk crits alts rows pre post c hc

/-! ## `FilterNonDominated` -/

/-- `Dominates` / `SDominates` (defined criterion by criterion on `objs.zip (a.zip b)`) read by
index when the three lists have the same length -/
theorem dominates_iff_index (objs : List Obj) (a b : List α) (n : Nat) (ho : objs.length = n)
    (ha : a.length = n) (hb : b.length = n) :
    (Dominates objs a b ↔
      (∀ (j : Nat) (h : j < n), ¬ better objs[j] b[j] a[j]) ∧
        ∃ (j : Nat) (h : j < n), better objs[j] a[j] b[j]) ∧
    (SDominates objs a b ↔ 0 < n ∧ ∀ (j : Nat) (h : j < n), better objs[j] a[j] b[j]) := by
  have hm := mem_triples_iff objs a b n ho ha hb
  constructor
  · unfold Dominates
    constructor
    · rintro ⟨h1, t, ht, hb'⟩
      refine ⟨fun j hj => h1 _ ((hm _).mpr ⟨j, hj, rfl⟩), ?_⟩
      obtain ⟨j, hj, rfl⟩ := (hm t).mp ht
      exact ⟨j, hj, hb'⟩
    · rintro ⟨h1, j, hj, hb'⟩
      refine ⟨fun t ht => ?_, _, (hm _).mpr ⟨j, hj, rfl⟩, hb'⟩
      obtain ⟨k, hk, rfl⟩ := (hm t).mp ht
      exact h1 k hk
  · unfold SDominates
    constructor
    · rintro ⟨hne, hall⟩
      obtain ⟨t, ht⟩ := List.exists_mem_of_ne_nil _ hne
      obtain ⟨j, hj, rfl⟩ := (hm t).mp ht
      exact ⟨by omega, fun k hk => hall _ ((hm _).mpr ⟨k, hk, rfl⟩)⟩
    · rintro ⟨hpos, hall⟩
      refine ⟨List.ne_nil_of_mem ((hm _).mpr ⟨0, hpos, rfl⟩), fun t ht => ?_⟩
      obtain ⟨k, hk, rfl⟩ := (hm t).mp ht
      exact hall k hk

/-- `FilterNonDominated(strict)`: an alternative is kept iff no row of the matrix dominates
(`strict = false`) / strictly dominates (`strict = true`) its row, under each criterion's
objective. (`Dom strict` is irreflexive, so "no *other* alternative" and "no alternative" agree.) -/
theorem nondominated_iff (strict : Bool) (objs : List Obj) (alts : List String)
    (rows : List (List α)) (a : String) (row : List α) :
    (a, row) ∈ (filterNonDominated strict objs alts rows).1.zip
        (filterNonDominated strict objs alts rows).2 ↔
      (a, row) ∈ alts.zip rows ∧ ¬ ∃ b ∈ rows, Dom strict objs b row := by
  unfold filterNonDominated
  simp only [dominatedMask_eq, List.map_map]
  rw [mem_select_zip]
  simp only [Function.comp, Bool.not_eq_true', ← Bool.not_eq_true, List.any_eq_true, domB_iff]

/-- its survivors also keep their order and their rows -/
theorem nondominated_sublist (strict : Bool) (objs : List Obj) (alts : List String)
    (rows : List (List α)) :
    ((filterNonDominated strict objs alts rows).1.zip
        (filterNonDominated strict objs alts rows).2).Sublist (alts.zip rows) ∧
      (filterNonDominated strict objs alts rows).1.Sublist alts ∧
      (filterNonDominated strict objs alts rows).2.Sublist rows := by
  unfold filterNonDominated
  refine ⟨?_, select_sublist _ _, select_sublist _ _⟩
  simp only
  rw [← select_zip]
  exact select_sublist _ _

/-! ## the pre-fix arithmetic mask is wrong -/

/-- the pairing before `fix: arithmetic filters compare each threshold with the criterion it names`
(columns in matrix order, thresholds in dict order), on the documented example
`FilterGT({"RI": 27, "ROE": 1})`: it returns no alternative, although `PE`, `AA`, `FN` satisfy both
conditions (the repaired code returns them), and the other key order returns them -/
theorem arithMask_v0_wrong :
    (filterArith_v0 .gt Ex.crits Ex.alts Ex.rows [("RI", 27), ("ROE", 1)] false).toOption.map (·.1)
        = some [] ∧
    (filterArith_v0 .gt Ex.crits Ex.alts Ex.rows [("ROE", 1), ("RI", 27)] false).toOption.map (·.1)
        = some ["PE", "AA", "FN"] ∧
    (filterArith .gt Ex.crits Ex.alts Ex.rows [("RI", 27), ("ROE", 1)] false).toOption.map (·.1)
        = some ["PE", "AA", "FN"] := by
  decide

/-- hence the pre-fix filter is not invariant under the order of its conditions -/
theorem arithMask_v0_not_perm_invariant :
    ¬ ∀ (conds conds' : List (String × Int)), conds.Perm conds' →
      filterArith_v0 .gt Ex.crits Ex.alts Ex.rows conds false =
        filterArith_v0 .gt Ex.crits Ex.alts Ex.rows conds' false := by
  intro h
  have h1 := h [("RI", 27), ("ROE", 1)] [("ROE", 1), ("RI", 27)] (List.Perm.swap _ _ _)
  have h2 := arithMask_v0_wrong
  rw [h1] at h2
  exact absurd (h2.1.symm.trans h2.2.1) (by decide)

/-! ## non-vacuity: concrete instances of the hypotheses -/

example : (filterArith .gt Ex.crits Ex.alts Ex.rows [("ROE", 1), ("RI", 27)] false).toOption
    = some (["PE", "AA", "FN"], [[7, 5, 35], [5, 6, 28], [5, 8, 30]]) := by decide
example : (filterArith .ge Ex.crits Ex.alts Ex.rows [("RI", 27), ("ROE", 1)] false).toOption.map (·.1)
    = some ["PE", "AA", "MM", "FN"] := by decide
example : (filterArith .eq Ex.crits Ex.alts Ex.rows [("RI", 30), ("CAP", 7)] false).toOption.map (·.1)
    = some ["MM"] := by decide
example : (filterArith .gt Ex.crits Ex.alts Ex.rows [("ZZ", 0), ("ROE", 5)] false).toOption = none := by
  decide
example : (filterArith .gt Ex.crits Ex.alts Ex.rows [("ZZ", 0), ("ROE", 5)] true).toOption.map (·.1)
    = some ["PE"] := by decide
example : (filterArith .gt Ex.crits Ex.alts Ex.rows [("ZZ", 0)] true).toOption.map (·.1)
    = some Ex.alts := by decide
example : (filterSet false Ex.crits Ex.alts Ex.rows [("RI", [30, 35]), ("ROE", [7, 1])] false).toOption.map (·.1)
    = some ["PE", "MM"] := by decide
example : (filterSet true Ex.crits Ex.alts Ex.rows [("ROE", [7, 1]), ("RI", [30, 35])] false).toOption.map (·.1)
    = some ["JN", "AA"] := by decide
example : (filterFn Ex.crits Ex.alts Ex.rows
      [("RI", fun e => decide (28 ≤ e)), ("ROE", fun e => decide (1 < e))] false).toOption.map (·.1)
    = some ["PE", "AA", "FN"] := by decide
example : (filterNonDominated false Ex.objs Ex.alts Ex.rows).1 = ["PE", "JN", "AA", "FN"] := by decide
example : (filterNonDominated true Ex.objs Ex.alts Ex.rows).1 = Ex.alts := by decide
example : (filterNonDominated true [.max, .min] ["a", "b", "c"] [[1, 5], [2, 4], [1, 4]]).1 = ["b", "c"] ∧
    (filterNonDominated false [.max, .min] ["a", "b", "c"] [[1, 5], [2, 4], [1, 4]]).1 = ["b"] := by decide
/-- the hypotheses of `crits_perm_invariant` hold for the documented matrix with its columns
written as RI, ROE, CAP -/
example : Ex.crits.Nodup ∧ Ex.crits.Perm ["RI", "ROE", "CAP"] ∧
    List.Forall₂ (fun row row' => Ex.crits.length = row.length ∧ ["RI", "ROE", "CAP"].length = row'.length ∧
      (Ex.crits.zip row).Perm ((["RI", "ROE", "CAP"] : List String).zip row'))
      Ex.rows [[35, 7, 5], [26, 5, 4], [28, 5, 6], [30, 1, 7], [30, 5, 8]] := by
  decide
example : Dom false [.max, .max, .min] ([5, 8, 30] : List Int) [1, 7, 30] ∧
    ¬ Dom true [.max, .max, .min] ([5, 8, 30] : List Int) [1, 7, 30] :=
  ⟨(domB_iff false _ _ _).mp (by decide), fun h => absurd ((domB_iff true _ _ _).mpr h) (by decide)⟩

end Skc.C14
