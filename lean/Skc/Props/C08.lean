import Skc.Proofs.Electre
set_option linter.unusedSectionVars false

/-! # C08 — ELECTRE outranking relations, kernel and distillation follow their definition

Model: `Skc/Model/Electre.lean` (`concordance`, `discordance`, `electre1`, `weights_outrank` as
specified (`worSpec`) **and** as called by `electre2` with objectives and weights exchanged
(`worCode`), the strong / weak graphs, `_electre2_ranker`, the final ranking).  Any number of
alternatives and criteria, any ordered field.  `atLeast` / `better`: `Skc/Proofs/Dominance.lean`. -/
namespace Skc.C08
open Skc Skc.Electre Finset

variable {m n : ℕ}
variable {α : Type} [Field α] [LinearOrder α] [IsStrictOrderedRing α]

/-- concordance(a, b) = total weight of the criteria on which `a` is at least as good as `b` -/
theorem concordance_eq (A : Mat m n α) (o : Vec n Obj) (w : Vec n α) (a b : Fin m) (h : a ≠ b) :
    concordance A o w a b = some (∑ j with atLeast (o j) (A a j) (A b j), w j) := by
  unfold concordance
  simp only [h, if_false, sumFin_eq_sum, concMask_iff, Option.some.injEq]
  rw [sum_filter]
theorem concordance_diag (A : Mat m n α) (o : Vec n Obj) (w : Vec n α) (a : Fin m) : concordance A o w a a = none := by
  simp [concordance]

/-- the largest criterion range -/
theorem maxRange_eq [NeZero m] [NeZero n] (A : Mat m n α) :
    maxRange A = univ.sup' univ_nonempty fun j =>
      univ.sup' univ_nonempty (fun i => A i j) - univ.inf' univ_nonempty (fun i => A i j) := by
  unfold maxRange; simp only [maxFin_eq_sup', minFin_eq_inf']

/-- discordance(a, b) = the largest amount by which `b` beats `a` on any criterion, divided by the
largest criterion range (non-constant data: range > 0) -/
theorem discordance_eq [NeZero m] [NeZero n] (A : Mat m n α) (o : Vec n Obj) (a b : Fin m) (h : a ≠ b)
    (hr : 0 < maxRange A) :
    discordance A o a b =
      some ((univ.sup' univ_nonempty fun j => if better (o j) (A b j) (A a j) then |A b j - A a j| else 0) / maxRange A) := by
  unfold discordance
  simp only [h, if_false, Option.some.injEq]
  rw [maxFin_div _ _ hr, maxFin_eq_sup']
  congr 2
  funext j
  rw [absv_eq_abs]
  by_cases hb : better (o j) (A b j) (A a j)
  · simp [hb, (discMask_iff (o j) (A a j) (A b j)).mpr hb]
  · have : discMask (o j) (A a j) (A b j) = false := by
      cases hh : discMask (o j) (A a j) (A b j)
      · rfl
      · exact absurd ((discMask_iff _ _ _).mp hh) hb
    simp [hb, this]

/-- concordance lies between 0 and the total weight (non-negative weights) -/
theorem concordance_bounds (A : Mat m n α) (o : Vec n Obj) (w : Vec n α) (hw : ∀ j, 0 ≤ w j) (a b : Fin m) (c : α)
    (h : concordance A o w a b = some c) : 0 ≤ c ∧ c ≤ ∑ j, w j := by
  unfold concordance at h
  split at h
  · cases h
  · cases h
    rw [sumFin_eq_sum]
    constructor
    · exact sum_nonneg fun j _ => by split <;> [exact hw j; exact le_refl 0]
    · exact sum_le_sum fun j _ => by split <;> [exact le_refl _; exact hw j]

/-- discordance lies in `[0, 1]`: no adverse difference exceeds the largest criterion range -/
theorem discordance_unit [NeZero m] [NeZero n] (A : Mat m n α) (o : Vec n Obj) (a b : Fin m) (d : α)
    (hr : 0 < maxRange A) (h : discordance A o a b = some d) : 0 ≤ d ∧ d ≤ 1 := by
  unfold discordance at h
  split at h
  · cases h
  · cases h
    rw [maxFin_div _ _ hr]
    have hcell : ∀ j, absv (if discMask (o j) (A a j) (A b j) then A b j - A a j else 0) ≤ maxRange A := by
      intro j
      rw [absv_eq_abs]
      have hcol : |A b j - A a j| ≤ (maxFin fun i => A i j) - (minFin fun i => A i j) := by
        have h1 := le_maxFin (fun i => A i j) a; have h2 := le_maxFin (fun i => A i j) b
        have h3 := minFin_le (fun i => A i j) a; have h4 := minFin_le (fun i => A i j) b
        rw [abs_le]; constructor <;> linarith
      have hmr : (maxFin fun i => A i j) - (minFin fun i => A i j) ≤ maxRange A :=
        le_maxFin (fun j => (maxFin fun i => A i j) - (minFin fun i => A i j)) j
      split
      · exact le_trans hcol hmr
      · simpa using hr.le
    constructor
    · apply div_nonneg _ hr.le
      have := le_maxFin (fun j => absv (if discMask (o j) (A a j) (A b j) then A b j - A a j else 0)) 0
      refine le_trans ?_ this
      rw [absv_eq_abs]; exact abs_nonneg _
    · rw [div_le_one hr, maxFin_le_iff]
      exact hcell

/-- ELECTRE1: `a` outranks `b` exactly when concordance ≥ p and discordance ≤ q (never itself) -/
theorem electre1_outrank_iff [NeZero m] [NeZero n] (A : Mat m n α) (o : Vec n Obj) (w : Vec n α) (p q : α) (a b : Fin m) :
    electre1Outrank A o w p q a b = true ↔
      a ≠ b ∧ ∃ c d, concordance A o w a b = some c ∧ discordance A o a b = some d ∧ p ≤ c ∧ d ≤ q := by
  unfold electre1Outrank outrankCell
  by_cases h : a = b
  · subst h; simp [concordance, discordance]
  · simp [concordance, discordance, h]

/-- the ELECTRE1 kernel is the set of alternatives nothing outranks -/
theorem electre1_kernel_iff [NeZero m] [NeZero n] (A : Mat m n α) (o : Vec n Obj) (w : Vec n α) (p q : α) (b : Fin m) :
    electre1Kernel A o w p q b = true ↔ ∀ a, electre1Outrank A o w p q a b = false := by
  unfold electre1Kernel
  rw [Bool.not_eq_true', ← Bool.not_eq_true, anyFin_iff]
  simp

/-! ### the weight-comparison relation -/

/-- as specified: holds for (a, b) exactly when the weight of the criteria where `a` is strictly
better is at least that where `b` is strictly better -/
theorem worSpec_iff (A : Mat m n α) (o : Vec n Obj) (w : Vec n α) (a b : Fin m) (h : a ≠ b) :
    worSpec A o w a b = true ↔
      ∑ j with better (o j) (A b j) (A a j), w j ≤ ∑ j with better (o j) (A a j) (A b j), w j := by
  unfold worSpec worBody
  simp only [h, if_false, decide_eq_true_eq, sumFin_eq_sum]
  rw [sum_filter, sum_filter]
  apply Iff.of_eq
  congr 1 <;> (apply sum_congr rfl; intro j _; cases ho : o j <;> simp [better])

/-- what the call in `electre2` computes instead: the objectives (±1) are summed as if they were the
weights, and "maximise" is read off `w j = 1` — with every `w j ≠ 1` (weights summing to one over two
or more criteria) it compares signed COUNTS of criteria where `a < b` against those where `a > b` -/
theorem worCode_char (A : Mat m n α) (o : Vec n Obj) (w : Vec n α) (a b : Fin m) (h : a ≠ b) (hw : ∀ j, w j ≠ 1) :
    worCode A o w a b = true ↔
      ∑ j with A b j < A a j, ((o j).sgn : α) ≤ ∑ j with A a j < A b j, ((o j).sgn : α) := by
  unfold worCode worBody
  simp only [h, if_false, decide_eq_true_eq, sumFin_eq_sum, hw, decide_false, Bool.false_eq_true]
  rw [sum_filter, sum_filter]

/-- witness data: two alternatives, two maximise criteria, weights 3/4 and 1/4 -/
def witA : Mat 2 2 ℚ := fun i j => if i = 0 then (if j = 0 then 2 else 1) else (if j = 0 then 1 else 3)
def witO : Vec 2 Obj := fun _ => .max
def witW : Vec 2 ℚ := fun j => if j = 0 then 3/4 else 1/4

/-- the two differ (KNOWN FINDING K1; repairing the call site falsifies pinned expectations): the
second alternative is better only on the criterion of weight 1/4, so by the definition it does not
weight-outrank the first — the code says it does (one criterion each way) -/
theorem worCode_ne_worSpec :
    worSpec witA witO witW 1 0 = false ∧ worCode witA witO witW 1 0 = true ∧
    worSpec witA witO witW 0 1 = true ∧ worCode witA witO witW 0 1 = true := by
  simp only [worSpec, worCode, worBody, sumFin, List.ofFn_succ, List.ofFn_zero, witA, witO, witW]
  refine ⟨?_, ?_, ?_, ?_⟩ <;> norm_num [Obj.sgn]

/-! ### ELECTRE2 graphs -/
theorem strong_iff (c d : α) (wor : Bool) (t : Thresholds α) :
    strongCell (some c) (some d) wor t = true ↔ wor = true ∧ ((t.p0 ≤ c ∧ d ≤ t.q0) ∨ (t.p1 ≤ c ∧ d ≤ t.q1)) := by
  unfold strongCell outrankCell
  cases wor <;> simp
theorem weak_iff (c d : α) (wor : Bool) (t : Thresholds α) :
    weakCell (some c) (some d) wor t = true ↔ wor = true ∧ t.p2 ≤ c ∧ d ≤ t.q0 := by
  unfold weakCell outrankCell
  cases wor <;> simp
theorem graphs_diag (wor : Bool) (t : Thresholds α) :
    strongCell (none : Option α) none wor t = false ∧ weakCell (none : Option α) none wor t = false := by
  simp [strongCell, weakCell, outrankCell]

/-! ### distillation (`_electre2_ranker`) -/

/-- a round ranks exactly the remaining alternatives that no remaining one strongly outranks and
some remaining one weakly outranks -/
theorem round_spec (S W : Graph) (rem : List Nat) (j : Nat) :
    j ∈ roundKernel S W rem ↔ j ∈ rem ∧ (∀ i ∈ rem, S i j = false) ∧ ∃ i ∈ rem, W i j = true := by
  unfold roundKernel
  simp [List.mem_filter, List.any_eq_true]

/-- every round with a non-empty kernel strictly shrinks the remaining set: at most `m` rounds -/
theorem ranker_terminates (S W : Graph) (rem : List Nat) (h : (roundKernel S W rem).isEmpty = false) :
    (rem.filter (! (roundKernel S W rem).contains ·)).length < rem.length := shrink S W rem h

/-- every alternative is ranked exactly once -/
theorem ranker_covers (S W : Graph) (m : Nat) :
    ((rankerLoop S W m (List.range m) 1).map (·.1)).Perm (List.range m) :=
  loop_covers S W m (List.range m) 1 (by simp) List.nodup_range

/-- the ranks handed out are `1..k` without gaps -/
theorem ranker_contiguous (S W : Graph) (m : Nat) (hm : 0 < m) :
    (∀ p ∈ rankerLoop S W m (List.range m) 1, 1 ≤ p.2) ∧
    (∀ p ∈ rankerLoop S W m (List.range m) 1, ∀ q, 1 ≤ q → q ≤ p.2 → ∃ p' ∈ rankerLoop S W m (List.range m) 1, p'.2 = q) :=
  loop_contiguous S W m (List.range m) 1 (by cases m <;> simp_all)

/-- the inverse ranking is the reflection `max + 1 − r` of the ranker run on the transposed graphs -/
theorem ranking_inverted_eq (S W : Graph) (m : Nat) (i : Nat) (hi : i < m) :
    (rankerInverted S W m)[i]'(by simp [rankerInverted, invertRanking, rankerDirect, hi]) =
      (rankerDirect (fun a b => S b a) (fun a b => W b a) m).foldl max 0 + 1 -
        (rankerDirect (fun a b => S b a) (fun a b => W b a) m)[i]'(by simp [rankerDirect, hi]) := by
  simp [rankerInverted, invertRanking]

/-- the final ranking is the dense rank of the mean of the two rankings (lower is better) -/
theorem electre2_rank_eq (d iv : List Nat) :
    electre2Rank d iv = denseRank ((List.zipWith (· + ·) d iv).map fun (s : Nat) => (s : ℚ) / 2) := by
  unfold electre2Rank denseRank
  rw [List.map_map]
  apply List.map_congr_left
  intro s _
  have hf : StrictMono fun (s : Nat) => (s : ℚ) / 2 := by
    intro a b hab; simp only; exact div_lt_div_of_pos_right (by exact_mod_cast hab) (by norm_num)
  exact (rankOf_map_strictMono' _ hf _ s).symm

/-! non-vacuity: the textbook-style 3 x 3 case (weights 1/2, 3/10, 1/5), ranker on a small graph -/
example : rankerDirect (fun i j => (i, j) ∈ [(0, 1)]) (fun i j => (i, j) ∈ [(0, 1), (2, 0)]) 4 = [1, 2, 2, 2] := by decide
example : invertRanking [1, 2, 2, 2] = [2, 1, 1, 1] := by decide

end Skc.C08
