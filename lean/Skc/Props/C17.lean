import Skc.Proofs.Diff
set_option linter.unusedSectionVars false
set_option linter.unusedVariables false

/-! # C17 — equality and diff are total, consistent, and name exactly what differs

Property theorems only (helpers live in `Skc/Proofs/Diff.lean`). Model: `Skc/Model/Diff.lean`
(`object_diff.diff`, `dict_allclose`, `DecisionMatrix.diff`, `ResultABC.diff`,
`RanksComparator.diff`, `aequals / equals / == / !=`, `np.allclose` as `|a−b| ≤ atol + rtol·|b|`).

`x y : Obj α` range over decision matrices, rank / kernel results, rank comparators and objects of
any other type, of any shapes; `α` is any linearly ordered field. `diff`, `aequals`, `equals`,
`eq`, `ne` return `Except Err _`: `.error` is a raised exception. -/
namespace Skc.C17
open Skc.Diff

variable {α : Type*} [Field α] [LinearOrder α] [IsStrictOrderedRing α]

/-! ## never raises -/

/-- `x.diff(y, rtol, atol, equal_nan, check_dtypes)` never raises: any two objects, any shapes, any
types, any tolerance (also negative or NaN-bearing input) -/
theorem diff_total (t : Tol α) (checkDtypes : Bool) (x y : Obj α) :
    ∃ d, diff t checkDtypes x y = .ok d :=
  diff_total' t checkDtypes x y

/-- hence neither do `aequals`, `equals`, `==`, `!=` -/
theorem cmp_total (t : Tol α) (checkDtypes : Bool) (x y : Obj α) :
    (∃ b, aequals t checkDtypes x y = .ok b) ∧ (∃ b, equals x y = .ok b) ∧
    (∃ b, eq x y = .ok b) ∧ (∃ b, ne x y = .ok b) := by
  have h : ∀ (t : Tol α) cd, ∃ b, aequals t cd x y = .ok b := by
    intro t cd
    obtain ⟨d, hd⟩ := diff_total t cd x y
    refine ⟨!d.hasDifferences, ?_⟩
    simp [aequals, aequalsOf, hd]
  obtain ⟨b, hb⟩ := h exact true
  exact ⟨h t checkDtypes, ⟨b, hb⟩, ⟨b, hb⟩, ⟨!b, by simp [ne, eq, equals, hb]⟩⟩

/-! ### the code before the repairs did raise (witnesses at `α = ℚ`) -/

/-- `dict_allclose`'s own defaults `rtol=1e-05, atol=1e-08, equal_nan=False` -/
def dflt : Tol Rat := ⟨1/100000, 1/100000000, false⟩

def rank3 : Res Rat := ⟨1, .rank, "m", ["a", "b", "c"], ⟨[3], [some 1, some 2, some 3], false⟩, .dnil⟩
def rank2 : Res Rat := ⟨2, .rank, "m", ["a", "b"], ⟨[2], [some 1, some 2], false⟩, .dnil⟩
def rank1 : Res Rat := ⟨3, .rank, "m", ["a"], ⟨[1], [some 1], false⟩, .dnil⟩

/-- original `ResultABC.diff`: results with 3 and 2 alternatives ⇒ `ValueError` (shapes `(3,)` and
`(2,)` do not broadcast), in both directions and for `==` -/
theorem resultDiff_v0_raises :
    errOf (resDiff_v0 dflt exact rank3 (.res rank2)) = some .valueError ∧
    errOf (resDiff_v0 dflt exact rank2 (.res rank3)) = some .valueError ∧
    errOf (eqOld 0 dflt (.res rank3) (.res rank2)) = some .valueError := by
  decide +kernel

/-- … while a length-1 operand broadcast silently: 3 against 1 alternatives answered instead of raising
(`values` is reported only because `1 ≠ 2`; with tolerance `rtol = 1` it is *not* reported) -/
theorem resultDiff_v0_broadcasts :
    okOf (resDiff_v0 dflt exact rank3 (.res rank1)) = some ⟨false, ["alternatives", "values"]⟩ ∧
    okOf (resDiff_v0 dflt ⟨1, 1, false⟩ rank3 (.res rank1)) = some ⟨false, ["alternatives"]⟩ := by
  decide +kernel

def withScore (oid : Nat) (s : List (Option Rat)) : Res Rat :=
  ⟨oid, .rank, "m", ["a", "b", "c"], ⟨[3], [some 1, some 2, some 3], false⟩,
    .dcons "score" (.farr ⟨[s.length], s, false⟩) .dnil⟩

/-- original code: `==` is `True` although an extra array differs by `1e-9` (extras were compared
with the default tolerance); the repaired `==` says `False` -/
theorem eq_v0_ignores_extra :
    okOf (eqOld 0 dflt (.res (withScore 1 [some 1, some 2, some 3]))
      (.res (withScore 2 [some 1, some 2, some (3 + 1/1000000000)]))) = some true ∧
    okOf (eq (.res (withScore 1 [some 1, some 2, some 3]))
      (.res (withScore 2 [some 1, some 2, some (3 + 1/1000000000)]))) = some false := by
  decide +kernel

/-- original code: `aequals(rtol=1, atol=1)` rejected a difference of `1e-3` in an extra -/
theorem aequals_v0_rejects_extra :
    okOf (aequalsOld 0 dflt ⟨1, 1, false⟩ false (.res (withScore 1 [some 1, some 2, some 3]))
      (.res (withScore 2 [some 1, some 2, some (3 + 1/1000)]))) = some false ∧
    okOf (aequals ⟨1, 1, false⟩ false (.res (withScore 1 [some 1, some 2, some 3]))
      (.res (withScore 2 [some 1, some 2, some (3 + 1/1000)]))) = some true := by
  decide +kernel

/-- original code: `==` was not symmetric (NumPy's `rtol·|b|` is one-sided) -/
theorem eq_v0_not_symm :
    okOf (eqOld 0 dflt (.res (withScore 1 [some 1])) (.res (withScore 2 [some (1000010010001/1000000000000)])))
      = some true ∧
    okOf (eqOld 0 dflt (.res (withScore 2 [some (1000010010001/1000000000000)])) (.res (withScore 1 [some 1])))
      = some false := by
  decide +kernel

/-- a result with no alternatives: pandas gives its empty value vector dtype `object` -/
def emptyRank (oid : Nat) : Res Rat := ⟨oid, .rank, "m", [], ⟨[0], [], true⟩, .dnil⟩

/-- a matrix with a boolean criterion next to a numeric one is an `object` array for NumPy -/
def boolDM (oid : Nat) : DM Rat :=
  ⟨oid, [1, 2], ["A0"], ["C0", "C1"], [1, -1], [some 1, some 1], ⟨[1, 2], [some 1, some (5/2)], true⟩, ["bool", "float64"]⟩

/-- before the object-dtype repair `np.allclose` raised `TypeError` on such arrays: an empty result,
a comparator of empty results, or a matrix with a boolean column compared with its own copy; the
repaired code answers `True` -/
theorem diff_v1_object_dtype_raises :
    errOf (eqOld 1 dflt (.res (emptyRank 1)) (.res (emptyRank 2))) = some .typeError ∧
    errOf (eqOld 1 dflt (.rcmp ⟨5, [("x", emptyRank 1), ("y", emptyRank 2)]⟩)
      (.rcmp ⟨6, [("x", emptyRank 3), ("y", emptyRank 4)]⟩)) = some .typeError ∧
    errOf (eqOld 1 dflt (.dm (boolDM 1)) (.dm (boolDM 2))) = some .typeError ∧
    okOf (eq (.res (emptyRank 1)) (.res (emptyRank 2))) = some true ∧
    okOf (eq (.dm (boolDM 1)) (.dm (boolDM 2))) = some true := by
  decide +kernel

/-! ## an object equals its copy and any identically constructed object -/

/-- `x == x` (the same object) is `True` without any assumption: the identity short-cut -/
theorem equals_self (x : Obj α) : equals x x = .ok true := by
  cases x with
  | dm d => simp [equals, aequals, diff, dmDiff_dm, aequalsOf, Difference.hasDifferences]
  | res r => simp [equals, aequals, diff, resDiff_res, aequalsOf, Difference.hasDifferences]
  | rcmp c => simp [equals, aequals, diff, rcmpDiff_rcmp, aequalsOf, Difference.hasDifferences]
  | other i n => simp [equals, aequals, diff_other_other, aequalsOf, Difference.hasDifferences]

/-- finite values: `y` a copy of `x`, or constructed from the same data (`x.strip = y.strip`: all
members equal, identities arbitrary — deep copy, shallow copy, rebuilt) ⇒ `x.equals(y)`, `x == y` -/
theorem equals_refl_copy (x y : Obj α) (hv : x.valid = true) (hf : x.finite = true)
    (h : x.strip = y.strip) : equals x y = .ok true ∧ eq x y = .ok true ∧ ne x y = .ok false := by
  suffices hs : equals x y = .ok true by simp [eq, ne, hs]
  cases x with
  | dm d =>
    cases y with
    | dm e =>
      simp only [Obj.strip, Obj.dm.injEq] at h
      have := (failing_nil_iff _).mpr (dmFlags_exact_copy true d e h hf)
      simp only [equals, aequals, diff, dmDiff_dm, this]
      split <;> rfl
    | _ => simp [Obj.strip] at h
  | res r =>
    cases y with
    | res s =>
      simp only [Obj.strip, Obj.res.injEq] at h
      obtain ⟨d, hd, hh⟩ := resDiff_hasDifferences (exact : Tol α) r s
      simp [equals, aequals, diff, hd, aequalsOf, hh, resSame_exact_copy r s h hv hf]
    | _ => simp [Obj.strip] at h
  | rcmp c =>
    cases y with
    | rcmp e =>
      simp only [Obj.strip, Obj.rcmp.injEq, Rcmp.mk.injEq, true_and] at h
      simp only [Obj.valid, Obj.finite, List.all_eq_true] at hv hf
      have := ranksFlag_exact_copy c.ranks e.ranks h hv hf
      simp only [equals, aequals, diff, rcmpDiff_rcmp, this, failing]
      split <;> rfl
    | _ => simp [Obj.strip] at h
  | other i n =>
    cases y with
    | other j m =>
      simp only [Obj.strip, Obj.other.injEq, true_and] at h
      subst h
      simp [equals, aequals, diff_other_other, aequalsOf, Difference.hasDifferences]
    | _ => simp [Obj.strip] at h

/-! ## exact equality is symmetric and implies tolerant equality -/

/-- `x.equals(y) = y.equals(x)` and `(x == y) = (y == x)`, for objects of any kinds and shapes
(`valid`: the extras are dictionaries, which cannot repeat a key) -/
theorem equals_symm (x y : Obj α) (hx : x.valid = true) (hy : y.valid = true) :
    equals x y = equals y x ∧ eq x y = eq y x := by
  have : equals x y = equals y x := by
    simp only [equals, aequals, aequals_symm_exact x y hx hy]
  exact ⟨this, this⟩

/-- `x == y` implies `x.aequals(y, rtol, atol, equal_nan, check_dtypes)` for every non-negative
tolerance and both values of each flag -/
theorem equals_imp_aequals (t : Tol α) (checkDtypes : Bool) (hr : 0 ≤ t.rtol) (ha : 0 ≤ t.atol)
    (x y : Obj α) (h : equals x y = .ok true) : aequals t checkDtypes x y = .ok true := by
  by_cases hT : x.pyType = y.pyType
  · cases x with
    | dm d =>
      cases y with
      | dm e =>
        simp only [equals, aequals, diff, dmDiff_dm] at h ⊢
        by_cases ho : d.oid = e.oid
        · simp [ho, aequalsOf, Difference.hasDifferences]
        · simp only [ho, if_false, aequalsOf_ok_true_iff, true_and] at h ⊢
          exact (failing_nil_iff _).mpr
            (dmFlags_exact_imp t hr ha checkDtypes d e ((failing_nil_iff _).mp h))
      | res s => exact absurd hT.symm (Res.pyType_ne_dm s)
      | rcmp e => simp [Obj.pyType] at hT
      | other j m => simp [Obj.pyType] at hT
    | res r =>
      cases y with
      | dm e => exact absurd hT (Res.pyType_ne_dm r)
      | res s =>
        obtain ⟨d, hd, hh⟩ := resDiff_hasDifferences (exact : Tol α) r s
        obtain ⟨d', hd', hh'⟩ := resDiff_hasDifferences t r s
        simp only [equals, aequals, diff, hd, aequalsOf, hh, Bool.not_not, Except.ok.injEq] at h
        simp [aequals, diff, hd', aequalsOf, hh', resSame_exact_imp t hr ha r s h]
      | rcmp e => exact absurd hT (Res.pyType_ne_rcmp r)
      | other j m => exact absurd hT (Res.pyType_ne_other r m)
    | rcmp c =>
      cases y with
      | dm e => simp [Obj.pyType] at hT
      | res s => exact absurd hT.symm (Res.pyType_ne_rcmp s)
      | rcmp e =>
        simp only [equals, aequals, diff, rcmpDiff_rcmp] at h ⊢
        by_cases ho : c.oid = e.oid
        · simp [ho, aequalsOf, Difference.hasDifferences]
        · simp only [ho, if_false, aequalsOf_ok_true_iff, true_and, failing_nil_iff, List.mem_singleton,
            forall_eq, Bool.and_eq_true] at h ⊢
          exact ⟨h.1, ranksFlag_exact_imp t hr ha _ _ h.2⟩
      | other j m => simp [Obj.pyType] at hT
    | other i n =>
      cases y with
      | dm e => simp [Obj.pyType] at hT
      | res s => exact absurd hT.symm (Res.pyType_ne_other s n)
      | rcmp e => simp [Obj.pyType] at hT
      | other j m =>
        simp only [Obj.pyType, PyType.other.injEq] at hT
        subst hT
        simp [aequals, diff_other_other, aequalsOf, Difference.hasDifferences]
  · simp [equals, aequals, diff_of_types_ne _ _ x y hT, aequalsOf, Difference.hasDifferences] at h

/-- `x != y` is exactly `not (x == y)` -/
theorem ne_iff_not_eq (x y : Obj α) : ∃ b, eq x y = .ok b ∧ ne x y = .ok (!b) := by
  obtain ⟨b, hb⟩ := (cmp_total (exact : Tol α) true x y).2.2.1
  exact ⟨b, hb, by simp [ne, hb]⟩

/-- objects of different types (a matrix and a result, a rank and a kernel result, anything and an
`int` / `None` / …): `different_types`, no member named, unequal at every tolerance -/
theorem different_types (t : Tol α) (checkDtypes : Bool) (x y : Obj α) (h : x.pyType ≠ y.pyType) :
    diff t checkDtypes x y = .ok ⟨true, []⟩ ∧ aequals t checkDtypes x y = .ok false ∧
    eq x y = .ok false ∧ ne x y = .ok true := by
  have hd := fun (t : Tol α) cd => diff_of_types_ne t cd x y h
  simp [hd, aequals, eq, ne, equals, aequalsOf, Difference.hasDifferences]

/-! ## one member changed beyond tolerance: unequal, and `diff` names exactly that member

Two distinct objects of the same type. "Changed beyond tolerance" is the failure of the comparison
the code uses for that member (`≠` for exact members; `cellsClose t`, `dataClose t`, `arrClose t`,
`valClose t` = `np.allclose` / `dict_allclose` with the caller's tolerance for numeric ones); every
other member is within tolerance. -/

section dm
variable (t : Tol α) (checkDtypes : Bool) (d e : DM α) (hid : d.oid ≠ e.oid)
include hid

/-- decision matrices of different shape: `same_shape` is `False`, so every member is reported —
a differing shape is never the *only* name in `members_diff` — and the matrices are unequal -/
theorem single_member_shape (h : d.shape ≠ e.shape) :
    diff t checkDtypes (.dm d) (.dm e) = .ok ⟨false,
      ["shape", "criteria", "alternatives", "objectives", "weights", "matrix"] ++
        (if checkDtypes then ["dtypes"] else [])⟩ ∧
    aequals t checkDtypes (.dm d) (.dm e) = .ok false := by
  cases checkDtypes <;>
    simp [aequals, diff, dmDiff_dm, hid, dmFlags, failing, h, aequalsOf, Difference.hasDifferences]

/-- same shape, only the criteria names differ: `diff` names `criteria` alone, the matrices are unequal -/
theorem single_member_criteria (hs : d.shape = e.shape) (h : d.criteria ≠ e.criteria)
    (h1 : d.alternatives = e.alternatives) (h2 : d.objectives = e.objectives)
    (h3 : cellsClose t d.weights e.weights = true) (h4 : dataClose t d.matrix e.matrix = true)
    (h5 : d.dtypes = e.dtypes) :
    diff t checkDtypes (.dm d) (.dm e) = .ok ⟨false, ["criteria"]⟩ ∧
    aequals t checkDtypes (.dm d) (.dm e) = .ok false := by
  cases checkDtypes <;>
    simp [aequals, diff, dmDiff_dm, dmFlags, failing, aequalsOf, Difference.hasDifferences, *]

/-- same shape, only the alternative names differ -/
theorem single_member_alternatives (hs : d.shape = e.shape) (h0 : d.criteria = e.criteria)
    (h : d.alternatives ≠ e.alternatives) (h2 : d.objectives = e.objectives)
    (h3 : cellsClose t d.weights e.weights = true) (h4 : dataClose t d.matrix e.matrix = true)
    (h5 : d.dtypes = e.dtypes) :
    diff t checkDtypes (.dm d) (.dm e) = .ok ⟨false, ["alternatives"]⟩ ∧
    aequals t checkDtypes (.dm d) (.dm e) = .ok false := by
  cases checkDtypes <;>
    simp [aequals, diff, dmDiff_dm, dmFlags, failing, aequalsOf, Difference.hasDifferences, *]

/-- same shape, only an optimisation sense differs -/
theorem single_member_objectives (hs : d.shape = e.shape) (h0 : d.criteria = e.criteria)
    (h1 : d.alternatives = e.alternatives) (h : d.objectives ≠ e.objectives)
    (h3 : cellsClose t d.weights e.weights = true) (h4 : dataClose t d.matrix e.matrix = true)
    (h5 : d.dtypes = e.dtypes) :
    diff t checkDtypes (.dm d) (.dm e) = .ok ⟨false, ["objectives"]⟩ ∧
    aequals t checkDtypes (.dm d) (.dm e) = .ok false := by
  cases checkDtypes <;>
    simp [aequals, diff, dmDiff_dm, dmFlags, failing, aequalsOf, Difference.hasDifferences, *]

/-- same shape, only the weights differ beyond the caller's tolerance -/
theorem single_member_weights (hs : d.shape = e.shape) (h0 : d.criteria = e.criteria)
    (h1 : d.alternatives = e.alternatives) (h2 : d.objectives = e.objectives)
    (h : cellsClose t d.weights e.weights = false) (h4 : dataClose t d.matrix e.matrix = true)
    (h5 : d.dtypes = e.dtypes) :
    diff t checkDtypes (.dm d) (.dm e) = .ok ⟨false, ["weights"]⟩ ∧
    aequals t checkDtypes (.dm d) (.dm e) = .ok false := by
  cases checkDtypes <;>
    simp [aequals, diff, dmDiff_dm, dmFlags, failing, aequalsOf, Difference.hasDifferences, *]

/-- same shape, only matrix cells differ beyond the caller's tolerance (object dtype: differ at all) -/
theorem single_member_matrix (hs : d.shape = e.shape) (h0 : d.criteria = e.criteria)
    (h1 : d.alternatives = e.alternatives) (h2 : d.objectives = e.objectives)
    (h3 : cellsClose t d.weights e.weights = true) (h : dataClose t d.matrix e.matrix = false)
    (h5 : d.dtypes = e.dtypes) :
    diff t checkDtypes (.dm d) (.dm e) = .ok ⟨false, ["matrix"]⟩ ∧
    aequals t checkDtypes (.dm d) (.dm e) = .ok false := by
  cases checkDtypes <;>
    simp [aequals, diff, dmDiff_dm, dmFlags, failing, aequalsOf, Difference.hasDifferences, *]

/-- the dtypes are looked at only with `check_dtypes=True` (`equals` and `==` pass it): an `int`
column against a `float` column with the same numbers is `aequals` but not `equals` -/
theorem single_member_dtypes (hs : d.shape = e.shape) (h0 : d.criteria = e.criteria)
    (h1 : d.alternatives = e.alternatives) (h2 : d.objectives = e.objectives)
    (h3 : cellsClose t d.weights e.weights = true) (h4 : dataClose t d.matrix e.matrix = true)
    (h : d.dtypes ≠ e.dtypes) :
    diff t true (.dm d) (.dm e) = .ok ⟨false, ["dtypes"]⟩ ∧
    aequals t true (.dm d) (.dm e) = .ok false ∧
    diff t false (.dm d) (.dm e) = .ok ⟨false, []⟩ ∧
    aequals t false (.dm d) (.dm e) = .ok true := by
  simp [aequals, diff, dmDiff_dm, dmFlags, failing, aequalsOf, Difference.hasDifferences, *]

end dm

section res
variable (t : Tol α) (checkDtypes : Bool) (r s : Res α) (hid : r.oid ≠ s.oid) (hk : r.kind = s.kind)
include hid hk

/-- two results of the same class, only the method name differs -/
theorem single_member_method (h : r.method ≠ s.method) (h1 : r.alternatives = s.alternatives)
    (h2 : arrClose t r.values s.values = true) (h3 : valClose t r.extra s.extra = true) :
    diff t checkDtypes (.res r) (.res s) = .ok ⟨false, ["method"]⟩ ∧
    aequals t checkDtypes (.res r) (.res s) = .ok false := by
  simp [aequals, diff, resDiff_res, resFlags, failing, aequalsOf, Difference.hasDifferences, *]

/-- only the alternative names (or their number) differ -/
theorem single_member_result_alternatives (h0 : r.method = s.method) (h : r.alternatives ≠ s.alternatives)
    (h2 : arrClose t r.values s.values = true) (h3 : valClose t r.extra s.extra = true) :
    diff t checkDtypes (.res r) (.res s) = .ok ⟨false, ["alternatives"]⟩ ∧
    aequals t checkDtypes (.res r) (.res s) = .ok false := by
  simp [aequals, diff, resDiff_res, resFlags, failing, aequalsOf, Difference.hasDifferences, *]

/-- `values` differ beyond tolerance (or in length: `arrClose` compares the shapes first) -/
theorem single_member_values (h0 : r.method = s.method) (h1 : r.alternatives = s.alternatives)
    (h : arrClose t r.values s.values = false) (h3 : valClose t r.extra s.extra = true) :
    diff t checkDtypes (.res r) (.res s) = .ok ⟨false, ["values"]⟩ ∧
    aequals t checkDtypes (.res r) (.res s) = .ok false := by
  simp [aequals, diff, resDiff_res, resFlags, failing, aequalsOf, Difference.hasDifferences, *]

/-- the extras differ beyond *the caller's* tolerance -/
theorem single_member_extra (h0 : r.method = s.method) (h1 : r.alternatives = s.alternatives)
    (h2 : arrClose t r.values s.values = true) (h : valClose t r.extra s.extra = false) :
    diff t checkDtypes (.res r) (.res s) = .ok ⟨false, ["extra_"]⟩ ∧
    aequals t checkDtypes (.res r) (.res s) = .ok false := by
  simp [aequals, diff, resDiff_res, resFlags, failing, aequalsOf, Difference.hasDifferences, *]

end res

/-- two distinct rank comparators are `aequals` iff they hold equally many rankings and, position by
position, the names agree and the rankings have no difference at the caller's tolerance; otherwise
`diff` names `ranks` -/
theorem single_member_ranks (t : Tol α) (checkDtypes : Bool) (c e : Rcmp α) (hid : c.oid ≠ e.oid) :
    (aequals t checkDtypes (.rcmp c) (.rcmp e) = .ok true ↔
      c.ranks.length = e.ranks.length ∧
      ∀ p ∈ List.zip c.ranks e.ranks, p.1.1 = p.2.1 ∧
        aequals t checkDtypes (.res p.1.2) (.res p.2.2) = .ok true) ∧
    (aequals t checkDtypes (.rcmp c) (.rcmp e) = .ok false →
      diff t checkDtypes (.rcmp c) (.rcmp e) = .ok ⟨false, ["ranks"]⟩) := by
  have hres : ∀ r s : Res α, aequals t checkDtypes (.res r) (.res s) = .ok true ↔ resSame t r s = true := by
    intro r s
    obtain ⟨d, hd, hh⟩ := resDiff_hasDifferences t r s
    simp [aequals, diff, hd, aequalsOf, hh]
  have hd := rcmpDiff_rcmp t c e
  simp only [hid, if_false] at hd
  have ha : aequals t checkDtypes (.rcmp c) (.rcmp e) = aequalsOf (rcmpDiff t c (.rcmp e)) := rfl
  have hdd : diff t checkDtypes (.rcmp c) (.rcmp e) = rcmpDiff t c (.rcmp e) := rfl
  rw [ha, hdd, hd]
  simp only [hres]
  generalize hX : (decide (c.ranks.length = e.ranks.length) &&
    (List.zip c.ranks e.ranks).all fun p => decide (p.1.1 = p.2.1) && resSame t p.1.2 p.2.2) = X
  cases X
  · have hf : failing [("ranks", false)] = ["ranks"] := rfl
    have hq : aequalsOf (.ok ⟨false, ["ranks"]⟩) = .ok false := rfl
    rw [hf, hq]
    simp only [Bool.and_eq_false_iff, decide_eq_false_iff_not, List.all_eq_false, Bool.and_eq_true,
      decide_eq_true_eq] at hX
    refine ⟨⟨fun h => by simp at h, ?_⟩, fun _ => rfl⟩
    rintro ⟨h1, h2⟩
    rcases hX with hX | ⟨p, hp, hn⟩
    · exact absurd h1 hX
    · exact absurd (h2 p hp) hn
  · have hf : failing [("ranks", true)] = [] := rfl
    have hq : aequalsOf (.ok ⟨false, []⟩) = .ok true := rfl
    rw [hf, hq]
    simp only [Bool.and_eq_true, decide_eq_true_eq, List.all_eq_true] at hX
    exact ⟨⟨fun _ => ⟨hX.1, fun p hp => hX.2 p hp⟩, fun _ => rfl⟩, fun h => by simp at h⟩

/-! ## non-vacuity: concrete instances of the hypotheses -/

def dmA : DM Rat := ⟨1, [2, 2], ["A0", "A1"], ["C0", "C1"], [1, -1], [some 1, some 2],
  ⟨[2, 2], [some 1, some 2, some 3, some 4], false⟩, ["int64", "int64"]⟩
/-- same data, another object, one weight moved by 1/1000 -/
def dmB : DM Rat := { dmA with oid := 2, weights := [some 1, some (2 + 1/1000)] }
/-- same numbers stored as floats -/
def dmF : DM Rat := { dmA with oid := 3, dtypes := ["float64", "int64"] }
/-- one alternative less -/
def dmS : DM Rat := ⟨4, [1, 2], ["A0"], ["C0", "C1"], [1, -1], [some 1, some 2],
  ⟨[1, 2], [some 1, some 2], false⟩, ["int64", "int64"]⟩

example : okOf (diff (⟨0, 1/10000, false⟩ : Tol Rat) false (.dm dmA) (.dm dmB)) = some ⟨false, ["weights"]⟩ ∧
    okOf (aequals (⟨0, 1/100, false⟩ : Tol Rat) false (.dm dmA) (.dm dmB)) = some true ∧
    okOf (eq (.dm dmA) (.dm dmB)) = some false := by decide +kernel
example : okOf (eq (.dm dmA) (.dm { dmA with oid := 9 })) = some true ∧ (Obj.dm dmA).finite = true := by
  decide +kernel
example : (Obj.dm dmA).strip = (Obj.dm { dmA with oid := 9 }).strip := rfl
example : okOf (eq (.dm dmA) (.dm dmF)) = some false ∧
    okOf (aequals (exact : Tol Rat) false (.dm dmA) (.dm dmF)) = some true := by decide +kernel
example : okOf (diff (exact : Tol Rat) false (.dm dmA) (.dm dmS)) =
    some ⟨false, ["shape", "criteria", "alternatives", "objectives", "weights", "matrix"]⟩ := by decide +kernel
example : okOf (diff (exact : Tol Rat) true (.dm dmA) (.res rank2)) = some ⟨true, []⟩ ∧
    okOf (diff (exact : Tol Rat) true (.res rank2) (.other 7 "int")) = some ⟨true, []⟩ ∧
    okOf (eq (.res rank2) ((.res { rank2 with oid := 8, kind := .kernel }))) = some false := by decide +kernel
example : okOf (diff (exact : Tol Rat) false (.res rank3) (.res rank2)) = some ⟨false, ["alternatives", "values"]⟩ ∧
    okOf (diff (exact : Tol Rat) false (.res rank3) (.res rank1)) = some ⟨false, ["alternatives", "values"]⟩ ∧
    okOf (diff (⟨1, 1, false⟩ : Tol Rat) false (.res rank3) (.res rank1)) = some ⟨false, ["alternatives", "values"]⟩ := by
  decide +kernel
example : okOf (diff (⟨0, 1/100000, false⟩ : Tol Rat) false (.res (withScore 1 [some 1, some 2, some 3]))
      (.res (withScore 2 [some 1, some 2, some (3 + 1/1000)]))) = some ⟨false, ["extra_"]⟩ ∧
    (Obj.res (withScore 1 [some 1, some 2, some 3])).valid = true := by decide +kernel
example : okOf (eq (.rcmp ⟨5, [("x", rank3), ("y", { rank3 with oid := 4 })]⟩)
      (.rcmp ⟨6, [("x", { rank3 with oid := 7 }), ("y", rank3)]⟩)) = some true ∧
    okOf (diff (exact : Tol Rat) false (.rcmp ⟨5, [("x", rank3), ("y", rank3)]⟩)
      (.rcmp ⟨6, [("x", rank3), ("z", rank3)]⟩)) = some ⟨false, ["ranks"]⟩ ∧
    okOf (diff (exact : Tol Rat) false (.rcmp ⟨5, [("x", rank3), ("y", rank3)]⟩)
      (.rcmp ⟨6, [("x", rank2), ("y", rank2)]⟩)) = some ⟨false, ["ranks"]⟩ := by decide +kernel
/-- NaN: a copy is `aequals` with `equal_nan`, not `equals` (why `equals_refl_copy` asks for finite values) -/
example : okOf (eq (.dm { dmA with weights := [none, some 2] }) (.dm { dmA with oid := 2, weights := [none, some 2] }))
      = some false ∧
    okOf (aequals (⟨0, 0, true⟩ : Tol Rat) true (.dm { dmA with weights := [none, some 2] })
      (.dm { dmA with oid := 2, weights := [none, some 2] })) = some true := by decide +kernel

end Skc.C17
