import Skc.Proofs.AggMono
import Skc.Proofs.RankFin
import Skc.Props.C04
set_option linter.unusedSectionVars false

/-! # C06 — a dominated alternative is never ranked above the one that dominates it

For the kernels of `Skc/Model/Agg.lean` (the model of `simple.py`, `moora.py`, `similarity.py`),
positive weights, any shape, any objective mix.  `dominates o (A a) (A b)`: `a` is nowhere worse
and somewhere better than `b` under each criterion's own objective (`Skc/Proofs/Dominance.lean`).
`rankFin rev s i` is the rank `rank_values(s, reverse=rev)` gives alternative `i`. -/
namespace Skc.C06
open Skc Skc.Agg Finset

variable {m n : ℕ}

section field
variable {α : Type} [Field α] [LinearOrder α] [IsStrictOrderedRing α]

/-- RatioMOORA: the dominating alternative scores strictly higher -/
theorem ratio_dom_strict (A : Mat m n α) (o : Vec n Obj) (w : Vec n α) (hw : ∀ j, 0 < w j)
    (a b : Fin m) (hd : dominates o (A a) (A b)) : ratio A o w b < ratio A o w a := by
  unfold ratio; rw [sumFin_eq_sum, sumFin_eq_sum]
  obtain ⟨j, hj⟩ := hd.2
  exact sum_lt_sum (fun j _ => signed_term_mono (hw j) (hd.1 j)) ⟨j, mem_univ j, signed_term_strict (hw j) hj⟩

/-- WSM (all criteria maximised — its domain) -/
theorem wsm_dom_strict (A : Mat m n α) (w : Vec n α) (hw : ∀ j, 0 < w j)
    (a b : Fin m) (hd : dominates (fun _ => Obj.max) (A a) (A b)) : wsm A w b < wsm A w a := by
  have h := ratio_dom_strict A (fun _ => Obj.max) w hw a b hd
  simpa [ratio, wsm] using h

/-- ReferencePointMOORA (lower is better): the dominating alternative is at most as far from the
reference point -/
theorem refpoint_dom_mono [NeZero m] [NeZero n] (A : Mat m n α) (o : Vec n Obj) (w : Vec n α) (hw : ∀ j, 0 < w j)
    (a b : Fin m) (hd : dominates o (A a) (A b)) : refpoint A o w a ≤ refpoint A o w b := by
  unfold refpoint
  rw [maxFin_le_iff]; intro j
  refine le_trans ?_ (le_maxFin _ j)
  simp only [absv_eq_abs, abs_mul, abs_of_pos (hw j)]
  refine mul_le_mul_of_nonneg_left ?_ (hw j).le
  have h := hd.1 j
  have h1 := le_colMax A a j; have h2 := le_colMax A b j
  have h3 := colMin_le A a j; have h4 := colMin_le A b j
  unfold referencePoint
  cases ho : o j <;> simp only [ho] at h
  · have := atLeast_max.mp h
    simp only [if_true]
    rw [abs_of_nonpos (by linarith), abs_of_nonpos (by linarith)]; linarith
  · have := atLeast_min.mp h
    simp only [reduceCtorEq, if_false]
    rw [abs_of_nonneg (by linarith), abs_of_nonneg (by linarith)]; linarith

/-- TOPSIS with squared-Euclidean, city-block or Chebyshev distance -/
theorem topsisQ_dom_mono [NeZero m] [NeZero n] (μ : Metric) (A : Mat m n α) (o : Vec n Obj) (w : Vec n α)
    (hw : ∀ j, 0 < w j) (a b : Fin m) (hd : dominates o (A a) (A b)) : topsisQ μ A o w b ≤ topsisQ μ A o w a :=
  similarityWith_dom_mono (monoMetric_distQ μ) A o w hw a b hd

/-! ### consequences for the ranking (with C03's rank/score order) -/

/-- higher-is-better methods: a score at least as good gives a rank at least as good … -/
theorem rank_le_of_score_ge (s : Fin m → α) (a b : Fin m) (h : s b ≤ s a) : rankFin true s a ≤ rankFin true s b :=
  rankFin_true_le_of_ge s a b h
/-- … and for lower-is-better methods (ReferencePointMOORA) -/
theorem rank_le_of_score_le (s : Fin m → α) (a b : Fin m) (h : s a ≤ s b) : rankFin false s a ≤ rankFin false s b :=
  rankFin_false_le_of_le s a b h

theorem ratio_dom_rank (A : Mat m n α) (o : Vec n Obj) (w : Vec n α) (hw : ∀ j, 0 < w j)
    (a b : Fin m) (hd : dominates o (A a) (A b)) : rankFin true (ratio A o w) a < rankFin true (ratio A o w) b :=
  (rankFin_true_lt_iff _ a b).mpr (ratio_dom_strict A o w hw a b hd)
theorem wsm_dom_rank (A : Mat m n α) (w : Vec n α) (hw : ∀ j, 0 < w j)
    (a b : Fin m) (hd : dominates (fun _ => Obj.max) (A a) (A b)) : rankFin true (wsm A w) a < rankFin true (wsm A w) b :=
  (rankFin_true_lt_iff _ a b).mpr (wsm_dom_strict A w hw a b hd)
theorem refpoint_dom_rank [NeZero m] [NeZero n] (A : Mat m n α) (o : Vec n Obj) (w : Vec n α) (hw : ∀ j, 0 < w j)
    (a b : Fin m) (hd : dominates o (A a) (A b)) : rankFin false (refpoint A o w) a ≤ rankFin false (refpoint A o w) b :=
  rank_le_of_score_le _ a b (refpoint_dom_mono A o w hw a b hd)
theorem topsisQ_dom_rank [NeZero m] [NeZero n] (μ : Metric) (A : Mat m n α) (o : Vec n Obj) (w : Vec n α)
    (hw : ∀ j, 0 < w j) (a b : Fin m) (hd : dominates o (A a) (A b)) :
    rankFin true (topsisQ μ A o w) a ≤ rankFin true (topsisQ μ A o w) b :=
  rank_le_of_score_ge _ a b (topsisQ_dom_mono μ A o w hw a b hd)

/-- two alternatives with identical values on every criterion get the same score from every
kernel, hence the same rank -/
theorem dup_same_score (A : Mat m n α) (o : Vec n Obj) (w : Vec n α) (a b : Fin m) (h : A a = A b) :
    wsm A w a = wsm A w b ∧ ratio A o w a = ratio A o w b := by
  simp [wsm, ratio, h]
theorem dup_same_score_colwise [NeZero m] [NeZero n] (μ : Metric) (A : Mat m n α) (o : Vec n Obj) (w : Vec n α)
    (a b : Fin m) (h : A a = A b) :
    refpoint A o w a = refpoint A o w b ∧ topsisQ μ A o w a = topsisQ μ A o w b := by
  have hw : weighted A w a = weighted A w b := by funext j; simp [weighted, h]
  simp [refpoint, topsisQ, similarityWith, hw, h]
theorem dup_same_rank (rev : Bool) (s : Fin m → α) (a b : Fin m) (h : s a = s b) : rankFin rev s a = rankFin rev s b :=
  rankFin_eq_of_eq rev s a b h
end field

/-! ### kernels with `sqrt` / `log`, over `ℝ` -/

theorem monoMetric_dist [NeZero n] (μ : Metric) : MonoMetric (Agg.dist (α := ℝ) (n := n) μ) := by
  have hq := monoMetric_distQ (α := ℝ) (n := n) μ
  cases μ
  case euclidean | minkowski =>
    have hs := monoMetric_distQ (α := ℝ) (n := n) .sqeuclidean
    refine ⟨fun x t => Real.sqrt_nonneg _, fun x y t h => Real.sqrt_le_sqrt (hs.mono x y t h), fun x t h => ?_⟩
    exact Real.sqrt_pos.mpr (hs.pos x t h)
  all_goals exact hq

/-- TOPSIS with every metric of the Minkowski family the property lists -/
theorem topsis_dom_mono [NeZero m] [NeZero n] (μ : Metric) (A : Mat m n ℝ) (o : Vec n Obj) (w : Vec n ℝ)
    (hw : ∀ j, 0 < w j) (a b : Fin m) (hd : dominates o (A a) (A b)) : topsis μ A o w b ≤ topsis μ A o w a :=
  similarityWith_dom_mono (monoMetric_dist μ) A o w hw a b hd

theorem topsis_dom_rank [NeZero m] [NeZero n] (μ : Metric) (A : Mat m n ℝ) (o : Vec n Obj) (w : Vec n ℝ)
    (hw : ∀ j, 0 < w j) (a b : Fin m) (hd : dominates o (A a) (A b)) :
    rankFin true (topsis μ A o w) a ≤ rankFin true (topsis μ A o w) b :=
  rank_le_of_score_ge _ a b (topsis_dom_mono μ A o w hw a b hd)

/-- WPM (all criteria maximised, positive data) -/
theorem wpm_dom_strict (A : Mat m n ℝ) (hA : ∀ i j, 0 < A i j) (w : Vec n ℝ) (hw : ∀ j, 0 < w j)
    (a b : Fin m) (hd : dominates (fun _ => Obj.max) (A a) (A b)) : wpm A w b < wpm A w a := by
  unfold wpm; rw [sumFin_eq_sum, sumFin_eq_sum]
  obtain ⟨j, hj⟩ := hd.2
  have hmono : ∀ j, Real.logb 10 (A b j) ≤ Real.logb 10 (A a j) := fun j =>
    Real.logb_le_logb_of_le (by norm_num) (hA b j) (atLeast_max.mp (hd.1 j))
  refine sum_lt_sum (fun j _ => mul_le_mul_of_nonneg_right (hmono j) (hw j).le) ⟨j, mem_univ j, ?_⟩
  have : A b j < A a j := by simpa [better] using hj
  exact mul_lt_mul_of_pos_right (Real.logb_lt_logb (by norm_num) (hA b j) this) (hw j)

/-- the published FMF formula is strictly monotone under dominance (mixed objectives, positive data) -/
theorem fmfSpec_dom_strict (A : Mat m n ℝ) (hA : ∀ i j, 0 < A i j) (o : Vec n Obj) (w : Vec n ℝ) (hw : ∀ j, 0 < w j)
    (a b : Fin m) (hd : dominates o (A a) (A b)) : fmfSpec A o w b < fmfSpec A o w a := by
  unfold fmfSpec; rw [sumFin_eq_sum, sumFin_eq_sum]
  obtain ⟨j, hj⟩ := hd.2
  have key : ∀ j, (o j).sgn * Real.log (A b j * w j) ≤ (o j).sgn * Real.log (A a j * w j) := by
    intro j
    have hb := mul_pos (hA b j) (hw j); have ha := mul_pos (hA a j) (hw j)
    have h := hd.1 j
    cases ho : o j <;> simp only [ho] at h
    · simp only [sgn_max, one_mul]
      exact Real.log_le_log hb (mul_le_mul_of_nonneg_right (atLeast_max.mp h) (hw j).le)
    · simp only [sgn_min, neg_mul, one_mul, neg_le_neg_iff]
      exact Real.log_le_log ha (mul_le_mul_of_nonneg_right (atLeast_min.mp h) (hw j).le)
  refine sum_lt_sum (fun j _ => key j) ⟨j, mem_univ j, ?_⟩
  have hb := mul_pos (hA b j) (hw j); have ha := mul_pos (hA a j) (hw j)
  cases ho : o j <;> simp only [ho, better] at hj
  · simp only [sgn_max, one_mul, log_real]
    exact Real.log_lt_log hb (mul_lt_mul_of_pos_right hj (hw j))
  · simp only [sgn_min, neg_mul, one_mul, neg_lt_neg_iff, log_real]
    exact Real.log_lt_log ha (mul_lt_mul_of_pos_right hj (hw j))

/-- hence the score the code reports (also in the all-minimise case, where it is the formula plus 1) -/
theorem fmfCode_dom_strict (A : Mat m n ℝ) (hA : ∀ i j, 0 < A i j) (o : Vec n Obj) (w : Vec n ℝ) (hw : ∀ j, 0 < w j)
    (hn : 0 < n) (a b : Fin m) (hd : dominates o (A a) (A b)) : fmfCode A o w b < fmfCode A o w a :=
  (C04.fmf_order_always A o w hn b a).mpr (fmfSpec_dom_strict A hA o w hw a b hd)

theorem wpm_dom_rank (A : Mat m n ℝ) (hA : ∀ i j, 0 < A i j) (w : Vec n ℝ) (hw : ∀ j, 0 < w j)
    (a b : Fin m) (hd : dominates (fun _ => Obj.max) (A a) (A b)) : rankFin true (wpm A w) a < rankFin true (wpm A w) b :=
  (rankFin_true_lt_iff _ a b).mpr (wpm_dom_strict A hA w hw a b hd)
theorem fmf_dom_rank (A : Mat m n ℝ) (hA : ∀ i j, 0 < A i j) (o : Vec n Obj) (w : Vec n ℝ) (hw : ∀ j, 0 < w j)
    (hn : 0 < n) (a b : Fin m) (hd : dominates o (A a) (A b)) : rankFin true (fmfCode A o w) a < rankFin true (fmfCode A o w) b :=
  (rankFin_true_lt_iff _ a b).mpr (fmfCode_dom_strict A hA o w hw hn a b hd)

/-! non-vacuity: a concrete dominating pair with mixed objectives -/
example : dominates (n := 2) (fun j => if j = 0 then Obj.max else Obj.min) (fun j => if j = 0 then (3 : ℚ) else 1)
    (fun j => if j = 0 then 2 else 1) := by
  decide

end Skc.C06
