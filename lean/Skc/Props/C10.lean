import Skc.Proofs.Transform
import Skc.Generated.Transformers
set_option linter.unusedSectionVars false
set_option linter.unusedVariables false

/-! # C10 — transformers change only the part of the decision matrix they declare

Property theorems only (definitions and helpers: `Skc/Proofs/Transform.lean`; model:
`Skc/Model/Transform.lean`; table extracted from the tree under test:
`Skc/Generated/Transformers.lean`).

Conventions. A decision matrix is the six parts `to_dict()` reports (`Parts`). `transform env T d`
is `from_mcda_data(**T._transform_data(**d.to_dict()))`; it answers `.ok d'` or the exception.
All numeric functions (`tm`, `tw`, `f`, `invert`, `h`, masks, `env.infer`, `env.cast`) are
arbitrary: nothing here depends on what they compute — only on which keys the code rewrites and
where the values it writes come from.

`FrameAt P d d'` : every part **outside** `P` of `d'` is the same value as in `d` (same list of
labels in the same order, same list of numbers — no arithmetic has touched it).
`Frame env T P` : for every *stored* `d` (`Stored env d`: the matrix is stored in its own dtypes —
true of every `DecisionMatrix`, whose dtypes are read off its frame) and every answer
`transform env T d = .ok d'`: `FrameAt P d d'`.
`declaredFor family target` is hand-written from the property text; `criteria` is in none of the
declared sets and `alternatives` only in those of the two filter families
(`declared_criteria_alternatives`). -/
namespace Skc.C10
open Skc.Transform

variable {α δ : Type}

/-! ## the declared sets -/

/-- no built-in family declares the criteria; the alternatives are declared by the filters only -/
theorem declared_criteria_alternatives (f : Family) (t : Option Target) :
    Part.criteria ∉ declaredFor f t ∧
    (Part.alternatives ∈ declaredFor f t ↔ f = .filter ∨ f = .nonDominated) ∧
    (Part.objectives ∈ declaredFor f t ↔ f = .inverter) := by
  cases f <;> cases t with
    | none => decide
    | some t => cases t <;> decide

/-- the table read off the CURRENT tree (for every concrete transformer class, per target: the
`to_dict()` keys its `_transform_data` hands back as a different object) stays inside what the
class's family declares -/
theorem declared_table :
    ∀ t ∈ Skc.Generated.transformers, ∀ p ∈ t.written, p ∈ declaredFor t.family t.target := by
  decide

/-! ## the target switch -/

/-- `SKCMatrixAndWeightTransformerABC._transform_data`, key by key: the matrix is transformed
exactly under `matrix`/`both`, the weights exactly under `weights`/`both`, `dtypes=None` always,
the other three keys and any further keyword are passed on -/
theorem target_switch_spec (tm : List (List α) → List (List α)) (tw : List α → List α)
    (t : Target) (k : Dict α δ) :
    (mwData tm tw t k).matrix = (match t with
      | .matrix => tm k.matrix | .weights => k.matrix | .both => tm k.matrix) ∧
    (mwData tm tw t k).weights = (match t with
      | .matrix => k.weights | .weights => tw k.weights | .both => tw k.weights) ∧
    (mwData tm tw t k).dtypes = none ∧
    (mwData tm tw t k).objectives = k.objectives ∧
    (mwData tm tw t k).alternatives = k.alternatives ∧
    (mwData tm tw t k).criteria = k.criteria ∧
    (mwData tm tw t k).extra = k.extra := by
  cases t <;> exact ⟨rfl, rfl, rfl, rfl, rfl, rfl, rfl⟩

/-- the constructor accepts exactly the three target names -/
theorem target_ofString_error_iff (s : String) :
    Target.ofString s = .error .valueError ↔ s ≠ "matrix" ∧ s ≠ "weights" ∧ s ≠ "both" := by
  unfold Target.ofString
  by_cases h1 : s = "matrix"
  · simp [h1]
  · by_cases h2 : s = "weights"
    · simp [h2]
    · by_cases h3 : s = "both"
      · simp [h3]
      · simp [h1, h2, h3]

/-- every scaler, `PushNegatives`, `AddValueToZero`: `matrix ↦ {matrix, dtypes}`,
`weights ↦ {weights, dtypes}`, `both ↦ {matrix, weights, dtypes}`; outside that set the parts come
back as the same values (the untouched one of matrix/weights is the very value read from the
input). -/
theorem scaler_frame (env : Env α δ) (tm : List (List α) → List (List α)) (tw : List α → List α)
    (t : Target) : Frame env (mwTransformer tm tw t) (declaredFor .targetSwitch (some t)) := by
  intro d d' _ h
  obtain ⟨k, hk, hf⟩ := transform_ok env _ d d' h
  simp only [mwTransformer, Except.ok.injEq] at hk
  subst hk
  obtain ⟨ho, hw, ha, hc, hn, _⟩ := fromMcda_ok env _ d' hf
  obtain ⟨hm, _⟩ := hn rfl
  cases t
  · exact ⟨fun hp => absurd (by decide) hp, fun _ => ho, fun _ => hw,
      fun hp => absurd (by decide) hp, fun _ => ha, fun _ => hc⟩
  · exact ⟨fun _ => hm, fun _ => ho, fun hp => absurd (by decide) hp,
      fun hp => absurd (by decide) hp, fun _ => ha, fun _ => hc⟩
  · exact ⟨fun hp => absurd (by decide) hp, fun _ => ho, fun hp => absurd (by decide) hp,
      fun hp => absurd (by decide) hp, fun _ => ha, fun _ => hc⟩

/-- `target="weights"` on a matrix whose dtypes are the ones pandas infers from the array
`to_dict()` hands over (e.g. all criteria float): nothing but the weights changes. (Without the
hypothesis the dtypes ARE re-inferred: integer criteria next to float ones come back float64.) -/
theorem scaler_weights_frame_canonical (env : Env α δ) (tm : List (List α) → List (List α))
    (tw : List α → List α) (d d' : Parts α δ)
    (hcanon : d.dtypes = env.infer d.criteria.length d.matrix)
    (h : transform env (mwTransformer tm tw .weights) d = .ok d') :
    FrameAt [Part.weights] d d' ∧ d'.weights = tw d.weights := by
  obtain ⟨k, hk, hf⟩ := transform_ok env _ d d' h
  simp only [mwTransformer, Except.ok.injEq] at hk
  subst hk
  obtain ⟨ho, hw, ha, hc, hn, _⟩ := fromMcda_ok env _ d' hf
  obtain ⟨hm, hdt⟩ := hn rfl
  exact ⟨⟨fun _ => hm, fun _ => ho, fun hp => absurd (by decide) hp,
    fun _ => hdt.trans hcanon.symm, fun _ => ha, fun _ => hc⟩, hw⟩

/-- `CenitDistanceMatrixScaler`: `{matrix, dtypes}` -/
theorem cenit_frame (env : Env α δ) (f : List (List α) → List Obj → List (List α)) (floatDt : δ) :
    Frame env (cenitTransformer f floatDt) (declaredFor .cenit none) := by
  intro d d' _ h
  obtain ⟨k, hk, hf⟩ := transform_ok env _ d d' h
  simp only [cenitTransformer, Except.ok.injEq] at hk
  subst hk
  obtain ⟨ho, hw, ha, hc, _, _⟩ := fromMcda_ok env _ d' hf
  exact ⟨fun hp => absurd (by decide) hp, fun _ => ho, fun _ => hw,
    fun hp => absurd (by decide) hp, fun _ => ha, fun _ => hc⟩

/-! ## weighters -/

/-- every weighter: `{weights}` — matrix, objectives, dtypes, alternatives and criteria come back as
the same values, and the new weights are what `_weight_matrix` computed from the input -/
theorem weighter_frame (env : Env α δ) (f : List (List α) → List Obj → List α → List α) :
    Frame env (weighterTransformer f) (declaredFor .weighter none) ∧
    ∀ d d', transform env (weighterTransformer f) d = .ok d' →
      d'.weights = f d.matrix d.objectives d.weights := by
  refine ⟨fun d d' hs h => ?_, fun d d' h => ?_⟩
  · obtain ⟨k, hk, hf⟩ := transform_ok env _ d d' h
    simp only [weighterTransformer, Except.ok.injEq] at hk
    subst hk
    obtain ⟨ho, _, ha, hc, _, hsome⟩ := fromMcda_ok env _ d' hf
    obtain ⟨hm, hdt⟩ := hsome d.dtypes rfl
    exact ⟨fun _ => hm.trans hs, fun _ => ho, fun hp => absurd (by decide) hp, fun _ => hdt,
      fun _ => ha, fun _ => hc⟩
  · obtain ⟨k, hk, hf⟩ := transform_ok env _ d d' h
    simp only [weighterTransformer, Except.ok.injEq] at hk
    subst hk
    exact (fromMcda_ok env _ d' hf).2.1

/-! ## objective inverters -/

/-- `NegateMinimize`, `InvertMinimize`: `{matrix, objectives, dtypes}`, and afterwards every
objective is maximise (one per criterion, as before) -/
theorem inverter_frame (env : Env α δ) (invert : List (List α) → List Bool → List (List α))
    (newDt : δ) :
    Frame env (inverterTransformer invert newDt) (declaredFor .inverter none) ∧
    ∀ d d', transform env (inverterTransformer invert newDt) d = .ok d' →
      d'.objectives = List.replicate d.objectives.length Obj.max := by
  refine ⟨fun d d' _ h => ?_, fun d d' h => ?_⟩
  · obtain ⟨k, hk, hf⟩ := transform_ok env _ d d' h
    simp only [inverterTransformer, Except.ok.injEq] at hk
    subst hk
    obtain ⟨_, hw, ha, hc, _, _⟩ := fromMcda_ok env _ d' hf
    exact ⟨fun hp => absurd (by decide) hp, fun hp => absurd (by decide) hp, fun _ => hw,
      fun hp => absurd (by decide) hp, fun _ => ha, fun _ => hc⟩
  · obtain ⟨k, hk, hf⟩ := transform_ok env _ d d' h
    simp only [inverterTransformer, Except.ok.injEq] at hk
    subst hk
    rw [(fromMcda_ok env _ d' hf).1]
    simp [toDict, List.map_const']

/-- if `_invert` leaves the columns outside the minimise mask alone (it is the identity there:
`inv_mtx[:, minimize_mask] = …` assigns the masked columns only), every cell of every **maximise**
criterion comes back as the same value — also through the cast back to the criterion's own dtype -/
theorem inverter_max_columns (env : Env α δ) (invert : List (List α) → List Bool → List (List α))
    (newDt : δ)
    (hid : ∀ m mask i j, mask[j]? = some false → cellAt (invert m mask) i j = cellAt m i j)
    (d d' : Parts α δ) (hs : Stored env d)
    (h : transform env (inverterTransformer invert newDt) d = .ok d')
    (i j : Nat) (hj : d.objectives[j]? = some Obj.max) :
    cellAt d'.matrix i j = cellAt d.matrix i j := by
  obtain ⟨k, hk, hf⟩ := transform_ok env _ d d' h
  simp only [inverterTransformer, Except.ok.injEq] at hk
  subst hk
  obtain ⟨hm, _⟩ := (fromMcda_ok env _ d' hf).2.2.2.2.2 _ rfl
  rw [hm]
  simp only [toDict, Option.getD_some]
  have hmask : (d.objectives.map fun o => o == Obj.min)[j]? = some false := by
    rw [List.getElem?_map, hj]
    rfl
  rw [cellAt_astype, hid _ _ i j hmask, List.getElem?_zipWith, hmask]
  have hst := congrArg (fun m => cellAt m i j) hs
  simp only [cellAt_astype] at hst
  cases hd : d.dtypes[j]? with
  | none => rw [hd] at hst; simpa using hst
  | some dt => rw [hd] at hst; simpa using hst

/-! ## imputers -/

/-- `SimpleImputer`, `IterativeImputer`, `KNNImputer`: `{matrix, dtypes}` -/
theorem imputer_frame (env : Env α δ) (h : List (List α) → List (List α)) :
    Frame env (imputerTransformer h) (declaredFor .imputer none) := by
  intro d d' _ ht
  obtain ⟨k, hk, hf⟩ := transform_ok env _ d d' ht
  simp only [imputerTransformer, Except.ok.injEq] at hk
  subst hk
  obtain ⟨ho, hw, ha, hc, _, _⟩ := fromMcda_ok env _ d' hf
  exact ⟨fun hp => absurd (by decide) hp, fun _ => ho, fun _ => hw,
    fun hp => absurd (by decide) hp, fun _ => ha, fun _ => hc⟩

/-! ## filters -/

/-- the criteria filters (`Filter`, `FilterGT … FilterNE`, `FilterIn`, `FilterNotIn`), whatever
mask they compute: the surviving (alternative, row) pairs are a sublist of the original pairs —
relative order kept, every surviving row IS the row its alternative had — so the alternatives are a
sublist of the alternatives; objectives, weights and criteria come back as the same values -/
theorem filter_rows (env : Env α δ) (mask : Dict α δ → Except Err (Option (List Bool)))
    (d d' : Parts α δ) (h : transform env (filterTransformer mask) d = .ok d') :
    (d'.alternatives.zip d'.matrix).Sublist (d.alternatives.zip d.matrix) ∧
    d'.alternatives.Sublist d.alternatives ∧ d'.matrix.Sublist d.matrix ∧
    FrameAt (declaredFor .filter none) d d' := by
  obtain ⟨k, hk, hf⟩ := transform_ok env _ d d' h
  unfold filterTransformer at hk
  split at hk
  · cases hk
  · simp only [Except.ok.injEq] at hk
    subst hk
    obtain ⟨ho, hw, ha, hc, hn, _⟩ := fromMcda_ok env _ d' hf
    obtain ⟨hm, _⟩ := hn rfl
    rw [ha, hm]
    exact ⟨List.Sublist.refl _, List.Sublist.refl _, List.Sublist.refl _,
      fun hp => absurd (by decide) hp, fun _ => ho, fun _ => hw,
      fun hp => absurd (by decide) hp, fun hp => absurd (by decide) hp, fun _ => hc⟩
  · rename_i b _
    simp only [Except.ok.injEq] at hk
    subst hk
    obtain ⟨ho, hw, ha, hc, hn, _⟩ := fromMcda_ok env _ d' hf
    obtain ⟨hm, _⟩ := hn rfl
    rw [ha, hm]
    exact ⟨select_pairs_sublist b _ _, select_sublist b _, select_sublist b _,
      fun hp => absurd (by decide) hp, fun _ => ho, fun _ => hw,
      fun hp => absurd (by decide) hp, fun hp => absurd (by decide) hp, fun _ => hc⟩

/-- `FilterNonDominated` (its own `transform`; `dtypes` are passed on, so the surviving rows go
through the cast to their own dtypes): the same, and the dtypes come back as the same value -/
theorem nondominated_rows (env : Env α δ) (dominated : Dict α δ → List Bool)
    (d d' : Parts α δ) (hs : Stored env d)
    (h : transform env (nonDominatedTransformer dominated) d = .ok d') :
    (d'.alternatives.zip d'.matrix).Sublist (d.alternatives.zip d.matrix) ∧
    d'.alternatives.Sublist d.alternatives ∧ d'.matrix.Sublist d.matrix ∧
    FrameAt (declaredFor .nonDominated none) d d' := by
  obtain ⟨k, hk, hf⟩ := transform_ok env _ d d' h
  simp only [nonDominatedTransformer, Except.ok.injEq] at hk
  subst hk
  obtain ⟨ho, hw, ha, hc, _, hsome⟩ := fromMcda_ok env _ d' hf
  obtain ⟨hm, hdt⟩ := hsome d.dtypes rfl
  have hm' : d'.matrix = select ((dominated (toDict d)).map fun b => !b) d.matrix := by
    rw [hm]
    simp only [toDict]
    rw [astype_select, hs]
  rw [ha, hm']
  exact ⟨select_pairs_sublist _ _ _, select_sublist _ _, select_sublist _ _,
    fun hp => absurd (by decide) hp, fun _ => ho, fun _ => hw, fun _ => hdt,
    fun hp => absurd (by decide) hp, fun _ => hc⟩

/-- a filter that raises (a condition on an absent criterion, not ignored) returns nothing at all -/
theorem filter_error (env : Env α δ) (mask : Dict α δ → Except Err (Option (List Bool)))
    (d : Parts α δ) (e : Err) (h : mask (toDict d) = .error e) :
    transform env (filterTransformer mask) d = .error e := by
  simp [transform, filterTransformer, h]

/-! ## user transformers (`mktransformer`) -/

/-- a transformer made from a user function `f`: if the keys `f` returns on the input (`hparams`
does not count: it is popped) all lie in `P`, every part outside `P` comes back as the same value.
Returning CONCRETE dtypes is returning a cast of the whole matrix: then the matrix must be in `P`
(`mktransformer_dtypes_cast` shows this is needed); returning `dtypes: None` or no dtypes is not. -/
theorem mktransformer_frame (env : Env α δ) (f : Dict α δ → Returned α δ) (P : List Part)
    (d d' : Parts α δ) (hs : Stored env d)
    (hkeys : ∀ p ∈ (f (toDict d)).keys, p ∈ P)
    (hcast : ∀ ds, (f (toDict d)).dtypes = some (some ds) → Part.matrix ∈ P)
    (h : transform env (mkTransformer f) d = .ok d') : FrameAt P d d' := by
  obtain ⟨k, hk, hf⟩ := transform_ok env _ d d' h
  simp only [mkTransformer, Except.ok.injEq] at hk
  subst hk
  obtain ⟨ho, hw, ha, hc, hn, hsome⟩ := fromMcda_ok env _ d' hf
  have key : ∀ (p : Part), p ∉ P → p ∉ (f (toDict d)).keys := fun p hp hin => hp (hkeys p hin)
  generalize f (toDict d) = r at *
  refine ⟨fun hp => ?_, fun hp => ?_, fun hp => ?_, fun hp => ?_, fun hp => ?_, fun hp => ?_⟩
  · -- matrix
    have hmk : r.matrix = none := by
      have := key _ hp
      cases hr : r.matrix with
      | none => rfl
      | some _ => exact absurd (by simp [Returned.keys, hr]) this
    cases hdt : r.dtypes with
    | none =>
      obtain ⟨hm, _⟩ := hsome d.dtypes (by simp [hdt, toDict])
      rw [hm]
      simp only [hmk, Option.getD_none, toDict]
      exact hs
    | some o =>
      cases o with
      | none =>
        obtain ⟨hm, _⟩ := hn (by simp [hdt])
        rw [hm]
        simp [hmk, toDict]
      | some ds => exact absurd (hcast ds hdt) hp
  · have hk' : r.objectives = none := by
      have := key _ hp
      cases hr : r.objectives with
      | none => rfl
      | some _ => exact absurd (by simp [Returned.keys, hr]) this
    rw [ho]
    simp [hk', toDict]
  · have hk' : r.weights = none := by
      have := key _ hp
      cases hr : r.weights with
      | none => rfl
      | some _ => exact absurd (by simp [Returned.keys, hr]) this
    rw [hw]
    simp [hk', toDict]
  · have hk' : r.dtypes = none := by
      have := key _ hp
      cases hr : r.dtypes with
      | none => rfl
      | some _ => exact absurd (by simp [Returned.keys, hr]) this
    obtain ⟨_, hdt⟩ := hsome d.dtypes (by simp [hk', toDict])
    exact hdt
  · have hk' : r.alternatives = none := by
      have := key _ hp
      cases hr : r.alternatives with
      | none => rfl
      | some _ => exact absurd (by simp [Returned.keys, hr]) this
    rw [ha]
    simp [hk', toDict]
  · have hk' : r.criteria = none := by
      have := key _ hp
      cases hr : r.criteria with
      | none => rfl
      | some _ => exact absurd (by simp [Returned.keys, hr]) this
    rw [hc]
    simp [hk', toDict]

/-- what a user function returns is what arrives: a returned part replaces the original, a key that
`from_mcda_data` does not know makes the transform fail with `TypeError` -/
theorem mktransformer_extra_key (env : Env α δ) (f : Dict α δ → Returned α δ) (d : Parts α δ)
    (h : (f (toDict d)).extra ≠ []) : transform env (mkTransformer f) d = .error .typeError := by
  have : ((toDict d).extra ++ (f (toDict d)).extra).isEmpty = false := by
    simpa [toDict] using h
  simp [transform, mkTransformer, fromMcda, this]

/-- the hypothesis `hcast` of `mktransformer_frame` is needed: a function that returns ONLY
`dtypes` (all `int`) for the example matrix (an integer criterion next to a float one) gets the
float criterion truncated: the matrix changes although only `dtypes` was returned -/
theorem mktransformer_dtypes_cast :
    (transform Ex.env (mkTransformer fun _ => { dtypes := some (some [Ex.Dt.int, Ex.Dt.int]) })
        Ex.dm).toOption.map (·.matrix) = some [[10, 20], [40, 50], [70, 10]] ∧
    Ex.dm.matrix = [[10, 25], [40, 55], [70, 15]] := by
  decide

/-! ## pipelines -/

/-- a pipeline whose steps each keep the frame they declare keeps the union of the declared frames
(induction over the steps; the output of a step is again a stored matrix) -/
theorem pipeline_frame (env : Env α δ) (hl : env.Lawful) (steps : List (TData α δ × List Part))
    (hsteps : ∀ s ∈ steps, Frame env s.1 s.2) (P : List Part)
    (hP : ∀ s ∈ steps, ∀ p ∈ s.2, p ∈ P)
    (d d' : Parts α δ) (hs : Stored env d)
    (h : pipeline env (steps.map (·.1)) d = .ok d') : FrameAt P d d' := by
  induction steps generalizing d with
  | nil =>
    simp only [List.map_nil, pipeline, Except.ok.injEq] at h
    subst h
    exact FrameAt.refl P d
  | cons s rest ih =>
    simp only [List.map_cons, pipeline] at h
    split at h
    · cases h
    · rename_i d1 h1
      have f1 : FrameAt P d d1 :=
        (hsteps s (List.mem_cons_self ..) d d1 hs h1).mono (hP s (List.mem_cons_self ..))
      have f2 : FrameAt P d1 d' :=
        ih (fun s' hs' => hsteps s' (List.mem_cons_of_mem _ hs'))
          (fun s' hs' => hP s' (List.mem_cons_of_mem _ hs')) d1
          (transform_stored env hl s.1 d d1 h1) h
      exact f1.trans f2

/-- `declaredPipeline` is such a union: it contains what every step declares -/
theorem declaredPipeline_contains (steps : List (List Part)) :
    ∀ s ∈ steps, ∀ p ∈ s, p ∈ declaredPipeline steps := by
  intro s hs p hp
  unfold declaredPipeline
  rw [List.mem_filter]
  refine ⟨by cases p <;> decide, ?_⟩
  rw [List.any_eq_true]
  exact ⟨s, hs, by simpa using hp⟩

/-- … and nothing else -/
theorem declaredPipeline_only (steps : List (List Part)) (p : Part)
    (h : p ∈ declaredPipeline steps) : ∃ s ∈ steps, p ∈ s := by
  unfold declaredPipeline at h
  rw [List.mem_filter, List.any_eq_true] at h
  obtain ⟨_, s, hs, hp⟩ := h
  exact ⟨s, hs, by simpa using hp⟩

/-- if every step returns a sublist of the alternatives it is given (every built-in does: the
filters by `filter_rows`/`nondominated_rows`, the others return them unchanged), so does the
pipeline: no alternative is invented or reordered by chaining -/
theorem pipeline_alternatives_sublist (env : Env α δ) (hl : env.Lawful) (steps : List (TData α δ))
    (hsteps : ∀ T ∈ steps, ∀ d d', Stored env d → transform env T d = .ok d' →
      d'.alternatives.Sublist d.alternatives)
    (d d' : Parts α δ) (hs : Stored env d) (h : pipeline env steps d = .ok d') :
    d'.alternatives.Sublist d.alternatives := by
  induction steps generalizing d with
  | nil =>
    simp only [pipeline, Except.ok.injEq] at h
    subst h
    exact List.Sublist.refl _
  | cons T rest ih =>
    simp only [pipeline] at h
    split at h
    · cases h
    · rename_i d1 h1
      exact (ih (fun T' hT' => hsteps T' (List.mem_cons_of_mem _ hT')) d1
        (transform_stored env hl T d d1 h1) h).trans (hsteps T (List.mem_cons_self ..) d d1 hs h1)

/-! ## non-vacuity: concrete instances (`Ex.env`: cells count tenths; `int` truncates) -/

/-- the example world satisfies the two pandas laws, and the example matrix is stored -/
theorem ex_lawful : Ex.env.Lawful ∧ Stored Ex.env Ex.dm ∧ Stored Ex.envUp Ex.dm :=
  ⟨Ex.env_lawful, by unfold Stored; decide, by unfold Stored; decide⟩

/-- why `dtypes` is in the declared set of `target="weights"`: in the world where one array holding a
float is inferred float throughout, the integer criterion of the (stored) example matrix comes back
float — the dtypes change while matrix, objectives, alternatives and criteria are the same values -/
theorem scaler_weights_reinfers_dtypes :
    (transform Ex.envUp (mwTransformer Ex.double Ex.halve .weights) Ex.dm).toOption =
      some { Ex.dm with weights := [2, 1], dtypes := [.float, .float] } ∧
    Ex.dm.dtypes = [.int, .float] := by
  decide

-- target switch, the three targets
example : (transform Ex.env (mwTransformer Ex.double Ex.halve .matrix) Ex.dm).toOption =
    some { Ex.dm with matrix := [[20, 50], [80, 110], [140, 30]], dtypes := [.int, .int] } := by decide
example : (transform Ex.env (mwTransformer Ex.double Ex.halve .weights) Ex.dm).toOption =
    some { Ex.dm with weights := [2, 1] } := by decide
example : (transform Ex.env (mwTransformer Ex.double Ex.halve .both) Ex.dm).toOption =
    some { Ex.dm with matrix := [[20, 50], [80, 110], [140, 30]], weights := [2, 1],
                      dtypes := [.int, .int] } := by decide
example : Target.ofString "both" = .ok .both ∧ Target.ofString "Matrix" = .error .valueError := by
  constructor <;> rfl
-- cenit
example : (transform Ex.env (cenitTransformer (fun m _ => Ex.double m) Ex.Dt.float) Ex.dm).toOption =
    some { Ex.dm with matrix := [[20, 50], [80, 110], [140, 30]], dtypes := [.float, .float] } := by
  decide
-- weighter: the weights are computed from the matrix, nothing else moves
example : (transform Ex.env (weighterTransformer fun m _ _ => m.headD []) Ex.dm).toOption =
    some { Ex.dm with weights := [10, 25] } := by decide
-- inverter: the minimise criterion is negated and becomes float, the maximise one keeps its dtype
example : (transform Ex.env (inverterTransformer Ex.negate Ex.Dt.float) Ex.dm).toOption =
    some { Ex.dm with matrix := [[10, -25], [40, -55], [70, -15]], objectives := [.max, .max] } := by
  decide
/-- the hypothesis of `inverter_max_columns` holds for the example inverter -/
example : ∀ (m : List (List Int)) (mask : List Bool) (i j : Nat), mask[j]? = some false →
    cellAt (Ex.negate m mask) i j = cellAt m i j := by
  intro m mask i j h
  unfold cellAt Ex.negate
  rw [List.getElem?_map]
  cases m[i]? with
  | none => rfl
  | some r =>
    simp only [Option.map_some, Option.bind_some]
    rw [List.getElem?_zipWith, h]
    cases r[j]? <;> simp
-- imputer
example : (transform Ex.env (imputerTransformer Ex.double) Ex.dm).toOption =
    some { Ex.dm with matrix := [[20, 50], [80, 110], [140, 30]], dtypes := [.int, .int] } := by decide
-- criteria filter: a mask, no usable condition, a refusal
example : (transform Ex.env (filterTransformer fun _ => .ok (some [true, false, true])) Ex.dm).toOption =
    some { Ex.dm with matrix := [[10, 25], [70, 15]], alternatives := ["b", "c"] } := by decide
example : (transform Ex.env (filterTransformer fun _ => .ok none) Ex.dm).toOption = some Ex.dm := by
  decide
example : (transform Ex.env (filterTransformer fun _ => .error .valueError) Ex.dm).toOption = none := by
  decide
-- FilterNonDominated: the second alternative is dominated
example : (transform Ex.env (nonDominatedTransformer fun _ => [false, true, false]) Ex.dm).toOption =
    some { Ex.dm with matrix := [[10, 25], [70, 15]], alternatives := ["b", "c"] } := by decide
-- user transformers: weights and `hparams` returned; `dtypes: None`; an unknown key
example : (transform Ex.env (mkTransformer fun k => { weights := some (Ex.halve k.weights), hparams := true })
      Ex.dm).toOption = some { Ex.dm with weights := [2, 1] } ∧
    (({ weights := some [2, 1], hparams := true } : Returned Int Ex.Dt).keys = [Part.weights]) := by
  decide
example : (transform Ex.envUp (mkTransformer fun _ => { dtypes := some none }) Ex.dm).toOption =
    some { Ex.dm with dtypes := [.float, .float] } := by decide
example : (transform Ex.env (mkTransformer fun _ => { extra := ["foo"] }) Ex.dm).toOption = none := by
  decide
-- a pipeline: weight scaler, criteria filter, inverter — the union {matrix, objectives, weights,
-- dtypes, alternatives} is declared, the criteria are not
example : (pipeline Ex.env [mwTransformer Ex.double Ex.halve .weights,
      filterTransformer fun _ => .ok (some [true, false, true]),
      inverterTransformer Ex.negate Ex.Dt.float] Ex.dm).toOption =
    some { matrix := [[10, -25], [70, -15]], objectives := [.max, .max], weights := [2, 1],
           dtypes := [.int, .float], alternatives := ["b", "c"], criteria := ["z", "y"] } ∧
    declaredPipeline [declaredFor .targetSwitch (some .weights), declaredFor .filter none,
      declaredFor .inverter none] = [.matrix, .objectives, .weights, .dtypes, .alternatives] := by
  decide

end Skc.C10
