import Skc.Proofs.Impute
import Skc.Generated.ImputerKw
set_option linter.unusedSectionVars false
set_option linter.unusedVariables false

/-! # C15 — imputation fills the gaps and touches nothing else

Property theorems only (helpers live in `Skc/Proofs/Impute.lean`). Model: `Skc/Model/Impute.lean`
(`SKCImputerABC._transform_data`, scikit-learn's `SimpleImputer` column by column, `KNNImputer` /
`IterativeImputer` as an external function with the contract `Keeps`).

Conventions. A matrix is row-major, a cell is `Option α` (`none` = missing); `cellAt M i j` is
`some c` for a cell inside the matrix and `none` outside; `colOf M j` is column `j` top to bottom,
`observed` keeps the observed values of a column in order, `HasObserved M j` says criterion `j` has
one. `simpleImpute s keepEmpty M` answers `.ok R` or `.error .valueError`. `α` is any field with a
linear order (no compatibility between the two is needed: the order only sorts and compares). -/
namespace Skc.C15
open Skc.Impute

variable {α : Type} [Field α] [LinearOrder α]

/-! ## `SimpleImputer` -/

/-- every cell that was not missing holds exactly its original value, at the same place (any
strategy, any shape — no rectangularity needed) -/
theorem simple_observed (s : Strategy α) (keepEmpty : Bool) (M R : OMat α)
    (h : simpleImpute s keepEmpty M = .ok R) : ObservedKept M R := by
  obtain ⟨_, rfl⟩ := (simpleImpute_ok_iff s keepEmpty M R).mp h
  intro i j x hx
  rw [cellAt_map_fillRow, hx]
  rfl

/-- the shape is unchanged: same number of alternatives, every row keeps its number of cells; and
`cellAt` is defined at exactly the same places -/
theorem simple_shape (s : Strategy α) (keepEmpty : Bool) (M R : OMat α)
    (h : simpleImpute s keepEmpty M = .ok R) :
    SameShape M R ∧ R.length = M.length ∧ ∀ i j, (cellAt R i j).isSome = (cellAt M i j).isSome := by
  obtain ⟨_, rfl⟩ := (simpleImpute_ok_iff s keepEmpty M R).mp h
  refine ⟨map_fillRow_shape _ M, by simp, fun i j => ?_⟩
  rw [cellAt_map_fillRow]
  cases cellAt M i j <;> rfl

/-- on a rectangular matrix in which every criterion has an observed value the imputer answers,
and no cell of its answer is missing -/
theorem simple_complete (s : Strategy α) (keepEmpty : Bool) (M : OMat α) (n : Nat)
    (hrect : Rect M n) (hobs : ∀ j, j < n → HasObserved M j) :
    ∃ R, simpleImpute s keepEmpty M = .ok R ∧ Complete R := by
  by_cases hM : M = []
  · subst hM
    refine ⟨[], by simp [simpleImpute, statistics, width], ?_⟩
    intro r hr; exact absurd hr (List.not_mem_nil)
  have hw : width M = n := width_of_rect hrect hM
  have hall := statistics_all_isSome s keepEmpty M (fun j hj => hobs j (hw ▸ hj))
  refine ⟨_, (simpleImpute_ok_iff s keepEmpty M _).mpr ⟨hall, rfl⟩, ?_⟩
  intro r hr c hc
  obtain ⟨r0, hr0, rfl⟩ := List.mem_map.mp hr
  obtain ⟨j, hj⟩ := List.mem_iff_getElem?.mp hc
  rw [fillRow_getElem?] at hj
  cases hc0 : r0[j]? with
  | none => rw [hc0] at hj; cases hj
  | some c0 =>
    rw [hc0] at hj
    simp only [Option.map_some, Option.some.injEq] at hj
    subst hj
    cases c0 with
    | some x => simp [fillCell]
    | none =>
      have hjn : j < width M := by
        have := (List.getElem?_eq_some_iff.mp hc0).1
        rw [hrect r0 hr0] at this
        omega
      rw [fillCell_none, statistics_getElem? s keepEmpty M hjn]
      have hmem : stat s keepEmpty (observed (colOf M j)) ∈ statistics s keepEmpty M :=
        List.mem_iff_getElem?.mpr ⟨j, statistics_getElem? s keepEmpty M hjn⟩
      have := List.all_eq_true.mp hall _ hmem
      cases hst : stat s keepEmpty (observed (colOf M j)) with
      | none => rw [hst] at this; cases this
      | some v => simp

/-- every gap receives the configured statistic of the observed values OF ITS OWN COLUMN:
for a missing cell `(i, j)` of a rectangular matrix whose criterion `j` has an observed value, the
answer holds a value `v` there, and with `obs` = the observed values of column `j`
* `mean`: `v = Σ obs / |obs|`;
* `median`: in the sorted arrangement of `obs` (there is exactly one), `v` is the middle value when
  `|obs|` is odd and the mean of the two middle values when it is even;
* `most_frequent`: `v` occurs in `obs`, no value occurs more often, and no value occurring as often
  is smaller;
* `constant`: `v` is `fill_value` (`0` when `fill_value` is `None`). -/
theorem simple_filled_stat (s : Strategy α) (keepEmpty : Bool) (M R : OMat α) (n : Nat)
    (h : simpleImpute s keepEmpty M = .ok R) (hrect : Rect M n) (i j : Nat)
    (hgap : cellAt M i j = some none) (hobs : HasObserved M j) :
    ∃ v, cellAt R i j = some (some v) ∧
      match s with
      | .mean => v = (observed (colOf M j)).sum / ((observed (colOf M j)).length : α)
      | .median => ∀ srt : List α, srt.Perm (observed (colOf M j)) → srt.Pairwise (· ≤ ·) →
          (srt.length % 2 = 1 → srt[srt.length / 2]? = some v) ∧
          (srt.length % 2 = 0 → ∃ a b, srt[srt.length / 2 - 1]? = some a ∧
            srt[srt.length / 2]? = some b ∧ v = (a + b) / 2)
      | .mostFrequent => v ∈ observed (colOf M j) ∧
          (∀ y ∈ observed (colOf M j), (observed (colOf M j)).count y ≤ (observed (colOf M j)).count v) ∧
          (∀ y ∈ observed (colOf M j),
            (observed (colOf M j)).count y = (observed (colOf M j)).count v → v ≤ y)
      | .constant f => v = f.getD 0 := by
  obtain ⟨hall, rfl⟩ := (simpleImpute_ok_iff s keepEmpty M R).mp h
  obtain ⟨r0, hr0, hc0⟩ := cellAt_some_iff.mp hgap
  have hmemr : r0 ∈ M := List.mem_iff_getElem?.mpr ⟨i, hr0⟩
  have hM : M ≠ [] := List.ne_nil_of_mem hmemr
  have hjn : j < width M := by
    have := (List.getElem?_eq_some_iff.mp hc0).1
    rw [hrect r0 hmemr] at this
    rw [width_of_rect hrect hM]; exact this
  have hne := hasObserved_iff.mp hobs
  obtain ⟨v, hv⟩ := statOf_isSome s hne
  have hst : stat s keepEmpty (observed (colOf M j)) = some v := stat_of_statOf hv
  refine ⟨v, ?_, ?_⟩
  · rw [cellAt_map_fillRow, hgap, statistics_getElem? s keepEmpty M hjn, hst]
    rfl
  · have := statOf_spec hne hv
    cases s <;> exact this

/-- the sorted arrangement quantified over in `simple_filled_stat` exists and is unique, so the
median clause determines `v` -/
theorem sorted_arrangement (obs : List α) :
    ∃ srt : List α, (srt.Perm obs ∧ srt.Pairwise (· ≤ ·)) ∧
      ∀ t : List α, t.Perm obs → t.Pairwise (· ≤ ·) → t = srt := by
  obtain ⟨srt, hp, hs⟩ := sorted_arrangement_exists obs
  exact ⟨srt, ⟨hp, hs⟩, fun t htp hts => sorted_arrangement_unique htp hts hp hs⟩

/-- outside the property's domain, as the code behaves: the imputer refuses (`ValueError`) exactly
when some column has no statistic — i.e. a wholly missing criterion with a non-constant strategy
and `keep_empty_criteria=False` -/
theorem simple_error_iff (s : Strategy α) (keepEmpty : Bool) (M : OMat α) :
    simpleImpute s keepEmpty M = .error .valueError ↔
      ∃ j, j < width M ∧ stat s keepEmpty (observed (colOf M j)) = none := by
  rw [simpleImpute_error_iff]
  constructor
  · intro h
    have : ¬ (statistics s keepEmpty M).all Option.isSome = true := by rw [h]; simp
    rw [List.all_eq_true] at this
    push Not at this
    obtain ⟨st, hst, hn⟩ := this
    obtain ⟨j, hj⟩ := List.mem_iff_getElem?.mp hst
    have hjw : j < width M := by
      have := (List.getElem?_eq_some_iff.mp hj).1
      rwa [statistics_length] at this
    rw [statistics_getElem? s keepEmpty M hjw] at hj
    cases hj
    refine ⟨j, hjw, ?_⟩
    cases hs : stat s keepEmpty (observed (colOf M j)) with
    | none => rfl
    | some v => rw [hs] at hn; exact absurd rfl hn
  · rintro ⟨j, hjw, hj⟩
    cases hall : (statistics s keepEmpty M).all Option.isSome with
    | false => rfl
    | true =>
      have := List.all_eq_true.mp hall _
        (List.mem_iff_getElem?.mpr ⟨j, statistics_getElem? s keepEmpty M hjw⟩)
      rw [hj] at this
      cases this

/-- … and a statistic is absent only for an empty column, a non-constant strategy and
`keep_empty_criteria=False` -/
theorem stat_none_iff (s : Strategy α) (keepEmpty : Bool) (obs : List α) :
    stat s keepEmpty obs = none ↔
      obs = [] ∧ keepEmpty = false ∧ ∀ f, s ≠ .constant f := by
  constructor
  · intro h
    by_cases hne : obs = []
    · subst hne
      refine ⟨rfl, ?_, ?_⟩
      · cases keepEmpty with
        | false => rfl
        | true =>
          unfold stat at h
          cases hs : statOf s ([] : List α) with
          | none => rw [hs] at h; simp at h
          | some v => rw [hs] at h; simp at h
      · intro f hf
        subst hf
        simp [stat, statOf] at h
    · obtain ⟨v, hv⟩ := statOf_isSome s hne
      rw [stat_of_statOf hv] at h
      cases h
  · rintro ⟨rfl, rfl, hc⟩
    cases s with
    | constant f => exact absurd rfl (hc f)
    | mean => rfl
    | median => rfl
    | mostFrequent => rfl

/-! ## `KNNImputer`, `IterativeImputer`: the contract transfers to the transformer -/

/-- an external imputer that honours the contract `Keeps` gives a transformer that, on a
rectangular matrix in which every criterion has an observed value, answers, keeps every observed
cell, leaves no cell missing and keeps the shape — and, as every imputer, leaves labels, objectives
and weights alone -/
theorem ext_transfer {ο ω : Type} (ext : OMat α → OMat α) (hk : Keeps ext) (d : DM α ο ω) (n : Nat)
    (hrect : Rect d.matrix n) (hobs : ∀ j, j < n → HasObserved d.matrix j) :
    ∃ d', extTransform ext d = .ok d' ∧
      ObservedKept d.matrix d'.matrix ∧ Complete d'.matrix ∧ SameShape d.matrix d'.matrix ∧
      d'.alternatives = d.alternatives ∧ d'.criteria = d.criteria ∧
      d'.objectives = d.objectives ∧ d'.weights = d.weights := by
  obtain ⟨h1, h2, h3⟩ := hk d.matrix n hrect hobs
  refine ⟨{ d with matrix := ext d.matrix }, ?_, h1, h2, h3, rfl, rfl, rfl, rfl⟩
  unfold extTransform transformData extImpute
  rw [if_pos ((sameShapeB_iff _ _).mpr h3)]
  rfl

/-- the three executable tests the driver applies to the real scikit-learn output are the three
parts of the contract -/
theorem keeps_tests (M R : OMat α) :
    (observedKeptB M R = true ↔ ObservedKept M R) ∧ (completeB R = true ↔ Complete R) ∧
      (sameShapeB M R = true ↔ SameShape M R) :=
  ⟨observedKeptB_iff M R, completeB_iff R, sameShapeB_iff M R⟩

/-- the contract is satisfiable: `SimpleImputer` itself (any strategy) is an instance -/
theorem keeps_simple (s : Strategy α) (keepEmpty : Bool) :
    Keeps (fun M => ((simpleImpute s keepEmpty M).toOption.getD M)) := by
  intro M n hrect hobs
  obtain ⟨R, hR, hc⟩ := simple_complete s keepEmpty M n hrect hobs
  simp only [hR, Except.toOption, Option.getD_some]
  exact ⟨simple_observed s keepEmpty M R hR, hc, (simple_shape s keepEmpty M R hR).1⟩

/-! ## every imputer: only the matrix is replaced -/

/-- `SKCImputerABC._transform_data` replaces the matrix and nothing else: whatever `_impute` is
(`SimpleImputer`, `KNNImputer`, `IterativeImputer` are all `transformData impute`), if the
transformer answers, alternatives, criteria, objectives and weights are those of the input -/
theorem imputer_frame {α ο ω : Type} (impute : OMat α → Except Err (OMat α)) (d d' : DM α ο ω)
    (h : transformData impute d = .ok d') :
    d'.alternatives = d.alternatives ∧ d'.criteria = d.criteria ∧
      d'.objectives = d.objectives ∧ d'.weights = d.weights ∧ impute d.matrix = .ok d'.matrix := by
  unfold transformData at h
  cases hi : impute d.matrix with
  | error e => rw [hi] at h; cases h
  | ok R =>
    rw [hi] at h
    cases h
    exact ⟨rfl, rfl, rfl, rfl, rfl⟩

/-- spelled out for `SimpleImputer(...).transform(dm)` -/
theorem simple_frame {ο ω : Type} (s : Strategy α) (keepEmpty : Bool) (d d' : DM α ο ω)
    (h : simpleTransform s keepEmpty d = .ok d') :
    d'.alternatives = d.alternatives ∧ d'.criteria = d.criteria ∧
      d'.objectives = d.objectives ∧ d'.weights = d.weights ∧
      simpleImpute s keepEmpty d.matrix = .ok d'.matrix :=
  imputer_frame (simpleImpute s keepEmpty) d d' h

/-! ## constructor parameters reach the scikit-learn estimator -/

/-- in the tree under test every constructor parameter of every imputer class is received by the
keyword of the scikit-learn estimator that the documentation of the class names (`declared`, written
by hand in `Skc/Model/Impute.lean`); `forwarded` is recorded from the live constructor call -/
theorem forwarding_table : ∀ row ∈ Generated.imputerKw, row.forwarded = row.declared := by
  decide

/-- … and no declared row is missing from the recorded table -/
theorem forwarding_rows_complete :
    ∀ e ∈ expectedKw, ∃ row ∈ Generated.imputerKw, row.cls = e.1 ∧ row.param = e.2.1 := by
  decide

/-! ## non-vacuity: concrete instances of the hypotheses and of the model -/

namespace Ex
/-- 5 alternatives × 2 criteria with ties; the last alternative is missing on both criteria, the
second one on the first criterion -/
def M : OMat Rat :=
  [[some 3, some 1], [none, some 1], [some 3, some 2], [some 1, some 2], [none, none]]
def d : DM Rat Int Rat := ⟨["a", "b", "c", "d", "e"], ["x", "y"], [1, -1], [1/2, 1/2], M⟩
end Ex

/-- the hypotheses of `simple_complete` / `simple_filled_stat` / `ext_transfer` hold for `Ex.M` -/
example : Rect Ex.M 2 ∧ (∀ j, j < 2 → HasObserved Ex.M j) ∧ cellAt Ex.M 4 1 = some none ∧
    cellAt Ex.M 1 0 = some none := by
  refine ⟨by unfold Rect; decide, ?_, rfl, rfl⟩
  intro j hj
  have : j = 0 ∨ j = 1 := by omega
  rcases this with rfl | rfl
  · exact ⟨3, by decide⟩
  · exact ⟨1, by decide⟩

example : (simpleImpute .mostFrequent false Ex.M).toOption =
    some [[some 3, some 1], [some 3, some 1], [some 3, some 2], [some 1, some 2], [some 3, some 1]] := by
  decide +kernel
example : (simpleImpute .median false Ex.M).toOption =
    some [[some 3, some 1], [some 3, some 1], [some 3, some 2], [some 1, some 2], [some 3, some (3/2)]] := by
  decide +kernel
example : (simpleImpute .mean false Ex.M).toOption =
    some [[some 3, some 1], [some (7/3), some 1], [some 3, some 2], [some 1, some 2],
      [some (7/3), some (3/2)]] := by
  decide +kernel
example : (simpleImpute (.constant (some 7)) false Ex.M).toOption =
    some [[some 3, some 1], [some 7, some 1], [some 3, some 2], [some 1, some 2], [some 7, some 7]] ∧
    (simpleImpute (.constant none) false Ex.M).toOption =
    some [[some 3, some 1], [some 0, some 1], [some 3, some 2], [some 1, some 2], [some 0, some 0]] := by
  decide +kernel
/-- the smallest of two equally frequent values, and the mean of the two middle ones -/
example : modeOf ([3, 1, 3, 1, 2] : List Rat) = some 1 ∧ medianOf ([4, 1, 3, 2] : List Rat) = some (5/2) ∧
    medianOf ([4, 1, 3] : List Rat) = some 3 := by
  decide +kernel
/-- a wholly missing criterion: refusal, `0` with `keep_empty_criteria`, `fill_value` with `constant` -/
example : (simpleImpute .mean false ([[some 3, none], [none, none]] : OMat Rat)).toOption = none ∧
    (simpleImpute .mean true ([[some 3, none], [none, none]] : OMat Rat)).toOption =
      some [[some 3, some 0], [some 3, some 0]] ∧
    (simpleImpute (.constant (some 2)) false ([[some 3, none], [none, none]] : OMat Rat)).toOption =
      some [[some 3, some 2], [some 2, some 2]] := by
  decide +kernel
/-- the transformer on a decision matrix: only the matrix differs -/
example : ((simpleTransform .median false Ex.d).toOption.map fun r =>
      (r.alternatives, r.criteria, r.objectives, r.weights)) =
    some (Ex.d.alternatives, Ex.d.criteria, Ex.d.objectives, Ex.d.weights) := by
  decide +kernel
/-- an external imputer that breaks the contract is told apart by the executable tests -/
example : observedKeptB Ex.M (Ex.M.map fun r => r.map fun _ => some (0 : Rat)) = false ∧
    completeB Ex.M = false ∧ sameShapeB Ex.M (Ex.M.map fun r => r.take 1) = false := by
  decide +kernel
example : Generated.imputerKw.length = expectedKw.length ∧
    (Generated.imputerKw.any fun r => r.forwarded != r.cls ++ "." ++ r.param) = true := by
  decide +kernel

end Skc.C15
