import Skc.Proofs.Agg
set_option linter.unusedSectionVars false

/-! # C04 — reported scores equal the published formulas; out-of-domain input is refused

Model: `Skc/Model/Agg.lean` (kernels of `agg/simple.py`, `agg/similarity.py`, `agg/moora.py`,
operation by operation).  Each theorem states that the kernel *is* the published formula, written
with `Finset` sums / suprema over an ordered field or `ℝ`; the correspondence check compares the
kernels, run at exact `Rat` / `Float`, with the implementation's reported scores. -/
namespace Skc.C04
open Skc Skc.Agg Finset

variable {m n : ℕ}

section field
variable {α : Type} [Field α] [LinearOrder α] [IsStrictOrderedRing α]

/-- WSM: `score_i = Σ_j w_j a_ij` -/
theorem wsm_formula (A : Mat m n α) (w : Vec n α) (i : Fin m) : wsm A w i = ∑ j, w j * A i j := by
  unfold wsm; rw [sumFin_eq_sum]; exact sum_congr rfl fun j _ => mul_comm _ _

/-- RatioMOORA: weighted sum over the maximise criteria minus weighted sum over the minimise ones -/
theorem ratio_formula (A : Mat m n α) (o : Vec n Obj) (w : Vec n α) (i : Fin m) :
    ratio A o w i = ∑ j with o j = .max, w j * A i j - ∑ j with o j = .min, w j * A i j := by
  unfold ratio; rw [sumFin_eq_sum, sum_filter, sum_filter, ← sum_sub_distrib]
  apply sum_congr rfl; intro j _
  cases o j <;> simp <;> ring

/-- ReferencePointMOORA: the reference point is the best value of each criterion … -/
theorem reference_point_formula [NeZero m] (A : Mat m n α) (o : Vec n Obj) (j : Fin n) :
    referencePoint A o j =
      if o j = .max then univ.sup' univ_nonempty (fun i => A i j) else univ.inf' univ_nonempty (fun i => A i j) := by
  unfold referencePoint colMax colMin; rw [maxFin_eq_sup', minFin_eq_inf']

/-- … and the score the largest weighted absolute deviation from it (lower is better) -/
theorem refpoint_formula [NeZero m] [NeZero n] (A : Mat m n α) (o : Vec n Obj) (w : Vec n α) (i : Fin m) :
    refpoint A o w i = univ.sup' univ_nonempty fun j => |w j * (A i j - referencePoint A o j)| := by
  unfold refpoint; rw [maxFin_eq_sup']; simp only [absv_eq_abs]

/-- TOPSIS ideal / anti-ideal: best / worst weighted value of each criterion under its objective -/
theorem topsis_ideal_formula [NeZero m] (A : Mat m n α) (o : Vec n Obj) (w : Vec n α) (j : Fin n) :
    ideal A o w j = if o j = .max then univ.sup' univ_nonempty (fun i => A i j * w j)
                    else univ.inf' univ_nonempty (fun i => A i j * w j) := by
  unfold ideal colMax colMin weighted; rw [maxFin_eq_sup', minFin_eq_inf']
theorem topsis_anti_ideal_formula [NeZero m] (A : Mat m n α) (o : Vec n Obj) (w : Vec n α) (j : Fin n) :
    antiIdeal A o w j = if o j = .max then univ.inf' univ_nonempty (fun i => A i j * w j)
                        else univ.sup' univ_nonempty (fun i => A i j * w j) := by
  unfold antiIdeal colMax colMin weighted; rw [maxFin_eq_sup', minFin_eq_inf']

/-- the field-only metrics: squared Euclidean, city-block, Chebyshev -/
theorem dist_sqeuclidean [NeZero n] (x t : Vec n α) : distQ .sqeuclidean x t = ∑ j, (x j - t j) ^ 2 := by
  simp only [distQ, sumFin_eq_sum, sq]
theorem dist_cityblock [NeZero n] (x t : Vec n α) : distQ .cityblock x t = ∑ j, |x j - t j| := by
  simp only [distQ, sumFin_eq_sum, absv_eq_abs]
theorem dist_chebyshev [NeZero n] (x t : Vec n α) :
    distQ .chebyshev x t = univ.sup' univ_nonempty fun j => |x j - t j| := by
  simp only [distQ, maxFin_eq_sup', absv_eq_abs]

/-- TOPSIS similarity: relative closeness `d⁻ / (d⁺ + d⁻)` of the weighted row -/
theorem topsisQ_formula [NeZero m] [NeZero n] (μ : Metric) (A : Mat m n α) (o : Vec n Obj) (w : Vec n α) (i : Fin m) :
    topsisQ μ A o w i =
      distQ μ (fun j => A i j * w j) (antiIdeal A o w) /
        (distQ μ (fun j => A i j * w j) (ideal A o w) + distQ μ (fun j => A i j * w j) (antiIdeal A o w)) := rfl

/-! ### refusals (the guards of `_evaluate_data`), as iff -/

theorem wsm_refuses_iff (A : Mat m n α) (o : Vec n Obj) :
    wsmRefuses A o = true ↔ (∃ j, o j = .min) ∨ ∃ i j, A i j < 0 := by
  unfold wsmRefuses; rw [Bool.or_eq_true, hasMin_iff, anyNeg_iff]
theorem wpm_refuses_iff (A : Mat m n α) (o : Vec n Obj) :
    wpmRefuses A o = true ↔ (∃ j, o j = .min) ∨ ∃ i j, A i j ≤ 0 := by
  unfold wpmRefuses; rw [Bool.or_eq_true, hasMin_iff, anyNonPos_iff]
/-- FullMultiplicativeForm and MultiMOORA -/
theorem fmf_refuses_iff (A : Mat m n α) : fmfRefuses A = true ↔ ∃ i j, A i j ≤ 0 := by
  unfold fmfRefuses; rw [anyNonPos_iff]
end field

/-! ### kernels with `sqrt` / `log`, over `ℝ` -/

theorem dist_euclidean [NeZero n] (x t : Vec n ℝ) : Agg.dist .euclidean x t = Real.sqrt (∑ j, (x j - t j) ^ 2) := by
  simp only [Agg.dist, sumFin_eq_sum, sq, sqrt_real]
/-- `minkowski` as the constructor can express it (`p = 2`) -/
theorem dist_minkowski [NeZero n] (x t : Vec n ℝ) : Agg.dist .minkowski x t = Real.sqrt (∑ j, (x j - t j) ^ 2) := by
  simp only [Agg.dist, sumFin_eq_sum, sq, sqrt_real]
theorem dist_eq_distQ [NeZero n] (μ : Metric) (hμ : μ ≠ .euclidean ∧ μ ≠ .minkowski) (x t : Vec n ℝ) :
    Agg.dist μ x t = distQ μ x t := by
  cases μ <;> simp_all [Agg.dist, distQ]

theorem topsis_formula [NeZero m] [NeZero n] (μ : Metric) (A : Mat m n ℝ) (o : Vec n Obj) (w : Vec n ℝ) (i : Fin m) :
    topsis μ A o w i =
      Agg.dist μ (fun j => A i j * w j) (antiIdeal A o w) /
        (Agg.dist μ (fun j => A i j * w j) (ideal A o w) + Agg.dist μ (fun j => A i j * w j) (antiIdeal A o w)) := rfl

/-- WPM in log form … -/
theorem wpm_formula (A : Mat m n ℝ) (w : Vec n ℝ) (i : Fin m) : wpm A w i = ∑ j, w j * Real.logb 10 (A i j) := by
  unfold wpm; rw [sumFin_eq_sum]; exact sum_congr rfl fun j _ => by rw [log10_real, mul_comm]

/-- … is the logarithm of the published product `Π_j a_ij ^ w_j` -/
theorem wpm_prod (A : Mat m n ℝ) (hA : ∀ i j, 0 < A i j) (w : Vec n ℝ) (i : Fin m) :
    (10 : ℝ) ^ wpm A w i = ∏ j, A i j ^ w j := by
  rw [wpm_formula, Real.rpow_sum_of_pos (by norm_num)]
  apply prod_congr rfl; intro j _
  rw [mul_comm, Real.rpow_mul (by norm_num), Real.rpow_logb (by norm_num) (by norm_num) (hA i j)]

/-- alternatives are ordered as the exact products order them -/
theorem wpm_order (A : Mat m n ℝ) (hA : ∀ i j, 0 < A i j) (w : Vec n ℝ) (i k : Fin m) :
    wpm A w i < wpm A w k ↔ ∏ j, A i j ^ w j < ∏ j, A k j ^ w j := by
  rw [← wpm_prod A hA, ← wpm_prod A hA, Real.rpow_lt_rpow_left_iff (by norm_num)]

/-- FMF as published (log form) -/
theorem fmfSpec_formula (A : Mat m n ℝ) (o : Vec n Obj) (w : Vec n ℝ) (i : Fin m) :
    fmfSpec A o w i = ∑ j with o j = .max, Real.log (A i j * w j) - ∑ j with o j = .min, Real.log (A i j * w j) := by
  unfold fmfSpec; rw [sumFin_eq_sum, sum_filter, sum_filter, ← sum_sub_distrib]
  apply sum_congr rfl; intro j _
  cases o j <;> simp

/-- … i.e. the logarithm of `Π_max (w a) / Π_min (w a)` on positive data and weights -/
theorem fmfSpec_prod (A : Mat m n ℝ) (hA : ∀ i j, 0 < A i j) (o : Vec n Obj) (w : Vec n ℝ) (hw : ∀ j, 0 < w j) (i : Fin m) :
    Real.exp (fmfSpec A o w i) = (∏ j with o j = .max, A i j * w j) / ∏ j with o j = .min, A i j * w j := by
  rw [fmfSpec_formula, Real.exp_sub, Real.exp_sum, Real.exp_sum]
  congr 1 <;> exact prod_congr rfl fun j _ => Real.exp_log (mul_pos (hA i j) (hw j))

/-- the code computes the formula whenever some criterion is maximised … -/
theorem fmf_eq_formula (A : Mat m n ℝ) (o : Vec n Obj) (w : Vec n ℝ) (h : ∃ j, o j = .max) (i : Fin m) :
    fmfCode A o w i = fmfSpec A o w i := by
  rw [fmfSpec_formula]
  unfold fmfCode
  have hmax : anyFin (fun j => decide (o j = .max)) = true := by rw [anyFin_iff]; simpa using h
  simp only [hmax, if_true, sumFin_eq_sum, log_real]
  rw [sum_filter, sum_filter]
  by_cases hmin : anyFin (fun j => decide (o j = .min)) = true
  · simp only [hmin, if_true]
  · simp only [hmin]
    have : ∀ j, o j ≠ .min := by
      intro j hj; apply hmin; rw [anyFin_iff]; exact ⟨j, by simpa using hj⟩
    simp [this]

/-- … and the formula **plus the constant 1** when none is (`Aj = 1.0`): KNOWN FINDING K2, pinned by
`test_FullMultiplicativeForm_only_minimize` -/
theorem fmf_no_max (A : Mat m n ℝ) (o : Vec n Obj) (w : Vec n ℝ) (h : ∀ j, o j = .min) (hn : 0 < n) (i : Fin m) :
    fmfCode A o w i = 1 + fmfSpec A o w i := by
  rw [fmfSpec_formula]
  unfold fmfCode
  have hmax : ¬ anyFin (fun j => decide (o j = .max)) = true := by
    rw [anyFin_iff]; push Not; intro j; simp [h j]
  have hmin : anyFin (fun j => decide (o j = .min)) = true := by
    rw [anyFin_iff]; exact ⟨⟨0, hn⟩, by simp [h]⟩
  simp only [hmax, hmin, if_true, sumFin_eq_sum, log_real]
  rw [sum_filter, sum_filter]
  simp [h, sub_eq_add_neg]

/-- in every case the alternatives are ordered as the formula orders them -/
theorem fmf_order_always (A : Mat m n ℝ) (o : Vec n Obj) (w : Vec n ℝ) (hn : 0 < n) (i k : Fin m) :
    fmfCode A o w i < fmfCode A o w k ↔ fmfSpec A o w i < fmfSpec A o w k := by
  by_cases h : ∃ j, o j = .max
  · rw [fmf_eq_formula A o w h, fmf_eq_formula A o w h]
  · have h' : ∀ j, o j = .min := by
      intro j; by_contra hj; exact h ⟨j, by cases ho : o j <;> simp_all⟩
    rw [fmf_no_max A o w h' hn, fmf_no_max A o w h' hn]; constructor <;> intro hh <;> linarith

/-! ### MultiMOORA -/

/-- the rank matrix has the three component rankings as its columns -/
theorem multimoora_rankmatrix (r1 r2 r3 : List Nat) (i : Nat) (hi : i < r1.length) :
    (rankMatrix r1 r2 r3)[i]'(by simpa [rankMatrix]) = [r1.getD i 0, r2.getD i 0, r3.getD i 0] := by
  simp [rankMatrix]

/-- with three components and no tie in any of them, one alternative of a pair is strictly better
on more components: the `else` branch of `idx_a if aDb > bDa else idx_b` never credits a draw -/
theorem multimoora_no_pair_tie (a b : List Nat) (ha : a.length = 3) (hb : b.length = 3)
    (h : pairWinner a b = some false) :
    ((a.zip b).filter fun p => p.1 < p.2).length < ((a.zip b).filter fun p => !(p.1 < p.2) && !(p.1 == p.2)).length := by
  match a, b, ha, hb with
  | [a1, a2, a3], [b1, b2, b3], _, _ =>
    revert h
    unfold pairWinner
    simp only [List.zip_cons_cons, List.zip_nil_right, List.filter_cons, List.filter_nil]
    rcases Nat.lt_trichotomy a1 b1 with h1 | h1 | h1 <;> rcases Nat.lt_trichotomy a2 b2 with h2 | h2 | h2 <;>
    rcases Nat.lt_trichotomy a3 b3 with h3 | h3 | h3 <;>
    simp [h1, h2, h3, Nat.ne_of_lt, Nat.ne_of_gt, Nat.not_lt_of_gt]

/-- the pair rule is symmetric in the alternatives: `i` is credited for the pair `{i, k}` exactly when
no component ties and `i` is better (smaller rank) on more components than `k` -/
theorem multimoora_pair_symm (a b : List Nat) (ha : a.length = 3) (hb : b.length = 3) :
    pairWinner a b = some false ↔ pairWinner b a = some true := by
  match a, b, ha, hb with
  | [a1, a2, a3], [b1, b2, b3], _, _ =>
    unfold pairWinner
    simp only [List.zip_cons_cons, List.zip_nil_right, List.filter_cons, List.filter_nil]
    rcases Nat.lt_trichotomy a1 b1 with h1 | h1 | h1 <;> rcases Nat.lt_trichotomy a2 b2 with h2 | h2 | h2 <;>
    rcases Nat.lt_trichotomy a3 b3 with h3 | h3 | h3 <;>
    simp [h1, h2, h3, Nat.ne_of_lt, Nat.ne_of_gt, Nat.not_lt_of_gt]

/-- MultiMOORA's score is the documented pairwise-dominance count: the number of other alternatives
`k` such that no component ranking ties `i` with `k` and `i` is better on more components -/
theorem multimoora_score_count (rows : List (List Nat)) (h3 : ∀ r ∈ rows, r.length = 3) (i : Nat) (hi : i < rows.length) :
    (multimooraScore rows)[i]'(by simpa [multimooraScore]) =
      ((List.range rows.length).filter fun k =>
        decide (k ≠ i) && (pairWinner (rows.getD i []) (rows.getD k []) == some true)).length := by
  simp only [multimooraScore, List.getElem_map, List.getElem_range]
  congr 1
  apply List.filter_congr
  intro k hk
  have hk' : k < rows.length := List.mem_range.mp hk
  have hri : (rows.getD i []).length = 3 := by
    rw [List.getD_eq_getElem?_getD, List.getElem?_eq_getElem hi]; exact h3 _ (List.getElem_mem hi)
  have hrk : (rows.getD k []).length = 3 := by
    rw [List.getD_eq_getElem?_getD, List.getElem?_eq_getElem hk']; exact h3 _ (List.getElem_mem hk')
  rcases Nat.lt_trichotomy i k with h | h | h
  · simp [h, Nat.ne_of_gt h]
  · subst h; simp
  · have hs := multimoora_pair_symm (rows.getD k []) (rows.getD i []) hrk hri
    simp only [Nat.not_lt_of_gt h, h, if_true, if_false, Nat.ne_of_lt h, ne_eq, not_false_eq_true, decide_true, Bool.true_and]
    rw [Bool.eq_iff_iff]; simpa using hs

/-! non-vacuity -/
example : (wsm (fun _ _ => (2 : ℚ)) (fun (_ : Fin 3) => 1) (0 : Fin 2)) = 6 := by
  simp [wsm, sumFin, List.ofFn_succ]; norm_num
example : multimooraScore [[1, 1, 2], [2, 2, 1], [3, 3, 3]] = [2, 1, 0] := by decide
example : pairWinner [1, 1, 2] [2, 2, 1] = some true ∧ pairWinner [1, 2, 2] [1, 1, 3] = none := by decide

end Skc.C04
