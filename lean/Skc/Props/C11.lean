import Skc.Proofs.Scalers
set_option linter.unusedSectionVars false

/-! # C11 — scalers compute their documented normal form along the right axis

Model: `Skc/Model/Scalers.lean` (`scalers.py`, `push_negatives.py`, `increment.py` and the target
switch of `_preprocessing_base.py`, operation by operation; the scikit-learn estimators by their
documented formulas).  `…M` is what the class calls for the **matrix** (`axis=0`), `…V` what it
calls for the **weights** (`axis=None`, or one reshaped column for the scikit-learn ones).

For every scaler: the cell formula `out i j = …` written with `Finset` sums / suprema over the
alternatives `k` of the *same* criterion `j`; the normal form of every output column; the
`*_column_local` statement — output column `j` is a function of input column `j` alone — which
together with the cell formula is what "along the right axis" means for the matrix target; and the
weights version, where the reduction runs over the whole vector.  `colSup A j`, `colInf A j`,
`colSupAbs A j` are `max_k A k j`, `min_k A k j`, `max_k |A k j|`; `mean`, `pvar` the population
mean / variance (`Skc/Proofs/Scalers.lean`). -/
namespace Skc.C11
open Skc Skc.Scalers Finset

variable {m n : ℕ}

section field
variable {α : Type} [Field α] [LinearOrder α] [IsStrictOrderedRing α]

/-! ### the target switch -/

/-- `target="matrix"`: the matrix goes through the matrix transformation; weights and objectives
are handed on as they are -/
theorem target_matrix (fM : Mat m n α → Mat m n α) (fW : Vec n α → Vec n α) (d : Data m n α) :
    (transformData .matrix fM fW d).matrix = fM d.matrix ∧ (transformData .matrix fM fW d).weights = d.weights ∧
      (transformData .matrix fM fW d).objectives = d.objectives := by
  simp [transformData]
/-- `target="weights"`: only the weights change -/
theorem target_weights (fM : Mat m n α → Mat m n α) (fW : Vec n α → Vec n α) (d : Data m n α) :
    (transformData .weights fM fW d).matrix = d.matrix ∧ (transformData .weights fM fW d).weights = fW d.weights ∧
      (transformData .weights fM fW d).objectives = d.objectives := by
  simp [transformData]
/-- `target="both"`: each part through its own transformation (the weights are *not* scaled with
the matrix's per-criterion statistics, nor the other way round) -/
theorem target_both (fM : Mat m n α → Mat m n α) (fW : Vec n α → Vec n α) (d : Data m n α) :
    (transformData .both fM fW d).matrix = fM d.matrix ∧ (transformData .both fM fW d).weights = fW d.weights ∧
      (transformData .both fM fW d).objectives = d.objectives := by
  simp [transformData]

/-- the scikit-learn estimators see the weights as one column -/
theorem sklearn_weights_as_column (f : Mat n 1 α → Mat n 1 α) (w : Vec n α) (j : Fin n) :
    runSklearnV f w j = f (fun i _ => w i) j 0 := rfl

/-! ### SumScaler -/

/-- cell formula, matrix: each value divided by the sum of **its criterion** -/
theorem sum_cell (A : Mat m n α) (i : Fin m) (j : Fin n) : scaleBySumM A i j = A i j / ∑ k, A k j := by
  simp only [scaleBySumM, sumFin_eq_sum]
/-- every criterion whose sum is not zero sums to 1 afterwards -/
theorem sum_norm (A : Mat m n α) (j : Fin n) (h : ∑ k, A k j ≠ 0) : ∑ i, scaleBySumM A i j = 1 := by
  simp only [sum_cell]; rw [← sum_div]; exact div_self h
theorem sum_column_local (A B : Mat m n α) (j : Fin n) (h : ∀ k, A k j = B k j) (i : Fin m) :
    scaleBySumM A i j = scaleBySumM B i j := by
  simp only [scaleBySumM, h]
/-- weights: divided by the sum of the whole vector … -/
theorem sum_cell_weights (w : Vec n α) (j : Fin n) : scaleBySumV w j = w j / ∑ k, w k := by
  simp only [scaleBySumV, sumFin_eq_sum]
/-- … which then sums to 1 -/
theorem sum_norm_weights (w : Vec n α) (h : ∑ k, w k ≠ 0) : ∑ j, scaleBySumV w j = 1 := by
  simp only [sum_cell_weights]; rw [← sum_div]; exact div_self h

/-! ### MaxAbsScaler -/

theorem maxabs_cell [NeZero m] (A : Mat m n α) (i : Fin m) (j : Fin n) :
    maxAbsScale A i j = A i j / (if colSupAbs A j = 0 then 1 else colSupAbs A j) := by
  simp only [maxAbsScale, maxFin_abs_col, handleZeros_eq]
/-- a criterion that is not identically zero has largest absolute value 1 afterwards -/
theorem maxabs_norm [NeZero m] (A : Mat m n α) (j : Fin n) (h : ∃ k, A k j ≠ 0) :
    colSupAbs (maxAbsScale A) j = 1 := by
  have hpos : 0 < colSupAbs A j := (colSupAbs_pos_iff A j).mpr h
  have hcell : ∀ i, |maxAbsScale A i j| = |A i j| / colSupAbs A j := by
    intro i; rw [maxabs_cell, if_neg (ne_of_gt hpos), abs_div, abs_of_pos hpos]
  unfold colSupAbs at *
  apply le_antisymm
  · apply sup'_le; intro i _
    rw [hcell, div_le_one hpos]; exact le_sup' (fun k => |A k j|) (mem_univ i)
  · obtain ⟨i, _, hi⟩ := exists_mem_eq_sup' univ_nonempty fun k => |A k j|
    have : |maxAbsScale A i j| = 1 := by rw [hcell, ← hi]; exact div_self (ne_of_gt hpos)
    rw [← this]; exact le_sup' (fun k => |maxAbsScale A k j|) (mem_univ i)
/-- an all-zero criterion is left as it is (scale 1) -/
theorem maxabs_zero_column [NeZero m] (A : Mat m n α) (j : Fin n) (h : ∀ k, A k j = 0) (i : Fin m) :
    maxAbsScale A i j = 0 := by
  rw [maxabs_cell, h i, zero_div]
theorem maxabs_column_local [NeZero m] (A B : Mat m n α) (j : Fin n) (h : ∀ k, A k j = B k j) (i : Fin m) :
    maxAbsScale A i j = maxAbsScale B i j := by
  simp only [maxAbsScale, h]
/-- weights: divided by the largest absolute weight; the largest absolute value becomes 1 -/
theorem maxabs_cell_weights [NeZero n] (w : Vec n α) (j : Fin n) :
    runSklearnV maxAbsScale w j =
      w j / (if univ.sup' univ_nonempty (fun k => |w k|) = 0 then 1 else univ.sup' univ_nonempty fun k => |w k|) :=
  maxabs_cell (asColumn w) j 0
theorem maxabs_norm_weights [NeZero n] (w : Vec n α) (h : ∃ k, w k ≠ 0) :
    univ.sup' univ_nonempty (fun j => |runSklearnV maxAbsScale w j|) = 1 :=
  maxabs_norm (asColumn w) 0 h

/-! ### MinMaxScaler -/

/-- `criteria_range = (lo, hi)` with `lo ≥ hi` is refused -/
theorem minmax_refuses_iff (lo hi : α) : minMaxRefuses lo hi = true ↔ hi ≤ lo := by
  simp [minMaxRefuses]
theorem minmax_refused [NeZero m] [NeZero n] (lo hi : α) (clip : Bool) (t : Target) (d : Data m n α) (h : hi ≤ lo) :
    minMaxScaler lo hi clip t d = .error .valueError := by
  simp [minMaxScaler, (minmax_refuses_iff lo hi).mpr h]

/-- the unclipped value of the model, as the documented affine map -/
theorem minmax_raw [NeZero m] (lo hi : α) (A : Mat m n α) (i : Fin m) (j : Fin n) (hr : colInf A j < colSup A j) :
    minMaxScale lo hi false A i j = (A i j - colInf A j) / (colSup A j - colInf A j) * (hi - lo) + lo := by
  have hne : colSup A j - colInf A j ≠ 0 := ne_of_gt (sub_pos.mpr hr)
  simp only [minMaxScale, maxFin_col, minFin_col, handleZeros_of_ne hne, Bool.false_eq_true, if_false]
  field_simp; ring

/-- cell formula on a non-constant criterion (`lo ≤ hi`; with or without `clip`, which cannot bite
on the data the scaler was fitted on): `X_std = (X − min)/(max − min)`, `X_std·(hi − lo) + lo` -/
theorem minmax_affine [NeZero m] (lo hi : α) (hlh : lo ≤ hi) (clip : Bool) (A : Mat m n α) (i : Fin m) (j : Fin n)
    (hr : colInf A j < colSup A j) :
    minMaxScale lo hi clip A i j = (A i j - colInf A j) / (colSup A j - colInf A j) * (hi - lo) + lo := by
  cases clip
  · exact minmax_raw lo hi A i j hr
  · have hraw := minmax_raw lo hi A i j hr
    have hpos : 0 < colSup A j - colInf A j := sub_pos.mpr hr
    have h0 : 0 ≤ (A i j - colInf A j) / (colSup A j - colInf A j) :=
      div_nonneg (sub_nonneg.mpr (colInf_le A i j)) hpos.le
    have h1 : (A i j - colInf A j) / (colSup A j - colInf A j) ≤ 1 := by
      rw [div_le_one hpos]; exact sub_le_sub_right (le_colSup A i j) _
    have hd : 0 ≤ hi - lo := sub_nonneg.mpr hlh
    have hlo : lo ≤ (A i j - colInf A j) / (colSup A j - colInf A j) * (hi - lo) + lo := by
      have := mul_nonneg h0 hd; linarith
    have hhi : (A i j - colInf A j) / (colSup A j - colInf A j) * (hi - lo) + lo ≤ hi := by
      have := mul_le_mul_of_nonneg_right h1 hd; linarith
    have hclip : minMaxScale lo hi true A i j = clipv lo hi (minMaxScale lo hi false A i j) := by
      simp [minMaxScale]
    rw [hclip, hraw, clipv_of_mem hlo hhi]

/-- the minimum of a non-constant criterion goes to `lo`, its maximum to `hi` -/
theorem minmax_ends [NeZero m] (lo hi : α) (hlh : lo ≤ hi) (clip : Bool) (A : Mat m n α) (j : Fin n)
    (hr : colInf A j < colSup A j) :
    (∀ a, A a j = colInf A j → minMaxScale lo hi clip A a j = lo) ∧
    (∀ b, A b j = colSup A j → minMaxScale lo hi clip A b j = hi) := by
  have hne : colSup A j - colInf A j ≠ 0 := ne_of_gt (sub_pos.mpr hr)
  constructor
  · intro a ha; rw [minmax_affine lo hi hlh clip A a j hr, ha]; simp
  · intro b hb; rw [minmax_affine lo hi hlh clip A b j hr, hb, div_self hne]; ring

/-- a constant criterion (range 0 ⇒ scale taken as 1) is mapped to `lo` throughout -/
theorem minmax_constant [NeZero m] (lo hi : α) (hlh : lo ≤ hi) (clip : Bool) (A : Mat m n α) (j : Fin n)
    (hc : ∀ a b, A a j = A b j) (i : Fin m) : minMaxScale lo hi clip A i j = lo := by
  have hmin : colInf A j = A i j := by
    obtain ⟨k, hk⟩ := exists_eq_colInf A j; rw [← hk]; exact hc k i
  have hmax : colSup A j = A i j := by
    obtain ⟨k, hk⟩ := exists_eq_colSup A j; rw [← hk]; exact hc k i
  have hraw : minMaxScale lo hi false A i j = lo := by
    simp only [minMaxScale, maxFin_col, minFin_col, hmin, hmax, sub_self, handleZeros_zero, Bool.false_eq_true,
      if_false]
    ring
  cases clip
  · exact hraw
  · have hclip : minMaxScale lo hi true A i j = clipv lo hi (minMaxScale lo hi false A i j) := by
      simp [minMaxScale]
    rw [hclip, hraw, clipv_of_mem (le_refl _) hlh]

theorem minmax_column_local [NeZero m] (lo hi : α) (clip : Bool) (A B : Mat m n α) (j : Fin n)
    (h : ∀ k, A k j = B k j) (i : Fin m) : minMaxScale lo hi clip A i j = minMaxScale lo hi clip B i j := by
  simp only [minMaxScale, h]

/-- weights: the smallest weight goes to `lo`, the largest to `hi`, affinely in between -/
theorem minmax_affine_weights [NeZero n] (lo hi : α) (hlh : lo ≤ hi) (clip : Bool) (w : Vec n α) (j : Fin n)
    (hr : univ.inf' univ_nonempty w < univ.sup' univ_nonempty w) :
    runSklearnV (minMaxScale lo hi clip) w j =
      (w j - univ.inf' univ_nonempty w) / (univ.sup' univ_nonempty w - univ.inf' univ_nonempty w) * (hi - lo) + lo :=
  minmax_affine lo hi hlh clip (asColumn w) j 0 hr
theorem minmax_ends_weights [NeZero n] (lo hi : α) (hlh : lo ≤ hi) (clip : Bool) (w : Vec n α)
    (hr : univ.inf' univ_nonempty w < univ.sup' univ_nonempty w) :
    (∀ a, w a = univ.inf' univ_nonempty w → runSklearnV (minMaxScale lo hi clip) w a = lo) ∧
    (∀ b, w b = univ.sup' univ_nonempty w → runSklearnV (minMaxScale lo hi clip) w b = hi) :=
  minmax_ends lo hi hlh clip (asColumn w) 0 hr

/-! ### CenitDistanceMatrixScaler -/

/-- cell formula: `(x − anti-ideal) / (ideal − anti-ideal)` of the criterion, the ideal being its
maximum under a maximise objective and its minimum under a minimise objective -/
theorem cenit_cell [NeZero m] (A : Mat m n α) (o : Vec n Obj) (i : Fin m) (j : Fin n) :
    cenitScale A o i j =
      (A i j - (if o j = .max then colInf A j else colSup A j)) /
        ((if o j = .max then colSup A j else colInf A j) - (if o j = .max then colInf A j else colSup A j)) := by
  simp only [cenitScale, maxFin_col, minFin_col]
/-- on a non-constant criterion the ideal goes to 1 and the anti-ideal to 0 -/
theorem cenit_ends [NeZero m] (A : Mat m n α) (o : Vec n Obj) (j : Fin n) (hr : colInf A j < colSup A j) :
    (∀ a, A a j = (if o j = .max then colSup A j else colInf A j) → cenitScale A o a j = 1) ∧
    (∀ b, A b j = (if o j = .max then colInf A j else colSup A j) → cenitScale A o b j = 0) := by
  have hne : colSup A j - colInf A j ≠ 0 := ne_of_gt (sub_pos.mpr hr)
  have hne' : colInf A j - colSup A j ≠ 0 := ne_of_lt (sub_neg.mpr hr)
  constructor
  · intro a ha; rw [cenit_cell, ha]
    cases o j <;> simp [hne, hne']
  · intro b hb; rw [cenit_cell, hb]
    cases o j <;> simp
theorem cenit_column_local [NeZero m] (A B : Mat m n α) (o : Vec n Obj) (j : Fin n) (h : ∀ k, A k j = B k j)
    (i : Fin m) : cenitScale A o i j = cenitScale B o i j := by
  simp only [cenitScale, h]

/-! ### PushNegatives -/

/-- a criterion is shifted iff its minimum is negative — by that minimum; otherwise untouched -/
theorem pushneg_cases [NeZero m] (A : Mat m n α) (j : Fin n) :
    (colInf A j < 0 → ∀ i, pushNegativesM A i j = A i j - colInf A j) ∧
    (¬ colInf A j < 0 → ∀ i, pushNegativesM A i j = A i j) := by
  constructor <;> intro h i <;> simp [pushNegativesM, minFin_col, h]
/-- after the shift the minimum of the criterion is 0 -/
theorem pushneg_min [NeZero m] (A : Mat m n α) (j : Fin n) (h : colInf A j < 0) :
    colInf (pushNegativesM A) j = 0 := by
  have hc := (pushneg_cases A j).1 h
  unfold colInf at *
  apply le_antisymm
  · obtain ⟨i, _, hi⟩ := exists_mem_eq_inf' univ_nonempty fun k => A k j
    have : pushNegativesM A i j = 0 := by rw [hc i]; simp only [hi, sub_self]
    rw [← this]; exact inf'_le (fun k => pushNegativesM A k j) (mem_univ i)
  · apply le_inf'; intro i _
    rw [hc i]; exact sub_nonneg.mpr (inf'_le (fun k => A k j) (mem_univ i))
/-- in every case no negative value is left -/
theorem pushneg_nonneg [NeZero m] (A : Mat m n α) (i : Fin m) (j : Fin n) : 0 ≤ pushNegativesM A i j := by
  by_cases h : colInf A j < 0
  · rw [(pushneg_cases A j).1 h i]; exact sub_nonneg.mpr (colInf_le A i j)
  · rw [(pushneg_cases A j).2 h i]; exact le_trans (not_lt.mp h) (colInf_le A i j)
theorem pushneg_column_local [NeZero m] (A B : Mat m n α) (j : Fin n) (h : ∀ k, A k j = B k j) (i : Fin m) :
    pushNegativesM A i j = pushNegativesM B i j := by
  simp only [pushNegativesM, h]
/-- weights: shifted iff the smallest weight is negative, by that weight -/
theorem pushneg_cases_weights [NeZero n] (w : Vec n α) :
    (univ.inf' univ_nonempty w < 0 → ∀ j, pushNegativesV w j = w j - univ.inf' univ_nonempty w) ∧
    (¬ univ.inf' univ_nonempty w < 0 → ∀ j, pushNegativesV w j = w j) := by
  constructor <;> intro h j <;> simp [pushNegativesV, minFin_eq_inf', h]

/-! ### AddValueToZero -/

/-- `value` is added to a criterion iff the criterion contains a zero -/
theorem addzero_cases (v : α) (A : Mat m n α) (j : Fin n) :
    ((∃ k, A k j = 0) → ∀ i, addValueToZeroM v A i j = A i j + v) ∧
    ((∀ k, A k j ≠ 0) → ∀ i, addValueToZeroM v A i j = A i j) := by
  constructor
  · intro h i
    have : anyFin (fun k => isZero (A k j)) = true := by
      rw [anyFin_iff]; obtain ⟨k, hk⟩ := h; exact ⟨k, (isZero_iff _).mpr hk⟩
    simp [addValueToZeroM, this]
  · intro h i
    have : anyFin (fun k => isZero (A k j)) = false := by
      rw [← Bool.not_eq_true, anyFin_iff]; rintro ⟨k, hk⟩; exact h k ((isZero_iff _).mp hk)
    simp [addValueToZeroM, this]
theorem addzero_column_local (v : α) (A B : Mat m n α) (j : Fin n) (h : ∀ k, A k j = B k j) (i : Fin m) :
    addValueToZeroM v A i j = addValueToZeroM v B i j := by
  simp only [addValueToZeroM, h]
/-- weights: `value` is added to every weight iff some weight is zero -/
theorem addzero_cases_weights (v : α) (w : Vec n α) :
    ((∃ k, w k = 0) → ∀ j, addValueToZeroV v w j = w j + v) ∧
    ((∀ k, w k ≠ 0) → ∀ j, addValueToZeroV v w j = w j) := by
  constructor
  · intro h j
    have : anyFin (fun k => isZero (w k)) = true := by
      rw [anyFin_iff]; obtain ⟨k, hk⟩ := h; exact ⟨k, (isZero_iff _).mpr hk⟩
    simp [addValueToZeroV, this]
  · intro h j
    have : anyFin (fun k => isZero (w k)) = false := by
      rw [← Bool.not_eq_true, anyFin_iff]; rintro ⟨k, hk⟩; exact h k ((isZero_iff _).mp hk)
    simp [addValueToZeroV, this]

/-! ### the classes put the right function on the right part -/

theorem sumScaler_parts (d : Data m n α) :
    (sumScaler .matrix d).matrix = scaleBySumM d.matrix ∧ (sumScaler .matrix d).weights = d.weights ∧
    (sumScaler .weights d).matrix = d.matrix ∧ (sumScaler .weights d).weights = scaleBySumV d.weights ∧
    (sumScaler .both d).matrix = scaleBySumM d.matrix ∧ (sumScaler .both d).weights = scaleBySumV d.weights := by
  simp [sumScaler, transformData]

end field

/-! ### kernels with a square root, over `ℝ` -/

/-- VectorScaler cell formula: divided by the Euclidean norm of **its criterion** -/
theorem vector_cell (A : Mat m n ℝ) (i : Fin m) (j : Fin n) :
    scaleByVectorM A i j = A i j / Real.sqrt (∑ k, A k j ^ 2) := by
  simp only [scaleByVectorM, sumFin_eq_sum, sqrt_real, sq]
/-- every criterion that is not identically zero has unit Euclidean norm afterwards -/
theorem vector_norm (A : Mat m n ℝ) (j : Fin n) (h : ∑ k, A k j ^ 2 ≠ 0) : ∑ i, scaleByVectorM A i j ^ 2 = 1 := by
  have hnn : 0 ≤ ∑ k, A k j ^ 2 := sum_nonneg fun k _ => sq_nonneg _
  simp only [vector_cell, div_pow, Real.sq_sqrt hnn]
  rw [← sum_div]; exact div_self h
theorem vector_column_local (A B : Mat m n ℝ) (j : Fin n) (hAB : ∀ k, A k j = B k j) (i : Fin m) :
    scaleByVectorM A i j = scaleByVectorM B i j := by
  simp only [scaleByVectorM, hAB]
theorem vector_cell_weights (w : Vec n ℝ) (j : Fin n) : scaleByVectorV w j = w j / Real.sqrt (∑ k, w k ^ 2) := by
  simp only [scaleByVectorV, sumFin_eq_sum, sqrt_real, sq]
theorem vector_norm_weights (w : Vec n ℝ) (h : ∑ k, w k ^ 2 ≠ 0) : ∑ j, scaleByVectorV w j ^ 2 = 1 := by
  have hnn : 0 ≤ ∑ k, w k ^ 2 := sum_nonneg fun k _ => sq_nonneg _
  simp only [vector_cell_weights, div_pow, Real.sq_sqrt hnn]
  rw [← sum_div]; exact div_self h

/-- StandarScaler cell formula: `z = (x − u) / s` with `u` the criterion's mean (0 when
`with_mean=False`) and `s` its population standard deviation (1 when `with_std=False` or when the
criterion is constant) -/
theorem standard_cell (withMean withStd : Bool) (A : Mat m n ℝ) (i : Fin m) (j : Fin n) :
    standardScale withMean withStd A i j =
      (A i j - (if withMean then mean (fun k => A k j) else 0)) /
        (if withStd then (if pvar (fun k => A k j) = 0 then 1 else Real.sqrt (pvar fun k => A k j)) else 1) := by
  have hv : (sumFin fun k => (A k j - mean (fun k => A k j)) * (A k j - mean (fun k => A k j))) / (m : ℝ)
      = pvar fun k => A k j := by rw [model_var]; rfl
  simp only [standardScale, model_mean, hv, sqrt_real]
  by_cases h0 : pvar (fun k => A k j) = 0
  · cases withMean <;> cases withStd <;> simp [h0, (isZero_iff (0 : ℝ)).mpr rfl]
  · have : isZero (pvar fun k => A k j) = false := (isZero_false_iff _).mpr h0
    cases withMean <;> cases withStd <;> simp [h0, this]

/-- `with_mean=True`: every criterion has mean 0 afterwards -/
theorem standard_mean [NeZero m] (withStd : Bool) (A : Mat m n ℝ) (j : Fin n) :
    mean (fun i => standardScale true withStd A i j) = 0 := by
  have hm : ((m : ℕ) : ℝ) ≠ 0 := natCast_ne_zero'
  unfold mean
  simp only [standard_cell, if_true]
  rw [← sum_div, sum_sub_mean, zero_div, zero_div]

/-- `with_std=True`: every non-constant criterion has population standard deviation 1 afterwards
(with or without centring) -/
theorem standard_std [NeZero m] (withMean : Bool) (A : Mat m n ℝ) (j : Fin n) (hnc : ∃ a b, A a j ≠ A b j) :
    Real.sqrt (pvar fun i => standardScale withMean true A i j) = 1 := by
  have hv : pvar (fun k => A k j) ≠ 0 := by
    intro h0; obtain ⟨a, b, hab⟩ := hnc; exact hab ((pvar_eq_zero_iff _).mp h0 a b)
  have hvpos : 0 < pvar fun k => A k j := lt_of_le_of_ne (pvar_nonneg _) (Ne.symm hv)
  have hs : Real.sqrt (pvar fun k => A k j) ≠ 0 := ne_of_gt (Real.sqrt_pos.mpr hvpos)
  have haff : (fun i => standardScale withMean true A i j) =
      fun i => (Real.sqrt (pvar fun k => A k j))⁻¹ * A i j +
        -((if withMean then mean (fun k => A k j) else 0) / Real.sqrt (pvar fun k => A k j)) := by
    funext i; rw [standard_cell]; simp only [if_true, if_neg hv]; field_simp; ring
  rw [haff, pvar_affine, inv_pow, Real.sq_sqrt hvpos.le, inv_mul_cancel₀ hv, Real.sqrt_one]

/-- a constant criterion is only centred (scale 1): it becomes 0 with `with_mean`, stays otherwise -/
theorem standard_constant [NeZero m] (withMean withStd : Bool) (A : Mat m n ℝ) (j : Fin n) (hc : ∀ a b, A a j = A b j)
    (i : Fin m) : standardScale withMean withStd A i j = if withMean then 0 else A i j := by
  have hm : ((m : ℕ) : ℝ) ≠ 0 := natCast_ne_zero'
  have hv : pvar (fun k => A k j) = 0 := (pvar_eq_zero_iff _).mpr hc
  have hmean : mean (fun k => A k j) = A i j := by
    unfold mean
    rw [sum_congr rfl (fun k _ => hc k i), sum_const, card_univ, Fintype.card_fin, nsmul_eq_mul]
    field_simp
  rw [standard_cell, hv, hmean]
  cases withMean <;> cases withStd <;> simp

theorem standard_column_local (withMean withStd : Bool) (A B : Mat m n ℝ) (j : Fin n) (hAB : ∀ k, A k j = B k j)
    (i : Fin m) : standardScale withMean withStd A i j = standardScale withMean withStd B i j := by
  simp only [standardScale, hAB]

/-- weights: the same with the mean / standard deviation of the weight vector -/
theorem standard_cell_weights (withMean withStd : Bool) (w : Vec n ℝ) (j : Fin n) :
    runSklearnV (standardScale withMean withStd) w j =
      (w j - (if withMean then mean w else 0)) /
        (if withStd then (if pvar w = 0 then 1 else Real.sqrt (pvar w)) else 1) :=
  standard_cell withMean withStd (asColumn w) j 0
theorem standard_mean_weights [NeZero n] (withStd : Bool) (w : Vec n ℝ) :
    mean (runSklearnV (standardScale true withStd) w) = 0 :=
  standard_mean withStd (asColumn w) 0
theorem standard_std_weights [NeZero n] (withMean : Bool) (w : Vec n ℝ) (hnc : ∃ a b, w a ≠ w b) :
    Real.sqrt (pvar (runSklearnV (standardScale withMean true) w)) = 1 :=
  standard_std withMean (asColumn w) 0 hnc

/-! ### non-vacuity: the hypotheses hold on concrete non-square instances -/

/-- a 3 × 2 matrix with a negative entry, a zero and a non-zero column sum -/
def exA : Mat 3 2 ℚ := fun i j => if j = 0 then (if i = 0 then -1 else if i = 1 then 0 else 3) else (i.val + 1 : ℚ)

example : ∑ k, exA k 0 ≠ 0 := by simp [exA, Fin.sum_univ_three]; norm_num
example : ∑ i, scaleBySumM exA i 0 = 1 := sum_norm exA 0 (by simp [exA, Fin.sum_univ_three]; norm_num)
example : ∃ k, exA k 0 ≠ 0 := ⟨0, by simp [exA]⟩
example : colInf exA 0 < colSup exA 0 := (colInf_lt_colSup_iff exA 0).mpr ⟨0, 2, by simp [exA]; norm_num⟩
example : colInf exA 0 < 0 := lt_of_le_of_lt (colInf_le exA 0 0) (by simp [exA])
example : ∃ k, exA k 0 = 0 := ⟨1, by simp [exA]⟩
example : ∀ k, exA k 1 ≠ 0 := by
  intro k; simp only [exA]; have : (0 : ℚ) ≤ (k.val : ℚ) := Nat.cast_nonneg _
  simp; linarith
example : ∃ a b, (fun i j => ((exA i j : ℚ) : ℝ)) a (0 : Fin 2) ≠ (fun i j => ((exA i j : ℚ) : ℝ)) b 0 :=
  ⟨0, 2, by simp [exA]; norm_num⟩

end Skc.C11
