import Skc.Proofs.DominanceModel
import Mathlib.Logic.Relation
set_option linter.unusedSectionVars false

/-! # C07 — dominance analysis matches the definition of (strict) dominance

Model: `Skc/Model/Dominance.lean` (`rank.dominance`, the pair cache with its `reverted` flag, `bt`,
`eq`, `dominance(strict)`, `compare`, `dominated`, recursive `dominators_of`, `has_loops`, and the
`lru_cache` as a state machine).  Definition: `Skc/Proofs/Dominance.lean` (`better`, `dominates`,
`sdominates`, `btCount`, `eqCount`).  Any number of alternatives and criteria, any linear order. -/
namespace Skc.C07
open Skc Skc.Dom Finset

variable {α : Type} [LinearOrder α] {m n : ℕ}

/-- the comparison kernel partitions the criteria: equal / a better / b better -/
theorem pair_counts (o : Vec n Obj) (a b : Fin n → α) :
    (pair (revOf o) a b).eq + (pair (revOf o) a b).aDb + (pair (revOf o) a b).bDa = n := by
  rw [aDb_eq, bDa_eq, eq_eq]; have := counts_sum o a b; omega

/-- the per-criterion table of `compare`/`rank.dominance` is the definition, criterion by criterion -/
theorem pair_where_iff (o : Vec n Obj) (a b : Fin n → α) (j : Fin n) :
    ((pair (revOf o) a b).aDbW j = true ↔ better (o j) (a j) (b j)) ∧
    ((pair (revOf o) a b).bDaW j = true ↔ better (o j) (b j) (a j)) ∧
    ((pair (revOf o) a b).eqW j = true ↔ a j = b j) :=
  ⟨aDbW_iff o a b j, bDaW_iff o a b j, eqW_iff o a b j⟩

/-- `bt()`: number of criteria on which the row alternative is better — whichever way the pair is cached -/
theorem bt_iff (A : Mat m n α) (o : Vec n Obj) (i k : Fin m) (h : i ≠ k) :
    bt A o i k = btCount o (A i) (A k) := bt_eq A o i k h
theorem bt_diag (A : Mat m n α) (o : Vec n Obj) (i : Fin m) : bt A o i i = 0 := by simp [bt]
theorem eq_iff (A : Mat m n α) (o : Vec n Obj) (i k : Fin m) (h : i ≠ k) :
    eqT A o i k = eqCount (A i) (A k) := eqT_eq A o i k h
theorem eq_diag (A : Mat m n α) (o : Vec n Obj) (i : Fin m) : eqT A o i i = n := by simp [eqT]

/-- better(a,b) + better(b,a) + equal(a,b) = number of criteria -/
theorem bt_add (A : Mat m n α) (o : Vec n Obj) (i k : Fin m) (h : i ≠ k) :
    bt A o i k + bt A o k i + eqT A o i k = n := by
  rw [bt_eq A o i k h, bt_eq A o k i (Ne.symm h), eqT_eq A o i k h]; exact counts_sum o (A i) (A k)

/-- `compare(a0, a1)` reads the cache consistently: its rows and performances are those of the
requested order -/
theorem compare_iff (A : Mat m n α) (o : Vec n Obj) (i k : Fin m) (j : Fin n) :
    ((Dom.compare A o i k).row0 j = true ↔ better (o j) (A i j) (A k j)) ∧
    ((Dom.compare A o i k).row1 j = true ↔ better (o j) (A k j) (A i j)) ∧
    ((Dom.compare A o i k).eqRow j = true ↔ A i j = A k j) ∧
    (Dom.compare A o i k).perf0 = btCount o (A i) (A k) ∧ (Dom.compare A o i k).perf1 = btCount o (A k) (A i) ∧
    (Dom.compare A o i k).perfEq = eqCount (A i) (A k) := by
  by_cases h : i.val < k.val
  · simp [Dom.compare, cacheRead, h, aDbW_iff, bDaW_iff, eqW_iff, aDb_eq, bDa_eq, eq_eq]
  · have hc : ∀ x y : α, (x = y) = (y = x) := fun x y => propext eq_comm
    simp only [Dom.compare, cacheRead, h, if_false, Bool.not_true, Bool.false_eq_true, aDbW_iff, bDaW_iff, eqW_iff, aDb_eq, bDa_eq,
      eq_eq, eqCount_comm (A k) (A i), hc (A k j) (A i j), and_self, true_and]

/-- the reported relation is dominance (nowhere worse, somewhere better) … -/
theorem dominance_iff (A : Mat m n α) (o : Vec n Obj) (i k : Fin m) :
    dominance false A o i k = true ↔ dominates o (A i) (A k) := by
  rw [dominance_iff']
  simp only [Bool.false_eq_true, if_false, and_iff_right_iff_imp]
  intro h hik; subst hik; exact dominates_irrefl o _ h

/-- … and with `strict=True` strict dominance (better everywhere) -/
theorem strict_dominance_iff (A : Mat m n α) (o : Vec n Obj) (i k : Fin m) :
    dominance true A o i k = true ↔ sdominates o (A i) (A k) := by
  rw [dominance_iff']
  simp only [if_true, and_iff_right_iff_imp]
  intro h hik; subst hik; exact dominates_irrefl o _ (sdominates_dominates h)

/-- irreflexive, asymmetric, transitive (both settings) -/
theorem dominance_irrefl (strict : Bool) (A : Mat m n α) (o : Vec n Obj) (i : Fin m) :
    dominance strict A o i i = false := by simp [dominance]
theorem dominance_asymm (strict : Bool) (A : Mat m n α) (o : Vec n Obj) (i k : Fin m)
    (h : dominance strict A o i k = true) : dominance strict A o k i = false := by
  cases strict
  · rw [dominance_iff] at h
    cases hh : dominance false A o k i
    · rfl
    · exact absurd ((dominance_iff A o k i).mp hh) (dominates_asymm h)
  · rw [strict_dominance_iff] at h
    cases hh : dominance true A o k i
    · rfl
    · exact absurd (sdominates_dominates ((strict_dominance_iff A o k i).mp hh)) (dominates_asymm (sdominates_dominates h))
theorem dominance_trans (strict : Bool) (A : Mat m n α) (o : Vec n Obj) (i k l : Fin m)
    (h1 : dominance strict A o i k = true) (h2 : dominance strict A o k l = true) : dominance strict A o i l = true := by
  cases strict
  · rw [dominance_iff] at *; exact dominates_trans h1 h2
  · rw [strict_dominance_iff] at *; exact sdominates_trans h1 h2
theorem strict_imp_dominance (A : Mat m n α) (o : Vec n Obj) (i k : Fin m)
    (h : dominance true A o i k = true) : dominance false A o i k = true := by
  rw [strict_dominance_iff] at h; rw [dominance_iff]; exact sdominates_dominates h

/-- `dominated()`: some alternative dominates it -/
theorem dominated_iff (strict : Bool) (A : Mat m n α) (o : Vec n Obj) (k : Fin m) :
    dominated strict A o k = true ↔ ∃ i, dominance strict A o i k = true := by
  unfold dominated; rw [anyFin_iff]

/-- the relation on indices that `dominators_of` walks -/
def rel (strict : Bool) (A : Mat m n α) (o : Vec n Obj) (x y : ℕ) : Bool :=
  if h : x < m ∧ y < m then dominance strict A o ⟨x, h.1⟩ ⟨y, h.2⟩ else false

theorem rel_irrefl (strict : Bool) (A : Mat m n α) (o : Vec n Obj) (x : ℕ) : rel strict A o x x = false := by
  unfold rel; split <;> simp [dominance_irrefl]
theorem rel_trans (strict : Bool) (A : Mat m n α) (o : Vec n Obj) (x y z : ℕ)
    (h1 : rel strict A o x y = true) (h2 : rel strict A o y z = true) : rel strict A o x z = true := by
  unfold rel at *
  split at h1 <;> split at h2 <;> simp_all
  rename_i hx hy
  exact dominance_trans strict A o _ _ _ h1 h2

/-- termination is a theorem: dominance is a strict partial order on finitely many alternatives, so a
recursion budget of `m + 1` frames always suffices, and the returned list contains exactly the
dominators of `a` — which, by transitivity, is the transitive closure -/
theorem dominatorsOf_spec (strict : Bool) (A : Mat m n α) (o : Vec n Obj) (a : ℕ) (ha : a < m) :
    ∃ l, dominatorsOf (rel strict A o) m (m + 1) a = some l ∧ ∀ x, x ∈ l ↔ (x < m ∧ rel strict A o x a = true) := by
  obtain ⟨l, hl, hmem⟩ := dominatorsOf_ok (rel strict A o) m (rel_irrefl strict A o) (rel_trans strict A o) (m + 1) a
    (by have := domSet_card_lt (rel strict A o) m a (rel_irrefl strict A o) ha; omega)
  exact ⟨l, hl, fun x => by rw [hmem]; simp [domSet]⟩

theorem transGen_rel_iff (strict : Bool) (A : Mat m n α) (o : Vec n Obj) (x a : ℕ) :
    Relation.TransGen (fun u v => rel strict A o u v = true) x a ↔ rel strict A o x a = true := by
  constructor
  · intro h
    induction h with
    | single h => exact h
    | tail _ h2 ih => exact rel_trans strict A o _ _ _ ih h2
  · intro h; exact Relation.TransGen.single h

/-- no dominance loop is ever reported -/
theorem hasLoops_false (strict : Bool) (A : Mat m n α) (o : Vec n Obj) :
    hasLoops (rel strict A o) m (m + 1) = false := by
  unfold hasLoops
  rw [Bool.eq_false_iff]
  intro h
  rw [List.any_eq_true] at h
  obtain ⟨a, ha, hnone⟩ := h
  obtain ⟨l, hl, _⟩ := dominatorsOf_spec strict A o a (List.mem_range.mp ha)
  simp [hl] at hnone

/-- the memoised accessor is transparent: whatever the order (and repetition) of calls on one matrix,
each call returns what the pure computation returns -/
theorem memo_transparent {κ β : Type} [DecidableEq κ] (f : κ → β) (calls : List κ) :
    memoRun f [] calls = calls.map f :=
  memoRun_eq f calls [] (by simp)

/-! non-vacuity / concrete behaviour (the chain A2 ≻ A1 ≻ A0: the real call returns ['A1','A2','A2']) -/
example : dominatorsOf (fun x y => decide (y < x)) 3 4 0 = some [1, 2, 2] := by decide
example : dominatorsOf (fun x y => decide (y < x)) 3 1 0 = none := by decide
example : memoRun (fun k : Nat => k * k) [] [3, 4, 3] = [9, 16, 9] := by decide

end Skc.C07
