import Skc.Proofs.Weighters
set_option linter.unusedSectionVars false
set_option linter.unusedVariables false

/-! # C13 — weighting methods are normalised, definition-conformant and order-independent

Model: `Skc/Model/Weighters.lean` (`equal_weights`, `std_weights`, `entropy_weights`, `critic_weights`,
`matrix_scale_by_cenit_distance`, the `SKCWeighterABC` classes — operation by operation).
The published formulas (`Spec.mean`, `Spec.cov`, `Spec.std`, `Spec.entropy`, `Spec.pearson`,
`Spec.avgRank`, `Spec.spearman`, `Spec.cenit`, `Spec.criticInfo`) are written with `Finset` sums over `ℝ`
in `Skc/Proofs/Weighters.lean`.  `A : Mat m n ℝ` has `m` alternatives (rows) and `n` criteria (columns).

Hypotheses that appear below and what they mean:
* `2 ≤ m` — at least two alternatives (the property quantifies over ≥ 3);
* `∃ i i', A i j ≠ A i' j` — criterion `j` is not constant;
* `∀ i j, 0 < A i j` — positive data (entropy weighter).
Where a total is zero (`0/0` in the code, `NaN`) the formulas are undefined: every constant
criterion for std / entropy, perfectly correlated criteria for CRITIC. -/
namespace Skc.C13
open Skc Skc.Weighters Finset

variable {m n : ℕ}

/-! ## EqualWeighter (any ordered field) -/
section field
variable {α : Type} [Field α] [LinearOrder α] [IsStrictOrderedRing α]

/-- EqualWeighter: every one of the `n` criteria gets `base_value / n` (the number of criteria, not of
alternatives) -/
theorem equal_eq (A : Mat m n α) (base : α) (j : Fin n) : equalWeights A base j = base / (n : α) :=
  equalWeights_apply A base j

/-- … so the weights add up to `base_value` -/
theorem equal_sum (A : Mat m n α) (base : α) (hn : n ≠ 0) : ∑ j, equalWeights A base j = base :=
  equalWeights_sum A base hn

/-- … and non-negative for a non-negative `base_value` -/
theorem equal_nonneg (A : Mat m n α) {base : α} (hb : 0 ≤ base) (j : Fin n) : 0 ≤ equalWeights A base j := by
  rw [equal_eq]; exact div_nonneg hb (Nat.cast_nonneg n)

/-- only the number of criteria matters: any two matrices with `n` criteria get the same weights,
whatever their numbers of alternatives and their contents -/
theorem equal_shape_only {m' : ℕ} (A : Mat m n α) (A' : Mat m' n α) (base : α) :
    equalWeights A base = equalWeights A' base := rfl

theorem equal_row_perm (A : Mat m n α) (base : α) (σ : Equiv.Perm (Fin m)) :
    equalWeights (fun i => A (σ i)) base = equalWeights A base := rfl

theorem equal_col_perm (A : Mat m n α) (base : α) (τ : Equiv.Perm (Fin n)) (j : Fin n) :
    equalWeights (fun i j => A i (τ j)) base j = equalWeights A base (τ j) := rfl

end field

/-! ## StdWeighter -/

/-- StdWeighter: the sample standard deviation (`ddof = 1`) of each criterion, divided by their sum -/
theorem std_eq (A : Mat m n ℝ) (j : Fin n) : stdWeights A j = Spec.std 1 A j / ∑ k, Spec.std 1 A k :=
  stdWeightsDdof_eq 1 A j

/-- the weights sum to one as soon as one criterion is not constant -/
theorem std_sum_one (hm : 2 ≤ m) (A : Mat m n ℝ) (h : ∃ j, ∃ i i', A i j ≠ A i' j) : ∑ j, stdWeights A j = 1 := by
  obtain ⟨j, hj⟩ := h
  have hpos : 0 < ∑ k, Spec.std 1 A k :=
    Finset.sum_pos' (fun k _ => Spec.std_nonneg 1 A k) ⟨j, mem_univ _, Spec.std_pos 1 (by omega) A j hj⟩
  simp only [std_eq]; rw [← Finset.sum_div, div_self hpos.ne']

/-- the weights are non-negative -/
theorem std_nonneg (A : Mat m n ℝ) (j : Fin n) : 0 ≤ stdWeights A j := by
  rw [std_eq]
  exact div_nonneg (Spec.std_nonneg _ _ _) (Finset.sum_nonneg fun k _ => Spec.std_nonneg _ _ _)

/-- a criterion that is not constant gets a positive weight -/
theorem std_pos (hm : 2 ≤ m) (A : Mat m n ℝ) (j : Fin n) (hj : ∃ i i', A i j ≠ A i' j) : 0 < stdWeights A j := by
  rw [std_eq]
  have hp := Spec.std_pos 1 (by omega) A j hj
  exact div_pos hp (Finset.sum_pos' (fun k _ => Spec.std_nonneg 1 A k) ⟨j, mem_univ _, hp⟩)

/-- "sample" vs "population" standard deviation is immaterial for the weights: with `ddof = 0` every
criterion's deviation is multiplied by the same `√((m−1)/m)`, which cancels in the normalisation -/
theorem std_weights_ddof_irrelevant (hm : 2 ≤ m) (A : Mat m n ℝ) : stdWeightsDdof 0 A = stdWeights A := by
  funext j
  rw [stdWeightsDdof_eq, std_eq]
  simp only [Spec.std_ddof hm]
  rw [← Finset.mul_sum]
  apply mul_div_mul_left
  have hm1 : (0 : ℝ) < (m : ℝ) - 1 := by
    have : (2 : ℝ) ≤ m := by exact_mod_cast hm
    linarith
  have hm0 : (0 : ℝ) < m := by linarith
  exact (Real.sqrt_pos.mpr (div_pos hm1 hm0)).ne'

/-- the alternatives may be listed in any order -/
theorem std_row_perm (A : Mat m n ℝ) (σ : Equiv.Perm (Fin m)) : stdWeights (fun i => A (σ i)) = stdWeights A := by
  funext j; simp only [std_eq, Spec.std_row_perm]

/-- the criteria may be listed in any order: the weight follows its criterion -/
theorem std_col_perm (A : Mat m n ℝ) (τ : Equiv.Perm (Fin n)) (j : Fin n) :
    stdWeights (fun i j => A i (τ j)) j = stdWeights A (τ j) := by
  simp only [std_eq, Spec.std_col_perm]
  rw [Equiv.sum_comp τ (fun k => Spec.std 1 A k)]

/-! ## EntropyWeighter -/

/-- EntropyWeighter: one minus the normalised Shannon entropy (base: number of alternatives) of the
criterion's shares `p_ij = a_ij / Σ_i a_ij`, divided by the sum of these complements -/
theorem entropy_eq (A : Mat m n ℝ) (hA : ∀ i j, 0 ≤ A i j) (j : Fin n) :
    entropyWeights A j = (1 - Spec.entropy A j) / ∑ k, (1 - Spec.entropy A k) :=
  entropyWeights_eq A hA j

/-- Gibbs' inequality: on positive data the normalised entropy of a criterion is at most one -/
theorem entropy_le_one (hm : 2 ≤ m) (A : Mat m n ℝ) (hA : ∀ i j, 0 < A i j) (j : Fin n) : Spec.entropy A j ≤ 1 :=
  Spec.entropy_le_one hm A hA j

/-- the weights are non-negative (positive data, at least two alternatives) -/
theorem entropy_nonneg (hm : 2 ≤ m) (A : Mat m n ℝ) (hA : ∀ i j, 0 < A i j) (j : Fin n) : 0 ≤ entropyWeights A j := by
  rw [entropy_eq A (fun i j => (hA i j).le)]
  exact div_nonneg (sub_nonneg.mpr (Spec.entropy_le_one hm A hA j))
    (Finset.sum_nonneg fun k _ => sub_nonneg.mpr (Spec.entropy_le_one hm A hA k))

/-- the weights sum to one as soon as one criterion is not constant -/
theorem entropy_sum_one (hm : 2 ≤ m) (A : Mat m n ℝ) (hA : ∀ i j, 0 < A i j) (h : ∃ j, ∃ i i', A i j ≠ A i' j) :
    ∑ j, entropyWeights A j = 1 := by
  obtain ⟨j, hj⟩ := h
  have hpos : 0 < ∑ k, (1 - Spec.entropy A k) :=
    Finset.sum_pos' (fun k _ => sub_nonneg.mpr (Spec.entropy_le_one hm A hA k))
      ⟨j, mem_univ _, sub_pos.mpr (Spec.entropy_lt_one hm A hA j hj)⟩
  simp only [entropy_eq A (fun i j => (hA i j).le)]
  rw [← Finset.sum_div, div_self hpos.ne']

/-- the alternatives may be listed in any order -/
theorem entropy_row_perm (A : Mat m n ℝ) (σ : Equiv.Perm (Fin m)) :
    entropyWeights (fun i => A (σ i)) = entropyWeights A := by
  have h1 : ∀ j, ∑ i, A (σ i) j = ∑ i, A i j := fun j => Equiv.sum_comp σ (fun i => A i j)
  have h2 : ∀ j, ∑ i, entr (A (σ i) j / ∑ i', A i' j) = ∑ i, entr (A i j / ∑ i', A i' j) :=
    fun j => Equiv.sum_comp σ (fun i => entr (A i j / ∑ i', A i' j))
  funext j
  simp only [entropyWeights, scipyEntropy, tab_get, sumFin_eq_sum, h1, h2]

/-- the criteria may be listed in any order: the weight follows its criterion -/
theorem entropy_col_perm (A : Mat m n ℝ) (τ : Equiv.Perm (Fin n)) (j : Fin n) :
    entropyWeights (fun i j => A i (τ j)) j = entropyWeights A (τ j) := by
  have h : ∀ j, scipyEntropy (fun i j => A i (τ j)) m j = scipyEntropy A m (τ j) := by
    intro j; simp only [scipyEntropy, tab_get]
  simp only [entropyWeights, tab_get, h]
  exact normSum_comp_perm (fun j => 1 - scipyEntropy A m j) τ j

/-! ## CRITIC -/

/-- ideal-distance scaling: `(a_ij − anti_j) / (ideal_j − anti_j)`, the ideal being the largest value
of a maximise criterion and the smallest of a minimise criterion (anti-ideal: the other way round) -/
theorem cenit_eq [NeZero m] (A : Mat m n ℝ) (o : Vec n Obj) (i : Fin m) (j : Fin n) :
    cenitScale A o i j =
      (A i j - (if o j = .max then univ.inf' univ_nonempty (fun i => A i j) else univ.sup' univ_nonempty (fun i => A i j))) /
        ((if o j = .max then univ.sup' univ_nonempty (fun i => A i j) else univ.inf' univ_nonempty (fun i => A i j)) -
         (if o j = .max then univ.inf' univ_nonempty (fun i => A i j) else univ.sup' univ_nonempty (fun i => A i j))) := by
  rw [cenitScale_eq]; rfl

/-- the correlation matrices: Pearson's product-moment coefficient; Spearman = Pearson of the
average ranks -/
theorem correlation_eq (A : Mat m n ℝ) (j k : Fin n) :
    corrMatrix .pearson A j k = Spec.cov A j k / Real.sqrt (Spec.cov A j j * Spec.cov A k k) ∧
    corrMatrix .spearman A j k =
      Spec.cov (Spec.ranks A) j k / Real.sqrt (Spec.cov (Spec.ranks A) j j * Spec.cov (Spec.ranks A) k k) := by
  rw [corrMatrix_eq, corrMatrix_eq]; exact ⟨rfl, rfl⟩

/-- Cauchy–Schwarz: every correlation coefficient is at most one -/
theorem correlation_le_one (c : Corr) (A : Mat m n ℝ) (j k : Fin n) : corrMatrix c A j k ≤ 1 := by
  rw [corrMatrix_eq]; exact Spec.corr_le_one c A j k

/-- CRITIC: population standard deviation of the criterion (of the ideal-distance-scaled matrix iff
`scale`) times `Σ_k (1 − r_kj)`, divided by the sum of these products -/
theorem critic_eq [NeZero m] (A : Mat m n ℝ) (o : Vec n Obj) (c : Corr) (scale : Bool) (j : Fin n) :
    criticWeights A o c scale j =
      (Spec.std 0 (Spec.criticMatrix A o scale) j * ∑ k, (1 - Spec.corr c (Spec.criticMatrix A o scale) k j)) /
        ∑ l, Spec.std 0 (Spec.criticMatrix A o scale) l * ∑ k, (1 - Spec.corr c (Spec.criticMatrix A o scale) k l) :=
  criticWeights_eq A o c scale j

/-- the weights are non-negative -/
theorem critic_nonneg [NeZero m] (A : Mat m n ℝ) (o : Vec n Obj) (c : Corr) (scale : Bool) (j : Fin n) :
    0 ≤ criticWeights A o c scale j := by
  rw [criticWeights_eq]
  exact div_nonneg (Spec.criticInfo_nonneg _ _ _ _ _) (Finset.sum_nonneg fun k _ => Spec.criticInfo_nonneg _ _ _ _ _)

/-- the weights sum to one whenever the total information content is not zero … -/
theorem critic_sum_one [NeZero m] (A : Mat m n ℝ) (o : Vec n Obj) (c : Corr) (scale : Bool)
    (h : ∑ k, Spec.criticInfo A o c scale k ≠ 0) : ∑ j, criticWeights A o c scale j = 1 := by
  simp only [criticWeights_eq]; rw [← Finset.sum_div, div_self h]

/-- … which is the case as soon as some criterion of the matrix CRITIC works on is not constant and
not perfectly correlated with all the others -/
theorem critic_total_pos [NeZero m] (A : Mat m n ℝ) (o : Vec n Obj) (c : Corr) (scale : Bool)
    (h : ∃ j, (∃ i i', Spec.criticMatrix A o scale i j ≠ Spec.criticMatrix A o scale i' j) ∧
      ∃ k, Spec.corr c (Spec.criticMatrix A o scale) k j < 1) :
    0 < ∑ k, Spec.criticInfo A o c scale k := by
  obtain ⟨j, hj, k, hk⟩ := h
  apply Finset.sum_pos' (fun l _ => Spec.criticInfo_nonneg A o c scale l)
  refine ⟨j, mem_univ _, ?_⟩
  unfold Spec.criticInfo
  apply mul_pos (Spec.std_pos 0 (Nat.pos_of_ne_zero (NeZero.ne m)) _ j hj)
  exact Finset.sum_pos' (fun l _ => sub_nonneg.mpr (Spec.corr_le_one _ _ _ _)) ⟨k, mem_univ _, sub_pos.mpr hk⟩

/-- the alternatives may be listed in any order (both correlations, with and without scaling) -/
theorem critic_row_perm [NeZero m] (A : Mat m n ℝ) (o : Vec n Obj) (c : Corr) (scale : Bool) (σ : Equiv.Perm (Fin m)) :
    criticWeights (fun i => A (σ i)) o c scale = criticWeights A o c scale := by
  funext j; simp only [criticWeights_eq, Spec.criticInfo_row_perm]

/-- the criteria (with their objectives) may be listed in any order: the weight follows its criterion -/
theorem critic_col_perm [NeZero m] (A : Mat m n ℝ) (o : Vec n Obj) (c : Corr) (scale : Bool) (τ : Equiv.Perm (Fin n))
    (j : Fin n) :
    criticWeights (fun i j => A i (τ j)) (fun j => o (τ j)) c scale j = criticWeights A o c scale (τ j) := by
  simp only [criticWeights_eq, Spec.criticInfo_col_perm]
  rw [Equiv.sum_comp τ (fun k => Spec.criticInfo A o c scale k)]

/-- without scaling the objectives play no role -/
theorem critic_unscaled_ignores_objectives [NeZero m] (A : Mat m n ℝ) (o o' : Vec n Obj) (c : Corr) :
    criticWeights A o c false = criticWeights A o' c false := rfl

/-! ## the weighter classes -/

/-- no weighter reads the incoming weights -/
theorem weighter_ignores_weights [NeZero m] (W : Weighter ℝ) (A : Mat m n ℝ) (o : Vec n Obj) (w w' : Vec n ℝ) :
    W.weightMatrix A o w = W.weightMatrix A o w' := by
  cases W <;> rfl

theorem equal_ignores_weights [NeZero m] (base : ℝ) (A : Mat m n ℝ) (o o' : Vec n Obj) (w w' : Vec n ℝ) :
    (Weighter.equal base).weightMatrix A o w = equalWeights A base ∧
    (Weighter.equal base).weightMatrix A o w = (Weighter.equal base).weightMatrix A o' w' := ⟨rfl, rfl⟩

theorem std_ignores_weights [NeZero m] (A : Mat m n ℝ) (o o' : Vec n Obj) (w w' : Vec n ℝ) :
    Weighter.std.weightMatrix A o w = stdWeights A ∧
    Weighter.std.weightMatrix A o w = Weighter.std.weightMatrix A o' w' := ⟨rfl, rfl⟩

theorem entropy_ignores_weights [NeZero m] (A : Mat m n ℝ) (o o' : Vec n Obj) (w w' : Vec n ℝ) :
    Weighter.entropy.weightMatrix A o w = entropyWeights A ∧
    Weighter.entropy.weightMatrix A o w = Weighter.entropy.weightMatrix A o' w' := ⟨rfl, rfl⟩

theorem critic_ignores_weights [NeZero m] (c : Corr) (scale : Bool) (A : Mat m n ℝ) (o : Vec n Obj) (w w' : Vec n ℝ) :
    (Weighter.critic c scale).weightMatrix A o w = criticWeights A o c scale ∧
    (Weighter.critic c scale).weightMatrix A o w = (Weighter.critic c scale).weightMatrix A o w' := ⟨rfl, rfl⟩

/-- a weighter replaces the weights and nothing else: matrix and objectives come back untouched -/
theorem weighter_frame [NeZero m] (W : Weighter ℝ) (d : Data m n ℝ) :
    (W.transformData d).matrix = d.matrix ∧ (W.transformData d).objectives = d.objectives ∧
    (W.transformData d).weights = W.weightMatrix d.matrix d.objectives d.weights := ⟨rfl, rfl, rfl⟩

/-- all weighters at once: the new weights do not depend on the order of the alternatives … -/
theorem weighter_row_perm [NeZero m] (W : Weighter ℝ) (A : Mat m n ℝ) (o : Vec n Obj) (w : Vec n ℝ)
    (σ : Equiv.Perm (Fin m)) : W.weightMatrix (fun i => A (σ i)) o w = W.weightMatrix A o w := by
  cases W
  · rfl
  · exact std_row_perm A σ
  · exact entropy_row_perm A σ
  · exact critic_row_perm A o _ _ σ

/-- … and follow their criterion when the criteria (with objectives and incoming weights) are reordered -/
theorem weighter_col_perm [NeZero m] (W : Weighter ℝ) (A : Mat m n ℝ) (o : Vec n Obj) (w : Vec n ℝ)
    (τ : Equiv.Perm (Fin n)) (j : Fin n) :
    W.weightMatrix (fun i j => A i (τ j)) (fun j => o (τ j)) (fun j => w (τ j)) j = W.weightMatrix A o w (τ j) := by
  cases W
  · rfl
  · exact std_col_perm A τ j
  · exact entropy_col_perm A τ j
  · exact critic_col_perm A o _ _ τ j

/-! ## non-vacuity: the hypotheses are satisfiable on a concrete 3 × 2 matrix -/

/-- criteria `(1, 2, 3)` and `(3, 2, 1)`: positive, not constant, negatively correlated -/
def exA : Mat 3 2 ℝ := fun i j => if j = 0 then (i.val : ℝ) + 1 else 3 - (i.val : ℝ)

example : (2 ≤ 3) ∧ (∀ i j, 0 < exA i j) ∧ ∃ j, ∃ i i', exA i j ≠ exA i' j := by
  refine ⟨by norm_num, ?_, 0, 0, 1, by simp [exA]⟩
  intro i j; fin_cases i <;> fin_cases j <;> simp [exA] <;> norm_num

example : ∑ j, stdWeights exA j = 1 := std_sum_one (by norm_num) exA ⟨0, 0, 1, by simp [exA]⟩

example : ∑ j, entropyWeights exA j = 1 :=
  entropy_sum_one (by norm_num) exA
    (by intro i j; fin_cases i <;> fin_cases j <;> simp [exA] <;> norm_num) ⟨0, 0, 1, by simp [exA]⟩

/-- the hypothesis of `critic_sum_one` holds on `exA` (no scaling, Pearson: `cov = −2 < 0`, so `r ≤ 0 < 1`) -/
example : ∑ j, criticWeights exA (fun _ => .max) .pearson false j = 1 := by
  apply critic_sum_one
  apply ne_of_gt
  apply critic_total_pos
  refine ⟨0, ⟨0, 1, by simp [Spec.criticMatrix, exA]⟩, 1, ?_⟩
  have hcov : Spec.cov exA 1 0 = -2 := by
    simp [Spec.cov, Spec.mean, Fin.sum_univ_three, exA]; norm_num
  have : Spec.pearson exA 1 0 ≤ 0 := by
    unfold Spec.pearson; rw [hcov]
    exact div_nonpos_of_nonpos_of_nonneg (by norm_num) (Real.sqrt_nonneg _)
  show Spec.pearson exA 1 0 < 1
  linarith

example : equalWeights (fun (_ : Fin 7) _ => (0 : ℚ)) (3 : ℚ) (0 : Fin 4) = (3 : ℚ) / 4 ∧
    (∑ j : Fin 4, equalWeights (fun (_ : Fin 7) _ => (0 : ℚ)) (3 : ℚ) j) = 3 := by
  refine ⟨by rw [equal_eq]; norm_num, equal_sum _ _ (by norm_num)⟩

end Skc.C13
