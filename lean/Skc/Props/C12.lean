import Skc.Props.C11
import Skc.Proofs.Dominance
set_option linter.unusedSectionVars false

/-! # C12 — preprocessing never reverses a preference between two alternatives

Model: `Skc/Model/Scalers.lean`.  For every order-preserving transformer, in its stated sign domain,
`T_order_iso`: on every criterion `j` and for every two alternatives `a`, `b`,
`A a j < A b j ↔ out a j < out b j` and `A a j = A b j ↔ out a j = out b j`.  For the objective
inverters `better (o j) (A a j) (A b j) ↔ better .max (out a j) (out b j)`.  Hence (`PrefRel`)
the dominance relation of `Skc/Proofs/Dominance.lean` — plain and strict — is the same before
and after, also through any finite pipeline of such steps. -/
namespace Skc.C12
open Skc Skc.Scalers Finset

variable {m n : ℕ}

section field
variable {α : Type} [Field α] [LinearOrder α] [IsStrictOrderedRing α]

/-- from `<`-preservation in both directions to `<` and `=` -/
theorem iso_pair {x y x' y' : α} (h1 : x < y ↔ x' < y') (h2 : y < x ↔ y' < x') :
    (x < y ↔ x' < y') ∧ (x = y ↔ x' = y') := by
  refine ⟨h1, ?_, ?_⟩
  · intro h
    rcases lt_trichotomy x' y' with h' | h' | h'
    · exact absurd (h1.mpr h') (by rw [h]; exact lt_irrefl _)
    · exact h'
    · exact absurd (h2.mpr h') (by rw [h]; exact lt_irrefl _)
  · intro h
    rcases lt_trichotomy x y with h' | h' | h'
    · exact absurd (h1.mp h') (by rw [h]; exact lt_irrefl _)
    · exact h'
    · exact absurd (h2.mp h') (by rw [h]; exact lt_irrefl _)

/-! ### the order-preserving transformers -/

/-- SumScaler on a criterion with positive sum (in particular on positive data) -/
theorem sum_order_iso (A : Mat m n α) (j : Fin n) (h : 0 < ∑ k, A k j) (a b : Fin m) :
    (A a j < A b j ↔ scaleBySumM A a j < scaleBySumM A b j) ∧
    (A a j = A b j ↔ scaleBySumM A a j = scaleBySumM A b j) := by
  have lt : ∀ a b, A a j < A b j ↔ scaleBySumM A a j < scaleBySumM A b j := by
    intro a b; rw [C11.sum_cell, C11.sum_cell, div_lt_div_iff_of_pos_right h]
  exact iso_pair (lt a b) (lt b a)

/-- MaxAbsScaler: the divisor is the (positive) largest absolute value, or 1 on an all-zero
criterion — order preserved on any data -/
theorem maxabs_order_iso [NeZero m] (A : Mat m n α) (j : Fin n) (a b : Fin m) :
    (A a j < A b j ↔ maxAbsScale A a j < maxAbsScale A b j) ∧
    (A a j = A b j ↔ maxAbsScale A a j = maxAbsScale A b j) := by
  have hc : 0 < (if colSupAbs A j = 0 then (1 : α) else colSupAbs A j) := by
    split
    · exact one_pos
    · rename_i h; exact lt_of_le_of_ne (colSupAbs_nonneg A j) (Ne.symm h)
  have lt : ∀ a b, A a j < A b j ↔ maxAbsScale A a j < maxAbsScale A b j := by
    intro a b; rw [C11.maxabs_cell, C11.maxabs_cell, div_lt_div_iff_of_pos_right hc]
  exact iso_pair (lt a b) (lt b a)

/-- MinMaxScaler with `lo < hi` (what scikit-learn enforces), with or without `clip`: strictly
increasing on a non-constant criterion; a constant criterion (all equal) stays all equal -/
theorem minmax_order_iso [NeZero m] (lo hi : α) (hlh : lo < hi) (clip : Bool) (A : Mat m n α) (j : Fin n)
    (a b : Fin m) :
    (A a j < A b j ↔ minMaxScale lo hi clip A a j < minMaxScale lo hi clip A b j) ∧
    (A a j = A b j ↔ minMaxScale lo hi clip A a j = minMaxScale lo hi clip A b j) := by
  have lt : ∀ a b, A a j < A b j ↔ minMaxScale lo hi clip A a j < minMaxScale lo hi clip A b j := by
    intro a b
    by_cases hr : colInf A j < colSup A j
    · have h1 : 0 < colSup A j - colInf A j := sub_pos.mpr hr
      have h2 : 0 < hi - lo := sub_pos.mpr hlh
      rw [C11.minmax_affine lo hi hlh.le clip A a j hr, C11.minmax_affine lo hi hlh.le clip A b j hr,
        add_lt_add_iff_right, mul_lt_mul_iff_left₀ h2, div_lt_div_iff_of_pos_right h1, sub_lt_sub_iff_right]
    · have hc : ∀ x y, A x j = A y j := by
        intro x y; by_contra hne; exact hr ((colInf_lt_colSup_iff A j).mpr ⟨x, y, hne⟩)
      rw [C11.minmax_constant lo hi hlh.le clip A j hc a, C11.minmax_constant lo hi hlh.le clip A j hc b, hc a b]
      simp
  exact iso_pair (lt a b) (lt b a)

/-- a constant criterion is mapped to the constant `lo` -/
theorem minmax_constant_stays_constant [NeZero m] (lo hi : α) (hlh : lo < hi) (clip : Bool) (A : Mat m n α) (j : Fin n)
    (hc : ∀ a b, A a j = A b j) (a b : Fin m) : minMaxScale lo hi clip A a j = minMaxScale lo hi clip A b j := by
  rw [C11.minmax_constant lo hi hlh.le clip A j hc a, C11.minmax_constant lo hi hlh.le clip A j hc b]

/-- PushNegatives: a shift (or nothing) per criterion — any data -/
theorem pushneg_order_iso [NeZero m] (A : Mat m n α) (j : Fin n) (a b : Fin m) :
    (A a j < A b j ↔ pushNegativesM A a j < pushNegativesM A b j) ∧
    (A a j = A b j ↔ pushNegativesM A a j = pushNegativesM A b j) := by
  have lt : ∀ a b, A a j < A b j ↔ pushNegativesM A a j < pushNegativesM A b j := by
    intro a b
    by_cases h : colInf A j < 0
    · rw [(C11.pushneg_cases A j).1 h a, (C11.pushneg_cases A j).1 h b, sub_lt_sub_iff_right]
    · rw [(C11.pushneg_cases A j).2 h a, (C11.pushneg_cases A j).2 h b]
  exact iso_pair (lt a b) (lt b a)

/-- AddValueToZero: a shift (or nothing) per criterion — any data, any value -/
theorem addzero_order_iso (v : α) (A : Mat m n α) (j : Fin n) (a b : Fin m) :
    (A a j < A b j ↔ addValueToZeroM v A a j < addValueToZeroM v A b j) ∧
    (A a j = A b j ↔ addValueToZeroM v A a j = addValueToZeroM v A b j) := by
  have lt : ∀ a b, A a j < A b j ↔ addValueToZeroM v A a j < addValueToZeroM v A b j := by
    intro a b
    by_cases h : ∃ k, A k j = 0
    · rw [(C11.addzero_cases v A j).1 h a, (C11.addzero_cases v A j).1 h b, add_lt_add_iff_right]
    · have h' : ∀ k, A k j ≠ 0 := fun k hk => h ⟨k, hk⟩
      rw [(C11.addzero_cases v A j).2 h' a, (C11.addzero_cases v A j).2 h' b]
  exact iso_pair (lt a b) (lt b a)

/-! ### the objective inverters -/

/-- NegateMinimize, any data: `a` better than `b` before ⇔ better afterwards under "maximise" -/
theorem negate_better_iff (A : Mat m n α) (o : Vec n Obj) (j : Fin n) (a b : Fin m) :
    better (o j) (A a j) (A b j) ↔ better .max (negateMinimize A o a j) (negateMinimize A o b j) := by
  unfold negateMinimize
  cases ho : o j <;> simp [better]

/-- InvertMinimize, positive data on the minimise criteria -/
theorem invert_better_iff (A : Mat m n α) (o : Vec n Obj) (j : Fin n) (hpos : o j = .min → ∀ i, 0 < A i j)
    (a b : Fin m) :
    better (o j) (A a j) (A b j) ↔ better .max (invertMinimize A o a j) (invertMinimize A o b j) := by
  unfold invertMinimize
  cases ho : o j
  · simp [better]
  · simp only [better, if_true]
    exact (one_div_lt_one_div (hpos ho b) (hpos ho a)).symm

/-- both leave the maximise criteria as they are -/
theorem inverters_max_unchanged (A : Mat m n α) (o : Vec n Obj) (j : Fin n) (h : o j = .max) (i : Fin m) :
    negateMinimize A o i j = A i j ∧ invertMinimize A o i j = A i j := by
  simp [negateMinimize, invertMinimize, h]

/-! ### from criteria to dominance -/

/-- the preference structure of `d` and `d'` is the same: on every criterion, for every two
alternatives, "a is better than b" holds in `d` (under `d`'s objective) iff it holds in `d'` -/
def PrefRel (d d' : Data m n α) : Prop :=
  ∀ j a b, better (d.objectives j) (d.matrix a j) (d.matrix b j) ↔
    better (d'.objectives j) (d'.matrix a j) (d'.matrix b j)

theorem PrefRel.refl (d : Data m n α) : PrefRel d d := fun _ _ _ => Iff.rfl
theorem PrefRel.trans {d d' d'' : Data m n α} (h1 : PrefRel d d') (h2 : PrefRel d' d'') : PrefRel d d'' :=
  fun j a b => (h1 j a b).trans (h2 j a b)

/-- equal values stay equal and distinct ones distinct -/
theorem PrefRel.eq_iff {d d' : Data m n α} (h : PrefRel d d') (j : Fin n) (a b : Fin m) :
    d.matrix a j = d.matrix b j ↔ d'.matrix a j = d'.matrix b j := by
  have t1 := better_trichotomy (d.objectives j) (d.matrix a j) (d.matrix b j)
  have t2 := better_trichotomy (d'.objectives j) (d'.matrix a j) (d'.matrix b j)
  constructor
  · intro e
    rcases t2 with h' | h' | h'
    · exact absurd ((h j a b).mpr h') (by rw [e]; exact better_irrefl _ _)
    · exact h'
    · exact absurd ((h j b a).mpr h') (by rw [e]; exact better_irrefl _ _)
  · intro e
    rcases t1 with h' | h' | h'
    · exact absurd ((h j a b).mp h') (by rw [e]; exact better_irrefl _ _)
    · exact h'
    · exact absurd ((h j b a).mp h') (by rw [e]; exact better_irrefl _ _)

/-- dominance is identical before and after: `a` dominates `b` in `d` iff it does in `d'` … -/
theorem dominance_invariant {d d' : Data m n α} (h : PrefRel d d') (a b : Fin m) :
    dominates d.objectives (d.matrix a) (d.matrix b) ↔ dominates d'.objectives (d'.matrix a) (d'.matrix b) := by
  unfold dominates atLeast
  constructor
  · rintro ⟨h1, j, hj⟩
    exact ⟨fun k hk => h1 k ((h k b a).mpr hk), j, (h j a b).mp hj⟩
  · rintro ⟨h1, j, hj⟩
    exact ⟨fun k hk => h1 k ((h k b a).mp hk), j, (h j a b).mpr hj⟩

/-- … and likewise strict dominance -/
theorem strict_dominance_invariant {d d' : Data m n α} (h : PrefRel d d') (a b : Fin m) :
    sdominates d.objectives (d.matrix a) (d.matrix b) ↔ sdominates d'.objectives (d'.matrix a) (d'.matrix b) := by
  unfold sdominates
  constructor
  · rintro ⟨hn, h1⟩; exact ⟨hn, fun j => (h j a b).mp (h1 j)⟩
  · rintro ⟨hn, h1⟩; exact ⟨hn, fun j => (h j a b).mpr (h1 j)⟩

/-- an order-isomorphic matrix under unchanged objectives has the same preference structure -/
theorem prefRel_of_order_iso (d d' : Data m n α) (ho : d'.objectives = d.objectives)
    (h : ∀ j a b, d.matrix a j < d.matrix b j ↔ d'.matrix a j < d'.matrix b j) : PrefRel d d' := by
  intro j a b
  rw [ho]
  cases d.objectives j <;> simp only [better]
  · exact h j b a
  · exact h j a b

/-- a matrix-and-weights transformer whose matrix function is order-preserving on the matrix at
hand keeps the preference structure, whatever its target (the weights play no role) -/
theorem prefRel_transformData (t : Target) (fM : Mat m n α → Mat m n α) (fW : Vec n α → Vec n α) (d : Data m n α)
    (h : ∀ j a b, d.matrix a j < d.matrix b j ↔ fM d.matrix a j < fM d.matrix b j) :
    PrefRel d (transformData t fM fW d) := by
  apply prefRel_of_order_iso
  · simp [transformData]
  · intro j a b
    cases t <;> simp [transformData, h j a b]

/-! ### the classes, as preference-preserving steps -/

theorem sumScaler_prefRel (t : Target) (d : Data m n α) (h : ∀ j, 0 < ∑ k, d.matrix k j) :
    PrefRel d (sumScaler t d) :=
  prefRel_transformData t _ _ d fun j a b => (sum_order_iso d.matrix j (h j) a b).1
theorem maxAbsScaler_prefRel [NeZero m] [NeZero n] (t : Target) (d : Data m n α) : PrefRel d (maxAbsScaler t d) :=
  prefRel_transformData t _ _ d fun j a b => (maxabs_order_iso d.matrix j a b).1
theorem minMaxScaler_prefRel [NeZero m] [NeZero n] (lo hi : α) (hlh : lo < hi) (clip : Bool) (t : Target)
    (d : Data m n α) : ∃ d', minMaxScaler lo hi clip t d = .ok d' ∧ PrefRel d d' := by
  refine ⟨transformData t (minMaxScale lo hi clip) (runSklearnV (minMaxScale lo hi clip)) d, ?_, ?_⟩
  · have : minMaxRefuses lo hi = false := by
      rw [← Bool.not_eq_true, C11.minmax_refuses_iff]; exact not_le.mpr hlh
    simp [minMaxScaler, this]
  · exact prefRel_transformData t _ _ d fun j a b => (minmax_order_iso lo hi hlh clip d.matrix j a b).1
theorem pushNegatives_prefRel [NeZero m] [NeZero n] (t : Target) (d : Data m n α) : PrefRel d (pushNegatives t d) :=
  prefRel_transformData t _ _ d fun j a b => (pushneg_order_iso d.matrix j a b).1
theorem addValueToZero_prefRel (v : α) (t : Target) (d : Data m n α) : PrefRel d (addValueToZero v t d) :=
  prefRel_transformData t _ _ d fun j a b => (addzero_order_iso v d.matrix j a b).1
theorem negateMinimizer_prefRel (d : Data m n α) : PrefRel d (negateMinimizer d) :=
  fun j a b => negate_better_iff d.matrix d.objectives j a b
theorem invertMinimizer_prefRel (d : Data m n α) (hpos : ∀ j, d.objectives j = .min → ∀ i, 0 < d.matrix i j) :
    PrefRel d (invertMinimizer d) :=
  fun j a b => invert_better_iff d.matrix d.objectives j (hpos j) a b

/-! ### pipelines -/

/-- an abstract preprocessing step: a function on decision data, the domain on which it is
claimed to preserve preferences, and the proof of the per-criterion `better`-iff there -/
structure Step (m n : ℕ) (α : Type) [LinearOrder α] where
  run : Data m n α → Data m n α
  dom : Data m n α → Prop
  ok : ∀ d, dom d → PrefRel d (run d)

/-- run the steps in order (`SKCPipeline.transform`) -/
def runAll : List (Step m n α) → Data m n α → Data m n α
  | [], d => d
  | s :: rest, d => runAll rest (s.run d)

/-- every step meets its domain at the point of the pipeline where it is applied -/
def InDomain : List (Step m n α) → Data m n α → Prop
  | [], _ => True
  | s :: rest, d => s.dom d ∧ InDomain rest (s.run d)

theorem pipeline_prefRel (steps : List (Step m n α)) (d : Data m n α) (h : InDomain steps d) :
    PrefRel d (runAll steps d) := by
  induction steps generalizing d with
  | nil => exact PrefRel.refl d
  | cons s rest ih => exact PrefRel.trans (s.ok d h.1) (ih (s.run d) h.2)

/-- through any finite pipeline of preference-preserving steps, each applied inside its domain,
dominance and strict dominance between every two alternatives are the same before and after -/
theorem pipeline_dominance_invariant (steps : List (Step m n α)) (d : Data m n α) (h : InDomain steps d) (a b : Fin m) :
    (dominates d.objectives (d.matrix a) (d.matrix b) ↔
      dominates (runAll steps d).objectives ((runAll steps d).matrix a) ((runAll steps d).matrix b)) ∧
    (sdominates d.objectives (d.matrix a) (d.matrix b) ↔
      sdominates (runAll steps d).objectives ((runAll steps d).matrix a) ((runAll steps d).matrix b)) :=
  ⟨dominance_invariant (pipeline_prefRel steps d h) a b, strict_dominance_invariant (pipeline_prefRel steps d h) a b⟩

/-- the field-only transformers as steps -/
def sumStep (t : Target) : Step m n α := ⟨sumScaler t, fun d => ∀ j, 0 < ∑ k, d.matrix k j, sumScaler_prefRel t⟩
def maxAbsStep [NeZero m] [NeZero n] (t : Target) : Step m n α := ⟨maxAbsScaler t, fun _ => True, fun d _ => maxAbsScaler_prefRel t d⟩
def minMaxStep [NeZero m] [NeZero n] (lo hi : α) (hlh : lo < hi) (clip : Bool) (t : Target) : Step m n α :=
  ⟨transformData t (minMaxScale lo hi clip) (runSklearnV (minMaxScale lo hi clip)), fun _ => True,
    fun d _ => prefRel_transformData t _ _ d fun j a b => (minmax_order_iso lo hi hlh clip d.matrix j a b).1⟩
def pushNegStep [NeZero m] [NeZero n] (t : Target) : Step m n α := ⟨pushNegatives t, fun _ => True, fun d _ => pushNegatives_prefRel t d⟩
def addZeroStep (v : α) (t : Target) : Step m n α := ⟨addValueToZero v t, fun _ => True, fun d _ => addValueToZero_prefRel v t d⟩
def negateStep : Step m n α := ⟨negateMinimizer, fun _ => True, fun d _ => negateMinimizer_prefRel d⟩
def invertStep : Step m n α :=
  ⟨invertMinimizer, fun d => ∀ j, d.objectives j = .min → ∀ i, 0 < d.matrix i j, invertMinimizer_prefRel⟩

end field

/-! ### kernels with a square root, over `ℝ` -/

/-- VectorScaler on a criterion that is not identically zero (positive norm; in particular on
positive data) -/
theorem vector_order_iso (A : Mat m n ℝ) (j : Fin n) (h : 0 < ∑ k, A k j ^ 2) (a b : Fin m) :
    (A a j < A b j ↔ scaleByVectorM A a j < scaleByVectorM A b j) ∧
    (A a j = A b j ↔ scaleByVectorM A a j = scaleByVectorM A b j) := by
  have hs : 0 < Real.sqrt (∑ k, A k j ^ 2) := Real.sqrt_pos.mpr h
  have lt : ∀ a b, A a j < A b j ↔ scaleByVectorM A a j < scaleByVectorM A b j := by
    intro a b; rw [C11.vector_cell, C11.vector_cell, div_lt_div_iff_of_pos_right hs]
  exact iso_pair (lt a b) (lt b a)

/-- StandarScaler, any data and any `with_mean` / `with_std`: a shift followed by a division by a
positive number (the standard deviation, or 1) -/
theorem standard_order_iso (withMean withStd : Bool) (A : Mat m n ℝ) (j : Fin n) (a b : Fin m) :
    (A a j < A b j ↔ standardScale withMean withStd A a j < standardScale withMean withStd A b j) ∧
    (A a j = A b j ↔ standardScale withMean withStd A a j = standardScale withMean withStd A b j) := by
  have hs : 0 < (if withStd then (if pvar (fun k => A k j) = 0 then (1 : ℝ) else Real.sqrt (pvar fun k => A k j)) else 1) := by
    split
    · split
      · exact one_pos
      · rename_i h; exact Real.sqrt_pos.mpr (lt_of_le_of_ne (pvar_nonneg _) (Ne.symm h))
    · exact one_pos
  have lt : ∀ a b, A a j < A b j ↔ standardScale withMean withStd A a j < standardScale withMean withStd A b j := by
    intro a b
    rw [C11.standard_cell, C11.standard_cell, div_lt_div_iff_of_pos_right hs, sub_lt_sub_iff_right]
  exact iso_pair (lt a b) (lt b a)

theorem vectorScaler_prefRel (t : Target) (d : Data m n ℝ) (h : ∀ j, 0 < ∑ k, d.matrix k j ^ 2) :
    PrefRel d (vectorScaler t d) :=
  prefRel_transformData t _ _ d fun j a b => (vector_order_iso d.matrix j (h j) a b).1
theorem standarScaler_prefRel (withMean withStd : Bool) (t : Target) (d : Data m n ℝ) :
    PrefRel d (standarScaler withMean withStd t d) :=
  prefRel_transformData t _ _ d fun j a b => (standard_order_iso withMean withStd d.matrix j a b).1

noncomputable def vectorStep (t : Target) : Step m n ℝ := ⟨vectorScaler t, fun d => ∀ j, 0 < ∑ k, d.matrix k j ^ 2, vectorScaler_prefRel t⟩
noncomputable def standardStep (withMean withStd : Bool) (t : Target) : Step m n ℝ :=
  ⟨standarScaler withMean withStd t, fun _ => True, fun d _ => standarScaler_prefRel withMean withStd t d⟩

/-- on positive data every listed transformer is inside its domain -/
theorem positive_in_domain [NeZero m] (d : Data m n ℝ) (hpos : ∀ i j, 0 < d.matrix i j) :
    (∀ j, 0 < ∑ k, d.matrix k j) ∧ (∀ j, 0 < ∑ k, d.matrix k j ^ 2) ∧
    (∀ j, d.objectives j = .min → ∀ i, 0 < d.matrix i j) :=
  ⟨fun j => sum_pos (fun k _ => hpos k j) univ_nonempty,
   fun j => sum_pos (fun k _ => pow_pos (hpos k j) 2) univ_nonempty,
   fun j _ i => hpos i j⟩

/-! ### non-vacuity -/

/-- 3 alternatives × 2 criteria, mixed objectives, a negative value -/
noncomputable def exD : Data 3 2 ℝ :=
  { matrix := fun i j => if j = 0 then (i.val : ℝ) - 1 else 3 - (i.val : ℝ),
    objectives := fun j => if j = 0 then .max else .min,
    weights := fun _ => 1 }

/-- the pipeline `StandarScaler → PushNegatives → AddValueToZero(1/2) → NegateMinimize` is inside its
domain on `exD` (none of these steps restricts the data) -/
example : InDomain [standardStep true true .both, pushNegStep .matrix, addZeroStep (1 / 2) .matrix, negateStep] exD :=
  ⟨trivial, trivial, trivial, trivial, trivial⟩

/-- in `exD` alternative 2 dominates alternative 0 (larger on the maximise criterion, smaller on the
minimise one) — the equivalences above are not between two false statements -/
example : dominates exD.objectives (exD.matrix 2) (exD.matrix 0) := by
  refine ⟨fun j => ?_, 0, ?_⟩
  · fin_cases j <;> simp [exD, atLeast, better]
  · simp [exD, better]

example : InDomain [invertStep, sumStep .both, vectorStep .matrix]
    ({ matrix := fun _ _ => 2, objectives := fun _ => .min, weights := fun _ => 1 } : Data 3 2 ℝ) := by
  refine ⟨fun _ _ _ => by norm_num, ?_, ?_, trivial⟩
  · intro j; simp [invertStep, invertMinimizer, invertMinimize]
  · intro j; simp [sumStep, sumScaler, transformData, invertStep, invertMinimizer, invertMinimize, scaleBySumM,
      sumFin_eq_sum, Fin.sum_univ_three]

end Skc.C12
