import Skc.Proofs.Simus
set_option linter.unusedSectionVars false

/-! # C09 — SIMUS stages are optimal LP solutions credited to the right alternatives

Model: `Skc/Model/Simus.lean` (`skcriteria/agg/simus.py`, `utils/lp.py::_LPBase.solve`,
`scale_by_sum`).  The simplex solver (CBC through PuLP) is external and is *not* modelled: what is
proved here is (1) that the program handed to it is the one the property describes, (2) that the
values it returns are credited to the right alternatives for any number of alternatives (and were
not before the repair, from eleven alternatives on), (3) that stage rows, both scores, the dominance
tables and the ranking follow the SIMUS formulas from those values, and (4) that the executable
certificate checker `certCheck` is **sound**: whenever it accepts `(x, y)` for a stage, `x` satisfies
every constraint within the tolerance and no feasible point has a better objective than `x` beyond
an explicit margin.  The check runs `certCheck` (in exact rationals) on every generated stage, which
turns each numeric certificate into a per-instance optimality proof.

`LP.feasible`, `LP.feasibleWithin`, `LP.dualFeasible`, `LP.value`, `LP.bound` are defined in
`Skc/Proofs/Simus.lean` with `Finset` sums. -/
namespace Skc.C09
open Skc Skc.Simus Finset

/-! ## 1. the stage program -/
section build
variable {α : Type} [Field α] [LinearOrder α] [IsStrictOrderedRing α] {m k : ℕ}

/-- The program of stage `z` is the one in the property: optimise criterion `z` in that criterion's
own direction; one constraint for every other criterion `c` and for no one else, in increasing
criterion order; its coefficients are column `c`, its sense `≤` if `c` is maximised and `≥` if
minimised, its right-hand side the user's `b_c` or — when unspecified — the column maximum
(maximise) / minimum (minimise).  For every `z`, every objective mix, every partially given `b`. -/
theorem stageLP_spec [NeZero m] (A : Mat m (k + 1) α) (o : Vec (k + 1) Obj) (b : Vec (k + 1) (Option α))
    (z : Fin (k + 1)) :
    (stageLP A o b z).sense = o z ∧ (∀ i, (stageLP A o b z).c i = A i z) ∧
    (∀ r, otherCrit z r ≠ z) ∧ (∀ c, c ≠ z → ∃! r, otherCrit z r = c) ∧
    (∀ r r', r < r' → otherCrit z r < otherCrit z r') ∧
    ∀ r, (∀ i, (stageLP A o b z).A r i = A i (otherCrit z r)) ∧
      ((stageLP A o b z).rel r = if o (otherCrit z r) = .max then Rel.le else Rel.ge) ∧
      (stageLP A o b z).b r =
        match b (otherCrit z r) with
        | some v => v
        | none => if o (otherCrit z r) = .max then univ.sup' univ_nonempty (fun i => A i (otherCrit z r))
                  else univ.inf' univ_nonempty (fun i => A i (otherCrit z r)) := by
  refine ⟨rfl, fun _ => rfl, otherCrit_ne z, ?_, fun r r' h => otherCrit_lt z h, ?_⟩
  · intro c hc
    obtain ⟨r, hr⟩ := otherCrit_exists z c hc
    exact ⟨r, hr, fun r' hr' => otherCrit_injective z (hr'.trans hr.symm)⟩
  · intro r
    refine ⟨fun _ => rfl, ?_, ?_⟩
    · show relOf (o (otherCrit z r)) = _
      cases o (otherCrit z r) <;> simp [relOf]
    · show fillB b (autoB A o) (otherCrit z r) = _
      unfold fillB autoB
      cases b (otherCrit z r) with
      | some v => rfl
      | none =>
        simp only [Option.getD_none]
        cases o (otherCrit z r) <;> simp [maxFin_eq_sup', minFin_eq_inf']

/-- with `b=None` every bound is attained by some alternative: the default program constrains each
other criterion by a value that occurs in its column -/
theorem stageLP_default_b_attained [NeZero m] (A : Mat m (k + 1) α) (o : Vec (k + 1) Obj) (z : Fin (k + 1)) (r : Fin k) :
    ∃ i, (stageLP A o (fun _ => none) z).b r = A i (otherCrit z r) := by
  show ∃ i, fillB (fun _ => none) (autoB A o) (otherCrit z r) = _
  unfold fillB autoB
  simp only [Option.getD_none]
  cases o (otherCrit z r)
  · obtain ⟨i, hi⟩ := exists_eq_maxFin fun i => A i (otherCrit z r); exact ⟨i, hi.symm⟩
  · obtain ⟨i, hi⟩ := exists_eq_minFin fun i => A i (otherCrit z r); exact ⟨i, hi.symm⟩
end build

/-! ## 2. values are credited to the right alternatives -/

/-- `solve()` as it is now: position `i` of `lp_values` holds the value of `x{i}`, for any number of
alternatives -/
theorem lpValues_position : ∀ n i (h : i < n), (reportedOrder n)[i]'(by simpa [reportedOrder] using h) = i := by
  intro n i h; simp [reportedOrder]

/-- … in terms of the values themselves -/
theorem lpValues_credit {α : Type} (sol : ℕ → α) (n i : ℕ) (h : i < n) :
    (lpValues (reportedOrder n) sol)[i]'(by simpa [lpValues, reportedOrder] using h) = sol i := by
  simp [lpValues, reportedOrder]

/-- variable names determine the alternative: `f"x{i}" = f"x{j}"` only if `i = j` -/
theorem varName_inj (i j : ℕ) : varName i = varName j ↔ i = j :=
  ⟨fun h => varName_injective h, fun h => h ▸ rfl⟩

/-- the repaired `solve()` operation by operation (names collected in an insertion-ordered dict from
the objective, then every constraint, then PuLP's name-sorted `variables()`): `lp_variables` is
`x0, x1, …` in declaration order for any number of alternatives and constraints … -/
theorem lpVariables_declaration_order (m nCons : ℕ) : reportedNames m nCons = (List.range m).map varName :=
  reportedNames_eq m nCons

/-- … hence `lp_values[i]` is the solver's value of the variable *named* `x{i}` -/
theorem lpValues_by_name {α : Type} (byName : String → α) (m nCons i : ℕ) (h : i < m) :
    (lpValuesByName byName m nCons)[i]'(by simpa [lpValuesByName, reportedNames_eq] using h) = byName (varName i) := by
  simp [lpValuesByName, reportedNames_eq]

/-- the pre-fix `solve()` (PuLP's name order) credits every value correctly up to ten alternatives … -/
theorem lpValues_position_v0_small : ∀ n ∈ List.range 11, reportedOrder_v0 n = reportedOrder n := by decide

/-- … and not from eleven on: position 2 holds the value of `x10`
(`x0 < x1 < x10 < x2` as strings) -/
theorem lpValues_position_v0_11 :
    reportedOrder_v0 11 = [0, 1, 10, 2, 3, 4, 5, 6, 7, 8, 9] ∧ (reportedOrder_v0 11)[2]? = some 10 ∧
    ¬ (∀ i, i < 11 → (reportedOrder_v0 11)[i]? = some i) := by decide

/-- the corpus case (twelve alternatives): `x10, x11` land at positions 2 and 3 -/
theorem lpValues_position_v0_12 : reportedOrder_v0 12 = [0, 1, 10, 11, 2, 3, 4, 5, 6, 7, 8, 9] := by decide

/-! ## 3. stage rows, scores, dominance tables, ranking -/
section post
variable {α : Type} [Field α] [LinearOrder α] [IsStrictOrderedRing α] {n m : ℕ}

/-- a stage whose values do not sum to zero is normalised to sum one -/
theorem stageRow_sum_one (V : Mat n m α) (z : Fin n) (h : ∑ i, V z i ≠ 0) : ∑ i, stageRows V z i = 1 := by
  unfold stageRows
  simp only [sumFin_eq_sum, h, if_false]
  rw [← sum_div, div_self h]

/-- … each entry being the solution value divided by the stage total -/
theorem stageRow_entry (V : Mat n m α) (z : Fin n) (i : Fin m) (h : ∑ i, V z i ≠ 0) :
    stageRows V z i = V z i / ∑ i, V z i := by
  unfold stageRows; simp only [sumFin_eq_sum, h, if_false]

/-- a stage whose values sum to zero yields a row of zeros (`0/0 = NaN → 0`) -/
theorem stageRow_zero (V : Mat n m α) (z : Fin n) (h : ∑ i, V z i = 0) (i : Fin m) : stageRows V z i = 0 := by
  unfold stageRows; simp only [sumFin_eq_sum, h, if_true]

/-- … and for a solution (`x ≥ 0`) that happens only when every value is zero, so the model's `0`
is the code's `NaN → 0` at every entry (no `inf`) -/
theorem stageRow_zero_input (V : Mat n m α) (z : Fin n) (hx : ∀ i, 0 ≤ V z i) (h : ∑ i, V z i = 0) (i : Fin m) :
    V z i = 0 :=
  (sum_eq_zero_iff_of_nonneg fun i _ => hx i).mp h i (mem_univ i)

theorem nonFinite_false_of_nonneg (V : Mat n m α) (hx : ∀ z i, 0 ≤ V z i) : nonFinite V = false := by
  rw [Bool.eq_false_iff]
  intro h
  unfold nonFinite at h
  rw [anyFin_iff] at h
  obtain ⟨z, hz⟩ := h
  rw [Bool.and_eq_true, decide_eq_true_iff, sumFin_eq_sum, anyFin_iff] at hz
  obtain ⟨i, hi⟩ := hz.2
  simp only [Bool.not_eq_eq_eq_not, Bool.not_true, decide_eq_false_iff_not] at hi
  exact hi (stageRow_zero_input V z (hx z) hz.1 i)

/-- stage rows of a solution are non-negative -/
theorem stageRow_nonneg (V : Mat n m α) (hx : ∀ z i, 0 ≤ V z i) (z : Fin n) (i : Fin m) : 0 ≤ stageRows V z i := by
  unfold stageRows
  split
  · exact le_refl 0
  · rw [sumFin_eq_sum]; exact div_nonneg (hx z i) (sum_nonneg fun i _ => hx z i)

/-- first method: column total times the participation factor
`(number of stages in which the alternative takes part) / (number of stages)` -/
theorem method1_eq (S : Mat n m α) (j : Fin m) :
    method1 S j = (∑ z, S z j) * ((univ.filter fun z => 0 < S z j).card : α) / (n : α) := by
  unfold method1
  rw [sumFin_eq_sum, countFin_eq_card, mul_div_assoc]
  simp only [decide_eq_true_iff]

/-- dominance table: `dominance a b = Σ_stages max(s_za − s_zb, 0)` -/
theorem dominance_eq (S : Mat n m α) (a b : Fin m) : dominance S a b = ∑ z, max (S z a - S z b) 0 := by
  unfold dominance domByCrit
  rw [sumFin_eq_sum]
  apply sum_congr rfl; intro z _
  split
  · rename_i h; rw [max_eq_right h.le]
  · rename_i h; rw [max_eq_left (not_lt.mp h)]

theorem dominance_nonneg (S : Mat n m α) (a b : Fin m) : 0 ≤ dominance S a b := by
  rw [dominance_eq]; exact sum_nonneg fun z _ => le_max_right _ _

/-- an alternative does not dominate itself -/
theorem dominance_diag (S : Mat n m α) (a : Fin m) : dominance S a a = 0 := by
  rw [dominance_eq]; simp

/-- `tita_j_p` = row sums, `tita_j_d` = column sums of the dominance table -/
theorem tita_eq (S : Mat n m α) (j : Fin m) :
    titaP S j = ∑ b, dominance S j b ∧ titaD S j = ∑ a, dominance S a j := by
  unfold titaP titaD; rw [sumFin_eq_sum, sumFin_eq_sum]; exact ⟨rfl, rfl⟩

/-- second method: what `j` dominates minus what dominates `j` -/
theorem method2_eq (S : Mat n m α) (j : Fin m) :
    method2 S j = ∑ b, ∑ z, max (S z j - S z b) 0 - ∑ a, ∑ z, max (S z a - S z j) 0 := by
  unfold method2
  rw [(tita_eq S j).1, (tita_eq S j).2]
  simp only [dominance_eq]

/-- the second score is a zero-sum redistribution -/
theorem tita_balance (S : Mat n m α) : ∑ j, (titaP S j - titaD S j) = 0 := by
  simp only [fun j => (tita_eq S j).1, fun j => (tita_eq S j).2]
  rw [sum_sub_distrib, sum_comm, sub_self]

theorem method2_sum_zero (S : Mat n m α) : ∑ j, method2 S j = 0 := tita_balance S

theorem simusRank_length (by2 : Bool) (S : Mat n m α) : (simusRank by2 S).length = m := by
  simp [simusRank, rankValues, denseRank]

/-- the ranking is the dense ranking of the selected score, higher first: `a` is ranked strictly
before `b` exactly when its score is strictly higher, and they share a rank exactly when the scores
are equal (C03 for SIMUS) -/
theorem simus_rank_order (by2 : Bool) (S : Mat n m α) (a b : Fin m) :
    ((simusRank by2 S)[a.val]'(by rw [simusRank_length]; exact a.isLt) <
        (simusRank by2 S)[b.val]'(by rw [simusRank_length]; exact b.isLt) ↔
      simusScore by2 S b < simusScore by2 S a) ∧
    ((simusRank by2 S)[a.val]'(by rw [simusRank_length]; exact a.isLt) =
        (simusRank by2 S)[b.val]'(by rw [simusRank_length]; exact b.isLt) ↔
      simusScore by2 S a = simusScore by2 S b) := by
  have hab := rankFin_true_lt_iff (simusScore by2 S) a b
  have hba := rankFin_true_lt_iff (simusScore by2 S) b a
  have ea : (simusRank by2 S)[a.val]'(by rw [simusRank_length]; exact a.isLt) = rankFin true (simusScore by2 S) a := rfl
  have eb : (simusRank by2 S)[b.val]'(by rw [simusRank_length]; exact b.isLt) = rankFin true (simusScore by2 S) b := rfl
  rw [ea, eb]
  refine ⟨hab, ?_⟩
  constructor
  · intro h
    apply le_antisymm
    · by_contra hn; push Not at hn; have := hab.mpr hn; omega
    · by_contra hn; push Not at hn; have := hba.mpr hn; omega
  · intro h; exact rankFin_eq_of_eq true _ a b h

/-- the score that is ranked: `rank_by = 1` → first method, `rank_by = 2` → second method -/
theorem simusScore_eq (S : Mat n m α) : simusScore false S = method1 S ∧ simusScore true S = method2 S := ⟨rfl, rfl⟩
end post

/-! ## 4. optimality certificates -/
section cert
variable {α : Type} [Field α] [LinearOrder α] [IsStrictOrderedRing α] {k m : ℕ}

/-- the executable checker decides exactly: `x` feasible within `εp`, `y` sign-correct and dual
feasible within `εd`, `|c·x − y·b| ≤ δ` -/
theorem certCheck_iff (P : LP k m α) (x : Vec m α) (y : Vec k α) (εp εd δ : α) :
    certCheck P x y εp εd δ = true ↔
      P.feasibleWithin x εp ∧ P.dualFeasible y εd ∧ |P.value x - P.bound y| ≤ δ := by
  unfold certCheck
  rw [Bool.and_eq_true, Bool.and_eq_true, primalOK_iff, dualOK_iff, gapOK_iff, and_assoc]

/-- weak duality (any ordered field, any size), for maximise and minimise stages: a sign-correct,
dual-feasible `y` bounds the objective of every feasible point -/
theorem weak_duality (P : LP k m α) (x : Vec m α) (y : Vec k α) (hx : P.feasible x) (hy : P.dualFeasible y 0) :
    match P.sense with
    | .max => P.value x ≤ P.bound y
    | .min => P.bound y ≤ P.value x := by
  cases hs : P.sense
  · have := value_le_bound P hs x y 0 hx hy; simpa using this
  · have := bound_le_value P hs x y 0 hx hy; simpa using this

/-- **soundness of the certificate checker.**  If `certCheck` accepts `(x, y)` then `x` satisfies
every constraint within `εp`, and every (exactly) feasible point `x'` has an objective no better than
that of `x` up to `δ' = δ + εd · Σ_j x'_j`: not larger for a maximise stage, not smaller for a
minimise stage. -/
theorem cert_sound (P : LP k m α) (x : Vec m α) (y : Vec k α) (εp εd δ : α)
    (h : certCheck P x y εp εd δ = true) :
    P.feasibleWithin x εp ∧ ∀ x', P.feasible x' →
      match P.sense with
      | .max => P.value x' ≤ P.value x + (δ + εd * ∑ j, x' j)
      | .min => P.value x - (δ + εd * ∑ j, x' j) ≤ P.value x' := by
  obtain ⟨hp, hd, hg⟩ := (certCheck_iff P x y εp εd δ).mp h
  refine ⟨hp, fun x' hx' => ?_⟩
  rw [abs_le] at hg
  cases hs : P.sense
  · have := value_le_bound P hs x' y εd hx' hd
    show P.value x' ≤ P.value x + (δ + εd * ∑ j, x' j)
    linarith [hg.1]
  · have := bound_le_value P hs x' y εd hx' hd
    show P.value x - (δ + εd * ∑ j, x' j) ≤ P.value x'
    linarith [hg.2]

/-- with an exactly feasible dual vector (`εd = 0`) the margin is `δ` itself -/
theorem cert_sound_exact (P : LP k m α) (x : Vec m α) (y : Vec k α) (εp δ : α)
    (h : certCheck P x y εp 0 δ = true) (x' : Vec m α) (hx' : P.feasible x') :
    match P.sense with
    | .max => P.value x' ≤ P.value x + δ
    | .min => P.value x - δ ≤ P.value x' := by
  have := (cert_sound P x y εp 0 δ h).2 x' hx'
  cases hs : P.sense <;> simp only [hs, zero_mul, add_zero] at this ⊢ <;> exact this

/-- a margin that does not depend on the competitor: a SIMUS stage always has a `≤` constraint (another
maximised criterion) with positive coefficients `≥ μ`, which bounds `Σ_j x'_j ≤ b_r / μ`; so
`δ' = δ + εd · b_r / μ` for every feasible `x'` -/
theorem cert_sound_bounded (P : LP k m α) (x : Vec m α) (y : Vec k α) (εp εd δ : α) (hε : 0 ≤ εd)
    (h : certCheck P x y εp εd δ = true)
    (r₀ : Fin k) (hr : P.rel r₀ = .le) (μ : α) (hμ : 0 < μ) (hA : ∀ j, μ ≤ P.A r₀ j)
    (x' : Vec m α) (hx' : P.feasible x') :
    match P.sense with
    | .max => P.value x' ≤ P.value x + (δ + εd * (P.b r₀ / μ))
    | .min => P.value x - (δ + εd * (P.b r₀ / μ)) ≤ P.value x' := by
  have h1 := (cert_sound P x y εp εd δ h).2 x' hx'
  have h2 := mul_le_mul_of_nonneg_left (sum_le_of_row P x' hx' r₀ hr μ hμ hA) hε
  cases hs : P.sense <;> simp only [hs] at h1 ⊢ <;> linarith

/-- two accepted solutions of the same stage have the same objective up to the margins: the optimum
value the certificate pins down is unique -/
theorem cert_value_unique (P : LP k m α) (x x' : Vec m α) (y y' : Vec k α) (δ δ' : α)
    (h : certCheck P x y 0 0 δ = true) (h' : certCheck P x' y' 0 0 δ' = true) :
    |P.value x - P.value x'| ≤ max δ δ' := by
  have hf : ∀ u : Vec m α, P.feasibleWithin u 0 → P.feasible u := by
    intro u hu
    refine ⟨fun i => by simpa using hu.1 i, fun r => ?_⟩
    have := hu.2 r
    cases hr : P.rel r <;> simp only [hr, add_zero, sub_zero] at this ⊢ <;> exact this
  have a := cert_sound_exact P x y 0 δ h x' (hf x' ((certCheck_iff _ _ _ _ _ _).mp h').1)
  have b := cert_sound_exact P x' y' 0 δ' h' x (hf x ((certCheck_iff _ _ _ _ _ _).mp h).1)
  rw [abs_le]
  cases hs : P.sense <;> simp only [hs] at a b <;>
    constructor <;> linarith [le_max_left δ δ', le_max_right δ δ']
end cert

/-! ## non-vacuity -/

/-- a 3 × 3 decision matrix (alternatives × criteria), objectives max, min, max -/
def exA : Mat 3 3 ℚ := fun i j => ((![![4, 3, 2], ![1, 5, 6], ![7, 2, 3]] : Fin 3 → Fin 3 → ℚ) i j)
def exO : Vec 3 Obj := ![.max, .min, .max]

-- stage 0 with `b = [None, 5/2, None]`: maximise 4x₀ + x₁ + 7x₂ s.t. 3x₀+5x₁+2x₂ ≥ 5/2, 2x₀+6x₁+3x₂ ≤ 6
example : (stageLP exA exO ![none, some (5/2), none] 0).sense = .max ∧
    (stageLP exA exO ![none, some (5/2), none] 0).rel = ![Rel.ge, Rel.le] ∧
    (stageLP exA exO ![none, some (5/2), none] 0).b 0 = 5/2 := by
  refine ⟨rfl, ?_, rfl⟩
  funext r; fin_cases r <;> rfl

-- the criteria of the constraints of stage 1 of 4 are 0, 2, 3
example : (List.finRange 3).map (fun r => (otherCrit (1 : Fin 4) r).val) = [0, 2, 3] := by decide

-- digits and order
example : digits 0 = [0] ∧ digits 10 = [1, 0] ∧ digits 307 = [3, 0, 7] := by decide

/-- a one-constraint maximise stage: max 3x₀ + 2x₁ s.t. x₀ + x₁ ≤ 4 -/
def exP : LP 1 2 ℚ := ⟨.max, ![3, 2], ![![1, 1]], ![.le], ![4]⟩

-- the checker accepts the optimum with its dual price …
example : certCheck exP ![4, 0] ![3] 0 0 0 = true := by
  simp [certCheck, primalOK, dualOK, gapOK, rowOK, signOK, colOK, yA, dot, sumFin, allFin, exP, List.ofFn_succ]
  norm_num
-- … hence (by `cert_sound_exact`) no feasible point does better than 12
example (x' : Vec 2 ℚ) (hx' : exP.feasible x') : exP.value x' ≤ exP.value ![4, 0] + 0 := by
  have h : certCheck exP ![4, 0] ![3] 0 0 0 = true := by
    simp [certCheck, primalOK, dualOK, gapOK, rowOK, signOK, colOK, yA, dot, sumFin, allFin, exP, List.ofFn_succ]
    norm_num
  exact cert_sound_exact exP ![4, 0] ![3] 0 0 h x' hx'
-- … and rejects a feasible but sub-optimal point (gap 4) with the same multipliers
example : certCheck exP ![0, 4] ![3] 0 0 0 = false := by
  simp [certCheck, primalOK, dualOK, gapOK, rowOK, signOK, colOK, yA, dot, sumFin, allFin, exP, List.ofFn_succ]
  norm_num

/-- a minimise stage with a `≥` and a `≤` row: min 2x₀ + 3x₁ s.t. x₀ + x₁ ≥ 2, x₀ + 2x₁ ≤ 10 -/
def exPmin : LP 2 2 ℚ := ⟨.min, ![2, 3], ![![1, 1], ![1, 2]], ![.ge, .le], ![2, 10]⟩
example : certCheck exPmin ![2, 0] ![2, 0] 0 0 0 = true := by
  simp [certCheck, primalOK, dualOK, gapOK, rowOK, signOK, colOK, yA, dot, sumFin, allFin, exPmin, List.ofFn_succ]
  norm_num

-- stage rows, scores and ranking on concrete solution values (stage 1 is the all-zero solution)
def exV : Mat 2 3 ℚ := ![![1, 3, 0], ![0, 0, 0]]
example : ∑ i, stageRows exV 0 i = 1 := stageRow_sum_one exV 0 (by simp [exV, Fin.sum_univ_succ]; norm_num)
example : ∀ i, stageRows exV 1 i = 0 := stageRow_zero exV 1 (by simp [exV, Fin.sum_univ_succ])

end Skc.C09
