import Skc.Proofs.Data
import Skc.Generated.Aliases

/-! # C01 — each criterion keeps its own objective, weight, dtype and data under any selection

Property theorems only (helpers live in `Skc/Proofs/Data.lean`). Model: `Skc/Model/Data.lean`
(`DecisionMatrix.__getitem__`, `_Loc.__getitem__` for `loc` / `iloc`, `copy`, `to_dict`, `mkdm`,
`Objective.from_alias`), as the code is after the commits
`fix: column selection re-attaches objectives and weights by criterion label` and the repair of the
`(rows, single column)` form of `loc` / `iloc`.

Vocabulary (defined next to the model): `SubView d' d` — `d'` is well formed, lists only
alternatives / criteria of `d`, and every criterion of `d'` has, looked up BY LABEL in `d`, its own
objective, weight, dtype and, for every alternative of `d'`, its own cell.
`Step.Admissible d s` — the selection names no label / position twice (a *subset*, in any order). -/
namespace Skc.C01
open Skc.Data

variable {α : Type}

/-! ## sub-views compose -/

/-- a well-formed matrix is a sub-view of itself -/
theorem SubView.refl (d : DM α) (hw : d.WF) : SubView d d :=
  ⟨hw, fun _ h => h, fun _ h => h, fun _ _ => ⟨rfl, rfl, rfl, fun _ _ => rfl⟩⟩

/-- a sub-view of a sub-view is a sub-view of the original: every label still carries its own data -/
theorem SubView.trans {d'' d' d : DM α} (h2 : SubView d'' d') (h1 : SubView d' d) : SubView d'' d := by
  obtain ⟨hw2, ha2, hc2, hv2⟩ := h2
  obtain ⟨_, ha1, hc1, hv1⟩ := h1
  refine ⟨hw2, fun a h => ha1 a (ha2 a h), fun c h => hc1 c (hc2 c h), ?_⟩
  intro c hc
  obtain ⟨o2, w2, t2, x2⟩ := hv2 c hc
  obtain ⟨o1, w1, t1, x1⟩ := hv1 c (hc2 c hc)
  exact ⟨o2.trans o1, w2.trans w1, t2.trans t1, fun a ha => (x2 a ha).trans (x1 a (ha2 a ha))⟩

/-! ## each selection operation -/

/-- `dm[...]` — a column label, a list of column labels in ANY order, an integer or label row slice, a
boolean row mask: every surviving criterion keeps (by label) its objective, weight, dtype and column,
every surviving alternative its row, and both are listed in the order the selection asked for -/
theorem getitem_subview {d d' : DM α} (hw : d.WF) (s : GSel) (hs : s.Distinct)
    (h : getitem d s = .ok d') :
    SubView d' d ∧ d'.crits = s.requestedCrits d.crits ∧ d'.alts = s.requestedAlts d.alts := by
  have hra : ∀ p ∈ List.range d.alts.length, p < d.alts.length := fun p hp => List.mem_range.mp hp
  have hrc : ∀ p ∈ List.range d.crits.length, p < d.crits.length := fun p hp => List.mem_range.mp hp
  unfold getitem at h
  cases s with
  | col c =>
    simp only [getitemWith] at h
    split at h
    · cases h
    · rename_i cs hcs
      obtain ⟨hr, hreq, hnd⟩ := LSel.resolve_spec d.crits _ cs hcs
      obtain ⟨hsv, ha, hc⟩ := attach_subview hw List.nodup_range (hnd trivial) hra hr
        (cutOf_restore d hw _ cs (hnd trivial) hr id (fun _ => rfl)) h
      exact ⟨hsv, by rw [hc, hreq]; rfl, by rw [ha, gather_range]; rfl⟩
  | cols cs =>
    simp only [getitemWith] at h
    split at h
    · cases h
    · rename_i ps hps
      obtain ⟨hr, hreq, hnd⟩ := LSel.resolve_spec d.crits _ ps hps
      obtain ⟨hsv, ha, hc⟩ := attach_subview hw List.nodup_range (hnd hs) hra hr
        (cutOf_take d hw _ ps (hnd hs) hr) h
      exact ⟨hsv, by rw [hc, hreq]; rfl, by rw [ha, gather_range]; rfl⟩
  | rows a b step =>
    simp only [getitemWith] at h
    split at h
    · cases h
    · rename_i rs hrs
      obtain ⟨hr, hreq, hnd⟩ := ISel.resolve_spec d.alts _ rs hrs
      obtain ⟨hsv, ha, hc⟩ := attach_subview hw (hnd trivial) List.nodup_range hr hrc
        (cutOf_take d hw rs _ List.nodup_range hrc) h
      exact ⟨hsv, by rw [hc, gather_range]; rfl, by rw [ha, hreq]; rfl⟩
  | rowsL a b =>
    simp only [getitemWith] at h
    split at h
    · cases h
    · rename_i rs hrs
      obtain ⟨hr, hreq, hnd⟩ := LSel.resolve_spec d.alts _ rs hrs
      obtain ⟨hsv, ha, hc⟩ := attach_subview hw (hnd trivial) List.nodup_range hr hrc
        (cutOf_take d hw rs _ List.nodup_range hrc) h
      exact ⟨hsv, by rw [hc, gather_range]; rfl, by rw [ha, hreq]; rfl⟩
  | mask bs =>
    cases bs with
    | nil =>
      simp only [getitemWith] at h
      obtain ⟨hsv, ha, hc⟩ := attach_subview hw List.nodup_range List.nodup_nil hra (by simp)
        (cutOf_take d hw _ [] List.nodup_nil (by simp)) h
      exact ⟨hsv, by rw [hc]; rfl, by rw [ha, gather_range]; rfl⟩
    | cons b bs =>
      simp only [getitemWith] at h
      split at h
      · rename_i hlen
        have hr : ∀ p ∈ maskPos (b :: bs) 0, p < d.alts.length := by
          intro p hp
          have := (maskPos_bounds (b :: bs) 0 p hp).2
          omega
        obtain ⟨hsv, ha, hc⟩ := attach_subview hw (maskPos_nodup _ _) List.nodup_range hr hrc
          (cutOf_take d hw _ _ List.nodup_range hrc) h
        exact ⟨hsv, by rw [hc, gather_range]; rfl, by rw [ha, gather_maskPos _ _ hlen]; rfl⟩
      · cases h

/-- `dm.loc[rows]` / `dm.loc[rows, cols]` with label selectors `One | Many | Slice | Mask | All` on each
axis — including `(rows, single column)`, which answers with the one-criterion matrix —: sub-view, in the
requested order on both axes -/
theorem loc_subview [Truncate α] {d d' : DM α} (hw : d.WF) (r : LSel) (c : Option LSel)
    (hs : (Step.loc r c).Admissible d) (h : loc d r c = .ok d') :
    SubView d' d ∧ d'.crits = (c.getD .all).requested d.crits ∧ d'.alts = r.requested d.alts := by
  obtain ⟨hdr, hdc⟩ := hs
  unfold loc locWith at h
  split at h
  · cases h
  · rename_i cs hcs
    split at h
    · cases h
    · rename_i rs hrs
      obtain ⟨hrr, hreqr, hndr⟩ := LSel.resolve_spec d.alts r rs hrs
      obtain ⟨hcr, hreqc, hndc⟩ := LSel.resolve_spec d.crits _ cs hcs
      obtain ⟨hsv, ha, hc⟩ := finish_subview hw (hndr hdr) (hndc hdc) hrr hcr h
      exact ⟨hsv, by rw [hc, hreqc], by rw [ha, hreqr]⟩

/-- `dm.iloc[rows]` / `dm.iloc[rows, cols]` with positional selectors (negative positions, slices with
steps, masks): sub-view, in the requested order on both axes -/
theorem iloc_subview [Truncate α] {d d' : DM α} (hw : d.WF) (r : ISel) (c : Option ISel)
    (hs : (Step.iloc r c).Admissible d) (h : iloc d r c = .ok d') :
    SubView d' d ∧ d'.crits = (c.getD .all).requested d.crits ∧ d'.alts = r.requested d.alts := by
  obtain ⟨hdr, hdc⟩ := hs
  unfold iloc ilocWith at h
  split at h
  · cases h
  · cases h
  · cases h
  · cases h
  · rename_i cs rs hcs hrs
    obtain ⟨hrr, hreqr, hndr⟩ := ISel.resolve_spec d.alts r rs hrs
    obtain ⟨hcr, hreqc, hndc⟩ := ISel.resolve_spec d.crits _ cs hcs
    obtain ⟨hsv, ha, hc⟩ := finish_subview hw (hndr hdr) (hndc hdc) hrr hcr h
    exact ⟨hsv, by rw [hc, hreqc], by rw [ha, hreqr]⟩

/-- `to_dict()` followed by `mkdm(**…)` rebuilds exactly the same matrix: all six parts, positionally -/
theorem toDict_mkdm (d : DM α) (hw : d.WF) : mkdm (toDict d) = .ok d := mkdm_toDict d hw

/-- `copy()` is the identity on well-formed matrices -/
theorem copy_eq (d : DM α) (hw : d.WF) : copy d = .ok d := mkdm_toDict d hw

/-- one link of a chain, whatever operation it is -/
theorem step_subview [Truncate α] {d d' : DM α} (hw : d.WF) (s : Step) (hs : s.Admissible d)
    (h : s.run d = .ok d') :
    SubView d' d ∧ d'.crits = s.requestedCrits d ∧ d'.alts = s.requestedAlts d := by
  cases s with
  | getitem g => exact getitem_subview hw g hs h
  | loc r c => exact loc_subview hw r c hs h
  | iloc r c => exact iloc_subview hw r c hs h
  | copy =>
    have : d' = d := by
      have h' : Data.copy d = .ok d' := h
      rw [copy_eq d hw] at h'; cases h'; rfl
    subst this
    exact ⟨SubView.refl _ hw, rfl, rfl⟩
  | roundtrip =>
    have : d' = d := by
      have h' : mkdm (toDict d) = .ok d' := h
      rw [toDict_mkdm d hw] at h'; cases h'; rfl
    subst this
    exact ⟨SubView.refl _ hw, rfl, rfl⟩

/-- **every finite chain** of selections, `copy()` and dict round trips, of any length, on any shape:
each criterion that survives to the end still has its own objective, weight, dtype and column, each
surviving alternative its own row (induction over the chain) -/
theorem chain_subview [Truncate α] (ops : List Step) : ∀ {d d' : DM α}, d.WF → ChainOK d ops →
    runChain d ops = .ok d' → SubView d' d := by
  induction ops with
  | nil =>
    intro d d' hw _ h
    simp only [runChain] at h
    cases h
    exact SubView.refl _ hw
  | cons s ss ih =>
    intro d d' hw hok h
    obtain ⟨hs, hrest⟩ := hok
    simp only [runChain] at h
    split at h
    · cases h
    · rename_i d1 h1
      obtain ⟨hsv, _, _⟩ := step_subview hw s hs h1
      rw [h1] at hrest
      exact SubView.trans (ih hsv.1 hrest h) hsv

/-- and the last link lists criteria and alternatives in the order it asked for -/
theorem chain_order [Truncate α] (ops : List Step) (s : Step) {d d1 d' : DM α} (hw : d.WF) (hok : ChainOK d ops)
    (h1 : runChain d ops = .ok d1) (hs : s.Admissible d1) (h : s.run d1 = .ok d') :
    d'.crits = s.requestedCrits d1 ∧ d'.alts = s.requestedAlts d1 :=
  (step_subview (chain_subview ops hw hok h1).1 s hs h).2

/-! ## objective aliases -/

/-- the sense an alias NAMES, classified independently of the code's tables by the documented
spellings (`max`, `maximize`, `+`, `>`, `▲`, `1`, `max` / `numpy.max` / `numpy.amax` / `numpy.nanmax`,
and the mirror images for `min`) -/
def senseNamed : AliasKey → Option Obj
  | .int 1 => some .max
  | .int (-1) => some .min
  | .int _ => none
  | .str s =>
    if s ∈ ["max", "maximize", "+", ">", "▲"] then some .max
    else if s ∈ ["min", "minimize", "-", "<", "▼"] then some .min else none
  | .fn f =>
    if f ∈ ["builtins.max", "numpy.max", "numpy.amax", "numpy.nanmax"] then some .max
    else if f ∈ ["builtins.min", "numpy.min", "numpy.amin", "numpy.nanmin"] then some .min else none

/-- the documented aliases -/
def documented : List AliasKey :=
  [.int 1, .str "max", .str "maximize", .str "+", .str ">", .str "▲",
   .fn "builtins.max", .fn "numpy.max", .fn "numpy.amax", .fn "numpy.nanmax",
   .int (-1), .str "min", .str "minimize", .str "-", .str "<", .str "▼",
   .fn "builtins.min", .fn "numpy.min", .fn "numpy.amin", .fn "numpy.nanmin"]

/-- every alias in the code's tables (regenerated from `Objective._MAX_ALIASES / _MIN_ALIASES` on every
run) carries the sense it names, and `from_alias` resolves it to that sense -/
theorem alias_table : ∀ a ∈ Generated.aliases,
    senseNamed a.key = some a.sense ∧ Generated.fromAlias a.key = some a.sense := by
  decide

/-- every documented alias is in the code's tables and resolves to the sense it names -/
theorem alias_documented : ∀ k ∈ documented, Generated.fromAlias k = senseNamed k ∧ (senseNamed k).isSome := by
  decide

/-! ## the pre-fix re-attachment misaligns (3 criteria, request `[C2, C0]`) -/

def ex : DM Int :=
  { alts := ["A0", "A1"], crits := ["C0", "C1", "C2"], objs := [.max, .min, .max], wts := [1, 2, 7],
    dts := [.int, .float, .int], cells := [[1, 2, 3], [4, 5, 6]] }

/-- alternatives whose labels are also criterion labels -/
def exShared : DM Int :=
  { alts := ["a", "C2"], crits := ["C0", "a", "C2"], objs := [.max, .min, .max], wts := [1, 2, 7],
    dts := [.int, .float, .int], cells := [[2, 1, 3], [4, 5, 6]] }

/-- before the fix `dm[['C2','C0']]` answered with `C2` carrying the weight of `C0` (and the objectives
in original order): the answer is not a sub-view -/
theorem getitem_v0_misaligns :
    ∃ r, getitem_v0 ex (.cols ["C2", "C0"]) = .ok r ∧ r.crits = ["C2", "C0"] ∧
      wtOf r "C2" = some 1 ∧ wtOf ex "C2" = some 7 ∧ ¬ SubView r ex :=
  ⟨_, rfl, by decide, by decide, by decide, by decide⟩

/-- the same through `loc` and `iloc` -/
theorem loc_iloc_v0_misalign :
    (∃ r, loc_v0 ex .all (some (.many ["C2", "C0"])) = .ok r ∧ ¬ SubView r ex) ∧
    (∃ r, iloc_v0 ex (.many [1, 0]) (some (.many [2, 0])) = .ok r ∧ ¬ SubView r ex) :=
  ⟨⟨_, rfl, by decide⟩, ⟨_, rfl, by decide⟩⟩

/-- and the code as it is now, on the same inputs, answers with a sub-view in the requested order -/
theorem getitem_fixed_witness :
    ∃ r, getitem ex (.cols ["C2", "C0"]) = .ok r ∧ r.crits = ["C2", "C0"] ∧ r.wts = [7, 1] ∧
      r.objs = [.max, .max] ∧ SubView r ex :=
  ⟨_, rfl, by decide, by decide, by decide, by decide⟩

/-- before its repair the `(rows, single column)` form handled pandas' *column* Series like a row
(`to_frame().T`): no row selected ⇒ the answer's only alternative was the *criterion*; all alternative
labels also criterion labels ⇒ the transposed matrix. Neither is a sub-view in the requested order -/
theorem colSeries_corner_violates :
    (∃ r, loc_colseries_v0 ex (.many []) (some (.one "C1")) = .ok r ∧ r.alts = ["C1"] ∧ r.crits = [] ∧
      ¬ SubView r ex) ∧
    (∃ r, iloc_colseries_v0 exShared .all (some (.one 0)) = .ok r ∧ r.alts = ["C0"] ∧ r.crits = ["a", "C2"] ∧
      ¬ SubView r exShared) :=
  ⟨⟨_, rfl, by decide, by decide, by decide⟩, ⟨_, rfl, by decide, by decide, by decide⟩⟩

/-- the repaired code on the same inputs: the one-criterion matrix, rows as requested -/
theorem colSeries_fixed_witness :
    (∃ r, loc ex (.many []) (some (.one "C1")) = .ok r ∧ r.alts = [] ∧ r.crits = ["C1"] ∧ r.objs = [.min] ∧
      r.wts = [2] ∧ r.dts = [.float] ∧ SubView r ex) ∧
    (∃ r, iloc exShared (.many [1, 0]) (some (.one 0)) = .ok r ∧ r.alts = ["C2", "a"] ∧ r.crits = ["C0"] ∧
      r.cells = [[4], [2]] ∧ SubView r exShared) :=
  ⟨⟨_, rfl, by decide, by decide, by decide, by decide, by decide, by decide⟩,
   ⟨_, rfl, by decide, by decide, by decide, by decide⟩⟩

/-! ## non-vacuity: the hypotheses are satisfiable on concrete, non-trivial instances -/

example : ex.WF := by decide
example : (Step.loc (.many ["A1", "A0"]) (some (.many ["C2", "C0"]))).Admissible ex := by decide
example : ∃ r, loc ex (.many ["A1", "A0"]) (some (.many ["C2", "C0"])) = .ok r ∧
    r = { alts := ["A1", "A0"], crits := ["C2", "C0"], objs := [.max, .max], wts := [7, 1],
          dts := [.int, .int], cells := [[6, 4], [3, 1]] } := ⟨_, rfl, by decide⟩
example : ∃ r, iloc ex (.one (-1)) (some (.slice none none (some (-1)))) = .ok r ∧
    r = { alts := ["A1"], crits := ["C2", "C1", "C0"], objs := [.max, .min, .max], wts := [7, 2, 1],
          dts := [.int, .float, .int], cells := [[6, 5, 4]] } := ⟨_, rfl, by decide⟩
example : getitem ex (.col "C9") = .error .keyError := by decide
example : loc ex (.one "A0") (some (.one "C1")) = .error .attributeError := by decide
example : loc_colseries_v0 ex .all (some (.one "C1")) = .error .keyError := by decide
example : (Step.loc .all (some (.one "C1"))).Admissible ex := by decide
example : ∃ r, loc ex .all (some (.one "C1")) = .ok r ∧
    r = { alts := ["A0", "A1"], crits := ["C1"], objs := [.min], wts := [2], dts := [.float], cells := [[2], [5]] } :=
  ⟨_, rfl, by decide⟩
example : iloc ex (.mask [true]) none = .error .indexError := by decide
example : getitem ex (.mask [true]) = .error .valueError := by decide
example : copy ex = .ok ex := by decide
/-- a chain of five links (reorder columns, reverse rows, copy, round trip, one row) and its end -/
example : ChainOK ex [.getitem (.cols ["C2", "C0", "C1"]), .iloc (.slice none none (some (-1))) none, .copy,
      .roundtrip, .loc (.one "A0") (some (.many ["C1", "C2"]))] ∧
    runChain ex [.getitem (.cols ["C2", "C0", "C1"]), .iloc (.slice none none (some (-1))) none, .copy,
      .roundtrip, .loc (.one "A0") (some (.many ["C1", "C2"]))] =
    .ok { alts := ["A0"], crits := ["C1", "C2"], objs := [.min, .max], wts := [2, 7], dts := [.float, .int],
          cells := [[2, 3]] } := by
  decide
example : senseNamed (.str ">") = some .max ∧ senseNamed (.fn "numpy.nanmin") = some .min ∧
    senseNamed (.str "maxi") = none := by decide

end Skc.C01
