import Skc.Proofs.Perm
import Skc.Proofs.ElectrePerm
import Skc.Proofs.RankerPerm
import Skc.Proofs.TransformPerm
import Skc.Props.C13
set_option linter.unusedSectionVars false
set_option linter.unusedVariables false

/-! # C05 — rankings do not depend on how the decision problem is written down

Model: the kernels of `Skc/Model/Agg.lean` (`agg/simple.py`, `agg/similarity.py`, `agg/moora.py`),
`rank_values` of `Skc/Model/Rank.lean`, and the pairing `evaluate` makes between the alternatives'
names and the value vector (`mkResult`).  `σ` lists the alternatives in another order, `τ` lists the
criteria — together with their objectives and weights — in another order, `c > 0` multiplies every
weight.  Scores are stated *by alternative*: the score at position `i` of the permuted problem is the
score of alternative `σ i` in the original problem.  Ranks are stated through `rankVec rev s i`, which
is entry `i` of `rank_values(s, reverse=rev)` (`rank_values_ofFn`).

**ELECTRE** (section `electre`, model `Skc/Model/Electre.lean`): concordance, discordance, the ELECTRE1
outranking relation and kernel, and ELECTRE2's weight-comparison relation (as specified and as coded)
are proved to follow the alternatives under `σ` and to ignore the order of the criteria under `τ`; the
strong / weak graphs are cell-wise functions of these; the ELECTRE2 distillation loop, the inverse
ranking and the final ranking are proved equivariant under any relabelling of the graph
(`electre2_direct_relabel`, `electre2_inverted_relabel`, `electre2_rank_relabel`).

**Transformers and pipelines** (section `transformers`, model `Skc/Model/Scalers.lean` and
`Skc/Model/Weighters.lean`): every scaler, shifter and objective inverter — kernel by kernel for the
matrix and for the weights, then as a class on `Data m n α` — and every weighter commutes with
`Data.permute σ τ` (the problem written down in another order); so does any finite pipeline of them
(`pipeline_permute`), and followed by a method that follows the alternatives and ignores the order of
the criteria, every named alternative gets the same score and rank in both presentations
(`pipeline_score_presentation`, `pipeline_rank_presentation`, `pipeline_score_by_name`).
`harness/props/c05.py` runs both presentations of every case on the real code for those too, and
compares by label.

Exact arithmetic: the theorems hold over every linear ordered field (`ℚ` is what the driver runs) and
over `ℝ` for the kernels with `sqrt`/`log`; floating-point summation order is not modelled, which is
why the correspondence check compares the two presentations of the real code up to `1e-9·scale` and
ranks only on pairs separated by more than the margin. -/
namespace Skc.C05
open Skc Skc.Agg Finset

variable {m n : ℕ}

/-! ## 1. alternatives listed in another order: every score follows its alternative -/
section rows
variable {α : Type} [Field α] [LinearOrder α] [IsStrictOrderedRing α]

/-- column-wise extrema (`np.max(matrix, axis=0)`, `np.min(matrix, axis=0)`) do not move -/
theorem colMax_row_perm [NeZero m] (A : Mat m n α) (σ : Equiv.Perm (Fin m)) :
    colMax (fun i => A (σ i)) = colMax A := Agg.colMax_row_perm A σ
theorem colMin_row_perm [NeZero m] (A : Mat m n α) (σ : Equiv.Perm (Fin m)) :
    colMin (fun i => A (σ i)) = colMin A := Agg.colMin_row_perm A σ

/-- WSM -/
theorem wsm_row_perm (A : Mat m n α) (w : Vec n α) (σ : Equiv.Perm (Fin m)) (i : Fin m) :
    wsm (fun i => A (σ i)) w i = wsm A w (σ i) := rfl

/-- RatioMOORA -/
theorem ratio_row_perm (A : Mat m n α) (o : Vec n Obj) (w : Vec n α) (σ : Equiv.Perm (Fin m)) (i : Fin m) :
    ratio (fun i => A (σ i)) o w i = ratio A o w (σ i) := rfl

/-- ReferencePointMOORA: same reference point, scores follow the alternatives -/
theorem reference_point_row_perm [NeZero m] (A : Mat m n α) (o : Vec n Obj) (σ : Equiv.Perm (Fin m)) :
    referencePoint (fun i => A (σ i)) o = referencePoint A o := Agg.referencePoint_row_perm A o σ
theorem refpoint_row_perm [NeZero m] [NeZero n] (A : Mat m n α) (o : Vec n Obj) (w : Vec n α)
    (σ : Equiv.Perm (Fin m)) (i : Fin m) :
    refpoint (fun i => A (σ i)) o w i = refpoint A o w (σ i) := by
  unfold refpoint; rw [Agg.referencePoint_row_perm]

/-- TOPSIS: same ideal and anti-ideal … -/
theorem ideal_row_perm [NeZero m] (A : Mat m n α) (o : Vec n Obj) (w : Vec n α) (σ : Equiv.Perm (Fin m)) :
    ideal (fun i => A (σ i)) o w = ideal A o w ∧ antiIdeal (fun i => A (σ i)) o w = antiIdeal A o w :=
  ⟨Agg.ideal_row_perm A o w σ, Agg.antiIdeal_row_perm A o w σ⟩

/-- … and the similarity follows the alternative (squared Euclidean, city-block, Chebyshev) -/
theorem topsisQ_row_perm [NeZero m] [NeZero n] (μ : Metric) (A : Mat m n α) (o : Vec n Obj) (w : Vec n α)
    (σ : Equiv.Perm (Fin m)) (i : Fin m) :
    topsisQ μ (fun i => A (σ i)) o w i = topsisQ μ A o w (σ i) :=
  similarityWith_row_perm (distQ μ) A o w σ i
end rows

/-- TOPSIS over `ℝ` (Euclidean, Minkowski `p = 2`, and the three field metrics) -/
theorem topsis_row_perm [NeZero m] [NeZero n] (μ : Metric) (A : Mat m n ℝ) (o : Vec n Obj) (w : Vec n ℝ)
    (σ : Equiv.Perm (Fin m)) (i : Fin m) :
    topsis μ (fun i => A (σ i)) o w i = topsis μ A o w (σ i) :=
  similarityWith_row_perm (Agg.dist μ) A o w σ i

/-- WPM -/
theorem wpm_row_perm (A : Mat m n ℝ) (w : Vec n ℝ) (σ : Equiv.Perm (Fin m)) (i : Fin m) :
    wpm (fun i => A (σ i)) w i = wpm A w (σ i) := rfl

/-- FullMultiplicativeForm, as coded -/
theorem fmf_row_perm (A : Mat m n ℝ) (o : Vec n Obj) (w : Vec n ℝ) (σ : Equiv.Perm (Fin m)) (i : Fin m) :
    fmfCode (fun i => A (σ i)) o w i = fmfCode A o w (σ i) := rfl

/-! ## 2. criteria listed in another order, with their objectives and weights: nothing changes -/
section cols
variable {α : Type} [Field α] [LinearOrder α] [IsStrictOrderedRing α]

theorem wsm_col_perm (A : Mat m n α) (w : Vec n α) (τ : Equiv.Perm (Fin n)) :
    wsm (fun i j => A i (τ j)) (fun j => w (τ j)) = wsm A w := by
  funext i; exact sumFin_perm (fun j => A i j * w j) τ

theorem ratio_col_perm (A : Mat m n α) (o : Vec n Obj) (w : Vec n α) (τ : Equiv.Perm (Fin n)) :
    ratio (fun i j => A i (τ j)) (fun j => o (τ j)) (fun j => w (τ j)) = ratio A o w := by
  funext i; exact sumFin_perm (fun j => A i j * (w j * (o j).sgn)) τ

/-- the reference point is listed in the new criterion order, the scores are unchanged -/
theorem reference_point_col_perm [NeZero m] (A : Mat m n α) (o : Vec n Obj) (τ : Equiv.Perm (Fin n)) (j : Fin n) :
    referencePoint (fun i j => A i (τ j)) (fun j => o (τ j)) j = referencePoint A o (τ j) := rfl
theorem refpoint_col_perm [NeZero m] [NeZero n] (A : Mat m n α) (o : Vec n Obj) (w : Vec n α) (τ : Equiv.Perm (Fin n)) :
    refpoint (fun i j => A i (τ j)) (fun j => o (τ j)) (fun j => w (τ j)) = refpoint A o w := by
  funext i; exact maxFin_perm (fun j => absv (w j * (A i j - referencePoint A o j))) τ

/-- ideal / anti-ideal are listed in the new criterion order -/
theorem ideal_col_perm [NeZero m] (A : Mat m n α) (o : Vec n Obj) (w : Vec n α) (τ : Equiv.Perm (Fin n)) (j : Fin n) :
    ideal (fun i j => A i (τ j)) (fun j => o (τ j)) (fun j => w (τ j)) j = ideal A o w (τ j) ∧
    antiIdeal (fun i j => A i (τ j)) (fun j => o (τ j)) (fun j => w (τ j)) j = antiIdeal A o w (τ j) := ⟨rfl, rfl⟩

theorem topsisQ_col_perm [NeZero m] [NeZero n] (μ : Metric) (A : Mat m n α) (o : Vec n Obj) (w : Vec n α)
    (τ : Equiv.Perm (Fin n)) :
    topsisQ μ (fun i j => A i (τ j)) (fun j => o (τ j)) (fun j => w (τ j)) = topsisQ μ A o w := by
  funext i; exact similarityWith_col_perm (distQ_permInvariant μ) A o w τ i
end cols

theorem topsis_col_perm [NeZero m] [NeZero n] (μ : Metric) (A : Mat m n ℝ) (o : Vec n Obj) (w : Vec n ℝ)
    (τ : Equiv.Perm (Fin n)) :
    topsis μ (fun i j => A i (τ j)) (fun j => o (τ j)) (fun j => w (τ j)) = topsis μ A o w := by
  funext i; exact similarityWith_col_perm (dist_permInvariant μ) A o w τ i

theorem wpm_col_perm (A : Mat m n ℝ) (w : Vec n ℝ) (τ : Equiv.Perm (Fin n)) :
    wpm (fun i j => A i (τ j)) (fun j => w (τ j)) = wpm A w := by
  funext i; exact sumFin_perm (fun j => MathFns.log10 (A i j) * w j) τ

theorem fmf_col_perm (A : Mat m n ℝ) (o : Vec n Obj) (w : Vec n ℝ) (τ : Equiv.Perm (Fin n)) :
    fmfCode (fun i j => A i (τ j)) (fun j => o (τ j)) (fun j => w (τ j)) = fmfCode A o w := by
  funext i
  unfold fmfCode
  have h1 := anyFin_perm (fun j => decide (o j = .max)) τ
  have h2 := anyFin_perm (fun j => decide (o j = .min)) τ
  have s1 := sumFin_perm (fun j => if o j = .max then MathFns.log (A i j * w j) else 0) τ
  have s2 := sumFin_perm (fun j => if o j = .min then MathFns.log (A i j * w j) else 0) τ
  simp only [h1, h2, s1, s2]

/-! ## 3. every weight multiplied by the same `c > 0` -/
section scale
variable {α : Type} [Field α] [LinearOrder α] [IsStrictOrderedRing α]

/-- WSM: the score is multiplied by `c` -/
theorem wsm_weight_scale (A : Mat m n α) (w : Vec n α) (c : α) (i : Fin m) :
    wsm A (fun j => c * w j) i = c * wsm A w i := by
  unfold wsm; rw [← sumFin_mul_left]; congr 1; funext j; ring

/-- RatioMOORA: the score is multiplied by `c` -/
theorem ratio_weight_scale (A : Mat m n α) (o : Vec n Obj) (w : Vec n α) (c : α) (i : Fin m) :
    ratio A o (fun j => c * w j) i = c * ratio A o w i := by
  unfold ratio; rw [← sumFin_mul_left]; congr 1; funext j; ring

/-- ReferencePointMOORA: the score is multiplied by `c` -/
theorem refpoint_weight_scale [NeZero m] [NeZero n] (A : Mat m n α) (o : Vec n Obj) (w : Vec n α) {c : α} (hc : 0 < c)
    (i : Fin m) : refpoint A o (fun j => c * w j) i = c * refpoint A o w i := by
  unfold refpoint
  rw [← maxFin_mul_left hc.le]; congr 1; funext j
  rw [mul_assoc]; exact absv_mul_left hc.le _

/-- TOPSIS (field metrics): the similarity is unchanged — distances to ideal and anti-ideal are both
multiplied by `c` (by `c²` for `sqeuclidean`), and `k·d⁻ / (k·d⁺ + k·d⁻) = d⁻ / (d⁺ + d⁻)` is field
algebra for `k ≠ 0`.  No hypothesis `d⁺ + d⁻ ≠ 0` is needed: in the degenerate case both sides are
the model's `0/0` (the code reports NaN in both presentations; `topsisQ_degenerate_weight_scale`). -/
theorem topsisQ_weight_scale [NeZero m] [NeZero n] (μ : Metric) (A : Mat m n α) (o : Vec n Obj) (w : Vec n α) {c : α}
    (hc : 0 < c) (i : Fin m) : topsisQ μ A o (fun j => c * w j) i = topsisQ μ A o w i := by
  unfold topsisQ similarityWith
  have hI : ideal A o (fun j => c * w j) = fun j => c * ideal A o w j := funext (ideal_scale hc.le A o w)
  have hA : antiIdeal A o (fun j => c * w j) = fun j => c * antiIdeal A o w j := funext (antiIdeal_scale hc.le A o w)
  have hW : weighted A (fun j => c * w j) i = fun j => c * weighted A w i j := by rw [weighted_scale]
  simp only [hI, hA, hW, distQ_scale μ hc.le]
  exact closeness_scale (by split <;> positivity) _ _

/-- the degenerate case `d⁺ + d⁻ = 0` (all weighted rows equal) is itself invariant -/
theorem topsisQ_degenerate_weight_scale [NeZero m] [NeZero n] (μ : Metric) (A : Mat m n α) (o : Vec n Obj) (w : Vec n α)
    {c : α} (hc : 0 < c) (i : Fin m) :
    distQ μ (weighted A (fun j => c * w j) i) (ideal A o (fun j => c * w j)) +
        distQ μ (weighted A (fun j => c * w j) i) (antiIdeal A o (fun j => c * w j)) = 0 ↔
      distQ μ (weighted A w i) (ideal A o w) + distQ μ (weighted A w i) (antiIdeal A o w) = 0 := by
  have hI : ideal A o (fun j => c * w j) = fun j => c * ideal A o w j := funext (ideal_scale hc.le A o w)
  have hA : antiIdeal A o (fun j => c * w j) = fun j => c * antiIdeal A o w j := funext (antiIdeal_scale hc.le A o w)
  have hW : weighted A (fun j => c * w j) i = fun j => c * weighted A w i j := by rw [weighted_scale]
  simp only [hI, hA, hW, distQ_scale μ hc.le, ← mul_add]
  have hk : (if μ = .cityblock ∨ μ = .chebyshev then c else c * c) ≠ 0 := by split <;> positivity
  rw [mul_eq_zero]; simp only [hk, false_or]
end scale

/-- TOPSIS over `ℝ`, every metric (Euclidean: `sqrt (c²·S) = c·sqrt S`) -/
theorem topsis_weight_scale [NeZero m] [NeZero n] (μ : Metric) (A : Mat m n ℝ) (o : Vec n Obj) (w : Vec n ℝ) {c : ℝ}
    (hc : 0 < c) (i : Fin m) : topsis μ A o (fun j => c * w j) i = topsis μ A o w i := by
  unfold topsis similarityWith
  have hI : ideal A o (fun j => c * w j) = fun j => c * ideal A o w j := funext (ideal_scale hc.le A o w)
  have hA : antiIdeal A o (fun j => c * w j) = fun j => c * antiIdeal A o w j := funext (antiIdeal_scale hc.le A o w)
  have hW : weighted A (fun j => c * w j) i = fun j => c * weighted A w i j := by rw [weighted_scale]
  simp only [hI, hA, hW, dist_scale μ hc.le]
  exact closeness_scale (by split <;> positivity) _ _

/-- WPM (log form): the score is multiplied by `c` -/
theorem wpm_weight_scale (A : Mat m n ℝ) (w : Vec n ℝ) (c : ℝ) (i : Fin m) :
    wpm A (fun j => c * w j) i = c * wpm A w i := by
  unfold wpm; rw [← sumFin_mul_left]; congr 1; funext j; ring

/-- FullMultiplicativeForm (log form, as coded): every score moves by the same constant
`(#maximise − #minimise) · log c` -/
theorem fmf_weight_scale (A : Mat m n ℝ) (o : Vec n Obj) (w : Vec n ℝ) (hAw : ∀ i j, A i j * w j ≠ 0) {c : ℝ} (hc : 0 < c)
    (i : Fin m) :
    fmfCode A o (fun j => c * w j) i =
      fmfCode A o w i + (((univ.filter fun j => o j = .max).card : ℝ) - (univ.filter fun j => o j = .min).card) * Real.log c := by
  have hlog : ∀ j, Real.log (A i j * (c * w j)) = Real.log c + Real.log (A i j * w j) := by
    intro j
    rw [show A i j * (c * w j) = c * (A i j * w j) by ring, Real.log_mul hc.ne' (hAw i j)]
  unfold fmfCode
  simp only [log_real, hlog, sumFin_ite_add_const]
  have hcard : ∀ x : Obj, anyFin (fun j => decide (o j = x)) ≠ true → ((univ.filter fun j => o j = x).card : ℝ) = 0 := by
    intro x hx
    have : (univ.filter fun j => o j = x) = ∅ := by
      ext j; simp only [mem_filter, mem_univ, true_and, notMem_empty, iff_false]
      intro hj; apply hx; rw [anyFin_iff]; exact ⟨j, by simpa using hj⟩
    rw [this]; simp
  by_cases h1 : anyFin (fun j => decide (o j = .max)) = true <;>
  by_cases h2 : anyFin (fun j => decide (o j = .min)) = true <;>
  simp only [h1, h2, if_true, if_false, Bool.false_eq_true] <;>
  (try rw [hcard .max h1]) <;> (try rw [hcard .min h2]) <;> ring

/-! ## 4. dense ranks -/
section ranks
variable {α : Type} [Field α] [LinearOrder α] [IsStrictOrderedRing α]

/-- `rankVec rev s` *is* `rank_values(s, reverse=rev)`, entry by entry -/
theorem rank_values_ofFn (rev : Bool) (s : Fin m → α) : rankValues rev (List.ofFn s) = List.ofFn (rankVec rev s) :=
  rankValues_ofFn rev s

/-- the dense rank of a value depends only on the set of scores, not on their order -/
theorem rankOf_set {β : Type} [LinearOrder β] {s t : List β} (h : s.Perm t) (x : β) : rankOf s x = rankOf t x :=
  rankOf_perm h x

/-- listing the scores in another order: every named alternative keeps its rank -/
theorem denseRank_row_perm {β : Type} [LinearOrder β] (s : Fin m → β) (σ : Equiv.Perm (Fin m)) :
    denseRank (List.ofFn fun i => s (σ i)) = List.ofFn fun i => rankOf (List.ofFn s) (s (σ i)) := by
  unfold denseRank
  rw [List.map_ofFn]
  congr 1; funext i
  exact rankOf_congr_toFinset (toFinset_ofFn_perm s σ) _

/-- the same for `rank_values` in both directions -/
theorem rank_row_perm (rev : Bool) (s : Fin m → α) (σ : Equiv.Perm (Fin m)) (i : Fin m) :
    rankVec rev (fun i => s (σ i)) i = rankVec rev s (σ i) := rankVec_perm rev s σ i

/-- a strictly increasing change of the scores leaves `rank_values` unchanged … -/
theorem rank_strictMono {f : α → α} (hf : StrictMono f) (rev : Bool) (s : List α) :
    rankValues rev (s.map f) = rankValues rev s := rankValues_map_strictMono hf rev s

/-- … in particular multiplying every score by `c > 0` … -/
theorem rank_mul_pos {c : α} (hc : 0 < c) (rev : Bool) (s : Fin m → α) : rankVec rev (fun i => c * s i) = rankVec rev s :=
  rankVec_map_strictMono (f := fun x => c * x) (fun a b h => mul_lt_mul_of_pos_left h hc) rev s

/-- … and adding the same constant to every score -/
theorem rank_add_const (k : α) (rev : Bool) (s : Fin m → α) : rankVec rev (fun i => s i + k) = rankVec rev s :=
  rankVec_map_strictMono (f := fun x => x + k) (fun a b h => by dsimp only; linarith) rev s

/-! ### corollaries: the ranking of each method -/

theorem wsm_rank_row_perm (A : Mat m n α) (w : Vec n α) (σ : Equiv.Perm (Fin m)) (i : Fin m) :
    rankVec true (wsm (fun i => A (σ i)) w) i = rankVec true (wsm A w) (σ i) :=
  rankVec_perm true (wsm A w) σ i
theorem ratio_rank_row_perm (A : Mat m n α) (o : Vec n Obj) (w : Vec n α) (σ : Equiv.Perm (Fin m)) (i : Fin m) :
    rankVec true (ratio (fun i => A (σ i)) o w) i = rankVec true (ratio A o w) (σ i) :=
  rankVec_perm true (ratio A o w) σ i
theorem refpoint_rank_row_perm [NeZero m] [NeZero n] (A : Mat m n α) (o : Vec n Obj) (w : Vec n α)
    (σ : Equiv.Perm (Fin m)) (i : Fin m) :
    rankVec false (refpoint (fun i => A (σ i)) o w) i = rankVec false (refpoint A o w) (σ i) := by
  rw [show refpoint (fun i => A (σ i)) o w = fun i => refpoint A o w (σ i) from funext (refpoint_row_perm A o w σ)]
  exact rankVec_perm false (refpoint A o w) σ i
theorem topsisQ_rank_row_perm [NeZero m] [NeZero n] (μ : Metric) (A : Mat m n α) (o : Vec n Obj) (w : Vec n α)
    (σ : Equiv.Perm (Fin m)) (i : Fin m) :
    rankVec true (topsisQ μ (fun i => A (σ i)) o w) i = rankVec true (topsisQ μ A o w) (σ i) := by
  rw [show topsisQ μ (fun i => A (σ i)) o w = fun i => topsisQ μ A o w (σ i) from funext (topsisQ_row_perm μ A o w σ)]
  exact rankVec_perm true (topsisQ μ A o w) σ i

theorem wsm_rank_weight_scale (A : Mat m n α) (w : Vec n α) {c : α} (hc : 0 < c) :
    rankVec true (wsm A fun j => c * w j) = rankVec true (wsm A w) := by
  rw [show wsm A (fun j => c * w j) = fun i => c * wsm A w i from funext (wsm_weight_scale A w c)]
  exact rank_mul_pos hc true _
theorem ratio_rank_weight_scale (A : Mat m n α) (o : Vec n Obj) (w : Vec n α) {c : α} (hc : 0 < c) :
    rankVec true (ratio A o fun j => c * w j) = rankVec true (ratio A o w) := by
  rw [show ratio A o (fun j => c * w j) = fun i => c * ratio A o w i from funext (ratio_weight_scale A o w c)]
  exact rank_mul_pos hc true _
theorem refpoint_rank_weight_scale [NeZero m] [NeZero n] (A : Mat m n α) (o : Vec n Obj) (w : Vec n α) {c : α} (hc : 0 < c) :
    rankVec false (refpoint A o fun j => c * w j) = rankVec false (refpoint A o w) := by
  rw [show refpoint A o (fun j => c * w j) = fun i => c * refpoint A o w i from funext (refpoint_weight_scale A o w hc)]
  exact rank_mul_pos hc false _
theorem topsisQ_rank_weight_scale [NeZero m] [NeZero n] (μ : Metric) (A : Mat m n α) (o : Vec n Obj) (w : Vec n α) {c : α}
    (hc : 0 < c) : rankVec true (topsisQ μ A o fun j => c * w j) = rankVec true (topsisQ μ A o w) := by
  rw [show topsisQ μ A o (fun j => c * w j) = topsisQ μ A o w from funext (topsisQ_weight_scale μ A o w hc)]
end ranks

theorem topsis_rank_row_perm [NeZero m] [NeZero n] (μ : Metric) (A : Mat m n ℝ) (o : Vec n Obj) (w : Vec n ℝ)
    (σ : Equiv.Perm (Fin m)) (i : Fin m) :
    rankVec true (topsis μ (fun i => A (σ i)) o w) i = rankVec true (topsis μ A o w) (σ i) := by
  rw [show topsis μ (fun i => A (σ i)) o w = fun i => topsis μ A o w (σ i) from funext (topsis_row_perm μ A o w σ)]
  exact rankVec_perm true (topsis μ A o w) σ i
theorem wpm_rank_row_perm (A : Mat m n ℝ) (w : Vec n ℝ) (σ : Equiv.Perm (Fin m)) (i : Fin m) :
    rankVec true (wpm (fun i => A (σ i)) w) i = rankVec true (wpm A w) (σ i) :=
  rankVec_perm true (wpm A w) σ i
theorem fmf_rank_row_perm (A : Mat m n ℝ) (o : Vec n Obj) (w : Vec n ℝ) (σ : Equiv.Perm (Fin m)) (i : Fin m) :
    rankVec true (fmfCode (fun i => A (σ i)) o w) i = rankVec true (fmfCode A o w) (σ i) :=
  rankVec_perm true (fmfCode A o w) σ i

theorem topsis_rank_weight_scale [NeZero m] [NeZero n] (μ : Metric) (A : Mat m n ℝ) (o : Vec n Obj) (w : Vec n ℝ) {c : ℝ}
    (hc : 0 < c) : rankVec true (topsis μ A o fun j => c * w j) = rankVec true (topsis μ A o w) := by
  rw [show topsis μ A o (fun j => c * w j) = topsis μ A o w from funext (topsis_weight_scale μ A o w hc)]
theorem wpm_rank_weight_scale (A : Mat m n ℝ) (w : Vec n ℝ) {c : ℝ} (hc : 0 < c) :
    rankVec true (wpm A fun j => c * w j) = rankVec true (wpm A w) := by
  rw [show wpm A (fun j => c * w j) = fun i => c * wpm A w i from funext (wpm_weight_scale A w c)]
  exact rank_mul_pos hc true _
theorem fmf_rank_weight_scale (A : Mat m n ℝ) (o : Vec n Obj) (w : Vec n ℝ) (hAw : ∀ i j, A i j * w j ≠ 0) {c : ℝ}
    (hc : 0 < c) : rankVec true (fmfCode A o fun j => c * w j) = rankVec true (fmfCode A o w) := by
  rw [show fmfCode A o (fun j => c * w j) = fun i => fmfCode A o w i +
      (((univ.filter fun j => o j = .max).card : ℝ) - (univ.filter fun j => o j = .min).card) * Real.log c
    from funext (fmf_weight_scale A o w hAw hc)]
  exact rank_add_const _ true _

/-! criteria in another order: the score vectors are *equal* (section 2), so every ranking computed from
them is equal too — there is nothing further to state. -/

/-! ## 5. MultiMOORA: rank matrix and pairwise-dominance score -/

/-! `multimooraRows A o w i` (defined in `Skc/Proofs/Perm.lean`) is row `i` of the rank matrix: the ranks of alternative `i`
under RatioMOORA, ReferencePointMOORA (lower is better) and FullMultiplicativeForm. -/

/-- `rank_matrix = np.vstack([ratio_rank, refpoint_rank, fmf_rank]).T` has these rows -/
theorem multimoora_rank_matrix [NeZero m] [NeZero n] (A : Mat m n ℝ) (o : Vec n Obj) (w : Vec n ℝ) :
    rankMatrix (rankValues true (List.ofFn (ratio A o w))) (rankValues false (List.ofFn (refpoint A o w)))
      (rankValues true (List.ofFn (fmfCode A o w))) = List.ofFn (multimooraRows A o w) := by
  rw [rankValues_ofFn, rankValues_ofFn, rankValues_ofFn, rankMatrix_ofFn]; rfl

/-- alternatives in another order: the rows of the rank matrix follow the alternatives … -/
theorem multimoora_rows_row_perm [NeZero m] [NeZero n] (A : Mat m n ℝ) (o : Vec n Obj) (w : Vec n ℝ)
    (σ : Equiv.Perm (Fin m)) (i : Fin m) :
    multimooraRows (fun i => A (σ i)) o w i = multimooraRows A o w (σ i) := by
  unfold multimooraRows
  rw [ratio_rank_row_perm, refpoint_rank_row_perm, fmf_rank_row_perm]

/-- … and so does the pairwise-dominance score computed from it (the loop over `combinations(range(m), 2)`
credits `idx_a if aDb > bDa else idx_b`, which could depend on which of the two comes first: it does not) -/
theorem multimoora_row_perm [NeZero m] [NeZero n] (A : Mat m n ℝ) (o : Vec n Obj) (w : Vec n ℝ)
    (σ : Equiv.Perm (Fin m)) (i : Fin m) :
    (multimooraScore (List.ofFn (multimooraRows (fun i => A (σ i)) o w))).getD i.val 0 =
      (multimooraScore (List.ofFn (multimooraRows A o w))).getD (σ i).val 0 := by
  rw [show multimooraRows (fun i => A (σ i)) o w = fun i => multimooraRows A o w (σ i)
    from funext (multimoora_rows_row_perm A o w σ)]
  exact multimooraScore_row_perm' (multimooraRows A o w) (fun _ => rfl) σ i

/-- the score for any rank matrix with three columns, whatever produced it -/
theorem multimoora_score_row_perm (R : Fin m → List ℕ) (h3 : ∀ i, (R i).length = 3) (σ : Equiv.Perm (Fin m)) (i : Fin m) :
    (multimooraScore (List.ofFn fun i => R (σ i))).getD i.val 0 = (multimooraScore (List.ofFn R)).getD (σ i).val 0 :=
  multimooraScore_row_perm' R h3 σ i

/-- criteria in another order: same rank matrix, hence same score -/
theorem multimoora_col_perm [NeZero m] [NeZero n] (A : Mat m n ℝ) (o : Vec n Obj) (w : Vec n ℝ) (τ : Equiv.Perm (Fin n)) :
    multimooraRows (fun i j => A i (τ j)) (fun j => o (τ j)) (fun j => w (τ j)) = multimooraRows A o w := by
  unfold multimooraRows
  rw [ratio_col_perm, refpoint_col_perm, fmf_col_perm]

/-- weights multiplied by `c > 0` (positive data and weights, MultiMOORA's domain): same rank matrix -/
theorem multimoora_weight_scale [NeZero m] [NeZero n] (A : Mat m n ℝ) (o : Vec n Obj) (w : Vec n ℝ)
    (hAw : ∀ i j, A i j * w j ≠ 0) {c : ℝ} (hc : 0 < c) :
    multimooraRows A o (fun j => c * w j) = multimooraRows A o w := by
  unfold multimooraRows
  rw [ratio_rank_weight_scale A o w hc, refpoint_rank_weight_scale A o w hc, fmf_rank_weight_scale A o w hAw hc]

/-! ## 6. names: the kernels never see a label; `evaluate` pairs names and values by position -/

/-- renaming the alternatives by `f` renames the result's alternatives by `f` and leaves the values alone
(the kernels above take no names at all: parametric by construction) -/
theorem evaluate_relabel {β : Type} (f : String → String) (alts : List String) (values : List β) :
    (mkResult (alts.map f) values).alts = (mkResult alts values).alts.map f ∧
    (mkResult (alts.map f) values).values = (mkResult alts values).values := ⟨rfl, rfl⟩

/-- with an injective renaming, asking the renamed result for `f a` gives what the original gives for `a` -/
theorem evaluate_relabel_lookup {β : Type} {f : String → String} (hf : Function.Injective f) (alts : List String)
    (values : List β) (a : String) :
    (mkResult (alts.map f) values).valueOf (f a) = (mkResult alts values).valueOf a :=
  lookup_zip_map_inj hf a alts values

/-- alternatives listed in another order, values computed by an order-equivariant method
(`v' i = v (σ i)`: sections 1 and 4): looked up *by name*, the two results agree -/
theorem evaluate_row_perm_by_name {β : Type} (alts : Fin m → String) (ha : Function.Injective alts) (v : Fin m → β)
    (σ : Equiv.Perm (Fin m)) (k : Fin m) :
    (mkResult (List.ofFn fun i => alts (σ i)) (List.ofFn fun i => v (σ i))).valueOf (alts k) =
      (mkResult (List.ofFn alts) (List.ofFn v)).valueOf (alts k) := by
  rw [valueOf_ofFn alts ha v k]
  have h := valueOf_ofFn (fun i => alts (σ i)) (ha.comp σ.injective) (fun i => v (σ i)) (σ.symm k)
  simpa using h

/-! ## ELECTRE: the outranking relations follow the alternatives and ignore the order of criteria -/
section electre
open Skc.Electre
variable {α : Type} [Field α] [LinearOrder α] [IsStrictOrderedRing α]

/-- listing the alternatives in another order: concordance of the pair of *named* alternatives is unchanged -/
theorem concordance_row_perm (A : Mat m n α) (o : Vec n Obj) (w : Vec n α) (σ : Equiv.Perm (Fin m)) (a b : Fin m) :
    concordance (fun i => A (σ i)) o w a b = concordance A o w (σ a) (σ b) := by
  unfold concordance
  simp only [σ.injective.eq_iff]
theorem discordance_row_perm [NeZero m] [NeZero n] (A : Mat m n α) (o : Vec n Obj) (σ : Equiv.Perm (Fin m)) (a b : Fin m) :
    discordance (fun i => A (σ i)) o a b = discordance A o (σ a) (σ b) := by
  unfold discordance
  simp only [σ.injective.eq_iff, maxRange_row_perm]

/-- listing the criteria (with their objectives and weights) in another order changes neither -/
theorem concordance_col_perm (A : Mat m n α) (o : Vec n Obj) (w : Vec n α) (τ : Equiv.Perm (Fin n)) (a b : Fin m) :
    concordance (fun i j => A i (τ j)) (o ∘ τ) (w ∘ τ) a b = concordance A o w a b := by
  unfold concordance
  split
  · rfl
  · congr 1
    exact sumFin_comp_perm (fun j => if concMask (o j) (A a j) (A b j) then w j else 0) τ
theorem discordance_col_perm [NeZero m] [NeZero n] (A : Mat m n α) (o : Vec n Obj) (τ : Equiv.Perm (Fin n)) (a b : Fin m) :
    discordance (fun i j => A i (τ j)) (o ∘ τ) a b = discordance A o a b := by
  unfold discordance
  split
  · rfl
  · congr 1
    rw [maxRange_col_perm]
    exact maxFin_comp_perm (fun j => absv (if discMask (o j) (A a j) (A b j) then A b j - A a j else 0) / maxRange A) τ

/-- ELECTRE1: the outranking relation and kernel membership follow the alternative … -/
theorem electre1_outrank_row_perm [NeZero m] [NeZero n] (A : Mat m n α) (o : Vec n Obj) (w : Vec n α) (p q : α)
    (σ : Equiv.Perm (Fin m)) (a b : Fin m) :
    electre1Outrank (fun i => A (σ i)) o w p q a b = electre1Outrank A o w p q (σ a) (σ b) := by
  unfold electre1Outrank; rw [concordance_row_perm, discordance_row_perm]
theorem electre1_kernel_row_perm [NeZero m] [NeZero n] (A : Mat m n α) (o : Vec n Obj) (w : Vec n α) (p q : α)
    (σ : Equiv.Perm (Fin m)) (b : Fin m) :
    electre1Kernel (fun i => A (σ i)) o w p q b = electre1Kernel A o w p q (σ b) := by
  unfold electre1Kernel
  congr 1
  rw [Bool.eq_iff_iff, anyFin_iff, anyFin_iff]
  simp only [electre1_outrank_row_perm]
  constructor
  · rintro ⟨a, ha⟩; exact ⟨σ a, ha⟩
  · rintro ⟨a, ha⟩; exact ⟨σ.symm a, by simpa using ha⟩
/-- … and do not depend on the order of the criteria -/
theorem electre1_outrank_col_perm [NeZero m] [NeZero n] (A : Mat m n α) (o : Vec n Obj) (w : Vec n α) (p q : α)
    (τ : Equiv.Perm (Fin n)) (a b : Fin m) :
    electre1Outrank (fun i j => A i (τ j)) (o ∘ τ) (w ∘ τ) p q a b = electre1Outrank A o w p q a b := by
  unfold electre1Outrank; rw [concordance_col_perm, discordance_col_perm]
theorem electre1_kernel_col_perm [NeZero m] [NeZero n] (A : Mat m n α) (o : Vec n Obj) (w : Vec n α) (p q : α)
    (τ : Equiv.Perm (Fin n)) (b : Fin m) :
    electre1Kernel (fun i j => A i (τ j)) (o ∘ τ) (w ∘ τ) p q b = electre1Kernel A o w p q b := by
  unfold electre1Kernel; simp only [electre1_outrank_col_perm]

/-- ELECTRE2's weight-comparison relation (as specified and as coded) and hence its strong / weak
graphs follow the alternatives and ignore the order of the criteria -/
theorem wor_row_perm (A : Mat m n α) (o : Vec n Obj) (w : Vec n α) (σ : Equiv.Perm (Fin m)) (a b : Fin m) :
    worSpec (fun i => A (σ i)) o w a b = worSpec A o w (σ a) (σ b) ∧
    worCode (fun i => A (σ i)) o w a b = worCode A o w (σ a) (σ b) := by
  unfold worSpec worCode worBody
  simp only [σ.injective.eq_iff, and_self]
theorem wor_col_perm (A : Mat m n α) (o : Vec n Obj) (w : Vec n α) (τ : Equiv.Perm (Fin n)) (a b : Fin m) :
    worSpec (fun i j => A i (τ j)) (o ∘ τ) (w ∘ τ) a b = worSpec A o w a b ∧
    worCode (fun i j => A i (τ j)) (o ∘ τ) (w ∘ τ) a b = worCode A o w a b := by
  unfold worSpec worCode
  exact ⟨worBody_col_perm w (fun j => decide (o j = .max)) A τ a b,
         worBody_col_perm (fun j => (o j).sgn) (fun j => decide (w j = 1)) A τ a b⟩

/-! ### ELECTRE2 distillation under a relabelling of the alternatives
`Relabel m π`: `π` permutes the indices `0..m-1` (the row permutation `σ`, read on indices).  The
graphs of the permuted problem are `S' a b = S (π a) (π b)` (by `wor_row_perm`, `concordance_row_perm`,
`discordance_row_perm` the strong / weak graphs of the permuted matrix are exactly of this form). -/

/-- the direct ranking follows the alternatives: whatever order they are listed in, the alternative
at position `i` of the permuted problem gets the rank of alternative `π i` of the original problem -/
theorem electre2_direct_relabel (S W : Graph) (k : ℕ) (π : ℕ → ℕ) (h : Relabel k π) (i : ℕ) (hi : i < k) :
    (rankerDirect (fun a b => S (π a) (π b)) (fun a b => W (π a) (π b)) k).getD i 0 = (rankerDirect S W k).getD (π i) 0 :=
  rankerDirect_relabel S W k π h i hi
/-- … and so do the inverse ranking … -/
theorem electre2_inverted_relabel (S W : Graph) (k : ℕ) (π : ℕ → ℕ) (h : Relabel k π) (i : ℕ) (hi : i < k) :
    (rankerInverted (fun a b => S (π a) (π b)) (fun a b => W (π a) (π b)) k).getD i 0 = (rankerInverted S W k).getD (π i) 0 :=
  rankerInverted_relabel S W k π h i hi
/-- … and the final ranking (dense rank of the mean of the two) -/
theorem electre2_rank_relabel (d iv : List ℕ) (k : ℕ) (hd : d.length = k) (hiv : iv.length = k)
    (π : ℕ → ℕ) (h : Relabel k π) (i : ℕ) (hi : i < k) :
    (electre2Rank ((List.range k).map fun j => d.getD (π j) 0) ((List.range k).map fun j => iv.getD (π j) 0)).getD i 0 =
      (electre2Rank d iv).getD (π i) 0 :=
  electre2Rank_relabel d iv k hd hiv π h i hi
/-- a permutation `σ` of `Fin k` read on indices is a relabelling -/
theorem relabel_of_perm (k : ℕ) (σ : Equiv.Perm (Fin k)) :
    Relabel k (fun i => if h : i < k then (σ ⟨i, h⟩).val else i) := by
  constructor
  · apply (List.perm_ext_iff_of_nodup List.nodup_range ?_).mpr
    · intro x
      simp only [List.mem_range, List.mem_map]
      constructor
      · intro hx
        refine ⟨(σ.symm ⟨x, hx⟩).val, (σ.symm ⟨x, hx⟩).isLt, ?_⟩
        simp
      · rintro ⟨y, hy, rfl⟩
        simp [hy]
    · refine List.Nodup.map_on ?_ List.nodup_range
      intro a ha b hb hab
      have ha' := List.mem_range.mp ha; have hb' := List.mem_range.mp hb
      simp only [ha', hb', dif_pos] at hab
      have := σ.injective (Fin.ext hab)
      exact Fin.mk.inj_iff.mp this
  · intro a ha b hb hab
    have ha' := List.mem_range.mp ha; have hb' := List.mem_range.mp hb
    simp only [ha', hb', dif_pos] at hab
    have := σ.injective (Fin.ext hab)
    exact Fin.mk.inj_iff.mp this
end electre

/-! ## 7. transformers: pipelines that put scalers, objective inverters and weighters in front of a method

`σ` lists the alternatives in another order, `τ` the criteria together with their objectives and
weights.  Model: `Skc/Model/Scalers.lean` (`…M` is the call a class makes for the matrix, `axis=0`;
`…V` the call it makes for the weights, `axis=None`; the scikit-learn estimators see the weights as
one column, `runSklearnV`).  Kernels with a square root (`scaleByVector…`, `standardScale`) are stated
for any field with a `MathFns` instance — `ℝ` with `Real.sqrt` (`instMathFnsReal`) is one: nothing about
`sqrt` is used except that it is a function. -/
section transformers
open Skc.Scalers

section field
variable {α : Type} [Field α] [LinearOrder α] [IsStrictOrderedRing α]

/-! ### 7.1 the matrix: every cell follows its alternative (`σ`) and its criterion (`τ`)
Row statements: the per-criterion reductions (`np.sum`, `np.max`, `np.min`, `np.any` along `axis=0`)
do not depend on the order of the alternatives.  Column statements: output column `j` is computed
from input column `j` (and objective `j`) alone, so they hold by unfolding. -/

/-- SumScaler -/
theorem sumScale_row_perm (A : Mat m n α) (σ : Equiv.Perm (Fin m)) (i : Fin m) (j : Fin n) :
    scaleBySumM (fun i => A (σ i)) i j = scaleBySumM A (σ i) j := scaleBySumM_rowPerm A σ i j
theorem sumScale_col_perm (A : Mat m n α) (τ : Equiv.Perm (Fin n)) (i : Fin m) (j : Fin n) :
    scaleBySumM (fun i j => A i (τ j)) i j = scaleBySumM A i (τ j) := rfl

/-- VectorScaler -/
theorem vectorScale_row_perm [MathFns α] (A : Mat m n α) (σ : Equiv.Perm (Fin m)) (i : Fin m) (j : Fin n) :
    scaleByVectorM (fun i => A (σ i)) i j = scaleByVectorM A (σ i) j := scaleByVectorM_rowPerm A σ i j
theorem vectorScale_col_perm [MathFns α] (A : Mat m n α) (τ : Equiv.Perm (Fin n)) (i : Fin m) (j : Fin n) :
    scaleByVectorM (fun i j => A i (τ j)) i j = scaleByVectorM A i (τ j) := rfl

/-- MaxAbsScaler -/
theorem maxAbsScale_row_perm [NeZero m] (A : Mat m n α) (σ : Equiv.Perm (Fin m)) (i : Fin m) (j : Fin n) :
    maxAbsScale (fun i => A (σ i)) i j = maxAbsScale A (σ i) j := maxAbsScale_rowPerm A σ i j
theorem maxAbsScale_col_perm [NeZero m] (A : Mat m n α) (τ : Equiv.Perm (Fin n)) (i : Fin m) (j : Fin n) :
    maxAbsScale (fun i j => A i (τ j)) i j = maxAbsScale A i (τ j) := rfl

/-- MinMaxScaler (any `criteria_range`, with or without `clip`) -/
theorem minMaxScale_row_perm [NeZero m] (lo hi : α) (clip : Bool) (A : Mat m n α) (σ : Equiv.Perm (Fin m))
    (i : Fin m) (j : Fin n) :
    minMaxScale lo hi clip (fun i => A (σ i)) i j = minMaxScale lo hi clip A (σ i) j :=
  minMaxScale_rowPerm lo hi clip A σ i j
theorem minMaxScale_col_perm [NeZero m] (lo hi : α) (clip : Bool) (A : Mat m n α) (τ : Equiv.Perm (Fin n))
    (i : Fin m) (j : Fin n) :
    minMaxScale lo hi clip (fun i j => A i (τ j)) i j = minMaxScale lo hi clip A i (τ j) := rfl

/-- StandarScaler (any `with_mean` / `with_std`) -/
theorem standardScale_row_perm [MathFns α] (withMean withStd : Bool) (A : Mat m n α) (σ : Equiv.Perm (Fin m))
    (i : Fin m) (j : Fin n) :
    standardScale withMean withStd (fun i => A (σ i)) i j = standardScale withMean withStd A (σ i) j :=
  standardScale_rowPerm withMean withStd A σ i j
theorem standardScale_col_perm [MathFns α] (withMean withStd : Bool) (A : Mat m n α) (τ : Equiv.Perm (Fin n))
    (i : Fin m) (j : Fin n) :
    standardScale withMean withStd (fun i j => A i (τ j)) i j = standardScale withMean withStd A i (τ j) := rfl

/-- CenitDistanceMatrixScaler (reads the objectives: they travel with the criteria) -/
theorem cenitScale_row_perm [NeZero m] (A : Mat m n α) (o : Vec n Obj) (σ : Equiv.Perm (Fin m)) (i : Fin m) (j : Fin n) :
    cenitScale (fun i => A (σ i)) o i j = cenitScale A o (σ i) j := cenitScale_rowPerm A o σ i j
theorem cenitScale_col_perm [NeZero m] (A : Mat m n α) (o : Vec n Obj) (τ : Equiv.Perm (Fin n)) (i : Fin m) (j : Fin n) :
    cenitScale (fun i j => A i (τ j)) (o ∘ τ) i j = cenitScale A o i (τ j) := rfl

/-- PushNegatives -/
theorem pushNegatives_row_perm [NeZero m] (A : Mat m n α) (σ : Equiv.Perm (Fin m)) (i : Fin m) (j : Fin n) :
    pushNegativesM (fun i => A (σ i)) i j = pushNegativesM A (σ i) j := pushNegativesM_rowPerm A σ i j
theorem pushNegatives_col_perm [NeZero m] (A : Mat m n α) (τ : Equiv.Perm (Fin n)) (i : Fin m) (j : Fin n) :
    pushNegativesM (fun i j => A i (τ j)) i j = pushNegativesM A i (τ j) := rfl

/-- AddValueToZero -/
theorem addValueToZero_row_perm (v : α) (A : Mat m n α) (σ : Equiv.Perm (Fin m)) (i : Fin m) (j : Fin n) :
    addValueToZeroM v (fun i => A (σ i)) i j = addValueToZeroM v A (σ i) j := addValueToZeroM_rowPerm v A σ i j
theorem addValueToZero_col_perm (v : α) (A : Mat m n α) (τ : Equiv.Perm (Fin n)) (i : Fin m) (j : Fin n) :
    addValueToZeroM v (fun i j => A i (τ j)) i j = addValueToZeroM v A i (τ j) := rfl

/-- NegateMinimize / InvertMinimize: cell-wise, steered by the criterion's own objective -/
theorem negateMinimize_row_perm (A : Mat m n α) (o : Vec n Obj) (σ : Equiv.Perm (Fin m)) (i : Fin m) (j : Fin n) :
    negateMinimize (fun i => A (σ i)) o i j = negateMinimize A o (σ i) j := rfl
theorem negateMinimize_col_perm (A : Mat m n α) (o : Vec n Obj) (τ : Equiv.Perm (Fin n)) (i : Fin m) (j : Fin n) :
    negateMinimize (fun i j => A i (τ j)) (o ∘ τ) i j = negateMinimize A o i (τ j) := rfl
theorem invertMinimize_row_perm (A : Mat m n α) (o : Vec n Obj) (σ : Equiv.Perm (Fin m)) (i : Fin m) (j : Fin n) :
    invertMinimize (fun i => A (σ i)) o i j = invertMinimize A o (σ i) j := rfl
theorem invertMinimize_col_perm (A : Mat m n α) (o : Vec n Obj) (τ : Equiv.Perm (Fin n)) (i : Fin m) (j : Fin n) :
    invertMinimize (fun i j => A i (τ j)) (o ∘ τ) i j = invertMinimize A o i (τ j) := rfl

/-! ### 7.2 the weights: the weight follows its criterion, and never sees the alternatives -/

/-- SumScaler on the weights -/
theorem sumScale_weights_perm (w : Vec n α) (τ : Equiv.Perm (Fin n)) (j : Fin n) :
    scaleBySumV (w ∘ τ) j = scaleBySumV w (τ j) := scaleBySumV_perm w τ j
/-- VectorScaler on the weights -/
theorem vectorScale_weights_perm [MathFns α] (w : Vec n α) (τ : Equiv.Perm (Fin n)) (j : Fin n) :
    scaleByVectorV (w ∘ τ) j = scaleByVectorV w (τ j) := scaleByVectorV_perm w τ j
/-- MaxAbsScaler on the weights (`_run_sklearn_scaler`: one column, the same estimator, flattened) -/
theorem maxAbsScale_weights_perm [NeZero n] (w : Vec n α) (τ : Equiv.Perm (Fin n)) (j : Fin n) :
    runSklearnV maxAbsScale (w ∘ τ) j = runSklearnV maxAbsScale w (τ j) :=
  runSklearnV_perm maxAbsScale (fun B ρ i k => maxAbsScale_rowPerm B ρ i k) w τ j
/-- MinMaxScaler on the weights -/
theorem minMaxScale_weights_perm [NeZero n] (lo hi : α) (clip : Bool) (w : Vec n α) (τ : Equiv.Perm (Fin n)) (j : Fin n) :
    runSklearnV (minMaxScale lo hi clip) (w ∘ τ) j = runSklearnV (minMaxScale lo hi clip) w (τ j) :=
  runSklearnV_perm (minMaxScale lo hi clip) (fun B ρ i k => minMaxScale_rowPerm lo hi clip B ρ i k) w τ j
/-- StandarScaler on the weights -/
theorem standardScale_weights_perm [MathFns α] (withMean withStd : Bool) (w : Vec n α) (τ : Equiv.Perm (Fin n)) (j : Fin n) :
    runSklearnV (standardScale withMean withStd) (w ∘ τ) j = runSklearnV (standardScale withMean withStd) w (τ j) :=
  runSklearnV_perm (standardScale withMean withStd) (fun B ρ i k => standardScale_rowPerm withMean withStd B ρ i k) w τ j
/-- PushNegatives on the weights -/
theorem pushNegatives_weights_perm [NeZero n] (w : Vec n α) (τ : Equiv.Perm (Fin n)) (j : Fin n) :
    pushNegativesV (w ∘ τ) j = pushNegativesV w (τ j) := pushNegativesV_perm w τ j
/-- AddValueToZero on the weights -/
theorem addValueToZero_weights_perm (v : α) (w : Vec n α) (τ : Equiv.Perm (Fin n)) (j : Fin n) :
    addValueToZeroV v (w ∘ τ) j = addValueToZeroV v w (τ j) := addValueToZeroV_perm v w τ j

/-- listing the alternatives in another order changes no weight: whatever the class (every matrix-and-weights
transformer is `transformData t fM fW`) and the target, the new weights are a function of the old weights only -/
theorem scaler_weights_ignore_alternatives (t : Target) (fM : Mat m n α → Mat m n α) (fW : Vec n α → Vec n α)
    (σ : Equiv.Perm (Fin m)) (d : Data m n α) :
    (transformData t fM fW (d.permute σ 1)).weights = (transformData t fM fW d).weights :=
  transformData_weights_row_invariant t fM fW σ d
/-- CenitDistanceMatrixScaler and the two inverters hand the weights on untouched -/
theorem matrix_only_weights_unchanged [NeZero m] (d : Data m n α) :
    (cenitDistanceMatrixScaler d).weights = d.weights ∧ (negateMinimizer d).weights = d.weights ∧
    (invertMinimizer d).weights = d.weights := ⟨rfl, rfl, rfl⟩

/-! ### 7.3 the classes on `Data m n α`
`d.permute σ τ` (`Skc/Proofs/TransformPerm.lean`): matrix rows by `σ`, columns by `τ`, objectives and
weights by `τ`.  `F (d.permute σ τ) = (F d).permute σ τ` is an equality of decision data; read part by
part through `permute_parts` it says: entry `(i, j)` of the transformed permuted matrix is entry
`(σ i, τ j)` of the transformed original matrix, and likewise for objectives and weights. -/

/-- what `permute` does, part by part -/
theorem permute_parts (σ : Equiv.Perm (Fin m)) (τ : Equiv.Perm (Fin n)) (d : Data m n α) :
    (∀ i j, (d.permute σ τ).matrix i j = d.matrix (σ i) (τ j)) ∧
    (∀ j, (d.permute σ τ).objectives j = d.objectives (τ j)) ∧
    (∀ j, (d.permute σ τ).weights j = d.weights (τ j)) := ⟨fun _ _ => rfl, fun _ => rfl, fun _ => rfl⟩

/-- `permute` loses nothing: it is undone by the inverse orders -/
theorem permute_undo (σ : Equiv.Perm (Fin m)) (τ : Equiv.Perm (Fin n)) (d : Data m n α) :
    (d.permute σ τ).permute σ⁻¹ τ⁻¹ = d := Data.permute_symm σ τ d

theorem sumScaler_permute (t : Target) (σ : Equiv.Perm (Fin m)) (τ : Equiv.Perm (Fin n)) (d : Data m n α) :
    sumScaler t (d.permute σ τ) = (sumScaler t d).permute σ τ :=
  transformData_permute t _ _ (both_of_row_col scaleBySumM_rowPerm fun _ _ _ _ => rfl) scaleBySumV_perm σ τ d

theorem vectorScaler_permute [MathFns α] (t : Target) (σ : Equiv.Perm (Fin m)) (τ : Equiv.Perm (Fin n)) (d : Data m n α) :
    vectorScaler t (d.permute σ τ) = (vectorScaler t d).permute σ τ :=
  transformData_permute t _ _ (both_of_row_col scaleByVectorM_rowPerm fun _ _ _ _ => rfl) scaleByVectorV_perm σ τ d

theorem maxAbsScaler_permute [NeZero m] [NeZero n] (t : Target) (σ : Equiv.Perm (Fin m)) (τ : Equiv.Perm (Fin n))
    (d : Data m n α) : maxAbsScaler t (d.permute σ τ) = (maxAbsScaler t d).permute σ τ :=
  transformData_permute t _ _ (both_of_row_col maxAbsScale_rowPerm fun _ _ _ _ => rfl)
    (fun w ρ j => maxAbsScale_weights_perm w ρ j) σ τ d

/-- what `MinMaxScaler` computes once scikit-learn has accepted `criteria_range` -/
def minMaxData [NeZero m] [NeZero n] (lo hi : α) (clip : Bool) (t : Target) (d : Data m n α) : Data m n α :=
  transformData t (minMaxScale lo hi clip) (runSklearnV (minMaxScale lo hi clip)) d

theorem minMaxScaler_ok [NeZero m] [NeZero n] {lo hi : α} (hlh : lo < hi) (clip : Bool) (t : Target) (d : Data m n α) :
    minMaxScaler lo hi clip t d = .ok (minMaxData lo hi clip t d) := by
  have h : minMaxRefuses lo hi = false := by simp [minMaxRefuses, hlh]
  simp [minMaxScaler, minMaxData, h]

theorem minMaxData_permute [NeZero m] [NeZero n] (lo hi : α) (clip : Bool) (t : Target) (σ : Equiv.Perm (Fin m))
    (τ : Equiv.Perm (Fin n)) (d : Data m n α) :
    minMaxData lo hi clip t (d.permute σ τ) = (minMaxData lo hi clip t d).permute σ τ :=
  transformData_permute t _ _ (both_of_row_col (minMaxScale_rowPerm lo hi clip) fun _ _ _ _ => rfl)
    (fun w ρ j => minMaxScale_weights_perm lo hi clip w ρ j) σ τ d

/-- `MinMaxScaler`, refusal included: refused in one presentation iff refused in the other (the check
reads `criteria_range` only), otherwise the results correspond -/
theorem minMaxScaler_permute [NeZero m] [NeZero n] (lo hi : α) (clip : Bool) (t : Target) (σ : Equiv.Perm (Fin m))
    (τ : Equiv.Perm (Fin n)) (d : Data m n α) :
    minMaxScaler lo hi clip t (d.permute σ τ) = (minMaxScaler lo hi clip t d).map (Data.permute σ τ) := by
  unfold minMaxScaler
  split
  · rfl
  · exact congrArg Except.ok (minMaxData_permute lo hi clip t σ τ d)

theorem standarScaler_permute [MathFns α] (withMean withStd : Bool) (t : Target) (σ : Equiv.Perm (Fin m))
    (τ : Equiv.Perm (Fin n)) (d : Data m n α) :
    standarScaler withMean withStd t (d.permute σ τ) = (standarScaler withMean withStd t d).permute σ τ :=
  transformData_permute t _ _ (both_of_row_col (standardScale_rowPerm withMean withStd) fun _ _ _ _ => rfl)
    (fun w ρ j => standardScale_weights_perm withMean withStd w ρ j) σ τ d

theorem pushNegatives_permute [NeZero m] [NeZero n] (t : Target) (σ : Equiv.Perm (Fin m)) (τ : Equiv.Perm (Fin n))
    (d : Data m n α) : pushNegatives t (d.permute σ τ) = (pushNegatives t d).permute σ τ :=
  transformData_permute t _ _ (both_of_row_col pushNegativesM_rowPerm fun _ _ _ _ => rfl) pushNegativesV_perm σ τ d

theorem addValueToZero_permute (v : α) (t : Target) (σ : Equiv.Perm (Fin m)) (τ : Equiv.Perm (Fin n)) (d : Data m n α) :
    addValueToZero v t (d.permute σ τ) = (addValueToZero v t d).permute σ τ :=
  transformData_permute t _ _ (both_of_row_col (addValueToZeroM_rowPerm v) fun _ _ _ _ => rfl)
    (addValueToZeroV_perm v) σ τ d

theorem cenitDistanceMatrixScaler_permute [NeZero m] (σ : Equiv.Perm (Fin m)) (τ : Equiv.Perm (Fin n)) (d : Data m n α) :
    cenitDistanceMatrixScaler (d.permute σ τ) = (cenitDistanceMatrixScaler d).permute σ τ :=
  Data.ext_parts
    (fun i j => both_of_row_col_obj cenitScale_rowPerm (fun _ _ _ _ _ => rfl) d.matrix d.objectives σ τ i j)
    (fun _ => rfl) (fun _ => rfl)

/-- the inverters: the matrix cell-wise, and the objectives become all-`MAX` in both presentations -/
theorem negateMinimizer_permute (σ : Equiv.Perm (Fin m)) (τ : Equiv.Perm (Fin n)) (d : Data m n α) :
    negateMinimizer (d.permute σ τ) = (negateMinimizer d).permute σ τ := rfl
theorem invertMinimizer_permute (σ : Equiv.Perm (Fin m)) (τ : Equiv.Perm (Fin n)) (d : Data m n α) :
    invertMinimizer (d.permute σ τ) = (invertMinimizer d).permute σ τ := rfl

/-! ### 7.4 pipelines
`PermStep m n α` (`Skc/Proofs/TransformPerm.lean`): a function on decision data together with the proof
that it commutes with every `permute σ τ`; `runAll steps` applies the steps in order. -/

def sumStep (t : Target) : PermStep m n α := ⟨sumScaler t, sumScaler_permute t⟩
def vectorStep [MathFns α] (t : Target) : PermStep m n α := ⟨vectorScaler t, vectorScaler_permute t⟩
def maxAbsStep [NeZero m] [NeZero n] (t : Target) : PermStep m n α := ⟨maxAbsScaler t, maxAbsScaler_permute t⟩
def minMaxStep [NeZero m] [NeZero n] (lo hi : α) (clip : Bool) (t : Target) : PermStep m n α :=
  ⟨minMaxData lo hi clip t, minMaxData_permute lo hi clip t⟩
def standardStep [MathFns α] (withMean withStd : Bool) (t : Target) : PermStep m n α :=
  ⟨standarScaler withMean withStd t, standarScaler_permute withMean withStd t⟩
def pushNegStep [NeZero m] [NeZero n] (t : Target) : PermStep m n α := ⟨pushNegatives t, pushNegatives_permute t⟩
def addZeroStep (v : α) (t : Target) : PermStep m n α := ⟨addValueToZero v t, addValueToZero_permute v t⟩
def cenitStep [NeZero m] : PermStep m n α := ⟨cenitDistanceMatrixScaler, cenitDistanceMatrixScaler_permute⟩
def negateStep : PermStep m n α := ⟨negateMinimizer, negateMinimizer_permute⟩
def invertStep : PermStep m n α := ⟨invertMinimizer, invertMinimizer_permute⟩

/-- the composed pipeline commutes with the reordering: run on the problem written down in the order
`σ`, `τ`, it returns what it returns on the original problem, written down in the order `σ`, `τ` -/
theorem pipeline_permute (steps : List (PermStep m n α)) (σ : Equiv.Perm (Fin m)) (τ : Equiv.Perm (Fin n))
    (d : Data m n α) : runAll steps (d.permute σ τ) = (runAll steps d).permute σ τ :=
  runAll_permute steps σ τ d

/-- the same for one fixed pair `σ`, `τ` and arbitrary functions that commute with it (no structure needed) -/
theorem pipeline_permute_of_commutes (σ : Equiv.Perm (Fin m)) (τ : Equiv.Perm (Fin n))
    (fs : List (Data m n α → Data m n α))
    (h : ∀ f ∈ fs, ∀ d : Data m n α, f (d.permute σ τ) = (f d).permute σ τ) (d : Data m n α) :
    runFns fs (d.permute σ τ) = (runFns fs d).permute σ τ := runFns_permute σ τ fs h d

/-- a method applied to decision data: it reads matrix, objectives and weights -/
def scoreWith {β : Type} (K : Mat m n α → Vec n Obj → Vec n α → Vec m β) (d : Data m n α) : Vec m β :=
  K d.matrix d.objectives d.weights

/-- pipeline, then a method `K` whose scores follow the alternatives (`hrow`) and ignore the order of
the criteria (`hcol`): the alternative at position `i` of the permuted problem — alternative `σ i` of the
original — gets the score it gets in the original problem -/
theorem pipeline_score_presentation {β : Type} (steps : List (PermStep m n α))
    (K : Mat m n α → Vec n Obj → Vec n α → Vec m β) (σ : Equiv.Perm (Fin m)) (τ : Equiv.Perm (Fin n))
    (hrow : ∀ A o w i, K (fun i => A (σ i)) o w i = K A o w (σ i))
    (hcol : ∀ A o w, K (fun i j => A i (τ j)) (fun j => o (τ j)) (fun j => w (τ j)) = K A o w)
    (d : Data m n α) (i : Fin m) :
    scoreWith K (runAll steps (d.permute σ τ)) i = scoreWith K (runAll steps d) (σ i) := by
  rw [pipeline_permute]
  have h1 := hcol (fun i => (runAll steps d).matrix (σ i)) (runAll steps d).objectives (runAll steps d).weights
  exact (congrFun h1 i).trans (hrow (runAll steps d).matrix (runAll steps d).objectives (runAll steps d).weights i)

/-- … hence the same dense rank, in either direction -/
theorem pipeline_rank_presentation (steps : List (PermStep m n α))
    (K : Mat m n α → Vec n Obj → Vec n α → Vec m α) (σ : Equiv.Perm (Fin m)) (τ : Equiv.Perm (Fin n))
    (hrow : ∀ A o w i, K (fun i => A (σ i)) o w i = K A o w (σ i))
    (hcol : ∀ A o w, K (fun i j => A i (τ j)) (fun j => o (τ j)) (fun j => w (τ j)) = K A o w)
    (rev : Bool) (d : Data m n α) (i : Fin m) :
    rankVec rev (scoreWith K (runAll steps (d.permute σ τ))) i = rankVec rev (scoreWith K (runAll steps d)) (σ i) := by
  rw [show scoreWith K (runAll steps (d.permute σ τ)) = fun i => scoreWith K (runAll steps d) (σ i)
    from funext (pipeline_score_presentation steps K σ τ hrow hcol d)]
  exact rankVec_perm rev _ σ i

/-- … and looked up *by name* in the result `evaluate` builds, every alternative has the same score in
both presentations (`alts` names the alternatives of the original problem; the permuted problem lists
the names in the order `σ` too) -/
theorem pipeline_score_by_name {β : Type} (steps : List (PermStep m n α))
    (K : Mat m n α → Vec n Obj → Vec n α → Vec m β) (σ : Equiv.Perm (Fin m)) (τ : Equiv.Perm (Fin n))
    (hrow : ∀ A o w i, K (fun i => A (σ i)) o w i = K A o w (σ i))
    (hcol : ∀ A o w, K (fun i j => A i (τ j)) (fun j => o (τ j)) (fun j => w (τ j)) = K A o w)
    (alts : Fin m → String) (ha : Function.Injective alts) (d : Data m n α) (k : Fin m) :
    (mkResult (List.ofFn fun i => alts (σ i)) (List.ofFn (scoreWith K (runAll steps (d.permute σ τ))))).valueOf (alts k) =
      (mkResult (List.ofFn alts) (List.ofFn (scoreWith K (runAll steps d)))).valueOf (alts k) := by
  rw [show scoreWith K (runAll steps (d.permute σ τ)) = fun i => scoreWith K (runAll steps d) (σ i)
    from funext (pipeline_score_presentation steps K σ τ hrow hcol d)]
  exact evaluate_row_perm_by_name alts ha _ σ k

/-! ### 7.5 concrete pipelines -/

/-- SumScaler → WSM -/
theorem sumScaler_wsm_presentation (t : Target) (σ : Equiv.Perm (Fin m)) (τ : Equiv.Perm (Fin n)) (d : Data m n α)
    (i : Fin m) :
    wsm (sumScaler t (d.permute σ τ)).matrix (sumScaler t (d.permute σ τ)).weights i =
      wsm (sumScaler t d).matrix (sumScaler t d).weights (σ i) :=
  pipeline_score_presentation [sumStep t] (fun A _ w => wsm A w) σ τ (fun _ _ _ _ => rfl)
    (fun A _ w => wsm_col_perm A w τ) d i

/-- MinMaxScaler → NegateMinimize → TOPSIS (field metrics) -/
theorem minMax_negate_topsisQ_presentation [NeZero m] [NeZero n] (μ : Metric) (lo hi : α) (clip : Bool) (t : Target)
    (σ : Equiv.Perm (Fin m)) (τ : Equiv.Perm (Fin n)) (d : Data m n α) (i : Fin m) :
    scoreWith (topsisQ μ) (negateMinimizer (minMaxData lo hi clip t (d.permute σ τ))) i =
      scoreWith (topsisQ μ) (negateMinimizer (minMaxData lo hi clip t d)) (σ i) :=
  pipeline_score_presentation [minMaxStep lo hi clip t, negateStep] (topsisQ μ) σ τ
    (fun A o w i => topsisQ_row_perm μ A o w σ i) (fun A o w => topsisQ_col_perm μ A o w τ) d i

/-- … and its ranking (`rank_values(similarity, reverse=True)`) -/
theorem minMax_negate_topsisQ_rank_presentation [NeZero m] [NeZero n] (μ : Metric) (lo hi : α) (clip : Bool) (t : Target)
    (σ : Equiv.Perm (Fin m)) (τ : Equiv.Perm (Fin n)) (d : Data m n α) (i : Fin m) :
    rankVec true (scoreWith (topsisQ μ) (negateMinimizer (minMaxData lo hi clip t (d.permute σ τ)))) i =
      rankVec true (scoreWith (topsisQ μ) (negateMinimizer (minMaxData lo hi clip t d))) (σ i) :=
  pipeline_rank_presentation [minMaxStep lo hi clip t, negateStep] (topsisQ μ) σ τ
    (fun A o w i => topsisQ_row_perm μ A o w σ i) (fun A o w => topsisQ_col_perm μ A o w τ) true d i

end field

/-! ### 7.6 over `ℝ`: the weighters (`Props/C13.lean`) as steps, and TOPSIS with every metric -/

/-- the weighters' `Data` (`Skc/Model/Weighters.lean`) has the same three fields as the scalers' -/
def toWeighterData {α : Type} (d : Data m n α) : Weighters.Data m n α := ⟨d.matrix, d.objectives, d.weights⟩
def ofWeighterData {α : Type} (d : Weighters.Data m n α) : Data m n α := ⟨d.matrix, d.objectives, d.weights⟩

/-- `SKCWeighterABC._transform_data` on the scalers' `Data` -/
noncomputable def weighterRun [NeZero m] (W : Weighters.Weighter ℝ) (d : Data m n ℝ) : Data m n ℝ :=
  ofWeighterData (W.transformData (toWeighterData d))

/-- EqualWeighter, StdWeighter, EntropyWeighter, CRITIC: matrix and objectives pass through, the new weights
follow their criteria and do not depend on the order of the alternatives
(`C13.weighter_row_perm`, `C13.weighter_col_perm`) -/
theorem weighter_permute [NeZero m] (W : Weighters.Weighter ℝ) (σ : Equiv.Perm (Fin m)) (τ : Equiv.Perm (Fin n))
    (d : Data m n ℝ) : weighterRun W (d.permute σ τ) = (weighterRun W d).permute σ τ := by
  apply Data.ext_parts
  · intro i j; rfl
  · intro j; rfl
  · intro j
    have h := C13.weighter_row_perm W (fun i j => d.matrix i (τ j)) (fun j => d.objectives (τ j))
      (fun j => d.weights (τ j)) σ
    exact (congrFun h j).trans (C13.weighter_col_perm W d.matrix d.objectives d.weights τ j)

noncomputable def weighterStep [NeZero m] (W : Weighters.Weighter ℝ) : PermStep m n ℝ := ⟨weighterRun W, weighter_permute W⟩

/-- any pipeline of scalers, inverters and weighters, then TOPSIS with any metric: every alternative keeps
its similarity index … -/
theorem pipeline_topsis_presentation [NeZero m] [NeZero n] (steps : List (PermStep m n ℝ)) (μ : Metric)
    (σ : Equiv.Perm (Fin m)) (τ : Equiv.Perm (Fin n)) (d : Data m n ℝ) (i : Fin m) :
    scoreWith (topsis μ) (runAll steps (d.permute σ τ)) i = scoreWith (topsis μ) (runAll steps d) (σ i) :=
  pipeline_score_presentation steps (topsis μ) σ τ (fun A o w i => topsis_row_perm μ A o w σ i)
    (fun A o w => topsis_col_perm μ A o w τ) d i

/-- … and its rank -/
theorem pipeline_topsis_rank_presentation [NeZero m] [NeZero n] (steps : List (PermStep m n ℝ)) (μ : Metric)
    (σ : Equiv.Perm (Fin m)) (τ : Equiv.Perm (Fin n)) (d : Data m n ℝ) (i : Fin m) :
    rankVec true (scoreWith (topsis μ) (runAll steps (d.permute σ τ))) i =
      rankVec true (scoreWith (topsis μ) (runAll steps d)) (σ i) :=
  pipeline_rank_presentation steps (topsis μ) σ τ (fun A o w i => topsis_row_perm μ A o w σ i)
    (fun A o w => topsis_col_perm μ A o w τ) true d i

/-- VectorScaler → CRITIC → NegateMinimize → TOPSIS (Euclidean), spelled out -/
theorem vector_critic_negate_topsis_presentation [NeZero m] [NeZero n] (c : Weighters.Corr) (scale : Bool)
    (σ : Equiv.Perm (Fin m)) (τ : Equiv.Perm (Fin n)) (d : Data m n ℝ) (i : Fin m) :
    scoreWith (topsis .euclidean)
        (negateMinimizer (weighterRun (.critic c scale) (vectorScaler .matrix (d.permute σ τ)))) i =
      scoreWith (topsis .euclidean)
        (negateMinimizer (weighterRun (.critic c scale) (vectorScaler .matrix d))) (σ i) :=
  pipeline_topsis_presentation [vectorStep .matrix, weighterStep (.critic c scale), negateStep] .euclidean σ τ d i

end transformers

/-! ## non-vacuity -/
section examples
/-- a 3 × 2 problem, alternatives rotated, criteria swapped -/
def A0 : Mat 3 2 ℚ := fun i j => ![![1, 4], ![3, 2], ![2, 2]] i j
def w0 : Vec 2 ℚ := ![1/4, 3/4]
def o0 : Vec 2 Obj := ![.max, .min]
def σ0 : Equiv.Perm (Fin 3) := finRotate 3
def τ0 : Equiv.Perm (Fin 2) := Equiv.swap 0 1

example : σ0 0 = 1 ∧ τ0 0 = 1 := by decide
example : Vec.toList (ratio A0 o0 w0) = [-11/4, -3/4, -1] := by
  simp [Vec.toList, ratio, sumFin, A0, o0, w0, Obj.sgn, List.ofFn_succ]; norm_num
example : Vec.toList (ratio (fun i => A0 (σ0 i)) o0 w0) = [-3/4, -1, -11/4] := by
  simp [Vec.toList, ratio, sumFin, A0, o0, w0, σ0, Obj.sgn, List.ofFn_succ]; norm_num
/-- the ranks follow the alternatives (scores × 4, as integers, so that `decide` evaluates them) -/
example : rankValues true ([-11, -3, -4] : List ℤ) = [3, 1, 2] ∧ rankValues true ([-3, -4, -11] : List ℤ) = [1, 2, 3] := by
  decide
example : rankValues true ([2, 1, 2] : List ℤ) = rankValues true (([2, 1, 2] : List ℤ).map (3 * ·)) := by decide
example : multimooraScore (List.ofFn fun i : Fin 3 => ![[1, 1, 2], [2, 2, 1], [3, 3, 3]] (σ0 i)) = [1, 0, 2] ∧
    multimooraScore [[1, 1, 2], [2, 2, 1], [3, 3, 3]] = [2, 1, 0] := by decide
example : (mkResult ["b", "a"] [1, 2]).valueOf "a" = some 2 ∧ (mkResult ["a", "b"] [2, 1]).valueOf "a" = some 2 := by decide
/-- the FMF hypothesis `A i j * w j ≠ 0` holds on positive data and weights -/
example (A : Mat m n ℝ) (w : Vec n ℝ) (hA : ∀ i j, 0 < A i j) (hw : ∀ j, 0 < w j) : ∀ i j, A i j * w j ≠ 0 :=
  fun i j => (mul_pos (hA i j) (hw j)).ne'

/-! transformers: the same 3 × 2 problem as decision data -/
open Skc.Scalers in
def d0 : Data 3 2 ℚ := ⟨A0, o0, w0⟩

open Skc.Scalers in
/-- written down in the other order it is a different array: position (0, 0) now holds alternative 1 on
criterion 1, weight and objective 0 are those of criterion 1 -/
example : (d0.permute σ0 τ0).matrix 0 0 = 2 ∧ d0.matrix 0 0 = 1 ∧
    (d0.permute σ0 τ0).weights 0 = 3/4 ∧ (d0.permute σ0 τ0).objectives 0 = .min := by
  have hσ : σ0 0 = 1 := by decide
  have hτ : τ0 0 = 1 := by decide
  refine ⟨?_, ?_, ?_, ?_⟩
  · show A0 (σ0 0) (τ0 0) = 2
    rw [hσ, hτ]; simp [A0]
  · simp [d0, A0]
  · show w0 (τ0 0) = 3/4
    rw [hτ]; simp [w0]
  · show o0 (τ0 0) = .min
    rw [hτ]; simp [o0]

open Skc.Scalers in
/-- SumScaler divides criterion 0 by 1 + 3 + 2: alternative 0 gets 1/6 — at position (0, 0) of the original
problem and at position (2, 1) of the permuted one (`σ0 2 = 0`, `τ0 1 = 0`) -/
example : (sumScaler .both d0).matrix 0 0 = 1/6 ∧ (sumScaler .both (d0.permute σ0 τ0)).matrix 2 1 = 1/6 := by
  have h : (sumScaler .both d0).matrix 0 0 = 1/6 := by
    show A0 0 0 / sumFin (fun k => A0 k 0) = 1/6
    simp [sumFin, A0, List.ofFn_succ]; norm_num
  refine ⟨h, ?_⟩
  rw [sumScaler_permute]
  show (sumScaler .both d0).matrix (σ0 2) (τ0 1) = 1/6
  rw [show σ0 2 = 0 by decide, show τ0 1 = 0 by decide]; exact h

open Skc.Scalers in
/-- the inverters change the objectives (to all-`MAX`) in both presentations alike -/
example : (negateMinimizer (d0.permute σ0 τ0)).objectives = fun _ => .max := rfl

open Skc.Scalers in
/-- every field-only transformer is available as a step; a pipeline of all of them commutes with the reordering -/
example : runAll [pushNegStep .both, addZeroStep (1/2) .matrix, maxAbsStep .both, minMaxStep 0 1 false .matrix,
      cenitStep, invertStep, negateStep, sumStep .weights] (d0.permute σ0 τ0) =
    (runAll [pushNegStep .both, addZeroStep (1/2) .matrix, maxAbsStep .both, minMaxStep 0 1 false .matrix,
      cenitStep, invertStep, negateStep, sumStep .weights] d0).permute σ0 τ0 := pipeline_permute _ σ0 τ0 d0

open Skc.Scalers in
/-- `MinMaxScaler` with the default `criteria_range = (0, 1)` is accepted, so `minMaxStep` is what the class computes -/
example : minMaxScaler 0 1 false .both d0 = .ok ((minMaxStep 0 1 false .both).run d0) :=
  minMaxScaler_ok (by norm_num) false .both d0

open Skc.Scalers in
/-- over `ℝ`: StandarScaler, VectorScaler and the four weighters are steps too -/
example (d : Data 3 2 ℝ) (σ : Equiv.Perm (Fin 3)) (τ : Equiv.Perm (Fin 2)) (i : Fin 3) :
    scoreWith (topsis .euclidean)
        (runAll [standardStep true true .matrix, vectorStep .both, weighterStep .entropy, weighterStep .std,
          weighterStep (.equal 1), weighterStep (.critic .spearman false), negateStep] (d.permute σ τ)) i =
      scoreWith (topsis .euclidean)
        (runAll [standardStep true true .matrix, vectorStep .both, weighterStep .entropy, weighterStep .std,
          weighterStep (.equal 1), weighterStep (.critic .spearman false), negateStep] d) (σ i) :=
  pipeline_topsis_presentation _ .euclidean σ τ d i

open Skc.Scalers in
/-- SumScaler → WSM on `d0`: alternative 0 scores 1/6·1/4 + 4/8·3/4 = 5/12, found at position 2 of the permuted problem -/
example : wsm (sumScaler .both d0).matrix (sumScaler .both d0).weights 0 = 5/12 ∧
    wsm (sumScaler .both (d0.permute σ0 τ0)).matrix (sumScaler .both (d0.permute σ0 τ0)).weights 2 = 5/12 := by
  have h : wsm (sumScaler .both d0).matrix (sumScaler .both d0).weights 0 = 5/12 := by
    show sumFin (fun j => (A0 0 j / sumFin fun k => A0 k j) * (w0 j / sumFin w0)) = 5/12
    simp [sumFin, A0, w0, List.ofFn_succ]; norm_num
  refine ⟨h, ?_⟩
  rw [sumScaler_wsm_presentation, show σ0 2 = 0 by decide]; exact h
end examples

end Skc.C05
