import Skc.Proofs.Agg
import Skc.Proofs.Dominance
set_option linter.unusedSectionVars false

/-! Monotonicity lemmas behind C06: the dominating alternative is coordinate-wise closer to the
ideal and farther from the anti-ideal; every metric of the family is monotone in the absolute
coordinates; the closeness coefficient is monotone. -/
namespace Skc.Agg
open Skc Finset

variable {m n : ℕ}
variable {α : Type} [Field α] [LinearOrder α] [IsStrictOrderedRing α]

theorem signed_term_mono {o : Obj} {x y w : α} (hw : 0 < w) (h : atLeast o x y) :
    y * (w * o.sgn) ≤ x * (w * o.sgn) := by
  cases o
  · have := atLeast_max.mp h; simp only [sgn_max, mul_one]; exact mul_le_mul_of_nonneg_right this hw.le
  · have := atLeast_min.mp h; simp only [sgn_min, mul_neg, mul_one]; nlinarith

theorem signed_term_strict {o : Obj} {x y w : α} (hw : 0 < w) (h : better o x y) :
    y * (w * o.sgn) < x * (w * o.sgn) := by
  cases o <;> simp only [better] at h
  · simp only [sgn_max, mul_one]; exact mul_lt_mul_of_pos_right h hw
  · simp only [sgn_min, mul_neg, mul_one]; nlinarith

theorem le_colMax [NeZero m] (A : Mat m n α) (i : Fin m) (j : Fin n) : A i j ≤ colMax A j := le_maxFin (fun i => A i j) i
theorem colMin_le [NeZero m] (A : Mat m n α) (i : Fin m) (j : Fin n) : colMin A j ≤ A i j := minFin_le (fun i => A i j) i

/-- coordinate-wise: the dominating alternative is closer to the ideal and farther from the anti-ideal -/
theorem coord_closer [NeZero m] (A : Mat m n α) (w : Vec n α) (hw : ∀ j, 0 < w j) (o : Vec n Obj)
    (a b : Fin m) (hd : ∀ j, atLeast (o j) (A a j) (A b j)) (j : Fin n) :
    |weighted A w a j - ideal A o w j| ≤ |weighted A w b j - ideal A o w j| ∧
    |weighted A w b j - antiIdeal A o w j| ≤ |weighted A w a j - antiIdeal A o w j| := by
  have h := hd j
  have h1 := le_colMax (weighted A w) a j; have h2 := le_colMax (weighted A w) b j
  have h3 := colMin_le (weighted A w) a j; have h4 := colMin_le (weighted A w) b j
  unfold ideal antiIdeal
  cases ho : o j <;> simp only [ho] at h
  · have hv : weighted A w b j ≤ weighted A w a j := mul_le_mul_of_nonneg_right (atLeast_max.mp h) (hw j).le
    simp only [if_true]
    constructor
    · rw [abs_of_nonpos (by linarith), abs_of_nonpos (by linarith)]; linarith
    · rw [abs_of_nonneg (by linarith), abs_of_nonneg (by linarith)]; linarith
  · have hv : weighted A w a j ≤ weighted A w b j := mul_le_mul_of_nonneg_right (atLeast_min.mp h) (hw j).le
    simp only [reduceCtorEq, if_false]
    constructor
    · rw [abs_of_nonneg (by linarith), abs_of_nonneg (by linarith)]; linarith
    · rw [abs_of_nonpos (by linarith), abs_of_nonpos (by linarith)]; linarith

/-- a strict preference on criterion `j` separates the ideal from the anti-ideal there -/
theorem ideal_ne_anti [NeZero m] (A : Mat m n α) (w : Vec n α) (hw : ∀ j, 0 < w j) (o : Vec n Obj)
    (a b : Fin m) (j : Fin n) (hj : better (o j) (A a j) (A b j)) : ideal A o w j ≠ antiIdeal A o w j := by
  have h1 := le_colMax (weighted A w) a j; have h2 := le_colMax (weighted A w) b j
  have h3 := colMin_le (weighted A w) a j; have h4 := colMin_le (weighted A w) b j
  have hne : weighted A w a j ≠ weighted A w b j := by
    unfold weighted
    cases ho : o j <;> simp only [ho, better] at hj
    · exact ne_of_gt (mul_lt_mul_of_pos_right hj (hw j))
    · exact ne_of_lt (mul_lt_mul_of_pos_right hj (hw j))
  have hlt : colMin (weighted A w) j < colMax (weighted A w) j := by
    rcases lt_or_gt_of_ne hne with h | h
    · exact lt_of_le_of_lt h3 (lt_of_lt_of_le h h2)
    · exact lt_of_le_of_lt h4 (lt_of_lt_of_le h h1)
  unfold ideal antiIdeal
  cases o j <;> simp <;> [exact ne_of_gt hlt; exact ne_of_lt hlt]

/-- what TOPSIS needs from a metric -/
structure MonoMetric (d : Vec n α → Vec n α → α) : Prop where
  nonneg : ∀ x t, 0 ≤ d x t
  mono : ∀ x y t, (∀ j, |x j - t j| ≤ |y j - t j|) → d x t ≤ d y t
  pos : ∀ x t, (∃ j, x j ≠ t j) → 0 < d x t

theorem monoMetric_distQ [NeZero n] (μ : Metric) : MonoMetric (distQ (α := α) (n := n) μ) := by
  have hsq : MonoMetric (fun (x t : Vec n α) => sumFin fun j => (x j - t j) * (x j - t j)) := by
    refine ⟨fun x t => ?_, fun x y t h => ?_, fun x t ⟨j, hj⟩ => ?_⟩
    · rw [sumFin_eq_sum]; exact sum_nonneg fun j _ => mul_self_nonneg _
    · rw [sumFin_eq_sum, sumFin_eq_sum]; apply sum_le_sum; intro j _
      rw [← abs_mul_abs_self (x j - t j), ← abs_mul_abs_self (y j - t j)]
      exact mul_le_mul (h j) (h j) (abs_nonneg _) (abs_nonneg _)
    · rw [sumFin_eq_sum]
      exact sum_pos' (fun j _ => mul_self_nonneg _) ⟨j, mem_univ j, mul_self_pos.mpr (sub_ne_zero.mpr hj)⟩
  cases μ
  case cityblock =>
    refine ⟨fun x t => ?_, fun x y t h => ?_, fun x t ⟨j, hj⟩ => ?_⟩
    · simp only [distQ, sumFin_eq_sum, absv_eq_abs]; exact sum_nonneg fun j _ => abs_nonneg _
    · simp only [distQ, sumFin_eq_sum, absv_eq_abs]; exact sum_le_sum fun j _ => h j
    · simp only [distQ, sumFin_eq_sum, absv_eq_abs]
      exact sum_pos' (fun j _ => abs_nonneg _) ⟨j, mem_univ j, abs_pos.mpr (sub_ne_zero.mpr hj)⟩
  case chebyshev =>
    refine ⟨fun x t => ?_, fun x y t h => ?_, fun x t ⟨j, hj⟩ => ?_⟩
    · simp only [distQ, absv_eq_abs]; exact le_trans (abs_nonneg _) (le_maxFin (fun j => |x j - t j|) 0)
    · simp only [distQ, absv_eq_abs]; rw [maxFin_le_iff]; intro j
      exact le_trans (h j) (le_maxFin (fun j => |y j - t j|) j)
    · simp only [distQ, absv_eq_abs]
      exact lt_of_lt_of_le (abs_pos.mpr (sub_ne_zero.mpr hj)) (le_maxFin (fun j => |x j - t j|) j)
  all_goals exact hsq

/-- closeness coefficient `d⁻/(d⁺+d⁻)`: increasing in `d⁻`, decreasing in `d⁺` -/
theorem sim_mono {dpa dma dpb dmb : α} (h1 : dpa ≤ dpb) (h2 : dmb ≤ dma)
    (ha0 : 0 ≤ dpa) (hb0 : 0 ≤ dmb) (hpa : 0 < dpa + dma) (hpb : 0 < dpb + dmb) :
    dmb / (dpb + dmb) ≤ dma / (dpa + dma) := by
  rw [div_le_div_iff₀ hpb hpa]
  nlinarith [mul_le_mul h2 h1 ha0 (le_trans hb0 h2)]

/-- TOPSIS with any monotone metric: the dominating alternative has at least the similarity of the
dominated one; the denominators are positive *because* a dominating pair exists -/
theorem similarityWith_dom_mono [NeZero m] {d : Vec n α → Vec n α → α} (hd : MonoMetric d)
    (A : Mat m n α) (o : Vec n Obj) (w : Vec n α) (hw : ∀ j, 0 < w j) (a b : Fin m)
    (hdom : dominates o (A a) (A b)) : similarityWith d A o w b ≤ similarityWith d A o w a := by
  have hc := coord_closer A w hw o a b hdom.1
  obtain ⟨j, hj⟩ := hdom.2
  have hne := ideal_ne_anti A w hw o a b j hj
  have hpos : ∀ i, 0 < d (weighted A w i) (ideal A o w) + d (weighted A w i) (antiIdeal A o w) := by
    intro i
    by_cases h : weighted A w i j = ideal A o w j
    · have : weighted A w i j ≠ antiIdeal A o w j := fun h' => hne (h ▸ h')
      exact add_pos_of_nonneg_of_pos (hd.nonneg _ _) (hd.pos _ _ ⟨j, this⟩)
    · exact add_pos_of_pos_of_nonneg (hd.pos _ _ ⟨j, h⟩) (hd.nonneg _ _)
  unfold similarityWith
  exact sim_mono (hd.mono _ _ _ fun j => (hc j).1) (hd.mono _ _ _ fun j => (hc j).2)
    (hd.nonneg _ _) (hd.nonneg _ _) (hpos a) (hpos b)

end Skc.Agg
