import Skc.Model.Agg
import Skc.Proofs.Num
import Mathlib.Analysis.SpecialFunctions.Log.Basic
import Mathlib.Analysis.SpecialFunctions.Log.Base
import Mathlib.Analysis.SpecialFunctions.Pow.Real
import Mathlib.Analysis.SpecialFunctions.Sqrt
import Mathlib.Algebra.Order.BigOperators.Ring.Finset

set_option linter.unusedSectionVars false

/-! Instantiation of the aggregation kernels at `ℝ` and their closed forms. -/
namespace Skc
open Finset

/-- `np.sqrt`, `np.log`, `np.log10` read as the real functions -/
noncomputable instance instMathFnsReal : MathFns ℝ := ⟨Real.sqrt, Real.log, Real.logb 10⟩

@[simp] theorem sqrt_real (x : ℝ) : MathFns.sqrt x = Real.sqrt x := rfl
@[simp] theorem log_real (x : ℝ) : MathFns.log x = Real.log x := rfl
@[simp] theorem log10_real (x : ℝ) : MathFns.log10 x = Real.logb 10 x := rfl

section
variable {α : Type} [Field α] [LinearOrder α] [IsStrictOrderedRing α]

@[simp] theorem sgn_max : (Obj.max.sgn : α) = 1 := rfl
@[simp] theorem sgn_min : (Obj.min.sgn : α) = -1 := rfl

theorem sgn_cases (o : Obj) : (o.sgn : α) = 1 ∧ o = .max ∨ (o.sgn : α) = -1 ∧ o = .min := by
  cases o <;> simp
end

namespace Agg
variable {m n : ℕ}

theorem hasMin_iff (o : Vec n Obj) : hasMin o = true ↔ ∃ j, o j = .min := by
  unfold hasMin; rw [anyFin_iff]; simp
theorem anyNeg_iff {α : Type} [Field α] [LinearOrder α] (A : Mat m n α) : anyNeg A = true ↔ ∃ i j, A i j < 0 := by
  unfold anyNeg; rw [anyFin_iff]; simp [anyFin_iff]
theorem anyNonPos_iff {α : Type} [Field α] [LinearOrder α] (A : Mat m n α) : anyNonPos A = true ↔ ∃ i j, A i j ≤ 0 := by
  unfold anyNonPos; rw [anyFin_iff]; simp [anyFin_iff]

end Agg
end Skc
