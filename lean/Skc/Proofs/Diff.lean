import Skc.Model.Diff
import Mathlib.Algebra.Order.Field.Basic
import Mathlib.Algebra.Order.AbsoluteValue.Basic
import Mathlib.Data.List.Basic
import Mathlib.Tactic

/-! Helper lemmas for the equality / diff model (used by `Skc.Props.C17`). -/
namespace Skc.Diff
set_option linter.unusedSectionVars false
set_option linter.unusedVariables false

variable {α : Type*} [Field α] [LinearOrder α] [IsStrictOrderedRing α]

/-! ### cells -/

theorem absv_eq (x : α) : absv x = |x| := by
  unfold absv
  split
  · rw [abs_of_nonneg ‹_›]
  · rw [abs_of_neg (lt_of_not_ge ‹_›)]

theorem eqCell_iff (x y : Option α) : eqCell x y = true ↔ ∃ v, x = some v ∧ y = some v := by
  cases x <;> cases y <;> simp [eqCell, eq_comm]

theorem closeCell_exact_eq (x y : Option α) : closeCell (exact : Tol α) x y = eqCell x y := by
  cases x <;> cases y <;> simp [closeCell, eqCell, exact, absv_eq, abs_nonpos_iff, sub_eq_zero]

theorem eqCell_symm (x y : Option α) : eqCell x y = eqCell y x := by
  cases x <;> cases y <;> simp [eqCell, eq_comm]

theorem eqCell_imp_close (t : Tol α) (hr : 0 ≤ t.rtol) (ha : 0 ≤ t.atol) (x y : Option α)
    (h : eqCell x y = true) : closeCell t x y = true := by
  obtain ⟨v, rfl, rfl⟩ := (eqCell_iff x y).mp h
  simp only [closeCell, sub_self, absv_eq, abs_zero, decide_eq_true_eq]
  positivity

theorem eqCell_self (x : Option α) (h : x.isSome = true) : eqCell x x = true := by
  cases x <;> simp_all [eqCell]

theorem cellsClose_exact_eq (a b : List (Option α)) : cellsClose (exact : Tol α) a b = cellsEq a b := by
  induction a generalizing b with
  | nil => cases b <;> simp [cellsClose, cellsEq]
  | cons x xs ih => cases b <;> simp [cellsClose, cellsEq, closeCell_exact_eq, ih]

theorem cellsEq_symm (a b : List (Option α)) : cellsEq a b = cellsEq b a := by
  induction a generalizing b with
  | nil => cases b <;> simp [cellsEq]
  | cons x xs ih => cases b <;> simp [cellsEq, eqCell_symm x, ih]

theorem cellsEq_imp_close (t : Tol α) (hr : 0 ≤ t.rtol) (ha : 0 ≤ t.atol) (a b : List (Option α))
    (h : cellsEq a b = true) : cellsClose t a b = true := by
  induction a generalizing b with
  | nil => cases b <;> simp_all [cellsClose, cellsEq]
  | cons x xs ih =>
    cases b with
    | nil => simp [cellsEq] at h
    | cons y ys =>
      simp only [cellsEq, Bool.and_eq_true] at h
      simp [cellsClose, eqCell_imp_close t hr ha x y h.1, ih ys h.2]

theorem cellsEq_self (a : List (Option α)) (h : a.all Option.isSome = true) : cellsEq a a = true := by
  induction a with
  | nil => simp [cellsEq]
  | cons x xs ih =>
    simp only [List.all_cons, Bool.and_eq_true] at h
    simp [cellsEq, eqCell_self x h.1, ih h.2]

/-! ### arrays -/

theorem dataClose_exact_eq (a b : NArr α) : dataClose (exact : Tol α) a b = cellsEq a.cells b.cells := by
  unfold dataClose
  split <;> simp [cellsClose_exact_eq]

theorem dataClose_exact_symm (a b : NArr α) : dataClose (exact : Tol α) a b = dataClose (exact : Tol α) b a := by
  rw [dataClose_exact_eq, dataClose_exact_eq, cellsEq_symm]

theorem dataClose_exact_imp (t : Tol α) (hr : 0 ≤ t.rtol) (ha : 0 ≤ t.atol) (a b : NArr α)
    (h : dataClose (exact : Tol α) a b = true) : dataClose t a b = true := by
  rw [dataClose_exact_eq] at h
  unfold dataClose
  split
  · exact h
  · exact cellsEq_imp_close t hr ha _ _ h

theorem arrClose_exact_eq (a b : NArr α) : arrClose (exact : Tol α) a b = arrEqual a b := by
  unfold arrClose arrEqual
  by_cases h : a.shape = b.shape <;> simp [h, dataClose_exact_eq]

theorem arrEqual_symm (a b : NArr α) : arrEqual a b = arrEqual b a := by
  unfold arrEqual
  rw [cellsEq_symm a.cells]
  by_cases h : a.shape = b.shape
  · simp [h]
  · simp [h, Ne.symm h]

theorem arrEqual_imp_close (t : Tol α) (hr : 0 ≤ t.rtol) (ha : 0 ≤ t.atol) (a b : NArr α)
    (h : arrEqual a b = true) : arrClose t a b = true := by
  unfold arrEqual at h
  simp only [Bool.and_eq_true, decide_eq_true_eq] at h
  unfold arrClose
  simp only [h.1, if_true]
  exact dataClose_exact_imp t hr ha a b (by rw [dataClose_exact_eq]; exact h.2)

theorem arrEqual_self (a : NArr α) (h : a.cells.all Option.isSome = true) : arrEqual a a = true := by
  simp [arrEqual, cellsEq_self a.cells h]

/-! ### extras -/

theorem keysEq_symm (a b : EVal α) : keysEq a b = keysEq b a := by
  unfold keysEq; exact Bool.and_comm _ _

theorem keysEq_self (a : EVal α) : keysEq a a = true := by
  simp [keysEq]

theorem mem_keys_of_find? {k : String} {a v : EVal α} (h : a.find? k = some v) : k ∈ a.keys := by
  induction a with
  | dcons k' v' rest _ ih =>
    simp only [EVal.find?] at h
    split at h
    · simp [EVal.keys, *]
    · simp [EVal.keys, ih h]
  | _ => simp [EVal.find?] at h

theorem find?_of_mem_keys {k : String} {a : EVal α} (h : k ∈ a.keys) : ∃ v, a.find? k = some v := by
  induction a with
  | dcons k' v' rest _ ih =>
    simp only [EVal.keys, List.mem_cons] at h
    by_cases hk : k' = k
    · exact ⟨v', by simp [EVal.find?, hk]⟩
    · obtain ⟨v, hv⟩ := ih (h.resolve_left (Ne.symm hk))
      exact ⟨v, by simp [EVal.find?, hk, hv]⟩
  | _ => simp [EVal.keys] at h

theorem valid_of_find? {k : String} {a v : EVal α} (ha : a.valid = true) (h : a.find? k = some v) :
    v.valid = true := by
  induction a with
  | dcons k' v' rest _ ih =>
    simp only [EVal.valid, Bool.and_eq_true] at ha
    simp only [EVal.find?] at h
    split at h
    · cases h; exact ha.1.2
    · exact ih ha.2 h
  | _ => simp [EVal.find?] at h

theorem keysEq_mem {a b : EVal α} (h : keysEq a b = true) {k : String} : k ∈ a.keys ↔ k ∈ b.keys := by
  simp only [keysEq, Bool.and_eq_true, List.all_eq_true, decide_eq_true_eq] at h
  exact ⟨h.1 k, h.2 k⟩

/-- the entries loop finds, for every entry of `a`, a close partner in `b` -/
theorem entriesClose_lookup (t : Tol α) (a b : EVal α) (ha : a.isDict = true)
    (h : entriesClose t a b = true) :
    b.isDict = true ∧ ∀ k v, a.find? k = some v → ∃ w, b.find? k = some w ∧ valClose t v w = true := by
  induction a with
  | dnil => simp_all [entriesClose, EVal.find?]
  | dcons k' v' rest _ ih =>
    simp only [entriesClose, Bool.and_eq_true] at h
    obtain ⟨⟨hb, hm⟩, hr⟩ := h
    refine ⟨hb, ?_⟩
    intro k v hf
    simp only [EVal.find?] at hf
    split at hf
    · rename_i hk; subst hk; cases hf
      cases hw : b.find? k' with
      | none => simp [hw] at hm
      | some w =>
        simp only [hw, Bool.and_eq_true] at hm
        exact ⟨w, rfl, by simp [valClose, hm.1, hm.2]⟩
    · have hd : rest.isDict = true := by
        cases rest <;> simp_all [EVal.find?, EVal.isDict]
      exact (ih hd hr).2 k v hf
  | _ => simp [EVal.isDict] at ha

/-- conversely, when `a` has no repeated key -/
theorem entriesClose_of_lookup (t : Tol α) (a b : EVal α) (ha : a.isDict = true) (hv : a.valid = true)
    (hb : b.isDict = true)
    (h : ∀ k v, a.find? k = some v → ∃ w, b.find? k = some w ∧ valClose t v w = true) :
    entriesClose t a b = true := by
  induction a with
  | dnil => simp [entriesClose, hb]
  | dcons k' v' rest _ ih =>
    simp only [EVal.valid, Bool.and_eq_true, Bool.not_eq_true', decide_eq_false_iff_not] at hv
    obtain ⟨⟨⟨hnk, hrd⟩, hvv⟩, hrv⟩ := hv
    simp only [entriesClose, Bool.and_eq_true]
    refine ⟨⟨hb, ?_⟩, ?_⟩
    · obtain ⟨w, hw, hc⟩ := h k' v' (by simp [EVal.find?])
      simp only [valClose, Bool.and_eq_true] at hc
      simp [hw, hc.1, hc.2]
    · apply ih hrd hrv
      intro k v hf
      have hne : k' ≠ k := by
        rintro rfl; exact hnk (mem_keys_of_find? hf)
      exact h k v (by simp [EVal.find?, hne, hf])
  | _ => simp [EVal.isDict] at ha

theorem leafClose_exact_symm (a b : EVal α) : leafClose (exact : Tol α) a b = leafClose (exact : Tol α) b a := by
  cases a <;> cases b <;>
    simp [leafClose, arrClose_exact_eq, arrEqual_symm, eqCell_symm, eq_comm]

theorem leafClose_exact_imp (t : Tol α) (hr : 0 ≤ t.rtol) (ha : 0 ≤ t.atol) (a b : EVal α)
    (h : leafClose (exact : Tol α) a b = true) : leafClose t a b = true := by
  cases a <;> cases b <;> simp_all [leafClose, arrClose_exact_eq] <;>
    exact arrEqual_imp_close t hr ha _ _ h

theorem entriesClose_leaf (t : Tol α) (a b : EVal α) (ha : a.isDict = false) :
    entriesClose t a b = leafClose t a b := by
  cases a <;> simp_all [entriesClose, EVal.isDict]

theorem leafClose_dict_left (t : Tol α) (a b : EVal α) (ha : a.isDict = true) : leafClose t a b = false := by
  cases a <;> simp_all [leafClose, EVal.isDict]

theorem leafClose_dict_right (t : Tol α) (a b : EVal α) (hb : b.isDict = true) : leafClose t a b = false := by
  cases a <;> cases b <;> simp_all [leafClose, EVal.isDict]

theorem entriesClose_isDict (t : Tol α) (a b : EVal α) (ha : a.isDict = true)
    (h : entriesClose t a b = true) : b.isDict = true := by
  cases a <;> simp_all [entriesClose, EVal.isDict]

/-- exact comparison of stored values is symmetric (one direction; strengthened for the induction:
also for every value stored in `a`) -/
theorem valClose_exact_symm_aux (a : EVal α) (ha : a.valid = true) :
    (∀ b, b.valid = true → valClose (exact : Tol α) a b = true → valClose (exact : Tol α) b a = true) ∧
    (∀ k v, a.find? k = some v → ∀ w, w.valid = true →
      valClose (exact : Tol α) v w = true → valClose (exact : Tol α) w v = true) := by
  -- the dictionary case, given the statement for the stored values
  have dict : ∀ a : EVal α, a.isDict = true → a.valid = true →
      (∀ k v, a.find? k = some v → ∀ w, w.valid = true →
        valClose (exact : Tol α) v w = true → valClose (exact : Tol α) w v = true) →
      ∀ b, b.valid = true → valClose (exact : Tol α) a b = true → valClose (exact : Tol α) b a = true := by
    intro a had hav hst b hbv h
    simp only [valClose, Bool.and_eq_true] at h ⊢
    obtain ⟨hk, he⟩ := h
    obtain ⟨hbd, hl⟩ := entriesClose_lookup _ a b had he
    refine ⟨by rw [keysEq_symm]; exact hk, ?_⟩
    apply entriesClose_of_lookup _ b a hbd hbv had
    intro k w hw
    have hka : k ∈ a.keys := (keysEq_mem hk).mpr (mem_keys_of_find? hw)
    obtain ⟨v, hv⟩ := find?_of_mem_keys hka
    obtain ⟨w', hw', hc⟩ := hl k v hv
    rw [hw] at hw'; cases hw'
    exact ⟨v, hv, hst k v hv w (valid_of_find? hbv hw) hc⟩
  have leaf : ∀ a : EVal α, a.isDict = false →
      ∀ b, valClose (exact : Tol α) a b = true → valClose (exact : Tol α) b a = true := by
    intro a had b h
    simp only [valClose, Bool.and_eq_true] at h ⊢
    refine ⟨by rw [keysEq_symm]; exact h.1, ?_⟩
    have h2 := h.2
    rw [entriesClose_leaf _ a b had] at h2
    by_cases hbd : b.isDict = true
    · rw [leafClose_dict_right _ a b hbd] at h2; simp at h2
    · rw [entriesClose_leaf _ b a (by simpa using hbd), leafClose_exact_symm]; exact h2
  induction a with
  | dnil =>
    refine ⟨dict _ rfl ha (by simp [EVal.find?]), by simp [EVal.find?]⟩
  | dcons k' v' rest ihv ihr =>
    have hv := ha
    simp only [EVal.valid, Bool.and_eq_true] at hv
    have stored : ∀ k v, (EVal.dcons k' v' rest).find? k = some v → ∀ w, w.valid = true →
        valClose (exact : Tol α) v w = true → valClose (exact : Tol α) w v = true := by
      intro k v hf
      simp only [EVal.find?] at hf
      split at hf
      · cases hf; exact (ihv hv.1.2).1
      · exact (ihr hv.2).2 k v hf
    exact ⟨dict _ rfl ha stored, stored⟩
  | farr a => exact ⟨fun b _ => leaf _ rfl b, by simp [EVal.find?]⟩
  | xarr a => exact ⟨fun b _ => leaf _ rfl b, by simp [EVal.find?]⟩
  | int i => exact ⟨fun b _ => leaf _ rfl b, by simp [EVal.find?]⟩
  | str s => exact ⟨fun b _ => leaf _ rfl b, by simp [EVal.find?]⟩
  | flt x => exact ⟨fun b _ => leaf _ rfl b, by simp [EVal.find?]⟩

theorem valClose_exact_symm (a b : EVal α) (ha : a.valid = true) (hb : b.valid = true) :
    valClose (exact : Tol α) a b = valClose (exact : Tol α) b a := by
  rw [Bool.eq_iff_iff]
  exact ⟨(valClose_exact_symm_aux a ha).1 b hb, (valClose_exact_symm_aux b hb).1 a ha⟩

theorem entriesClose_exact_imp (t : Tol α) (hr : 0 ≤ t.rtol) (hat : 0 ≤ t.atol) (a : EVal α) :
    ∀ b, entriesClose (exact : Tol α) a b = true → entriesClose t a b = true := by
  induction a with
  | dnil => intro b h; simpa [entriesClose] using h
  | dcons k' v' rest ihv ihr =>
    intro b h
    simp only [entriesClose, Bool.and_eq_true] at h ⊢
    refine ⟨⟨h.1.1, ?_⟩, ihr b h.2⟩
    have hm := h.1.2
    cases hw : b.find? k' with
    | none => simp [hw] at hm
    | some w =>
      simp only [hw, Bool.and_eq_true] at hm ⊢
      exact ⟨hm.1, ihv w hm.2⟩
  | farr a => intro b h; rw [entriesClose_leaf _ _ _ rfl] at h ⊢; exact leafClose_exact_imp t hr hat _ _ h
  | xarr a => intro b h; rw [entriesClose_leaf _ _ _ rfl] at h ⊢; exact leafClose_exact_imp t hr hat _ _ h
  | int i => intro b h; rw [entriesClose_leaf _ _ _ rfl] at h ⊢; exact leafClose_exact_imp t hr hat _ _ h
  | str s => intro b h; rw [entriesClose_leaf _ _ _ rfl] at h ⊢; exact leafClose_exact_imp t hr hat _ _ h
  | flt x => intro b h; rw [entriesClose_leaf _ _ _ rfl] at h ⊢; exact leafClose_exact_imp t hr hat _ _ h

theorem valClose_exact_imp (t : Tol α) (hr : 0 ≤ t.rtol) (hat : 0 ≤ t.atol) (a b : EVal α)
    (h : valClose (exact : Tol α) a b = true) : valClose t a b = true := by
  simp only [valClose, Bool.and_eq_true] at h ⊢
  exact ⟨h.1, entriesClose_exact_imp t hr hat a b h.2⟩

theorem leafClose_exact_self (a : EVal α) (had : a.isDict = false) (hf : a.finite = true) :
    leafClose (exact : Tol α) a a = true := by
  cases a <;> simp_all [leafClose, EVal.isDict, EVal.finite, arrClose_exact_eq, arrEqual_self, eqCell_self]

/-- a finite value without repeated keys is exactly equal to itself (strengthened: its entries are
found in any dictionary that agrees with it on its keys) -/
theorem valClose_exact_self_aux (a : EVal α) (hv : a.valid = true) (hf : a.finite = true) :
    valClose (exact : Tol α) a a = true ∧
    (a.isDict = true → ∀ b : EVal α, b.isDict = true → (∀ k v, a.find? k = some v → b.find? k = some v) →
      entriesClose (exact : Tol α) a b = true) := by
  have leaf : ∀ a : EVal α, a.isDict = false → a.finite = true → valClose (exact : Tol α) a a = true := by
    intro a had hf
    simp [valClose, keysEq_self, entriesClose_leaf _ a a had, leafClose_exact_self a had hf]
  induction a with
  | dnil =>
    refine ⟨by simp [valClose, keysEq_self, entriesClose, EVal.isDict], ?_⟩
    intro _ b hb _
    simpa [entriesClose] using hb
  | dcons k' v' rest ihv ihr =>
    simp only [EVal.valid, Bool.and_eq_true, Bool.not_eq_true', decide_eq_false_iff_not] at hv
    obtain ⟨⟨⟨hnk, hrd⟩, hvv⟩, hrv⟩ := hv
    simp only [EVal.finite, Bool.and_eq_true] at hf
    have second : ∀ b : EVal α, b.isDict = true →
        (∀ k v, (EVal.dcons k' v' rest).find? k = some v → b.find? k = some v) →
        entriesClose (exact : Tol α) (EVal.dcons k' v' rest) b = true := by
      intro b hb hag
      simp only [entriesClose, Bool.and_eq_true]
      refine ⟨⟨hb, ?_⟩, ?_⟩
      · rw [hag k' v' (by simp [EVal.find?])]
        have := (ihv hvv hf.1).1
        simpa [valClose] using this
      · apply (ihr hrv hf.2).2 hrd b hb
        intro k v hfk
        have hne : k' ≠ k := by rintro rfl; exact hnk (mem_keys_of_find? hfk)
        exact hag k v (by simp [EVal.find?, hne, hfk])
    refine ⟨?_, fun _ => second⟩
    simp only [valClose, keysEq_self, Bool.true_and]
    exact second _ rfl (fun _ _ h => h)
  | farr a => exact ⟨leaf _ rfl hf, by simp [EVal.isDict]⟩
  | xarr a => exact ⟨leaf _ rfl hf, by simp [EVal.isDict]⟩
  | int i => exact ⟨leaf _ rfl hf, by simp [EVal.isDict]⟩
  | str s => exact ⟨leaf _ rfl hf, by simp [EVal.isDict]⟩
  | flt x => exact ⟨leaf _ rfl hf, by simp [EVal.isDict]⟩

theorem valClose_exact_self (a : EVal α) (hv : a.valid = true) (hf : a.finite = true) :
    valClose (exact : Tol α) a a = true := (valClose_exact_self_aux a hv hf).1

end Skc.Diff
