import Skc.Model.Diff
import Mathlib.Algebra.Order.Field.Basic
import Mathlib.Algebra.Order.AbsoluteValue.Basic
import Mathlib.Data.List.Basic
import Mathlib.Tactic

/-! Helper lemmas for the equality / diff model (used by `Skc.Props.C17`). -/
namespace Skc.Diff
set_option linter.unusedSectionVars false
set_option linter.unusedVariables false

variable {α : Type*} [Field α] [LinearOrder α] [IsStrictOrderedRing α]

/-! ### cells -/

theorem absv_eq (x : α) : absv x = |x| := by
  unfold absv
  split
  · rw [abs_of_nonneg ‹_›]
  · rw [abs_of_neg (lt_of_not_ge ‹_›)]

theorem eqCell_iff (x y : Option α) : eqCell x y = true ↔ ∃ v, x = some v ∧ y = some v := by
  cases x <;> cases y <;> simp [eqCell, eq_comm]

theorem closeCell_exact_eq (x y : Option α) : closeCell (exact : Tol α) x y = eqCell x y := by
  cases x <;> cases y <;> simp [closeCell, eqCell, exact, absv_eq, abs_nonpos_iff, sub_eq_zero]

theorem eqCell_symm (x y : Option α) : eqCell x y = eqCell y x := by
  cases x <;> cases y <;> simp [eqCell, eq_comm]

theorem eqCell_imp_close (t : Tol α) (hr : 0 ≤ t.rtol) (ha : 0 ≤ t.atol) (x y : Option α)
    (h : eqCell x y = true) : closeCell t x y = true := by
  obtain ⟨v, rfl, rfl⟩ := (eqCell_iff x y).mp h
  simp only [closeCell, sub_self, absv_eq, abs_zero, decide_eq_true_eq]
  positivity

theorem eqCell_self (x : Option α) (h : x.isSome = true) : eqCell x x = true := by
  cases x <;> simp_all [eqCell]

theorem cellsClose_exact_eq (a b : List (Option α)) : cellsClose (exact : Tol α) a b = cellsEq a b := by
  induction a generalizing b with
  | nil => cases b <;> simp [cellsClose, cellsEq]
  | cons x xs ih => cases b <;> simp [cellsClose, cellsEq, closeCell_exact_eq, ih]

theorem cellsEq_symm (a b : List (Option α)) : cellsEq a b = cellsEq b a := by
  induction a generalizing b with
  | nil => cases b <;> simp [cellsEq]
  | cons x xs ih => cases b <;> simp [cellsEq, eqCell_symm x, ih]

theorem cellsEq_imp_close (t : Tol α) (hr : 0 ≤ t.rtol) (ha : 0 ≤ t.atol) (a b : List (Option α))
    (h : cellsEq a b = true) : cellsClose t a b = true := by
  induction a generalizing b with
  | nil => cases b <;> simp_all [cellsClose, cellsEq]
  | cons x xs ih =>
    cases b with
    | nil => simp [cellsEq] at h
    | cons y ys =>
      simp only [cellsEq, Bool.and_eq_true] at h
      simp [cellsClose, eqCell_imp_close t hr ha x y h.1, ih ys h.2]

theorem cellsEq_self (a : List (Option α)) (h : a.all Option.isSome = true) : cellsEq a a = true := by
  induction a with
  | nil => simp [cellsEq]
  | cons x xs ih =>
    simp only [List.all_cons, Bool.and_eq_true] at h
    simp [cellsEq, eqCell_self x h.1, ih h.2]

/-! ### arrays -/

theorem dataClose_exact_eq (a b : NArr α) : dataClose (exact : Tol α) a b = cellsEq a.cells b.cells := by
  unfold dataClose
  split <;> simp [cellsClose_exact_eq]

theorem dataClose_exact_symm (a b : NArr α) : dataClose (exact : Tol α) a b = dataClose (exact : Tol α) b a := by
  rw [dataClose_exact_eq, dataClose_exact_eq, cellsEq_symm]

theorem dataClose_exact_imp (t : Tol α) (hr : 0 ≤ t.rtol) (ha : 0 ≤ t.atol) (a b : NArr α)
    (h : dataClose (exact : Tol α) a b = true) : dataClose t a b = true := by
  rw [dataClose_exact_eq] at h
  unfold dataClose
  split
  · exact h
  · exact cellsEq_imp_close t hr ha _ _ h

theorem arrClose_exact_eq (a b : NArr α) : arrClose (exact : Tol α) a b = arrEqual a b := by
  unfold arrClose arrEqual
  by_cases h : a.shape = b.shape <;> simp [h, dataClose_exact_eq]

theorem arrEqual_symm (a b : NArr α) : arrEqual a b = arrEqual b a := by
  unfold arrEqual
  rw [cellsEq_symm a.cells]
  by_cases h : a.shape = b.shape
  · simp [h]
  · simp [h, Ne.symm h]

theorem arrEqual_imp_close (t : Tol α) (hr : 0 ≤ t.rtol) (ha : 0 ≤ t.atol) (a b : NArr α)
    (h : arrEqual a b = true) : arrClose t a b = true := by
  unfold arrEqual at h
  simp only [Bool.and_eq_true, decide_eq_true_eq] at h
  unfold arrClose
  simp only [h.1, if_true]
  exact dataClose_exact_imp t hr ha a b (by rw [dataClose_exact_eq]; exact h.2)

theorem arrEqual_self (a : NArr α) (h : a.cells.all Option.isSome = true) : arrEqual a a = true := by
  simp [arrEqual, cellsEq_self a.cells h]

/-! ### extras -/

theorem keysEq_symm (a b : EVal α) : keysEq a b = keysEq b a := by
  unfold keysEq; exact Bool.and_comm _ _

theorem keysEq_self (a : EVal α) : keysEq a a = true := by
  simp [keysEq]

theorem mem_keys_of_find? {k : String} {a v : EVal α} (h : a.find? k = some v) : k ∈ a.keys := by
  induction a with
  | dcons k' v' rest _ ih =>
    simp only [EVal.find?] at h
    split at h
    · simp [EVal.keys, *]
    · simp [EVal.keys, ih h]
  | _ => simp [EVal.find?] at h

theorem find?_of_mem_keys {k : String} {a : EVal α} (h : k ∈ a.keys) : ∃ v, a.find? k = some v := by
  induction a with
  | dcons k' v' rest _ ih =>
    simp only [EVal.keys, List.mem_cons] at h
    by_cases hk : k' = k
    · exact ⟨v', by simp [EVal.find?, hk]⟩
    · obtain ⟨v, hv⟩ := ih (h.resolve_left (Ne.symm hk))
      exact ⟨v, by simp [EVal.find?, hk, hv]⟩
  | _ => simp [EVal.keys] at h

theorem valid_of_find? {k : String} {a v : EVal α} (ha : a.valid = true) (h : a.find? k = some v) :
    v.valid = true := by
  induction a with
  | dcons k' v' rest _ ih =>
    simp only [EVal.valid, Bool.and_eq_true] at ha
    simp only [EVal.find?] at h
    split at h
    · cases h; exact ha.1.2
    · exact ih ha.2 h
  | _ => simp [EVal.find?] at h

theorem keysEq_mem {a b : EVal α} (h : keysEq a b = true) {k : String} : k ∈ a.keys ↔ k ∈ b.keys := by
  simp only [keysEq, Bool.and_eq_true, List.all_eq_true, decide_eq_true_eq] at h
  exact ⟨h.1 k, h.2 k⟩

/-- the entries loop finds, for every entry of `a`, a close partner in `b` -/
theorem entriesClose_lookup (t : Tol α) (a b : EVal α) (ha : a.isDict = true)
    (h : entriesClose t a b = true) :
    b.isDict = true ∧ ∀ k v, a.find? k = some v → ∃ w, b.find? k = some w ∧ valClose t v w = true := by
  induction a with
  | dnil => simp_all [entriesClose, EVal.find?]
  | dcons k' v' rest _ ih =>
    simp only [entriesClose, Bool.and_eq_true] at h
    obtain ⟨⟨hb, hm⟩, hr⟩ := h
    refine ⟨hb, ?_⟩
    intro k v hf
    simp only [EVal.find?] at hf
    split at hf
    · rename_i hk; subst hk; cases hf
      cases hw : b.find? k' with
      | none => simp [hw] at hm
      | some w =>
        simp only [hw, Bool.and_eq_true] at hm
        exact ⟨w, rfl, by simp [valClose, hm.1, hm.2]⟩
    · have hd : rest.isDict = true := by
        cases rest <;> simp_all [EVal.find?, EVal.isDict]
      exact (ih hd hr).2 k v hf
  | _ => simp [EVal.isDict] at ha

/-- conversely, when `a` has no repeated key -/
theorem entriesClose_of_lookup (t : Tol α) (a b : EVal α) (ha : a.isDict = true) (hv : a.valid = true)
    (hb : b.isDict = true)
    (h : ∀ k v, a.find? k = some v → ∃ w, b.find? k = some w ∧ valClose t v w = true) :
    entriesClose t a b = true := by
  induction a with
  | dnil => simp [entriesClose, hb]
  | dcons k' v' rest _ ih =>
    simp only [EVal.valid, Bool.and_eq_true, Bool.not_eq_true', decide_eq_false_iff_not] at hv
    obtain ⟨⟨⟨hnk, hrd⟩, hvv⟩, hrv⟩ := hv
    simp only [entriesClose, Bool.and_eq_true]
    refine ⟨⟨hb, ?_⟩, ?_⟩
    · obtain ⟨w, hw, hc⟩ := h k' v' (by simp [EVal.find?])
      simp only [valClose, Bool.and_eq_true] at hc
      simp [hw, hc.1, hc.2]
    · apply ih hrd hrv
      intro k v hf
      have hne : k' ≠ k := by
        rintro rfl; exact hnk (mem_keys_of_find? hf)
      exact h k v (by simp [EVal.find?, hne, hf])
  | _ => simp [EVal.isDict] at ha

theorem leafClose_exact_symm (a b : EVal α) : leafClose (exact : Tol α) a b = leafClose (exact : Tol α) b a := by
  cases a <;> cases b <;>
    simp [leafClose, arrClose_exact_eq, arrEqual_symm, eqCell_symm, eq_comm]

theorem leafClose_exact_imp (t : Tol α) (hr : 0 ≤ t.rtol) (ha : 0 ≤ t.atol) (a b : EVal α)
    (h : leafClose (exact : Tol α) a b = true) : leafClose t a b = true := by
  cases a <;> cases b <;> simp_all [leafClose, arrClose_exact_eq] <;>
    exact arrEqual_imp_close t hr ha _ _ h

theorem entriesClose_leaf (t : Tol α) (a b : EVal α) (ha : a.isDict = false) :
    entriesClose t a b = leafClose t a b := by
  cases a <;> simp_all [entriesClose, EVal.isDict]

theorem leafClose_dict_left (t : Tol α) (a b : EVal α) (ha : a.isDict = true) : leafClose t a b = false := by
  cases a <;> simp_all [leafClose, EVal.isDict]

theorem leafClose_dict_right (t : Tol α) (a b : EVal α) (hb : b.isDict = true) : leafClose t a b = false := by
  cases a <;> cases b <;> simp_all [leafClose, EVal.isDict]

theorem entriesClose_isDict (t : Tol α) (a b : EVal α) (ha : a.isDict = true)
    (h : entriesClose t a b = true) : b.isDict = true := by
  cases a <;> simp_all [entriesClose, EVal.isDict]

/-- exact comparison of stored values is symmetric (one direction; strengthened for the induction:
also for every value stored in `a`) -/
theorem valClose_exact_symm_aux (a : EVal α) (ha : a.valid = true) :
    (∀ b, b.valid = true → valClose (exact : Tol α) a b = true → valClose (exact : Tol α) b a = true) ∧
    (∀ k v, a.find? k = some v → ∀ w, w.valid = true →
      valClose (exact : Tol α) v w = true → valClose (exact : Tol α) w v = true) := by
  -- the dictionary case, given the statement for the stored values
  have dict : ∀ a : EVal α, a.isDict = true → a.valid = true →
      (∀ k v, a.find? k = some v → ∀ w, w.valid = true →
        valClose (exact : Tol α) v w = true → valClose (exact : Tol α) w v = true) →
      ∀ b, b.valid = true → valClose (exact : Tol α) a b = true → valClose (exact : Tol α) b a = true := by
    intro a had hav hst b hbv h
    simp only [valClose, Bool.and_eq_true] at h ⊢
    obtain ⟨hk, he⟩ := h
    obtain ⟨hbd, hl⟩ := entriesClose_lookup _ a b had he
    refine ⟨by rw [keysEq_symm]; exact hk, ?_⟩
    apply entriesClose_of_lookup _ b a hbd hbv had
    intro k w hw
    have hka : k ∈ a.keys := (keysEq_mem hk).mpr (mem_keys_of_find? hw)
    obtain ⟨v, hv⟩ := find?_of_mem_keys hka
    obtain ⟨w', hw', hc⟩ := hl k v hv
    rw [hw] at hw'; cases hw'
    exact ⟨v, hv, hst k v hv w (valid_of_find? hbv hw) hc⟩
  have leaf : ∀ a : EVal α, a.isDict = false →
      ∀ b, valClose (exact : Tol α) a b = true → valClose (exact : Tol α) b a = true := by
    intro a had b h
    simp only [valClose, Bool.and_eq_true] at h ⊢
    refine ⟨by rw [keysEq_symm]; exact h.1, ?_⟩
    have h2 := h.2
    rw [entriesClose_leaf _ a b had] at h2
    by_cases hbd : b.isDict = true
    · rw [leafClose_dict_right _ a b hbd] at h2; simp at h2
    · rw [entriesClose_leaf _ b a (by simpa using hbd), leafClose_exact_symm]; exact h2
  induction a with
  | dnil =>
    refine ⟨dict _ rfl ha (by simp [EVal.find?]), by simp [EVal.find?]⟩
  | dcons k' v' rest ihv ihr =>
    have hv := ha
    simp only [EVal.valid, Bool.and_eq_true] at hv
    have stored : ∀ k v, (EVal.dcons k' v' rest).find? k = some v → ∀ w, w.valid = true →
        valClose (exact : Tol α) v w = true → valClose (exact : Tol α) w v = true := by
      intro k v hf
      simp only [EVal.find?] at hf
      split at hf
      · cases hf; exact (ihv hv.1.2).1
      · exact (ihr hv.2).2 k v hf
    exact ⟨dict _ rfl ha stored, stored⟩
  | farr a => exact ⟨fun b _ => leaf _ rfl b, by simp [EVal.find?]⟩
  | xarr a => exact ⟨fun b _ => leaf _ rfl b, by simp [EVal.find?]⟩
  | int i => exact ⟨fun b _ => leaf _ rfl b, by simp [EVal.find?]⟩
  | str s => exact ⟨fun b _ => leaf _ rfl b, by simp [EVal.find?]⟩
  | flt x => exact ⟨fun b _ => leaf _ rfl b, by simp [EVal.find?]⟩

theorem valClose_exact_symm (a b : EVal α) (ha : a.valid = true) (hb : b.valid = true) :
    valClose (exact : Tol α) a b = valClose (exact : Tol α) b a := by
  rw [Bool.eq_iff_iff]
  exact ⟨(valClose_exact_symm_aux a ha).1 b hb, (valClose_exact_symm_aux b hb).1 a ha⟩

theorem entriesClose_exact_imp (t : Tol α) (hr : 0 ≤ t.rtol) (hat : 0 ≤ t.atol) (a : EVal α) :
    ∀ b, entriesClose (exact : Tol α) a b = true → entriesClose t a b = true := by
  induction a with
  | dnil => intro b h; simpa [entriesClose] using h
  | dcons k' v' rest ihv ihr =>
    intro b h
    simp only [entriesClose, Bool.and_eq_true] at h ⊢
    refine ⟨⟨h.1.1, ?_⟩, ihr b h.2⟩
    have hm := h.1.2
    cases hw : b.find? k' with
    | none => simp [hw] at hm
    | some w =>
      simp only [hw, Bool.and_eq_true] at hm ⊢
      exact ⟨hm.1, ihv w hm.2⟩
  | farr a => intro b h; rw [entriesClose_leaf _ _ _ rfl] at h ⊢; exact leafClose_exact_imp t hr hat _ _ h
  | xarr a => intro b h; rw [entriesClose_leaf _ _ _ rfl] at h ⊢; exact leafClose_exact_imp t hr hat _ _ h
  | int i => intro b h; rw [entriesClose_leaf _ _ _ rfl] at h ⊢; exact leafClose_exact_imp t hr hat _ _ h
  | str s => intro b h; rw [entriesClose_leaf _ _ _ rfl] at h ⊢; exact leafClose_exact_imp t hr hat _ _ h
  | flt x => intro b h; rw [entriesClose_leaf _ _ _ rfl] at h ⊢; exact leafClose_exact_imp t hr hat _ _ h

theorem valClose_exact_imp (t : Tol α) (hr : 0 ≤ t.rtol) (hat : 0 ≤ t.atol) (a b : EVal α)
    (h : valClose (exact : Tol α) a b = true) : valClose t a b = true := by
  simp only [valClose, Bool.and_eq_true] at h ⊢
  exact ⟨h.1, entriesClose_exact_imp t hr hat a b h.2⟩

theorem leafClose_exact_self (a : EVal α) (had : a.isDict = false) (hf : a.finite = true) :
    leafClose (exact : Tol α) a a = true := by
  cases a <;> simp_all [leafClose, EVal.isDict, EVal.finite, arrClose_exact_eq, arrEqual_self, eqCell_self]

/-- a finite value without repeated keys is exactly equal to itself (strengthened: its entries are
found in any dictionary that agrees with it on its keys) -/
theorem valClose_exact_self_aux (a : EVal α) (hv : a.valid = true) (hf : a.finite = true) :
    valClose (exact : Tol α) a a = true ∧
    (a.isDict = true → ∀ b : EVal α, b.isDict = true → (∀ k v, a.find? k = some v → b.find? k = some v) →
      entriesClose (exact : Tol α) a b = true) := by
  have leaf : ∀ a : EVal α, a.isDict = false → a.finite = true → valClose (exact : Tol α) a a = true := by
    intro a had hf
    simp [valClose, keysEq_self, entriesClose_leaf _ a a had, leafClose_exact_self a had hf]
  induction a with
  | dnil =>
    refine ⟨by simp [valClose, keysEq_self, entriesClose, EVal.isDict], ?_⟩
    intro _ b hb _
    simpa [entriesClose] using hb
  | dcons k' v' rest ihv ihr =>
    simp only [EVal.valid, Bool.and_eq_true, Bool.not_eq_true', decide_eq_false_iff_not] at hv
    obtain ⟨⟨⟨hnk, hrd⟩, hvv⟩, hrv⟩ := hv
    simp only [EVal.finite, Bool.and_eq_true] at hf
    have second : ∀ b : EVal α, b.isDict = true →
        (∀ k v, (EVal.dcons k' v' rest).find? k = some v → b.find? k = some v) →
        entriesClose (exact : Tol α) (EVal.dcons k' v' rest) b = true := by
      intro b hb hag
      simp only [entriesClose, Bool.and_eq_true]
      refine ⟨⟨hb, ?_⟩, ?_⟩
      · rw [hag k' v' (by simp [EVal.find?])]
        have := (ihv hvv hf.1).1
        simpa [valClose] using this
      · apply (ihr hrv hf.2).2 hrd b hb
        intro k v hfk
        have hne : k' ≠ k := by rintro rfl; exact hnk (mem_keys_of_find? hfk)
        exact hag k v (by simp [EVal.find?, hne, hfk])
    refine ⟨?_, fun _ => second⟩
    simp only [valClose, keysEq_self, Bool.true_and]
    exact second _ rfl (fun _ _ h => h)
  | farr a => exact ⟨leaf _ rfl hf, by simp [EVal.isDict]⟩
  | xarr a => exact ⟨leaf _ rfl hf, by simp [EVal.isDict]⟩
  | int i => exact ⟨leaf _ rfl hf, by simp [EVal.isDict]⟩
  | str s => exact ⟨leaf _ rfl hf, by simp [EVal.isDict]⟩
  | flt x => exact ⟨leaf _ rfl hf, by simp [EVal.isDict]⟩

theorem valClose_exact_self (a : EVal α) (hv : a.valid = true) (hf : a.finite = true) :
    valClose (exact : Tol α) a a = true := (valClose_exact_self_aux a hv hf).1

/-! ### the generic loop on comparators that cannot raise -/

/-- a member present on both sides whose comparator answers `b` -/
def mkM (n : String) (b : Bool) : Member := { name := n, cmp := fun _ => .ok b }

theorem membersLoop_mk (l : List (String × Bool)) :
    membersLoop (l.map fun p => mkM p.1 p.2) = .ok ((l.filter fun p => !p.2).map (·.1)) := by
  induction l with
  | nil => rfl
  | cons p l ih =>
    obtain ⟨n, b⟩ := p
    simp only [List.map_cons, membersLoop]
    rw [ih]
    cases b <;> simp [mkM]

/-- names of the members whose comparator answered `False` -/
def failing (l : List (String × Bool)) : List String := (l.filter fun p => !p.2).map (·.1)

theorem failing_nil_iff (l : List (String × Bool)) : failing l = [] ↔ ∀ p ∈ l, p.2 = true := by
  induction l with
  | nil => simp [failing]
  | cons p l ih =>
    obtain ⟨n, b⟩ := p
    cases b <;> simp_all [failing]

/-! ### decision matrices -/

/-- the members of `DecisionMatrix.diff` with the answer of their comparator -/
def dmFlags (t : Tol α) (cd : Bool) (d e : DM α) : List (String × Bool) :=
  [ ("shape", decide (d.shape = e.shape)),
    ("criteria", decide (d.shape = e.shape) && decide (d.criteria = e.criteria)),
    ("alternatives", decide (d.shape = e.shape) && decide (d.alternatives = e.alternatives)),
    ("objectives", decide (d.shape = e.shape) && decide (d.objectives = e.objectives)),
    ("weights", decide (d.shape = e.shape) && cellsClose t d.weights e.weights),
    ("matrix", decide (d.shape = e.shape) && dataClose t d.matrix e.matrix) ] ++
  (if cd then [("dtypes", decide (d.shape = e.shape) && decide (d.dtypes = e.dtypes))] else [])

theorem dmMembers_eq (t : Tol α) (cd : Bool) (d e : DM α) :
    dmMembers t cd (decide (d.shape = e.shape)) d e = (dmFlags t cd d e).map fun p => mkM p.1 p.2 := by
  cases cd <;> rfl

theorem dmDiff_dm (t : Tol α) (cd : Bool) (d e : DM α) :
    dmDiff t cd d (.dm e) =
      .ok (if d.oid = e.oid then ⟨false, []⟩ else ⟨false, failing (dmFlags t cd d e)⟩) := by
  simp only [dmDiff, diffGeneric, dmMembers_eq, membersLoop_mk, failing]
  by_cases h : d.oid = e.oid <;> simp [h]

theorem diffGeneric_types (i : Bool) (lt rt : PyType) (h : lt ≠ rt) (ms : List Member) :
    diffGeneric i lt rt ms = .ok ⟨true, []⟩ := by
  simp [diffGeneric, h]

/-! ### results -/

def resFlags (t : Tol α) (r s : Res α) : List (String × Bool) :=
  [ ("method", decide (r.method = s.method)),
    ("alternatives", decide (r.alternatives = s.alternatives)),
    ("values", arrClose t r.values s.values),
    ("extra_", valClose t r.extra s.extra) ]

theorem resMembers_eq (t : Tol α) (r s : Res α) :
    resMembers t r s = (resFlags t r s).map fun p => mkM p.1 p.2 := rfl

theorem Res.pyType_eq_iff (r s : Res α) : r.pyType = s.pyType ↔ r.kind = s.kind := by
  cases hr : r.kind <;> cases hs : s.kind <;> simp [Res.pyType, Obj.pyType, hr, hs]

theorem resDiff_res (t : Tol α) (r s : Res α) :
    resDiff t r (.res s) =
      .ok (if r.kind ≠ s.kind then ⟨true, []⟩
           else if r.oid = s.oid then ⟨false, []⟩ else ⟨false, failing (resFlags t r s)⟩) := by
  simp only [resDiff, diffGeneric, resMembers_eq, membersLoop_mk, failing]
  by_cases hk : r.kind = s.kind
  · have : r.pyType = s.pyType := (Res.pyType_eq_iff r s).mpr hk
    by_cases h : r.oid = s.oid <;> simp [h, hk, this]
  · have : r.pyType ≠ s.pyType := fun h => hk ((Res.pyType_eq_iff r s).mp h)
    simp [hk, this]

theorem resDiff_total (t : Tol α) (r : Res α) (y : Obj α) : ∃ d, resDiff t r y = .ok d := by
  cases y with
  | res s => exact ⟨_, resDiff_res t r s⟩
  | _ => simp only [resDiff, diffGeneric, membersLoop]; split <;> exact ⟨_, rfl⟩

/-- a result has no differences with another one (tolerance `t`) -/
def resSame (t : Tol α) (r s : Res α) : Bool :=
  decide (r.kind = s.kind) && (decide (r.oid = s.oid) || (resFlags t r s).all (·.2))

theorem resDiff_hasDifferences (t : Tol α) (r s : Res α) :
    ∃ d, resDiff t r (.res s) = .ok d ∧ d.hasDifferences = !resSame t r s := by
  refine ⟨_, resDiff_res t r s, ?_⟩
  by_cases hk : r.kind = s.kind
  · by_cases h : r.oid = s.oid
    · simp [hk, h, resSame, Difference.hasDifferences]
    · simp only [hk, h, resSame, Difference.hasDifferences, ne_eq, not_true_eq_false, if_false,
        Bool.false_or, decide_true, Bool.true_and, decide_false]
      cases hf : (resFlags t r s).all (·.2)
      · have : failing (resFlags t r s) ≠ [] := by
          intro h0
          rw [failing_nil_iff] at h0
          have : (resFlags t r s).all (·.2) = true := List.all_eq_true.mpr (by simpa using h0)
          simp [hf] at this
        cases hfl : failing (resFlags t r s) with
        | nil => exact absurd hfl this
        | cons _ _ => simp
      · have : failing (resFlags t r s) = [] := by
          rw [failing_nil_iff]; simpa using List.all_eq_true.mp hf
        simp [this]
  · simp [hk, resSame, Difference.hasDifferences]

/-! ### rank comparators -/

theorem ranksClose_eq (t : Tol α) (as bs : List (String × Res α)) :
    ranksCloseWith (resDiff t) as bs =
      .ok (decide (as.length = bs.length) &&
        (List.zip as bs).all fun p => decide (p.1.1 = p.2.1) && resSame t p.1.2 p.2.2) := by
  induction as generalizing bs with
  | nil => cases bs <;> simp [ranksCloseWith]
  | cons a as ih =>
    cases bs with
    | nil => simp [ranksCloseWith]
    | cons b bs =>
      obtain ⟨n, r⟩ := a
      obtain ⟨m, s⟩ := b
      obtain ⟨d, hd, hh⟩ := resDiff_hasDifferences t r s
      simp only [ranksCloseWith, hd, hh, ih, List.length_cons, List.zip_cons_cons, List.all_cons]
      by_cases hl : as.length = bs.length
      · by_cases hn : n = m
        · cases hs : resSame t r s <;> simp [hl, hn]
        · simp [hl, hn]
      · simp [hl]

theorem rcmpDiff_rcmp (t : Tol α) (c e : Rcmp α) :
    rcmpDiff t c (.rcmp e) =
      .ok (if c.oid = e.oid then ⟨false, []⟩
           else ⟨false, failing [("ranks", decide (c.ranks.length = e.ranks.length) &&
              (List.zip c.ranks e.ranks).all fun p => decide (p.1.1 = p.2.1) && resSame t p.1.2 p.2.2)]⟩) := by
  simp only [rcmpDiff, rcmpDiffWith, diffGeneric, membersLoop, ranksClose_eq]
  generalize (decide (c.ranks.length = e.ranks.length) &&
    (List.zip c.ranks e.ranks).all fun p => decide (p.1.1 = p.2.1) && resSame t p.1.2 p.2.2) = X
  by_cases h : c.oid = e.oid
  · simp [h]
  · cases X <;> simp [h, failing]

/-! ### totality, different types -/

theorem Res.pyType_ne_dm (r : Res α) : r.pyType ≠ .dm := by
  cases h : r.kind <;> simp [Res.pyType, Obj.pyType, h]

theorem Res.pyType_ne_rcmp (r : Res α) : r.pyType ≠ .rcmp := by
  cases h : r.kind <;> simp [Res.pyType, Obj.pyType, h]

theorem Res.pyType_ne_other (r : Res α) (n : String) : r.pyType ≠ .other n := by
  cases h : r.kind <;> simp [Res.pyType, Obj.pyType, h]

theorem diff_total' (t : Tol α) (cd : Bool) (x y : Obj α) : ∃ d, diff t cd x y = .ok d := by
  cases x with
  | dm d =>
    cases y with
    | dm e => exact ⟨_, dmDiff_dm t cd d e⟩
    | _ => simp only [diff, dmDiff, diffGeneric, membersLoop]; split <;> exact ⟨_, rfl⟩
  | res r => exact resDiff_total t r y
  | rcmp c =>
    cases y with
    | rcmp e => exact ⟨_, rcmpDiff_rcmp t c e⟩
    | _ => simp only [diff, rcmpDiff, rcmpDiffWith, diffGeneric, membersLoop]; split <;> exact ⟨_, rfl⟩
  | other i n => simp only [diff, diffGeneric, membersLoop]; split <;> exact ⟨_, rfl⟩

/-- objects of different Python types: `different_types`, no member looked at -/
theorem diff_of_types_ne (t : Tol α) (cd : Bool) (x y : Obj α) (h : x.pyType ≠ y.pyType) :
    diff t cd x y = .ok ⟨true, []⟩ := by
  cases x with
  | dm d =>
    cases y with
    | dm e => simp [Obj.pyType] at h
    | _ => simp only [diff, dmDiff]; exact diffGeneric_types _ _ _ h _
  | res r =>
    cases y with
    | res s => simp only [diff, resDiff]; exact diffGeneric_types _ _ _ h _
    | _ => simp only [diff, resDiff]; exact diffGeneric_types _ _ _ h _
  | rcmp c =>
    cases y with
    | rcmp e => simp [Obj.pyType] at h
    | _ => simp only [diff, rcmpDiff, rcmpDiffWith]; exact diffGeneric_types _ _ _ h _
  | other i n => simp only [diff]; exact diffGeneric_types _ _ _ h _

theorem diff_other_other (t : Tol α) (cd : Bool) (i j : Nat) (n : String) :
    diff t cd (.other i n : Obj α) (.other j n) = .ok ⟨false, []⟩ := by
  simp [diff, diffGeneric, membersLoop, Obj.pyType, Obj.oid]

/-! ### symmetry of exact equality -/

theorem decide_eq_comm {β : Type*} [DecidableEq β] (a b : β) : decide (a = b) = decide (b = a) := by
  by_cases h : a = b
  · simp [h]
  · simp [h, Ne.symm h]

theorem dmFlags_exact_symm (cd : Bool) (d e : DM α) :
    dmFlags (exact : Tol α) cd d e = dmFlags (exact : Tol α) cd e d := by
  simp only [dmFlags, cellsClose_exact_eq, dataClose_exact_eq, cellsEq_symm d.weights,
    cellsEq_symm d.matrix.cells, decide_eq_comm d.shape, decide_eq_comm d.criteria,
    decide_eq_comm d.alternatives, decide_eq_comm d.objectives, decide_eq_comm d.dtypes]

theorem resFlags_exact_symm (r s : Res α) (hr : r.extra.valid = true) (hs : s.extra.valid = true) :
    resFlags (exact : Tol α) r s = resFlags (exact : Tol α) s r := by
  simp only [resFlags, arrClose_exact_eq, arrEqual_symm r.values, valClose_exact_symm r.extra s.extra hr hs,
    decide_eq_comm r.method, decide_eq_comm r.alternatives]

theorem resSame_exact_symm (r s : Res α) (hr : r.valid = true) (hs : s.valid = true) :
    resSame (exact : Tol α) r s = resSame (exact : Tol α) s r := by
  simp only [Res.valid, Bool.and_eq_true] at hr hs
  simp only [resSame, resFlags_exact_symm r s hr.2 hs.2, decide_eq_comm r.kind, decide_eq_comm r.oid]

theorem ranksFlag_exact_symm (as bs : List (String × Res α)) (ha : ∀ p ∈ as, p.2.valid = true)
    (hb : ∀ p ∈ bs, p.2.valid = true) :
    ((List.zip as bs).all fun p => decide (p.1.1 = p.2.1) && resSame (exact : Tol α) p.1.2 p.2.2) =
    ((List.zip bs as).all fun p => decide (p.1.1 = p.2.1) && resSame (exact : Tol α) p.1.2 p.2.2) := by
  induction as generalizing bs with
  | nil => cases bs <;> simp
  | cons a as ih =>
    cases bs with
    | nil => simp
    | cons b bs =>
      simp only [List.zip_cons_cons, List.all_cons]
      rw [ih bs (fun p hp => ha p (List.mem_cons_of_mem _ hp)) (fun p hp => hb p (List.mem_cons_of_mem _ hp)),
        resSame_exact_symm a.2 b.2 (ha a List.mem_cons_self) (hb b List.mem_cons_self),
        decide_eq_comm a.1]

theorem aequals_symm_exact (x y : Obj α) (hx : x.valid = true) (hy : y.valid = true) :
    diff (exact : Tol α) true x y = diff (exact : Tol α) true y x := by
  by_cases hT : x.pyType = y.pyType
  · cases x with
    | dm d =>
      cases y with
      | dm e =>
        simp only [diff, dmDiff_dm, dmFlags_exact_symm true d e]
        by_cases h : d.oid = e.oid
        · simp [h]
        · simp [h, Ne.symm h]
      | res s => exact absurd hT.symm (Res.pyType_ne_dm s)
      | rcmp e => simp [Obj.pyType] at hT
      | other j m => simp [Obj.pyType] at hT
    | res r =>
      cases y with
      | dm e => exact absurd hT (Res.pyType_ne_dm r)
      | res s =>
        have hk : r.kind = s.kind := (Res.pyType_eq_iff r s).mp hT
        simp only [Obj.valid, Res.valid, Bool.and_eq_true] at hx hy
        simp only [diff, resDiff_res, resFlags_exact_symm r s hx.2 hy.2, hk]
        by_cases h : r.oid = s.oid
        · simp [h]
        · simp [h, Ne.symm h]
      | rcmp e => exact absurd hT (Res.pyType_ne_rcmp r)
      | other j m => exact absurd hT (Res.pyType_ne_other r m)
    | rcmp c =>
      cases y with
      | dm e => simp [Obj.pyType] at hT
      | res s => exact absurd hT.symm (Res.pyType_ne_rcmp s)
      | rcmp e =>
        simp only [Obj.valid, List.all_eq_true] at hx hy
        simp only [diff, rcmpDiff_rcmp, ranksFlag_exact_symm c.ranks e.ranks hx hy,
          decide_eq_comm c.ranks.length]
        by_cases h : c.oid = e.oid
        · simp [h]
        · simp [h, Ne.symm h]
      | other j m => simp [Obj.pyType] at hT
    | other i n =>
      cases y with
      | dm e => simp [Obj.pyType] at hT
      | res s => exact absurd hT.symm (Res.pyType_ne_other s n)
      | rcmp e => simp [Obj.pyType] at hT
      | other j m =>
        simp only [Obj.pyType, PyType.other.injEq] at hT
        subst hT
        rw [diff_other_other, diff_other_other]
  · rw [diff_of_types_ne _ _ x y hT, diff_of_types_ne _ _ y x (Ne.symm hT)]

/-! ### a copy is exactly equal -/

theorem dmFlags_exact_copy (cd : Bool) (d e : DM α) (h : ({ d with oid := 0 } : DM α) = { e with oid := 0 })
    (hf : (Obj.dm d).finite = true) : ∀ p ∈ dmFlags (exact : Tol α) cd d e, p.2 = true := by
  obtain ⟨o1, sh, al, cr, ob, w, m, dt⟩ := d
  obtain ⟨o2, sh', al', cr', ob', w', m', dt'⟩ := e
  simp only [DM.mk.injEq, true_and] at h
  obtain ⟨rfl, rfl, rfl, rfl, rfl, rfl, rfl⟩ := h
  simp only [Obj.finite, Bool.and_eq_true] at hf
  cases cd <;>
    simp [dmFlags, cellsClose_exact_eq, dataClose_exact_eq, cellsEq_self _ hf.1, cellsEq_self _ hf.2]

theorem resSame_exact_copy (r s : Res α) (h : r.strip = s.strip) (hv : r.valid = true)
    (hf : r.finite = true) : resSame (exact : Tol α) r s = true := by
  obtain ⟨o1, k, m, al, v, ex⟩ := r
  obtain ⟨o2, k', m', al', v', ex'⟩ := s
  simp only [Res.strip, Res.mk.injEq, true_and] at h
  obtain ⟨rfl, rfl, rfl, rfl, rfl⟩ := h
  simp only [Res.valid, Res.finite, Bool.and_eq_true] at hv hf
  simp [resSame, resFlags, arrClose_exact_eq, arrEqual_self _ hf.1, valClose_exact_self _ hv.2 hf.2]

theorem ranksFlag_exact_copy (as bs : List (String × Res α))
    (h : as.map (fun p => (p.1, p.2.strip)) = bs.map (fun p => (p.1, p.2.strip)))
    (hv : ∀ p ∈ as, p.2.valid = true) (hf : ∀ p ∈ as, p.2.finite = true) :
    (decide (as.length = bs.length) &&
      (List.zip as bs).all fun p => decide (p.1.1 = p.2.1) && resSame (exact : Tol α) p.1.2 p.2.2) = true := by
  induction as generalizing bs with
  | nil => cases bs <;> simp_all
  | cons a as ih =>
    cases bs with
    | nil => simp at h
    | cons b bs =>
      simp only [List.map_cons, List.cons.injEq, Prod.mk.injEq] at h
      obtain ⟨⟨hn, hs⟩, ht⟩ := h
      have := ih bs ht (fun p hp => hv p (List.mem_cons_of_mem _ hp)) (fun p hp => hf p (List.mem_cons_of_mem _ hp))
      simp only [Bool.and_eq_true, decide_eq_true_eq] at this
      simp [this.1, this.2, hn, resSame_exact_copy a.2 b.2 hs (hv a List.mem_cons_self) (hf a List.mem_cons_self)]

/-! ### exact equality implies tolerant equality -/

theorem dmFlags_exact_imp (t : Tol α) (hr : 0 ≤ t.rtol) (ha : 0 ≤ t.atol) (cd : Bool) (d e : DM α)
    (h : ∀ p ∈ dmFlags (exact : Tol α) true d e, p.2 = true) : ∀ p ∈ dmFlags t cd d e, p.2 = true := by
  simp only [dmFlags, if_true, List.cons_append, List.nil_append, List.mem_cons, List.not_mem_nil, or_false,
    forall_eq_or_imp, forall_eq, Bool.and_eq_true, decide_eq_true_eq] at h
  obtain ⟨hs, hc, hal, ho, hw, hm, hd⟩ := h
  have hw' := cellsEq_imp_close t hr ha _ _ (by rw [← cellsClose_exact_eq]; exact hw.2)
  have hm' := dataClose_exact_imp t hr ha _ _ hm.2
  cases cd <;> simp [dmFlags, hs, hc.2, hal.2, ho.2, hw', hm', hd.2]

theorem resFlags_exact_imp (t : Tol α) (hr : 0 ≤ t.rtol) (ha : 0 ≤ t.atol) (r s : Res α)
    (h : (resFlags (exact : Tol α) r s).all (·.2) = true) : (resFlags t r s).all (·.2) = true := by
  simp only [resFlags, List.all_cons, List.all_nil, Bool.and_true, Bool.and_eq_true, decide_eq_true_eq] at h ⊢
  obtain ⟨hm, hal, hv, he⟩ := h
  exact ⟨hm, hal, arrEqual_imp_close t hr ha _ _ (by rw [← arrClose_exact_eq]; exact hv),
    valClose_exact_imp t hr ha _ _ he⟩

theorem resSame_exact_imp (t : Tol α) (hr : 0 ≤ t.rtol) (ha : 0 ≤ t.atol) (r s : Res α)
    (h : resSame (exact : Tol α) r s = true) : resSame t r s = true := by
  simp only [resSame, Bool.and_eq_true, Bool.or_eq_true] at h ⊢
  exact ⟨h.1, h.2.imp id (resFlags_exact_imp t hr ha r s)⟩

theorem ranksFlag_exact_imp (t : Tol α) (hr : 0 ≤ t.rtol) (ha : 0 ≤ t.atol) (as bs : List (String × Res α))
    (h : ((List.zip as bs).all fun p => decide (p.1.1 = p.2.1) && resSame (exact : Tol α) p.1.2 p.2.2) = true) :
    ((List.zip as bs).all fun p => decide (p.1.1 = p.2.1) && resSame t p.1.2 p.2.2) = true := by
  simp only [List.all_eq_true, Bool.and_eq_true] at h ⊢
  exact fun p hp => ⟨(h p hp).1, resSame_exact_imp t hr ha _ _ (h p hp).2⟩

theorem aequalsOf_ok_true_iff (d : Difference) :
    aequalsOf (.ok d) = .ok true ↔ d.differentTypes = false ∧ d.members = [] := by
  obtain ⟨dt, ms⟩ := d
  cases dt <;> cases ms <;> simp [aequalsOf, Difference.hasDifferences]

end Skc.Diff
