import Skc.Model.Transform
set_option linter.unusedSectionVars false
set_option linter.unusedVariables false

/-! Definitions and helper lemmas for C10 (`Skc/Props/C10.lean` holds the statements to audit).

* `Stored env d` — the invariant every real `DecisionMatrix` has: its dtypes are READ OFF the stored
  frame, so casting the matrix to its own dtypes changes nothing.
* `Env.Lawful` — the two facts about pandas the pipeline theorem needs: casting twice is casting
  once, and the dtypes pandas infers for a (rectangular) matrix store that matrix exactly.
* `FrameAt P d d'` / `Frame env T P` — every part outside `P` of the output is the same value as
  in the input. -/
namespace Skc.Transform

variable {α δ : Type}

/-- the matrix is stored in its own dtypes -/
def Stored (env : Env α δ) (d : Parts α δ) : Prop := astype env d.dtypes d.matrix = d.matrix

structure Env.Lawful (env : Env α δ) : Prop where
  cast_idem : ∀ dt x, env.cast dt (env.cast dt x) = env.cast dt x
  infer_exact : ∀ n m, (∀ r ∈ m, r.length = n) → astype env (env.infer n m) m = m

/-- every part outside `P` is the same value -/
def FrameAt (P : List Part) (d d' : Parts α δ) : Prop :=
  (Part.matrix ∉ P → d'.matrix = d.matrix) ∧
  (Part.objectives ∉ P → d'.objectives = d.objectives) ∧
  (Part.weights ∉ P → d'.weights = d.weights) ∧
  (Part.dtypes ∉ P → d'.dtypes = d.dtypes) ∧
  (Part.alternatives ∉ P → d'.alternatives = d.alternatives) ∧
  (Part.criteria ∉ P → d'.criteria = d.criteria)

/-- whatever stored decision matrix `T.transform` answers on, every part outside `P` comes back as
the same value -/
def Frame (env : Env α δ) (T : TData α δ) (P : List Part) : Prop :=
  ∀ d d', Stored env d → transform env T d = .ok d' → FrameAt P d d'

theorem FrameAt.refl (P : List Part) (d : Parts α δ) : FrameAt P d d :=
  ⟨fun _ => rfl, fun _ => rfl, fun _ => rfl, fun _ => rfl, fun _ => rfl, fun _ => rfl⟩

theorem FrameAt.mono {P Q : List Part} (h : ∀ p, p ∈ P → p ∈ Q) {d d' : Parts α δ}
    (f : FrameAt P d d') : FrameAt Q d d' :=
  ⟨fun hn => f.1 fun hp => hn (h _ hp), fun hn => f.2.1 fun hp => hn (h _ hp),
   fun hn => f.2.2.1 fun hp => hn (h _ hp), fun hn => f.2.2.2.1 fun hp => hn (h _ hp),
   fun hn => f.2.2.2.2.1 fun hp => hn (h _ hp), fun hn => f.2.2.2.2.2 fun hp => hn (h _ hp)⟩

theorem FrameAt.trans {P : List Part} {d d' d'' : Parts α δ} (f : FrameAt P d d')
    (g : FrameAt P d' d'') : FrameAt P d d'' :=
  ⟨fun hn => (g.1 hn).trans (f.1 hn), fun hn => (g.2.1 hn).trans (f.2.1 hn),
   fun hn => (g.2.2.1 hn).trans (f.2.2.1 hn), fun hn => (g.2.2.2.1 hn).trans (f.2.2.2.1 hn),
   fun hn => (g.2.2.2.2.1 hn).trans (f.2.2.2.2.1 hn),
   fun hn => (g.2.2.2.2.2 hn).trans (f.2.2.2.2.2 hn)⟩

/-! ## `from_mcda_data` -/

/-- what `from_mcda_data` answers when it answers: four keys are stored as given; with
`dtypes=None` so is the matrix and the dtypes are inferred from it; with dtypes given the matrix is
cast and the dtypes are those -/
theorem fromMcda_ok (env : Env α δ) (k : Dict α δ) (p : Parts α δ) (h : fromMcda env k = .ok p) :
    p.objectives = k.objectives ∧ p.weights = k.weights ∧ p.alternatives = k.alternatives ∧
    p.criteria = k.criteria ∧
    (k.dtypes = none → p.matrix = k.matrix ∧ p.dtypes = env.infer k.criteria.length k.matrix) ∧
    (∀ ds, k.dtypes = some ds → p.matrix = astype env ds k.matrix ∧ p.dtypes = ds) := by
  unfold fromMcda at h
  split at h
  · cases h
  · split at h
    · cases h
    · split at h
      · cases h
      · split at h
        · cases h
        · split at h
          · rename_i hd
            cases h
            refine ⟨rfl, rfl, rfl, rfl, fun _ => ⟨rfl, rfl⟩, fun ds hds => ?_⟩
            rw [hd] at hds
            cases hds
          · rename_i ds hd
            split at h
            · cases h
            · cases h
              refine ⟨rfl, rfl, rfl, rfl, fun hn => ?_, fun ds' hds => ?_⟩
              · rw [hd] at hn
                cases hn
              · rw [hd] at hds
                cases hds
                exact ⟨rfl, rfl⟩

/-- the shapes `from_mcda_data` has checked -/
theorem fromMcda_shape (env : Env α δ) (k : Dict α δ) (p : Parts α δ) (h : fromMcda env k = .ok p) :
    k.extra = [] ∧ k.alternatives.length = k.matrix.length ∧
    (∀ r ∈ k.matrix, r.length = k.criteria.length) ∧ k.weights.length = k.criteria.length ∧
    k.objectives.length = k.criteria.length ∧ (∀ ds, k.dtypes = some ds → ds.length = k.criteria.length) := by
  unfold fromMcda at h
  split at h
  · cases h
  · rename_i h1
    split at h
    · cases h
    · rename_i h2
      split at h
      · cases h
      · rename_i h3
        split at h
        · cases h
        · rename_i h4
          have e1 : k.extra = [] := by simpa using h1
          have e2 : k.alternatives.length = k.matrix.length := by simpa using h2
          have e3 : ∀ r ∈ k.matrix, r.length = k.criteria.length := by simpa using h3
          have e4 : k.weights.length = k.criteria.length ∧ k.objectives.length = k.criteria.length := by
            simpa using h4
          refine ⟨e1, e2, e3, e4.1, e4.2, fun ds hds => ?_⟩
          rw [hds] at h
          simp only at h
          split at h
          · cases h
          · rename_i h5
            simpa using h5

/-- unfolding `transform` -/
theorem transform_ok (env : Env α δ) (T : TData α δ) (d d' : Parts α δ)
    (h : transform env T d = .ok d') : ∃ k, T (toDict d) = .ok k ∧ fromMcda env k = .ok d' := by
  unfold transform at h
  split at h
  · cases h
  · rename_i k hk
    exact ⟨k, hk, h⟩

/-! ## `astype`, `select` -/

theorem zipWith_cast_idem (env : Env α δ) (hl : env.Lawful) (ds : List δ) (row : List α) :
    List.zipWith env.cast ds (List.zipWith env.cast ds row) = List.zipWith env.cast ds row := by
  induction ds generalizing row with
  | nil => simp
  | cons dt ds ih =>
    cases row with
    | nil => simp
    | cons x xs => simp [hl.cast_idem, ih]

theorem astype_idem (env : Env α δ) (hl : env.Lawful) (ds : List δ) (m : List (List α)) :
    astype env ds (astype env ds m) = astype env ds m := by
  unfold astype
  simp [List.map_map, Function.comp_def, zipWith_cast_idem env hl]

@[simp] theorem select_nil_left {β : Type} (xs : List β) : select [] xs = [] := by
  cases xs <;> rfl

@[simp] theorem select_nil_right {β : Type} (m : List Bool) : select m ([] : List β) = [] := by
  cases m with
  | nil => rfl
  | cons b m => cases b <;> rfl

theorem select_sublist {β : Type} (m : List Bool) (xs : List β) : (select m xs).Sublist xs := by
  induction m generalizing xs with
  | nil => simp
  | cons b m ih =>
    cases xs with
    | nil => simp
    | cons x xs =>
      cases b
      · exact (ih xs).cons x
      · exact (ih xs).cons_cons x

theorem select_zip {β γ : Type} (m : List Bool) (xs : List β) (ys : List γ) :
    select m (xs.zip ys) = (select m xs).zip (select m ys) := by
  induction m generalizing xs ys with
  | nil => simp
  | cons b m ih =>
    cases xs with
    | nil => simp
    | cons x xs =>
      cases ys with
      | nil => simp
      | cons y ys =>
        cases b
        · simpa [select] using ih xs ys
        · simpa [select] using ih xs ys

theorem select_map {β γ : Type} (f : β → γ) (m : List Bool) (xs : List β) :
    select m (xs.map f) = (select m xs).map f := by
  induction m generalizing xs with
  | nil => simp
  | cons b m ih =>
    cases xs with
    | nil => simp
    | cons x xs =>
      cases b
      · simpa [select] using ih xs
      · simpa [select] using ih xs

theorem astype_select (env : Env α δ) (ds : List δ) (b : List Bool) (m : List (List α)) :
    astype env ds (select b m) = select b (astype env ds m) := by
  unfold astype
  rw [select_map]

/-- the surviving (alternative, row) pairs of a masked matrix -/
theorem select_pairs_sublist {β γ : Type} (b : List Bool) (xs : List β) (ys : List γ) :
    ((select b xs).zip (select b ys)).Sublist (xs.zip ys) := by
  rw [← select_zip]
  exact select_sublist _ _

/-! ## the output of a transform is again a stored matrix -/

theorem fromMcda_stored (env : Env α δ) (hl : env.Lawful) (k : Dict α δ) (p : Parts α δ)
    (h : fromMcda env k = .ok p) : Stored env p := by
  have ho := fromMcda_ok env k p h
  have hsh := fromMcda_shape env k p h
  unfold Stored
  cases hd : k.dtypes with
  | none =>
    obtain ⟨hm, hdt⟩ := ho.2.2.2.2.1 hd
    rw [hm, hdt]
    exact hl.infer_exact _ _ hsh.2.2.1
  | some ds =>
    obtain ⟨hm, hdt⟩ := ho.2.2.2.2.2 ds hd
    rw [hm, hdt]
    exact astype_idem env hl ds _

theorem transform_stored (env : Env α δ) (hl : env.Lawful) (T : TData α δ) (d d' : Parts α δ)
    (h : transform env T d = .ok d') : Stored env d' := by
  obtain ⟨k, _, hk⟩ := transform_ok env T d d' h
  exact fromMcda_stored env hl k d' hk

/-! ## cells -/

/-- the cell in row `i`, column `j` (`none` outside the matrix) -/
def cellAt (m : List (List α)) (i j : Nat) : Option α := (m[i]?).bind fun r => r[j]?

theorem cellAt_astype (env : Env α δ) (ds : List δ) (m : List (List α)) (i j : Nat) :
    cellAt (astype env ds m) i j =
      match ds[j]?, cellAt m i j with
      | some dt, some x => some (env.cast dt x)
      | _, _ => none := by
  unfold cellAt astype
  rw [List.getElem?_map]
  cases hr : m[i]? with
  | none => cases ds[j]? <;> simp
  | some r =>
    simp only [Option.map_some, Option.bind_some]
    rw [List.getElem?_zipWith]
    cases ds[j]? <;> cases r[j]? <;> simp

/-! ## the example world is lawful -/

theorem Ex.env_lawful : Ex.env.Lawful := by
  refine ⟨fun dt x => ?_, fun n m hlen => ?_⟩
  · cases dt
    · show x / 10 * 10 / 10 * 10 = x / 10 * 10
      omega
    · rfl
  · unfold astype
    conv => rhs; rw [← List.map_id m]
    apply List.map_congr_left
    intro row hrow
    simp only [id]
    apply List.ext_getElem?
    intro j
    rw [List.getElem?_zipWith]
    cases hx : row[j]? with
    | none => cases (Ex.env.infer n m)[j]? <;> rfl
    | some x =>
      have hj : j < n := by
        have := hlen row hrow
        have h2 : j < row.length := by
          rcases Nat.lt_or_ge j row.length with h | h
          · exact h
          · rw [List.getElem?_eq_none h] at hx
            cases hx
        omega
      have hinf : (Ex.env.infer n m)[j]? =
          some (if m.all (fun row => (row.getD j 0) % 10 == 0) then Ex.Dt.int else Ex.Dt.float) := by
        simp only [Ex.env, Ex.inferCols, List.getElem?_map, List.getElem?_range hj, Option.map_some]
      rw [hinf]
      simp only
      split
      · rename_i hall
        rw [List.all_eq_true] at hall
        have h1 := hall row hrow
        rw [List.getD_eq_getElem?_getD, hx] at h1
        simp only [Option.getD_some, beq_iff_eq] at h1
        show some (x / 10 * 10) = some x
        congr 1
        omega
      · rfl

end Skc.Transform
