import Skc.Proofs.Scalers
import Skc.Proofs.Perm

set_option linter.unusedSectionVars false
set_option linter.unusedVariables false

/-! # Helpers for C05, transformers: scalers, shifters and objective inverters under permutations of
the alternatives (rows, `σ`) and of the criteria (columns with objectives and weights, `τ`).

Every matrix kernel of `Skc/Model/Scalers.lean` has the shape `T A i j = g (A i j) (column j of A)`
where the column enters only through `np.sum` / `np.max` / `np.min` / `np.any` — reductions that do not
depend on the order of their entries.  Hence `…_rowPerm` (the proof rewrites the reductions with
`sumFin_perm` / `maxFin_perm` / `minFin_perm` / `anyFin_perm`) and `…_colPerm` (definitional: output
column `j` of the permuted problem is computed from input column `τ j` alone).  The weights kernels
reduce over the whole vector: `…V_perm`.  `Data.permute σ τ` is the decision problem written down in
another order; `transformData_permute` lifts the kernel facts to the classes, `runAll_permute` to any
finite pipeline. -/
namespace Skc.Scalers
open Skc Finset

variable {m n : ℕ}

/-! ## the decision problem written down in another order -/
section permute
variable {α : Type}

/-- alternatives listed in the order `σ`, criteria — with their objectives and weights — in the order
`τ`: position `(i, j)` of the new matrix holds the value of alternative `σ i` on criterion `τ j` -/
def Data.permute (σ : Equiv.Perm (Fin m)) (τ : Equiv.Perm (Fin n)) (d : Data m n α) : Data m n α :=
  { matrix := fun i j => d.matrix (σ i) (τ j)
    objectives := fun j => d.objectives (τ j)
    weights := fun j => d.weights (τ j) }

/-- two decision data are equal as soon as their three parts agree entry by entry -/
theorem Data.ext_parts {d e : Data m n α} (h1 : ∀ i j, d.matrix i j = e.matrix i j)
    (h2 : ∀ j, d.objectives j = e.objectives j) (h3 : ∀ j, d.weights j = e.weights j) : d = e := by
  cases d; cases e
  simp only [Data.mk.injEq]
  exact ⟨funext fun i => funext (h1 i), funext h2, funext h3⟩

theorem Data.permute_one (d : Data m n α) : d.permute 1 1 = d := rfl

/-- reordering twice is reordering by the composition -/
theorem Data.permute_permute (σ σ' : Equiv.Perm (Fin m)) (τ τ' : Equiv.Perm (Fin n)) (d : Data m n α) :
    (d.permute σ τ).permute σ' τ' = d.permute (σ * σ') (τ * τ') := rfl

/-- reordering can be undone -/
theorem Data.permute_symm (σ : Equiv.Perm (Fin m)) (τ : Equiv.Perm (Fin n)) (d : Data m n α) :
    (d.permute σ τ).permute σ⁻¹ τ⁻¹ = d := by
  rw [Data.permute_permute, mul_inv_cancel, mul_inv_cancel]; rfl

/-! ### abstract steps and pipelines -/

/-- a preprocessing step that commutes with every reordering of the decision problem -/
structure PermStep (m n : ℕ) (α : Type) where
  run : Data m n α → Data m n α
  comm : ∀ (σ : Equiv.Perm (Fin m)) (τ : Equiv.Perm (Fin n)) (d : Data m n α),
    run (d.permute σ τ) = (run d).permute σ τ

/-- run the functions in order (`SKCPipeline.transform`) -/
def runFns : List (Data m n α → Data m n α) → Data m n α → Data m n α
  | [], d => d
  | f :: rest, d => runFns rest (f d)

/-- run the steps in order -/
def runAll (steps : List (PermStep m n α)) (d : Data m n α) : Data m n α := runFns (steps.map (·.run)) d

/-- induction over the pipeline, for one fixed reordering `σ`, `τ` -/
theorem runFns_permute (σ : Equiv.Perm (Fin m)) (τ : Equiv.Perm (Fin n)) (fs : List (Data m n α → Data m n α))
    (h : ∀ f ∈ fs, ∀ d : Data m n α, f (d.permute σ τ) = (f d).permute σ τ) (d : Data m n α) :
    runFns fs (d.permute σ τ) = (runFns fs d).permute σ τ := by
  induction fs generalizing d with
  | nil => rfl
  | cons f rest ih =>
    show runFns rest (f (d.permute σ τ)) = (runFns rest (f d)).permute σ τ
    rw [h f List.mem_cons_self d]
    exact ih (fun g hg => h g (List.mem_cons_of_mem _ hg)) (f d)

theorem runAll_permute (steps : List (PermStep m n α)) (σ : Equiv.Perm (Fin m)) (τ : Equiv.Perm (Fin n))
    (d : Data m n α) : runAll steps (d.permute σ τ) = (runAll steps d).permute σ τ := by
  apply runFns_permute
  intro f hf e
  obtain ⟨s, _, rfl⟩ := List.mem_map.mp hf
  exact s.comm σ τ e

end permute

/-! ## matrix kernels: rows -/
section field
variable {α : Type} [Field α] [LinearOrder α] [IsStrictOrderedRing α]

theorem scaleBySumM_rowPerm (A : Mat m n α) (σ : Equiv.Perm (Fin m)) (i : Fin m) (j : Fin n) :
    scaleBySumM (fun i => A (σ i)) i j = scaleBySumM A (σ i) j := by
  show A (σ i) j / sumFin (fun k => A (σ k) j) = A (σ i) j / sumFin (fun k => A k j)
  rw [sumFin_perm (fun k => A k j) σ]

theorem scaleByVectorM_rowPerm [MathFns α] (A : Mat m n α) (σ : Equiv.Perm (Fin m)) (i : Fin m) (j : Fin n) :
    scaleByVectorM (fun i => A (σ i)) i j = scaleByVectorM A (σ i) j := by
  show A (σ i) j / MathFns.sqrt (sumFin fun k => A (σ k) j * A (σ k) j) =
    A (σ i) j / MathFns.sqrt (sumFin fun k => A k j * A k j)
  rw [sumFin_perm (fun k => A k j * A k j) σ]

theorem maxAbsScale_rowPerm [NeZero m] (A : Mat m n α) (σ : Equiv.Perm (Fin m)) (i : Fin m) (j : Fin n) :
    maxAbsScale (fun i => A (σ i)) i j = maxAbsScale A (σ i) j := by
  show A (σ i) j / handleZeros (maxFin fun k => absv (A (σ k) j)) =
    A (σ i) j / handleZeros (maxFin fun k => absv (A k j))
  rw [maxFin_perm (fun k => absv (A k j)) σ]

theorem minMaxScale_rowPerm [NeZero m] (lo hi : α) (clip : Bool) (A : Mat m n α) (σ : Equiv.Perm (Fin m))
    (i : Fin m) (j : Fin n) :
    minMaxScale lo hi clip (fun i => A (σ i)) i j = minMaxScale lo hi clip A (σ i) j := by
  have h1 : (minFin fun k => A (σ k) j) = minFin fun k => A k j := minFin_perm (fun k => A k j) σ
  have h2 : (maxFin fun k => A (σ k) j) = maxFin fun k => A k j := maxFin_perm (fun k => A k j) σ
  simp only [minMaxScale, h1, h2]

theorem standardScale_rowPerm [MathFns α] (withMean withStd : Bool) (A : Mat m n α) (σ : Equiv.Perm (Fin m))
    (i : Fin m) (j : Fin n) :
    standardScale withMean withStd (fun i => A (σ i)) i j = standardScale withMean withStd A (σ i) j := by
  have h1 : (sumFin fun k => A (σ k) j) = sumFin fun k => A k j := sumFin_perm (fun k => A k j) σ
  have h2 : ∀ μ : α, (sumFin fun k => (A (σ k) j - μ) * (A (σ k) j - μ)) = sumFin fun k => (A k j - μ) * (A k j - μ) :=
    fun μ => sumFin_perm (fun k => (A k j - μ) * (A k j - μ)) σ
  simp only [standardScale, h1, h2]

theorem cenitScale_rowPerm [NeZero m] (A : Mat m n α) (o : Vec n Obj) (σ : Equiv.Perm (Fin m)) (i : Fin m) (j : Fin n) :
    cenitScale (fun i => A (σ i)) o i j = cenitScale A o (σ i) j := by
  have h1 : (minFin fun k => A (σ k) j) = minFin fun k => A k j := minFin_perm (fun k => A k j) σ
  have h2 : (maxFin fun k => A (σ k) j) = maxFin fun k => A k j := maxFin_perm (fun k => A k j) σ
  simp only [cenitScale, h1, h2]

theorem pushNegativesM_rowPerm [NeZero m] (A : Mat m n α) (σ : Equiv.Perm (Fin m)) (i : Fin m) (j : Fin n) :
    pushNegativesM (fun i => A (σ i)) i j = pushNegativesM A (σ i) j := by
  have h1 : (minFin fun k => A (σ k) j) = minFin fun k => A k j := minFin_perm (fun k => A k j) σ
  simp only [pushNegativesM, h1]

theorem addValueToZeroM_rowPerm (v : α) (A : Mat m n α) (σ : Equiv.Perm (Fin m)) (i : Fin m) (j : Fin n) :
    addValueToZeroM v (fun i => A (σ i)) i j = addValueToZeroM v A (σ i) j := by
  have h1 : (anyFin fun k => isZero (A (σ k) j)) = anyFin fun k => isZero (A k j) :=
    anyFin_perm (fun k => isZero (A k j)) σ
  simp only [addValueToZeroM, h1]

/-! ## matrix kernels: rows and columns together
(columns alone are definitional; these are the forms `transformData_permute` consumes) -/

/-- from the two one-sided facts to the two-sided one -/
theorem both_of_row_col {T : Mat m n α → Mat m n α}
    (hr : ∀ (A : Mat m n α) (σ : Equiv.Perm (Fin m)) i j, T (fun i => A (σ i)) i j = T A (σ i) j)
    (hc : ∀ (A : Mat m n α) (τ : Equiv.Perm (Fin n)) i j, T (fun i j => A i (τ j)) i j = T A i (τ j))
    (A : Mat m n α) (σ : Equiv.Perm (Fin m)) (τ : Equiv.Perm (Fin n)) (i : Fin m) (j : Fin n) :
    T (fun i j => A (σ i) (τ j)) i j = T A (σ i) (τ j) := by
  have h := hr (fun i j => A i (τ j)) σ i j
  exact h.trans (hc A τ (σ i) j)

/-- the same for kernels that read the objectives -/
theorem both_of_row_col_obj {T : Mat m n α → Vec n Obj → Mat m n α}
    (hr : ∀ (A : Mat m n α) o (σ : Equiv.Perm (Fin m)) i j, T (fun i => A (σ i)) o i j = T A o (σ i) j)
    (hc : ∀ (A : Mat m n α) o (τ : Equiv.Perm (Fin n)) i j, T (fun i j => A i (τ j)) (fun j => o (τ j)) i j = T A o i (τ j))
    (A : Mat m n α) (o : Vec n Obj) (σ : Equiv.Perm (Fin m)) (τ : Equiv.Perm (Fin n)) (i : Fin m) (j : Fin n) :
    T (fun i j => A (σ i) (τ j)) (fun j => o (τ j)) i j = T A o (σ i) (τ j) := by
  have h := hr (fun i j => A i (τ j)) (fun j => o (τ j)) σ i j
  exact h.trans (hc A o τ (σ i) j)

/-! ## weights kernels -/

theorem scaleBySumV_perm (w : Vec n α) (τ : Equiv.Perm (Fin n)) (j : Fin n) :
    scaleBySumV (fun j => w (τ j)) j = scaleBySumV w (τ j) := by
  show w (τ j) / sumFin (fun k => w (τ k)) = w (τ j) / sumFin w
  rw [sumFin_perm w τ]

theorem scaleByVectorV_perm [MathFns α] (w : Vec n α) (τ : Equiv.Perm (Fin n)) (j : Fin n) :
    scaleByVectorV (fun j => w (τ j)) j = scaleByVectorV w (τ j) := by
  show w (τ j) / MathFns.sqrt (sumFin fun k => w (τ k) * w (τ k)) = w (τ j) / MathFns.sqrt (sumFin fun k => w k * w k)
  rw [sumFin_perm (fun k => w k * w k) τ]

theorem pushNegativesV_perm [NeZero n] (w : Vec n α) (τ : Equiv.Perm (Fin n)) (j : Fin n) :
    pushNegativesV (fun j => w (τ j)) j = pushNegativesV w (τ j) := by
  have h1 : (minFin fun k => w (τ k)) = minFin w := minFin_perm w τ
  simp only [pushNegativesV, h1]

theorem addValueToZeroV_perm (v : α) (w : Vec n α) (τ : Equiv.Perm (Fin n)) (j : Fin n) :
    addValueToZeroV v (fun j => w (τ j)) j = addValueToZeroV v w (τ j) := by
  have h1 : (anyFin fun k => isZero (w (τ k))) = anyFin fun k => isZero (w k) := anyFin_perm (fun k => isZero (w k)) τ
  simp only [addValueToZeroV, h1]

/-- `_run_sklearn_scaler` on the weights: the weights become the single column of an `(n, 1)` array, so
reordering the criteria reorders its *rows* — row equivariance of the estimator is what is needed -/
theorem runSklearnV_perm (S : Mat n 1 α → Mat n 1 α)
    (hS : ∀ (B : Mat n 1 α) (τ : Equiv.Perm (Fin n)) i j, S (fun i => B (τ i)) i j = S B (τ i) j)
    (w : Vec n α) (τ : Equiv.Perm (Fin n)) (j : Fin n) :
    runSklearnV S (fun j => w (τ j)) j = runSklearnV S w (τ j) :=
  hS (asColumn w) τ j 0

/-! ## the classes -/

/-- `SKCMatrixAndWeightTransformerABC._transform_data` commutes with reordering as soon as its matrix
function and its weights function do, whatever the target -/
theorem transformData_permute (t : Target) (fM : Mat m n α → Mat m n α) (fW : Vec n α → Vec n α)
    (hM : ∀ (A : Mat m n α) (σ : Equiv.Perm (Fin m)) (τ : Equiv.Perm (Fin n)) i j,
      fM (fun i j => A (σ i) (τ j)) i j = fM A (σ i) (τ j))
    (hW : ∀ (w : Vec n α) (τ : Equiv.Perm (Fin n)) j, fW (fun j => w (τ j)) j = fW w (τ j))
    (σ : Equiv.Perm (Fin m)) (τ : Equiv.Perm (Fin n)) (d : Data m n α) :
    transformData t fM fW (d.permute σ τ) = (transformData t fM fW d).permute σ τ := by
  apply Data.ext_parts
  · intro i j
    cases t
    · exact hM d.matrix σ τ i j
    · rfl
    · exact hM d.matrix σ τ i j
  · intro j; rfl
  · intro j
    cases t
    · rfl
    · exact hW d.weights τ j
    · exact hW d.weights τ j

/-- the weights a matrix-and-weights transformer returns do not depend on the order of the
alternatives (its weights function never sees the matrix) -/
theorem transformData_weights_row_invariant (t : Target) (fM : Mat m n α → Mat m n α) (fW : Vec n α → Vec n α)
    (σ : Equiv.Perm (Fin m)) (d : Data m n α) :
    (transformData t fM fW (d.permute σ 1)).weights = (transformData t fM fW d).weights := by
  cases t <;> rfl

end field
end Skc.Scalers
