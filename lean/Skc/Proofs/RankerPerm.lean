import Skc.Proofs.Electre
import Mathlib.Data.List.Perm.Basic
set_option linter.unusedSectionVars false

/-! The ELECTRE2 distillation loop is equivariant under a relabelling of the alternatives. -/
namespace Skc.Electre

/-- the rank the loop's output gives to alternative `i` (as `rankerDirect` reads it) -/
def rankOfIdx (pairs : List (Nat × Nat)) (i : Nat) : Nat := ((pairs.find? (·.1 == i)).map (·.2)).getD 0

theorem rankOfIdx_map_const (l : List Nat) (r i : Nat) (h : i ∈ l) : rankOfIdx (l.map (·, r)) i = r := by
  unfold rankOfIdx
  induction l with
  | nil => simp at h
  | cons a t ih =>
    simp only [List.map_cons, List.find?_cons]
    by_cases ha : a = i
    · simp [ha]
    · have hi : i ∈ t := by
        rcases List.mem_cons.mp h with h | h
        · exact absurd h.symm ha
        · exact h
      have : (a == i) = false := by simpa using ha
      simp only [this]
      exact ih hi

theorem rankOfIdx_append_left (l : List Nat) (r : Nat) (rest : List (Nat × Nat)) (i : Nat) (h : i ∈ l) :
    rankOfIdx (l.map (·, r) ++ rest) i = r := by
  unfold rankOfIdx
  rw [List.find?_append]
  have := rankOfIdx_map_const l r i h
  unfold rankOfIdx at this
  cases hf : (l.map (·, r)).find? (·.1 == i) with
  | none =>
    exfalso
    have hnone := List.find?_eq_none.mp hf
    exact hnone (i, r) (List.mem_map.mpr ⟨i, h, rfl⟩) (by simp)
  | some p => simpa [hf] using this

theorem rankOfIdx_append_right (l : List Nat) (r : Nat) (rest : List (Nat × Nat)) (i : Nat) (h : i ∉ l) :
    rankOfIdx (l.map (·, r) ++ rest) i = rankOfIdx rest i := by
  unfold rankOfIdx
  rw [List.find?_append]
  have hf : (l.map (·, r)).find? (·.1 == i) = none := by
    rw [List.find?_eq_none]
    intro p hp
    obtain ⟨x, hx, rfl⟩ := List.mem_map.mp hp
    simp only [beq_iff_eq]
    intro hxi; exact h (hxi ▸ hx)
  simp [hf]

/-- membership in the round kernel, transported along a relabelling `π` -/
theorem roundKernel_relabel (S W : Graph) (π : Nat → Nat) (rem1 rem2 : List Nat)
    (hperm : rem2.Perm (rem1.map π)) (j : Nat) (hj : j ∈ rem1) (hinj : ∀ a ∈ rem1, ∀ b ∈ rem1, π a = π b → a = b) :
    π j ∈ roundKernel S W rem2 ↔ j ∈ roundKernel (fun a b => S (π a) (π b)) (fun a b => W (π a) (π b)) rem1 := by
  have hmem : ∀ k, k ∈ rem2 ↔ ∃ i ∈ rem1, π i = k := by
    intro k; rw [hperm.mem_iff, List.mem_map]
  unfold roundKernel
  simp only [List.mem_filter, Bool.and_eq_true, Bool.not_eq_true', List.any_eq_true, List.any_eq_false]
  constructor
  · rintro ⟨_, h1, ⟨k, hk, hw⟩⟩
    refine ⟨hj, fun i hi => h1 (π i) ((hmem _).mpr ⟨i, hi, rfl⟩), ?_⟩
    obtain ⟨i, hi, rfl⟩ := (hmem k).mp hk
    exact ⟨i, hi, hw⟩
  · rintro ⟨_, h1, ⟨i, hi, hw⟩⟩
    refine ⟨(hmem _).mpr ⟨j, hj, rfl⟩, ?_, ⟨π i, (hmem _).mpr ⟨i, hi, rfl⟩, hw⟩⟩
    intro k hk
    obtain ⟨i', hi', rfl⟩ := (hmem k).mp hk
    exact h1 i' hi'

/-- equivariance of the whole distillation: under the relabelling `π` every alternative gets the
rank its image gets in the relabelled problem (whatever order the remaining alternatives are listed in) -/
theorem rankerLoop_relabel (S W : Graph) (π : Nat → Nat) :
    ∀ (fuel : Nat) (rem1 rem2 : List Nat) (r : Nat), rem2.Perm (rem1.map π) →
      (∀ a ∈ rem1, ∀ b ∈ rem1, π a = π b → a = b) → ∀ i ∈ rem1,
      rankOfIdx (rankerLoop (fun a b => S (π a) (π b)) (fun a b => W (π a) (π b)) fuel rem1 r) i =
        rankOfIdx (rankerLoop S W fuel rem2 r) (π i) := by
  intro fuel
  induction fuel with
  | zero =>
    intro rem1 rem2 r hperm _ i hi
    simp only [rankerLoop]
    rw [rankOfIdx_map_const rem1 r i hi,
        rankOfIdx_map_const rem2 r (π i) (hperm.mem_iff.mpr (List.mem_map.mpr ⟨i, hi, rfl⟩))]
  | succ f ih =>
    intro rem1 rem2 r hperm hinj i hi
    have hi2 : π i ∈ rem2 := hperm.mem_iff.mpr (List.mem_map.mpr ⟨i, hi, rfl⟩)
    have hne1 : rem1.isEmpty = false := by cases rem1 <;> simp_all
    have hne2 : rem2.isEmpty = false := by cases rem2 <;> simp_all
    set S' : Graph := fun a b => S (π a) (π b) with hS'
    set W' : Graph := fun a b => W (π a) (π b) with hW'
    have hK : ∀ j ∈ rem1, (π j ∈ roundKernel S W rem2 ↔ j ∈ roundKernel S' W' rem1) :=
      fun j hj => roundKernel_relabel S W π rem1 rem2 hperm j hj hinj
    have hKemp : (roundKernel S' W' rem1).isEmpty = (roundKernel S W rem2).isEmpty := by
      rw [Bool.eq_iff_iff, List.isEmpty_iff, List.isEmpty_iff]
      constructor
      · intro h1
        by_contra h2
        obtain ⟨k, hk⟩ := List.exists_mem_of_ne_nil _ h2
        have hk2 := roundKernel_sub S W rem2 k hk
        obtain ⟨j, hj, rfl⟩ := List.mem_map.mp (hperm.mem_iff.mp hk2)
        have := (hK j hj).mp hk
        rw [h1] at this; simp at this
      · intro h2
        by_contra h1
        obtain ⟨j, hj⟩ := List.exists_mem_of_ne_nil _ h1
        have hj1 := roundKernel_sub S' W' rem1 j hj
        have := (hK j hj1).mpr hj
        rw [h2] at this; simp at this
    unfold rankerLoop
    simp only [hne1, hne2, Bool.false_eq_true, if_false]
    by_cases hemp : (roundKernel S W rem2).isEmpty = true
    · simp only [hemp, hKemp, if_true]
      rw [rankOfIdx_map_const rem1 r i hi, rankOfIdx_map_const rem2 r (π i) hi2]
    · have hemp' : (roundKernel S' W' rem1).isEmpty = false := by rw [hKemp]; simpa using hemp
      simp only [hemp, hemp', Bool.false_eq_true, if_false]
      by_cases hik : i ∈ roundKernel S' W' rem1
      · rw [rankOfIdx_append_left _ r _ i hik, rankOfIdx_append_left _ r _ (π i) ((hK i hi).mpr hik)]
      · have hik2 : π i ∉ roundKernel S W rem2 := fun h => hik ((hK i hi).mp h)
        rw [rankOfIdx_append_right _ r _ i hik, rankOfIdx_append_right _ r _ (π i) hik2]
        apply ih
        · -- the remaining lists still correspond
          have h1 : (rem2.filter (! (roundKernel S W rem2).contains ·)).Perm
              ((rem1.map π).filter (! (roundKernel S W rem2).contains ·)) := hperm.filter _
          refine h1.trans ?_
          rw [List.filter_map]
          apply List.Perm.of_eq
          congr 1
          apply List.filter_congr
          intro j hj
          simp only [Function.comp, List.contains_eq_mem, Bool.not_eq_eq_eq_not, Bool.not_not]
          have := hK j hj
          by_cases hjk : j ∈ roundKernel S' W' rem1
          · simp [hjk, this.mpr hjk]
          · have : π j ∉ roundKernel S W rem2 := fun h => hjk (this.mp h)
            simp [hjk, this]
        · intro a ha b hb; exact hinj a (List.mem_filter.mp ha).1 b (List.mem_filter.mp hb).1
        · exact List.mem_filter.mpr ⟨hi, by simpa using hik⟩

end Skc.Electre

namespace Skc.Electre

theorem rankerDirect_getD (S W : Graph) (m i : Nat) (hi : i < m) :
    (rankerDirect S W m).getD i 0 = rankOfIdx (rankerLoop S W m (List.range m) 1) i := by
  simp [rankerDirect, rankOfIdx, List.getD_eq_getElem?_getD, hi]

/-- a relabelling of the `m` alternatives: a map that permutes `0..m-1` -/
structure Relabel (m : Nat) (π : Nat → Nat) : Prop where
  perm : (List.range m).Perm ((List.range m).map π)
  inj : ∀ a ∈ List.range m, ∀ b ∈ List.range m, π a = π b → a = b

theorem Relabel.lt {m : Nat} {π : Nat → Nat} (h : Relabel m π) {i : Nat} (hi : i < m) : π i < m := by
  have : π i ∈ List.range m := h.perm.mem_iff.mpr (List.mem_map.mpr ⟨i, List.mem_range.mpr hi, rfl⟩)
  exact List.mem_range.mp this

/-- the direct ranking follows the alternatives under a relabelling of the graphs -/
theorem rankerDirect_relabel (S W : Graph) (m : Nat) (π : Nat → Nat) (h : Relabel m π) (i : Nat) (hi : i < m) :
    (rankerDirect (fun a b => S (π a) (π b)) (fun a b => W (π a) (π b)) m).getD i 0 =
      (rankerDirect S W m).getD (π i) 0 := by
  rw [rankerDirect_getD _ _ _ _ hi, rankerDirect_getD _ _ _ _ (h.lt hi)]
  exact rankerLoop_relabel S W π m (List.range m) (List.range m) 1 h.perm h.inj i (List.mem_range.mpr hi)

theorem rankerDirect_eq_map (S W : Graph) (m : Nat) :
    rankerDirect S W m = (List.range m).map (rankOfIdx (rankerLoop S W m (List.range m) 1)) := by
  simp [rankerDirect, rankOfIdx]

/-- … hence the relabelled direct ranking is a permutation of the original one -/
theorem rankerDirect_relabel_perm (S W : Graph) (m : Nat) (π : Nat → Nat) (h : Relabel m π) :
    (rankerDirect (fun a b => S (π a) (π b)) (fun a b => W (π a) (π b)) m).Perm (rankerDirect S W m) := by
  rw [rankerDirect_eq_map, rankerDirect_eq_map]
  have e : (List.range m).map (rankOfIdx (rankerLoop (fun a b => S (π a) (π b)) (fun a b => W (π a) (π b)) m (List.range m) 1)) =
      ((List.range m).map π).map (rankOfIdx (rankerLoop S W m (List.range m) 1)) := by
    rw [List.map_map]
    apply List.map_congr_left
    intro i hi
    exact rankerLoop_relabel S W π m (List.range m) (List.range m) 1 h.perm h.inj i hi
  rw [e]
  exact (h.perm.map _).symm

theorem foldl_max_perm {l₁ l₂ : List Nat} (h : l₁.Perm l₂) (a : Nat) : l₁.foldl max a = l₂.foldl max a := by
  induction h generalizing a with
  | nil => rfl
  | cons x _ ih => simp only [List.foldl_cons]; exact ih _
  | swap x y l => simp only [List.foldl_cons]; congr 1; omega
  | trans _ _ ih1 ih2 => exact (ih1 a).trans (ih2 a)

theorem rankerDirect_length (S W : Graph) (m : Nat) : (rankerDirect S W m).length = m := by simp [rankerDirect]

/-- the inverse ranking (reflection of the ranker on the transposed graphs) follows the alternatives too -/
theorem rankerInverted_relabel (S W : Graph) (m : Nat) (π : Nat → Nat) (h : Relabel m π) (i : Nat) (hi : i < m) :
    (rankerInverted (fun a b => S (π a) (π b)) (fun a b => W (π a) (π b)) m).getD i 0 =
      (rankerInverted S W m).getD (π i) 0 := by
  have hp := rankerDirect_relabel_perm (fun a b => S b a) (fun a b => W b a) m π h
  have hd := rankerDirect_relabel (fun a b => S b a) (fun a b => W b a) m π h i hi
  have hl1 : i < (rankerDirect (fun a b => S (π b) (π a)) (fun a b => W (π b) (π a)) m).length := by
    rw [rankerDirect_length]; exact hi
  have hl2 : π i < (rankerDirect (fun a b => S b a) (fun a b => W b a) m).length := by
    rw [rankerDirect_length]; exact h.lt hi
  unfold rankerInverted invertRanking
  simp only [List.getD_eq_getElem?_getD, List.getElem?_map, List.getElem?_eq_getElem hl1, List.getElem?_eq_getElem hl2,
    Option.map_some, Option.getD_some]
  simp only [List.getD_eq_getElem?_getD, List.getElem?_eq_getElem hl1, List.getElem?_eq_getElem hl2, Option.getD_some] at hd
  rw [foldl_max_perm hp 0, hd]

theorem zipWith_add_eq_map (d iv : List Nat) (m : Nat) (hd : d.length = m) (hiv : iv.length = m) :
    List.zipWith (· + ·) d iv = (List.range m).map fun k => d.getD k 0 + iv.getD k 0 := by
  apply List.ext_getElem
  · simp [hd, hiv]
  · intro k h1 h2
    have hk : k < m := by simpa [hd, hiv] using h1
    simp [List.getD_eq_getElem?_getD, List.getElem?_eq_getElem (hd ▸ hk), List.getElem?_eq_getElem (hiv ▸ hk)]

/-- the final ELECTRE2 ranking (dense rank of the sum of the two rankings) follows the alternatives -/
theorem electre2Rank_relabel (d iv : List Nat) (m : Nat) (hd : d.length = m) (hiv : iv.length = m)
    (π : Nat → Nat) (h : Relabel m π) (i : Nat) (hi : i < m) :
    (electre2Rank ((List.range m).map fun k => d.getD (π k) 0) ((List.range m).map fun k => iv.getD (π k) 0)).getD i 0 =
      (electre2Rank d iv).getD (π i) 0 := by
  unfold electre2Rank
  rw [zipWith_add_eq_map d iv m hd hiv,
      zipWith_add_eq_map _ _ m (by simp) (by simp)]
  set s : Nat → Nat := fun k => d.getD k 0 + iv.getD k 0 with hs
  have e : ((List.range m).map fun k => ((List.range m).map fun k => d.getD (π k) 0).getD k 0 +
      ((List.range m).map fun k => iv.getD (π k) 0).getD k 0) = ((List.range m).map π).map s := by
    rw [List.map_map]
    apply List.map_congr_left
    intro k hk
    have hk' : k < m := List.mem_range.mp hk
    simp [hs, List.getD_eq_getElem?_getD, hk']
  rw [e]
  have hperm : (((List.range m).map π).map s).Perm ((List.range m).map s) := (h.perm.map s).symm
  unfold denseRank
  have hi' : i < ((List.range m).map π).length := by simpa using hi
  have hπi : π i < (List.range m).length := by simpa using h.lt hi
  simp only [List.getD_eq_getElem?_getD, List.getElem?_map]
  rw [List.getElem?_eq_getElem (by simpa using hi), List.getElem?_eq_getElem (by simpa using h.lt hi)]
  simp only [List.getElem_map, List.getElem_range, Option.map_some, Option.getD_some]
  exact rankOf_perm hperm _

end Skc.Electre
