import Skc.Model.Scalers
import Skc.Proofs.Agg
import Mathlib.Algebra.BigOperators.Field

set_option linter.unusedSectionVars false

/-! Helper lemmas for the scaler kernels (C11, C12): the Boolean tests of the executable model as
propositions, column extrema, population mean / variance of an affine image. -/
namespace Skc.Scalers
open Skc Finset

variable {α : Type} [Field α] [LinearOrder α] [IsStrictOrderedRing α] {m n : ℕ}

theorem isZero_iff (x : α) : isZero x = true ↔ x = 0 := by
  unfold isZero
  simp only [decide_eq_true_eq, not_lt]
  constructor
  · rintro ⟨h1, h2⟩; exact le_antisymm h2 h1
  · rintro rfl; exact ⟨le_refl _, le_refl _⟩

theorem isZero_false_iff (x : α) : isZero x = false ↔ x ≠ 0 := by
  rw [← Bool.not_eq_true, isZero_iff]

theorem handleZeros_eq (s : α) : handleZeros s = if s = 0 then 1 else s := by
  unfold handleZeros
  by_cases h : s = 0
  · rw [if_pos ((isZero_iff s).mpr h), if_pos h]
  · rw [if_neg (by rw [isZero_iff]; exact h), if_neg h]

theorem handleZeros_of_ne {s : α} (h : s ≠ 0) : handleZeros s = s := by
  rw [handleZeros_eq, if_neg h]

theorem handleZeros_zero : handleZeros (0 : α) = 1 := by
  rw [handleZeros_eq, if_pos rfl]

@[simp] theorem boolMul_true (x : α) : boolMul true x = x := rfl
@[simp] theorem boolMul_false (x : α) : boolMul false x = 0 := rfl

theorem clipv_of_mem {lo hi x : α} (h1 : lo ≤ x) (h2 : x ≤ hi) : clipv lo hi x = x := by
  unfold clipv; rw [max_eq_left h1, min_eq_left h2]

/-! ### column extrema -/

/-- `np.max(matrix, axis=0)[j]` / `np.min(matrix, axis=0)[j]` as a supremum / infimum -/
def colSup [NeZero m] (A : Mat m n α) (j : Fin n) : α := univ.sup' univ_nonempty fun k => A k j
def colInf [NeZero m] (A : Mat m n α) (j : Fin n) : α := univ.inf' univ_nonempty fun k => A k j

theorem maxFin_col [NeZero m] (A : Mat m n α) (j : Fin n) : (maxFin fun k => A k j) = colSup A j :=
  maxFin_eq_sup' _
theorem minFin_col [NeZero m] (A : Mat m n α) (j : Fin n) : (minFin fun k => A k j) = colInf A j :=
  minFin_eq_inf' _
theorem le_colSup [NeZero m] (A : Mat m n α) (i : Fin m) (j : Fin n) : A i j ≤ colSup A j :=
  le_sup' (fun k => A k j) (mem_univ i)
theorem colInf_le [NeZero m] (A : Mat m n α) (i : Fin m) (j : Fin n) : colInf A j ≤ A i j :=
  inf'_le (fun k => A k j) (mem_univ i)
theorem exists_eq_colSup [NeZero m] (A : Mat m n α) (j : Fin n) : ∃ i, A i j = colSup A j := by
  obtain ⟨i, _, hi⟩ := exists_mem_eq_sup' univ_nonempty fun k => A k j
  exact ⟨i, hi.symm⟩
theorem exists_eq_colInf [NeZero m] (A : Mat m n α) (j : Fin n) : ∃ i, A i j = colInf A j := by
  obtain ⟨i, _, hi⟩ := exists_mem_eq_inf' univ_nonempty fun k => A k j
  exact ⟨i, hi.symm⟩
theorem colInf_le_colSup [NeZero m] (A : Mat m n α) (j : Fin n) : colInf A j ≤ colSup A j :=
  le_trans (colInf_le A 0 j) (le_colSup A 0 j)

/-- a column is non-constant iff its minimum is below its maximum -/
theorem colInf_lt_colSup_iff [NeZero m] (A : Mat m n α) (j : Fin n) :
    colInf A j < colSup A j ↔ ∃ a b, A a j ≠ A b j := by
  constructor
  · intro h
    obtain ⟨a, ha⟩ := exists_eq_colInf A j
    obtain ⟨b, hb⟩ := exists_eq_colSup A j
    exact ⟨a, b, by rw [ha, hb]; exact ne_of_lt h⟩
  · rintro ⟨a, b, hab⟩
    rcases lt_or_gt_of_ne hab with h | h
    · exact lt_of_le_of_lt (colInf_le A a j) (lt_of_lt_of_le h (le_colSup A b j))
    · exact lt_of_le_of_lt (colInf_le A b j) (lt_of_lt_of_le h (le_colSup A a j))

/-- largest absolute value of a column -/
def colSupAbs [NeZero m] (A : Mat m n α) (j : Fin n) : α := univ.sup' univ_nonempty fun k => |A k j|

theorem maxFin_abs_col [NeZero m] (A : Mat m n α) (j : Fin n) :
    (maxFin fun k => absv (A k j)) = colSupAbs A j := by
  rw [maxFin_eq_sup']; simp only [absv_eq_abs]; rfl
theorem abs_le_colSupAbs [NeZero m] (A : Mat m n α) (i : Fin m) (j : Fin n) : |A i j| ≤ colSupAbs A j :=
  le_sup' (fun k => |A k j|) (mem_univ i)
theorem exists_eq_colSupAbs [NeZero m] (A : Mat m n α) (j : Fin n) : ∃ i, |A i j| = colSupAbs A j := by
  obtain ⟨i, _, hi⟩ := exists_mem_eq_sup' univ_nonempty fun k => |A k j|
  exact ⟨i, hi.symm⟩
theorem colSupAbs_nonneg [NeZero m] (A : Mat m n α) (j : Fin n) : 0 ≤ colSupAbs A j :=
  le_trans (abs_nonneg _) (abs_le_colSupAbs A 0 j)
theorem colSupAbs_pos_iff [NeZero m] (A : Mat m n α) (j : Fin n) : 0 < colSupAbs A j ↔ ∃ k, A k j ≠ 0 := by
  constructor
  · intro h
    obtain ⟨i, hi⟩ := exists_eq_colSupAbs A j
    exact ⟨i, by intro h0; rw [h0, abs_zero] at hi; rw [← hi] at h; exact lt_irrefl _ h⟩
  · rintro ⟨k, hk⟩
    exact lt_of_lt_of_le (abs_pos.mpr hk) (abs_le_colSupAbs A k j)

/-! ### population mean and variance of a vector -/

/-- `np.mean(x)` -/
def mean (x : Fin m → α) : α := (∑ i, x i) / (m : α)
/-- `np.var(x)` (population variance, `ddof = 0`) -/
def pvar (x : Fin m → α) : α := (∑ i, (x i - mean x) ^ 2) / (m : α)

theorem natCast_ne_zero' [NeZero m] : ((m : ℕ) : α) ≠ 0 := Nat.cast_ne_zero.mpr (NeZero.ne m)

theorem mean_affine [NeZero m] (a b : α) (x : Fin m → α) : mean (fun i => a * x i + b) = a * mean x + b := by
  unfold mean
  have hm : ((m : ℕ) : α) ≠ 0 := natCast_ne_zero'
  rw [sum_add_distrib, ← mul_sum, sum_const, card_univ, Fintype.card_fin, nsmul_eq_mul]
  field_simp

theorem pvar_affine [NeZero m] (a b : α) (x : Fin m → α) : pvar (fun i => a * x i + b) = a ^ 2 * pvar x := by
  unfold pvar
  rw [mean_affine, mul_div_assoc', mul_sum]
  congr 1
  apply sum_congr rfl; intro i _; ring

theorem sum_sub_mean [NeZero m] (x : Fin m → α) : ∑ i, (x i - mean x) = 0 := by
  have hm : ((m : ℕ) : α) ≠ 0 := natCast_ne_zero'
  rw [sum_sub_distrib, sum_const, card_univ, Fintype.card_fin, nsmul_eq_mul]
  unfold mean; field_simp; ring

theorem pvar_nonneg (x : Fin m → α) : 0 ≤ pvar x :=
  div_nonneg (sum_nonneg fun _ _ => sq_nonneg _) (Nat.cast_nonneg m)

/-- the variance vanishes exactly on constant vectors -/
theorem pvar_eq_zero_iff [NeZero m] (x : Fin m → α) : pvar x = 0 ↔ ∀ a b, x a = x b := by
  have hm : ((m : ℕ) : α) ≠ 0 := natCast_ne_zero'
  unfold pvar
  rw [div_eq_zero_iff, or_iff_left hm, sum_eq_zero_iff_of_nonneg (fun i _ => sq_nonneg _)]
  constructor
  · intro h a b
    have ha := h a (mem_univ a); have hb := h b (mem_univ b)
    rw [sq_eq_zero_iff, sub_eq_zero] at ha hb
    rw [ha, hb]
  · intro h i _
    have : mean x = x i := by
      unfold mean
      rw [sum_congr rfl (fun k _ => h k i), sum_const, card_univ, Fintype.card_fin, nsmul_eq_mul]
      field_simp
    rw [this, sub_self]; ring

/-- what the model computes for the mean / variance of column `j` -/
theorem model_mean (A : Mat m n α) (j : Fin n) :
    (sumFin fun k => A k j) / (m : α) = mean fun k => A k j := by
  unfold mean; rw [sumFin_eq_sum]

theorem model_var (A : Mat m n α) (j : Fin n) (μ : α) :
    (sumFin fun k => (A k j - μ) * (A k j - μ)) / (m : α) = (∑ k, (A k j - μ) ^ 2) / (m : α) := by
  rw [sumFin_eq_sum]; simp only [sq]

end Skc.Scalers
